/-
C13 — IEE, Phase 3: the extended engine of Spec/FlashEncHw.lean (all five AES modes, page offset, 16-byte granular
CTR reads) inverts what `IeeKeyBlob.encrypt_image` / `Iee.encrypt_image` write; the counter construction of the
engine is the only one a CTR-type engine can have if it is to read SPSDK's output back.
-/
import SpsdkVerif.Proofs.FlashEncIee

namespace SpsdkVerif.FlashEnc
open SpsdkVerif SpsdkVerif.Crypto
open SpsdkVerif.Misc (beEnc beDec leEnc leDec)
open SpsdkVerif.Generated.FlashEncConsts

variable {c : CryptoOps}

/-! ### `IeeKeyBlob.encrypt_image` in the CTR modes, ANY 16-byte aligned address, any length -/

theorem ieex_mode_cases (b : IeeBlob) : b.mode = .bypass ∨ b.mode = .xts ∨ b.mode.isCtr = true := by
  cases b.mode <;> simp [IeeMode.isCtr]

theorem ieex_ctx_isCtrMode (b : IeeBlob) (hc : b.mode.isCtr = true) : b.ctx.isCtrMode = true ∧ b.ctx.modeTag ≠ 0xA6 := by
  have htag : b.ctx.modeTag = b.mode.tag := rfl
  unfold IeeCtx.isCtrMode
  rw [htag]
  cases hm : b.mode <;> simp_all [IeeMode.isCtr, IeeMode.tag, ieeModeCtrAddr, ieeModeCtrNoAddr, ieeModeCtrKeystream]

theorem ieex_encryptImage_ctr (b : IeeBlob) (hwf : b.WF) (hc : b.mode.isCtr = true) (L : Nat) (hL : L % 16 = 0) (d : Bytes) :
    b.encryptImage c L d =
      .ok (IeeBlob.ctrBlocks c (IeeCtx.word b.key1) (IeeCtx.word b.key2) (zeroPad 16 d).length (L / 16) (zeroPad 16 d)) := by
  have ha16 : ¬ L % 16 ≠ 0 := by omega
  have hk1 := hwf.k1
  have hk2 := hwf.k2
  have hk1s := iee_key1Size b
  have hk2s := iee_key2Size b
  have hk1m : b.key1.length % 4 = 0 := by omega
  have hk2m : b.key2.length % 4 = 0 := by omega
  have hm : b.mode ≠ .bypass := by
    intro e; rw [e] at hc; simp [IeeMode.isCtr] at hc
  unfold IeeBlob.encryptImage
  simp only [ha16, if_false, hm, ieeEncBlockSize, hc, if_true]
  unfold IeeBlob.encryptImageCtr
  rw [iee_rev_ok' _ hk1m, iee_rev_ok' _ hk2m]
  have hn : ¬ (IeeCtx.word b.key2).length ≠ 16 := by
    rw [iee_word_length _ hk2m, hk2, iee_key2Size_ctr b hc]; simp
  have hv : (!validAesKeyLen (IeeCtx.word b.key1)) = false := by
    simp only [validAesKeyLen, iee_word_length _ hk1m]
    rcases hk1s with e | e <;> simp [hk1, e]
  have hsh : L >>> 4 = L / 16 := by rw [Nat.shiftRight_eq_div_pow]
  simp only [hn, if_false, hv, Bool.false_eq_true, ieeCtrAddrShift, hsh]
  cases hz : zeroPad 16 d with
  | nil => simp [iee_ctrBlocks_nil]
  | cons x t => simp

/-- the CTR engine (A-PO, A-CTR) reading, block by block from the 16-byte aligned system address `p`, what SPSDK
    encrypted for the logical address `p + 4 KiB · pageOffset` -/
theorem ieex_ctr_any (h : CryptoLaws c) (b : IeeBlob) (hwf : b.WF) (hc : b.mode.isCtr = true) (p : Nat) (hp : p % 16 = 0)
    (d : Bytes) :
    ∃ ct, b.encryptImage c (b.ctx.logical p) d = .ok ct ∧ ct.length = (d.length + 15) / 16 * 16 ∧
      (ieeCtrReadX c b.ctx (blocksFor ct.length) p ct).take d.length = d := by
  have hL : b.ctx.logical p % 16 = 0 := by unfold IeeCtx.logical; omega
  have hk2m : b.key2.length % 4 = 0 := by
    have := hwf.k2; have := iee_key2Size b; omega
  have hNl : (IeeCtx.word b.key2).length = 16 := by
    rw [iee_word_length _ hk2m, hwf.k2, iee_key2Size_ctr b hc]
  have hlen := iee_ctrBlocks_length h (IeeCtx.word b.key1) (IeeCtx.word b.key2) (zeroPad 16 d).length (b.ctx.logical p / 16)
    (zeroPad 16 d) (Nat.le_refl _)
  have hz := zeroPad16_length d
  refine ⟨_, ieex_encryptImage_ctr b hwf hc _ hL d, by rw [hlen, hz], ?_⟩
  have hn : blocksFor (zeroPad 16 d).length = (d.length + 15) / 16 := by unfold blocksFor; omega
  unfold ieeCtrReadX
  rw [hlen, hn]
  have := iee_ctrPage_inv h b.ctx (IeeCtx.word b.key1) (IeeCtx.word b.key2) (by rw [iee_ctx_key1 b hwf])
    (by rw [iee_ctx_key2_ctr b hwf hc]) hNl ((d.length + 15) / 16) (zeroPad 16 d).length (b.ctx.logical p) (zeroPad 16 d)
    (by omega) (Nat.le_refl _)
  rw [this]
  exact zeroPad_take_self 16 d

/-! ### the counter is forced -/

theorem xorU8_inj (x y z : UInt8) (h : x ^^^ y = x ^^^ z) : y = z := by
  have : x ^^^ (x ^^^ y) = x ^^^ (x ^^^ z) := by rw [h]
  rwa [← UInt8.xor_assoc, ← UInt8.xor_assoc, UInt8.xor_self, UInt8.zero_xor, UInt8.zero_xor] at this

theorem xorBytes_inj_right : ∀ (a k1 k2 : Bytes), a.length = k1.length → a.length = k2.length →
    xorBytes a k1 = xorBytes a k2 → k1 = k2
  | [], k1, k2, h1, h2, _ => by
    have e1 : k1 = [] := List.eq_nil_of_length_eq_zero (by simpa using h1.symm)
    have e2 : k2 = [] := List.eq_nil_of_length_eq_zero (by simpa using h2.symm)
    rw [e1, e2]
  | x :: a, [], _, h1, _, _ => by simp at h1
  | x :: a, _ :: _, [], _, h2, _ => by simp at h2
  | x :: a, y :: k1, z :: k2, h1, h2, he => by
    simp only [xorBytes, List.zipWith_cons_cons, List.cons.injEq] at he
    have ih := xorBytes_inj_right a k1 k2 (by simpa using h1) (by simpa using h2) (by simpa [xorBytes] using he.2)
    rw [xorU8_inj x y z he.1, ih]

theorem ieex_ctrBlocks_one (K N : Bytes) (f cv : Nat) (blk : Bytes) (hblk : blk.length = 16) (hf : 0 < f) :
    IeeBlob.ctrBlocks c K N f cv blk = ctrXor c K (counterValue N cv) blk := by
  have hne : blk.isEmpty = false := by
    cases blk with
    | nil => simp at hblk
    | cons _ _ => rfl
  have ht : blk.take 16 = blk := List.take_of_length_le (by omega)
  have hd : blk.drop 16 = [] := List.drop_of_length_le (by omega)
  cases f with
  | zero => omega
  | succ f =>
    rw [IeeBlob.ctrBlocks]
    simp only [hne, Bool.false_eq_true, if_false, ieeEncBlockSize, ht, hd, iee_ctrBlocks_nil, List.append_nil]

/-- If ANY CTR-type engine (key = key1, keystream block = AES_K(`ctr`)) turns the block SPSDK wrote for address `a` back
    into the plaintext block, then `ctr` is `KEY2[127:32] ‖ BE32(KEY2[31:0] + (a >> 4))` — in every CTR mode. -/
theorem ieex_ctr_engine_only (h : CryptoLaws c) (b : IeeBlob) (hwf : b.WF) (hc : b.mode.isCtr = true) (a : Nat)
    (ha : a % 16 = 0) (blk ctr ct : Bytes) (hblk : blk.length = 16) (hctr : ctr.length = 16)
    (henc : b.encryptImage c a blk = .ok ct) (hdec : xorBytes ct (c.encBlk (IeeCtx.word b.key1) ctr) = blk) :
    ctr = (IeeCtx.word b.key2).take 12 ++ beEnc 4 (beDec ((IeeCtx.word b.key2).drop 12) + a / 16) := by
  have hk2m : b.key2.length % 4 = 0 := by
    have := hwf.k2; have := iee_key2Size b; omega
  have hNl : (IeeCtx.word b.key2).length = 16 := by
    rw [iee_word_length _ hk2m, hwf.k2, iee_key2Size_ctr b hc]
  have hzp : zeroPad 16 blk = blk := zeroPad_of_aligned 16 blk (by omega)
  have hiv : (counterValue (IeeCtx.word b.key2) (a / 16)).length = 16 := by
    simp [counterValue, beEnc_length, hNl]
  rw [ieex_encryptImage_ctr b hwf hc a ha blk, hzp, ieex_ctrBlocks_one _ _ _ _ blk hblk (by omega)] at henc
  have henc := (Except.ok.injEq _ _ ▸ henc : _ = ct)
  rw [ctrXor_block c _ _ _ hiv hblk] at henc
  subst henc
  have e1 := xorBytes_cancel_eq blk (c.encBlk (IeeCtx.word b.key1) (counterValue (IeeCtx.word b.key2) (a / 16)))
    (by rw [hblk, h.enc_len])
  have hE := xorBytes_inj_right _ _ _ (by simp [hblk, h.enc_len]) (by simp [hblk, h.enc_len]) (e1.trans hdec.symm)
  have := congrArg (c.decBlk (IeeCtx.word b.key1)) hE
  rw [h.dec_enc _ _ hiv, h.dec_enc _ _ hctr] at this
  rw [← this]
  rfl

/-! ### whole image, all five modes (page offset 0) -/

theorem ieex_hwPage_blob (h : CryptoLaws c) (ctxs : List IeeCtx) (b : IeeBlob) (hwf : b.WF) (hpo : b.pageOffset = 0) (a : Nat)
    (hf : ctxs.find? (fun x => x.hit a) = some b.ctx) (d : Bytes) :
    ieeHwPageX c ctxs a (b.encPage c a d) = if b.mode = .bypass then d else zeroPad 16 d := by
  have htag : b.ctx.modeTag = b.mode.tag := rfl
  have hlog : b.ctx.logical a = a := by
    show a + 4096 * b.pageOffset = a
    rw [hpo]; rfl
  have hk1s := iee_key1Size b
  have hk2s := iee_key2Size b
  have hk1 := hwf.k1
  have hk2 := hwf.k2
  unfold ieeHwPageX
  rw [hf]
  rcases ieex_mode_cases b with hm | hm | hc
  · have : b.ctx.isCtrMode = false := by
      unfold IeeCtx.isCtrMode; rw [htag, hm]; simp [IeeMode.tag, ieeModeBypass]
    simp [htag, hm, IeeMode.tag, ieeModeBypass, IeeBlob.encPage, this]
  · have hc : b.mode.isCtr = false := by rw [hm]; rfl
    simp only [htag, hlog, hm, IeeMode.tag, ieeModeXts, IeeBlob.encPage]
    rw [iee_ctx_key1 b hwf, iee_ctx_key2_xts b hwf hc, iee_tweak_eq]
    simp only [if_true]
    rw [xts_inv h _ _ _ _ (zeroPad_length_mod 16 (by omega) d)]
    simp
  · have hmb : b.mode ≠ .bypass := by
      intro e; rw [e] at hc; simp [IeeMode.isCtr] at hc
    have hmx : b.mode ≠ .xts := by
      intro e; rw [e] at hc; simp [IeeMode.isCtr] at hc
    obtain ⟨hcm, hna6⟩ := ieex_ctx_isCtrMode b hc
    have hk2m : b.key2.length % 4 = 0 := by omega
    have hNl : (IeeCtx.word b.key2).length = 16 := by
      rw [iee_word_length _ hk2m, hk2, iee_key2Size_ctr b hc]
    have hpage : b.encPage c a d =
        IeeBlob.ctrBlocks c (IeeCtx.word b.key1) (IeeCtx.word b.key2) (zeroPad 16 d).length (a / 16) (zeroPad 16 d) := by
      unfold IeeBlob.encPage
      cases hmm : b.mode <;> simp_all
    simp only [hna6, if_false, hcm, if_true, hmb, hpage]
    have hlen := iee_ctrBlocks_length h (IeeCtx.word b.key1) (IeeCtx.word b.key2) (zeroPad 16 d).length (a / 16)
      (zeroPad 16 d) (Nat.le_refl _)
    have hz := zeroPad16_length d
    have hn : blocksFor (zeroPad 16 d).length = (d.length + 15) / 16 := by unfold blocksFor; omega
    unfold ieeCtrReadX
    rw [hlen, hn, hlog]
    exact iee_ctrPage_inv h b.ctx (IeeCtx.word b.key1) (IeeCtx.word b.key2) (by rw [iee_ctx_key1 b hwf])
      (by rw [iee_ctx_key2_ctr b hwf hc]) hNl ((d.length + 15) / 16) (zeroPad 16 d).length a (zeroPad 16 d)
      (by omega) (Nat.le_refl _)

theorem ieex_hwPage_spec (h : CryptoLaws c) (bs : List IeeBlob) (hwf : ∀ b ∈ bs, b.WF ∧ b.pageOffset = 0) (a : Nat) (d : Bytes) :
    ieeHwPageX c (bs.map IeeBlob.ctx) a (ieeSpecPage c bs a d) = d ∨
    ieeHwPageX c (bs.map IeeBlob.ctx) a (ieeSpecPage c bs a d) = zeroPad 16 d := by
  have hfind := iee_find_ctx bs a
  unfold ieeSpecPage
  cases hact : ieeActive bs a with
  | none =>
    left
    rw [hact] at hfind
    simp only [ieeHwPageX]
    rw [hfind]
    rfl
  | some b =>
    rw [hact] at hfind
    have hb := hwf b (List.mem_of_find?_eq_some hact)
    simp only []
    rw [ieex_hwPage_blob h _ b hb.1 hb.2 a hfind d]
    by_cases hm : b.mode = .bypass
    · left; simp [hm]
    · right; simp [hm]

theorem ieex_readWith_nil (page : Nat → Bytes → Bytes) (f a : Nat) : ieeHwReadWith page f a [] = [] := by
  cases f <;> simp [ieeHwReadWith]

/-- page-by-page read of the specified ciphertext with ANY page function that inverts the page specification -/
theorem ieex_readWith_spec (h : CryptoLaws c) (bs : List IeeBlob) (page : Nat → Bytes → Bytes)
    (hpg : ∀ a d, page a (ieeSpecPage c bs a d) = d ∨ page a (ieeSpecPage c bs a d) = zeroPad 16 d) :
    ∀ (f2 f1 a : Nat) (m : Bytes), m.length ≤ f2 → (ieeSpec c bs f2 a m).length ≤ f1 →
      (ieeHwReadWith page f1 a (ieeSpec c bs f2 a m)).take m.length = m
  | 0, f1, a, m, hm, _ => by
    have : m = [] := List.eq_nil_of_length_eq_zero (by omega)
    subst this; simp
  | f2 + 1, f1, a, m, hm, hf1 => by
    cases hr : m with
    | nil => simp
    | cons x t =>
      rw [← hr]
      have hpos : 0 < m.length := by rw [hr]; simp
      have hne : m.isEmpty = false := by rw [hr]; rfl
      have hPl : (m.take 4096).length = min 4096 m.length := List.length_take
      have hX := iee_specPage_length h bs a (m.take 4096)
      have hpage := hpg a (m.take 4096)
      simp only [ieeSpec, hne, Bool.false_eq_true, if_false] at hf1 ⊢
      by_cases hle : m.length ≤ 4096
      · have hP : m.take 4096 = m := List.take_of_length_le hle
        have hD : m.drop 4096 = [] := List.drop_of_length_le hle
        rw [hP] at hX hpage
        rw [hP, hD, iee_spec_nil, List.append_nil] at hf1 ⊢
        have hXpos : 0 < (ieeSpecPage c bs a m).length := by omega
        have hXle : (ieeSpecPage c bs a m).length ≤ 4096 := by omega
        have hXne : (ieeSpecPage c bs a m).isEmpty = false := by
          cases hz : ieeSpecPage c bs a m with
          | nil => rw [hz] at hXpos; simp at hXpos
          | cons _ _ => rfl
        cases f1 with
        | zero => omega
        | succ f1 =>
          simp only [ieeHwReadWith, hXne, Bool.false_eq_true, if_false]
          rw [List.take_of_length_le hXle, List.drop_of_length_le hXle, ieex_readWith_nil, List.append_nil]
          rcases hpage with e | e <;> rw [e]
          · simp
          · exact zeroPad_take_self 16 m
      · have hPfull : (m.take 4096).length = 4096 := by omega
        have hXfull : (ieeSpecPage c bs a (m.take 4096)).length = 4096 := by omega
        have hpage' : page a (ieeSpecPage c bs a (m.take 4096)) = m.take 4096 := by
          rcases hpage with e | e
          · exact e
          · rw [e]; exact zeroPad_of_aligned 16 _ (by omega)
        cases f1 with
        | zero => rw [List.length_append, hXfull] at hf1; omega
        | succ f1 =>
          have hne2 : (ieeSpecPage c bs a (m.take 4096) ++ ieeSpec c bs f2 (a + 4096) (m.drop 4096)).isEmpty = false := by
            cases hz : ieeSpecPage c bs a (m.take 4096) with
            | nil => rw [hz] at hXfull; simp at hXfull
            | cons _ _ => rfl
          simp only [ieeHwReadWith, hne2, Bool.false_eq_true, if_false]
          rw [List.take_left' hXfull, List.drop_left' hXfull, hpage']
          have ih := ieex_readWith_spec h bs page hpg f2 f1 (a + 4096) (m.drop 4096) (by simp; omega)
            (by rw [List.length_append, hXfull] at hf1; omega)
          have hml : m.length = (m.take 4096).length + (m.drop 4096).length := by simp; omega
          rw [hml, List.take_length_add_append, ih, List.take_append_drop]

theorem ieex_spec_hw (h : CryptoLaws c) (bs : List IeeBlob) (hwf : ∀ b ∈ bs, b.WF ∧ b.pageOffset = 0)
    (base : Nat) (img : Bytes) :
    (ieeHwReadAllX c (bs.map IeeBlob.ctx) base (ieeSpecImage c bs base img)).take img.length = img := by
  unfold ieeHwReadAllX ieeSpecImage
  exact ieex_readWith_spec h bs _ (ieex_hwPage_spec h bs hwf) img.length _ base img (Nat.le_refl _) (Nat.le_refl _)

/-! ### page offset: one XTS page -/

/-- the XTS engine with page offset reading at the system page `p` what SPSDK encrypted for the logical page
    `p + 4 KiB · pageOffset` -/
theorem ieex_xts_page_offset (h : CryptoLaws c) (b : IeeBlob) (hwf : b.WF) (hm : b.mode = .xts) (p : Nat) (hp : p % 4096 = 0)
    (hin : b.start ≤ p ∧ p < b.end_) (d : Bytes) (h0 : 0 < d.length) (hd : d.length ≤ 4096) :
    ∃ ct, b.encryptImage c (b.ctx.logical p) d = .ok ct ∧ (ieeHwPageX c [b.ctx] p ct).take d.length = d := by
  have hL : b.ctx.logical p % 4096 = 0 := by unfold IeeCtx.logical; omega
  refine ⟨_, iee_encryptImage_page h b hwf _ hL d h0 hd, ?_⟩
  have hf : [b.ctx].find? (fun x => x.hit p) = some b.ctx := by
    simp [IeeCtx.hit, IeeBlob.ctx, hin.1, hin.2]
  have hc : b.mode.isCtr = false := by rw [hm]; rfl
  have htag : b.ctx.modeTag = 0xA6 := by
    show b.mode.tag = 0xA6
    rw [hm]; rfl
  unfold ieeHwPageX
  rw [hf]
  simp only [htag, if_true, IeeBlob.encPage, hm]
  rw [iee_ctx_key1 b hwf, iee_ctx_key2_xts b hwf hc, iee_tweak_eq, xts_inv h _ _ _ _ (zeroPad_length_mod 16 (by omega) d)]
  exact zeroPad_take_self 16 d

end SpsdkVerif.FlashEnc
