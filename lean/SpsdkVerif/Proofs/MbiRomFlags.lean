/-
C02: the flag-word fields as the independent ROM spec reads them (Spec/MbiRom.lean: own masks and shifts) equal the getters
GENERATED from the source (Generated/IvtConsts.lean), whatever closed form the generated bodies have (`*_shape` lemmas of
Proofs/MbiBase.lean).  The ROM proofs use these instead of definitional unfolding, so a behaviour-preserving rewrite of a
getter in the source does not break them.
-/
import SpsdkVerif.Proofs.MbiBase
import SpsdkVerif.Spec.MbiRom

namespace SpsdkVerif.Mbi
open SpsdkVerif SpsdkVerif.Generated.IvtConsts

theorem rom_type (f : Nat) : f &&& Spec.MbiRom.maskImageType = getImageType f := by rw [getImageType_shape]; rfl
theorem rom_tz (f : Nat) : f >>> Spec.MbiRom.shiftTzType &&& Spec.MbiRom.maskTzType = getTzType f := by rw [getTzType_shape]; rfl
theorem rom_sub (f : Nat) : f >>> Spec.MbiRom.shiftSubType &&& Spec.MbiRom.maskSubType = getSubType f := by rw [getSubType_shape]; rfl
theorem rom_ks (f : Nat) : (f &&& Spec.MbiRom.flagKeyStore != 0) = getKeyStorePresented f := by rw [getKeyStorePresented_shape]; rfl
theorem rom_hwkey (f : Nat) : (f &&& Spec.MbiRom.flagHwUserKey != 0) = getHwKeyEnabled f := by rw [getHwKeyEnabled_shape]; rfl
theorem rom_reloc (f : Nat) : (f &&& Spec.MbiRom.flagRelocTable != 0) = getAppTablePresented f := by rw [getAppTablePresented_shape]; rfl

end SpsdkVerif.Mbi
