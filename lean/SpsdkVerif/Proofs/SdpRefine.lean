/-
SDP no-fault refinement (C10): the SDP host model in closed loop with the live reference ROM (serial protocol and USB-HID
reports) has exactly the effect `Sdp.specOp` defines; SDPS delivers the image once and in order.
-/
import SpsdkVerif.Model.Sdp
import SpsdkVerif.Proofs.Sdp

namespace SpsdkVerif.Sdp
open SpsdkVerif SpsdkVerif.Sdp.S

/-- the specified ROM after an operation is again well-formed, with no data phase pending -/
theorem specOp_OK (ce : Bool) (r r' : Rom) (op : Op) (res : Except SErr Val) (st hab : Nat)
    (hr : r.OK) (hrecv : r.recv = none) (hargs : op.argsOK) (hspec : specOp ce r op = some (r', res, st, hab)) :
    r'.OK ∧ r'.recv = none := by
  sorry

/-- one SDP operation against the live ROM, either transport -/
theorem sdp_op_refines (h : Host) (r r' : Rom) (op : Op) (res : Except SErr Val) (st hab : Nat)
    (hs : Synced h r) (hr : r.OK) (hargs : op.argsOK) (hspec : specOp h.ce r op = some (r', res, st, hab)) :
    ∃ h', runOp op h = (res, h') ∧ Synced h' r' ∧ h'.status = st ∧ h'.hab = hab ∧ h'.ce = h.ce ∧ h'.tr = h.tr ∧
      h'.packSize = h.packSize := by
  sorry

/-- any sequence of covered operations, by induction over the history -/
theorem sdp_no_fault_refines (ops : List Op) (h : Host) (r r' : Rom) (rs : List (Except SErr Val × Nat × Nat))
    (hs : Synced h r) (hr : r.OK) (hargs : ∀ op ∈ ops, op.argsOK) (hspec : specOps h.ce ops r = some (rs, r')) :
    ∃ h', runOps ops h = (rs, h') ∧ Synced h' r' := by
  sorry

/-- SDPS / SDP-over-HID framing: the reports carry exactly the data, in order, each `1 + size` bytes with the report id first -/
theorem hidFrames_deliver (rid size : Nat) (b : Bytes) (hs : 0 < size) :
    (((hidFrames rid size b).map (List.drop 1)).flatten.take b.length = b) ∧
    (∀ f ∈ hidFrames rid size b, f.length = 1 + size ∧ f.head? = some (UInt8.ofNat rid)) ∧
    ((hidFrames rid size b).length = (b.length + size - 1) / size) := by
  sorry

end SpsdkVerif.Sdp
