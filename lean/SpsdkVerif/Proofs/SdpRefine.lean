/-
SDP no-fault refinement (C10): the SDP host model in closed loop with the live reference ROM (serial protocol and USB-HID
reports) has exactly the effect `Sdp.specOp` defines; SDPS delivers the image once and in order.

Structure of the proof: `Linked h r pend` is the link invariant (host `h` talks to ROM `r`, `pend` = the ROM's answers not
yet read, as a list of messages that is laid out as bytes on the serial protocol and as HAB / RET reports over USB-HID);
one lemma per primitive (`sendFrame_cmd`, `sendFrame_data`, `sendFrame_empty`, `protoRead_linked`), one per host routine
(`processCmd_linked`, `readStatus_linked`, `readData_linked`, `sendData_linked`), one per ROM command (`rom_*`).
-/
import SpsdkVerif.Model.Sdp
import SpsdkVerif.Proofs.Sdp

set_option linter.unusedSimpArgs false
set_option linter.unusedVariables false

namespace SpsdkVerif.Sdp
open SpsdkVerif SpsdkVerif.Sdp.S

/-! ### framing -/

theorem framesOf_nil (rid size f : Nat) : framesOf rid size f [] = [] := by
  cases f <;> simp [framesOf]

theorem padTo_length (n : Nat) (b : Bytes) : (padTo n b).length = b.length + (n - b.length) := by
  simp [padTo]

theorem div_step (n size : Nat) (hs : 0 < size) (hn : 0 < n) :
    (n - size + size - 1) / size + 1 = (n + size - 1) / size := by
  have e : n + size - 1 = (n - 1) + size := by omega
  rw [e, Nat.add_div_right _ hs]
  by_cases h : n ≤ size
  · have e1 : n - size + size - 1 = size - 1 := by omega
    rw [e1, Nat.div_eq_of_lt (by omega), Nat.div_eq_of_lt (by omega)]
  · have e1 : n - size + size - 1 = n - 1 := by omega
    rw [e1]

theorem framesOf_deliver (rid size : Nat) (hs : 0 < size) : ∀ (f : Nat) (b : Bytes), b.length ≤ f →
    (((framesOf rid size f b).map (List.drop 1)).flatten.take b.length = b) ∧
    (∀ x ∈ framesOf rid size f b, x.length = 1 + size ∧ x.head? = some (UInt8.ofNat rid)) ∧
    ((framesOf rid size f b).length = (b.length + size - 1) / size) := by
  intro f
  induction f with
  | zero =>
    intro b hb
    have : b = [] := List.eq_nil_of_length_eq_zero (by omega)
    subst this
    simp [framesOf, Nat.div_eq_of_lt (show size - 1 < size by omega)]
  | succ f ih =>
    intro b hb
    cases b with
    | nil => simp [framesOf, Nat.div_eq_of_lt (show size - 1 < size by omega)]
    | cons x xs =>
      have hne : (x :: xs).isEmpty = false := rfl
      obtain ⟨i1, i2, i3⟩ := ih ((x :: xs).drop size) (by simp at hb ⊢; omega)
      simp only [framesOf, hne, Bool.false_eq_true, if_false]
      refine ⟨?_, ?_, ?_⟩
      · simp only [List.map_cons, List.drop_one, List.tail_cons, List.flatten_cons]
        by_cases hl : (x :: xs).length ≤ size
        · have e : (x :: xs).take size = x :: xs := List.take_of_length_le hl
          rw [e, padTo, List.append_assoc, List.take_append_of_le_length (Nat.le_refl _), List.take_length]
        · have hl' : size < (x :: xs).length := by omega
          have e : padTo size ((x :: xs).take size) = (x :: xs).take size := by
            simp only [List.length_cons] at hl'
            simp [padTo, List.length_take]; omega
          have e2 : ((x :: xs).take size).length = size := by simp [List.length_take]; simp at hl'; omega
          rw [e, List.take_append, e2, List.take_of_length_le (by rw [e2]; omega)]
          have e3 : (x :: xs).length - size = ((x :: xs).drop size).length := by simp
          rw [e3, i1, List.take_append_drop]
      · intro y hy
        simp only [List.mem_cons] at hy
        rcases hy with rfl | hy
        · simp [padTo_length, List.length_take]; omega
        · exact i2 y hy
      · simp only [List.length_cons, i3, List.length_drop]
        have := div_step (xs.length + 1) size hs (by omega)
        simpa using this

/-! ### the specified ROM stays well-formed -/

theorem leBytes_length (n v : Nat) : (leBytes n v).length = n := by
  induction n generalizing v with
  | zero => simp [leBytes]
  | succ n ih => simp [leBytes, ih]

theorem splice_length (mem : Bytes) (a : Nat) (d : Bytes) (h : a + d.length ≤ mem.length) :
    (splice mem a d).length = mem.length := by
  simp [splice, List.length_take, List.length_drop]; omega

/-- the specified ROM after an operation is again well-formed, with no data phase pending -/
theorem specOp_OK (ce : Bool) (r r' : Rom) (op : Op) (res : Except SErr Val) (st hab : Nat)
    (hr : r.OK) (hrecv : r.recv = none) (hargs : op.argsOK) (hspec : specOp ce r op = some (r', res, st, hab)) :
    r'.OK ∧ r'.recv = none := by
  obtain ⟨h1, h2, h3⟩ := hr
  cases op with
  | read a n f =>
    simp only [specOp] at hspec
    split at hspec
    · simp only [Option.some.injEq, Prod.mk.injEq] at hspec
      obtain ⟨rfl, _⟩ := hspec
      exact ⟨⟨h1, h2, h3⟩, hrecv⟩
    · simp at hspec
  | write a v c f =>
    simp only [specOp] at hspec
    split at hspec
    · rename_i hc
      simp only [Option.some.injEq, Prod.mk.injEq] at hspec
      obtain ⟨rfl, _⟩ := hspec
      refine ⟨⟨?_, h2, h3⟩, hrecv⟩
      show (splice r.mem a (leBytes (f / 8) v)).length < _
      rw [splice_length _ _ _ (by rw [leBytes_length]; exact hc.2)]; exact h1
    · simp only [Option.some.injEq, Prod.mk.injEq] at hspec
      obtain ⟨rfl, _⟩ := hspec
      exact ⟨⟨h1, h2, h3⟩, hrecv⟩
  | writeFile a d =>
    simp only [specOp] at hspec
    split at hspec
    · rename_i hc
      simp only [Option.some.injEq, Prod.mk.injEq] at hspec
      obtain ⟨rfl, _⟩ := hspec
      refine ⟨⟨?_, h2, h3⟩, hrecv⟩
      show (splice r.mem a d).length < _
      rw [splice_length _ _ _ hc]; exact h1
    · simp only [Option.some.injEq, Prod.mk.injEq] at hspec
      obtain ⟨rfl, _⟩ := hspec
      exact ⟨⟨h1, h2, h3⟩, hrecv⟩
  | sdpsWriteFile nc ps d => simp [specOp] at hspec
  | _ =>
    simp only [specOp, Option.some.injEq, Prod.mk.injEq] at hspec
    obtain ⟨rfl, _⟩ := hspec
    exact ⟨⟨h1, h2, h3⟩, hrecv⟩

/-! ### answers as a list of messages -/

def chunksF : Nat → Bytes → List Bytes
  | 0, _ => []
  | f + 1, b => if b.isEmpty then [] else b.take 64 :: chunksF f (b.drop 64)

def chunks (b : Bytes) : List Bytes := chunksF b.length b

theorem chunksF_fuel : ∀ (f g : Nat) (b : Bytes), b.length ≤ f → b.length ≤ g → chunksF f b = chunksF g b := by
  intro f
  induction f with
  | zero =>
    intro g b hf hg
    have : b = [] := List.eq_nil_of_length_eq_zero (by omega)
    subst this
    cases g <;> simp [chunksF]
  | succ f ih =>
    intro g b hf hg
    cases b with
    | nil => cases g <;> simp [chunksF]
    | cons x xs =>
      cases g with
      | zero => simp at hg
      | succ g =>
        simp only [chunksF, List.isEmpty_cons, Bool.false_eq_true, if_false]
        rw [ih g _ (by simp at hf ⊢; omega) (by simp at hg ⊢ <;> omega)]

theorem chunks_nil : chunks [] = [] := rfl

theorem chunks_cons (b : Bytes) (hb : b ≠ []) : chunks b = b.take 64 :: chunks (b.drop 64) := by
  cases b with
  | nil => exact absurd rfl hb
  | cons x xs =>
    unfold chunks
    simp only [List.length_cons, chunksF, List.isEmpty_cons, Bool.false_eq_true, if_false]
    rw [chunksF_fuel xs.length ((x :: xs).drop 64).length _ (by simp <;> omega) (Nat.le_refl _)]

theorem chunks_small (b : Bytes) (hb : b ≠ []) (hl : b.length ≤ 64) : chunks b = [b] := by
  rw [chunks_cons b hb, List.take_of_length_le hl, List.drop_of_length_le hl, chunks_nil]

theorem retReports_eq : ∀ (f : Nat) (b : Bytes), b.length ≤ f →
    retReports f b = (chunks b).map (fun p => UInt8.ofNat Spec.ridRet :: padTo Spec.retSize p) := by
  intro f
  induction f with
  | zero =>
    intro b hb
    have : b = [] := List.eq_nil_of_length_eq_zero (by omega)
    subst this
    simp [retReports, chunks_nil]
  | succ f ih =>
    intro b hb
    cases b with
    | nil => simp [retReports, chunks_nil]
    | cons x xs =>
      rw [chunks_cons _ (by simp)]
      simp only [retReports, List.isEmpty_cons, Bool.false_eq_true, if_false, List.map_cons]
      rw [ih _ (by simp at hb ⊢; omega)]

theorem chunks_flatten' : ∀ (n : Nat) (b : Bytes), b.length ≤ n → (chunks b).flatten = b := by
  intro n
  induction n with
  | zero =>
    intro b hb
    have : b = [] := List.eq_nil_of_length_eq_zero (by omega)
    subst this; simp [chunks_nil]
  | succ n ih =>
    intro b hb
    cases b with
    | nil => simp [chunks_nil]
    | cons x xs =>
      rw [chunks_cons _ (by simp), List.flatten_cons, ih _ (by simp at hb ⊢; omega), List.take_append_drop]

theorem chunks_flatten (b : Bytes) : (chunks b).flatten = b := chunks_flatten' b.length b (Nat.le_refl _)

def repOf (m : Bool × Bytes) : Bytes :=
  if m.1 then UInt8.ofNat Spec.ridHab :: m.2 else UInt8.ofNat Spec.ridRet :: padTo Spec.retSize m.2

def msgs (out : Bytes) : List (Bool × Bytes) :=
  if out.isEmpty then [] else (true, out.take 4) :: (chunks (out.drop 4)).map (fun p => (false, p))

theorem toReports_eq (out : Bytes) : toReports out = (msgs out).map repOf := by
  unfold toReports msgs
  by_cases he : out.isEmpty = true
  · simp [he]
  · simp only [he, Bool.false_eq_true, if_false, List.map_cons, List.map_map]
    rw [retReports_eq _ _ (by simp)]
    simp [repOf, habReport, Function.comp_def]

theorem msgs_flatten (out : Bytes) : ((msgs out).map Prod.snd).flatten = out := by
  unfold msgs
  by_cases he : out.isEmpty = true
  · simp only [he, if_true]; simp at he; simp [he]
  · simp only [he, Bool.false_eq_true, if_false, List.map_cons, List.map_map, List.flatten_cons]
    have : (List.map (Prod.snd ∘ fun p => (false, p)) (chunks (out.drop 4))) = chunks (out.drop 4) := by
      simp [Function.comp_def]
    rw [this, chunks_flatten, List.take_append_drop]

theorem msgs_nil : msgs [] = [] := rfl

theorem msgs_hab (hab x : Bytes) (hl : hab.length = 4) :
    msgs (hab ++ x) = (true, hab) :: (chunks x).map (fun p => (false, p)) := by
  unfold msgs
  have : (hab ++ x).isEmpty = false := by
    cases hab with
    | nil => simp at hl
    | cons a t => rfl
  simp only [this, Bool.false_eq_true, if_false]
  rw [List.take_append_of_le_length (by omega), List.take_of_length_le (by omega),
    List.drop_append_of_le_length (by omega), List.drop_of_length_le (by omega), List.nil_append]

/-! ### the link invariant -/

/-- host `h` talks to ROM `r`; `pend` = the answers of the ROM not yet read (`true`: the HAB word) -/
def Linked (h : Host) (r : Rom) (pend : List (Bool × Bytes)) : Prop :=
  h.opened = true ∧ 16 ≤ h.packSize ∧
  ((h.tr = .serial ∧ h.peer = .live r ∧ h.rx = (pend.map Prod.snd).flatten ∧ h.rxR = []) ∨
   (h.tr = .hid ∧ h.peer = .liveHid { rom := r, buf := [] } ∧ h.rx = [] ∧ h.rxR = pend.map repOf))

def Same (h h' : Host) : Prop :=
  h'.status = h.status ∧ h'.hab = h.hab ∧ h'.ce = h.ce ∧ h'.tr = h.tr ∧ h'.packSize = h.packSize

theorem Same.refl (h : Host) : Same h h := ⟨rfl, rfl, rfl, rfl, rfl⟩
theorem Same.trans {a b c : Host} (x : Same a b) (y : Same b c) : Same a c :=
  ⟨y.1.trans x.1, y.2.1.trans x.2.1, y.2.2.1.trans x.2.2.1, y.2.2.2.1.trans x.2.2.2.1, y.2.2.2.2.trans x.2.2.2.2⟩

theorem hidFrames_cmd (ps : Nat) (w : Bytes) (hw : w.length = 16) (hp : 16 ≤ ps) :
    hidFrames Spec.ridCmd ps w = [UInt8.ofNat Spec.ridCmd :: padTo ps w] := by
  unfold hidFrames
  rw [hw]
  have hne : w.isEmpty = false := by
    cases w with
    | nil => simp at hw
    | cons a t => rfl
  rw [show (16 : Nat) = 15 + 1 from rfl, framesOf]
  simp only [hne, Bool.false_eq_true, if_false]
  rw [List.take_of_length_le (by omega), List.drop_of_length_le (by omega), framesOf_nil]

theorem sendFrame_cmd (h : Host) (r : Rom) (pend : List (Bool × Bytes)) (w : Bytes) (hl : Linked h r pend)
    (hrecv : r.recv = none) (hw : w.length = 16) :
    ∃ h', sendFrame Spec.ridCmd w h = (.ok (), h') ∧ Linked h' (r.step w).1 (pend ++ msgs (r.step w).2) ∧
      Same h h' ∧ (h.tr = .serial → h'.expectStatus = true) := by
  obtain ⟨ho, hp, hc⟩ := hl
  rcases hc with ⟨ht, hpe, hrx, hrxr⟩ | ⟨ht, hpe, hrx, hrxr⟩
  · refine ⟨h.write w, by simp only [sendFrame, ht], ?_, ?_, fun _ => rfl⟩
    · refine ⟨?_, ?_, Or.inl ⟨?_, ?_, ?_, ?_⟩⟩ <;>
        simp only [Host.write, Host.devWrite, ht, hpe, ho, hp, hrx, hrxr, List.map_append, List.flatten_append, msgs_flatten] <;> simp
    · refine ⟨?_, ?_, ?_, ?_, ?_⟩ <;> simp only [Host.write, Host.devWrite, ht, hpe]
  · have hps : ¬ (h.packSize = 0 ∧ ¬ w.isEmpty = true) := by omega
    refine ⟨(hidFrames Spec.ridCmd h.packSize w).foldl (fun x f => x.devWrite f) h,
      by simp only [sendFrame, ht, hps, if_false], ?_, ?_, fun x => by simp [ht] at x⟩
    · rw [hidFrames_cmd _ _ hw hp]
      have e : (padTo h.packSize w).take 16 = w := by
        rw [padTo, List.take_append_of_le_length (by omega), List.take_of_length_le (by omega)]
      refine ⟨?_, ?_, Or.inr ⟨?_, ?_, ?_, ?_⟩⟩ <;>
        simp only [List.foldl_cons, List.foldl_nil, Host.devWrite, HidRom.step, ht, hpe, ho, hp, hrx, hrxr, hrecv, e,
          toReports_eq, List.map_append] <;> simp
    · rw [hidFrames_cmd _ _ hw hp]
      refine ⟨?_, ?_, ?_, ?_, ?_⟩ <;> simp only [List.foldl_cons, List.foldl_nil, Host.devWrite, ht, hpe]


theorem take_padTo_take (ps m : Nat) (b : Bytes) (hb : b.length = m) :
    (padTo ps (b.take ps)).take m = b.take ps := by
  by_cases hl : b.length ≤ ps
  · rw [List.take_of_length_le hl, padTo, List.take_append_of_le_length (by omega), List.take_of_length_le (by omega)]
  · have e : padTo ps (b.take ps) = b.take ps := by
      simp [padTo, List.length_take]; omega
    rw [e, List.take_of_length_le (by simp [List.length_take]; omega)]

theorem HidRom_step_data (r : Rom) (buf payload : Bytes) (tag a n : Nat) (hrecv : r.recv = some (tag, a, n)) :
    HidRom.step ⟨r, buf⟩ (UInt8.ofNat Spec.ridData :: payload) =
      if (buf ++ payload.take (n - buf.length)).length = n then
        (⟨(r.step (buf ++ payload.take (n - buf.length))).1, []⟩, toReports (r.step (buf ++ payload.take (n - buf.length))).2)
      else (⟨r, buf ++ payload.take (n - buf.length)⟩, []) := by
  have e : (UInt8.ofNat Spec.ridData).toNat = Spec.ridData := by decide
  simp only [HidRom.step, hrecv, e, if_true]

theorem hid_data_fold (r : Rom) (tag a n ps : Nat) (hps : 0 < ps) (hrecv : r.recv = some (tag, a, n)) :
    ∀ (f : Nat) (b buf : Bytes) (h h' : Host), h.tr = .hid → h.peer = .liveHid ⟨r, buf⟩ → buf.length + b.length = n →
      b ≠ [] → b.length ≤ f → h' = (framesOf Spec.ridData ps f b).foldl (fun x f => x.devWrite f) h →
      h' = { h with txRev := h'.txRev, relRev := h'.relRev, peer := .liveHid ⟨(r.step (buf ++ b)).1, []⟩,
                    rxR := h.rxR ++ toReports (r.step (buf ++ b)).2 } := by
  intro f
  induction f with
  | zero =>
    intro b buf h h' _ _ _ hne hl
    exact absurd (List.eq_nil_of_length_eq_zero (by omega)) hne
  | succ f ih =>
    intro b buf h h' ht hpe hn hne hl hh'
    have hemp : b.isEmpty = false := by
      cases b with
      | nil => exact absurd rfl hne
      | cons x xs => rfl
    rw [framesOf] at hh'
    simp only [hemp, Bool.false_eq_true, if_false, List.foldl_cons] at hh'
    have hpay : (padTo ps (b.take ps)).take (n - buf.length) = b.take ps :=
      take_padTo_take ps _ b (by omega)
    by_cases hb : b.length ≤ ps
    · have e1 : b.take ps = b := List.take_of_length_le hb
      have e2 : b.drop ps = [] := List.drop_of_length_le hb
      rw [e2, framesOf_nil, List.foldl_nil] at hh'
      have : (buf ++ b).length = n := by simp; omega
      simp only [Host.devWrite, ht, hpe, HidRom_step_data r buf _ tag a n hrecv, hpay] at hh'
      rw [e1] at hh'
      simp only [this, if_true] at hh'
      subst hh'
      simp only [ht]
    · have hlen : (buf ++ b.take ps).length ≠ n := by simp [List.length_take]; omega
      obtain ⟨h1, hh1⟩ : ∃ h1 : Host, h1 = { h with
          txRev := (UInt8.ofNat Spec.ridData :: padTo ps (b.take ps)) :: h.txRev, relRev := [] :: h.relRev,
          peer := .liveHid ⟨r, buf ++ b.take ps⟩ } := ⟨_, rfl⟩
      have e1 : h.devWrite (UInt8.ofNat Spec.ridData :: padTo ps (b.take ps)) = h1 := by
        rw [hh1]
        simp only [Host.devWrite, ht, hpe, HidRom_step_data r buf _ tag a n hrecv, hpay, hlen, if_false, List.append_nil]
      rw [e1] at hh'
      have := ih (b.drop ps) (buf ++ b.take ps) h1 h' (by rw [hh1]; exact ht) (by rw [hh1]) (by simp [List.length_take]; omega)
        (by intro hc; have := congrArg List.length hc; simp at this; omega) (by simp; omega) hh'
      rw [List.append_assoc, List.take_append_drop] at this
      rw [this, hh1]


theorem sendFrame_serial (h : Host) (r : Rom) (pend : List (Bool × Bytes)) (rid : Nat) (w : Bytes) (hl : Linked h r pend)
    (ht : h.tr = .serial) :
    ∃ h', sendFrame rid w h = (.ok (), h') ∧ Linked h' (r.step w).1 (pend ++ msgs (r.step w).2) ∧
      Same h h' ∧ (h.tr = .serial → h'.expectStatus = true) := by
  obtain ⟨ho, hp, hc⟩ := hl
  rcases hc with ⟨_, hpe, hrx, hrxr⟩ | ⟨ht', _⟩
  · refine ⟨h.write w, by simp only [sendFrame, ht], ?_, ?_, fun _ => rfl⟩
    · refine ⟨?_, ?_, Or.inl ⟨?_, ?_, ?_, ?_⟩⟩ <;>
        simp only [Host.write, Host.devWrite, ht, hpe, ho, hp, hrx, hrxr, List.map_append, List.flatten_append, msgs_flatten] <;> simp
    · refine ⟨?_, ?_, ?_, ?_, ?_⟩ <;> simp only [Host.write, Host.devWrite, ht, hpe]
  · rw [ht] at ht'; cases ht'

theorem sendFrame_data (h : Host) (r : Rom) (pend : List (Bool × Bytes)) (w : Bytes) (tag a : Nat) (hl : Linked h r pend)
    (hrecv : r.recv = some (tag, a, w.length)) (hw : w ≠ []) :
    ∃ h', sendFrame Spec.ridData w h = (.ok (), h') ∧ Linked h' (r.step w).1 (pend ++ msgs (r.step w).2) ∧
      Same h h' ∧ (h.tr = .serial → h'.expectStatus = true) := by
  cases ht : h.tr with
  | serial => simpa [ht] using sendFrame_serial h r pend Spec.ridData w hl ht
  | hid =>
    obtain ⟨ho, hp, hc⟩ := hl
    rcases hc with ⟨ht', _⟩ | ⟨_, hpe, hrx, hrxr⟩
    · rw [ht] at ht'; cases ht'
    · have hps : ¬ (h.packSize = 0 ∧ ¬ w.isEmpty = true) := by omega
      refine ⟨(hidFrames Spec.ridData h.packSize w).foldl (fun x f => x.devWrite f) h,
        by simp only [sendFrame, ht, hps, if_false], ?_, ?_, fun x => by simp at x⟩
      · have := hid_data_fold r tag a w.length h.packSize (by omega) hrecv w.length w [] h _ ht hpe (by simp) hw
          (Nat.le_refl _) rfl
        rw [List.nil_append] at this
        unfold hidFrames
        rw [this]
        exact ⟨ho, hp, Or.inr ⟨ht, rfl, hrx, by simp [hrxr, toReports_eq]⟩⟩
      · have := hid_data_fold r tag a w.length h.packSize (by omega) hrecv w.length w [] h _ ht hpe (by simp) hw
          (Nat.le_refl _) rfl
        unfold hidFrames
        rw [this]
        exact ⟨rfl, rfl, rfl, rfl, rfl⟩

theorem parseCmd_nil : parseCmd [] = none := rfl

theorem sendFrame_empty (h : Host) (r : Rom) (pend : List (Bool × Bytes)) (hl : Linked h r pend) (hrecv : r.recv = none) :
    ∃ h', sendFrame Spec.ridData [] h = (.ok (), h') ∧ Linked h' r pend ∧ Same h h' := by
  cases ht : h.tr with
  | serial =>
    obtain ⟨h', e1, e2, e3, _⟩ := sendFrame_serial h r pend Spec.ridData [] hl ht
    have : r.step [] = (r, []) := by simp [Rom.step, hrecv, parseCmd_nil]
    rw [this] at e2
    simp only [msgs_nil, List.append_nil] at e2
    exact ⟨h', e1, e2, e3⟩
  | hid =>
    refine ⟨h, ?_, hl, Same.refl h⟩
    simp [sendFrame, ht, hidFrames, framesOf]

theorem protoRead_linked (h : Host) (r : Rom) (k : Bool) (p : Bytes) (rest : List (Bool × Bytes)) (m : Nat)
    (hl : Linked h r ((k, p) :: rest)) (hm : p.length = if m = 0 then 4 else m) :
    ∃ flag z h', protoRead m h = (.ok (flag, p ++ List.replicate z 0), h') ∧ Linked h' r rest ∧ Same h h' ∧
      h'.expectStatus = h.expectStatus ∧ (h.tr = .serial → flag = h.expectStatus) ∧ (h.tr = .hid → flag = k) ∧
      ((h.tr = .serial ∨ k = true ∨ 64 ≤ p.length) → z = 0) := by
  obtain ⟨ho, hp, hc⟩ := hl
  rcases hc with ⟨ht, hpe, hrx, hrxr⟩ | ⟨ht, hpe, hrx, hrxr⟩
  · have hn : 0 < p.length := by rw [hm]; split <;> omega
    have hne : h.rx.isEmpty = false := by
      rw [hrx]
      cases p with
      | nil => simp at hn
      | cons x xs => rfl
    have hle : (if m = 0 then 4 else m) ≤ h.rx.length := by rw [← hm, hrx]; simp
    refine ⟨h.expectStatus, 0, { h with rx := h.rx.drop (if m = 0 then 4 else m) }, ?_, ?_, ⟨rfl, rfl, rfl, rfl, rfl⟩, rfl,
      ?_, ?_, ?_⟩
    · simp only [protoRead, ht, hle, hne, Bool.false_eq_true, not_false_eq_true, and_self, if_true]
      rw [hrx, ← hm]
      simp
    · refine ⟨ho, hp, Or.inl ⟨ht, hpe, ?_, hrxr⟩⟩
      show h.rx.drop _ = _
      rw [hrx, ← hm]; simp
    · intro _; rfl
    · intro x; rw [ht] at x; cases x
    · intro _; rfl
  · refine ⟨k, if k then 0 else 64 - p.length, { h with rxR := rest.map repOf }, ?_, ?_, ⟨rfl, rfl, rfl, rfl, rfl⟩, rfl,
      ?_, ?_, ?_⟩
    · simp only [protoRead, ht, hrxr, List.map_cons, repOf]
      cases k
      · have : ¬ (UInt8.ofNat Spec.ridRet).toNat = Spec.ridHab := by decide
        simp [padTo]
        decide
      · have : (UInt8.ofNat Spec.ridHab).toNat = Spec.ridHab := by decide
        simp [this]
    · exact ⟨ho, hp, Or.inr ⟨ht, hpe, hrx, rfl⟩⟩
    · intro x; rw [ht] at x; cases x
    · intro _; rfl
    · rintro (x | x | x)
      · rw [ht] at x; cases x
      · simp [x]
      · split <;> omega
theorem rom_read (r : Rom) (a n f : Nat) (hrecv : r.recv = none) (ha : a < 4294967296) (hn : n < 4294967296)
    (hf : f < 256) (hle : a + n ≤ r.mem.length) :
    r.step (Cmd.encode ⟨Spec.cReadRegister, a, f, n, 0⟩) =
      ({ r with ncmd := r.ncmd + 1 }, r.hab ++ (r.mem.drop a).take n) := by
  have hfit : (⟨Spec.cReadRegister, a, f, n, 0⟩ : Cmd).fits := ⟨by simp [Spec.cReadRegister], ha, hf, hn, by simp⟩
  simp only [Rom.step, hrecv, cmd_roundtrip' _ hfit, if_true, hle]

theorem rom_write_ok (r : Rom) (a v c f : Nat) (hrecv : r.recv = none) (hforced : r.forced = []) (ha : a < 4294967296)
    (hv : v < 4294967296) (hc : c < 4294967296) (hf : f < 256)
    (hok : (f = 8 ∨ f = 16 ∨ f = 32) ∧ a + f / 8 ≤ r.mem.length) :
    r.step (Cmd.encode ⟨Spec.cWriteRegister, a, f, c, v⟩) =
      ({ r with ncmd := r.ncmd + 1, mem := splice r.mem a (leBytes (f / 8) v) }, r.hab ++ be 4 Spec.rWriteDataOk) := by
  have hfit : (⟨Spec.cWriteRegister, a, f, c, v⟩ : Cmd).fits := ⟨by simp [Spec.cWriteRegister], ha, hf, hc, hv⟩
  simp [Rom.step, hrecv, cmd_roundtrip' _ hfit, Spec.cReadRegister, Spec.cWriteRegister, Spec.cWriteFile, Spec.cErrorStatus, Spec.cWriteCsf, Spec.cWriteDcd, Spec.cJumpAddress, Spec.cSkipDcdHeader, hforced, hok]

theorem rom_write_bad (r : Rom) (a v c f : Nat) (hrecv : r.recv = none) (hforced : r.forced = []) (ha : a < 4294967296)
    (hv : v < 4294967296) (hc : c < 4294967296) (hf : f < 256)
    (hok : ¬ ((f = 8 ∨ f = 16 ∨ f = 32) ∧ a + f / 8 ≤ r.mem.length)) :
    r.step (Cmd.encode ⟨Spec.cWriteRegister, a, f, c, v⟩) =
      ({ r with ncmd := r.ncmd + 1 }, r.hab ++ be 4 0) := by
  have hfit : (⟨Spec.cWriteRegister, a, f, c, v⟩ : Cmd).fits := ⟨by simp [Spec.cWriteRegister], ha, hf, hc, hv⟩
  simp [Rom.step, hrecv, cmd_roundtrip' _ hfit, Spec.cReadRegister, Spec.cWriteRegister, Spec.cWriteFile, Spec.cErrorStatus, Spec.cWriteCsf, Spec.cWriteDcd, Spec.cJumpAddress, Spec.cSkipDcdHeader, hforced, hok]

theorem rom_skip (r : Rom) (hrecv : r.recv = none) (hforced : r.forced = []) :
    r.step (Cmd.encode ⟨Spec.cSkipDcdHeader, 0, 0, 0, 0⟩) =
      ({ r with ncmd := r.ncmd + 1 }, r.hab ++ be 4 Spec.rSkipDcdHeaderOk) := by
  have hfit : (⟨Spec.cSkipDcdHeader, 0, 0, 0, 0⟩ : Cmd).fits := by decide
  simp [Rom.step, hrecv, cmd_roundtrip' _ hfit, Spec.cReadRegister, Spec.cWriteRegister, Spec.cWriteFile, Spec.cErrorStatus, Spec.cWriteCsf, Spec.cWriteDcd, Spec.cJumpAddress, Spec.cSkipDcdHeader, hforced]

theorem rom_status (r : Rom) (hrecv : r.recv = none) (hforced : r.forced = []) :
    r.step (Cmd.encode ⟨Spec.cErrorStatus, 0, 0, 0, 0⟩) =
      ({ r with ncmd := r.ncmd + 1 }, r.hab ++ be 4 r.errStatus) := by
  have hfit : (⟨Spec.cErrorStatus, 0, 0, 0, 0⟩ : Cmd).fits := by decide
  simp [Rom.step, hrecv, cmd_roundtrip' _ hfit, Spec.cReadRegister, Spec.cWriteRegister, Spec.cWriteFile, Spec.cErrorStatus, Spec.cWriteCsf, Spec.cWriteDcd, Spec.cJumpAddress, Spec.cSkipDcdHeader, hforced]

theorem rom_jump (r : Rom) (a : Nat) (hrecv : r.recv = none) (ha : a < 4294967296) :
    r.step (Cmd.encode ⟨Spec.cJumpAddress, a, 0, 0, 0⟩) =
      ({ r with ncmd := r.ncmd + 1, jumped := some a }, r.hab ++ []) := by
  have hfit : (⟨Spec.cJumpAddress, a, 0, 0, 0⟩ : Cmd).fits := ⟨by simp [Spec.cJumpAddress], ha, by simp, by simp, by simp⟩
  simp [Rom.step, hrecv, cmd_roundtrip' _ hfit, Spec.cReadRegister, Spec.cWriteRegister, Spec.cWriteFile, Spec.cErrorStatus, Spec.cWriteCsf, Spec.cWriteDcd, Spec.cJumpAddress, Spec.cSkipDcdHeader]


/-- command with data phase: the command (answered at once if there is no data), then the data -/
def DataPhase (r : Rom) (c : Cmd) (d : Bytes) (r2 : Rom) (sv : Nat) : Prop :=
  (d = [] ∧ r2.recv = none ∧ r.step c.encode = (r2, r.hab ++ be 4 sv)) ∨
  (d ≠ [] ∧ ∃ r1 tag a, r.step c.encode = (r1, []) ∧ r1.recv = some (tag, a, d.length) ∧
    r1.step d = (r2, r.hab ++ be 4 sv))

theorem splice_nil (mem : Bytes) (a : Nat) : splice mem a [] = mem := by
  simp [splice]

theorem rom_file (r : Rom) (a : Nat) (d : Bytes) (hrecv : r.recv = none) (hforced : r.forced = [])
    (ha : a < 4294967296) (hd : d.length < 4294967296) :
    DataPhase r ⟨Spec.cWriteFile, a, 0, d.length, 0⟩ d
      (if a + d.length ≤ r.mem.length then { r with ncmd := r.ncmd + 1, mem := splice r.mem a d } else { r with ncmd := r.ncmd + 1 })
      (if a + d.length ≤ r.mem.length then Spec.rWriteFileOk else 0) := by
  have hfit : (⟨Spec.cWriteFile, a, 0, d.length, 0⟩ : Cmd).fits := ⟨by simp [Spec.cWriteFile], ha, by simp, hd, by simp⟩
  obtain ⟨mem, locked, es, recv, ncmd, forced, jumped⟩ := r
  simp only at hrecv hforced
  subst hrecv; subst hforced
  by_cases hd0 : d = []
  · subst hd0
    refine Or.inl ⟨rfl, by split <;> rfl, ?_⟩
    simp only [List.length_nil] at hfit ⊢
    by_cases hle : a ≤ mem.length
    · have : ¬ mem.length < a := by omega
      simp [Rom.step, cmd_roundtrip' _ hfit, Spec.cReadRegister, Spec.cWriteRegister, Spec.cWriteFile, hle, this, splice_nil,
        okValue, Rom.hab]
    · have : mem.length < a := by omega
      simp [Rom.step, cmd_roundtrip' _ hfit, Spec.cReadRegister, Spec.cWriteRegister, Spec.cWriteFile, hle, this, Rom.hab]
  · have hn : d.length ≠ 0 := fun h => hd0 (List.eq_nil_of_length_eq_zero h)
    refine Or.inr ⟨hd0, Rom.mk mem locked es (some (Spec.cWriteFile, a, d.length)) (ncmd + 1) [] jumped, Spec.cWriteFile, a, ?_, rfl, ?_⟩
    · simp [Rom.step, cmd_roundtrip' _ hfit, Spec.cReadRegister, Spec.cWriteRegister, Spec.cWriteFile, hn]
    · by_cases hle : a + d.length ≤ mem.length
      · simp [Rom.step, hle, Rom.hab]
      · simp [Rom.step, hle, Rom.hab]

theorem rom_dcd (r : Rom) (a : Nat) (d : Bytes) (hrecv : r.recv = none) (hforced : r.forced = [])
    (ha : a < 4294967296) (hd : d.length < 4294967296) :
    DataPhase r ⟨Spec.cWriteDcd, a, 0, d.length, 0⟩ d { r with ncmd := r.ncmd + 1 } Spec.rWriteDataOk := by
  have hfit : (⟨Spec.cWriteDcd, a, 0, d.length, 0⟩ : Cmd).fits := ⟨by simp [Spec.cWriteDcd], ha, by simp, hd, by simp⟩
  obtain ⟨mem, locked, es, recv, ncmd, forced, jumped⟩ := r
  simp only at hrecv hforced
  subst hrecv; subst hforced
  by_cases hd0 : d = []
  · subst hd0
    refine Or.inl ⟨rfl, rfl, ?_⟩
    simp only [List.length_nil] at hfit ⊢
    simp [Rom.step, cmd_roundtrip' _ hfit, Spec.cReadRegister, Spec.cWriteRegister, Spec.cWriteFile, Spec.cWriteDcd,
        okValue, Rom.hab]
  · have hn : d.length ≠ 0 := fun h => hd0 (List.eq_nil_of_length_eq_zero h)
    refine Or.inr ⟨hd0, Rom.mk mem locked es (some (Spec.cWriteDcd, a, d.length)) (ncmd + 1) [] jumped, Spec.cWriteDcd, a, ?_, rfl, ?_⟩
    · simp [Rom.step, cmd_roundtrip' _ hfit, Spec.cReadRegister, Spec.cWriteRegister, Spec.cWriteFile, Spec.cWriteDcd, hn]
    · simp [Rom.step, Rom.hab, okValue, Spec.cWriteFile, Spec.cWriteDcd]

theorem rom_csf (r : Rom) (a : Nat) (d : Bytes) (hrecv : r.recv = none) (hforced : r.forced = [])
    (ha : a < 4294967296) (hd : d.length < 4294967296) :
    DataPhase r ⟨Spec.cWriteCsf, a, 0, d.length, 0⟩ d { r with ncmd := r.ncmd + 1 } Spec.rWriteDataOk := by
  have hfit : (⟨Spec.cWriteCsf, a, 0, d.length, 0⟩ : Cmd).fits := ⟨by simp [Spec.cWriteCsf], ha, by simp, hd, by simp⟩
  obtain ⟨mem, locked, es, recv, ncmd, forced, jumped⟩ := r
  simp only at hrecv hforced
  subst hrecv; subst hforced
  by_cases hd0 : d = []
  · subst hd0
    refine Or.inl ⟨rfl, rfl, ?_⟩
    simp only [List.length_nil] at hfit ⊢
    simp [Rom.step, cmd_roundtrip' _ hfit, Spec.cReadRegister, Spec.cWriteRegister, Spec.cWriteFile, Spec.cWriteDcd,
        Spec.cWriteCsf, okValue, Rom.hab]
  · have hn : d.length ≠ 0 := fun h => hd0 (List.eq_nil_of_length_eq_zero h)
    refine Or.inr ⟨hd0, Rom.mk mem locked es (some (Spec.cWriteCsf, a, d.length)) (ncmd + 1) [] jumped, Spec.cWriteCsf, a, ?_, rfl, ?_⟩
    · simp [Rom.step, cmd_roundtrip' _ hfit, Spec.cReadRegister, Spec.cWriteRegister, Spec.cWriteFile, Spec.cWriteDcd,
        Spec.cWriteCsf, hn]
    · simp [Rom.step, Rom.hab, okValue, Spec.cWriteFile, Spec.cWriteCsf]


/-! ### host primitives over the link -/

theorem respValue_be (v : Nat) (z : Bytes) (hv : v < 4294967296) : respValue (be 4 v ++ z) = .ok v := by
  unfold respValue
  have : ¬ (be 4 v ++ z).length < 4 := by simp
  rw [if_neg this, take_be, fromBe_be 4 v (by omega)]

theorem habWord_lt (r : Rom) : habWord r < 4294967296 := by
  unfold habWord; split <;> decide

theorem hab_eq (r : Rom) : r.hab = be 4 (habWord r) := rfl

theorem Linked.upd {h h' : Host} {r : Rom} {p : List (Bool × Bytes)} (hl : Linked h r p)
    (h1 : h'.opened = h.opened) (h2 : h'.packSize = h.packSize) (h3 : h'.tr = h.tr) (h4 : h'.peer = h.peer)
    (h5 : h'.rx = h.rx) (h6 : h'.rxR = h.rxR) : Linked h' r p := by
  unfold Linked at hl ⊢
  rw [h1, h2, h3, h4, h5, h6]; exact hl

theorem writeCommand_fits (c : Cmd) (hf : c.fits) : writeCommand c = sendFrame Spec.ridCmd c.encode := by
  simp [writeCommand, hf]

theorem processCmd_linked (h : Host) (r : Rom) (c : Cmd) (x : Bytes) (hl : Linked h r []) (hrecv : r.recv = none)
    (hf : c.fits) (hout : (r.step c.encode).2 = r.hab ++ x) :
    ∃ h', processCmd c h = (.ok true, h') ∧ Linked h' (r.step c.encode).1 ((chunks x).map (fun p => (false, p))) ∧
      h'.status = (if r.locked then Spec.stHabIsLocked else Spec.stSuccess) ∧ h'.hab = habWord r ∧ h'.ce = h.ce ∧
      h'.tr = h.tr ∧ h'.packSize = h.packSize := by
  have ho : h.opened = true := hl.1
  obtain ⟨h1, e1, l1, s1, x1⟩ := sendFrame_cmd { h with status := Spec.stSuccess } r [] c.encode
    (hl.upd rfl rfl rfl rfl rfl rfl) hrecv (encode_length c)
  rw [hout, List.nil_append, msgs_hab _ _ (by simp [Rom.hab])] at l1
  obtain ⟨flag, z, h2, e2, l2, s2, _, f1, f2, hz⟩ := protoRead_linked h1 _ true r.hab _ 0 l1 (by simp [Rom.hab])
  have hz0 : z = 0 := hz (Or.inr (Or.inl rfl))
  have hflag : flag = true := by
    cases ht : h1.tr with
    | serial => rw [f1 ht]; exact x1 (s1.2.2.2.1 ▸ ht)
    | hid => exact f2 ht
  subst hz0; subst hflag
  have hv : respValue (r.hab ++ List.replicate 0 0) = .ok (habWord r) := by
    rw [hab_eq]; exact respValue_be _ _ (habWord_lt r)
  refine ⟨{ h2 with hab := habWord r, status := if habWord r ≠ Spec.rUnlocked then Spec.stHabIsLocked else h2.status }, ?_,
    l2.upd rfl rfl rfl rfl rfl rfl, ?_, rfl, ?_, ?_, ?_⟩
  · unfold processCmd
    simp only [bind_run, get_run]
    rw [if_neg (by simp [ho])]
    simp only [bind_run, modify_run, guardConn_run, writeCommand_fits c hf, e1, e2, hv]
    rfl
  · show (if habWord r ≠ Spec.rUnlocked then Spec.stHabIsLocked else h2.status) = _
    rw [s2.1, s1.1]
    unfold habWord
    cases r.locked <;> simp [Spec.rLocked, Spec.rUnlocked]
  · exact s2.2.2.1.trans s1.2.2.1
  · exact s2.2.2.2.1.trans s1.2.2.2.1
  · exact s2.2.2.2.2.trans s1.2.2.2.2

theorem readStatus_linked (h : Host) (r : Rom) (k : Bool) (v : Nat) (rest : List (Bool × Bytes))
    (hl : Linked h r ((k, be 4 v) :: rest)) (hv : v < 4294967296) :
    ∃ h', readStatus h = (.ok v, h') ∧ Linked h' r rest ∧ Same h h' := by
  obtain ⟨flag, z, h2, e2, l2, s2, _, _, _, _⟩ := protoRead_linked h r k (be 4 v) rest 0 hl (by simp)
  refine ⟨h2, ?_, l2, s2⟩
  unfold readStatus
  simp only [guardConn_run, bind_run, e2, respValue_be v _ hv]
  rfl

theorem readDataLoop_done (n f : Nat) (acc : Bytes) (h : Host) (hn : n ≤ acc.length) :
    readDataLoop n (f + 1) acc h = (.ok (acc.take n), h) := by
  rw [readDataLoop, if_neg (by omega)]; rfl

theorem readDataLoop_linked (r : Rom) (n : Nat) : ∀ (f : Nat) (rest acc : Bytes) (h : Host),
    Linked h r ((chunks rest).map (fun p => (false, p))) → acc.length + rest.length = n → rest.length < f →
    ∃ h', readDataLoop n f acc h = (.ok (acc ++ rest), h') ∧ Linked h' r [] ∧ Same h h' := by
  intro f
  induction f with
  | zero => intro rest acc h _ _ hf; omega
  | succ f ih =>
    intro rest acc h hl hn hf
    by_cases hr : rest = []
    · subst hr
      rw [chunks_nil] at hl
      refine ⟨h, ?_, hl, Same.refl h⟩
      rw [readDataLoop_done n f acc h (by simp at hn; omega)]
      simp at hn ⊢
      rw [List.take_of_length_le (by omega)]
    · have hpos : 0 < rest.length := List.length_pos_iff.mpr hr
      rw [chunks_cons rest hr, List.map_cons] at hl
      have hl0 : Linked { h with expectStatus := false } r
          ((false, rest.take 64) :: (chunks (rest.drop 64)).map (fun p => (false, p))) :=
        hl.upd rfl rfl rfl rfl rfl rfl
      have hm : (rest.take 64).length = if min (n - acc.length) Spec.maxRead = 0 then 4 else min (n - acc.length) Spec.maxRead := by
        have : n - acc.length = rest.length := by omega
        rw [this, List.length_take, if_neg (by simp [Spec.maxRead]; omega), Nat.min_comm]
      obtain ⟨flag, z, h2, e2, l2, s2, _, f1, f2, hz⟩ := protoRead_linked _ r false (rest.take 64) _ _ hl0 hm
      have hflag : flag = false := by
        cases ht : h.tr with
        | serial => exact f1 ht
        | hid => exact f2 ht
      subst hflag
      rw [readDataLoop, if_pos (by omega)]
      simp only [bind_run, modify_run, guardConn_run, e2]
      simp only [Bool.false_eq_true, not_false_eq_true, if_true]
      by_cases h64 : 64 ≤ rest.length
      · have hz0 : z = 0 := hz (Or.inr (Or.inr (by simp [List.length_take]; omega)))
        subst hz0
        obtain ⟨h3, e3, l3, s3⟩ := ih (rest.drop 64) (acc ++ rest.take 64) h2 l2
          (by simp [List.length_take]; omega) (by simp; omega)
        refine ⟨h3, ?_, l3, Same.trans (Same.trans ?_ s2) s3⟩
        · simp only [List.replicate_zero, List.append_nil]
          rw [e3, List.append_assoc, List.take_append_drop]
        · exact ⟨rfl, rfl, rfl, rfl, rfl⟩
      · have e1 : rest.take 64 = rest := List.take_of_length_le (by omega)
        have e4 : rest.drop 64 = [] := List.drop_of_length_le (by omega)
        rw [e4, chunks_nil] at l2
        have hf' : ∃ f', f = f' + 1 := ⟨f - 1, by omega⟩
        obtain ⟨f', rfl⟩ := hf'
        refine ⟨h2, ?_, l2, Same.trans ?_ s2⟩
        · rw [readDataLoop_done n f' _ h2 (by simp [e1]; omega), e1, ← List.append_assoc,
            List.take_append_of_le_length (by simp; omega), List.take_of_length_le (by simp; omega)]
        · exact ⟨rfl, rfl, rfl, rfl, rfl⟩

theorem readData_linked (r : Rom) (n : Nat) (d : Bytes) (h : Host)
    (hl : Linked h r ((chunks d).map (fun p => (false, p)))) (hn : d.length = n) :
    ∃ h', readData n h = (.ok d, h') ∧ Linked h' r [] ∧ Same h h' := by
  obtain ⟨h', e, l, s⟩ := readDataLoop_linked r n (n + h.rxR.length + h.fuelHint + 1) d [] h hl (by simp [hn]) (by omega)
  exact ⟨h', by simpa [readData] using e, l, s⟩

theorem bind_fun_run {α β} (g : Host → Except SErr α × Host) (f : α → S β) (s : Host) :
    (@bind S _ α β g f) s = match g s with
      | (.ok a, s') => f a s'
      | (.error e, s') => (.error e, s') := rfl

theorem sendData_linked (h : Host) (r r2 : Rom) (c : Cmd) (d : Bytes) (sv : Nat) (hl : Linked h r []) (hrecv : r.recv = none)
    (hf : c.fits) (hdp : DataPhase r c d r2 sv) (hsv : sv < 4294967296)
    (hnf : c.tag ≠ Spec.cWriteFile → sv = Spec.rWriteDataOk) :
    ∃ res h', sendData c d h = (res, h') ∧ Linked h' r2 [] ∧
      h'.hab = (if r.locked then Spec.stHabIsLocked else Spec.rUnlocked) ∧ h'.ce = h.ce ∧ h'.tr = h.tr ∧
      h'.packSize = h.packSize ∧
      ((c.tag = Spec.cWriteFile → sv = Spec.rWriteFileOk) → res = .ok true ∧ h'.status = Spec.stSuccess) ∧
      (c.tag = Spec.cWriteFile → sv ≠ Spec.rWriteFileOk →
        res = (if h.ce then .error (.cmd Spec.stWriteImageFailure) else .ok false) ∧ h'.status = Spec.stWriteImageFailure) := by
  have ho : h.opened = true := hl.1
  have hl0 : Linked { h with status := Spec.stSuccess } r [] := hl.upd rfl rfl rfl rfl rfl rfl
  -- command and data: afterwards the ROM is `r2` and both words are pending
  have hw : ∃ h1 h2, writeCommand c { h with status := Spec.stSuccess } = (.ok (), h1) ∧
      sendFrame Spec.ridData d h1 = (.ok (), h2) ∧
      Linked h2 r2 [(true, r.hab), (false, be 4 sv)] ∧ Same { h with status := Spec.stSuccess } h2 := by
    have hm : msgs (r.hab ++ be 4 sv) = [(true, r.hab), (false, be 4 sv)] := by
      rw [msgs_hab _ _ (by simp [Rom.hab]), chunks_small _ (by simp [be]) (by simp)]; rfl
    rw [writeCommand_fits c hf]
    rcases hdp with ⟨hd, hr2, hst⟩ | ⟨hd, r1, tag, a, hst, hr1, hst2⟩
    · subst hd
      obtain ⟨h1, e1, l1, s1, _⟩ := sendFrame_cmd _ r [] c.encode hl0 hrecv (encode_length c)
      rw [hst] at l1
      simp only [List.nil_append, hm] at l1
      obtain ⟨h2, e2, l2, s2⟩ := sendFrame_empty h1 r2 _ l1 hr2
      exact ⟨h1, h2, e1, e2, l2, s1.trans s2⟩
    · obtain ⟨h1, e1, l1, s1, _⟩ := sendFrame_cmd _ r [] c.encode hl0 hrecv (encode_length c)
      rw [hst] at l1
      simp only [List.nil_append, msgs_nil] at l1
      obtain ⟨h2, e2, l2, s2, _⟩ := sendFrame_data h1 r1 [] d tag a l1 hr1 hd
      rw [hst2] at l2
      simp only [List.nil_append, hm] at l2
      exact ⟨h1, h2, e1, e2, l2, s1.trans s2⟩
  obtain ⟨h1, h2, e1, e2, l2, s2⟩ := hw
  obtain ⟨fl3, z3, h3, e3, l3, s3, _, _, _, hz3⟩ := protoRead_linked h2 r2 true r.hab _ 0 l2 (by simp [Rom.hab])
  have hv3 : respValue (r.hab ++ List.replicate z3 0) = .ok (habWord r) := by
    rw [hab_eq]; exact respValue_be _ _ (habWord_lt r)
  obtain ⟨h3', hh3'⟩ : ∃ h3' : Host, h3' = { h3 with hab := if habWord r ≠ Spec.rUnlocked then Spec.stHabIsLocked else habWord r } := ⟨_, rfl⟩
  have l3' : Linked h3' r2 [(false, be 4 sv)] := by rw [hh3']; exact l3.upd rfl rfl rfl rfl rfl rfl
  obtain ⟨fl4, z4, h4, e4, l4, s4, _, _, _, hz4⟩ := protoRead_linked h3' r2 false (be 4 sv) _ 0 l3' (by simp)
  have hv4 : respValue (be 4 sv ++ List.replicate z4 0) = .ok sv := respValue_be _ _ hsv
  unfold sendData
  simp only [bind_run, get_run]
  rw [if_neg (by simp [ho])]
  simp only [bind_run, bind_fun_run, modify_run, guardConn_run, e1, e2, e3, hv3, ← hh3', e4, hv4]
  have c4 : h4.ce = h.ce := by rw [s4.2.2.1, hh3']; exact s3.2.2.1.trans s2.2.2.1
  have t4 : h4.tr = h.tr := by rw [s4.2.2.2.1, hh3']; exact s3.2.2.2.1.trans s2.2.2.2.1
  have p4 : h4.packSize = h.packSize := by rw [s4.2.2.2.2, hh3']; exact s3.2.2.2.2.trans s2.2.2.2.2
  have st4 : h4.status = Spec.stSuccess := by rw [s4.1, hh3']; exact s3.1.trans s2.1
  have hab4 : h4.hab = (if r.locked then Spec.stHabIsLocked else Spec.rUnlocked) := by
    rw [s4.2.1, hh3']
    show (if habWord r ≠ Spec.rUnlocked then Spec.stHabIsLocked else habWord r) = _
    unfold habWord
    cases r.locked <;> simp [Spec.rLocked, Spec.rUnlocked]
  have n1 : ¬ (c.tag = Spec.cWriteDcd ∧ sv ≠ Spec.rWriteDataOk) :=
    fun ⟨a, b⟩ => b (hnf (by rw [a]; simp [Spec.cWriteDcd, Spec.cWriteFile]))
  have n2 : ¬ (c.tag = Spec.cWriteCsf ∧ sv ≠ Spec.rWriteDataOk) :=
    fun ⟨a, b⟩ => b (hnf (by rw [a]; simp [Spec.cWriteCsf, Spec.cWriteFile]))
  rw [if_neg n1, if_neg n2]
  by_cases hbad : c.tag = Spec.cWriteFile ∧ sv ≠ Spec.rWriteFileOk
  · rw [if_pos hbad]
    simp only [bind_run, modify_run, pure_run, get_run]
    cases hce : h.ce with
    | false =>
      have : h4.ce = false := c4.trans hce
      simp only [this, Bool.false_eq_true, and_false, if_false, pure_run]
      refine ⟨_, _, rfl, l4.upd rfl rfl rfl rfl rfl rfl, hab4, rfl, t4, p4, fun x => absurd (x hbad.1) hbad.2, fun _ _ => ⟨rfl, rfl⟩⟩
    | true =>
      have : h4.ce = true := c4.trans hce
      simp only [this, Bool.false_eq_true, not_false_eq_true, and_self, if_true, fail_run]
      refine ⟨_, _, rfl, l4.upd rfl rfl rfl rfl rfl rfl, hab4, rfl, t4, p4, fun x => absurd (x hbad.1) hbad.2, fun _ _ => ⟨rfl, rfl⟩⟩
  · rw [if_neg hbad]
    simp only [pure_run, get_run, not_true_eq_false, false_and, if_false]
    refine ⟨_, _, rfl, l4.upd rfl rfl rfl rfl rfl rfl, hab4, c4, t4, p4, fun _ => ⟨rfl, st4⟩, fun a b => absurd ⟨a, b⟩ hbad⟩

theorem statusTail_ok (okv failSt : Nat) (h : Host) : statusTail okv okv failSt h = (.ok (.bool true), h) := by
  simp [statusTail]

theorem statusTail_bad (st okv failSt : Nat) (h : Host) (hne : st ≠ okv) :
    statusTail st okv failSt h =
      ((if h.ce then .error (.cmd failSt) else .ok (.bool false)), { h with status := failSt }) := by
  unfold statusTail
  rw [if_pos hne]
  simp only [bind_run, modify_run, get_run]
  cases h.ce <;> rfl

theorem Synced.linked {h : Host} {r : Rom} (hs : Synced h r) : Linked h r [] := by
  refine ⟨hs.opened, hs.pack, ?_⟩
  rcases hs.peer with ⟨a, b⟩ | ⟨a, b⟩
  · exact Or.inl ⟨a, b, by simp [hs.rx], hs.rxR⟩
  · exact Or.inr ⟨a, b, hs.rx, by simp [hs.rxR]⟩

theorem Linked.synced {h : Host} {r : Rom} (hl : Linked h r []) (hr : r.recv = none) : Synced h r := by
  obtain ⟨ho, hp, hc⟩ := hl
  rcases hc with ⟨a, b, c, d⟩ | ⟨a, b, c, d⟩
  · exact ⟨Or.inl ⟨a, b⟩, hr, by simpa using c, d, ho, hp⟩
  · exact ⟨Or.inr ⟨a, b⟩, hr, c, by simpa using d, ho, hp⟩

/-- one SDP operation against the live ROM, either transport -/
theorem sdp_op_refines (h : Host) (r r' : Rom) (op : Op) (res : Except SErr Val) (st hab : Nat)
    (hs : Synced h r) (hr : r.OK) (hargs : op.argsOK) (hspec : specOp h.ce r op = some (r', res, st, hab)) :
    ∃ h', runOp op h = (res, h') ∧ Synced h' r' ∧ h'.status = st ∧ h'.hab = hab ∧ h'.ce = h.ce ∧ h'.tr = h.tr ∧
      h'.packSize = h.packSize := by
  have hl : Linked h r [] := hs.linked
  have hrecv : r.recv = none := hs.recv
  obtain ⟨hmem, hforced, herr⟩ := hr
  cases op with
  | read a n f =>
    obtain ⟨ha, hn, hf⟩ := hargs
    simp only [specOp] at hspec
    split at hspec
    · rename_i hle
      simp only [Option.some.injEq, Prod.mk.injEq] at hspec
      obtain ⟨rfl, rfl, rfl, rfl⟩ := hspec
      have hstep := rom_read r a n f hrecv ha hn hf hle
      have hfit : (⟨Spec.cReadRegister, a, f, n, 0⟩ : Cmd).fits := ⟨by simp [Spec.cReadRegister], ha, hf, hn, by simp⟩
      obtain ⟨h1, e1, l1, st1, hab1, c1, t1, p1⟩ := processCmd_linked h r _ ((r.mem.drop a).take n) hl hrecv hfit (by rw [hstep])
      rw [hstep] at l1
      obtain ⟨h2, e2, l2, s2⟩ := readData_linked _ n _ h1 l1 (by simp [List.length_take, List.length_drop]; omega)
      refine ⟨h2, ?_, l2.synced hrecv, s2.1.trans st1, s2.2.1.trans hab1, s2.2.2.1.trans c1, s2.2.2.2.1.trans t1,
        s2.2.2.2.2.trans p1⟩
      simp only [runOp, bind_run, e1, e2]
      rfl
    · simp at hspec
  | write a v c f =>
    obtain ⟨ha, hv, hc, hf⟩ := hargs
    have hfit : (⟨Spec.cWriteRegister, a, f, c, v⟩ : Cmd).fits := ⟨by simp [Spec.cWriteRegister], ha, hf, hc, hv⟩
    simp only [specOp] at hspec
    split at hspec
    · rename_i hok
      simp only [Option.some.injEq, Prod.mk.injEq] at hspec
      obtain ⟨rfl, rfl, rfl, rfl⟩ := hspec
      have hstep := rom_write_ok r a v c f hrecv hforced ha hv hc hf hok
      obtain ⟨h1, e1, l1, st1, hab1, c1, t1, p1⟩ := processCmd_linked h r _ (be 4 Spec.rWriteDataOk) hl hrecv hfit (by rw [hstep])
      rw [hstep, chunks_small _ (by simp [be]) (by simp)] at l1
      obtain ⟨h2, e2, l2, s2⟩ := readStatus_linked h1 _ false Spec.rWriteDataOk [] l1 (by simp [Spec.rWriteDataOk])
      refine ⟨h2, ?_, l2.synced hrecv, s2.1.trans st1, s2.2.1.trans hab1, s2.2.2.1.trans c1, s2.2.2.2.1.trans t1,
        s2.2.2.2.2.trans p1⟩
      simp only [runOp, bind_run, e1, e2, statusTail_ok]
    · rename_i hok
      simp only [Option.some.injEq, Prod.mk.injEq] at hspec
      obtain ⟨rfl, rfl, rfl, rfl⟩ := hspec
      have hstep := rom_write_bad r a v c f hrecv hforced ha hv hc hf hok
      obtain ⟨h1, e1, l1, st1, hab1, c1, t1, p1⟩ := processCmd_linked h r _ (be 4 0) hl hrecv hfit (by rw [hstep])
      rw [hstep, chunks_small _ (by simp [be]) (by simp)] at l1
      obtain ⟨h2, e2, l2, s2⟩ := readStatus_linked h1 _ false 0 [] l1 (by simp)
      refine ⟨{ h2 with status := Spec.stWriteRegisterFailure }, ?_,
        (Linked.upd (h' := { h2 with status := Spec.stWriteRegisterFailure }) l2 rfl rfl rfl rfl rfl rfl).synced hrecv, rfl,
        s2.2.1.trans hab1, s2.2.2.1.trans c1, s2.2.2.2.1.trans t1, s2.2.2.2.2.trans p1⟩
      simp only [runOp, bind_run, e1, e2]
      rw [statusTail_bad _ _ _ _ (by simp [Spec.rWriteDataOk]), s2.2.2.1.trans c1]
  | writeFile a d =>
    obtain ⟨ha, hd⟩ := hargs
    have hfit : (⟨Spec.cWriteFile, a, 0, d.length, 0⟩ : Cmd).fits := ⟨by simp [Spec.cWriteFile], ha, by simp, hd, by simp⟩
    have hdp := rom_file r a d hrecv hforced ha hd
    simp only [specOp] at hspec
    split at hspec
    · rename_i hok
      simp only [Option.some.injEq, Prod.mk.injEq] at hspec
      obtain ⟨rfl, rfl, rfl, rfl⟩ := hspec
      simp only [hok, if_true] at hdp
      obtain ⟨res, h', e, l, hab', c', t', p', hA, _⟩ := sendData_linked h r _ _ d _ hl hrecv hfit hdp
        (by simp [Spec.rWriteFileOk]) (fun x => absurd rfl x)
      obtain ⟨rfl, st'⟩ := hA (fun _ => rfl)
      refine ⟨h', ?_, l.synced hrecv, st', hab', c', t', p'⟩
      simp only [runOp, bind_run, e]
      rfl
    · rename_i hok
      simp only [Option.some.injEq, Prod.mk.injEq] at hspec
      obtain ⟨rfl, rfl, rfl, rfl⟩ := hspec
      simp only [hok, if_false] at hdp
      obtain ⟨res, h', e, l, hab', c', t', p', _, hB⟩ := sendData_linked h r _ _ d _ hl hrecv hfit hdp
        (by simp) (fun x => absurd rfl x)
      obtain ⟨rfl, st'⟩ := hB rfl (by simp [Spec.rWriteFileOk])
      refine ⟨h', ?_, l.synced hrecv, st', hab', c', t', p'⟩
      simp only [runOp, bind_run, e]
      cases h.ce <;> rfl
  | writeDcd a d =>
    obtain ⟨ha, hd⟩ := hargs
    have hfit : (⟨Spec.cWriteDcd, a, 0, d.length, 0⟩ : Cmd).fits := ⟨by simp [Spec.cWriteDcd], ha, by simp, hd, by simp⟩
    have hdp := rom_dcd r a d hrecv hforced ha hd
    simp only [specOp, Option.some.injEq, Prod.mk.injEq] at hspec
    obtain ⟨rfl, rfl, rfl, rfl⟩ := hspec
    obtain ⟨res, h', e, l, hab', c', t', p', hA, _⟩ := sendData_linked h r _ _ d _ hl hrecv hfit hdp
      (by simp [Spec.rWriteDataOk]) (fun _ => rfl)
    obtain ⟨rfl, st'⟩ := hA (fun x => by simp [Spec.cWriteDcd, Spec.cWriteFile] at x)
    refine ⟨h', ?_, l.synced hrecv, st', hab', c', t', p'⟩
    simp only [runOp, bind_run, e]
    rfl
  | writeCsf a d =>
    obtain ⟨ha, hd⟩ := hargs
    have hfit : (⟨Spec.cWriteCsf, a, 0, d.length, 0⟩ : Cmd).fits := ⟨by simp [Spec.cWriteCsf], ha, by simp, hd, by simp⟩
    have hdp := rom_csf r a d hrecv hforced ha hd
    simp only [specOp, Option.some.injEq, Prod.mk.injEq] at hspec
    obtain ⟨rfl, rfl, rfl, rfl⟩ := hspec
    obtain ⟨res, h', e, l, hab', c', t', p', hA, _⟩ := sendData_linked h r _ _ d _ hl hrecv hfit hdp
      (by simp [Spec.rWriteDataOk]) (fun _ => rfl)
    obtain ⟨rfl, st'⟩ := hA (fun x => by simp [Spec.cWriteCsf, Spec.cWriteFile] at x)
    refine ⟨h', ?_, l.synced hrecv, st', hab', c', t', p'⟩
    simp only [runOp, bind_run, e]
    rfl
  | skipDcd =>
    have hfit : (⟨Spec.cSkipDcdHeader, 0, 0, 0, 0⟩ : Cmd).fits := by decide
    simp only [specOp, Option.some.injEq, Prod.mk.injEq] at hspec
    obtain ⟨rfl, rfl, rfl, rfl⟩ := hspec
    have hstep := rom_skip r hrecv hforced
    obtain ⟨h1, e1, l1, st1, hab1, c1, t1, p1⟩ := processCmd_linked h r _ (be 4 Spec.rSkipDcdHeaderOk) hl hrecv hfit (by rw [hstep])
    rw [hstep, chunks_small _ (by simp [be]) (by simp)] at l1
    obtain ⟨h2, e2, l2, s2⟩ := readStatus_linked h1 _ false Spec.rSkipDcdHeaderOk [] l1 (by simp [Spec.rSkipDcdHeaderOk])
    refine ⟨h2, ?_, l2.synced hrecv, s2.1.trans st1, s2.2.1.trans hab1, s2.2.2.1.trans c1, s2.2.2.2.1.trans t1,
      s2.2.2.2.2.trans p1⟩
    simp only [runOp, bind_run, e1, e2, statusTail_ok]
  | jumpAndRun a =>
    have ha : a < 4294967296 := hargs
    have hfit : (⟨Spec.cJumpAddress, a, 0, 0, 0⟩ : Cmd).fits := ⟨by simp [Spec.cJumpAddress], ha, by simp, by simp, by simp⟩
    simp only [specOp, Option.some.injEq, Prod.mk.injEq] at hspec
    obtain ⟨rfl, rfl, rfl, rfl⟩ := hspec
    have hstep := rom_jump r a hrecv ha
    obtain ⟨h1, e1, l1, st1, hab1, c1, t1, p1⟩ := processCmd_linked h r _ [] hl hrecv hfit (by rw [hstep])
    rw [hstep, chunks_nil] at l1
    refine ⟨h1, ?_, l1.synced hrecv, st1, hab1, c1, t1, p1⟩
    simp only [runOp, bind_run, e1]
    rfl
  | readStatus =>
    have hfit : (⟨Spec.cErrorStatus, 0, 0, 0, 0⟩ : Cmd).fits := by decide
    simp only [specOp, Option.some.injEq, Prod.mk.injEq] at hspec
    obtain ⟨rfl, rfl, rfl, rfl⟩ := hspec
    have hstep := rom_status r hrecv hforced
    obtain ⟨h1, e1, l1, st1, hab1, c1, t1, p1⟩ := processCmd_linked h r _ (be 4 r.errStatus) hl hrecv hfit (by rw [hstep])
    rw [hstep, chunks_small _ (by simp [be]) (by simp)] at l1
    obtain ⟨h2, e2, l2, s2⟩ := readStatus_linked h1 _ false r.errStatus [] l1 herr
    refine ⟨h2, ?_, l2.synced hrecv, s2.1.trans st1, s2.2.1.trans hab1, s2.2.2.1.trans c1, s2.2.2.2.1.trans t1,
      s2.2.2.2.2.trans p1⟩
    simp only [runOp, bind_run, e1, e2]
    rfl
  | sdpsWriteFile nc ps d => simp [specOp] at hspec

/-- any sequence of covered operations, by induction over the history -/
theorem sdp_no_fault_refines (ops : List Op) (h : Host) (r r' : Rom) (rs : List (Except SErr Val × Nat × Nat))
    (hs : Synced h r) (hr : r.OK) (hargs : ∀ op ∈ ops, op.argsOK) (hspec : specOps h.ce ops r = some (rs, r')) :
    ∃ h', runOps ops h = (rs, h') ∧ Synced h' r' := by
  induction ops generalizing h r rs with
  | nil =>
    simp only [specOps, Option.some.injEq, Prod.mk.injEq] at hspec
    obtain ⟨rfl, rfl⟩ := hspec
    exact ⟨h, rfl, hs⟩
  | cons op ops ih =>
    simp only [specOps] at hspec
    cases h1 : specOp h.ce r op with
    | none => rw [h1] at hspec; simp at hspec
    | some x =>
      obtain ⟨r1, res, st, hab⟩ := x
      rw [h1] at hspec
      simp only at hspec
      cases h2 : specOps h.ce ops r1 with
      | none => rw [h2] at hspec; simp at hspec
      | some y =>
        obtain ⟨rs1, r2⟩ := y
        rw [h2] at hspec
        simp only [Option.some.injEq, Prod.mk.injEq] at hspec
        obtain ⟨rfl, rfl⟩ := hspec
        have ha : op.argsOK := hargs op (by simp)
        obtain ⟨h', e, s', st', hab', ce', _, _⟩ := sdp_op_refines h r r1 op res st hab hs hr ha h1
        obtain ⟨ok1, rc1⟩ := specOp_OK h.ce r r1 op res st hab hr hs.recv ha h1
        obtain ⟨h'', e2, s''⟩ := ih h' r1 rs1 s' ok1 (fun o ho => hargs o (by simp [ho])) (by rw [ce']; exact h2)
        refine ⟨h'', ?_, s''⟩
        simp only [runOps, e, e2, st', hab']

/-- SDPS / SDP-over-HID framing: the reports carry exactly the data, in order, each `1 + size` bytes with the report id first -/
theorem hidFrames_deliver (rid size : Nat) (b : Bytes) (hs : 0 < size) :
    (((hidFrames rid size b).map (List.drop 1)).flatten.take b.length = b) ∧
    (∀ f ∈ hidFrames rid size b, f.length = 1 + size ∧ f.head? = some (UInt8.ofNat rid)) ∧
    ((hidFrames rid size b).length = (b.length + size - 1) / size) :=
  framesOf_deliver rid size hs b.length b (Nat.le_refl _)


end SpsdkVerif.Sdp
