/- C07 helper lemmas, part 8: the data blocks of an exported CSF sit where the commands point, 4-aligned, behind the
   commands, inside the CSF, in ascending order without overlap. -/
import SpsdkVerif.Proofs.HabRomBase

namespace SpsdkVerif.Hab
open SpsdkVerif SpsdkVerif.Misc SpsdkVerif.Generated
open SpsdkVerif.Spec
open SpsdkVerif.Spec.HabRom (bindE chk sub rdN u8at u16be u32be u32le RCmd)

theorem size_mod4 (c : Cmd) : c.size % 4 = 0 := by
  cases c with
  | insKey => simp [Cmd.size]
  | autDat fl key sf eng cfg loc bl => simp [Cmd.size]; omega
  | set => simp [Cmd.size]
  | unlock e f uid => simp only [Cmd.size]; split <;> decide
  | nop => simp [Cmd.size]

theorem cmdsSize_mod4 (l : List CsfCmd) : cmdsSize l % 4 = 0 := by
  induction l with
  | nil => rfl
  | cons c r ih => have := size_mod4 c.cmd; simp only [cmdsSize]; omega

theorem csfHdrLen_mod4 (l : List CsfCmd) : csfHdrLen l % 4 = 0 := by
  have := cmdsSize_mod4 l; unfold csfHdrLen; omega

theorem padAlign4_length_mod (d : Bytes) : (padAlign d 4).length % 4 = 0 := by
  rw [padAlign_length _ _ (by decide)]; exact alignUp_mod _ _

/-- every data block of `assignLocs cur l` inside `pre ++ encData l ++ post` (`pre.length = cur`) -/
theorem located (l : List CsfCmd) (cur : Nat) (pre post full : Bytes) (hp : pre.length = cur) (h4 : cur % 4 = 0)
    (hfull : full = pre ++ encData l ++ post)
    (hw : ∀ c ∈ l, needsRef c.cmd = true → ∃ d, c.data = some d) :
    ∀ c ∈ assignLocs cur l, needsRef c.cmd = true → ∀ d, c.data = some d →
      slice full c.cmd.loc d.length = d ∧ cur ≤ c.cmd.loc ∧ c.cmd.loc % 4 = 0 ∧
      c.cmd.loc + d.length ≤ cur + (encData l).length := by
  induction l generalizing cur pre with
  | nil => intro c hc; simp [assignLocs] at hc
  | cons a r ih =>
    have hwr := fun c (hc : c ∈ r) => hw c (by simp [hc])
    by_cases hr : needsRef a.cmd = true
    · obtain ⟨d0, hd0⟩ := hw a (by simp) hr
      have hlen : (encData (a :: r)).length = alignUp d0.length 4 + (encData r).length := by
        simp [encData, hr, hd0, padAlign_length _ _ (show 0 < 4 by decide)]
      have hfull' : full = (pre ++ padAlign d0 4) ++ encData r ++ post := by
        rw [hfull]; simp [encData, hr, hd0]
      have hge := alignUp_ge d0.length 4 (by decide)
      have ih' := ih (cur + alignUp d0.length 4) (pre ++ padAlign d0 4)
        (by rw [List.length_append, padAlign_length _ _ (by decide), hp])
        (by have := alignUp_mod d0.length 4; omega) hfull' hwr
      intro c hc hrc d hd
      simp only [assignLocs, hr, hd0, ↓reduceIte, List.mem_cons] at hc
      rcases hc with hc | hc
      · subst hc
        have hloc : (a.cmd.setLoc cur).loc = cur := loc_setLoc _ _ hr
        have hdd : d = d0 := by
          have : some d0 = some d := hd
          injection this with this; exact this.symm
        subst hdd
        simp only [hloc]
        refine ⟨?_, Nat.le_refl _, h4, by rw [hlen]; omega⟩
        rw [hfull]
        have : pre ++ encData (a :: r) ++ post = pre ++ d ++ (zeros (alignUp d.length 4 - d.length) ++ encData r ++ post) := by
          simp [encData, hr, hd0, padAlign, List.append_assoc]
        rw [this]
        exact slice_append_mid' _ _ _ _ _ hp.symm rfl
      · obtain ⟨h1, h2, h3, h5⟩ := ih' c hc hrc d hd
        exact ⟨h1, by omega, h3, by rw [hlen]; omega⟩
    · have hr' : needsRef a.cmd = false := by simpa using hr
      have hlen : (encData (a :: r)).length = (encData r).length := by simp [encData, hr']
      have hfull' : full = pre ++ encData r ++ post := by rw [hfull]; simp [encData, hr']
      have ih' := ih cur pre hp h4 hfull' hwr
      intro c hc hrc d hd
      simp only [assignLocs, hr', Bool.false_eq_true, ↓reduceIte, List.mem_cons] at hc
      rcases hc with hc | hc
      · subst hc; rw [hr'] at hrc; cases hrc
      · rw [hlen]; exact ih' c hc hrc d hd

/-- the data block of a command sits at the assigned location -/
theorem blob_at_loc (version : Nat) (cmds : List CsfCmd) (h : CsfWF version cmds) (c : CsfCmd)
    (hc : c ∈ assignLocs (csfHdrLen cmds) cmds) (hr : needsRef c.cmd = true) (d : Bytes) (hd : c.data = some d) :
    slice (csfBytes version cmds) c.cmd.loc d.length = d ∧ csfHdrLen cmds ≤ c.cmd.loc ∧ c.cmd.loc % 4 = 0 ∧
    c.cmd.loc + d.length ≤ HabConsts.csfSize := by
  obtain ⟨_, hw, hfit⟩ := h
  have hlen := csfBase_length version cmds
  have e1 : csfBytes version cmds = csfBase version cmds ++ encData cmds ++
      zeros (alignUp (csfBase version cmds ++ encData cmds).length HabConsts.csfSize - (csfBase version cmds ++ encData cmds).length) := by
    unfold csfBytes padAlign; rfl
  obtain ⟨h1, h2, h3, h5⟩ := located cmds (csfHdrLen cmds) (csfBase version cmds) _ _ hlen (csfHdrLen_mod4 cmds) e1
    (fun c hc hrc => by obtain ⟨d, hd, _⟩ := (hw c hc).2.1 hrc; exact ⟨d, hd⟩) c hc hr d hd
  refine ⟨h1, h2, h3, ?_⟩
  rw [List.length_append, hlen] at hfit
  omega

/-- … so the reader's `dataRef` accepts it when the block carries the expected tag -/
theorem dataRef_located (version : Nat) (cmds : List CsfCmd) (h : CsfWF version cmds) (c : CsfCmd)
    (hc : c ∈ assignLocs (csfHdrLen cmds) cmds) (hr : needsRef c.cmd = true) (d : Bytes) (hd : c.data = some d)
    (t p : Nat) (body : Bytes) (ht : t < 256) (hp : p < 256) (he : d = hdr t d.length p ++ body) (what : String) :
    HabRom.dataRef (csfBytes version cmds) (csfHdrLen cmds) c.cmd.loc t what = .ok (c.cmd.loc, d.length) := by
  obtain ⟨h1, h2, h3, h5⟩ := blob_at_loc version cmds h c hc hr d hd
  have hcl := csfBytes_length version cmds h
  have e8 : HabConsts.csfSize = 8192 := rfl
  have hd4 : 4 ≤ d.length := by
    have := congrArg List.length he
    simp at this; omega
  have e' : d = u8 t :: u8 (d.length / 256 % 256) :: u8 (d.length % 256) :: u8 p :: body := by
    conv => lhs; rw [he]
    simp [hdr, be16_eq]
  have r1 : u8at (csfBytes version cmds) c.cmd.loc = .ok t := by
    apply u8at_of_slice _ _ _ ht
    have := slice_slice (csfBytes version cmds) c.cmd.loc d.length 0 1 (by omega)
    rw [h1] at this
    rw [Nat.add_zero] at this
    rw [← this, e']; rfl
  have r2 : u16be (csfBytes version cmds) (c.cmd.loc + 1) = .ok d.length := by
    apply u16be_of_slice _ _ _ (by omega)
    have := slice_slice (csfBytes version cmds) c.cmd.loc d.length 1 2 (by omega)
    rw [h1] at this
    rw [← this, be16_eq]
    conv => lhs; rw [e']
    rfl
  unfold HabRom.dataRef
  rw [chk_of _ _ _ (by simpa using h2), chk_of _ _ _ (by simp [h3]), r1, bindE_ok, r2, bindE_ok,
    chk_of _ _ _ (by simp), chk_of _ _ _ (by simp [hcl, e8]; omega)]

/-- references of `assignLocs cur l`: ascending, each inside `[cur, cur + encData length)` -/
theorem refsOf_assign (l : List CsfCmd) (cur : Nat) :
    (refsOf (assignLocs cur l)).Pairwise (fun a b => a.1 + a.2 ≤ b.1) ∧
    ∀ x ∈ refsOf (assignLocs cur l), cur ≤ x.1 ∧ x.1 + x.2 ≤ cur + (encData l).length := by
  induction l generalizing cur with
  | nil => simp [assignLocs, refsOf]
  | cons a r ih =>
    by_cases hr : needsRef a.cmd = true
    · cases hd : a.data with
      | none =>
        obtain ⟨p, q⟩ := ih cur
        simp only [assignLocs, hr, hd, ↓reduceIte, refsOf, needsRef_setLoc, List.nil_append, encData]
        exact ⟨p, by simpa using q⟩
      | some d =>
        obtain ⟨p, q⟩ := ih (cur + alignUp d.length 4)
        have hge := alignUp_ge d.length 4 (by decide)
        have hl : (encData (a :: r)).length = alignUp d.length 4 + (encData r).length := by
          simp [encData, hr, hd, padAlign_length _ _ (show 0 < 4 by decide)]
        simp only [assignLocs, hr, hd, ↓reduceIte, refsOf, needsRef_setLoc, loc_setLoc _ _ hr, List.singleton_append]
        refine ⟨List.pairwise_cons.2 ⟨fun x hx => ?_, p⟩, fun x hx => ?_⟩
        · have := q x hx; simp only; omega
        · rcases List.mem_cons.1 hx with hx | hx
          · subst hx; simp only; rw [hl]; omega
          · have := q x hx; rw [hl]; omega
    · have hr' : needsRef a.cmd = false := by simpa using hr
      obtain ⟨p, q⟩ := ih cur
      simp only [assignLocs, hr', Bool.false_eq_true, ↓reduceIte, refsOf, List.nil_append, encData]
      exact ⟨p, by simpa using q⟩

/-- the data references ascend without overlap -/
theorem refsOf_ascending (version : Nat) (cmds : List CsfCmd) (h : CsfWF version cmds) :
    (refsOf (assignLocs (csfHdrLen cmds) cmds)).Pairwise (fun a b => a.1 + a.2 ≤ b.1) :=
  (refsOf_assign cmds (csfHdrLen cmds)).1

theorem disjoint_of_sym (l : List (Nat × Nat)) (h : l.Pairwise (fun a b => a.1 + a.2 ≤ b.1 ∨ b.1 + b.2 ≤ a.1)) :
    HabRom.disjoint l = true := by
  induction l with
  | nil => rfl
  | cons x r ih =>
    obtain ⟨a, l⟩ := x
    obtain ⟨h1, h2⟩ := List.pairwise_cons.1 h
    simp only [HabRom.disjoint, Bool.and_eq_true, List.all_eq_true]
    refine ⟨fun y hy => ?_, ih h2⟩
    obtain ⟨b, m⟩ := y
    have := h1 (b, m) hy
    simp only at this ⊢
    rcases this with t | t <;> simp [t]

/-- ascending without overlap, collected in reverse (as the reader's walk does), passes the reader's `disjoint` -/
theorem disjoint_reverse_of_ascending (l : List (Nat × Nat)) (h : l.Pairwise (fun a b => a.1 + a.2 ≤ b.1)) :
    HabRom.disjoint l.reverse = true := by
  apply disjoint_of_sym
  rw [List.pairwise_reverse]
  exact h.imp (fun hab => Or.inr hab)

end SpsdkVerif.Hab
