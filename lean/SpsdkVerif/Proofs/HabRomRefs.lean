/- C07 helper lemmas, part 8: the data blocks of an exported CSF sit where the commands point, 4-aligned, behind the
   commands, inside the CSF, in ascending order without overlap. -/
import SpsdkVerif.Proofs.HabRomBase

namespace SpsdkVerif.Hab
open SpsdkVerif SpsdkVerif.Misc SpsdkVerif.Generated
open SpsdkVerif.Spec
open SpsdkVerif.Spec.HabRom (bindE chk sub rdN u8at u16be u32be u32le RCmd)

/-- the data block of a command sits at the assigned location -/
theorem blob_at_loc (version : Nat) (cmds : List CsfCmd) (h : CsfWF version cmds) (c : CsfCmd)
    (hc : c ∈ assignLocs (csfHdrLen cmds) cmds) (hr : needsRef c.cmd = true) (d : Bytes) (hd : c.data = some d) :
    slice (csfBytes version cmds) c.cmd.loc d.length = d ∧ csfHdrLen cmds ≤ c.cmd.loc ∧ c.cmd.loc % 4 = 0 ∧
    c.cmd.loc + d.length ≤ HabConsts.csfSize := by
  sorry

/-- … so the reader's `dataRef` accepts it when the block carries the expected tag -/
theorem dataRef_located (version : Nat) (cmds : List CsfCmd) (h : CsfWF version cmds) (c : CsfCmd)
    (hc : c ∈ assignLocs (csfHdrLen cmds) cmds) (hr : needsRef c.cmd = true) (d : Bytes) (hd : c.data = some d)
    (t p : Nat) (body : Bytes) (ht : t < 256) (hp : p < 256) (he : d = hdr t d.length p ++ body) (what : String) :
    HabRom.dataRef (csfBytes version cmds) (csfHdrLen cmds) c.cmd.loc t what = .ok (c.cmd.loc, d.length) := by
  sorry

/-- the data references ascend without overlap -/
theorem refsOf_ascending (version : Nat) (cmds : List CsfCmd) (h : CsfWF version cmds) :
    (refsOf (assignLocs (csfHdrLen cmds) cmds)).Pairwise (fun a b => a.1 + a.2 ≤ b.1) := by
  sorry

/-- ascending without overlap, collected in reverse (as the reader's walk does), passes the reader's `disjoint` -/
theorem disjoint_reverse_of_ascending (l : List (Nat × Nat)) (h : l.Pairwise (fun a b => a.1 + a.2 ≤ b.1)) :
    HabRom.disjoint l.reverse = true := by
  sorry

end SpsdkVerif.Hab
