/-
C03 phase 3 — acceptance statements for ARBITRARY bytes: what a successful parse says about the bytes that were parsed
(canonical form: re-exporting the parsed object reproduces them, up to the fields the parser does not look at).
-/
import SpsdkVerif.Proofs.CertBlock

namespace SpsdkVerif.CertBlock
open SpsdkVerif SpsdkVerif.Spec
open SpsdkVerif.Misc hiding Bytes
open SpsdkVerif.Crypto (HashAlg CryptoOps CryptoLaws Bytes)
open SpsdkVerif.Rkht (bind_ok pure_eq_ok RootKeyRecord)

theorem beDec_rev_spec' (l : Bytes) : beDec l.reverse < 256 ^ l.length ∧ beEnc l.length (beDec l.reverse) = l.reverse := by
  induction l with
  | nil => simp [beDec, beEnc]
  | cons x l ih =>
    have hx := x.toNat_lt
    rw [List.reverse_cons, beDec_append_single, List.length_cons, Nat.pow_succ, beEnc]
    have e1 : (beDec l.reverse * 256 + x.toNat) / 256 = beDec l.reverse := by omega
    have e2 : (beDec l.reverse * 256 + x.toNat) % 256 = x.toNat := by omega
    rw [e1, e2, ih.2, UInt8.ofNat_toNat]
    exact ⟨by omega, rfl⟩

theorem leDec_lt (b : Bytes) : leDec b < 256 ^ b.length := (beDec_rev_spec' b).1

theorem leEnc_leDec (b : Bytes) : leEnc b.length (leDec b) = b := by
  have := (beDec_rev_spec' b).2
  simp only [leEnc, leDec, this, List.reverse_reverse]

theorem bind_err' {α β} (e : PyErr) (f : α → PyRes β) : ((Except.error e : PyRes α) >>= f) = .error e := rfl

theorem unpackLE_ok {w : Nat} {b : Bytes} (h : w ≤ b.length) : unpackLE w b = .ok (leDec (b.take w), b.drop w) := by
  simp only [unpackLE, Nat.not_lt.mpr h, ↓reduceIte]

/-- `IskCertificateLite.parse` succeeded on ANY 136 (or more) bytes: the parsed certificate is well formed and its fields are, byte for
    byte, the input after the magic / version words (which the parser does not look at) -/
theorem liteParse_inv (pointOk : Bytes → Bool) (b : Bytes) (i : IskLite) (h : liteParse pointOk b = .ok i) (hl : 136 ≤ b.length) :
    WFlite pointOk i ∧ leEnc 4 i.constraints ++ i.pubKey ++ i.signature = (b.take 136).drop 4 := by
  have e3 : GL.litePubKeyLength = 64 := rfl
  have e5 : GL.liteSignatureSize = 64 := rfl
  have u1 : unpackLE 2 b = .ok (leDec (b.take 2), b.drop 2) := unpackLE_ok (by omega)
  have u2 : unpackLE 2 (b.drop 2) = .ok (leDec ((b.drop 2).take 2), (b.drop 2).drop 2) := unpackLE_ok (by simp only [List.length_drop]; omega)
  have u3 : unpackLE 4 (b.drop (2 + 2)) = .ok (leDec ((b.drop (2 + 2)).take 4), (b.drop (2 + 2)).drop 4) :=
    unpackLE_ok (by simp only [List.length_drop]; omega)
  simp only [liteParse, u1, u2, bind_ok, e3, e5, List.drop_drop, u3] at h
  by_cases hp : pointOk ((b.drop 8).take 64) = true
  · simp only [hp, Bool.not_true, Bool.false_eq_true, ↓reduceIte, pure_eq_ok, Except.ok.injEq] at h
    subst h
    have l4 : ((b.drop (2 + 2)).take 4).length = 4 := by simp only [List.length_take, List.length_drop]; omega
    refine ⟨⟨?_, ?_, hp, ?_⟩, ?_⟩
    · have := leDec_lt ((b.drop (2 + 2)).take 4); rw [l4] at this
      have p32 : (2 : Nat) ^ 32 = 256 ^ 4 := by decide
      rw [p32]; exact this
    · simp only [List.length_take, List.length_drop]; omega
    · simp only [List.length_take, List.length_drop]; omega
    · have := leEnc_leDec ((b.drop (2 + 2)).take 4); rw [l4] at this
      show leEnc 4 (leDec ((b.drop (2 + 2)).take 4)) ++ (b.drop 8).take 64 ++ (b.drop (8 + 64)).take 64 = (b.take 136).drop 4
      rw [this]
      apply List.ext_getElem
      · simp only [List.length_append, List.length_take, List.length_drop]; omega
      · intro n h1 h2
        simp only [List.length_append, List.length_take, List.length_drop] at h1
        simp only [List.getElem_append, List.length_append, List.length_take, List.length_drop, List.getElem_take, List.getElem_drop]
        split
        · split
          · rfl
          · congr 1; omega
        · congr 1; omega
  · simp only [hp, Bool.not_false, ↓reduceIte] at h
    cases h

/-- canonical form: re-exporting the parsed certificate gives magic ‖ version ‖ the parsed bytes from offset 4 -/
theorem liteParse_canonical (pointOk : Bytes → Bool) (b : Bytes) (i : IskLite) (h : liteParse pointOk b = .ok i) (hl : 136 ≤ b.length) :
    liteExport i = .ok (leEnc 2 0x4D43 ++ leEnc 2 1 ++ (b.take 136).drop 4) := by
  obtain ⟨wf, e⟩ := liteParse_inv pointOk b i h hl
  rw [liteExport_ok pointOk i wf, liteBytes, ← e]
  simp only [List.append_assoc]

/-! ### certificate block v1 -/

theorem leEnc_leDec_w (w : Nat) (s : Bytes) (h : s.length = w) : leEnc w (leDec s) = s := by
  subst h; exact leEnc_leDec s

theorem leDec_lt_w (w : Nat) (s : Bytes) (h : s.length = w) : leDec s < 256 ^ w := by
  subst h; exact leDec_lt s

/-- `CertBlockHeader.parse` accepted: the first 32 bytes are exactly the re-encoded fields -/
theorem headerV1Parse_inv (data : Bytes) (hd : HeaderV1) (h : headerV1Parse data = .ok hd) :
    32 ≤ data.length ∧
    data.take 32 = G.cbV1Signature ++ leEnc 2 hd.major ++ leEnc 2 hd.minor ++ leEnc 4 32 ++ leEnc 4 hd.flags ++
      leEnc 4 hd.buildNumber ++ leEnc 4 hd.imageLength ++ leEnc 4 hd.certCount ++ leEnc 4 hd.certTableLength ∧
    hd.major < 65536 ∧ hd.minor < 65536 ∧ hd.flags < 2 ^ 32 ∧ hd.buildNumber < 2 ^ 32 ∧ hd.imageLength < 2 ^ 32 ∧
    hd.certCount < 2 ^ 32 ∧ hd.certTableLength < 2 ^ 32 := by
  have p16 : (65536 : Nat) = 256 ^ 2 := by decide
  have p32 : (2 : Nat) ^ 32 = 256 ^ 4 := by decide
  by_cases hl : headerSizeV1 > data.length
  · simp only [headerV1Parse, hl, ↓reduceIte] at h; cases h
  have hl' : 32 ≤ data.length := by simp only [headerSizeV1] at hl; omega
  have u (w off : Nat) (ho : off + w ≤ 32) : unpackLE w (data.drop off) = .ok (leDec ((data.drop off).take w), data.drop (off + w)) := by
    rw [unpackLE_ok (by simp only [List.length_drop]; omega), List.drop_drop]
  simp only [headerV1Parse, hl, ↓reduceIte, u 2 4 (by omega), u 2 (4 + 2) (by omega), u 4 (4 + 2 + 2) (by omega),
    u 4 (4 + 2 + 2 + 4) (by omega), u 4 (4 + 2 + 2 + 4 + 4) (by omega), u 4 (4 + 2 + 2 + 4 + 4 + 4) (by omega),
    u 4 (4 + 2 + 2 + 4 + 4 + 4 + 4) (by omega), u 4 (4 + 2 + 2 + 4 + 4 + 4 + 4 + 4) (by omega), bind_ok] at h
  by_cases hs : data.take 4 = G.cbV1Signature
  · by_cases hlen : leDec ((data.drop (4 + 2 + 2)).take 4) = headerSizeV1
    · simp only [hs, hlen, ne_eq, not_true_eq_false, ↓reduceIte, pure_eq_ok, Except.ok.injEq] at h
      subst h
      have len (w off : Nat) (ho : off + w ≤ 32) : ((data.drop off).take w).length = w := by
        simp only [List.length_take, List.length_drop]; omega
      refine ⟨hl', ?_, ?_, ?_, ?_, ?_, ?_, ?_, ?_⟩
      · simp only
        rw [leEnc_leDec_w 2 _ (len 2 4 (by omega)), leEnc_leDec_w 2 _ (len 2 (4 + 2) (by omega)),
          leEnc_leDec_w 4 _ (len 4 (4 + 2 + 2 + 4) (by omega)), leEnc_leDec_w 4 _ (len 4 (4 + 2 + 2 + 4 + 4) (by omega)),
          leEnc_leDec_w 4 _ (len 4 (4 + 2 + 2 + 4 + 4 + 4) (by omega)), leEnc_leDec_w 4 _ (len 4 (4 + 2 + 2 + 4 + 4 + 4 + 4) (by omega)),
          leEnc_leDec_w 4 _ (len 4 (4 + 2 + 2 + 4 + 4 + 4 + 4 + 4) (by omega))]
        have e32 : leEnc 4 32 = (data.drop (4 + 2 + 2)).take 4 := by
          have := leEnc_leDec_w 4 _ (len 4 (4 + 2 + 2) (by omega)); rw [hlen] at this; exact this
        rw [e32, ← hs]
        have e : (32 : Nat) = 4 + (2 + (2 + (4 + (4 + (4 + (4 + (4 + 4))))))) := rfl
        rw [e]
        simp only [List.take_add, List.drop_drop, List.append_assoc]
      all_goals first
        | (rw [p16]; exact leDec_lt_w 2 _ (len 2 _ (by omega)))
        | (rw [p32]; exact leDec_lt_w 4 _ (len 4 _ (by omega)))
    · simp only [hs, hlen, ne_eq, not_true_eq_false, not_false_eq_true, ↓reduceIte] at h; cases h
  · simp only [hs, ne_eq, not_false_eq_true, ↓reduceIte] at h; cases h

def certsBytes (certs : List Bytes) : Bytes := (certs.map (fun c => leEnc 4 c.length ++ c)).flatten

/-- the certificate loop accepted `n` entries and left a NON-EMPTY rest: the consumed bytes are exactly the re-encoded entries
    (a truncated last entry would leave nothing) -/
theorem certsParse_inv (certOk : Bytes → Bool) : ∀ (n : Nat) (b : Bytes) (certs : List Bytes) (rest : Bytes),
    certsParse certOk n b = .ok (certs, rest) → rest ≠ [] →
    b = certsBytes certs ++ rest ∧ certs.length = n ∧ ∀ c ∈ certs, c.length < 2 ^ 32 ∧ certOk c = true
  | 0, b, certs, rest, h, _ => by
    simp only [certsParse, Except.ok.injEq, Prod.mk.injEq] at h
    obtain ⟨rfl, rfl⟩ := h
    exact ⟨rfl, rfl, by simp⟩
  | n + 1, b, certs, rest, h, hne => by
    have p32 : (2 : Nat) ^ 32 = 256 ^ 4 := by decide
    by_cases hb : b.length < 4
    · simp only [certsParse, unpackLE, hb, ↓reduceIte] at h; cases h
    have hb' : 4 ≤ b.length := by omega
    simp only [certsParse, unpackLE_ok hb', bind_ok] at h
    by_cases hc : certOk ((b.drop 4).take (leDec (b.take 4))) = true
    · simp only [hc, Bool.not_true, Bool.false_eq_true, ↓reduceIte] at h
      cases hr : certsParse certOk n ((b.drop 4).drop (leDec (b.take 4))) with
      | error e => rw [hr] at h; cases h
      | ok p =>
        obtain ⟨cs, r'⟩ := p
        rw [hr] at h
        simp only [bind_ok, pure_eq_ok, Except.ok.injEq, Prod.mk.injEq] at h
        obtain ⟨rfl, rfl⟩ := h
        obtain ⟨ih1, ih2, ih3⟩ := certsParse_inv certOk n _ cs r' hr hne
        have hdne : (b.drop 4).drop (leDec (b.take 4)) ≠ [] := by
          rw [ih1]; intro he
          have := congrArg List.length he
          simp only [List.length_append, List.length_nil] at this
          have : r'.length = 0 := by omega
          exact hne (List.length_eq_zero_iff.mp this)
        have hlt : leDec (b.take 4) < (b.drop 4).length :=
          Nat.lt_of_not_le fun hge => hdne (List.drop_eq_nil_of_le hge)
        have hcl : ((b.drop 4).take (leDec (b.take 4))).length = leDec (b.take 4) := by
          simp only [List.length_take]; omega
        have h4 : (b.take 4).length = 4 := by simp only [List.length_take]; omega
        refine ⟨?_, by simp only [List.length_cons, ih2], ?_⟩
        · simp only [certsBytes, List.map_cons, List.flatten_cons, hcl, leEnc_leDec_w 4 _ h4, List.append_assoc]
          rw [← certsBytes, ← ih1, List.take_append_drop, List.take_append_drop]
        · intro x hx
          simp only [List.mem_cons] at hx
          rcases hx with rfl | hx
          · refine ⟨?_, hc⟩
            rw [hcl, p32]; exact leDec_lt_w 4 _ h4
          · exact ih3 x hx
    · have hc' : certOk ((b.drop 4).take (leDec (b.take 4))) = false := by simpa using hc
      simp only [hc', Bool.not_false, ↓reduceIte] at h; cases h

/-- `RKHTv1.parse` accepted at most 128 bytes: they were exactly 128, cut into four 32-byte hashes -/
theorem rkhtV1Parse_inv (t : Bytes) (l : List Bytes) (h : rkhtV1Parse t = .ok l) (ht : t.length ≤ 128) :
    t.length = 128 ∧ l.flatten = t ∧ l.length = 4 ∧ ∀ x ∈ l, x.length = 32 := by
  have g1 : G.rkhV1Size = 32 := rfl
  simp only [rkhtV1Parse, Rkht.rkhtV1Init] at h
  split at h
  next hall =>
    simp only [List.all_cons, List.all_nil, Bool.and_true, Bool.and_eq_true, beq_iff_eq, List.length_take, List.length_drop,
      Rkht.G.rkhV1Size, g1] at hall
    have hq : t.length / 4 = 32 := by omega
    have h128 : t.length = 128 := by omega
    simp only [Rkht.rkhtInit] at h
    split at h
    · cases h
    · injection h with h
      subst h
      rw [hq]
      refine ⟨h128, ?_, rfl, ?_⟩
      · have e : t = t.take (32 + (32 + (32 + 32))) := by rw [List.take_of_length_le (by omega)]
        conv => rhs; rw [e]
        simp only [List.take_add, List.drop_drop, List.flatten_cons, List.flatten_nil, List.append_nil, List.append_assoc]
      · intro x hx
        simp only [List.mem_cons, List.mem_nil_iff, or_false] at hx
        rcases hx with rfl | rfl | rfl | rfl <;> simp only [List.length_take, List.length_drop] <;> omega
  next => cases h

theorem pad4_of_len4 (l : List Bytes) (h : l.length = 4) : pad4 l = l := by simp [pad4, h]

/-- `CertBlockV1.parse` accepted ARBITRARY bytes.  Then: the header parses, the block holds as many certificates as the header announces,
    every certificate passed `certOk`, the RKH table has four 32-byte slots; if at least one certificate is present and the header's
    `cert_table_length` is the size of the entries actually read (the parser itself does not compare them), the parsed block is well formed
    and its body (header ‖ entries ‖ RKH table) is, byte for byte, the first `32 + cert_table_length + 128` bytes of the input -/
theorem parseV1Block_inv (certOk : Bytes → Bool) (data : Bytes) (cb : CertBlockV1) (h : parseV1Block certOk data = .ok cb) :
    ∃ hd : HeaderV1, headerV1Parse data = .ok hd ∧ cb.certs.length = hd.certCount ∧ cb.rkh.length = 4 ∧
      (∀ c ∈ cb.certs, certOk c = true) ∧ cb.alignment = G.cbV1Alignment ∧
      (hd.certCount ≠ 0 → hd.certTableLength = certTableLength cb.certs →
        WFv1 certOk cb ∧ bodyV1 cb = data.take (32 + certTableLength cb.certs + 128)) := by
  cases hh : headerV1Parse data with
  | error e => simp only [parseV1Block, hh] at h; cases h
  | ok hd =>
    obtain ⟨hl, htake, b1, b2, b3, b4, b5, b6, b7⟩ := headerV1Parse_inv data hd hh
    simp only [parseV1Block, hh, bind_ok] at h
    split at h
    · cases h
    · cases hc : certsParse certOk hd.certCount (data.drop headerSizeV1) with
      | error e => rw [hc] at h; cases h
      | ok p =>
        obtain ⟨certs, rest⟩ := p
        rw [hc] at h
        simp only [bind_ok] at h
        cases hr : rkhtV1Parse (rest.take (G.rkhV1Size * G.rkhtV1Slots)) with
        | error e => rw [hr] at h; cases h
        | ok rkh =>
          rw [hr] at h
          simp only [bind_ok, pure_eq_ok, Except.ok.injEq] at h
          subst h
          have g : G.rkhV1Size * G.rkhtV1Slots = 128 := rfl
          rw [g] at hr
          obtain ⟨t128, hflat, hlen4, h32⟩ := rkhtV1Parse_inv _ rkh hr (by simp only [List.length_take]; omega)
          have hrest : rest ≠ [] := by
            intro he; subst he; simp at t128
          obtain ⟨hb, hcnt, hcs⟩ := certsParse_inv certOk _ _ certs rest hc hrest
          refine ⟨hd, rfl, hcnt, hlen4, fun c hc' => (hcs c hc').2, rfl, fun hne hctl => ?_⟩
          have hrl : 128 ≤ rest.length := by
            simp only [List.length_take] at t128; omega
          have hctl' : hd.certTableLength = certTableLength certs := hctl
          have wf : WFv1 certOk ⟨hd.major, hd.minor, hd.flags, hd.buildNumber, hd.imageLength, certs, rkh, G.cbV1Alignment⟩ :=
            { major := b1, minor := b2, flags := b3, build := b4, image := b5
              certs_ne := fun (he : certs = []) => hne (by rw [← hcnt, he]; rfl)
              certs := hcs
              count := (by show certs.length < 2 ^ 32; rw [hcnt]; exact b6)
              table := (by show certTableLength certs < 2 ^ 32; rw [← hctl']; exact b7)
              rkh_len := (by show rkh.length ≤ 4; omega)
              rkh := h32
              align := (by show 0 < G.cbV1Alignment; decide) }
          refine ⟨wf, ?_⟩
          simp only [bodyV1, pad4_of_len4 _ hlen4, hflat, hcnt, ← hctl']
          rw [← htake]
          have hd32 : data.drop 32 = certsBytes certs ++ rest := hb
          have hcl : (certsBytes certs).length = hd.certTableLength := by rw [hctl']; exact certsBytes_len certs
          have e1 : (certs.map (fun c => leEnc 4 c.length ++ c)).flatten = (data.drop 32).take hd.certTableLength := by
            rw [hd32]; exact (List.take_left' hcl).symm
          have e2 : rest.take 128 = ((data.drop 32).drop hd.certTableLength).take 128 := by
            rw [hd32, List.drop_left' hcl]
          rw [e1, e2, Nat.add_assoc, List.take_add, List.take_add, List.append_assoc]

/-! ### root key record (certificate block v2.1) -/

theorem splitN_length (m : Nat) : ∀ (k : Nat) (t : Bytes), (splitN m k t).length = k
  | 0, _ => rfl
  | k + 1, t => by simp only [splitN, List.length_cons, splitN_length m k]

theorem splitN_flatten_take (m : Nat) : ∀ (k : Nat) (t : Bytes), (splitN m k t).flatten = t.take (m * k)
  | 0, t => by simp [splitN]
  | k + 1, t => by
    have e : m * (k + 1) = m + m * k := by rw [Nat.mul_succ, Nat.add_comm]
    rw [splitN, List.flatten_cons, splitN_flatten_take m k, e, List.take_add]

def rkrLenAlgChk (v : Nat) : Bool :=
  match lookupOr G.rkrParseHashLen v, Rkht.rkrHashAlgorithm v with
  | .ok hl, .ok a => a.size == hl && decide (0 < hl)
  | _, _ => true

/-- curve nibble → hash length (parser table) and hash algorithm (`get_hash_algorithm`) agree whenever both lookups succeed -/
theorem rkr_hashLen_alg (flags hl : Nat) (a : HashAlg) (h1 : lookupOr G.rkrParseHashLen (rkrCurve flags) = .ok hl)
    (h2 : Rkht.rkrHashAlgorithm flags = .ok a) : a.size = hl ∧ 0 < hl := by
  have hm : rkrCurve flags = flags % 16 := by
    have : G.rkrParseCurveMask = 2 ^ 4 - 1 := rfl
    simp only [rkrCurve, this, Nat.and_two_pow_sub_one_eq_mod]
  rw [hm] at h1
  have h2' : Rkht.rkrHashAlgorithm (flags % 16) = .ok a := by
    simpa only [Rkht.rkrHashAlgorithm, Nat.mod_mod] using h2
  have hlt : flags % 16 < 16 := Nat.mod_lt _ (by decide)
  have key : ∀ v : Fin 16, rkrLenAlgChk v.val = true := by decide
  have := key ⟨flags % 16, hlt⟩
  simp only [rkrLenAlgChk, h1, h2', Bool.and_eq_true, beq_iff_eq, decide_eq_true_eq] at this
  exact this

/-- `RootKeyRecord.parse` accepted ARBITRARY bytes that are long enough for the record their own flags word announces
    (4 + [count × hash length if count > 1] + 2 × hash length): re-exporting the parsed record gives exactly the bytes consumed -/
theorem rkrParse_inv (c : CryptoOps) (b : Bytes) (r : RootKeyRecord) (n : Nat) (h : rkrParse c b = .ok (r, n)) (hl : Nat)
    (hhl : lookupOr G.rkrParseHashLen (rkrCurve (leDec (b.take 4))) = .ok hl)
    (hfull : 4 + (if rkrCount (leDec (b.take 4)) > 1 then hl * rkrCount (leDec (b.take 4)) else 0) + hl * 2 ≤ b.length) :
    rkrExport r = .ok (b.take n) ∧ n ≤ b.length ∧ r.flags = leDec (b.take 4) ∧
    n = 4 + (if rkrCount r.flags > 1 then hl * rkrCount r.flags else 0) + hl * 2 ∧ hl ≤ 64 ∧ r.rootPublicKey.length = hl * 2 ∧ 0 < hl := by
  have p32 : (2 : Nat) ^ 32 = 256 ^ 4 := by decide
  have hb4 : 4 ≤ b.length := by omega
  have h4 : (b.take 4).length = 4 := by simp only [List.length_take]; omega
  have hfl : leDec (b.take 4) < 256 ^ 4 := leDec_lt_w 4 _ h4
  simp only [rkrParse, unpackLE_ok hb4, bind_ok, hhl] at h
  cases ha : Rkht.rkrHashAlgorithm (leDec (b.take 4)) with
  | error e => rw [ha] at h; cases h
  | ok a =>
    obtain ⟨has, hpos⟩ := rkr_hashLen_alg _ hl a hhl ha
    have h64 : hl ≤ 64 := by rw [← has]; cases a <;> decide
    rw [ha] at h
    simp only [bind_ok] at h
    by_cases hn : rkrCount (leDec (b.take 4)) > 1
    · simp only [hn, ↓reduceIte] at h hfull
      have htl : ((b.drop 4).take (hl * rkrCount (leDec (b.take 4)))).length = hl * rkrCount (leDec (b.take 4)) := by
        simp only [List.length_take, List.length_drop]; omega
      have hmod : ¬ (((b.drop 4).take (hl * rkrCount (leDec (b.take 4)))).length % hl ≠ 0) := by
        rw [htl]; simp
      have hdiv : ((b.drop 4).take (hl * rkrCount (leDec (b.take 4)))).length / hl = rkrCount (leDec (b.take 4)) := by
        rw [htl]; exact Nat.mul_div_cancel_left _ hpos
      simp only [rkhtV21Parse, has] at h
      simp only [hmod, ↓reduceIte, hdiv, Rkht.rkhtInit, splitN_length] at h
      by_cases hc4 : rkrCount (leDec (b.take 4)) > Rkht.G.rkhtMaxKeys
      · simp only [hc4, ↓reduceIte] at h; cases h
      · simp only [hc4, ↓reduceIte, bind_ok, pure_eq_ok, Except.ok.injEq, Prod.mk.injEq] at h
        obtain ⟨hr, hnn⟩ := h
        subst hr
        have hex : Rkht.exportV21 (splitN hl (rkrCount (leDec (b.take 4))) ((b.drop 4).take (hl * rkrCount (leDec (b.take 4))))) =
            (b.drop 4).take (hl * rkrCount (leDec (b.take 4))) := by
          simp only [Rkht.exportV21, splitN_length, hn, ↓reduceIte, splitN_flatten_take]
          rw [List.take_take, Nat.min_self]
        have hpk : (((b.drop 4).drop (hl * rkrCount (leDec (b.take 4)))).take (hl * 2)).length = hl * 2 := by
          simp only [List.length_take, List.length_drop]; omega
        rw [hex, htl, hpk] at hnn
        subst hnn
        refine ⟨?_, by omega, rfl, by simp only [hn, ↓reduceIte], h64, hpk, hpos⟩
        simp only [rkrExport, packLE_ok 4 _ hfl, bind_ok, pure_eq_ok, hex, leEnc_leDec_w 4 _ h4]
        rw [List.take_add, List.take_add, List.drop_drop]
    · simp only [hn, ↓reduceIte, Nat.add_zero] at h hfull
      have hc1 : ¬ ((0 : Nat) + 1 > Rkht.G.rkhtMaxKeys) := by decide
      simp only [Rkht.rkhtInit, List.length_cons, List.length_nil, hc1, ↓reduceIte, bind_ok, pure_eq_ok, Except.ok.injEq,
        Prod.mk.injEq] at h
      · obtain ⟨hr, hnn⟩ := h
        subst hr
        have hpk : ((b.drop 4).take (hl * 2)).length = hl * 2 := by
          simp only [List.length_take, List.length_drop]; omega
        have hex : Rkht.exportV21 [c.hash a ((b.drop 4).take (hl * 2))] = [] := by
          simp [Rkht.exportV21]
        rw [hex, hpk] at hnn
        subst hnn
        refine ⟨?_, by simp only [List.length_nil]; omega, rfl, by simp only [hn, ↓reduceIte, List.length_nil], h64, hpk, hpos⟩
        simp only [rkrExport, packLE_ok 4 _ hfl, bind_ok, pure_eq_ok, hex, leEnc_leDec_w 4 _ h4, List.length_nil, List.append_nil]
        rw [Nat.add_zero, List.take_add]

/-! ### ISK certificate (certificate block v2.1) -/

/-- `IskCertificate.parse` accepted ARBITRARY bytes in the normal (offset-carrying) format.  If the flags word of the input is the one the
    constructor recomputes, nothing lies between user data and signature (`signature_offset = 12 + |key| + |user data|`) and the signature has its
    full, non-zero length, then re-exporting the parsed certificate gives exactly the first `signature_offset + signature_size` input bytes -/
theorem iskParse_inv (pointOk : Bytes → Bool) (data : Bytes) (sigSize : Nat) (i : IskCert) (h : iskParse pointOk data sigSize = .ok i)
    (hoff : leDec (data.take 4) % 65536 ≠ G.iskNoOffsetMagic)
    (hfl : leDec ((data.drop 8).take 4) = i.flags)
    (hso : leDec (data.take 4) = 12 + i.pubKey.length + i.userData.length)
    (hsig : i.signature.length = sigSize) (hs0 : 0 < sigSize) :
    iskExport i = .ok (data.take (leDec (data.take 4) + sigSize)) ∧ i.offsetPresent = true ∧
      leDec (data.take 4) + sigSize ≤ data.length := by
  have p32 : (2 : Nat) ^ 32 = 256 ^ 4 := by decide
  by_cases hl12 : data.length < 12
  · -- one of the three header words cannot be read
    exfalso
    simp only [iskParse] at h
    by_cases h4 : data.length < 4
    · simp only [unpackLE, h4, ↓reduceIte, bind_err'] at h; cases h
    · have h4' : 4 ≤ data.length := by omega
      simp only [unpackLE_ok h4', bind_ok] at h
      by_cases h8 : (data.drop 4).length < 4
      · simp only [unpackLE, h8, ↓reduceIte, bind_err'] at h; cases h
      · have h8' : 4 ≤ (data.drop 4).length := by omega
        simp only [unpackLE_ok h8', bind_ok] at h
        have h12 : ((data.drop 4).drop 4).length < 4 := by simp only [List.length_drop] at *; omega
        simp only [unpackLE, h12, ↓reduceIte, bind_err'] at h; cases h
  have hl : 12 ≤ data.length := by omega
  have u1 : unpackLE 4 data = .ok (leDec (data.take 4), data.drop 4) := unpackLE_ok (by omega)
  have u2 : unpackLE 4 (data.drop 4) = .ok (leDec ((data.drop 4).take 4), data.drop (4 + 4)) := by
    rw [unpackLE_ok (by simp only [List.length_drop]; omega), List.drop_drop]
  have u3 : unpackLE 4 (data.drop (4 + 4)) = .ok (leDec ((data.drop (4 + 4)).take 4), data.drop (4 + 4 + 4)) := by
    rw [unpackLE_ok (by simp only [List.length_drop]; omega), List.drop_drop]
  simp only [iskParse, u1, bind_ok, u2, u3, hoff, decide_false, ↓reduceIte, Bool.false_eq_true, Bool.not_false] at h
  cases hk : lookupOr G.iskParseKeyLen (leDec ((data.drop (4 + 4)).take 4) % 16) with
  | error e => rw [hk] at h; cases h
  | ok kl =>
    rw [hk] at h
    simp only [bind_ok] at h
    split at h
    · cases h
    · split at h
      · cases h
      · simp only [pure_eq_ok, Except.ok.injEq] at h
        subst h
        simp only at hfl hso hsig ⊢
        have e44 : (4 + 4 : Nat) = 8 := rfl
        simp only [e44] at hfl hso hk ⊢
        rename_i hne hpt
        -- the user data is, in both cases, the slice of length `so - (12 + 2 kl)` after the key
        generalize hso' : leDec (data.take 4) = so at *
        have hud : ∃ m, (if leDec ((data.drop 8).take 4) &&& G.iskParseUserDataMask ≠ 0 then
              (data.drop (12 + kl * 2)).take (so - (12 + kl * 2)) else []) = (data.drop (12 + kl * 2)).take m ∧
            (m = so - (12 + kl * 2) ∨ m = 0) := by
          split
          · exact ⟨_, rfl, Or.inl rfl⟩
          · exact ⟨0, by simp, Or.inr rfl⟩
        obtain ⟨m, hm, hmv⟩ := hud
        rw [hm] at hfl hso ⊢
        simp only [List.length_take, List.length_drop] at hso hsig
        have hpk : kl * 2 ≤ data.length - 12 := by omega
        have hml : m = so - (12 + kl * 2) := by omega
        have hge : 12 + kl * 2 ≤ so := by omega
        have hend : so + sigSize ≤ data.length := by omega
        subst hml
        refine ⟨?_, trivial, hend⟩
        have hsne : ((data.drop so).take sigSize).isEmpty = false := by
          cases hh : (data.drop so).take sigSize with
          | nil =>
            have := congrArg List.length hh
            simp only [List.length_take, List.length_drop, List.length_nil] at this
            omega
          | cons _ _ => rfl
        have l4 (off : Nat) (ho : off + 4 ≤ 12) : ((data.drop off).take 4).length = 4 := by
          simp only [List.length_take, List.length_drop]; omega
        have l4' : (data.take 4).length = 4 := by simp only [List.length_take]; omega
        have c1 : leDec ((data.drop 4).take 4) < 256 ^ 4 := leDec_lt_w 4 _ (l4 4 (by omega))
        have c2 : leDec ((data.drop 8).take 4) < 256 ^ 4 := leDec_lt_w 4 _ (l4 8 (by omega))
        have c0 : so < 256 ^ 4 := by rw [← hso']; exact leDec_lt_w 4 _ l4'
        have hoffv : ∀ cns fl, iskSigOffset ⟨true, cns, fl, (data.drop 12).take (kl * 2), (data.drop (12 + kl * 2)).take (so - (12 + kl * 2)),
            (data.drop so).take sigSize⟩ = so := by
          intro cns fl
          simp only [iskSigOffset, ↓reduceIte, List.length_take, List.length_drop]; omega
        have e0 : leEnc 4 so = data.take 4 := by rw [← hso']; exact leEnc_leDec_w 4 _ l4'
        simp only [iskExport, hsne, Bool.false_eq_true, ↓reduceIte, iskHeader, hoffv, ← hfl, packLE_ok 4 _ c1, packLE_ok 4 _ c2,
          packLE_ok 4 _ c0, bind_ok, pure_eq_ok, e0, leEnc_leDec_w 4 _ (l4 4 (by omega)), leEnc_leDec_w 4 _ (l4 8 (by omega))]
        have s1 : data.take 12 = data.take 4 ++ (data.drop 4).take 4 ++ (data.drop 8).take 4 := by
          have e : (12 : Nat) = 4 + (4 + 4) := rfl
          rw [e]; simp only [List.take_add, List.drop_drop, List.append_assoc]
        have s2 : data.take (12 + kl * 2) = data.take 12 ++ (data.drop 12).take (kl * 2) := List.take_add
        have s3 : data.take so = data.take (12 + kl * 2) ++ (data.drop (12 + kl * 2)).take (so - (12 + kl * 2)) := by
          have e : so = (12 + kl * 2) + (so - (12 + kl * 2)) := by omega
          conv => lhs; rw [e]
          exact List.take_add
        have s4 : data.take (so + sigSize) = data.take so ++ (data.drop so).take sigSize := List.take_add
        rw [s4, s3, s2, s1]

/-! ### certificate block v2.1 without ISK certificate (CA flag set) -/

theorem headerV21Parse_inv (data : Bytes) (major minor size : Nat) (h : headerV21Parse data = .ok (major, minor, size)) :
    12 ≤ data.length ∧ data.take 12 = G.cbV21Magic ++ leEnc 2 minor ++ leEnc 2 major ++ leEnc 4 size ∧
    major < 65536 ∧ minor < 65536 ∧ size < 2 ^ 32 := by
  have p16 : (65536 : Nat) = 256 ^ 2 := by decide
  have p32 : (2 : Nat) ^ 32 = 256 ^ 4 := by decide
  by_cases hl : headerSizeV21 > data.length
  · simp only [headerV21Parse, hl, ↓reduceIte] at h; cases h
  have hl' : 12 ≤ data.length := by simp only [headerSizeV21] at hl; omega
  have u (w off : Nat) (ho : off + w ≤ 12) : unpackLE w (data.drop off) = .ok (leDec ((data.drop off).take w), data.drop (off + w)) := by
    rw [unpackLE_ok (by simp only [List.length_drop]; omega), List.drop_drop]
  simp only [headerV21Parse, hl, ↓reduceIte, u 2 4 (by omega), u 2 (4 + 2) (by omega), u 4 (4 + 2 + 2) (by omega), bind_ok] at h
  by_cases hs : data.take 4 = G.cbV21Magic
  · simp only [hs, ne_eq, not_true_eq_false, ↓reduceIte, pure_eq_ok, Except.ok.injEq, Prod.mk.injEq] at h
    obtain ⟨rfl, rfl, rfl⟩ := h
    have len (w off : Nat) (ho : off + w ≤ 12) : ((data.drop off).take w).length = w := by
      simp only [List.length_take, List.length_drop]; omega
    refine ⟨hl', ?_, ?_, ?_, ?_⟩
    · rw [leEnc_leDec_w 2 _ (len 2 4 (by omega)), leEnc_leDec_w 2 _ (len 2 (4 + 2) (by omega)),
        leEnc_leDec_w 4 _ (len 4 (4 + 2 + 2) (by omega)), ← hs]
      have e : (12 : Nat) = 4 + (2 + (2 + 4)) := rfl
      rw [e]
      simp only [List.take_add, List.drop_drop, List.append_assoc]
    · rw [p16]; exact leDec_lt_w 2 _ (len 2 _ (by omega))
    · rw [p16]; exact leDec_lt_w 2 _ (len 2 _ (by omega))
    · rw [p32]; exact leDec_lt_w 4 _ (len 4 _ (by omega))
  · simp only [hs, ne_eq, not_false_eq_true, ↓reduceIte] at h; cases h

theorem rkrCount_le (flags : Nat) : rkrCount flags ≤ 15 := by
  have e1 : G.rkrParseCountMask = 240 := rfl
  have e2 : G.rkrParseCountShift = 4 := rfl
  simp only [rkrCount, e1, e2, Nat.shiftRight_eq_div_pow]
  have : flags &&& 240 ≤ 240 := Nat.and_le_right
  omega

/-- `CertBlockV21.parse` accepted ARBITRARY bytes whose root key record carries the CA flag (no ISK certificate follows) and is complete:
    the parsed block has no ISK certificate and re-exporting it gives magic ‖ minor ‖ major ‖ recomputed size word ‖ the record bytes -
    i.e. the first `12 + n` input bytes whenever the input's size word was `12 + n` -/
theorem parseV21Block_ca_inv (c : CryptoOps) (pointOk : Bytes → Bool) (data : Bytes) (cb : CertBlockV21)
    (h : parseV21Block c pointOk data = .ok cb) (hca : rkrCa (leDec ((data.drop 12).take 4)) = true) (hl : Nat)
    (hhl : lookupOr G.rkrParseHashLen (rkrCurve (leDec ((data.drop 12).take 4))) = .ok hl)
    (hfull : 12 + 4 + (if rkrCount (leDec ((data.drop 12).take 4)) > 1 then hl * rkrCount (leDec ((data.drop 12).take 4)) else 0) + hl * 2
      ≤ data.length) :
    ∃ n, cb.isk = none ∧ n ≤ (data.drop 12).length ∧
      n = 4 + (if rkrCount cb.rkr.flags > 1 then hl * rkrCount cb.rkr.flags else 0) + hl * 2 ∧
      exportV21Block cb = .ok (G.cbV21Magic ++ leEnc 2 cb.minor ++ leEnc 2 cb.major ++ leEnc 4 (12 + n) ++ (data.drop 12).take n) ∧
      (leDec ((data.drop 8).take 4) = 12 + n → exportV21Block cb = .ok (data.take (12 + n))) := by
  cases hh : headerV21Parse data with
  | error e => simp only [parseV21Block, hh] at h; cases h
  | ok p =>
    obtain ⟨major, minor, size⟩ := p
    obtain ⟨h12, htake, b1, b2, b3⟩ := headerV21Parse_inv data major minor size hh
    simp only [parseV21Block, hh, bind_ok] at h
    have e12 : headerSizeV21 = 12 := rfl
    rw [e12] at h
    cases hr : rkrParse c (data.drop 12) with
    | error e => rw [hr] at h; cases h
    | ok q =>
      obtain ⟨r, n⟩ := q
      have hfull' : 4 + (if rkrCount (leDec ((data.drop 12).take 4)) > 1 then hl * rkrCount (leDec ((data.drop 12).take 4)) else 0) + hl * 2
          ≤ (data.drop 12).length := by simp only [List.length_drop]; omega
      obtain ⟨hex, hn, hfl, hnv, hsz, _, _⟩ := rkrParse_inv c (data.drop 12) r n hr hl hhl hfull'
      rw [hr] at h
      simp only [bind_ok] at h
      have hca' : rkrCa r.flags = true := by rw [hfl]; exact hca
      simp only [hca', ↓reduceIte, pure_eq_ok, bind_ok, Except.ok.injEq] at h
      subst h
      have hnl : ((data.drop 12).take n).length = n := by simp only [List.length_take]; omega
      have hcnt := rkrCount_le r.flags
      have hnb : n ≤ 4 + 64 * 15 + 64 * 2 := by
        rw [hnv]
        split
        · have : hl * rkrCount r.flags ≤ 64 * 15 := Nat.mul_le_mul hsz hcnt
          omega
        · omega
      have p32 : (2 : Nat) ^ 32 = 256 ^ 4 := by decide
      have p16 : (65536 : Nat) = 256 ^ 2 := by decide
      have hexp : exportV21Block ⟨major, minor, r, none⟩ =
          .ok (G.cbV21Magic ++ leEnc 2 minor ++ leEnc 2 major ++ leEnc 4 (12 + n) ++ (data.drop 12).take n) := by
        have k1 := packLE_ok 2 minor (by rw [← p16]; exact b2)
        have k2 := packLE_ok 2 major (by rw [← p16]; exact b1)
        have k3 := packLE_ok 4 (12 + n) (by omega)
        simp only [exportV21Block, hex, bind_ok, pure_eq_ok, hnl, headerV21Export, e12, List.length_nil, Nat.add_zero, k1, k2, k3,
          List.append_nil]
      refine ⟨n, rfl, hn, hnv, hexp, fun hsize => ?_⟩
      have hw : leEnc 4 (12 + n) = (data.drop 8).take 4 := by
        rw [← hsize]; exact leEnc_leDec_w 4 _ (by simp only [List.length_take, List.length_drop]; omega)
      rw [hexp, hw]
      have e : (12 : Nat) + n = 4 + (2 + (2 + 4)) + n := rfl
      have hmm : G.cbV21Magic ++ leEnc 2 minor ++ leEnc 2 major = data.take 8 := by
        have := congrArg (List.take 8) htake
        rw [List.take_take] at this
        have hlen : (G.cbV21Magic ++ leEnc 2 minor ++ leEnc 2 major).length = 8 := by
          have : G.cbV21Magic.length = 4 := rfl
          simp only [List.length_append, leEnc_len, this]
        rw [List.take_left' hlen] at this
        exact this.symm
      rw [hmm]
      have e2 : (12 : Nat) + n = 8 + (4 + n) := by omega
      rw [e2, List.take_add, List.take_add, List.drop_drop, List.append_assoc]

/-- `CertBlockV21.parse` accepted ARBITRARY bytes (shorter than 4 GiB) whose root key record is complete and does NOT carry the CA flag, so an
    ISK certificate follows.  If that certificate is in canonical form (`iskParse_inv`: normal format, flags word as recomputed, no gap before the
    signature, full-length signature), re-exporting the block gives `chdr ‖ minor ‖ major ‖ size ‖ record ‖ certificate` with the size word
    recomputed - the first `12 + n + m` input bytes when the input's size word had that value -/
theorem parseV21Block_isk_inv (c : CryptoOps) (pointOk : Bytes → Bool) (data : Bytes) (cb : CertBlockV21)
    (h : parseV21Block c pointOk data = .ok cb) (hca : rkrCa (leDec ((data.drop 12).take 4)) = false) (hl : Nat)
    (hhl : lookupOr G.rkrParseHashLen (rkrCurve (leDec ((data.drop 12).take 4))) = .ok hl)
    (hfull : 12 + 4 + (if rkrCount (leDec ((data.drop 12).take 4)) > 1 then hl * rkrCount (leDec ((data.drop 12).take 4)) else 0) + hl * 2
      ≤ data.length) (hdl : data.length < 2 ^ 32) :
    ∃ n i, cb.isk = some i ∧ n = 4 + (if rkrCount cb.rkr.flags > 1 then hl * rkrCount cb.rkr.flags else 0) + hl * 2 ∧
      iskParse pointOk (data.drop (12 + n)) (hl * 2) = .ok i ∧
      (leDec ((data.drop (12 + n)).take 4) % 65536 ≠ G.iskNoOffsetMagic →
       leDec (((data.drop (12 + n)).drop 8).take 4) = i.flags →
       leDec ((data.drop (12 + n)).take 4) = 12 + i.pubKey.length + i.userData.length →
       i.signature.length = hl * 2 →
        exportV21Block cb = .ok (G.cbV21Magic ++ leEnc 2 cb.minor ++ leEnc 2 cb.major ++
          leEnc 4 (12 + n + (leDec ((data.drop (12 + n)).take 4) + hl * 2)) ++
          (data.drop 12).take (n + (leDec ((data.drop (12 + n)).take 4) + hl * 2))) ∧
        (leDec ((data.drop 8).take 4) = 12 + n + (leDec ((data.drop (12 + n)).take 4) + hl * 2) →
          exportV21Block cb = .ok (data.take (12 + n + (leDec ((data.drop (12 + n)).take 4) + hl * 2))))) := by
  cases hh : headerV21Parse data with
  | error e => simp only [parseV21Block, hh] at h; cases h
  | ok p =>
    obtain ⟨major, minor, size⟩ := p
    obtain ⟨h12, htake, b1, b2, b3⟩ := headerV21Parse_inv data major minor size hh
    simp only [parseV21Block, hh, bind_ok] at h
    have e12 : headerSizeV21 = 12 := rfl
    rw [e12] at h
    cases hr : rkrParse c (data.drop 12) with
    | error e => rw [hr] at h; cases h
    | ok q =>
      obtain ⟨r, n⟩ := q
      have hfull' : 4 + (if rkrCount (leDec ((data.drop 12).take 4)) > 1 then hl * rkrCount (leDec ((data.drop 12).take 4)) else 0) + hl * 2
          ≤ (data.drop 12).length := by simp only [List.length_drop]; omega
      obtain ⟨hex, hn, hfl, hnv, hsz, hpkl, hpos⟩ := rkrParse_inv c (data.drop 12) r n hr hl hhl hfull'
      rw [hr] at h
      simp only [bind_ok] at h
      have hca' : rkrCa r.flags = false := by rw [hfl]; exact hca
      simp only [hca', Bool.false_eq_true, ↓reduceIte, hpkl] at h
      cases hi : iskParse pointOk (data.drop (12 + n)) (hl * 2) with
      | error e => rw [hi] at h; cases h
      | ok i =>
        rw [hi] at h
        simp only [bind_ok, pure_eq_ok, Except.ok.injEq] at h
        subst h
        refine ⟨n, i, rfl, hnv, hi, fun k1 k2 k3 k4 => ?_⟩
        obtain ⟨hiex, _, hiend⟩ := iskParse_inv pointOk (data.drop (12 + n)) (hl * 2) i hi k1 k2 k3 k4 (by omega)
        generalize hso : leDec ((data.drop (12 + n)).take 4) = so at *
        simp only [List.length_drop] at hiend hn
        have hnl : ((data.drop 12).take n).length = n := by simp only [List.length_take, List.length_drop]; omega
        have hil : ((data.drop (12 + n)).take (so + hl * 2)).length = so + hl * 2 := by
          simp only [List.length_take, List.length_drop]; omega
        have p32 : (2 : Nat) ^ 32 = 256 ^ 4 := by decide
        have p16 : (65536 : Nat) = 256 ^ 2 := by decide
        have k1' := packLE_ok 2 minor (by rw [← p16]; exact b2)
        have k2' := packLE_ok 2 major (by rw [← p16]; exact b1)
        have k3' := packLE_ok 4 (12 + n + (so + hl * 2)) (by omega)
        have hexp : exportV21Block ⟨major, minor, r, some i⟩ =
            .ok (G.cbV21Magic ++ leEnc 2 minor ++ leEnc 2 major ++ leEnc 4 (12 + n + (so + hl * 2)) ++ (data.drop 12).take (n + (so + hl * 2))) := by
          have tk : (data.drop 12).take (n + (so + hl * 2)) = (data.drop 12).take n ++ (data.drop (12 + n)).take (so + hl * 2) := by
            rw [List.take_add, List.drop_drop]
          simp only [exportV21Block, hex, bind_ok, pure_eq_ok, hiex, hnl, hil, headerV21Export, e12, k1', k2', k3', tk, List.append_assoc]
        refine ⟨hexp, fun hsize => ?_⟩
        have hw : leEnc 4 (12 + n + (so + hl * 2)) = (data.drop 8).take 4 := by
          rw [← hsize]; exact leEnc_leDec_w 4 _ (by simp only [List.length_take, List.length_drop]; omega)
        rw [hexp, hw]
        have hmm : G.cbV21Magic ++ leEnc 2 minor ++ leEnc 2 major = data.take 8 := by
          have := congrArg (List.take 8) htake
          rw [List.take_take] at this
          have hlen : (G.cbV21Magic ++ leEnc 2 minor ++ leEnc 2 major).length = 8 := by
            have : G.cbV21Magic.length = 4 := rfl
            simp only [List.length_append, leEnc_len, this]
          rw [List.take_left' hlen] at this
          exact this.symm
        rw [hmm]
        have e2 : 12 + n + (so + hl * 2) = 8 + (4 + (n + (so + hl * 2))) := by omega
        have t1 : data.take (8 + (4 + (n + (so + hl * 2)))) = data.take 8 ++ ((data.drop 8).take 4 ++ (data.drop 12).take (n + (so + hl * 2))) := by
          rw [List.take_add, List.take_add, List.drop_drop]
        rw [e2, t1, List.append_assoc]

end SpsdkVerif.CertBlock
