/-
C13 — BEE region header: `BeeRegionHeader.export()` (EKIB = AES-ECB(sw_key, KIB), EPRDB = AES-CBC(kib_key, kib_iv, PRDB))
parses back on the ROM side to the engine configuration (SW key, counter, FAC regions).
-/
import SpsdkVerif.Proofs.FlashEncCommon

namespace SpsdkVerif.FlashEnc
open SpsdkVerif SpsdkVerif.Crypto
open SpsdkVerif.Misc (beEnc beDec leEnc leDec)
open SpsdkVerif.Generated.FlashEncConsts

variable {c : CryptoOps}

theorem beehdr_facBytes_length (f : Fac) (l : Nat) : (BeeHdr.facBytes f l).length = 32 := by
  simp [BeeHdr.facBytes, leEnc_length]

theorem beehdr_facsBytes_length : ∀ (fs : List Fac) (ls : List Nat), (BeeHdr.facsBytes fs ls).length = 32 * fs.length
  | [], _ => rfl
  | f :: fs, ls => by
    simp only [BeeHdr.facsBytes, List.length_append, beehdr_facBytes_length, beehdr_facsBytes_length fs, List.length_cons]
    omega

theorem beehdr_facsOk : ∀ (fs : List Fac) (ls : List Nat), (∀ l ∈ ls, l ≤ 3) →
    (∀ f ∈ fs, f.start % 1024 = 0 ∧ 0 < f.length ∧ f.start + f.length ≤ 0xFFFFFFFF) → BeeHdr.facsOk fs ls = true
  | [], _, _, _ => rfl
  | f :: fs, ls, hls, hfs => by
    have hf := hfs f List.mem_cons_self
    have hl : ls.headD 0 ≤ 3 := by
      cases ls with
      | nil => simp
      | cons l t => exact hls l List.mem_cons_self
    have htl : ∀ l ∈ ls.tail, l ≤ 3 := fun l hl => hls l (List.mem_of_mem_tail hl)
    have ih := beehdr_facsOk fs ls.tail htl (fun x hx => hfs x (List.mem_cons_of_mem _ hx))
    simp only [BeeHdr.facsOk, ih, Bool.and_true, BeeHdr.facOk, Fac.end_, beeEncrBlockSize]
    generalize ls.headD 0 = l0 at hl
    simp [hf.1, hf.2.1, hf.2.2, hl]

theorem beehdr_parseFacs : ∀ (fs : List Fac) (ls : List Nat) (tail : Bytes), (∀ f ∈ fs, f.start + f.length < 2 ^ 32) →
    beeParseFacs fs.length (BeeHdr.facsBytes fs ls ++ tail) = fs
  | [], _, _, _ => rfl
  | f :: fs, ls, tail, hfs => by
    have hf := hfs f List.mem_cons_self
    have hp : (256 : Nat) ^ 4 = 2 ^ 32 := by decide
    have ih := beehdr_parseFacs fs ls.tail tail (fun x hx => hfs x (List.mem_cons_of_mem _ hx))
    have hl := beehdr_facBytes_length f (ls.headD 0)
    simp only [List.length_cons, beeParseFacs, BeeHdr.facsBytes, List.append_assoc]
    rw [List.drop_left' hl, ih]
    have e1 : (BeeHdr.facBytes f (ls.headD 0) ++ (BeeHdr.facsBytes fs ls.tail ++ tail)).take 4 = leEnc 4 f.start := by
      simp [BeeHdr.facBytes, leEnc_length]
    have e2 : ((BeeHdr.facBytes f (ls.headD 0) ++ (BeeHdr.facsBytes fs ls.tail ++ tail)).drop 4).take 4 = leEnc 4 f.end_ := by
      simp [BeeHdr.facBytes, leEnc_length]
    rw [e1, e2, leDec_leEnc _ _ (by omega), leDec_leEnc _ _ (by unfold Fac.end_; omega)]
    cases f with
    | mk s l => simp [Fac.end_]


theorem beehdr_fields (T1 T2 V N S E M L C Z R1 R2 : Bytes)
    (h1 : T1.length = 4) (h2 : T2.length = 4) (h3 : V.length = 4) (h4 : N.length = 4) (h5 : S.length = 4)
    (h6 : E.length = 4) (h7 : M.length = 4) (h8 : L.length = 4) (h9 : C.length = 16) (h10 : Z.length = 32) :
    ∀ p, p = T1 ++ T2 ++ V ++ N ++ S ++ E ++ M ++ L ++ C ++ Z ++ R1 ++ R2 →
    p.take 4 = T1 ∧ (p.drop 4).take 4 = T2 ∧ (p.drop 8).take 4 = V ∧ (p.drop 12).take 4 = N ∧
    (p.drop 24).take 4 = M ∧ (p.drop 32).take 16 = C ∧ p.drop 80 = R1 ++ R2 := by
  intro p hp
  subst hp
  refine ⟨?_, ?_, ?_, ?_, ?_, ?_, ?_⟩ <;> simp [List.drop_append, List.drop_of_length_le, *]

theorem beehdr_prdb_length (h : BeeHdr) (hw : h.WF) : h.prdbPlain.length = 256 := by
  have := hw.nfac
  have := hw.eng.ctr_len
  simp only [BeeHdr.prdbPlain, zeroPadTo, beePrdbSize, List.length_append, leEnc_length, zeros_length,
    List.length_reverse, beehdr_facsBytes_length]
  omega

/-- the exported 0x200-byte header decrypts (SW key → KIB → PRDB) and parses to the configured engine -/
theorem bee_header_unwraps (hl : CryptoLaws c) (h : BeeHdr) (hw : h.WF) :
    ∃ b, h.export c = .ok b ∧ b.length = 512 ∧ beeHeaderUnwrap c h.engine.key b = some h.engine := by
  have hkk := hw.kib_key
  have hki := hw.kib_iv
  have hKl : (h.kibKey ++ h.kibIv).length = 32 := by simp [hkk, hki]
  have hE : (ecbEnc c h.engine.key (h.kibKey ++ h.kibIv)).length = 32 := by rw [ecbEnc_length hl, hKl]
  have hP := beehdr_prdb_length h hw
  have hC : (cbcEnc c h.kibKey h.kibIv h.prdbPlain).length = 256 := by rw [cbcEnc_length hl, hP]
  generalize hEK : ecbEnc c h.engine.key (h.kibKey ++ h.kibIv) = EK at hE
  generalize hEP : cbcEnc c h.kibKey h.kibIv h.prdbPlain = EP at hC
  have hfacs : ∀ f ∈ h.engine.facs, f.start % 1024 = 0 ∧ 0 < f.length ∧ f.start + f.length ≤ 0xFFFFFFFF :=
    fun f hf => ⟨(hw.eng.facs f hf).1, (hw.eng.facs f hf).2.2.1, hw.fac_end f hf⟩
  refine ⟨zeroPadTo 512 (zeroPadTo 128 EK ++ EP), ?_, ?_, ?_⟩
  · unfold BeeHdr.export
    have g1 : ¬ (h.kibKey.length ≠ 16 ∨ h.kibIv.length ≠ 16) := by omega
    have g2 : ¬ h.engine.counter.length ≠ 16 := by have := hw.eng.ctr_len; omega
    have g3 : ¬ h.engine.counter.drop 12 ≠ [0, 0, 0, 0] := by simp [hw.eng.ctr_low]
    have g4 : ¬ (h.engine.facs.length = 0 ∨ h.engine.facs.length > beeFacRegions) := by
      have := hw.nfac; simp only [beeFacRegions]; omega
    have g5 : (!BeeHdr.facsOk h.engine.facs h.levels) = false := by
      rw [beehdr_facsOk _ _ hw.levels hfacs]; rfl
    have g6 : ¬ h.engine.key.length ≠ 16 := by have := hw.eng.key_len; omega
    have g7 : ¬ h.lockOptions ≥ 2 ^ 32 := by have := hw.lock; omega
    simp only [g1, g2, g3, g4, g5, g6, g7, if_false, Bool.false_eq_true, hEK, hEP, beeHdrSize, beeHdrPrdbOffset]
  · simp [zeroPadTo, hE, hC]
  · have hlen : (zeroPadTo 512 (zeroPadTo 128 EK ++ EP)).length = 512 := by simp [zeroPadTo, hE, hC]
    have hz : (zeroPadTo 128 EK).length = 128 := by simp [zeroPadTo, hE]
    have t1 : (zeroPadTo 512 (zeroPadTo 128 EK ++ EP)).take 32 = EK := by
      unfold zeroPadTo
      rw [List.append_assoc, List.append_assoc]
      exact List.take_left' hE
    have t2 : ((zeroPadTo 512 (zeroPadTo 128 EK ++ EP)).drop 0x80).take 0x100 = EP := by
      rw [zeroPadTo, List.append_assoc, List.drop_left' hz]
      exact List.take_left' hC
    have hkib : ecbDec c h.engine.key EK = h.kibKey ++ h.kibIv := by
      rw [← hEK]; exact ecb_inv hl _ _ (by omega)
    have hp : cbcDec c h.kibKey h.kibIv EP = h.prdbPlain := by
      rw [← hEP]; exact cbc_inv hl _ _ _ hki (by omega)
    unfold beeHeaderUnwrap
    simp only [t1, t2, hkib, List.take_left' hkk, List.drop_left' hkk, hp, hlen]
    have hn4 : h.engine.facs.length < 256 ^ 4 := by have := hw.nfac; omega
    obtain ⟨f1, f2, f3, f4, f5, f6, f7⟩ := beehdr_fields (leEnc 4 beeTagL) (leEnc 4 beeTagH) (leEnc 4 beeVersion)
      (leEnc 4 h.engine.facs.length) (leEnc 4 h.engine.envStart) (leEnc 4 h.engine.envEnd) (leEnc 4 beeModeCtr)
      (leEnc 4 h.lockOptions) h.engine.counter.reverse (zeros 32) (BeeHdr.facsBytes h.engine.facs h.levels)
      (zeros (beePrdbSize - (leEnc 4 beeTagL ++ leEnc 4 beeTagH ++ leEnc 4 beeVersion ++ leEnc 4 h.engine.facs.length
        ++ leEnc 4 h.engine.envStart ++ leEnc 4 h.engine.envEnd ++ leEnc 4 beeModeCtr ++ leEnc 4 h.lockOptions
        ++ h.engine.counter.reverse ++ zeros 32 ++ BeeHdr.facsBytes h.engine.facs h.levels).length))
      (leEnc_length _ _) (leEnc_length _ _) (leEnc_length _ _) (leEnc_length _ _) (leEnc_length _ _) (leEnc_length _ _)
      (leEnc_length _ _) (leEnc_length _ _) (by simp [hw.eng.ctr_len]) (zeros_length _) h.prdbPlain rfl
    rw [f1, f2, f3, f4, f5, f6, f7, leDec_leEnc _ _ (by decide), leDec_leEnc _ _ (by decide), leDec_leEnc _ _ (by decide),
      leDec_leEnc _ _ (by decide), leDec_leEnc _ _ hn4, List.reverse_reverse,
      beehdr_parseFacs _ _ _ (fun f hf => by have := hw.fac_end f hf; omega)]
    simp [beeTagL, beeTagH, beeVersion, beeModeCtr]

end SpsdkVerif.FlashEnc
