/-
C02, negative side for RSA signed (v1) images, as REDUCTIONS (`Break co`, no idealised axiom):
 * images without HMAC: a changed application byte (not one of the layout words) that is still accepted with the RSA
   obligation holding is a signature forgery;
 * images with HMAC: a changed byte of the first 64 bytes that is still accepted is an HMAC forgery (no obligation needed);
   a changed application byte behind the HMAC / key-store block that is still accepted with the RSA obligation holding is a
   signature forgery.
-/
import SpsdkVerif.Proofs.MbiRomV1
import SpsdkVerif.Crypto.Break

namespace SpsdkVerif.Mbi
open SpsdkVerif SpsdkVerif.Misc SpsdkVerif.Crypto
open SpsdkVerif.Generated.IvtConsts

variable {co : CryptoOps} {env : Env} {c : Cls} {cfg : Cfg} {signer : Signer}

namespace RomNegV1
open SignedV1 RomV1
open SpsdkVerif.Generated.MbiClasses (MixinName)

/-! ### a changed byte and the reads that do not see it -/

theorem rd32_set (l : Bytes) (i off : Nat) (y : UInt8) (h : i < off ∨ off + 4 ≤ i) :
    rd32 (l.set i y) off = rd32 l off := by
  unfold rd32
  rcases h with h | h
  · rw [List.drop_set_of_lt h]
  · rw [List.drop_set, if_neg (by omega), List.take_set_of_le (by omega)]

theorem slice_set (l : Bytes) (i a b : Nat) (y : UInt8) (h : i < a ∨ b ≤ i) :
    slice (l.set i y) a b = slice l a b := by
  unfold slice
  rcases h with h | h
  · rw [List.take_set, List.drop_set_of_lt h]
  · rw [List.take_set_of_le h]

theorem set_ne (l : Bytes) (i : Nat) (y : UInt8) (h : l[i]? ≠ some y) (hi : i < l.length) : l ≠ l.set i y := by
  intro e
  have := List.getElem?_set_self (a := y) hi
  rw [← e] at this
  exact h this

theorem slice_shift (pre w post : Bytes) (a b : Nat) (hb : b ≤ w.length) :
    slice (pre ++ w ++ post) (pre.length + a) (pre.length + b) = slice w a b := by
  unfold slice
  rw [List.append_assoc, List.take_append, List.take_of_length_le (by omega), Nat.add_sub_cancel_left,
    List.drop_append, List.drop_of_length_le (by omega), List.nil_append,
    Nat.add_sub_cancel_left, List.take_append_of_le_length hb]

/-! ### the certificates the ROM finds lie inside the block -/

theorem need_bind {α : Type} {b : Bool} {w : String} {f : Unit → Spec.MbiRom.Rom α} {x : α}
    (h : (Spec.MbiRom.need b w >>= f) = .ok x) : b = true ∧ f () = .ok x := by
  cases b with
  | false => simp [Spec.MbiRom.need, bind, Except.bind] at h
  | true => exact ⟨rfl, by simpa [Spec.MbiRom.need, bind, Except.bind] using h⟩

theorem certEntries_bounds (body : Bytes) : ∀ (n off limit : Nat) (cs : List (Nat × Nat)) (e : Nat),
    Spec.MbiRom.certEntries body n off limit = .ok (cs, e) → off ≤ e ∧ ∀ q ∈ cs, q.1 + q.2 ≤ e
  | 0, off, limit, cs, e, h => by
    simp only [Spec.MbiRom.certEntries, Except.ok.injEq, Prod.mk.injEq] at h
    obtain ⟨rfl, rfl⟩ := h
    exact ⟨Nat.le_refl _, by simp⟩
  | n + 1, off, limit, cs, e, h => by
    unfold Spec.MbiRom.certEntries at h
    obtain ⟨_, h⟩ := need_bind h
    obtain ⟨_, h⟩ := need_bind h
    rcases hr : Spec.MbiRom.certEntries body n (off + 4 + Spec.MbiRom.rd32 body off) limit with err | ⟨rest, e'⟩
    · simp [hr, bind, Except.bind] at h
    · simp only [hr, bind, Except.bind, pure, Except.pure, Except.ok.injEq, Prod.mk.injEq] at h
      obtain ⟨rfl, rfl⟩ := h
      obtain ⟨i1, i2⟩ := certEntries_bounds body n _ limit rest e' hr
      refine ⟨by omega, ?_⟩
      intro q hq
      rcases List.mem_cons.1 hq with rfl | hq
      · simp only; omega
      · exact i2 q hq

theorem align4_ge (n : Nat) : n ≤ Spec.MbiRom.align4 n := by unfold Spec.MbiRom.align4; omega

theorem romCertV1_bounds (co : CryptoOps) (renv : Spec.MbiRom.RomEnv) (body : Bytes) (off : Nat)
    (ci : Spec.MbiRom.CertV1Info) (h : Spec.MbiRom.romCertV1 co renv body off = .ok ci) :
    ∀ q ∈ ci.certs, q.1 + q.2 ≤ ci.blockEnd := by
  unfold Spec.MbiRom.romCertV1 at h
  replace h := (need_bind h).2
  replace h := (need_bind h).2
  replace h := (need_bind h).2
  replace h := (need_bind h).2
  replace h := (need_bind h).2
  rcases hr : Spec.MbiRom.certEntries body (Spec.MbiRom.rd32 body (off + 24)) (off + Spec.MbiRom.certV1HeaderSize)
      (off + Spec.MbiRom.certV1HeaderSize + Spec.MbiRom.rd32 body (off + 28)) with err | ⟨certs, tblEnd⟩
  · simp [hr, bind, Except.bind] at h
  · simp only [hr, bind, Except.bind] at h
    replace h := (need_bind h).2
    replace h := (need_bind h).2
    replace h := (need_bind h).2
    simp only [pure, Except.pure, Except.ok.injEq] at h
    subst h
    obtain ⟨i1, i2⟩ := certEntries_bounds body _ _ _ certs tblEnd hr
    intro q hq
    have := i2 q hq
    have := align4_ge (tblEnd + Spec.MbiRom.rkhTableEntries * Spec.MbiRom.rkhSize - off)
    simp only [Spec.MbiRom.certV1HeaderSize] at i1
    simp only
    omega

/-! ### the ROM's answer for any body with the same certificate word and certificate block -/

section walk
variable {co : CryptoOps} {c : Cls} {cfg : Cfg}

theorem romSignedV1_gen (k : ClsF c) (g : CfgF c cfg) (renv : Spec.MbiRom.RomEnv) (certs : List (Nat × Nat))
    (table : List Bytes) (hrom : RomCertV1OK co renv cfg.cert certs table) (body : Bytes) (stripped : Nat)
    (hlen : body.length = (rawOf c cfg).length + cfg.sigLen)
    (hw : rd32 body ivtCrcCertificateOffset = appLen c cfg)
    (hat : slice body (appLen c cfg) (appLen c cfg + cfg.cert.length) = certInImage c cfg) :
    ∃ p, certs.getLast? = some p ∧ p.1 + p.2 ≤ cfg.cert.length
      ∧ Spec.MbiRom.romSignedV1 co renv body stripped
          = .ok { stripped := stripped
                  obligations := [.x509Chain (certs.map (fun p => (appLen c cfg + p.1, p.2))) table,
                                  .rsaByCert (appLen c cfg + p.1, p.2) (totalLenForCertBlock c cfg).toNat]
                  authenticated := [(0, body.length + stripped)] } := by
  obtain ⟨hne, hwalk⟩ := hrom
  have hat' : certAt body (certSetImageLength cfg.cert (totalLenForCertBlock c cfg).toNat) (appLen c cfg) := by
    unfold certAt
    rw [spec_sub, ← certInImage_eq cfg k, certInImage_length k g]
    exact hat
  obtain ⟨ci, h1, h2, h3, h4, h5⟩ := hwalk _ _ _ hat' (il_bound k g)
  obtain ⟨p, hp⟩ : ∃ p, certs.getLast? = some p := by
    cases hl : certs.getLast? with
    | none => exact absurd (List.getLast?_eq_none_iff.1 hl) hne
    | some p => exact ⟨p, rfl⟩
  have hb : p.1 + p.2 ≤ cfg.cert.length := by
    have := romCertV1_bounds co renv body _ ci h1 (appLen c cfg + p.1, p.2) (by
      rw [h2]; exact List.mem_map.2 ⟨p, List.mem_of_getLast? hp, rfl⟩)
    rw [h5] at this
    simp only at this
    omega
  have hlast : (certs.map (fun p => (appLen c cfg + p.1, p.2))).getLast? = some (appLen c cfg + p.1, p.2) := by
    rw [List.getLast?_map, hp]; rfl
  have hw' : Spec.MbiRom.rd32 body Spec.MbiRom.offCrcOrCert = appLen c cfg := hw
  have c1 : decide (appLen c cfg ≥ Spec.MbiRom.ivtSize ∧ (appLen c cfg % 4 == 0) = true) = true := by
    have h1 : 56 ≤ appLen c cfg := appLen_ge k g
    have := appLen_mod4 k cfg
    have h2 : Spec.MbiRom.ivtSize = 56 := rfl
    simp only [h2, decide_eq_true_eq, beq_iff_eq]; omega
  have c2 : decide (ci.blockEnd ≤ ci.imageLength ∧ ci.imageLength < body.length) = true := by
    have := g.hSigLen
    rw [h4, h5, hlen, raw_length k g, legacyLen_nat cfg k]
    simp only [decide_eq_true_eq]; omega
  rw [h4] at c2
  refine ⟨p, hp, hb, ?_⟩
  unfold Spec.MbiRom.romSignedV1
  simp only [hw', need_ok c1, h1, need_ok c2, bind, Except.bind, h2, hlast, pure, Except.pure, h3, h4]

theorem appLen_le_raw (k : ClsF c) (g : CfgF c cfg) : appLen c cfg ≤ (rawOf c cfg).length := by
  simp only [rawOf, List.length_append, appLen_blocks k g]; omega

/-- a changed application byte of the body that is accepted with the RSA obligation holding is a forgery -/
theorem body_forgery (k : ClsF c) (g : CfgF c cfg) (renv : Spec.MbiRom.RomEnv) (certs : List (Nat × Nat))
    (table : List Bytes) (hrom : RomCertV1OK co renv cfg.cert certs table)
    (alg : SigAlg) (sk : PrivKey) (r : Rand) (certPub : Bytes → PubKey)
    (hpub : ∀ last, certs.getLast? = some last → certPub (slice (certInImage c cfg) last.1 (last.1 + last.2)) = co.pubOf sk)
    (hs : (co.sign alg sk (rawOf c cfg) r).length = cfg.sigLen)
    (j : Nat) (y : UInt8) (hj : j < appLen c cfg) (hlw : ¬ layoutWord j)
    (hne : (rawOf c cfg ++ co.sign alg sk (rawOf c cfg) r)[j]? ≠ some y) (stripped : Nat) (a : Spec.MbiRom.Accepted)
    (hacc : Spec.MbiRom.romSignedV1 co renv ((rawOf c cfg ++ co.sign alg sk (rawOf c cfg) r).set j y) stripped = .ok a)
    (hob : ∀ ob ∈ a.obligations,
      holdsRsa co alg certPub ((rawOf c cfg ++ co.sign alg sk (rawOf c cfg) r).set j y) ob) : Break co := by
  have hjr : j < (rawOf c cfg).length := Nat.lt_of_lt_of_le hj (appLen_le_raw k g)
  have hlw' : j < 0x20 ∨ 0x2C ≤ j := by
    unfold layoutWord at hlw; omega
  generalize hsig : co.sign alg sk (rawOf c cfg) r = sig at *
  have hset : (rawOf c cfg ++ sig).set j y = (rawOf c cfg).set j y ++ sig := by
    rw [List.set_append, if_pos hjr]
  have hne' : (rawOf c cfg)[j]? ≠ some y := by
    rwa [List.getElem?_append_left hjr] at hne
  obtain ⟨p, hp, hb, hok⟩ := romSignedV1_gen k g renv certs table hrom ((rawOf c cfg ++ sig).set j y) stripped
    (by rw [List.length_set, List.length_append, hs])
    (by rw [rd32_set _ _ _ _ (by simp only [ivtCrcCertificateOffset]; omega)]; exact body_word k g sig)
    (by rw [slice_set _ _ _ _ _ (Or.inl hj)]; exact raw_cert k g sig)
  rw [hok] at hacc
  simp only [Except.ok.injEq] at hacc
  subst hacc
  have hv := hob (.rsaByCert (appLen c cfg + p.1, p.2) (totalLenForCertBlock c cfg).toNat) (by simp)
  simp only [holdsRsa, spec_sub] at hv
  have e1 : slice ((rawOf c cfg ++ sig).set j y) (appLen c cfg + p.1) (appLen c cfg + p.1 + p.2)
      = slice (certInImage c cfg) p.1 (p.1 + p.2) := by
    rw [slice_set _ _ _ _ _ (Or.inl (by omega))]
    have e : rawOf c cfg ++ sig = (ivtApp c cfg ++ relocBlk cfg) ++ certInImage c cfg ++ (cfg.tz.bytes ++ sig) := by
      simp only [rawOf, List.append_assoc]
    rw [e, appLen_blocks k g, ← List.length_append, Nat.add_assoc]
    exact slice_shift _ _ _ _ _ (by rw [certInImage_length k g]; exact hb)
  have e2 : ((rawOf c cfg ++ sig).set j y).take (totalLenForCertBlock c cfg).toNat = (rawOf c cfg).set j y := by
    rw [hset, ← raw_length k g]
    exact List.take_left' (List.length_set ..)
  have e3 : ((rawOf c cfg ++ sig).set j y).drop (totalLenForCertBlock c cfg).toNat = sig := by
    rw [hset, ← raw_length k g]
    exact List.drop_left' (List.length_set ..)
  rw [e1, e2, e3, hpub p hp, ← hsig] at hv
  exact Break.sigForgery alg sk _ _ r (set_ne _ j y hne' hjr) hv

/-! ### `romCheck` / `romHmac` on an image with the same length and header words -/

theorem romCheck_gen (hl : CryptoLaws co) (k : ClsF c) (g : CfgF c cfg) (hf : c.family = some .signedV1)
    (ht : signedTypeOk c = true) (sig : Bytes) (hs : sig.length = cfg.sigLen) (rkth : Bytes) (img : Bytes)
    (hlen : img.length = (imgOf co c cfg sig).length)
    (hflags : rd32 img ivtImageFlagsOffset = flagsOf c cfg)
    (htotal : rd32 img ivtImageLengthOffset = rd32 (imgOf co c cfg sig) ivtImageLengthOffset) :
    Spec.MbiRom.romCheck co (romEnvOf c rkth cfg.hmacKey) img
      = (if c.has .Mbi_MixinHmac then
          (Spec.MbiRom.romHmac co (romEnvOf c rkth cfg.hmacKey) img >>= fun v =>
            Spec.MbiRom.romSignedV1 co (romEnvOf c rkth cfg.hmacKey) v.1 v.2.1)
         else Spec.MbiRom.romSignedV1 co (romEnvOf c rkth cfg.hmacKey) img 0) := by
  have hfl : Spec.MbiRom.rd32 img Spec.MbiRom.offFlags = flagsOf c cfg := hflags
  have hty : flagsOf c cfg &&& Spec.MbiRom.maskImageType = c.imageType := (rom_type _).trans (flags_type k g)
  have htz : (flagsOf c cfg >>> Spec.MbiRom.shiftTzType) &&& Spec.MbiRom.maskTzType = cfg.tz.tag := (rom_tz _).trans (flags_get k g).1
  have htot : Spec.MbiRom.rd32 img Spec.MbiRom.offTotalLength = (if c.zeroTotalLength then 0 else img.length) := by
    have : Spec.MbiRom.rd32 img Spec.MbiRom.offTotalLength = rd32 img ivtImageLengthOffset := rfl
    rw [this, htotal, imgOf_head co k g _ _ (by decide), (ivtApp_words k g).1, hlen, imgOf_length_total hl k g sig hs]
  have c0 : decide (img.length ≥ Spec.MbiRom.ivtSize) = true := by
    have h1 : 56 ≤ appLen c cfg := appLen_ge k g
    have h2 : Spec.MbiRom.ivtSize = 56 := rfl
    rw [hlen, imgOf_length hl k g, h2, decide_eq_true_eq]; omega
  have c1 : (if (romEnvOf c rkth cfg.hmacKey).zeroTotalLength = true
      then (if c.zeroTotalLength then 0 else img.length) == 0
      else (if c.zeroTotalLength then 0 else img.length) == img.length) = true := by
    have : (romEnvOf c rkth cfg.hmacKey).zeroTotalLength = c.zeroTotalLength := rfl
    rw [this]; cases c.zeroTotalLength <;> simp
  have c2 : decide ((cfg.tz.tag == Spec.MbiRom.tzEnabled) = true ∨ (cfg.tz.tag == Spec.MbiRom.tzCustom) = true
      ∨ (cfg.tz.tag == Spec.MbiRom.tzDisabled) = true) = true := by
    cases cfg.tz <;> simp [TzCfg.tag, tzEnabled, tzCustom, tzDisabled, Spec.MbiRom.tzEnabled, Spec.MbiRom.tzCustom,
      Spec.MbiRom.tzDisabled]
  have hck : (romEnvOf c rkth cfg.hmacKey).certKind = .v1 := by simp [romEnvOf, k.hV1]
  have hhh : (romEnvOf c rkth cfg.hmacKey).hmacHeader = c.has .Mbi_MixinHmac := rfl
  unfold Spec.MbiRom.romCheck
  simp only [need_ok c0, hfl, hty, htz, htot, need_ok c1, need_ok c2, bind, Except.bind, hck, hhh]
  have hT := type_cases k hf ht
  have e1 : (c.imageType == Spec.MbiRom.typePlain) = false := by
    rcases hT with h | h | h <;> rw [h] <;> rfl
  have e2 : ¬ ((c.imageType == Spec.MbiRom.typeCrcRam) = true ∨ (c.imageType == Spec.MbiRom.typeCrcXip) = true) := by
    rcases hT with h | h | h <;> rw [h] <;> decide
  have e3 : (c.imageType == Spec.MbiRom.typeSignedRam) = true ∨ (c.imageType == Spec.MbiRom.typeSignedXip) = true
      ∨ (c.imageType == Spec.MbiRom.typeSignedXipNxp) = true := by
    rcases hT with h | h | h <;> rw [h] <;> decide
  simp only [e1, Bool.false_eq_true, if_false, if_neg e2, if_pos e3]

theorem romHmac_gen (hl : CryptoLaws co) (k : ClsF c) (g : CfgF c cfg) (sig : Bytes) (hH : c.has .Mbi_MixinHmac = true)
    (rkth : Bytes) (key : Bytes) (hk : cfg.hmacKey = some key) (img : Bytes)
    (hlen : img.length = (imgOf co c cfg sig).length)
    (hflags : rd32 img ivtImageFlagsOffset = flagsOf c cfg)
    (hmac64 : slice img hmacOffset (hmacOffset + hmacSize) = romMac co c cfg key) :
    Spec.MbiRom.romHmac co (romEnvOf c rkth cfg.hmacKey) img
      = (if romMac co c cfg key == hmac co .sha256 (ecbEnc co key Spec.MbiRom.hmacKeyDerivation) (img.take hmacOffset)
         then .ok (img.take hmacOffset ++ img.drop (hmacOffset + (hmacSize + (cfg.keyStore.getD []).length)),
                   hmacSize + (cfg.keyStore.getD []).length, cfg.keyStore.isSome)
         else .error "hmac mismatch") := by
  have hkl := (g.hHk key hk).1
  have hks : (Spec.MbiRom.rd32 img Spec.MbiRom.offFlags &&& Spec.MbiRom.flagKeyStore != 0) = cfg.keyStore.isSome := by
    have : Spec.MbiRom.rd32 img Spec.MbiRom.offFlags = rd32 img ivtImageFlagsOffset := rfl
    rw [this, hflags, ← (flags_get k g).2.2.2.1]
    rfl
  have hstrip : Spec.MbiRom.hmacSize + (if cfg.keyStore.isSome = true then Spec.MbiRom.keyStoreSize else 0)
      = hmacSize + (cfg.keyStore.getD []).length := by
    have := ksLen_eq g
    unfold ksLen at this
    rw [this]; rfl
  have c1 : decide (img.length ≥ hmacOffset + (hmacSize + (cfg.keyStore.getD []).length)) = true := by
    have h2 : (appData cfg).length ≥ 64 := g.hAppH hH
    have h3 := imgOf_length hl k g sig
    have h4 : shift c cfg = hmacSize + (cfg.keyStore.getD []).length := by rw [shift, hH]; rfl
    have h5 : hmacOffset = 64 := rfl
    rw [appLen_eq cfg k, h4] at h3
    rw [hlen, h3, h5, decide_eq_true_eq]; omega
  have c2 : (key.length == Spec.MbiRom.userKeySize) = true := by
    rw [hkl]; rfl
  have hm : Spec.MbiRom.sub img hmacOffset (hmacOffset + Spec.MbiRom.hmacSize) = romMac co c cfg key := hmac64
  have huk : (romEnvOf c rkth cfg.hmacKey).userKey = some key := hk
  have ho : Spec.MbiRom.hmacOffset = hmacOffset := rfl
  unfold Spec.MbiRom.romHmac
  simp only [hks, hstrip, need_ok c1, huk, need_ok c2, hm, bind, Except.bind, pure, Except.pure, ho]
  cases hb : (romMac co c cfg key == hmac co .sha256 (ecbEnc co key Spec.MbiRom.hmacKeyDerivation) (img.take hmacOffset))
  · simp [Spec.MbiRom.need]
  · simp [Spec.MbiRom.need]

/-- with HMAC: a changed application byte behind the inserted block -/
theorem hmac_body_forgery (hl : CryptoLaws co) (k : ClsF c) (g : CfgF c cfg) (hf : c.family = some .signedV1)
    (ht : signedTypeOk c = true) (hH : c.has .Mbi_MixinHmac = true) (rkth : Bytes) (certs : List (Nat × Nat))
    (table : List Bytes) (hrom : RomCertV1OK co (romEnvOf c rkth cfg.hmacKey) cfg.cert certs table)
    (alg : SigAlg) (sk : PrivKey) (r : Rand) (certPub : Bytes → PubKey)
    (hpub : ∀ last, certs.getLast? = some last → certPub (slice (certInImage c cfg) last.1 (last.1 + last.2)) = co.pubOf sk)
    (hs : (co.sign alg sk (rawOf c cfg) r).length = cfg.sigLen) (key : Bytes) (hk : cfg.hmacKey = some key)
    (i : Nat) (y : UInt8) (hi1 : hmacOffset + (hmacSize + (cfg.keyStore.getD []).length) ≤ i)
    (hi2 : i - (hmacSize + (cfg.keyStore.getD []).length) < appLen c cfg)
    (hne : (imgOf co c cfg (co.sign alg sk (rawOf c cfg) r))[i]? ≠ some y) (a : Spec.MbiRom.Accepted)
    (hacc : Spec.MbiRom.romCheck co (romEnvOf c rkth cfg.hmacKey)
      ((imgOf co c cfg (co.sign alg sk (rawOf c cfg) r)).set i y) = .ok a)
    (hob : ∀ ob ∈ a.obligations, holdsRsa co alg certPub
      (Mbi.bodyOf c cfg ((imgOf co c cfg (co.sign alg sk (rawOf c cfg) r)).set i y)) ob) : Break co := by
  generalize hsig : co.sign alg sk (rawOf c cfg) r = sig at *
  generalize hS : hmacSize + (cfg.keyStore.getD []).length = S at *
  have hS32 : 32 ≤ S := by rw [← hS]; simp only [hmacSize]; omega
  have ho : hmacOffset = 64 := rfl
  have hTl := head_length k g hH
  have hIl : (insOf co c cfg).length = S := by rw [ins_length hl g hH, hS]
  have hdropE : (imgOf co c cfg sig).drop (hmacOffset + S) = restOf c cfg sig := by
    rw [← hS, ← Nat.add_assoc]; exact img_drop_ins hl k g sig hH
  -- the body of the changed image
  have hbody : ((imgOf co c cfg sig).set i y).take hmacOffset ++ ((imgOf co c cfg sig).set i y).drop (hmacOffset + S)
      = (rawOf c cfg ++ sig).set (i - S) y := by
    rw [List.take_set_of_le (by omega), img_take hl k g sig hH, List.drop_set, if_neg (by omega), hdropE,
      ← head_rest, List.set_append, if_neg (by rw [hTl]; omega), hTl,
      show i - S - hmacOffset = i - (hmacOffset + S) by omega]
  have hfl : rd32 ((imgOf co c cfg sig).set i y) ivtImageFlagsOffset = flagsOf c cfg := by
    rw [rd32_set _ _ _ _ (by simp only [ivtImageFlagsOffset]; omega)]
    exact img_flags co k g _
  rw [romCheck_gen hl k g hf ht _ hs rkth _ (List.length_set ..) hfl
    (rd32_set _ _ _ _ (by simp only [ivtImageLengthOffset]; omega))] at hacc
  simp only [hH, if_true] at hacc
  have hm : slice ((imgOf co c cfg sig).set i y) hmacOffset (hmacOffset + hmacSize) = romMac co c cfg key := by
    rw [slice_set _ _ _ _ _ (Or.inr (by simp only [hmacSize]; omega))]; exact img_mac hl k g sig hH key hk
  rw [romHmac_gen hl k g sig hH rkth key hk _ (List.length_set ..) hfl hm, hS,
    List.take_set_of_le (by omega), img_take hl k g sig hH] at hacc
  have hbeq : (romMac co c cfg key == hmac co .sha256 (ecbEnc co key Spec.MbiRom.hmacKeyDerivation)
      ((ivtApp c cfg).take hmacOffset)) = true := by simp [romMac]
  rw [hbeq] at hacc
  simp only [if_true, bind, Except.bind] at hacc
  rw [← img_take hl k g sig hH, ← List.take_set_of_le (a := y) (l := imgOf co c cfg sig) (show hmacOffset ≤ i by omega),
    hbody] at hacc
  have hb2 : Mbi.bodyOf c cfg ((imgOf co c cfg sig).set i y) = (rawOf c cfg ++ sig).set (i - S) y := by
    unfold Mbi.bodyOf
    rw [if_pos hH, Nat.add_assoc, hS]; exact hbody
  rw [hb2] at hob
  have hne' : (rawOf c cfg ++ sig)[i - S]? ≠ some y := by
    have e1 : (imgOf co c cfg sig)[i]? = (restOf c cfg sig)[i - (hmacOffset + S)]? := by
      rw [img_parts, List.getElem?_append_right (by rw [List.length_append, hTl, hIl]; exact hi1),
        List.length_append, hTl, hIl]
    have e2 : (rawOf c cfg ++ sig)[i - S]? = (restOf c cfg sig)[i - (hmacOffset + S)]? := by
      rw [← head_rest, List.getElem?_append_right (by rw [hTl]; omega), hTl,
        show i - S - hmacOffset = i - (hmacOffset + S) by omega]
    rw [e2, ← e1]; exact hne
  subst hsig
  exact body_forgery k g _ certs table hrom alg sk r certPub hpub hs (i - S) y hi2
    (by unfold layoutWord; omega) hne' S a hacc hob

end walk

end RomNegV1

/-- without HMAC: the body is the image -/
theorem tamper_rejected_signedV1 (h : Hyp co env c cfg signer) (hf : c.family = some .signedV1) (ht : signedTypeOk c = true)
    (hh : c.has .Mbi_MixinHmac = false)
    (rkth : Bytes) (certs : List (Nat × Nat)) (table : List Bytes)
    (hrom : RomCertV1OK co (romEnvOf c rkth cfg.hmacKey) cfg.cert certs table)
    (alg : SigAlg) (sk : PrivKey) (r : Rand) (certPub : Bytes → PubKey)
    (hsigner : signer = fun m => co.sign alg sk m r)
    (hpub : ∀ last, certs.getLast? = some last → certPub (slice (certInImage c cfg) last.1 (last.1 + last.2)) = co.pubOf sk) :
    ∃ e, exportImage co c cfg signer = .ok e
      ∧ ∀ (i : Nat) (y : UInt8), i < appLen c cfg → ¬ layoutWord i → e[i]? ≠ some y →
          ∀ a, Spec.MbiRom.romCheck co (romEnvOf c rkth cfg.hmacKey) (e.set i y) = .ok a →
            (∀ ob ∈ a.obligations, holdsRsa co alg certPub (e.set i y) ob) → Break co := by
  have k := SignedV1.clsF h.hcls hf
  have g := SignedV1.cfgF k h.hcfg
  subst hsigner
  have hs : (co.sign alg sk (SignedV1.rawOf c cfg) r).length = cfg.sigLen := h.hsig (SignedV1.rawOf c cfg)
  have hE : SignedV1.imgOf co c cfg (co.sign alg sk (SignedV1.rawOf c cfg) r)
      = SignedV1.rawOf c cfg ++ co.sign alg sk (SignedV1.rawOf c cfg) r := by
    have hb := RomV1.body_eq h.hlaws k g (co.sign alg sk (SignedV1.rawOf c cfg) r)
    unfold Mbi.bodyOf at hb
    rw [hh] at hb
    simpa using hb
  refine ⟨SignedV1.imgOf co c cfg (co.sign alg sk (SignedV1.rawOf c cfg) r), SignedV1.export_eq _ k g, ?_⟩
  intro i y hi hlw hne a hacc hob
  have hlw' : i < 0x20 ∨ 0x2C ≤ i := by unfold layoutWord at hlw; omega
  rw [RomNegV1.romCheck_gen h.hlaws k g hf ht _ hs rkth _ (List.length_set ..)
    (by rw [RomNegV1.rd32_set _ _ _ _ (by simp only [ivtImageFlagsOffset]; omega)]
        exact SignedV1.img_flags co k g _)
    (RomNegV1.rd32_set _ _ _ _ (by simp only [ivtImageLengthOffset]; omega))] at hacc
  simp only [hh, Bool.false_eq_true, if_false] at hacc
  rw [hE] at hacc hob hne
  exact RomNegV1.body_forgery k g _ certs table hrom alg sk r certPub hpub hs i y hi hlw hne 0 a hacc hob

/-- with HMAC: the first 64 bytes are authenticated by the HMAC alone -/
theorem tamper_rejected_hmac_header (h : Hyp co env c cfg signer) (hf : c.family = some .signedV1) (ht : signedTypeOk c = true)
    (hh : c.has .Mbi_MixinHmac = true)
    (rkth : Bytes) (certs : List (Nat × Nat)) (table : List Bytes)
    (hrom : RomCertV1OK co (romEnvOf c rkth cfg.hmacKey) cfg.cert certs table) :
    ∃ e, exportImage co c cfg signer = .ok e
      ∧ ∀ (i : Nat) (y : UInt8), i < hmacOffset → ¬ layoutWord i → e[i]? ≠ some y →
          ∀ a, Spec.MbiRom.romCheck co (romEnvOf c rkth cfg.hmacKey) (e.set i y) = .ok a → Break co := by
  have k := SignedV1.clsF h.hcls hf
  have g := SignedV1.cfgF k h.hcfg
  obtain ⟨key, hk, _⟩ := RomV1.hmacKey_some g hh
  have hs := h.hsig (SignedV1.rawOf c cfg)
  refine ⟨_, SignedV1.export_eq signer k g, ?_⟩
  generalize signer (SignedV1.rawOf c cfg) = sig at hs ⊢
  intro i y hi hlw hne a hacc
  have hlw' : i < 0x20 ∨ 0x2C ≤ i := by unfold layoutWord at hlw; omega
  have hi' : i < 64 := hi
  have hfl : rd32 ((SignedV1.imgOf co c cfg sig).set i y) ivtImageFlagsOffset = flagsOf c cfg := by
    rw [RomNegV1.rd32_set _ _ _ _ (by simp only [ivtImageFlagsOffset]; omega)]
    exact SignedV1.img_flags co k g _
  rw [RomNegV1.romCheck_gen h.hlaws k g hf ht _ hs rkth _ (List.length_set ..) hfl
    (RomNegV1.rd32_set _ _ _ _ (by simp only [ivtImageLengthOffset]; omega))] at hacc
  simp only [hh, if_true] at hacc
  rw [RomNegV1.romHmac_gen h.hlaws k g sig hh rkth key hk _ (List.length_set ..) hfl
    (by rw [RomNegV1.slice_set _ _ _ _ _ (Or.inl hi)]; exact RomV1.img_mac h.hlaws k g sig hh key hk)] at hacc
  have htake : ((SignedV1.imgOf co c cfg sig).set i y).take hmacOffset
      = ((SignedV1.ivtApp c cfg).take hmacOffset).set i y := by
    rw [List.take_set, RomV1.img_take h.hlaws k g sig hh]
  have hT : ((SignedV1.ivtApp c cfg).take hmacOffset)[i]? ≠ some y := by
    rw [← RomV1.img_take h.hlaws k g sig hh, List.getElem?_take, if_pos hi]; exact hne
  rw [htake] at hacc
  cases hb : (RomV1.romMac co c cfg key == hmac co .sha256 (ecbEnc co key Spec.MbiRom.hmacKeyDerivation)
      (((SignedV1.ivtApp c cfg).take hmacOffset).set i y))
  · rw [hb] at hacc; simp [bind, Except.bind] at hacc
  · have heq := eq_of_beq hb
    unfold RomV1.romMac at heq
    exact Break.hmacForgery .sha256 _ _ _
      (RomNegV1.set_ne _ i y hT (by rw [RomV1.head_length k g hh]; exact hi)) heq

/-- with HMAC: application bytes behind the inserted HMAC / key-store block are covered by the signature -/
theorem tamper_rejected_signedV1_hmac (h : Hyp co env c cfg signer) (hf : c.family = some .signedV1) (ht : signedTypeOk c = true)
    (hh : c.has .Mbi_MixinHmac = true)
    (rkth : Bytes) (certs : List (Nat × Nat)) (table : List Bytes)
    (hrom : RomCertV1OK co (romEnvOf c rkth cfg.hmacKey) cfg.cert certs table)
    (alg : SigAlg) (sk : PrivKey) (r : Rand) (certPub : Bytes → PubKey)
    (hsigner : signer = fun m => co.sign alg sk m r)
    (hpub : ∀ last, certs.getLast? = some last → certPub (slice (certInImage c cfg) last.1 (last.1 + last.2)) = co.pubOf sk) :
    ∃ e, exportImage co c cfg signer = .ok e
      ∧ ∀ (i : Nat) (y : UInt8),
          (let strip := hmacSize + (cfg.keyStore.getD []).length
           hmacOffset + strip ≤ i ∧ i - strip < appLen c cfg) → e[i]? ≠ some y →
          ∀ a, Spec.MbiRom.romCheck co (romEnvOf c rkth cfg.hmacKey) (e.set i y) = .ok a →
            (∀ ob ∈ a.obligations, holdsRsa co alg certPub (bodyOf c cfg (e.set i y)) ob) → Break co := by
  have k := SignedV1.clsF h.hcls hf
  have g := SignedV1.cfgF k h.hcfg
  subst hsigner
  obtain ⟨key, hk, _⟩ := RomV1.hmacKey_some g hh
  have hs : (co.sign alg sk (SignedV1.rawOf c cfg) r).length = cfg.sigLen := h.hsig (SignedV1.rawOf c cfg)
  refine ⟨SignedV1.imgOf co c cfg (co.sign alg sk (SignedV1.rawOf c cfg) r), SignedV1.export_eq _ k g, ?_⟩
  intro i y hi hne a hacc hob
  simp only at hi
  obtain ⟨hi1, hi2⟩ := hi
  exact RomNegV1.hmac_body_forgery h.hlaws k g hf ht hh rkth certs table hrom alg sk r certPub hpub hs key hk i y hi1 hi2
    hne a hacc hob

end SpsdkVerif.Mbi
