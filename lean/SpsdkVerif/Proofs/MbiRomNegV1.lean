/-
C02, negative side for RSA signed (v1) images, as REDUCTIONS (`Break co`, no idealised axiom):
 * images without HMAC: a changed application byte (not one of the layout words) that is still accepted with the RSA
   obligation holding is a signature forgery;
 * images with HMAC: a changed byte of the first 64 bytes that is still accepted is an HMAC forgery (no obligation needed);
   a changed application byte behind the HMAC / key-store block that is still accepted with the RSA obligation holding is a
   signature forgery.
-/
import SpsdkVerif.Proofs.MbiRomV1
import SpsdkVerif.Crypto.Break

namespace SpsdkVerif.Mbi
open SpsdkVerif SpsdkVerif.Misc SpsdkVerif.Crypto
open SpsdkVerif.Generated.IvtConsts

variable {co : CryptoOps} {env : Env} {c : Cls} {cfg : Cfg} {signer : Signer}

namespace RomNegV1
open SignedV1 RomV1
open SpsdkVerif.Generated.MbiClasses (MixinName)

/-! ### a changed byte and the reads that do not see it -/

theorem rd32_set (l : Bytes) (i off : Nat) (y : UInt8) (h : i < off ∨ off + 4 ≤ i) :
    rd32 (l.set i y) off = rd32 l off := by
  unfold rd32
  rcases h with h | h
  · rw [List.drop_set_of_lt h]
  · rw [List.drop_set, if_neg (by omega), List.take_set_of_le (by omega)]

theorem slice_set (l : Bytes) (i a b : Nat) (y : UInt8) (h : i < a ∨ b ≤ i) :
    slice (l.set i y) a b = slice l a b := by
  unfold slice
  rcases h with h | h
  · rw [List.take_set, List.drop_set_of_lt h]
  · rw [List.take_set_of_le h]

theorem set_ne (l : Bytes) (i : Nat) (y : UInt8) (h : l[i]? ≠ some y) (hi : i < l.length) : l ≠ l.set i y := by
  intro e
  have := List.getElem?_set_self (a := y) hi
  rw [← e] at this
  exact h this

theorem slice_shift (pre w post : Bytes) (a b : Nat) (hb : b ≤ w.length) :
    slice (pre ++ w ++ post) (pre.length + a) (pre.length + b) = slice w a b := by
  unfold slice
  rw [List.append_assoc, List.take_append, List.take_of_length_le (by omega), Nat.add_sub_cancel_left,
    List.drop_append, List.drop_of_length_le (by omega), List.nil_append,
    Nat.add_sub_cancel_left, List.take_append_of_le_length hb]

/-! ### the certificates the ROM finds lie inside the block -/

theorem need_bind {α : Type} {b : Bool} {w : String} {f : Unit → Spec.MbiRom.Rom α} {x : α}
    (h : (Spec.MbiRom.need b w >>= f) = .ok x) : b = true ∧ f () = .ok x := by
  cases b with
  | false => simp [Spec.MbiRom.need, bind, Except.bind] at h
  | true => exact ⟨rfl, by simpa [Spec.MbiRom.need, bind, Except.bind] using h⟩

theorem certEntries_bounds (body : Bytes) : ∀ (n off limit : Nat) (cs : List (Nat × Nat)) (e : Nat),
    Spec.MbiRom.certEntries body n off limit = .ok (cs, e) → off ≤ e ∧ ∀ q ∈ cs, q.1 + q.2 ≤ e
  | 0, off, limit, cs, e, h => by
    simp only [Spec.MbiRom.certEntries, Except.ok.injEq, Prod.mk.injEq] at h
    obtain ⟨rfl, rfl⟩ := h
    exact ⟨Nat.le_refl _, by simp⟩
  | n + 1, off, limit, cs, e, h => by
    unfold Spec.MbiRom.certEntries at h
    obtain ⟨_, h⟩ := need_bind h
    obtain ⟨_, h⟩ := need_bind h
    rcases hr : Spec.MbiRom.certEntries body n (off + 4 + Spec.MbiRom.rd32 body off) limit with err | ⟨rest, e'⟩
    · simp [hr, bind, Except.bind] at h
    · simp only [hr, bind, Except.bind, pure, Except.pure, Except.ok.injEq, Prod.mk.injEq] at h
      obtain ⟨rfl, rfl⟩ := h
      obtain ⟨i1, i2⟩ := certEntries_bounds body n _ limit rest e' hr
      refine ⟨by omega, ?_⟩
      intro q hq
      rcases List.mem_cons.1 hq with rfl | hq
      · simp only; omega
      · exact i2 q hq

theorem align4_ge (n : Nat) : n ≤ Spec.MbiRom.align4 n := by unfold Spec.MbiRom.align4; omega

theorem romCertV1_bounds (co : CryptoOps) (renv : Spec.MbiRom.RomEnv) (body : Bytes) (off : Nat)
    (ci : Spec.MbiRom.CertV1Info) (h : Spec.MbiRom.romCertV1 co renv body off = .ok ci) :
    ∀ q ∈ ci.certs, q.1 + q.2 ≤ ci.blockEnd := by
  unfold Spec.MbiRom.romCertV1 at h
  replace h := (need_bind h).2
  replace h := (need_bind h).2
  replace h := (need_bind h).2
  replace h := (need_bind h).2
  replace h := (need_bind h).2
  rcases hr : Spec.MbiRom.certEntries body (Spec.MbiRom.rd32 body (off + 24)) (off + Spec.MbiRom.certV1HeaderSize)
      (off + Spec.MbiRom.certV1HeaderSize + Spec.MbiRom.rd32 body (off + 28)) with err | ⟨certs, tblEnd⟩
  · simp [hr, bind, Except.bind] at h
  · simp only [hr, bind, Except.bind] at h
    replace h := (need_bind h).2
    replace h := (need_bind h).2
    replace h := (need_bind h).2
    simp only [pure, Except.pure, Except.ok.injEq] at h
    subst h
    obtain ⟨i1, i2⟩ := certEntries_bounds body _ _ _ certs tblEnd hr
    intro q hq
    have := i2 q hq
    have := align4_ge (tblEnd + Spec.MbiRom.rkhTableEntries * Spec.MbiRom.rkhSize - off)
    simp only [Spec.MbiRom.certV1HeaderSize] at i1
    simp only
    omega

end RomNegV1

/-- without HMAC: the body is the image -/
theorem tamper_rejected_signedV1 (h : Hyp co env c cfg signer) (hf : c.family = some .signedV1) (ht : signedTypeOk c = true)
    (hh : c.has .Mbi_MixinHmac = false)
    (rkth : Bytes) (certs : List (Nat × Nat)) (table : List Bytes)
    (hrom : RomCertV1OK co (romEnvOf c rkth cfg.hmacKey) cfg.cert certs table)
    (alg : SigAlg) (sk : PrivKey) (r : Rand) (certPub : Bytes → PubKey)
    (hsigner : signer = fun m => co.sign alg sk m r)
    (hpub : ∀ last, certs.getLast? = some last → certPub (slice (certInImage c cfg) last.1 (last.1 + last.2)) = co.pubOf sk) :
    ∃ e, exportImage co c cfg signer = .ok e
      ∧ ∀ (i : Nat) (y : UInt8), i < appLen c cfg → ¬ layoutWord i → e[i]? ≠ some y →
          ∀ a, Spec.MbiRom.romCheck co (romEnvOf c rkth cfg.hmacKey) (e.set i y) = .ok a →
            (∀ ob ∈ a.obligations, holdsRsa co alg certPub (e.set i y) ob) → Break co := by
  sorry

/-- with HMAC: the first 64 bytes are authenticated by the HMAC alone -/
theorem tamper_rejected_hmac_header (h : Hyp co env c cfg signer) (hf : c.family = some .signedV1) (ht : signedTypeOk c = true)
    (hh : c.has .Mbi_MixinHmac = true)
    (rkth : Bytes) (certs : List (Nat × Nat)) (table : List Bytes)
    (hrom : RomCertV1OK co (romEnvOf c rkth cfg.hmacKey) cfg.cert certs table) :
    ∃ e, exportImage co c cfg signer = .ok e
      ∧ ∀ (i : Nat) (y : UInt8), i < hmacOffset → ¬ layoutWord i → e[i]? ≠ some y →
          ∀ a, Spec.MbiRom.romCheck co (romEnvOf c rkth cfg.hmacKey) (e.set i y) = .ok a → Break co := by
  sorry

/-- with HMAC: application bytes behind the inserted HMAC / key-store block are covered by the signature -/
theorem tamper_rejected_signedV1_hmac (h : Hyp co env c cfg signer) (hf : c.family = some .signedV1) (ht : signedTypeOk c = true)
    (hh : c.has .Mbi_MixinHmac = true)
    (rkth : Bytes) (certs : List (Nat × Nat)) (table : List Bytes)
    (hrom : RomCertV1OK co (romEnvOf c rkth cfg.hmacKey) cfg.cert certs table)
    (alg : SigAlg) (sk : PrivKey) (r : Rand) (certPub : Bytes → PubKey)
    (hsigner : signer = fun m => co.sign alg sk m r)
    (hpub : ∀ last, certs.getLast? = some last → certPub (slice (certInImage c cfg) last.1 (last.1 + last.2)) = co.pubOf sk) :
    ∃ e, exportImage co c cfg signer = .ok e
      ∧ ∀ (i : Nat) (y : UInt8),
          (let strip := hmacSize + (cfg.keyStore.getD []).length
           hmacOffset + strip ≤ i ∧ i - strip < appLen c cfg) → e[i]? ≠ some y →
          ∀ a, Spec.MbiRom.romCheck co (romEnvOf c rkth cfg.hmacKey) (e.set i y) = .ok a →
            (∀ ob ∈ a.obligations, holdsRsa co alg certPub (bodyOf c cfg (e.set i y)) ob) → Break co := by
  sorry

end SpsdkVerif.Mbi
