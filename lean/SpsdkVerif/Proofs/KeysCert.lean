/-
Helper proofs for C08 phase 3: `Certificate.parse` removes the NXP zero padding BY THE DECLARED LENGTH of the DER element
(Model/KeysGlue.lean: `derTotalLen`, `derLoad`, `certLoadDerG`, `certLoadDer` over the generated `certPad…` constants).
-/
import SpsdkVerif.Proofs.KeysGlue

namespace SpsdkVerif.Keys
open SpsdkVerif SpsdkVerif.Misc SpsdkVerif.Generated

/-! ### the generated form of the loop is the hand-written loop -/

theorem u8_toNat_zero_iff (b : UInt8) : ([0] : List Nat).contains b.toNat = true ↔ b = 0 := by
  simp only [List.contains_cons, List.contains_nil, Bool.or_false, beq_iff_eq]
  constructor
  · intro h; exact UInt8.toNat_inj.mp (by simpa using h)
  · intro h; rw [h]; rfl

theorem certLoadDerG_eq_F {γ : Type} (load : Bytes → LoadRes γ) (fuel : Nat) (data : Bytes) :
    certLoadDerG true [0] load fuel data = certLoadDerF load fuel data := by
  induction fuel generalizing data with
  | zero =>
    unfold certLoadDerG certLoadDerF
    cases load data with
    | ok c => rfl
    | fail => rfl
    | extraData =>
      simp only
      cases hl : data.getLast? with
      | none => simp
      | some b =>
        simp only
        by_cases hb : b = 0
        · simp [hb]
        · have hb' : ¬ b.toNat = 0 := fun h => hb (UInt8.toNat_inj.mp (by simpa using h))
          simp [hb, hb']
  | succ f ih =>
    unfold certLoadDerG certLoadDerF
    cases load data with
    | ok c => rfl
    | fail => rfl
    | extraData =>
      simp only
      cases hl : data.getLast? with
      | none => simp
      | some b =>
        simp only
        by_cases hb : b = 0
        · simp [hb, ih]
        · have hb' : ¬ b.toNat = 0 := fun h => hb (UInt8.toNat_inj.mp (by simpa using h))
          simp [hb, hb']

/-- on the current source (`certPadMode = 0`, pad byte 0, `ExtraData` required) `load_der_certificate` is the retry loop -/
theorem certLoadDer_eq {γ : Type} (load : Bytes → LoadRes γ) (data : Bytes) :
    certLoadDer load data = certLoadDerF load data.length data := by
  unfold certLoadDer
  rw [if_pos (by decide)]
  exact certLoadDerG_eq_F load data.length data

/-! ### the declared length -/

theorem readLen_append (a t : Bytes) (l : Nat) (r : Bytes) (h : readLen a = some (l, r)) :
    readLen (a ++ t) = some (l, r ++ t) := by
  cases a with
  | nil => simp [readLen] at h
  | cons b rest =>
    simp only [List.cons_append, readLen] at h ⊢
    by_cases hb : b.toNat < 128
    · simp only [hb, if_true, Option.some.injEq, Prod.mk.injEq] at h ⊢
      exact ⟨h.1, by rw [h.2]⟩
    · simp only [hb, if_false] at h ⊢
      by_cases hk : b.toNat - 128 = 0 ∨ 4 < b.toNat - 128
      · simp [hk] at h
      · simp only [hk, if_false] at h ⊢
        by_cases hl : rest.length < b.toNat - 128
        · simp [hl] at h
        · simp only [hl, if_false] at h
          have hl' : ¬ (rest ++ t).length < b.toNat - 128 := by rw [List.length_append]; omega
          simp only [hl', if_false]
          have ht : (rest ++ t).take (b.toNat - 128) = rest.take (b.toNat - 128) :=
            List.take_append_of_le_length (by omega)
          have hd : (rest ++ t).drop (b.toNat - 128) = rest.drop (b.toNat - 128) ++ t :=
            List.drop_append_of_le_length (by omega)
          rw [ht, hd]
          by_cases hm : (rest.take (b.toNat - 128)).head? = some 0 ∨ beDec (rest.take (b.toNat - 128)) < 128
          · simp [hm] at h
          · simp only [hm, if_false, Option.some.injEq, Prod.mk.injEq] at h ⊢
            exact ⟨h.1, by rw [h.2]⟩

theorem readLen_length (a : Bytes) (l : Nat) (r : Bytes) (h : readLen a = some (l, r)) : r.length ≤ a.length := by
  cases a with
  | nil => simp [readLen] at h
  | cons b rest =>
    simp only [readLen] at h
    by_cases hb : b.toNat < 128
    · simp only [hb, if_true, Option.some.injEq, Prod.mk.injEq] at h
      rw [← h.2, List.length_cons]; omega
    · simp only [hb, if_false] at h
      by_cases hk : b.toNat - 128 = 0 ∨ 4 < b.toNat - 128
      · simp [hk] at h
      · simp only [hk, if_false] at h
        by_cases hl : rest.length < b.toNat - 128
        · simp [hl] at h
        · simp only [hl, if_false] at h
          by_cases hm : (rest.take (b.toNat - 128)).head? = some 0 ∨ beDec (rest.take (b.toNat - 128)) < 128
          · simp [hm] at h
          · simp only [hm, if_false, Option.some.injEq, Prod.mk.injEq] at h
            rw [← h.2, List.length_drop, List.length_cons]; omega

/-- the declared length depends on the header only: bytes appended to the data do not change it -/
theorem derTotalLen_append (d t : Bytes) (n : Nat) (h : derTotalLen d = some n) : derTotalLen (d ++ t) = some n := by
  cases d with
  | nil => simp [derTotalLen] at h
  | cons b rest =>
    simp only [List.cons_append, derTotalLen] at h ⊢
    by_cases hb : b ≠ 0x30
    · simp [hb] at h
    · simp only [hb, if_false] at h ⊢
      cases hr : readLen rest with
      | none => simp [hr] at h
      | some p =>
        obtain ⟨l, r⟩ := p
        rw [hr] at h
        rw [readLen_append rest t l r hr]
        simp only [Option.some.injEq] at h ⊢
        have := readLen_length rest l r hr
        rw [List.length_append, List.length_append]
        omega

/-- every DER SEQUENCE produced by a canonical encoder declares exactly its own length -/
theorem derTotalLen_encTLV (c : Bytes) (h : c.length < 2 ^ 32) : derTotalLen (encTLV 0x30 c) = some (encTLV 0x30 c).length := by
  unfold encTLV
  simp only [derTotalLen, ne_eq, not_true_eq_false, if_false]
  rw [readLen_encLen _ _ h]
  simp only [Option.some.injEq, List.length_cons, List.length_append]
  omega

/-! ### the loop over `derLoad` -/

/-- outcome of the loader on exactly the element as a Python result -/
def loadExact {γ : Type} (syn : Bytes → SynRes) (body : Bytes → Option γ) (el : Bytes) : PyRes γ :=
  match syn el with
  | .ok => (match body el with | some c => .ok c | none => .error .spsdk)
  | _ => .error .spsdk

theorem derLoad_exact {γ : Type} (syn : Bytes → SynRes) (body : Bytes → Option γ) (el : Bytes)
    (hn : derTotalLen el = some el.length) :
    derLoad syn body el =
      (match syn el with
       | .bad => .fail
       | .extra => .extraData
       | .ok => (match body el with | some c => .ok c | none => .fail)) := by
  unfold derLoad
  rw [hn]
  simp only [Nat.lt_irrefl, if_false, List.take_length]
  cases syn el <;> rfl

theorem derLoad_longer {γ : Type} (syn : Bytes → SynRes) (body : Bytes → Option γ) (el t : Bytes) (b : UInt8)
    (hn : derTotalLen el = some el.length) :
    derLoad syn body (el ++ (t ++ [b])) = (match syn el with | .bad => .fail | _ => .extraData) := by
  unfold derLoad
  rw [derTotalLen_append el _ _ hn]
  have h1 : ¬ (el ++ (t ++ [b])).length < el.length := by rw [List.length_append]; omega
  have h2 : el.length < (el ++ (t ++ [b])).length := by
    rw [List.length_append, List.length_append, List.length_singleton]; omega
  simp only [h1, if_false, List.take_left', h2, if_true]
  cases syn el <;> rfl

/-- an element cut short is a plain failure (never `ExtraData`) -/
theorem derLoad_short {γ : Type} (syn : Bytes → SynRes) (body : Bytes → Option γ) (p : Bytes) (b : UInt8)
    (hn : derTotalLen (p ++ [b]) = some (p ++ [b]).length) : derLoad syn body p = .fail := by
  unfold derLoad
  cases hp : derTotalLen p with
  | none => rfl
  | some m =>
    have := derTotalLen_append p [b] m hp
    rw [hn] at this
    simp only [Option.some.injEq, List.length_append, List.length_singleton] at this
    have hlt : p.length < m := by omega
    simp [hlt]

/-- an `ExtraData` error raised inside the element: the loop may eat zero bytes of the element itself, but the outcome is an error -/
theorem certLoadDerF_syn_extra {γ : Type} (syn : Bytes → SynRes) (body : Bytes → Option γ) (el : Bytes)
    (hn : derTotalLen el = some el.length) (hs : syn el = .extra) (tail : Bytes) (fuel : Nat) :
    certLoadDerF (derLoad syn body) fuel (el ++ tail) = .error .spsdk := by
  induction fuel generalizing tail with
  | zero =>
    unfold certLoadDerF
    rcases List.eq_nil_or_concat tail with rfl | ⟨t, b, rfl⟩
    · rw [List.append_nil, derLoad_exact syn body el hn, hs]; simp only; split <;> rfl
    · rw [List.concat_eq_append, derLoad_longer syn body el t b hn, hs]; simp only; split <;> rfl
  | succ f ih =>
    unfold certLoadDerF
    rcases List.eq_nil_or_concat tail with rfl | ⟨t, b, rfl⟩
    · rw [List.append_nil, derLoad_exact syn body el hn, hs]
      simp only
      split
      · rcases List.eq_nil_or_concat el with rfl | ⟨p, b, rfl⟩
        · simp [derTotalLen] at hn
        · rw [List.concat_eq_append] at hn ⊢
          rw [List.dropLast_concat]
          unfold certLoadDerF
          rw [derLoad_short syn body p b hn]
      · rfl
    · rw [List.concat_eq_append, derLoad_longer syn body el t b hn, hs]
      simp only
      split
      · rw [← List.append_assoc, List.dropLast_concat]; exact ih t
      · rfl

/-- MAIN LEMMA: the retry loop on `element ++ tail` — the tail is removed iff it consists of zero bytes only, and then the
    answer is the loader's answer on exactly the element; whatever bytes the element itself ends with. -/
theorem certLoadDerF_derLoad {γ : Type} (syn : Bytes → SynRes) (body : Bytes → Option γ) (el : Bytes)
    (hn : derTotalLen el = some el.length) (tail : Bytes) (fuel : Nat) (hf : tail.length ≤ fuel) :
    certLoadDerF (derLoad syn body) fuel (el ++ tail) =
      if tail.all (· == 0) then loadExact syn body el else .error .spsdk := by
  cases hs : syn el with
  | extra =>
    rw [certLoadDerF_syn_extra syn body el hn hs]
    unfold loadExact; rw [hs]; simp
  | bad =>
    have hl : loadExact syn body el = .error .spsdk := by unfold loadExact; rw [hs]
    rw [hl]
    unfold certLoadDerF
    rcases List.eq_nil_or_concat tail with rfl | ⟨t, b, rfl⟩
    · rw [List.append_nil, derLoad_exact syn body el hn, hs]; simp
    · rw [List.concat_eq_append, derLoad_longer syn body el t b hn, hs]; simp
  | ok =>
    have hl : loadExact syn body el = (match body el with | some c => .ok c | none => .error .spsdk) := by
      unfold loadExact; rw [hs]
    induction fuel generalizing tail with
    | zero =>
      have : tail = [] := List.eq_nil_of_length_eq_zero (by omega)
      subst this
      unfold certLoadDerF
      rw [List.append_nil, derLoad_exact syn body el hn, hs, hl]
      simp only [List.all_nil, if_true]
      cases body el <;> rfl
    | succ f ih =>
      rcases List.eq_nil_or_concat tail with rfl | ⟨t, b, rfl⟩
      · unfold certLoadDerF
        rw [List.append_nil, derLoad_exact syn body el hn, hs, hl]
        simp only [List.all_nil, if_true]
        cases body el <;> rfl
      · rw [List.concat_eq_append] at hf ⊢
        unfold certLoadDerF
        rw [derLoad_longer syn body el t b hn, hs]
        simp only
        rw [← List.append_assoc, List.getLast?_concat, List.dropLast_concat]
        rw [List.length_append, List.length_singleton] at hf
        by_cases hb : b = 0
        · subst hb
          simp only [if_true]
          rw [ih t (by omega)]
          simp [List.all_append]
        · have : (some b = some (0 : UInt8)) = False := by simp [hb]
          simp only [this, if_false]
          simp [List.all_append, hb]

end SpsdkVerif.Keys
