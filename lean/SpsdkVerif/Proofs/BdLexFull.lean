/- Proofs about the lexer model (C19), all token classes: every piece of concrete syntax (`CTok`), followed by a blank, makes the
lexer deliver exactly the tokens the piece denotes (`Step`); hence `lex (renderC cts) = tokensC cts` for every list of pieces.
Value lemmas for the integer literal forms (decimal, `K`, hexadecimal in either case, character literal). -/
import SpsdkVerif.Proofs.BdLex
open SpsdkVerif SpsdkVerif.Bd SpsdkVerif.Generated

namespace SpsdkVerif.Bd

/-- wherever `chars` is followed by a blank, the lexer (standing at the start of the text or after a blank) delivers `toks`
    and stands before that blank, having used at most one unit of fuel per character -/
def Step (srcs : List String) (chars : List Char) (toks : List Tok) : Prop :=
  ∃ k, 1 ≤ k ∧ k ≤ chars.length ∧
    ∀ (f : Nat) (rest : List Char) (p1 p2 : Option Char) (acc : List Tok), (p1 = none ∨ p1 = some ' ') →
      ∃ q1 q2, lexAux srcs (f + k) (chars ++ ' ' :: rest) p1 p2 acc = lexAux srcs f (' ' :: rest) q1 q2 (toks.reverse ++ acc)

theorem step_tok (srcs : List String) (t : Tok) (ht : simpleTokOk srcs t = true) : Step srcs (tokChars t) [t] := by
  refine ⟨1, Nat.le_refl 1, (lex_tok_step srcs 0 t ' ' [] none none [] ht (Or.inl rfl) (Or.inl rfl)).1, ?_⟩
  intro f rest p1 p2 acc hp1
  obtain ⟨_, q1, q2, h, _⟩ := lex_tok_step srcs f t ' ' rest p1 p2 acc ht hp1 (Or.inl rfl)
  exact ⟨q1, q2, h⟩

theorem step_sized (srcs : List String) (t : Tok) (s : IntSz) (ht : suffixHostOk srcs t = true) :
    Step srcs (tokChars t ++ (tokChars .dot ++ tokChars (.isize s))) [t, .dot, .isize s] := by
  obtain ⟨hs, hsfix, d, hd, hdx⟩ := suffixHost_simple ht
  have hil : (tokChars (.isize s)).length = 1 := by cases s <;> rfl
  have hlen0 := (lex_tok_step srcs 0 t ' ' [] none none [] hs (Or.inl rfl) (Or.inl rfl)).1
  refine ⟨3, by omega, by simp only [List.length_append, hil, tokChars_dot, List.length_cons, List.length_nil]; omega, ?_⟩
  intro f rest p1 p2 acc hp1
  obtain ⟨hlen, q1, q2, hstep, hq1⟩ := lex_tok_step srcs (f + 2) t '.' (tokChars (.isize s) ++ ' ' :: rest) p1 p2 acc hs hp1
    (Or.inr ⟨rfl, hsfix⟩)
  have hq : q1 = some d := by rw [hq1 hsfix, hd]
  subst hq
  have hdot := lex_dot_step srcs (f + 1) s (' ' :: rest) (some d) q2 (t :: acc)
  obtain ⟨r1, r2, hsz⟩ := lex_isize_step srcs f s (' ' :: rest) d hdx (.dot :: t :: acc)
  refine ⟨r1, r2, ?_⟩
  · rw [tokChars_dot] at hdot ⊢
    have e : (tokChars t ++ (['.'] ++ tokChars (.isize s))) ++ ' ' :: rest = tokChars t ++ '.' :: (tokChars (.isize s) ++ ' ' :: rest) := by
      simp
    simp only [List.cons_append, List.nil_append] at hdot
    rw [e, show f + 3 = f + 2 + 1 from rfl, hstep, show f + 2 = f + 1 + 1 from rfl, hdot, hsz]
    simp

/-! ### identifier-shaped words: identifiers, keywords, source names, true / false / yes / no -/

theorem lex_word_step (srcs : List String) (f : Nat) (c0 : Char) (w : List Char) (c : Char) (rest : List Char) (p1 p2 : Option Char)
    (acc : List Tok) (hstart : isIdStart c0 = true) (hall : w.all isIdChar = true) (hp1 : p1 = none ∨ p1 = some ' ')
    (hc : isSep c = true) :
    ∃ q2, lexAux srcs (f + 1) ((c0 :: w) ++ c :: rest) p1 p2 acc =
      lexAux srcs f (c :: rest) (c0 :: w).getLast? q2 (wordTok srcs (String.ofList (c0 :: w)) :: acc) := by
  obtain ⟨_, hc2, _⟩ := sep_facts hc
  have hallx : (c0 :: w).all isIdChar = true := by simp [isIdStart_isIdChar c0 hstart, hall]
  obtain ⟨ht, _⟩ := takeWhile_append_stop (c0 :: w) c rest hallx hc2
  obtain ⟨f1, f2, f3, f4⟩ := idstart_facts c0 hstart (w ++ c :: rest) p1 p2 hp1
  refine ⟨(prevAfter (c0 :: w) p1 p2).2, ?_⟩
  rw [← prevAfter_fst (c0 :: w) (by simp) p1 p2]
  have hdrop : List.drop (c0 :: w).length (c0 :: (w ++ c :: rest)) = c :: rest := by
    have : c0 :: (w ++ c :: rest) = (c0 :: w) ++ c :: rest := by simp
    rw [this, List.drop_left']
    rfl
  simp only [List.cons_append] at ht ⊢
  simp only [lexAux, f1, f2, f3, f4, hstart, ht, hdrop]
  simp

theorem step_word (srcs : List String) (w : String) (hw : isWordS w = true) : Step srcs w.toList [wordTok srcs w] := by
  unfold isWordS at hw
  cases hx : w.toList with
  | nil => simp [hx] at hw
  | cons c0 cs =>
    simp only [hx, Bool.and_eq_true] at hw
    refine ⟨1, Nat.le_refl 1, by simp, ?_⟩
    intro f rest p1 p2 acc hp1
    obtain ⟨q2, h⟩ := lex_word_step srcs f c0 cs ' ' rest p1 p2 acc hw.1 hw.2 hp1 rfl
    have hstr : String.ofList (c0 :: cs) = w := by rw [← hx]; exact String.ofList_toList
    rw [hstr] at h
    exact ⟨_, q2, h⟩

/-! ### integer literals -/

theorem decOk_parts {ds : List Char} (h : decOk ds = true) :
    ds ≠ [] ∧ ds.all Char.isDigit = true ∧
      (decide (ds.length > 1) && ds.head? == some '0' && ds.any (fun x => x != '0')) = false := by
  unfold decOk at h
  simp only [Bool.and_eq_true, Bool.not_eq_true', Bool.or_eq_true] at h
  obtain ⟨⟨h1, h2⟩, h3⟩ := h
  refine ⟨by intro e; simp [e] at h1, h2, ?_⟩
  rcases h3 with h3 | h3
  · have : (ds.head? == some '0') = false := by simpa using h3
    simp [this]
  · have : ds.any (fun x => x != '0') = false := by
      simp only [List.any_eq_false, bne_iff_ne, ne_eq, Decidable.not_not]
      simp only [List.all_eq_true, beq_iff_eq] at h3
      exact h3
    simp [this]

theorem lexNumber_decK (ds : List Char) (rest : List Char) (h : decOk ds = true) :
    lexNumber (ds ++ ' ' :: rest) = some (.ok (decVal ds), ' ' :: rest) ∧
    lexNumber (ds ++ 'K' :: ' ' :: rest) = some (.ok (decVal ds * 1024), ' ' :: rest) := by
  obtain ⟨_, hall, hlead⟩ := decOk_parts h
  constructor
  · obtain ⟨ht, hd⟩ := takeWhile_append_stop ds ' ' rest hall (by decide)
    unfold lexNumber
    simp only [ht, hd]
    simp [hlead, isIdChar]
    rfl
  · obtain ⟨ht, hd⟩ := takeWhile_append_stop ds 'K' (' ' :: rest) hall (by decide)
    unfold lexNumber
    simp only [ht, hd]
    simp [hlead, isIdChar]
    rfl

theorem take_len_prefix (xs : List Char) (ys : List Char) (hne : xs ≠ []) :
    List.take ((xs ++ ys).length - ys.length) (xs ++ ys) = xs := by
  have hl : (xs ++ ys).length - ys.length = xs.length := by simp
  rw [hl, List.take_left']
  rfl

/-- a digit-led literal `lit` (decimal, `K` or hexadecimal) whose value `lexNumber` computes -/
theorem lex_numlit_step (srcs : List String) (f n : Nat) (d0 : Char) (dt : List Char) (rest : List Char) (p1 p2 : Option Char)
    (acc : List Tok) (hd0 : d0.isDigit = true) (hp1 : p1 = none ∨ p1 = some ' ')
    (hnum : lexNumber ((d0 :: dt) ++ ' ' :: rest) = some (.ok n, ' ' :: rest)) :
    ∃ q1 q2, lexAux srcs (f + 1) ((d0 :: dt) ++ ' ' :: rest) p1 p2 acc = lexAux srcs f (' ' :: rest) q1 q2 (.num n :: acc) := by
  obtain ⟨f1, f2, f3, f4, f5⟩ := digit_start_facts d0 hd0 (dt ++ ' ' :: rest) p1 p2
  have htake := take_len_prefix (d0 :: dt) (' ' :: rest) (by simp)
  refine ⟨(prevAfter (d0 :: dt) p1 p2).1, (prevAfter (d0 :: dt) p1 p2).2, ?_⟩
  simp only [List.cons_append] at hnum htake ⊢
  simp only [lexAux, f1, f2, f3, f4, f5, hd0, hnum, htake]
  rcases hp1 with h | h <;> subst h <;> simp [isIdChar]

theorem step_dec (srcs : List String) (ds : List Char) (h : decOk ds = true) : Step srcs ds [.num (decVal ds)] := by
  obtain ⟨hne, hall, _⟩ := decOk_parts h
  cases ds with
  | nil => exact absurd rfl hne
  | cons d0 dt =>
    have hd0 : d0.isDigit = true := by simp at hall; exact hall.1
    refine ⟨1, Nat.le_refl 1, by simp, ?_⟩
    intro f rest p1 p2 acc hp1
    have hnum := (lexNumber_decK (d0 :: dt) rest h).1
    obtain ⟨q1, q2, hs⟩ := lex_numlit_step srcs f _ d0 dt rest p1 p2 acc hd0 hp1 hnum
    exact ⟨q1, q2, hs⟩

theorem step_kilo (srcs : List String) (ds : List Char) (h : decOk ds = true) :
    Step srcs (ds ++ ['K']) [.num (decVal ds * 1024)] := by
  obtain ⟨hne, hall, _⟩ := decOk_parts h
  cases ds with
  | nil => exact absurd rfl hne
  | cons d0 dt =>
    have hd0 : d0.isDigit = true := by simp at hall; exact hall.1
    refine ⟨1, Nat.le_refl 1, by simp, ?_⟩
    intro f rest p1 p2 acc hp1
    have hnum := (lexNumber_decK (d0 :: dt) rest h).2
    have e : (d0 :: dt) ++ 'K' :: ' ' :: rest = (d0 :: (dt ++ ['K'])) ++ ' ' :: rest := by simp
    rw [e] at hnum
    obtain ⟨q1, q2, hs⟩ := lex_numlit_step srcs f _ d0 (dt ++ ['K']) rest p1 p2 acc hd0 hp1 hnum
    refine ⟨q1, q2, ?_⟩
    simpa using hs

theorem lexNumber_hex (u : Bool) (ds : List Char) (rest : List Char) (hne : ds ≠ []) (hall : ds.all isHexDigit = true) :
    lexNumber ('0' :: (if u then 'X' else 'x') :: ds ++ ' ' :: rest) = some (.ok (hexVal ds), ' ' :: rest) := by
  obtain ⟨ht, hd⟩ := takeWhile_append_stop ds ' ' rest hall (by decide)
  have hemp : ds.isEmpty = false := by cases ds with | nil => exact absurd rfl hne | cons _ _ => rfl
  cases u
  · simp only [Bool.false_eq_true, if_false]
    unfold lexNumber
    have h1 : ('0' :: 'x' :: ds ++ ' ' :: rest).takeWhile Char.isDigit = ['0'] := by
      simp [List.takeWhile, show Char.isDigit '0' = true from by decide, show Char.isDigit 'x' = false from by decide]
    have h2 : ('0' :: 'x' :: ds ++ ' ' :: rest).dropWhile Char.isDigit = 'x' :: (ds ++ ' ' :: rest) := by
      simp [List.dropWhile, show Char.isDigit '0' = true from by decide, show Char.isDigit 'x' = false from by decide]
    simp only [h1, h2]
    simp [isIdChar, ht, hd, hemp, show Char.isAlphanum 'x' = true from by decide]
  · simp only [if_true]
    unfold lexNumber
    have h1 : ('0' :: 'X' :: ds ++ ' ' :: rest).takeWhile Char.isDigit = ['0'] := by
      simp [List.takeWhile, show Char.isDigit '0' = true from by decide, show Char.isDigit 'X' = false from by decide]
    have h2 : ('0' :: 'X' :: ds ++ ' ' :: rest).dropWhile Char.isDigit = 'X' :: (ds ++ ' ' :: rest) := by
      simp [List.dropWhile, show Char.isDigit '0' = true from by decide, show Char.isDigit 'X' = false from by decide]
    simp only [h1, h2]
    simp [isIdChar, ht, hd, hemp, show Char.isAlphanum 'X' = true from by decide]

theorem step_hex (srcs : List String) (u : Bool) (ds : List Char) (hne : ds ≠ []) (hall : ds.all isHexDigit = true) :
    Step srcs ('0' :: (if u then 'X' else 'x') :: ds) [.num (hexVal ds)] := by
  refine ⟨1, Nat.le_refl 1, by simp, ?_⟩
  intro f rest p1 p2 acc hp1
  have hnum := lexNumber_hex u ds rest hne hall
  obtain ⟨q1, q2, hs⟩ := lex_numlit_step srcs f _ '0' ((if u then 'X' else 'x') :: ds) rest p1 p2 acc (by decide) hp1
    (by simpa using hnum)
  exact ⟨q1, q2, by simpa using hs⟩

/-! ### fixed spellings: every row of the lexer's operator / delimiter table, and the literal `@` (by computation on the lexer
    with the table read from the source, in its matching order) -/

theorem step_punct (srcs : List String) (name : String) (h : punctNames.contains name = true) :
    Step srcs (punctChars name) [punctTok name] := by
  simp only [punctNames, List.contains_eq_mem, List.mem_cons, List.not_mem_nil, or_false, decide_eq_true_eq] at h
  rcases h with h | h | h | h | h | h | h | h | h | h | h | h | h | h | h | h | h | h | h | h | h | h | h | h | h | h | h | h | h | h
    | h | h | h <;> subst h <;> exact ⟨1, Nat.le_refl 1, by decide, fun f rest p1 p2 acc _ => ⟨_, _, rfl⟩⟩

/-! ### comments, section names -/

theorem step_lineComment (srcs : List String) (hash : Bool) (body : List Char) (hb : body.all (· != '\n') = true) :
    Step srcs ((if hash then ['#'] else ['/', '/']) ++ body ++ ['\n']) [] := by
  cases hash
  · refine ⟨2, by omega, by simp, ?_⟩
    intro f rest p1 p2 acc _
    have hall : ('/' :: '/' :: body).all (· != '\n') = true := by simp [hb]
    obtain ⟨ht, _⟩ := takeWhile_append_stop ('/' :: '/' :: body) '\n' (' ' :: rest) hall (by decide)
    have hdrop : List.drop ('/' :: '/' :: body).length ('/' :: '/' :: (body ++ '\n' :: ' ' :: rest)) = '\n' :: ' ' :: rest := by
      have : '/' :: '/' :: (body ++ '\n' :: ' ' :: rest) = ('/' :: '/' :: body) ++ '\n' :: ' ' :: rest := by simp
      rw [this, List.drop_left']
      rfl
    refine ⟨some '\n', (prevAfter ('/' :: '/' :: body) p1 p2).1, ?_⟩
    simp only [Bool.false_eq_true, if_false, List.cons_append, List.nil_append, List.append_assoc] at ht ⊢
    have hw : isWs '/' = false := by decide
    have hl : isLineComment '/' ('/' :: (body ++ '\n' :: ' ' :: rest)) = true := by simp [isLineComment]
    rw [show f + 2 = f + 1 + 1 from rfl]
    simp only [lexAux, hw, hl, ht, hdrop, if_true, Bool.false_eq_true, if_false]
    simp [isWs]
  · refine ⟨2, by omega, by simp, ?_⟩
    intro f rest p1 p2 acc _
    have hall : ('#' :: body).all (· != '\n') = true := by simp [hb]
    obtain ⟨ht, _⟩ := takeWhile_append_stop ('#' :: body) '\n' (' ' :: rest) hall (by decide)
    have hdrop : List.drop ('#' :: body).length ('#' :: (body ++ '\n' :: ' ' :: rest)) = '\n' :: ' ' :: rest := by
      have : '#' :: (body ++ '\n' :: ' ' :: rest) = ('#' :: body) ++ '\n' :: ' ' :: rest := by simp
      rw [this, List.drop_left']
      rfl
    refine ⟨some '\n', (prevAfter ('#' :: body) p1 p2).1, ?_⟩
    simp only [if_true, List.cons_append, List.nil_append, List.append_assoc] at ht ⊢
    have hw : isWs '#' = false := by decide
    have hl : isLineComment '#' (body ++ '\n' :: ' ' :: rest) = true := by simp [isLineComment]
    rw [show f + 2 = f + 1 + 1 from rfl]
    simp only [lexAux, hw, hl, ht, hdrop, if_true, Bool.false_eq_true, if_false]
    simp [isWs]

theorem step_secname (srcs : List String) (body : List Char) (hne : body ≠ []) (hb : body.all isSectionNameChar = true) :
    Step srcs ('$' :: body) [.secname (String.ofList ('$' :: body))] := by
  cases body with
  | nil => exact absurd rfl hne
  | cons b bs =>
    refine ⟨1, Nat.le_refl 1, by simp, ?_⟩
    intro f rest p1 p2 acc _
    obtain ⟨ht, _⟩ := takeWhile_append_stop (b :: bs) ' ' rest hb (by decide)
    have hdrop : List.drop (b :: bs).length ((b :: bs) ++ ' ' :: rest) = ' ' :: rest := by
      rw [List.drop_left']
      rfl
    have hb0 : isSectionNameChar b = true := by simp at hb; exact hb.1
    refine ⟨(prevAfter ('$' :: b :: bs) p1 p2).1, (prevAfter ('$' :: b :: bs) p1 p2).2, ?_⟩
    simp only [List.cons_append] at ht hdrop ⊢
    have h1 : isWs '$' = false := by decide
    have h2 : isLineComment '$' (b :: (bs ++ ' ' :: rest)) = false := by simp [isLineComment]
    have h3 : isBlockComment '$' (b :: (bs ++ ' ' :: rest)) = false := by simp [isBlockComment]
    have h4 : isSizeAt '$' p1 p2 = false := by simp [isSizeAt]
    have h5 : isIdStart '$' = false := by decide
    have h6 : Char.isDigit '$' = false := by decide
    simp only [lexAux, h1, h2, h3, h4, h5, h6, ht, hdrop, hb0]
    simp

/-! ### quoted literals -/

theorem firstIdx_quote (q : Char) : ∀ (body l : List Char), body.all (· != q) = true →
    ((List.range (body ++ q :: l).length).filter (fun i => (body ++ q :: l)[i]? == some q)).head? = some body.length := by
  intro body
  induction body with
  | nil => intro l _; simp [List.range_succ_eq_map]
  | cons b bs ih =>
    intro l hb
    simp only [List.all_cons, Bool.and_eq_true, bne_iff_ne, ne_eq] at hb
    have hbq : (some b == some q) = false := by simpa using hb.1
    have := ih l hb.2
    simp only [List.cons_append, List.length_cons, List.range_succ_eq_map, List.filter_cons, List.getElem?_cons_zero, hbq,
      Bool.false_eq_true, if_false, List.filter_map, List.head?_map]
    have hf : ((fun i => (b :: (bs ++ q :: l))[i]? == some q) ∘ Nat.succ) = (fun i => (bs ++ q :: l)[i]? == some q) := by
      funext i; simp
    rw [hf, this]
    rfl

theorem quoted_first (q : Char) (body rest : List Char) (hq : (q != '\n') = true) (hb : body.all (fun c => c != q && c != '\n') = true) :
    quoted q false (body ++ q :: rest) = some (body, rest) := by
  have hb1 : body.all (· != q) = true := by
    simp only [List.all_eq_true, Bool.and_eq_true] at hb ⊢
    exact fun c hc => (hb c hc).1
  have hb2 : (body ++ [q]).all (· != '\n') = true := by
    simp only [List.all_append, List.all_cons, List.all_nil, Bool.and_true, Bool.and_eq_true, hq, and_true]
    simp only [List.all_eq_true, Bool.and_eq_true] at hb ⊢
    exact fun c hc => (hb c hc).2
  unfold quoted
  -- the line is body ++ q :: l for some l
  have hline : ∃ l, (body ++ q :: rest).takeWhile (· != '\n') = body ++ q :: l := by
    refine ⟨rest.takeWhile (· != '\n'), ?_⟩
    have e : body ++ q :: rest = (body ++ [q]) ++ rest := by simp
    rw [e, List.takeWhile_append_of_pos (fun a ha => List.all_eq_true.mp hb2 a ha)]
    simp
  obtain ⟨l, hl⟩ := hline
  simp only [hl, Bool.false_eq_true, if_false, firstIdx_quote q body l hb1]
  simp

theorem step_chr (srcs : List String) (body : List Char) (hne : body ≠ []) (hb : body.all (fun c => c != '\'' && c != '\n') = true) :
    Step srcs ('\'' :: body ++ ['\'']) [.num (charLitVal body)] := by
  refine ⟨1, Nat.le_refl 1, by simp, ?_⟩
  intro f rest p1 p2 acc _
  have hq := quoted_first '\'' body (' ' :: rest) (by decide) hb
  have hng : nonGreedyChars = true := by decide
  have hemp : body.isEmpty = false := by cases body with | nil => exact absurd rfl hne | cons _ _ => rfl
  refine ⟨(prevAfter ('\'' :: body ++ ['\'']) p1 p2).1, (prevAfter ('\'' :: body ++ ['\'']) p1 p2).2, ?_⟩
  have e : '\'' :: body ++ ['\''] ++ ' ' :: rest = '\'' :: (body ++ '\'' :: ' ' :: rest) := by simp
  rw [e]
  have h1 : isWs '\'' = false := by decide
  have h2 : isLineComment '\'' (body ++ '\'' :: ' ' :: rest) = false := by simp [isLineComment]
  have h3 : isBlockComment '\'' (body ++ '\'' :: ' ' :: rest) = false := by simp [isBlockComment]
  have h4 : isSizeAt '\'' p1 p2 = false := by simp [isSizeAt]
  have h5 : isIdStart '\'' = false := by decide
  have h6 : Char.isDigit '\'' = false := by decide
  simp only [lexAux, h1, h2, h3, h4, h5, h6, hng, Bool.not_true, hq, hemp]
  simp

theorem step_str (srcs : List String) (body : List Char) (hb : body.all (fun c => c != '"' && c != '\n') = true) :
    Step srcs ('"' :: body ++ ['"']) [.str (String.ofList body)] := by
  refine ⟨1, Nat.le_refl 1, by simp, ?_⟩
  intro f rest p1 p2 acc _
  have hq := quoted_first '"' body (' ' :: rest) (by decide) hb
  have hng : nonGreedyQuotes = true := by decide
  refine ⟨(prevAfter ('"' :: body ++ ['"']) p1 p2).1, (prevAfter ('"' :: body ++ ['"']) p1 p2).2, ?_⟩
  have e : '"' :: body ++ ['"'] ++ ' ' :: rest = '"' :: (body ++ '"' :: ' ' :: rest) := by simp
  rw [e]
  have h1 : isWs '"' = false := by decide
  have h2 : isLineComment '"' (body ++ '"' :: ' ' :: rest) = false := by simp [isLineComment]
  have h3 : isBlockComment '"' (body ++ '"' :: ' ' :: rest) = false := by simp [isBlockComment]
  have h4 : isSizeAt '"' p1 p2 = false := by simp [isSizeAt]
  have h5 : isIdStart '"' = false := by decide
  have h6 : Char.isDigit '"' = false := by decide
  have h7 : scanBlob '"' (body ++ '"' :: ' ' :: rest) = none := by simp [scanBlob]
  simp only [lexAux, h1, h2, h3, h4, h5, h6, h7, hng, Bool.not_true, hq]
  simp

/-! ### all pieces, whole texts -/

theorem step_ctok (srcs : List String) (ct : CTok) (h : ct.ok srcs = true) : Step srcs ct.chars (ct.toks srcs) := by
  cases ct with
  | tok t => exact step_tok srcs t h
  | sized t s => exact step_sized srcs t s h
  | word w => exact step_word srcs w h
  | dec ds => exact step_dec srcs ds h
  | kilo ds => exact step_kilo srcs ds h
  | hex u ds =>
    simp only [CTok.ok, Bool.and_eq_true, Bool.not_eq_true'] at h
    exact step_hex srcs u ds (by intro e; simp [e] at h) h.2
  | chr body =>
    simp only [CTok.ok, Bool.and_eq_true, Bool.not_eq_true'] at h
    exact step_chr srcs body (by intro e; simp [e] at h) h.2
  | str body => exact step_str srcs body h
  | secname body =>
    simp only [CTok.ok, Bool.and_eq_true, Bool.not_eq_true'] at h
    exact step_secname srcs body (by intro e; simp [e] at h) h.2
  | punct name => exact step_punct srcs name h
  | lineComment hash body => exact step_lineComment srcs hash body h

theorem lex_renderC (srcs : List String) : ∀ (cts : List CTok) (fuel : Nat) (p1 p2 : Option Char) (acc : List Tok),
    allOkC srcs cts = true → (p1 = none ∨ p1 = some ' ') → (renderC cts).length + 1 ≤ fuel →
    lexAux srcs fuel (renderC cts) p1 p2 acc = .ok (acc.reverse ++ tokensC srcs cts) := by
  intro cts
  induction cts with
  | nil =>
    intro fuel p1 p2 acc _ _ hf
    cases fuel with
    | zero => simp [renderC] at hf
    | succ f => simp [renderC, tokensC, lexAux]
  | cons ct rest ih =>
    intro fuel p1 p2 acc hok hp1 hf
    simp only [allOkC, Bool.and_eq_true] at hok
    obtain ⟨k, hk1, hk2, hstep⟩ := step_ctok srcs ct hok.1
    simp only [renderC, List.length_append, List.length_cons] at hf ⊢
    obtain ⟨f2, rfl⟩ : ∃ f2, fuel = f2 + 1 + k := ⟨fuel - 1 - k, by omega⟩
    obtain ⟨q1, q2, hs⟩ := hstep (f2 + 1) (renderC rest) p1 p2 acc hp1
    rw [hs, lex_ws_step, ih f2 (some ' ') q1 _ hok.2 (Or.inr rfl) (by omega)]
    simp [tokensC]

end SpsdkVerif.Bd
