/-
C02: what the ROM of a device knows about an MBI class (the `RomEnv` of Spec/MbiRom.lean for a model class).
-/
import SpsdkVerif.Model.Mbi
import SpsdkVerif.Spec.MbiRom

namespace SpsdkVerif.Mbi
open SpsdkVerif SpsdkVerif.Misc SpsdkVerif.Crypto
open SpsdkVerif.Generated.MbiClasses (MixinName)

/-- device knowledge of the ROM for the images of class `c`; `rkth` = fused root key table hash, `userKey` = user / master key -/
def romEnvOf (c : Cls) (rkth : Bytes) (userKey : Option Bytes) : Spec.MbiRom.RomEnv :=
  { certKind := if c.has .Mbi_MixinCertBlockV1 then .v1 else if c.has .Mbi_MixinCertBlockV21 then .v21 else .none
    manifestKind := if c.manifestKind = some .crc then .crc else .digest
    hmacHeader := c.has .Mbi_MixinHmac
    zeroTotalLength := c.zeroTotalLength
    tzSize := c.tzSize
    rkth := rkth
    userKey := userKey }

/-- the image types of the generated CRC classes are the two CRC types of the format -/
def crcTypeOk (c : Cls) : Bool := c.signKind != .crc || c.imageType == 2 || c.imageType == 5

end SpsdkVerif.Mbi

namespace SpsdkVerif.Mbi
open SpsdkVerif SpsdkVerif.Misc SpsdkVerif.Crypto

/-- the image types of signed classes are the signed types of the format; encrypted classes have the encrypted type -/
def signedTypeOk (c : Cls) : Bool :=
  (c.signKind != .rsa && c.signKind != .ecc)
  || (if c.family == some .encrypted then c.imageType == 3 else c.imageType == 1 || c.imageType == 4 || c.imageType == 8)

/-- `cert` sits at offset `off` of `img` -/
def certAt (img cert : Bytes) (off : Nat) : Prop := Spec.MbiRom.sub img off (off + cert.length) = cert

/-- what the ROM's walk over the (opaque) v2.1 certificate block answers wherever the block sits: the key that signs the
    image (raw X‖Y, as long as the announced signature), the end of the block = its length, and the ISK obligation -/
def RomCertV21OK (co : CryptoOps) (renv : Spec.MbiRom.RomEnv) (cert : Bytes) (sigLen : Nat) (signPub : Bytes)
    (obs : Bytes → Nat → List Spec.MbiRom.Obligation) : Prop :=
  signPub.length = sigLen ∧
  ∀ img off, certAt img cert off → off + cert.length + 4 ≤ img.length →
    Spec.MbiRom.romCertV21 co renv img off = .ok (signPub, off + cert.length, obs img off)

/-- what the ROM's walk over the (opaque) v1 certificate block answers wherever the block sits (any `image_length` field):
    the certificate positions relative to the block, the RKH table, and the block end = 4-aligned length -/
def RomCertV1OK (co : CryptoOps) (renv : Spec.MbiRom.RomEnv) (cert : Bytes) (certs : List (Nat × Nat)) (table : List Bytes) : Prop :=
  certs ≠ [] ∧
  ∀ body off il, certAt body (certSetImageLength cert il) off → il < 2 ^ 32 →
    ∃ ci, Spec.MbiRom.romCertV1 co renv body off = .ok ci ∧ ci.certs = certs.map (fun p => (off + p.1, p.2))
      ∧ ci.table = table ∧ ci.imageLength = il ∧ ci.blockEnd = off + cert.length

end SpsdkVerif.Mbi

/-! ## how the theorems read the ROM's obligations (phase 2: tamper reductions) -/
namespace SpsdkVerif.Mbi
open SpsdkVerif SpsdkVerif.Misc SpsdkVerif.Crypto

/-- an ECDSA obligation holds under `co.verify`; the other kinds are not looked at -/
def holdsEcdsa (co : CryptoOps) (alg : SigAlg) : Spec.MbiRom.Obligation → Prop
  | .ecdsa pub data sig => co.verify alg pub data sig = true
  | _ => True

/-- an RSA-by-certificate obligation holds under `co.verify`, `certPub` being the (opaque, X.509) public key of the
    certificate bytes; `body` is the image without HMAC / key store; the other kinds are not looked at -/
def holdsRsa (co : CryptoOps) (alg : SigAlg) (certPub : Bytes → PubKey) (body : Bytes) : Spec.MbiRom.Obligation → Prop
  | .rsaByCert cert e => co.verify alg (certPub (Spec.MbiRom.sub body cert.1 (cert.1 + cert.2))) (body.take e) (body.drop e) = true
  | _ => True

/-- position `i` is one of the IVT words the ROM reads for the layout (total length, flags, CRC / certificate offset) -/
def layoutWord (i : Nat) : Prop := 0x20 ≤ i ∧ i < 0x2C

end SpsdkVerif.Mbi
