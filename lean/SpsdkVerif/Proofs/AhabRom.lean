/- Helper lemmas tying the exporter model (Model/Ahab.lean) to the independent checker (Spec/AhabRom.lean). -/
import SpsdkVerif.Proofs.Ahab
import SpsdkVerif.Proofs.Crypto
import SpsdkVerif.Properties.C16
import SpsdkVerif.Crypto.Break

namespace SpsdkVerif.Ahab
open SpsdkVerif SpsdkVerif.Misc
open SpsdkVerif.Generated
open SpsdkVerif.Spec.AhabRom (slice rd)

/-! ### slices -/

theorem slice_length (b : Bytes) (off n : Nat) (h : off + n ≤ b.length) : (slice b off n).length = n := by
  simp [slice]; omega

theorem slice_slice (b : Bytes) (base L k n : Nat) (h : k + n ≤ L) : slice (slice b base L) k n = slice b (base + k) n := by
  unfold slice
  rw [List.drop_take, List.take_take, List.drop_drop]
  congr 1
  omega

theorem slice_of_eq (b X : Bytes) (base k n : Nat) (hX : slice b base X.length = X) (h : k + n ≤ X.length) :
    slice b (base + k) n = slice X k n := by
  rw [← slice_slice b base X.length k n h, hX]

theorem rd_of_eq (b X : Bytes) (base k n : Nat) (hX : slice b base X.length = X) (h : k + n ≤ X.length) :
    rd b (base + k) n = rd X k n := by
  unfold rd; rw [slice_of_eq b X base k n hX h]

theorem slice_append_left (X Y : Bytes) (k n : Nat) (h : k + n ≤ X.length) : slice (X ++ Y) k n = slice X k n := by
  unfold slice
  rw [List.drop_append_of_le_length (by omega), List.take_append_of_le_length (by simp; omega)]

theorem slice_append_right (X Y : Bytes) (k n : Nat) : slice (X ++ Y) (X.length + k) n = slice Y k n := by
  unfold slice
  rw [List.drop_append, List.drop_of_length_le (by omega)]
  simp

theorem slice_full (X : Bytes) : slice X 0 X.length = X := by simp [slice]

/-- the integer fields of an image-array entry read at their documented offsets -/
theorem unpack6_rd (b : Bytes) (h : 32 ≤ b.length) :
    unpackInts [4, 4, 8, 8, 4, 4] b = some [rd b 0 4, rd b 4 4, rd b 8 8, rd b 16 8, rd b 24 4, rd b 28 4] := by
  simp only [unpackInts, List.length_drop, List.drop_drop, rd, slice, List.drop_zero]
  have e1 : ¬ (b.length < 4) := by omega
  have e2 : ¬ (b.length - 4 < 4) := by omega
  have e3 : ¬ (b.length - (4 + 4) < 8) := by omega
  have e4 : ¬ (b.length - (4 + 4 + 8) < 8) := by omega
  have e5 : ¬ (b.length - (4 + 4 + 8 + 8) < 4) := by omega
  have e6 : ¬ (b.length - (4 + 4 + 8 + 8 + 4) < 4) := by omega
  simp [e1, e2, e3, e4, e5, e6]


theorem iae_fields (l : AhabConsts.Layout) (hw : l.intWidths = [4, 4, 8, 8, 4, 4]) (hs : l.strFields = [(6, 64), (7, 32)])
    (e : Iae) (X : Bytes) (hh : e.hash.length = 64) (hi : e.iv.length = 32) (h : encodeIae l e = .ok X) :
    X.length = 128 ∧ rd X 0 4 = e.imageOffset ∧ rd X 4 4 = e.imageSize ∧ rd X 0x18 4 = e.flags ∧
    slice X 0x20 64 = e.hash ∧ slice X 0x60 32 = e.iv := by
  have hlen := encodeIae_length l hw hs e X h
  unfold encodeIae at h
  cases hp : packChecked l.intWidths e.ints with
  | error err => rw [hp] at h; cases h
  | ok hb =>
    rw [hp] at h
    obtain ⟨hf, rfl⟩ := packChecked_ok hp
    have hH : hashFieldLen l = 64 := by simp [hashFieldLen, hs]
    have hI : ivFieldLen l = 32 := by simp [ivFieldLen, hs]
    simp only [hH, hI, fitS_of_length _ _ hh, fitS_of_length _ _ hi] at h
    cases h
    have hpl : (packInts l.intWidths e.ints).length = 32 := by rw [packInts_length _ _ hf, hw]; rfl
    have hu := unpack_pack l.intWidths e.ints (e.hash ++ e.iv) hf
    rw [hw] at hu
    have hu2 := unpack6_rd (packInts l.intWidths e.ints ++ (e.hash ++ e.iv)) (by simp [hpl])
    rw [hw] at hu2 hpl
    rw [hu] at hu2
    simp only [Iae.ints, Option.some.injEq, List.cons.injEq, and_true] at hu2
    obtain ⟨f1, f2, _, _, f5, _⟩ := hu2
    simp only [List.append_assoc]
    rw [hw]
    refine ⟨by simpa [List.append_assoc, hw] using hlen, f1.symm, f2.symm, f5.symm, ?_, ?_⟩
    · have := slice_append_right (packInts [4, 4, 8, 8, 4, 4] e.ints) (e.hash ++ e.iv) 0 64
      rw [hpl] at this
      rw [show (0x20 : Nat) = 32 + 0 from rfl, this, slice_append_left _ _ _ _ (by omega), ← hh, slice_full]
    · have := slice_append_right (packInts [4, 4, 8, 8, 4, 4] e.ints) (e.hash ++ e.iv) 64 32
      rw [hpl] at this
      rw [show (0x60 : Nat) = 32 + 64 from rfl, this]
      have t2 := slice_append_right e.hash e.iv 0 32
      rw [hh] at t2
      rw [show (64 : Nat) = 64 + 0 from rfl, t2, ← hi, slice_full]

/-- entry `i` of an exported image array occupies bytes `[128 i, 128 i + 128)` -/
theorem encodeIaes_slice (l : AhabConsts.Layout) (hw : l.intWidths = [4, 4, 8, 8, 4, 4]) (hs : l.strFields = [(6, 64), (7, 32)]) :
    ∀ (es : List Iae) (a : Bytes) (i : Nat) (e : Iae), encodeIaes l es = .ok a → es[i]? = some e →
      ∃ X, encodeIae l e = .ok X ∧ slice a (128 * i) 128 = X ∧ 128 * i + 128 ≤ a.length
  | [], _, _, _, _, hi => by simp at hi
  | e0 :: es, a, i, e, h, hi => by
    obtain ⟨a1, a2, h1, h2, rfl⟩ := encodeIaes_cons h
    have hl1 := encodeIae_length l hw hs e0 a1 h1
    cases i with
    | zero =>
      simp only [List.getElem?_cons_zero, Option.some.injEq] at hi
      subst hi
      refine ⟨a1, h1, ?_, by simp [hl1]⟩
      rw [show 128 * 0 = 0 from rfl, slice_append_left _ _ _ _ (by omega), ← hl1, slice_full]
    | succ i =>
      simp only [List.getElem?_cons_succ] at hi
      obtain ⟨X, hX, hsl, hle⟩ := encodeIaes_slice l hw hs es a2 i e h2 hi
      refine ⟨X, hX, ?_, by simp [hl1]; omega⟩
      have := slice_append_right a1 a2 (128 * i) 128
      rw [hl1] at this
      rw [show 128 * (i + 1) = 128 + 128 * i from by omega, this, hsl]


/-! ### the independent entry check accepts what the model exports -/

open SpsdkVerif.Spec.AhabRom (checkEntry Params paramsV1 paramsV2 hashOfTag padHash)
open SpsdkVerif.Crypto (CryptoOps CryptoLaws cbcDec)

def romParams (v : Ver) (maxC maxI : Nat) : Params :=
  match v with | .v1 => paramsV1 maxC maxI | .v2 => paramsV2 maxC maxI

theorem romParams_bits (v : Ver) (maxC maxI : Nat) :
    (romParams v maxC maxI).encBit = v.encOff ∧ (romParams v maxC maxI).hashBits = v.hashSize ∧ v.hashOff = 8 ∧ v.encSize = 1 := by
  cases v <;> exact ⟨rfl, rfl, rfl, rfl⟩

theorem hashOfTag_eq (t : Nat) : hashOfTag t = hashAlgOfTag t := rfl

theorem padHash_eq (d : Bytes) : padHash d = extendTo 64 d := rfl

theorem isEncrypted_iff (v : Ver) (flags : Nat) :
    Iae.isEncrypted v flags = true ↔ (flags >>> v.encOff) % 2 = 1 := by
  unfold Iae.isEncrypted
  rw [getF_eq, (romParams_bits v 0 0).2.2.2, Nat.shiftRight_eq_div_pow]
  simp

theorem checkEntry_accepts (c : CryptoOps) (v : Ver) (maxC maxI : Nat) (bin X : Bytes) (base pos : Nat) (e : Iae)
    (alg : Crypto.HashAlg) (dek : Option Bytes)
    (hX : slice bin pos X.length = X) (henc : encodeIae v.iaeLayout e = .ok X)
    (hh : e.hash.length = 64) (hi : e.iv.length = 32)
    (hin : base + e.imageOffset + e.imageSize ≤ bin.length)
    (halg : hashAlgOfTag (Iae.hashTag v e.flags) = some alg)
    (hhash : e.hash = extendTo 64 (c.hash alg (slice bin (base + e.imageOffset) e.imageSize)))
    (hcr : Iae.isEncrypted v e.flags = true → ∃ k, dek = some k ∧ e.imageSize % 16 = 0 ∧
      c.hash .sha256 (cbcDec c k (e.iv.drop 16) (slice bin (base + e.imageOffset) e.imageSize)) = e.iv) :
    checkEntry c (romParams v maxC maxI) bin base pos dek =
      .ok ⟨base + e.imageOffset, e.imageSize, e.flags, Iae.isEncrypted v e.flags⟩ := by
  obtain ⟨hl, f1, f2, f3, f4, f5⟩ := iae_fields v.iaeLayout (iaeLayout_facts v).1 (iaeLayout_facts v).2.1 e X hh hi henc
  obtain ⟨pb1, pb2, pb3, _⟩ := romParams_bits v maxC maxI
  have r1 : rd bin pos 4 = e.imageOffset := by
    have := rd_of_eq bin X pos 0 4 hX (by omega); rw [Nat.add_zero] at this; rw [this, f1]
  have r2 : rd bin (pos + 4) 4 = e.imageSize := by rw [rd_of_eq bin X pos 4 4 hX (by omega), f2]
  have r3 : rd bin (pos + 0x18) 4 = e.flags := by rw [rd_of_eq bin X pos 0x18 4 hX (by omega), f3]
  have r4 : slice bin (pos + Spec.AhabRom.hashFieldOff) Spec.AhabRom.hashFieldLen = e.hash := by
    rw [show Spec.AhabRom.hashFieldOff = 0x20 from rfl, show Spec.AhabRom.hashFieldLen = 64 from rfl,
        slice_of_eq bin X pos 0x20 64 hX (by omega), f4]
  have r5 : slice bin (pos + Spec.AhabRom.ivFieldOff) Spec.AhabRom.ivFieldLen = e.iv := by
    rw [show Spec.AhabRom.ivFieldOff = 0x60 from rfl, show Spec.AhabRom.ivFieldLen = 32 from rfl,
        slice_of_eq bin X pos 0x60 32 hX (by omega), f5]
  unfold checkEntry
  simp only [r1, r2, r3, r4, r5]
  have hnot : ¬ (base + e.imageOffset + e.imageSize > bin.length) := by omega
  rw [if_neg hnot]
  have htag : (e.flags >>> 8) % 2 ^ (romParams v maxC maxI).hashBits = Iae.hashTag v e.flags := by
    unfold Iae.hashTag
    rw [getF_eq, pb2, pb3, Nat.shiftRight_eq_div_pow]
  rw [htag, hashOfTag_eq, halg]
  simp only
  rw [padHash_eq, ← hhash]
  simp only [ne_eq, not_true_eq_false, if_false]
  rw [pb1]
  by_cases he : Iae.isEncrypted v e.flags = true
  · have he' := (isEncrypted_iff v e.flags).1 he
    rw [if_pos he']
    obtain ⟨k, hk, h16, hiv⟩ := hcr he
    subst hk
    simp only [h16, not_true_eq_false, if_false, hiv, he]
  · have he' : ¬ ((e.flags >>> v.encOff) % 2 = 1) := fun h => he ((isEncrypted_iff v e.flags).2 h)
    rw [if_neg he']
    have : Iae.isEncrypted v e.flags = false := by simpa using he
    rw [this]


/-! ### placement through the BinaryImage tree (C16) -/

section tree
open SpsdkVerif.BinImg SpsdkVerif.C16

theorem addAll_children (p : Img) : ∀ (l : List Img) (x : Img), x ∈ (addAll p l).children ↔ x ∈ p.children ∨ x ∈ l := by
  intro l
  induction l generalizing p with
  | nil => intro x; simp [addAll]
  | cons c l ih =>
    intro x
    have := ih (p.addImage c) x
    simp only [addAll, List.foldl_cons] at this ⊢
    rw [this, children_addImage, mem_insertSorted]
    simp only [List.mem_cons]
    constructor
    · rintro ((h | h) | h)
      · exact Or.inr (Or.inl h)
      · exact Or.inl h
      · exact Or.inr (Or.inr h)
    · rintro (h | h | h)
      · exact Or.inl (Or.inr h)
      · exact Or.inl (Or.inl h)
      · exact Or.inr h

theorem addImage_fields (p c : Img) : (p.addImage c).size = p.size ∧ (p.addImage c).offset = p.offset ∧
    (p.addImage c).alignment = p.alignment := by
  cases p; exact ⟨rfl, rfl, rfl⟩

theorem addAll_fields (p : Img) : ∀ (l : List Img), (addAll p l).size = p.size ∧ (addAll p l).offset = p.offset ∧
    (addAll p l).alignment = p.alignment := by
  intro l
  induction l generalizing p with
  | nil => exact ⟨rfl, rfl, rfl⟩
  | cons c l ih =>
    have := ih (p.addImage c)
    have f := addImage_fields p c
    simp only [addAll, List.foldl_cons] at this ⊢
    exact ⟨this.1.trans f.1, this.2.1.trans f.2.1, this.2.2.trans f.2.2⟩

theorem addAll_alignWF (p : Img) (l : List Img) (hp : AlignWF p) (hl : ∀ x ∈ l, AlignWF x) : AlignWF (addAll p l) := by
  cases hp with
  | mk _ h1 h2 h3 =>
    have f := addAll_fields p l
    refine AlignWF.mk _ (by rw [f.2.2]; exact h1) (by rw [f.1, f.2.2]; exact h2) ?_
    intro c hc
    rcases (addAll_children p l c).1 hc with h | h
    · exact h3 c h
    · exact hl c h

theorem leaf_alignWF (s o : Nat) (b : Option Bytes) (pat : Option Pattern) : AlignWF (Img.mk s o 1 b pat []) :=
  AlignWF.mk _ (by simp [Img.alignment]) (by simp [Img.size, Img.alignment, Nat.mod_one]) (fun c hc => by cases hc)

/-- a leaf with a binary exports the binary, zero-extended to the explicit size -/
theorem leaf_export (size off : Nat) (b : Bytes) (hle : b.length ≤ size) (h0 : size = 0 → b = []) :
    (Img.mk size off 1 (some b) none []).export = .ok (extendTo size b) := by
  have hL : (Img.mk size off 1 (some b) none []).len = size := by
    unfold Img.len
    by_cases hs : size = 0
    · have := h0 hs; subst this; subst hs; simp [binLen, childrenEnd, alignNat]
    · simp [hs]
  unfold Img.export
  rw [hL]
  by_cases hb : b = []
  · subst hb
    simp [finishExport, ownBuf, patBlock, alignNat_one, extendTo]
  · have hne : b.isEmpty = false := by cases b <;> simp_all
    by_cases he : size = b.length
    · subst he; simp [hne, extendTo]
    · have : (size == b.length) = false := by simpa using he
      simp only [hne, this, Bool.not_false, Bool.true_and, Bool.false_eq_true, if_false]
      simp [finishExport, ownBuf, patBlock, hne, alignNat_one, extendTo]

theorem extendTo_length (n : Nat) (b : Bytes) (h : b.length ≤ n) : (extendTo n b).length = n := by
  simp [extendTo]; omega

theorem extendTo_self (b : Bytes) : extendTo b.length b = b := by simp [extendTo]

/-- the exported AHAB image holds every container at its offset and every image (zero-extended to its size) at its offset -/
theorem tree_places (ch : Chip) (v : Ver) (us : List UContainer) (cbytes : List Bytes) (bin : Bytes)
    (hA : 0 < ch.imageAlignment)
    (hv : (imageInfo ch v us cbytes).validate = .ok ()) (hb : (imageInfo ch v us cbytes).export = .ok bin) :
    (∀ u b, (u, b) ∈ us.zip cbytes → b ≠ [] → headerLength v u.placed.length (sbLayout v u.cont.sb).length = b.length →
      slice bin u.base b.length = b) ∧
    (∀ p ∈ allPlaced us, p.ready.image.length ≤ p.ready.size → (p.ready.size = 0 → p.ready.image = []) →
      slice bin p.offset p.ready.size = extendTo p.ready.size p.ready.image) := by
  have hcn : AlignWF (contNode ch v us cbytes) := by
    unfold contNode
    refine addAll_alignWF _ _ (leaf_alignWF _ _ _ _) ?_
    intro x hx
    obtain ⟨ub, _, rfl⟩ := List.mem_map.1 hx
    exact leaf_alignWF _ _ _ _
  have hroot : AlignWF (imageInfo ch v us cbytes) := by
    unfold imageInfo
    refine addAll_alignWF _ _ (AlignWF.mk _ hA ?_ ?_) ?_
    · simp only [Img.size, Img.alignment]
      exact (alignNat_spec _ _ hA).1
    · intro c hc
      simp only [Img.children, List.mem_singleton] at hc
      subst hc; exact hcn
    · intro x hx
      obtain ⟨p, _, rfl⟩ := List.mem_map.1 hx
      exact leaf_alignWF _ _ _ _
  have hcnmem : contNode ch v us cbytes ∈ (imageInfo ch v us cbytes).children := by
    unfold imageInfo
    rw [addAll_children]
    exact Or.inl (List.mem_singleton.2 rfl)
  have hcnoff : (contNode ch v us cbytes).offset = 0 := by
    unfold contNode; rw [(addAll_fields _ _).2.1]; rfl
  refine ⟨?_, ?_⟩
  · intro u b hub hne hlen
    have hmem : contImg v u b ∈ (contNode ch v us cbytes).children := by
      unfold contNode
      rw [addAll_children]
      exact Or.inr (List.mem_map.2 ⟨(u, b), hub, rfl⟩)
    have hd : DescAt (imageInfo ch v us cbytes) ((contNode ch v us cbytes).offset + ((contImg v u b).offset + 0)) (contImg v u b) :=
      DescAt.step _ _ _ _ hcnmem (DescAt.step _ _ _ _ hmem (DescAt.self _))
    have hexp : (contImg v u b).export = .ok b := by
      unfold contImg
      rw [hlen, leaf_export b.length u.base b (Nat.le_refl _) (fun h => List.eq_nil_of_length_eq_zero h), extendTo_self]
    have := export_desc_at _ _ _ bin b hv hroot hd hb hexp
    rw [hcnoff] at this
    simpa [slice, contImg, Img.offset] using this
  · intro p hp hle h0
    have hmem : dataImg p ∈ (imageInfo ch v us cbytes).children := by
      unfold imageInfo
      rw [addAll_children]
      exact Or.inr (List.mem_map.2 ⟨p, hp, rfl⟩)
    have hd : DescAt (imageInfo ch v us cbytes) ((dataImg p).offset + 0) (dataImg p) := DescAt.step _ _ _ _ hmem (DescAt.self _)
    have hexp : (dataImg p).export = .ok (extendTo p.ready.size p.ready.image) := by
      unfold dataImg; exact leaf_export _ _ _ hle h0
    have := export_desc_at _ _ _ bin _ hv hroot hd hb hexp
    rw [extendTo_length _ _ hle] at this
    simpa [slice, dataImg, Img.offset] using this

end tree


/-! ### what `update_fields` establishes for every entry -/

theorem alignNat_ge (n a : Nat) (ha : 0 < a) : n ≤ alignNat n a := (alignNat_spec n a ha).2.1

theorem validSize_ge (ch : Chip) (v : Ver) (flags sa : Nat) (image : Bytes) :
    image.length ≤ validSize ch v flags sa image ∧ (validSize ch v flags sa image = 0 → image = []) := by
  unfold validSize
  by_cases h0 : image = []
  · subst h0; simp
  · have hne : image.isEmpty = false := by cases image <;> simp_all
    have hpos : 0 < image.length := List.length_pos_iff.2 h0
    simp only [hne, Bool.false_eq_true, if_false]
    by_cases h1 : sa = 0
    · subst h1
      simp only [ne_eq, not_true_eq_false, if_false]
      have : 0 < (if ch.isEle v flags = true then 4 else 1) := by split <;> omega
      have := alignNat_ge image.length _ this
      exact ⟨this, fun h => by omega⟩
    · simp only [ne_eq, h1, not_false_eq_true, if_true]
      have := alignNat_ge image.length sa (Nat.pos_of_ne_zero h1)
      exact ⟨this, fun h => by omega⟩

theorem readyEntry_spec (c : CryptoOps) (hc : CryptoLaws c) (ch : Chip) (v : Ver) (dek : Option Bytes) (e : Entry) (r : Ready)
    (h : readyEntry c ch v dek e = .ok r) :
    ∃ a, hashAlgOfTag (Iae.hashTag v e.flags) = some a ∧
      r.hash = extendTo 64 (c.hash a (extendTo r.size r.image)) ∧ r.hash.length = 64 ∧ r.iv.length = 32 ∧
      r.size = validSize ch v e.flags e.sizeAlign r.image ∧
      (Iae.isEncrypted v e.flags = true → r.iv = c.hash .sha256 (storedImage ch e.data) ∧
        ∀ k, dek = some k → r.image = Crypto.cbcEnc c k (r.iv.drop 16) (Crypto.zeroPad16 (storedImage ch e.data))) := by
  unfold readyEntry at h
  simp only at h
  cases ha : hashAlgOfTag (Iae.hashTag v e.flags) with
  | none => rw [ha] at h; cases h
  | some a =>
    rw [ha] at h
    simp only [Except.ok.injEq] at h
    subst h
    refine ⟨a, rfl, rfl, ?_, ?_, rfl, ?_⟩
    · show (extendTo AhabConsts.iaeHashLen _).length = 64
      have hs : a.size ≤ 64 := by cases a <;> decide
      rw [extendTo_length _ _ (by rw [hc.hash_len]; exact hs)]
      rfl
    · show (if Iae.isEncrypted v e.flags = true then c.hash .sha256 (storedImage ch e.data) else zerosB AhabConsts.iaeIvLen).length = 32
      split
      · rw [hc.hash_len]; rfl
      · rw [zerosB_length]; rfl
    · intro he
      simp only [he, if_true]
      refine ⟨trivial, ?_⟩
      intro k hk
      subst hk
      rfl


theorem readyEntries_spec (c : CryptoOps) (ch : Chip) (v : Ver) (dek : Option Bytes) :
    ∀ (es : List Entry) (rs : List Ready), readyEntries c ch v dek es = .ok rs →
      rs.length = es.length ∧ ∀ er ∈ es.zip rs, readyEntry c ch v dek er.1 = .ok er.2
  | [], rs, h => by cases h; exact ⟨rfl, fun _ h => by cases h⟩
  | e :: es, rs, h => by
    unfold readyEntries at h
    cases h1 : readyEntry c ch v dek e with
    | error err => rw [h1] at h; cases h2 : readyEntries c ch v dek es <;> rw [h2] at h <;> cases h
    | ok r =>
      cases h2 : readyEntries c ch v dek es with
      | error err => rw [h1, h2] at h; cases h
      | ok rs' =>
        rw [h1, h2] at h; cases h
        have ih := readyEntries_spec c ch v dek es rs' h2
        refine ⟨by simp [ih.1], ?_⟩
        intro er her
        simp only [List.zip_cons_cons, List.mem_cons] at her
        rcases her with rfl | her
        · exact h1
        · exact ih.2 er her

/-- every placed entry of an updated container: its bytes come from `readyEntry`, its IAE from `mkIae` -/
theorem updateContainers_entries (c : CryptoOps) (ch : Chip) (v : Ver) : ∀ (cs : List Container) (ix cur : Nat)
    (us : List UContainer), updateContainers c ch v ix cur cs = .ok us →
    ∀ u ∈ us, ∀ p ∈ u.placed,
      readyEntry c ch v (if u.cont.sb.blob.isSome then u.cont.dek else none) p.entry = .ok p.ready ∧
      p.iae = mkIae u.base p.offset p.entry p.ready
  | [], _, _, us, h => by cases h; intro u hu; cases hu
  | ct :: rest, ix, cur, us, h => by
    unfold updateContainers at h
    cases hb : v.containerOffset ix with
    | error e => rw [hb] at h; simp at h
    | ok base =>
      cases hr : readyEntries c ch v (if ct.sb.blob.isSome then ct.dek else none) ct.entries with
      | error e => rw [hb, hr] at h; simp at h
      | ok rs =>
        rw [hb, hr] at h
        simp only at h
        cases hu : updateContainers c ch v (ix + 1) (placeEntries ch v base cur (ct.entries.zip rs)).2 rest with
        | error e => rw [hu] at h; cases h
        | ok us' =>
          rw [hu] at h; cases h
          have ih := updateContainers_entries c ch v rest (ix + 1) _ us' hu
          intro u hu'
          rcases List.mem_cons.1 hu' with rfl | hu'
          · intro p hp
            have hpe := placeEntries_assigned ch v base (ct.entries.zip rs) cur
            have hmem : (p.entry, p.ready) ∈ ct.entries.zip rs := by
              rw [← hpe.2.2.1]
              exact List.mem_map.2 ⟨p, hp, rfl⟩
            exact ⟨(readyEntries_spec c ch v _ ct.entries rs hr).2 _ hmem, hpe.2.2.2 p hp⟩
          · exact ih u hu'

theorem exportAll_spec (v : Ver) : ∀ (us : List UContainer) (cbytes : List Bytes), exportAll v us = .ok cbytes →
    cbytes.length = us.length ∧ ∀ ub ∈ us.zip cbytes, ub.1.export v = .ok ub.2
  | [], cb, h => by cases h; exact ⟨rfl, fun _ h => by cases h⟩
  | u :: us, cb, h => by
    unfold exportAll at h
    cases h1 : u.export v with
    | error err => rw [h1] at h; cases h2 : exportAll v us <;> rw [h2] at h <;> cases h
    | ok b =>
      cases h2 : exportAll v us with
      | error err => rw [h1, h2] at h; cases h
      | ok bs =>
        rw [h1, h2] at h; cases h
        have ih := exportAll_spec v us bs h2
        refine ⟨by simp [ih.1], ?_⟩
        intro ub hub
        simp only [List.zip_cons_cons, List.mem_cons] at hub
        rcases hub with rfl | hub
        · exact h1
        · exact ih.2 ub hub

theorem mem_zip_of_length {α β} : ∀ (l1 : List α) (l2 : List β) (x : α), l2.length = l1.length → x ∈ l1 → ∃ y, (x, y) ∈ l1.zip l2
  | [], _, _, _, h => by cases h
  | a :: l1, [], _, hl, _ => by simp at hl
  | a :: l1, b :: l2, x, hl, h => by
    rcases List.mem_cons.1 h with rfl | h
    · exact ⟨b, by simp⟩
    · obtain ⟨y, hy⟩ := mem_zip_of_length l1 l2 x (by simpa using hl) h
      exact ⟨y, by simp [hy]⟩


theorem sbo_exact (v : Ver) (n : Nat) : sigBlockOffset v n = 16 + 128 * n := by
  unfold sigBlockOffset al8
  rw [(hdrLayout_widths v).2, (iaeLayout_facts v).2.2]
  have : AhabConsts.containerAlignment = 8 := rfl
  rw [this, BinImg.alignNat_of_mod _ 8 (by decide) (by omega)]
  omega

theorem Image.export_unfold (c : CryptoOps) (img : Image) (bin : Bytes) (h : img.export c = .ok bin) :
    ∃ us cbytes, img.update c = .ok us ∧ offsetsOk us = true ∧ exportAll img.ver us = .ok cbytes ∧
      (imageInfo img.chip img.ver us cbytes).validate = .ok () ∧ (imageInfo img.chip img.ver us cbytes).export = .ok bin := by
  unfold Image.export at h
  cases hu : img.update c with
  | error e => rw [hu] at h; cases h
  | ok us =>
    rw [hu] at h
    simp only at h
    by_cases ho : offsetsOk us = true
    · simp only [ho, Bool.not_true, Bool.false_eq_true, if_false] at h
      cases he : exportAll img.ver us with
      | error e => rw [he] at h; cases h
      | ok cbytes =>
        rw [he] at h
        simp only at h
        cases hv : (imageInfo img.chip img.ver us cbytes).validate with
        | error e => rw [hv] at h; cases h
        | ok x => rw [hv] at h; exact ⟨us, cbytes, rfl, ho, he, hv, h⟩
    · have : offsetsOk us = false := by simpa using ho
      simp [this] at h

/-- `rom_accepts`, hash / placement / decryption part: the independent entry check accepts every image-array entry of an
    exported image, for every cryptographic instance satisfying `CryptoLaws`.
    The hypothesis on encrypted entries (the stored cipher text is not zero-extended after encryption and its plain text is a
    whole number of AES blocks) excludes exactly the open finding C06-encrypted-size-alignment. -/
theorem rom_accepts_entry' (c : CryptoOps) (hc : CryptoLaws c) (img : Image) (bin : Bytes) (maxC maxI : Nat)
    (hexp : img.export c = .ok bin) (hA : 0 < img.chip.imageAlignment)
    (us : List UContainer) (hus : img.update c = .ok us) (u : UContainer) (hu : u ∈ us)
    (i : Nat) (p : Placed) (hp : u.placed[i]? = some p)
    (hblob : BlobLenOK u.cont.sb) (hsz : 0 < p.ready.size)
    (hnoext : Iae.isEncrypted img.ver p.entry.flags = true → u.cont.sb.blob.isSome = true →
      p.ready.size = p.ready.image.length ∧ (storedImage img.chip p.entry.data).length % 16 = 0 ∧ u.cont.dek.isSome = true) :
    Iae.isEncrypted img.ver p.entry.flags = true ∧ u.cont.sb.blob.isSome = false ∨
    checkEntry c (romParams img.ver maxC maxI) bin u.base (u.base + (16 + 128 * i))
        (if u.cont.sb.blob.isSome then u.cont.dek else none) =
      .ok ⟨p.offset, p.ready.size, p.entry.flags, Iae.isEncrypted img.ver p.entry.flags⟩ := by
  by_cases hcase : Iae.isEncrypted img.ver p.entry.flags = true ∧ u.cont.sb.blob.isSome = false
  · exact Or.inl hcase
  right
  obtain ⟨us', cbytes, hus', hoff, hall, hval, hbin⟩ := Image.export_unfold c img bin hexp
  rw [hus] at hus'; cases hus'
  have hpm : p ∈ u.placed := List.mem_of_getElem? hp
  have hent := updateContainers_entries c img.chip img.ver img.containers 0 _ us hus u hu p hpm
  obtain ⟨a, halg, hhash, hhl, hivl, hsize, hencr⟩ := readyEntry_spec c hc img.chip img.ver _ p.entry p.ready hent.1
  have hvs := validSize_ge img.chip img.ver p.entry.flags p.entry.sizeAlign p.ready.image
  rw [← hsize] at hvs
  -- container bytes
  have hea := exportAll_spec img.ver us cbytes hall
  obtain ⟨cb, hcbm⟩ := mem_zip_of_length us cbytes u hea.1 hu
  have hcbe : u.export img.ver = .ok cb := hea.2 _ hcbm
  unfold UContainer.export at hcbe
  obtain ⟨hd, ab, s, hdr, e1, e2, _, _, e5, e6, e7, _⟩ := exportContainer_spec img.ver u.cont _ cb hblob hcbe
  simp only [List.length_map] at e1 e5 e6 e7
  have hdl := encodeHeader_length _ _ _ _ _ _ _ hd e1
  have hsbo := sbo_exact img.ver u.placed.length
  have hhl2 : headerLength img.ver u.placed.length (sbLayout img.ver u.cont.sb).length = cb.length := by
    unfold headerLength
    rw [(hdrLayout_widths img.ver).2, (iaeLayout_facts img.ver).2.2, e7, hsbo]; omega
  have hcbne : cb ≠ [] := by
    intro h; rw [h] at e7; simp at e7; omega
  have hplaces := tree_places img.chip img.ver us cbytes bin hA hval hbin
  have hcbin := hplaces.1 u cb hcbm hcbne hhl2
  -- the entry's bytes
  have hiae : (u.placed.map (·.iae))[i]? = some p.iae := by simp [hp]
  obtain ⟨X, hX, hsl, hle⟩ := encodeIaes_slice img.ver.iaeLayout (iaeLayout_facts img.ver).1 (iaeLayout_facts img.ver).2.1 _ ab i p.iae e2 hiae
  have hXl := encodeIae_length img.ver.iaeLayout (iaeLayout_facts img.ver).1 (iaeLayout_facts img.ver).2.1 _ X hX
  have hXcb : slice cb (16 + 128 * i) 128 = X := by
    rw [e5, List.append_assoc, List.append_assoc]
    have := slice_append_right hd (ab ++ (zerosB (sigBlockOffset img.ver u.placed.length - (hd ++ ab).length) ++ s)) (128 * i) 128
    rw [hdl] at this
    rw [this, slice_append_left _ _ _ _ hle, hsl]
  have hXbin : slice bin (u.base + (16 + 128 * i)) X.length = X := by
    rw [hXl, slice_of_eq bin cb u.base (16 + 128 * i) 128 hcbin (by
      have hl2 := encodeIaes_length img.ver.iaeLayout (iaeLayout_facts img.ver).1 (iaeLayout_facts img.ver).2.1 _ ab e2
      simp only [List.length_map] at hl2
      rw [e7, hsbo]; omega), hXcb]
  -- offsets
  have hbase : u.base ≤ p.offset := by
    unfold offsetsOk at hoff
    have := (List.all_eq_true.1 hoff) u hu
    have := (List.all_eq_true.1 this) p hpm
    simpa using this
  have hio : u.base + p.iae.imageOffset = p.offset := by rw [hent.2]; simp only [mkIae]; omega
  have hisz : p.iae.imageSize = p.ready.size := by rw [hent.2]; rfl
  have hifl : p.iae.flags = p.entry.flags := by rw [hent.2]; rfl
  -- image bytes in the file
  have hdata := hplaces.2 p (List.mem_flatMap.2 ⟨u, hu, hpm⟩) hvs.1 hvs.2
  have hin : u.base + p.iae.imageOffset + p.iae.imageSize ≤ bin.length := by
    rw [hio, hisz]
    have hl := congrArg List.length hdata
    rw [extendTo_length _ _ hvs.1] at hl
    simp only [slice, List.length_take, List.length_drop] at hl
    omega
  have := checkEntry_accepts c img.ver maxC maxI bin X u.base (u.base + (16 + 128 * i)) p.iae a
    (if u.cont.sb.blob.isSome then u.cont.dek else none) hXbin hX (by rw [hent.2]; exact hhl) (by rw [hent.2]; exact hivl) hin
    (by rw [hifl]; exact halg)
    (by rw [hio, hisz, hdata]; rw [hent.2]; exact hhash)
    (by
      rw [hifl]
      intro he
      have hbs : u.cont.sb.blob.isSome = true := by
        cases hb : u.cont.sb.blob.isSome
        · exact absurd ⟨he, hb⟩ hcase
        · rfl
      obtain ⟨hsz', h16, hdk⟩ := hnoext he hbs
      obtain ⟨k, hk⟩ := Option.isSome_iff_exists.1 hdk
      refine ⟨k, by simp [hbs, hk], ?_, ?_⟩
      · rw [hisz, hsz']
        have hi := (hencr he).2 k (by simp [hbs, hk])
        rw [hi, Crypto.cbcEnc_length hc]
        exact Nat.mul_mod_right 16 _
      · rw [hio, hisz, hdata, hsz', extendTo_self]
        have hiv := (hencr he).1
        have hi := (hencr he).2 k (by simp [hbs, hk])
        have hivI : p.iae.iv = p.ready.iv := by rw [hent.2]; rfl
        rw [hivI, hi]
        have hdl16 : (p.ready.iv.drop 16).length = 16 := by simp [hivl]
        rw [Crypto.cbc_inv_pad hc k _ _ hdl16]
        have hz : Crypto.zeroPad16 (storedImage img.chip p.entry.data) = storedImage img.chip p.entry.data := by
          unfold Crypto.zeroPad16 Crypto.zeroPad
          rw [h16]; simp [Crypto.zeros]
        rw [hz, ← hiv])
  rw [hio, hisz, hifl] at this
  exact this


/-- in the exported file, container `k` occupies `[k * CONTAINER_SIZE, k * CONTAINER_SIZE + len)` -/
theorem export_containers_fixed' (c : CryptoOps) (img : Image) (bin : Bytes)
    (hexp : img.export c = .ok bin) (hA : 0 < img.chip.imageAlignment)
    (us : List UContainer) (hus : img.update c = .ok us) (k : Nat) (u : UContainer) (hk : us[k]? = some u)
    (hblob : BlobLenOK u.cont.sb) :
    ∃ cb, u.export img.ver = .ok cb ∧ u.base = k * img.ver.containerSize ∧ k ≤ 3 ∧
      slice bin (k * img.ver.containerSize) cb.length = cb := by
  obtain ⟨us', cbytes, hus', _, hall, hval, hbin⟩ := Image.export_unfold c img bin hexp
  rw [hus] at hus'; cases hus'
  have hu : u ∈ us := List.mem_of_getElem? hk
  have hea := exportAll_spec img.ver us cbytes hall
  obtain ⟨cb, hcbm⟩ := mem_zip_of_length us cbytes u hea.1 hu
  have hcbe : u.export img.ver = .ok cb := hea.2 _ hcbm
  have hb := (updateContainers_bases c img.chip img.ver img.containers 0 _ us hus).2 k u hk
  simp only [Nat.zero_add] at hb
  have hcbe' := hcbe
  unfold UContainer.export at hcbe'
  obtain ⟨hd, ab, s, hdr, e1, e2, _, _, e5, e6, e7, _⟩ := exportContainer_spec img.ver u.cont _ cb hblob hcbe'
  simp only [List.length_map] at e1 e5 e6 e7
  have hsbo := sbo_exact img.ver u.placed.length
  have hhl2 : headerLength img.ver u.placed.length (sbLayout img.ver u.cont.sb).length = cb.length := by
    unfold headerLength
    rw [(hdrLayout_widths img.ver).2, (iaeLayout_facts img.ver).2.2, e7, hsbo]; omega
  have hcbne : cb ≠ [] := by
    intro h; rw [h] at e7; simp at e7; omega
  have hplaces := tree_places img.chip img.ver us cbytes bin hA hval hbin
  have hcbin := hplaces.1 u cb hcbm hcbne hhl2
  rw [hb.2.1] at hcbin
  exact ⟨cb, hcbe, hb.2.1, hb.2.2.1, hcbin⟩

theorem le_foldl_max : ∀ (l : List Nat) (init x : Nat), x ∈ l ∨ x ≤ init → x ≤ l.foldl max init
  | [], init, x, h => by
    rcases h with h | h
    · cases h
    · exact h
  | a :: l, init, x, h => by
    simp only [List.foldl_cons]
    apply le_foldl_max l (max init a) x
    rcases h with h | h
    · rcases List.mem_cons.1 h with rfl | h
      · exact Or.inr (Nat.le_max_right _ _)
      · exact Or.inl h
    · exact Or.inr (Nat.le_trans h (Nat.le_max_left _ _))

/-- every image ends inside the reported length of the AHAB image -/
theorem placed_within_length (ch : Chip) (us : List UContainer) (hA : 0 < ch.imageAlignment) (p : Placed) (hp : p ∈ allPlaced us) :
    p.offset + p.ready.size ≤ imageLength ch us := by
  unfold imageLength
  simp only
  have h1 : alignNat (p.offset + p.ready.size) 4 ∈
      us.flatMap (fun u => u.placed.map (fun p => alignNat (p.offset + p.ready.size) 4)) := by
    obtain ⟨u, hu, hpu⟩ := List.mem_flatMap.1 hp
    exact List.mem_flatMap.2 ⟨u, hu, List.mem_map.2 ⟨p, hpu, rfl⟩⟩
  have h2 := le_foldl_max _ 0 _ (Or.inl h1)
  have h3 := alignNat_ge (p.offset + p.ready.size) 4 (by decide)
  have h4 := alignNat_ge ((us.flatMap (fun u => u.placed.map (fun p => alignNat (p.offset + p.ready.size) 4))).foldl max 0)
    ch.imageAlignment hA
  omega


/-! ### contents of the exported signature block -/

theorem slice_blitL_same (buf : Bytes) (off L : Nat) (d : Bytes) (h : off ≤ buf.length) :
    slice (blitL buf off L d) off d.length = d := by
  unfold blitL
  have hl : (buf.take off).length = off := by simp; omega
  rw [List.append_assoc]
  have := slice_append_right (buf.take off) (d ++ buf.drop (off + L)) 0 d.length
  rw [hl, Nat.add_zero] at this
  rw [this, slice_append_left _ _ _ _ (by omega), slice_full]

theorem slice_blitL_before (buf : Bytes) (off L : Nat) (d : Bytes) (k n : Nat) (h : k + n ≤ off) (hb : off ≤ buf.length) :
    slice (blitL buf off L d) k n = slice buf k n := by
  unfold blitL
  rw [List.append_assoc, slice_append_left _ _ _ _ (by simp; omega)]
  unfold slice
  rw [List.drop_take, List.take_take]
  congr 1; omega

theorem slice_blitL_after (buf : Bytes) (off L : Nat) (d : Bytes) (k n : Nat) (h : off + L ≤ k) (hd : d.length = L)
    (hb : off ≤ buf.length) : slice (blitL buf off L d) k n = slice buf k n := by
  unfold blitL
  have hl : (buf.take off ++ d).length = off + L := by simp [hd]; omega
  have := slice_append_right (buf.take off ++ d) (buf.drop (off + L)) (k - (off + L)) n
  rw [hl] at this
  rw [show k = off + L + (k - (off + L)) from by omega, this]
  unfold slice
  rw [List.drop_drop]

theorem slice_blitB_same (buf : Bytes) (off : Nat) (d : Bytes) (h : off ≤ buf.length) (hne : d ≠ []) :
    slice (blitB buf off d) off d.length = d := by
  unfold blitB
  have : d.isEmpty = false := by cases d <;> simp_all
  rw [this]; exact slice_blitL_same buf off d.length d h

theorem slice_blitB_other (buf : Bytes) (off : Nat) (d : Bytes) (k n : Nat)
    (h : d = [] ∨ ((k + n ≤ off ∨ off + d.length ≤ k) ∧ off ≤ buf.length)) :
    slice (blitB buf off d) k n = slice buf k n := by
  unfold blitB
  split
  · rfl
  · rcases h with h | ⟨h | h, hb⟩
    · subst h; simp at *
    · exact slice_blitL_before _ _ _ _ _ _ h hb
    · exact slice_blitL_after _ _ _ _ _ _ h rfl hb

/-- where every part of an exported signature block lies -/
theorem sigblock_content (v : Ver) (sb : SigBlock) (s : Bytes) (hb : BlobLenOK sb)
    (h : encodeSigBlock v sb (sbLayout v sb) = .ok s) :
    ∃ hdr sg sg2 bl, sbHeader v (sbLayout v sb) sb.keyId = .ok hdr ∧ encodeSignature sb.signature = .ok sg ∧
      encodeSignature sb.signature2 = .ok sg2 ∧ encodeBlobOpt sb = .ok bl ∧
      s.length = (sbLayout v sb).length ∧
      slice s 0 16 = hdr ∧
      (sb.srk ≠ [] → slice s (sbLayout v sb).srkOff sb.srk.length = sb.srk) ∧
      (sg ≠ [] → slice s (sbLayout v sb).sigOff sg.length = sg) ∧
      (v = .v2 → sg ≠ [] → sg2 ≠ [] → slice s ((sbLayout v sb).sigOff + sg.length) sg2.length = sg2) ∧
      (sb.cert ≠ [] → slice s (sbLayout v sb).certOff sb.cert.length = sb.cert) ∧
      (∀ b, sb.blob = some b → slice s (sbLayout v sb).blobOff bl.length = bl) := by
  unfold encodeSigBlock at h
  cases hh : sbHeader v (sbLayout v sb) sb.keyId with
  | error e => rw [hh] at h; cases h
  | ok hdr =>
    rw [hh] at h; simp only at h
    cases hsg : encodeSignature sb.signature with
    | error e => rw [hsg] at h; cases h
    | ok sg =>
      rw [hsg] at h; simp only at h
      cases hsg2 : encodeSignature sb.signature2 with
      | error e => rw [hsg2] at h; cases h
      | ok sg2 =>
        rw [hsg2] at h; simp only at h
        cases hbl : encodeBlobOpt sb with
        | error e => rw [hbl] at h; cases h
        | ok bl =>
          rw [hbl] at h; cases h
          have L := sigblock_layout v sb
          simp only at L
          obtain ⟨z1, z2, z3, z4, p1, p2, p3, p4, h16, _⟩ := L
          have hge := sigSize_ge v sb
          have hsgl := encodeSignature_length hsg
          have hsg2l := encodeSignature_length hsg2
          have hhl := sbHeader_length hh
          have hblen : ∀ b, sb.blob = some b → bl.length = 8 + b.keyblob.length := by
            intro b hbs; unfold encodeBlobOpt at hbl; rw [hbs] at hbl; exact encodeBlob_length hbl
          generalize ho : sbLayout v sb = o at *
          refine ⟨hdr, sg, sg2, bl, rfl, rfl, rfl, rfl, ?_⟩
          -- stage 1: header
          have l1 : (blitB (zerosB o.length) 0 hdr).length = o.length := by
            rw [blitB_length _ _ _ (by rw [hhl, zerosB_length]; omega), zerosB_length]
          have hdrne : hdr ≠ [] := by intro h0; rw [h0] at hhl; simp at hhl
          have c1 : slice (blitB (zerosB o.length) 0 hdr) 0 16 = hdr := by
            have := slice_blitB_same (zerosB o.length) 0 hdr (by omega) hdrne
            rw [hhl] at this; exact this
          -- stage 2: SRK
          have hsrk : sb.srk = [] ∨ (16 ≤ o.srkOff ∧ o.srkOff + sb.srk.length ≤ o.length) := by
            by_cases hs : sb.srk.length = 0
            · exact Or.inl (List.eq_nil_of_length_eq_zero hs)
            · exact Or.inr (p1 hs)
          have l2 : (sbHead o hdr sb.srk).length = o.length :=
            sbHead_length o hdr sb.srk hhl h16 (by rcases hsrk with h | h; exact Or.inl (by rw [h]; rfl); exact Or.inr h.2)
          have c2h : slice (sbHead o hdr sb.srk) 0 16 = hdr := by
            unfold sbHead
            rw [slice_blitB_other _ _ _ _ _ (by
              rcases hsrk with h | h
              · exact Or.inl h
              · exact Or.inr ⟨Or.inl (by omega), by rw [l1]; omega⟩), c1]
          have c2s : sb.srk ≠ [] → slice (sbHead o hdr sb.srk) o.srkOff sb.srk.length = sb.srk := by
            intro hne
            unfold sbHead
            rcases hsrk with h | h
            · exact absurd h hne
            · exact slice_blitB_same _ _ _ (by rw [l1]; omega) hne
          -- presence facts
          have sgE : sg = [] ↔ sb.signature.isEmpty = true := by
            constructor
            · intro h0
              have : signatureLen sb.signature = 0 := by rw [← hsgl, h0]; rfl
              unfold signatureLen at this
              split at this
              · assumption
              · have : AhabConsts.signatureLayout.size = 8 := rfl
                omega
            · intro h0
              exact List.eq_nil_of_length_eq_zero (by rw [hsgl]; simp [signatureLen, h0])
          have hsig : sg = [] ∨ (16 ≤ o.sigOff ∧ (sb.srk ≠ [] → o.srkOff + sb.srk.length ≤ o.sigOff) ∧
              o.sigOff + sg.length ≤ o.length ∧ (v = .v2 → o.sigOff + sg.length + sg2.length ≤ o.length) ∧ sb.sigSize v ≠ 0) := by
            by_cases h0 : sg = []
            · exact Or.inl h0
            · right
              have hpos : 0 < sg.length := List.length_pos_iff.2 h0
              have hs2 : sb.sigSize v ≠ 0 := by have := hge.1; omega
              have q := p2 hs2
              refine ⟨q.1, fun hne => q.2.1 (fun h => hne (List.eq_nil_of_length_eq_zero h)), by have := hge.1; omega, ?_, hs2⟩
              intro hv; have := hge.2 hv hs2; omega
          have hcert : sb.cert = [] ∨ (16 ≤ o.certOff ∧ (sb.srk ≠ [] → o.srkOff + sb.srk.length ≤ o.certOff) ∧
              (sb.sigSize v ≠ 0 → o.sigOff + sb.sigSize v ≤ o.certOff) ∧ o.certOff + sb.cert.length ≤ o.length) := by
            by_cases h0 : sb.cert.length = 0
            · exact Or.inl (List.eq_nil_of_length_eq_zero h0)
            · have q := p3 h0
              exact Or.inr ⟨q.1, fun hne => q.2.1 (fun h => hne (List.eq_nil_of_length_eq_zero h)), q.2.2.1, q.2.2.2⟩
          have hblob : ∀ b, sb.blob = some b → 16 ≤ o.blobOff ∧ (sb.srk ≠ [] → o.srkOff + sb.srk.length ≤ o.blobOff) ∧
              (sb.sigSize v ≠ 0 → o.sigOff + sb.sigSize v ≤ o.blobOff) ∧ (sb.cert ≠ [] → o.certOff + sb.cert.length ≤ o.blobOff) ∧
              o.blobOff + b.length = o.length ∧ bl.length = b.length := by
            intro b hbs
            have hbL := hb b hbs
            have hs4 : sb.blobLen = b.length := by simp [SigBlock.blobLen, hbs]
            have q := p4 (by omega)
            rw [hs4] at q
            exact ⟨q.1, fun hne => q.2.1 (fun h => hne (List.eq_nil_of_length_eq_zero h)), q.2.2.1,
              fun hne => q.2.2.2.1 (fun h => hne (List.eq_nil_of_length_eq_zero h)), q.2.2.2.2, by rw [hblen b hbs, hbL]⟩
          -- stage 3..6
          generalize hB : sbHead o hdr sb.srk = B at l2 c2h c2s
          have l3 : (blitB B o.sigOff sg).length = o.length := by
            rcases hsig with h0 | h0
            · rw [h0, blitB_nil]; exact l2
            · rw [blitB_length _ _ _ (by omega), l2]
          have l4 : (sig2Step v sb o (blitB B o.sigOff sg) sg sg2).length = o.length := by
            unfold sig2Step
            cases v
            · exact l3
            · simp only
              split
              · exact l3
              · rename_i hne
                rcases hsig with h0 | h0
                · exact absurd (sgE.1 h0) hne
                · rw [blitB_length _ _ _ (by have := h0.2.2.2.1 rfl; omega), l3]
          have l5 : (blitB (sig2Step v sb o (blitB B o.sigOff sg) sg sg2) o.certOff sb.cert).length = o.length := by
            rcases hcert with h0 | h0
            · rw [h0, blitB_nil]; exact l4
            · rw [blitB_length _ _ _ (by omega), l4]
          have keep5 : ∀ k n, (∀ b, sb.blob = some b → k + n ≤ o.blobOff) →
              slice (sbTail v sb o B sg sg2 bl) k n =
                slice (blitB (sig2Step v sb o (blitB B o.sigOff sg) sg sg2) o.certOff sb.cert) k n := by
            intro k n hk
            unfold sbTail blobStep
            cases hbs : sb.blob with
            | none => rfl
            | some b =>
              simp only
              exact slice_blitL_before _ _ _ _ _ _ (hk b hbs) (by rw [l5]; have := (hblob b hbs).2.2.2.2.1; omega)
          have keep4 : ∀ k n, (∀ b, sb.blob = some b → k + n ≤ o.blobOff) → (sb.cert = [] ∨ k + n ≤ o.certOff) →
              slice (sbTail v sb o B sg sg2 bl) k n = slice (sig2Step v sb o (blitB B o.sigOff sg) sg sg2) k n := by
            intro k n hk hc
            rw [keep5 k n hk, slice_blitB_other _ _ _ _ _ (by
              rcases hc with h0 | h0
              · exact Or.inl h0
              · rcases hcert with h1 | h1
                · exact Or.inl h1
                · exact Or.inr ⟨Or.inl h0, by rw [l4]; omega⟩)]
          have keep3 : ∀ k n, (∀ b, sb.blob = some b → k + n ≤ o.blobOff) → (sb.cert = [] ∨ k + n ≤ o.certOff) →
              (v = .v1 ∨ sg = [] ∨ sg2 = [] ∨ k + n ≤ o.sigOff + sg.length) →
              slice (sbTail v sb o B sg sg2 bl) k n = slice (blitB B o.sigOff sg) k n := by
            intro k n hk hc h2
            rw [keep4 k n hk hc]
            unfold sig2Step
            cases v
            · rfl
            · simp only
              split
              · rfl
              · rename_i hne
                rw [slice_blitB_other _ _ _ _ _ (by
                  rcases h2 with h0 | h0 | h0 | h0
                  · cases h0
                  · exact absurd (sgE.1 h0) hne
                  · exact Or.inl h0
                  · exact Or.inr ⟨Or.inl h0, by
                      rw [l3]
                      rcases hsig with h1 | h1
                      · exact absurd (sgE.1 h1) hne
                      · omega⟩)]
          have keep2 : ∀ k n, (∀ b, sb.blob = some b → k + n ≤ o.blobOff) → (sb.cert = [] ∨ k + n ≤ o.certOff) →
              (sg = [] ∨ k + n ≤ o.sigOff) → slice (sbTail v sb o B sg sg2 bl) k n = slice B k n := by
            intro k n hk hc hs
            rw [keep3 k n hk hc (by
              rcases hs with h0 | h0
              · exact Or.inr (Or.inl h0)
              · exact Or.inr (Or.inr (Or.inr (by omega)))), slice_blitB_other _ _ _ _ _ (by
              rcases hs with h0 | h0
              · exact Or.inl h0
              · rcases hsig with h1 | h1
                · exact Or.inl h1
                · exact Or.inr ⟨Or.inl h0, by rw [l2]; omega⟩)]
          have lS : (sbTail v sb o B sg sg2 bl).length = o.length := by
            unfold sbTail blobStep
            cases hbs : sb.blob with
            | none => exact l5
            | some b =>
              simp only
              have q := hblob b hbs
              rw [blitL_length _ _ _ _ (by rw [l5]; omega) q.2.2.2.2.2, l5]
          refine ⟨lS, ?_, ?_, ?_, ?_, ?_, ?_⟩
          · -- header
            rw [keep2 0 16 (fun b hbs => by have := (hblob b hbs).1; omega)
              (by rcases hcert with h0 | h0; exact Or.inl h0; exact Or.inr (by omega))
              (by rcases hsig with h0 | h0; exact Or.inl h0; exact Or.inr (by omega)), c2h]
          · -- SRK
            intro hne
            rw [keep2 _ _ (fun b hbs => (hblob b hbs).2.1 hne)
              (by rcases hcert with h0 | h0; exact Or.inl h0; exact Or.inr (h0.2.1 hne))
              (by rcases hsig with h0 | h0; exact Or.inl h0; exact Or.inr (h0.2.1 hne)), c2s hne]
          · -- signature
            intro hne
            rcases hsig with h0 | h0
            · exact absurd h0 hne
            · have hs2 := h0.2.2.2.2
              have hle := hge.1
              rw [keep3 _ _ (fun b hbs => by have := (hblob b hbs).2.2.1 hs2; omega)
                (by rcases hcert with h1 | h1; exact Or.inl h1; exact Or.inr (by have := h1.2.2.1 hs2; omega))
                (Or.inr (Or.inr (Or.inr (Nat.le_refl _)))),
                slice_blitB_same _ _ _ (by rw [l2]; omega) hne]
          · -- second signature
            intro hv hne hne2
            subst hv
            rcases hsig with h0 | h0
            · exact absurd h0 hne
            · have hs2 := h0.2.2.2.2
              have hsum := hge.2 rfl hs2
              rw [keep4 _ _ (fun b hbs => by have := (hblob b hbs).2.2.1 hs2; omega)
                (by rcases hcert with h1 | h1; exact Or.inl h1; exact Or.inr (by have := h1.2.2.1 hs2; omega))]
              unfold sig2Step
              simp only
              have hnE : ¬ (sb.signature.isEmpty = true) := fun h => hne (sgE.2 h)
              rw [if_neg hnE]
              exact slice_blitB_same _ _ _ (by rw [l3]; have := h0.2.2.2.1 rfl; omega) hne2
          · -- certificate
            intro hne
            rcases hcert with h0 | h0
            · exact absurd h0 hne
            · rw [keep5 _ _ (fun b hbs => (hblob b hbs).2.2.2.1 hne), slice_blitB_same _ _ _ (by rw [l4]; omega) hne]
          · -- blob
            intro b hbs
            have q := hblob b hbs
            unfold sbTail blobStep
            rw [hbs]
            simp only
            exact slice_blitL_same _ _ _ _ (by rw [l5]; omega)

/-! ### negative statements as reductions -/

section reductions
open SpsdkVerif.Spec.AhabRom
open SpsdkVerif.Crypto (Break)

theorem checkEntry_ok (c : CryptoOps) (p : Params) (bin : Bytes) (base pos : Nat) (dek : Option Bytes) (r : ImageRep)
    (h : checkEntry c p bin base pos dek = .ok r) :
    r.offset = base + rd bin pos 4 ∧ r.size = rd bin (pos + 4) 4 ∧ r.flags = rd bin (pos + 0x18) 4 ∧
    r.offset + r.size ≤ bin.length ∧
    ∃ a, hashOfTag ((r.flags >>> 8) % 2 ^ p.hashBits) = some a ∧
      slice bin (pos + Spec.AhabRom.hashFieldOff) Spec.AhabRom.hashFieldLen = padHash (c.hash a (slice bin r.offset r.size)) := by
  unfold checkEntry at h
  simp only at h
  split at h
  · cases h
  · rename_i hin
    split at h
    · cases h
    · rename_i a ha
      split at h
      · cases h
      · rename_i hh
        split at h
        · split at h
          · cases h
          · split at h
            · cases h
            · split at h
              · cases h
              · cases h
                exact ⟨rfl, rfl, rfl, by simp only; omega, a, ha, by simpa using hh⟩
        · cases h
          exact ⟨rfl, rfl, rfl, by simp only; omega, a, ha, by simpa using hh⟩

theorem padHash_inj (d d' : Bytes) (hl : d.length = d'.length) (h : padHash d = padHash d') : d = d' := by
  unfold padHash at h
  exact (List.append_inj h hl).1

/-- tampering with image bytes: if the entry (its 128 bytes) is unchanged and the independent entry check still accepts,
    the two different image contents collide under the declared hash -/
theorem tamper_image_reduction (c : CryptoOps) (hc : CryptoLaws c) (p : Params) (bin bin' : Bytes) (base pos : Nat)
    (dek dek' : Option Bytes) (r r' : ImageRep)
    (hent : slice bin pos iaeSize = slice bin' pos iaeSize) (hpl : pos + iaeSize ≤ bin.length)
    (h : checkEntry c p bin base pos dek = .ok r) (h' : checkEntry c p bin' base pos dek' = .ok r')
    (hdiff : slice bin r.offset r.size ≠ slice bin' r.offset r.size) : Break c := by
  obtain ⟨o1, s1, f1, _, a, ha, hh⟩ := checkEntry_ok c p bin base pos dek r h
  obtain ⟨o2, s2, f2, _, a', ha', hh'⟩ := checkEntry_ok c p bin' base pos dek' r' h'
  have hX : slice bin pos (slice bin pos iaeSize).length = slice bin pos iaeSize := by
    rw [slice_length _ _ _ hpl]
  have hX' : slice bin' pos (slice bin pos iaeSize).length = slice bin pos iaeSize := by
    rw [slice_length _ _ _ hpl, hent]
  have hL : (slice bin pos iaeSize).length = 128 := slice_length _ _ _ hpl
  have rdeq : ∀ k n, k + n ≤ 128 → rd bin (pos + k) n = rd bin' (pos + k) n := by
    intro k n hk
    rw [rd_of_eq bin _ pos k n hX (by omega), rd_of_eq bin' _ pos k n hX' (by omega)]
  have sleq : ∀ k n, k + n ≤ 128 → slice bin (pos + k) n = slice bin' (pos + k) n := by
    intro k n hk
    rw [slice_of_eq bin _ pos k n hX (by omega), slice_of_eq bin' _ pos k n hX' (by omega)]
  have e0 := rdeq 0 4 (by omega); simp only [Nat.add_zero] at e0
  have eo : r'.offset = r.offset := by rw [o1, o2, e0]
  have es : r'.size = r.size := by rw [s1, s2, rdeq 4 4 (by omega)]
  have ef : r'.flags = r.flags := by rw [f1, f2, rdeq 0x18 4 (by omega)]
  rw [ef, ha] at ha'; cases ha'
  rw [eo, es, ← sleq Spec.AhabRom.hashFieldOff Spec.AhabRom.hashFieldLen (by decide), hh] at hh'
  have := padHash_inj _ _ (by rw [hc.hash_len, hc.hash_len]) hh'
  exact Break.collision a _ _ hdiff this

theorem tamper_signed_reduction (c : CryptoOps) (alg : Crypto.SigAlg) (sk : Crypto.PrivKey) (rnd : Crypto.Rand) (bin bin' : Bytes) (base : Nat) (s : SigRep)
    (hsig : slice bin' s.sigOff s.sigLen = c.sign alg sk (slice bin base s.signedLen) rnd)
    (hdiff : slice bin base s.signedLen ≠ slice bin' base s.signedLen)
    (hacc : sigObligation c alg (c.pubOf sk) bin' base s = true) : Break c := by
  unfold sigObligation at hacc
  rw [hsig] at hacc
  exact Break.sigForgery alg sk _ _ rnd hdiff hacc

end reductions

end SpsdkVerif.Ahab
