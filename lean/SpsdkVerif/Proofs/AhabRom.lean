/- Helper lemmas tying the exporter model (Model/Ahab.lean) to the independent checker (Spec/AhabRom.lean). -/
import SpsdkVerif.Proofs.Ahab
import SpsdkVerif.Proofs.Crypto

namespace SpsdkVerif.Ahab
open SpsdkVerif SpsdkVerif.Misc
open SpsdkVerif.Generated
open SpsdkVerif.Spec.AhabRom (slice rd)

/-! ### slices -/

theorem slice_length (b : Bytes) (off n : Nat) (h : off + n ≤ b.length) : (slice b off n).length = n := by
  simp [slice]; omega

theorem slice_slice (b : Bytes) (base L k n : Nat) (h : k + n ≤ L) : slice (slice b base L) k n = slice b (base + k) n := by
  unfold slice
  rw [List.drop_take, List.take_take, List.drop_drop]
  congr 1
  omega

theorem slice_of_eq (b X : Bytes) (base k n : Nat) (hX : slice b base X.length = X) (h : k + n ≤ X.length) :
    slice b (base + k) n = slice X k n := by
  rw [← slice_slice b base X.length k n h, hX]

theorem rd_of_eq (b X : Bytes) (base k n : Nat) (hX : slice b base X.length = X) (h : k + n ≤ X.length) :
    rd b (base + k) n = rd X k n := by
  unfold rd; rw [slice_of_eq b X base k n hX h]

theorem slice_append_left (X Y : Bytes) (k n : Nat) (h : k + n ≤ X.length) : slice (X ++ Y) k n = slice X k n := by
  unfold slice
  rw [List.drop_append_of_le_length (by omega), List.take_append_of_le_length (by simp; omega)]

theorem slice_append_right (X Y : Bytes) (k n : Nat) : slice (X ++ Y) (X.length + k) n = slice Y k n := by
  unfold slice
  rw [List.drop_append, List.drop_of_length_le (by omega)]
  simp

theorem slice_full (X : Bytes) : slice X 0 X.length = X := by simp [slice]

/-- the integer fields of an image-array entry read at their documented offsets -/
theorem unpack6_rd (b : Bytes) (h : 32 ≤ b.length) :
    unpackInts [4, 4, 8, 8, 4, 4] b = some [rd b 0 4, rd b 4 4, rd b 8 8, rd b 16 8, rd b 24 4, rd b 28 4] := by
  simp only [unpackInts, List.length_drop, List.drop_drop, rd, slice, List.drop_zero]
  have e1 : ¬ (b.length < 4) := by omega
  have e2 : ¬ (b.length - 4 < 4) := by omega
  have e3 : ¬ (b.length - (4 + 4) < 8) := by omega
  have e4 : ¬ (b.length - (4 + 4 + 8) < 8) := by omega
  have e5 : ¬ (b.length - (4 + 4 + 8 + 8) < 4) := by omega
  have e6 : ¬ (b.length - (4 + 4 + 8 + 8 + 4) < 4) := by omega
  simp [e1, e2, e3, e4, e5, e6]


theorem iae_fields (l : AhabConsts.Layout) (hw : l.intWidths = [4, 4, 8, 8, 4, 4]) (hs : l.strFields = [(6, 64), (7, 32)])
    (e : Iae) (X : Bytes) (hh : e.hash.length = 64) (hi : e.iv.length = 32) (h : encodeIae l e = .ok X) :
    X.length = 128 ∧ rd X 0 4 = e.imageOffset ∧ rd X 4 4 = e.imageSize ∧ rd X 0x18 4 = e.flags ∧
    slice X 0x20 64 = e.hash ∧ slice X 0x60 32 = e.iv := by
  have hlen := encodeIae_length l hw hs e X h
  unfold encodeIae at h
  cases hp : packChecked l.intWidths e.ints with
  | error err => rw [hp] at h; cases h
  | ok hb =>
    rw [hp] at h
    obtain ⟨hf, rfl⟩ := packChecked_ok hp
    have hH : hashFieldLen l = 64 := by simp [hashFieldLen, hs]
    have hI : ivFieldLen l = 32 := by simp [ivFieldLen, hs]
    simp only [hH, hI, fitS_of_length _ _ hh, fitS_of_length _ _ hi] at h
    cases h
    have hpl : (packInts l.intWidths e.ints).length = 32 := by rw [packInts_length _ _ hf, hw]; rfl
    have hu := unpack_pack l.intWidths e.ints (e.hash ++ e.iv) hf
    rw [hw] at hu
    have hu2 := unpack6_rd (packInts l.intWidths e.ints ++ (e.hash ++ e.iv)) (by simp [hpl])
    rw [hw] at hu2 hpl
    rw [hu] at hu2
    simp only [Iae.ints, Option.some.injEq, List.cons.injEq, and_true] at hu2
    obtain ⟨f1, f2, _, _, f5, _⟩ := hu2
    simp only [List.append_assoc]
    rw [hw]
    refine ⟨by simpa [List.append_assoc, hw] using hlen, f1.symm, f2.symm, f5.symm, ?_, ?_⟩
    · have := slice_append_right (packInts [4, 4, 8, 8, 4, 4] e.ints) (e.hash ++ e.iv) 0 64
      rw [hpl] at this
      rw [show (0x20 : Nat) = 32 + 0 from rfl, this, slice_append_left _ _ _ _ (by omega), ← hh, slice_full]
    · have := slice_append_right (packInts [4, 4, 8, 8, 4, 4] e.ints) (e.hash ++ e.iv) 64 32
      rw [hpl] at this
      rw [show (0x60 : Nat) = 32 + 64 from rfl, this]
      have t2 := slice_append_right e.hash e.iv 0 32
      rw [hh] at t2
      rw [show (64 : Nat) = 64 + 0 from rfl, t2, ← hi, slice_full]

/-- entry `i` of an exported image array occupies bytes `[128 i, 128 i + 128)` -/
theorem encodeIaes_slice (l : AhabConsts.Layout) (hw : l.intWidths = [4, 4, 8, 8, 4, 4]) (hs : l.strFields = [(6, 64), (7, 32)]) :
    ∀ (es : List Iae) (a : Bytes) (i : Nat) (e : Iae), encodeIaes l es = .ok a → es[i]? = some e →
      ∃ X, encodeIae l e = .ok X ∧ slice a (128 * i) 128 = X ∧ 128 * i + 128 ≤ a.length
  | [], _, _, _, _, hi => by simp at hi
  | e0 :: es, a, i, e, h, hi => by
    obtain ⟨a1, a2, h1, h2, rfl⟩ := encodeIaes_cons h
    have hl1 := encodeIae_length l hw hs e0 a1 h1
    cases i with
    | zero =>
      simp only [List.getElem?_cons_zero, Option.some.injEq] at hi
      subst hi
      refine ⟨a1, h1, ?_, by simp [hl1]⟩
      rw [show 128 * 0 = 0 from rfl, slice_append_left _ _ _ _ (by omega), ← hl1, slice_full]
    | succ i =>
      simp only [List.getElem?_cons_succ] at hi
      obtain ⟨X, hX, hsl, hle⟩ := encodeIaes_slice l hw hs es a2 i e h2 hi
      refine ⟨X, hX, ?_, by simp [hl1]; omega⟩
      have := slice_append_right a1 a2 (128 * i) 128
      rw [hl1] at this
      rw [show 128 * (i + 1) = 128 + 128 * i from by omega, this, hsl]

end SpsdkVerif.Ahab
