/-
Truncation of the device→host stream in the MIDDLE of an operation (C10): for every cut position the operation on the
cut stream either behaves observably exactly as on the full stream, or it does not report success.
Definitions: `Host.truncate`, `Host.truncateReports`, `observable`, `succeeded` (Model/Mboot.lean); `talks`, `Starved` and the
"silent link" lemmas (Proofs/MbootFault.lean).

Proof architecture: a lock-step simulation between the run on the full stream (`hf`) and the run on the cut stream (`ht`),
relation `Cut`; the two runs agree until a read on the cut side finds too little, from then on the cut host is `Dead`
(nothing readable, the script releases nothing any more) and the rest of the operation ends in a failure class.
-/
import SpsdkVerif.Model.Mboot
import SpsdkVerif.Proofs.Mboot
import SpsdkVerif.Proofs.MbootFault

namespace SpsdkVerif.Mboot.Trunc
open SpsdkVerif SpsdkVerif.Mboot SpsdkVerif.Mboot.H SpsdkVerif.Mboot.Fault

/-! ### the relation between the two runs -/

/-- a replay script that releases nothing any more -/
def Mute (p : Peer) : Prop := ∃ cs, p = .script cs ∧ ∀ x ∈ cs, x = []

def truncTr : Transport → Nat → List (List Bytes) → List (List Bytes)
  | .serial => truncChunks
  | .hid => truncReports

/-- nothing readable on the link in use, and nothing will ever arrive -/
structure Dead (c : Cfg) (h : Host) : Prop where
  cfg : h.cfg = c
  peer : Mute h.peer
  rxB : c.tr = .serial → h.rxB = []
  rxR : c.tr = .hid → h.rxR = []

/-- `hf` runs on the full stream, `ht` on the cut one; everything else is equal -/
structure Cut (c : Cfg) (hf ht : Host) : Prop where
  cfgf : hf.cfg = c
  cfgt : ht.cfg = c
  status : ht.status = hf.status
  mps : ht.mps = hf.mps
  eda : ht.eda = hf.eda
  opened : ht.opened = hf.opened
  txRev : ht.txRev = hf.txRev
  fuelHint : ht.fuelHint = hf.fuelHint
  preB : ht.rxB <+: hf.rxB
  preR : ht.rxR <+: hf.rxR
  stream : Mute ht.peer ∨
    (ht.rxB = hf.rxB ∧ ht.rxR = hf.rxR ∧ ∃ j cs, hf.peer = .script cs ∧ ht.peer = .script (truncTr c.tr j cs))

theorem mute_map (cs : List (List Bytes)) : Mute (.script (cs.map (fun _ => []))) :=
  ⟨_, rfl, by intro x hx; simp only [List.mem_map] at hx; obtain ⟨_, _, rfl⟩ := hx; rfl⟩

theorem cut_truncate (h : Host) (k : Nat) (cs : List (List Bytes)) (htr : h.cfg.tr = .serial) (hpeer : h.peer = .script cs) :
    Cut h.cfg h (h.truncate k) := by
  unfold Host.truncate
  rw [hpeer]
  simp only
  by_cases hk : h.rxB.length ≤ k
  · rw [if_pos hk]
    exact ⟨rfl, rfl, rfl, rfl, rfl, rfl, rfl, rfl, List.prefix_refl _, List.prefix_refl _,
      Or.inr ⟨rfl, rfl, k - h.rxB.length, cs, hpeer, by rw [htr]; rfl⟩⟩
  · rw [if_neg hk]
    exact ⟨rfl, rfl, rfl, rfl, rfl, rfl, rfl, rfl, List.take_prefix _ _, List.prefix_refl _, Or.inl (mute_map cs)⟩

theorem cut_truncateReports (h : Host) (k : Nat) (cs : List (List Bytes)) (htr : h.cfg.tr = .hid) (hpeer : h.peer = .script cs) :
    Cut h.cfg h (h.truncateReports k) := by
  unfold Host.truncateReports
  rw [hpeer]
  simp only
  by_cases hk : h.rxR.length ≤ k
  · rw [if_pos hk]
    exact ⟨rfl, rfl, rfl, rfl, rfl, rfl, rfl, rfl, List.prefix_refl _, List.prefix_refl _,
      Or.inr ⟨rfl, rfl, k - h.rxR.length, cs, hpeer, by rw [htr]; rfl⟩⟩
  · rw [if_neg hk]
    exact ⟨rfl, rfl, rfl, rfl, rfl, rfl, rfl, rfl, List.prefix_refl _, List.take_prefix _ _, Or.inl (mute_map cs)⟩

/-! ### `device.write` -/

theorem write_serial (h : Host) (w : Bytes) (htr : h.cfg.tr = .serial) :
    ∃ p out, h.write w = { h with txRev := w :: h.txRev, relRev := out :: h.relRev, peer := p, rxB := h.rxB ++ out.flatten } ∧
      (∀ cs, h.peer = .script cs → p = .script cs.tail ∧ out = cs.headD []) := by
  unfold Host.write
  cases hp : h.peer with
  | none => exact ⟨.none, [], by simp only [htr], by intro cs h; cases h⟩
  | live d => exact ⟨.live (d.stepSerial w).1, [(d.stepSerial w).2], by simp only [htr], by intro cs h; cases h⟩
  | script cs =>
    cases cs with
    | nil => exact ⟨.script [], [], by simp only [htr], by intro cs h; cases h; exact ⟨rfl, rfl⟩⟩
    | cons x r => exact ⟨.script r, x, by simp only [htr], by intro cs h; cases h; exact ⟨rfl, rfl⟩⟩

theorem write_hid (h : Host) (w : Bytes) (htr : h.cfg.tr = .hid) :
    ∃ p out, h.write w = { h with txRev := w :: h.txRev, relRev := out :: h.relRev, peer := p, rxR := h.rxR ++ out } ∧
      (∀ cs, h.peer = .script cs → p = .script cs.tail ∧ out = cs.headD []) := by
  unfold Host.write
  cases hp : h.peer with
  | none => exact ⟨.none, [], by simp only [htr], by intro cs h; cases h⟩
  | live d => exact ⟨.live (d.stepHid w).1, (d.stepHid w).2, by simp only [htr], by intro cs h; cases h⟩
  | script cs =>
    cases cs with
    | nil => exact ⟨.script [], [], by simp only [htr], by intro cs h; cases h; exact ⟨rfl, rfl⟩⟩
    | cons x r => exact ⟨.script r, x, by simp only [htr], by intro cs h; cases h; exact ⟨rfl, rfl⟩⟩

theorem mute_step {cs : List (List Bytes)} (hm : ∀ x ∈ cs, x = []) :
    Mute (.script cs.tail) ∧ cs.headD [] = [] := by
  cases cs with
  | nil => exact ⟨⟨_, rfl, by simp⟩, rfl⟩
  | cons x r => exact ⟨⟨_, rfl, fun y hy => hm y (List.mem_cons_of_mem _ hy)⟩, hm x (by simp)⟩

theorem dead_write {c : Cfg} {h : Host} (w : Bytes) (hd : Dead c h) : Dead c (h.write w) := by
  obtain ⟨hcfg, ⟨cs, hp, hm⟩, hb, hr⟩ := hd
  obtain ⟨m1, m2⟩ := mute_step hm
  cases htr : c.tr with
  | serial =>
    obtain ⟨p, out, e, hs⟩ := write_serial h w (by rw [hcfg]; exact htr)
    obtain ⟨rfl, rfl⟩ := hs cs hp
    rw [e]
    refine ⟨hcfg, m1, fun _ => ?_, fun x => ?_⟩
    · show h.rxB ++ (cs.headD []).flatten = []
      rw [m2, hb htr]; rfl
    · rw [htr] at x; cases x
  | hid =>
    obtain ⟨p, out, e, hs⟩ := write_hid h w (by rw [hcfg]; exact htr)
    obtain ⟨rfl, rfl⟩ := hs cs hp
    rw [e]
    refine ⟨hcfg, m1, fun x => ?_, fun _ => ?_⟩
    · rw [htr] at x; cases x
    · show h.rxR ++ cs.headD [] = []
      rw [m2, hr htr]; rfl

theorem cut_write {c : Cfg} {hf ht : Host} (w : Bytes) (hc : Cut c hf ht) : Cut c (hf.write w) (ht.write w) := by
  obtain ⟨c1, c2, c3, c4, c5, c6, c7, c8, pB, pR, hs⟩ := hc
  cases htr : c.tr with
  | serial =>
    have htt : truncTr c.tr = truncChunks := by rw [htr]; rfl
    obtain ⟨pf, outf, ef, hsf⟩ := write_serial hf w (by rw [c1]; exact htr)
    obtain ⟨pt, outt, et, hst⟩ := write_serial ht w (by rw [c2]; exact htr)
    rw [ef, et]
    rcases hs with ⟨cs, hp, hm⟩ | ⟨eB, eR, j, cs, hpf, hpt⟩
    · obtain ⟨m1, m2⟩ := mute_step hm
      obtain ⟨rfl, rfl⟩ := hst cs hp
      refine ⟨c1, c2, c3, c4, c5, c6, ?_, c8, ?_, pR, Or.inl m1⟩
      · show w :: ht.txRev = w :: hf.txRev
        rw [c7]
      · show ht.rxB ++ (cs.headD []).flatten <+: hf.rxB ++ outf.flatten
        rw [m2]
        simp only [List.flatten_nil, List.append_nil]
        exact pB.trans (List.prefix_append _ _)
    · obtain ⟨rfl, rfl⟩ := hsf cs hpf
      obtain ⟨rfl, rfl⟩ := hst _ hpt
      rw [htt]
      cases cs with
      | nil =>
        refine ⟨c1, c2, c3, c4, c5, c6, ?_, c8, ?_, pR, Or.inr ⟨?_, eR, j, [], rfl, ?_⟩⟩
        · show w :: ht.txRev = w :: hf.txRev
          rw [c7]
        · simp [truncChunks, eB]
        · simp [truncChunks, eB]
        · rw [htt]; rfl
      | cons x r =>
        by_cases hx : x.flatten.length ≤ j
        · rw [show truncChunks j (x :: r) = x :: truncChunks (j - x.flatten.length) r by rw [truncChunks, if_pos hx]]
          refine ⟨c1, c2, c3, c4, c5, c6, ?_, c8, ?_, pR,
            Or.inr ⟨?_, eR, j - x.flatten.length, r, rfl, ?_⟩⟩
          · show w :: ht.txRev = w :: hf.txRev
            rw [c7]
          · simp [eB]
          · simp [eB]
          · rw [htt]; rfl
        · refine ⟨c1, c2, c3, c4, c5, c6, ?_, c8, ?_, pR, Or.inl ?_⟩
          · show w :: ht.txRev = w :: hf.txRev
            rw [c7]
          · simp only [truncChunks, hx, if_false, List.headD_cons, List.flatten_cons, List.flatten_nil, List.append_nil, eB]
            exact (List.prefix_append_right_inj _).mpr (List.take_prefix _ _)
          · simp only [truncChunks, hx, if_false, List.tail_cons]
            exact mute_map r
  | hid =>
    have htt : truncTr c.tr = truncReports := by rw [htr]; rfl
    obtain ⟨pf, outf, ef, hsf⟩ := write_hid hf w (by rw [c1]; exact htr)
    obtain ⟨pt, outt, et, hst⟩ := write_hid ht w (by rw [c2]; exact htr)
    rw [ef, et]
    rcases hs with ⟨cs, hp, hm⟩ | ⟨eB, eR, j, cs, hpf, hpt⟩
    · obtain ⟨m1, m2⟩ := mute_step hm
      obtain ⟨rfl, rfl⟩ := hst cs hp
      refine ⟨c1, c2, c3, c4, c5, c6, ?_, c8, pB, ?_, Or.inl m1⟩
      · show w :: ht.txRev = w :: hf.txRev
        rw [c7]
      · show ht.rxR ++ cs.headD [] <+: hf.rxR ++ outf
        rw [m2]
        simp only [List.append_nil]
        exact pR.trans (List.prefix_append _ _)
    · obtain ⟨rfl, rfl⟩ := hsf cs hpf
      obtain ⟨rfl, rfl⟩ := hst _ hpt
      rw [htt]
      cases cs with
      | nil =>
        refine ⟨c1, c2, c3, c4, c5, c6, ?_, c8, pB, ?_, Or.inr ⟨eB, ?_, j, [], rfl, ?_⟩⟩
        · show w :: ht.txRev = w :: hf.txRev
          rw [c7]
        · simp [truncReports, eR]
        · simp [truncReports, eR]
        · rw [htt]; rfl
      | cons x r =>
        by_cases hx : x.length ≤ j
        · rw [show truncReports j (x :: r) = x :: truncReports (j - x.length) r by rw [truncReports, if_pos hx]]
          refine ⟨c1, c2, c3, c4, c5, c6, ?_, c8, pB, ?_,
            Or.inr ⟨eB, ?_, j - x.length, r, rfl, ?_⟩⟩
          · show w :: ht.txRev = w :: hf.txRev
            rw [c7]
          · simp [eR]
          · simp [eR]
          · rw [htt]; rfl
        · refine ⟨c1, c2, c3, c4, c5, c6, ?_, c8, pB, ?_, Or.inl ?_⟩
          · show w :: ht.txRev = w :: hf.txRev
            rw [c7]
          · simp only [truncReports, hx, if_false, List.headD_cons, eR]
            exact (List.prefix_append_right_inj _).mpr (List.take_prefix _ _)
          · simp only [truncReports, hx, if_false, List.tail_cons]
            exact mute_map r

/-! ### the simulation framework -/

/-- outcome of the pair of runs: in lock-step (same result, still related), or the cut run landed in the class `Q` -/
def Res (c : Cfg) {α} (Q : Except HErr α → Host → Prop) (xf xt : Except HErr α × Host) : Prop :=
  (xt.1 = xf.1 ∧ Cut c xf.2 xt.2) ∨ Q xt.1 xt.2

def LS (c : Cfg) {α} (m : H α) (Q : Except HErr α → Host → Prop) : Prop :=
  ∀ hf ht, Cut c hf ht → Res c Q (m hf) (m ht)

def HT {α} (P : Host → Prop) (m : H α) (Q : Except HErr α → Host → Prop) : Prop :=
  ∀ h, P h → Q (m h).1 (m h).2

/-- from a dead host the run lands in `Q`; from a related pair the runs stay in lock-step or the cut one lands in `Q` -/
def G (c : Cfg) {α} (m : H α) (Q : Except HErr α → Host → Prop) : Prop := HT (Dead c) m Q ∧ LS c m Q

/-- the standard failure class: the host is dead; a value, if one is returned at all, satisfies `S` -/
def QD (c : Cfg) {α} (S : α → Host → Prop) : Except HErr α → Host → Prop :=
  fun r h => Dead c h ∧ ∀ a, r = .ok a → S a h

/-- always an exception -/
abbrev QE (c : Cfg) {α} : Except HErr α → Host → Prop := QD c (fun _ _ => False)
/-- anything, but dead -/
abbrev QT (c : Cfg) {α} : Except HErr α → Host → Prop := QD c (fun _ _ => True)

def ErrOK (c : Cfg) {α} (Q : Except HErr α → Host → Prop) : Prop := ∀ e h, Dead c h → Q (.error e) h

theorem QD_err {c : Cfg} {α} (S : α → Host → Prop) : ErrOK c (QD c S) :=
  fun _ _ hd => ⟨hd, fun _ h => by cases h⟩

def NS : Except HErr Val → Host → Prop := fun r h => ¬ succeeded r h

theorem NS_err {c : Cfg} : ErrOK c NS := fun e h _ => not_succeeded_error e h

theorem QD_mono {c : Cfg} {α} {S S' : α → Host → Prop} (hS : ∀ a h, Dead c h → S a h → S' a h) {r : Except HErr α} {h : Host}
    (hq : QD c S r h) : QD c S' r h := ⟨hq.1, fun a e => hS a h hq.1 (hq.2 a e)⟩

theorem G_mono {c : Cfg} {α} {m : H α} {Q Q' : Except HErr α → Host → Prop} (hm : G c m Q) (hQ : ∀ r h, Q r h → Q' r h) :
    G c m Q' := by
  refine ⟨fun h hd => hQ _ _ (hm.1 h hd), fun hf ht hc => ?_⟩
  rcases hm.2 hf ht hc with h1 | h1
  · exact Or.inl h1
  · exact Or.inr (hQ _ _ h1)

theorem LS_pure {c : Cfg} {α} (a : α) (Q : Except HErr α → Host → Prop) : LS c (pure a : H α) Q :=
  fun _ _ hc => Or.inl ⟨rfl, hc⟩

theorem LS_fail {c : Cfg} {α} (e : HErr) (Q : Except HErr α → Host → Prop) : LS c (fail e : H α) Q :=
  fun _ _ hc => Or.inl ⟨rfl, hc⟩

theorem LS_lift {c : Cfg} {α} (x : Except HErr α) (Q : Except HErr α → Host → Prop) : LS c (lift x : H α) Q :=
  fun _ _ hc => Or.inl ⟨rfl, hc⟩

theorem G_pure {c : Cfg} {α} (a : α) {Q : Except HErr α → Host → Prop} (hq : ∀ h, Dead c h → Q (.ok a) h) :
    G c (pure a : H α) Q := ⟨fun h hd => hq h hd, LS_pure a Q⟩

theorem G_fail {c : Cfg} {α} (e : HErr) {Q : Except HErr α → Host → Prop} (hq : ErrOK c Q) :
    G c (fail e : H α) Q := ⟨fun h hd => hq e h hd, LS_fail e Q⟩

theorem G_lift {c : Cfg} {α} (x : Except HErr α) {Q : Except HErr α → Host → Prop} (hq : ∀ h, Dead c h → Q x h) :
    G c (lift x : H α) Q := ⟨fun h hd => hq h hd, LS_lift x Q⟩

theorem HT_bind {c : Cfg} {α β} {P : Host → Prop} {m : H α} {f : α → H β} {S : α → Host → Prop}
    {Q : Except HErr β → Host → Prop}
    (hm : HT P m (QD c S)) (he : ErrOK c Q) (hk : ∀ a h, Dead c h → S a h → Q (f a h).1 (f a h).2) :
    HT P (m >>= f) Q := by
  intro h hp
  have := hm h hp
  simp only [bind_run]
  rcases hmh : m h with ⟨r, h'⟩
  rw [hmh] at this
  cases r with
  | error e => exact he e h' this.1
  | ok a => exact hk a h' this.1 (this.2 a rfl)

theorem LS_bind {c : Cfg} {α β} {m : H α} {f : α → H β} {S : α → Host → Prop} {Q : Except HErr β → Host → Prop}
    (hm : LS c m (QD c S)) (hf : ∀ a, LS c (f a) Q) (he : ErrOK c Q)
    (hk : ∀ a h, Dead c h → S a h → Q (f a h).1 (f a h).2) : LS c (m >>= f) Q := by
  intro hf' ht' hc
  have := hm hf' ht' hc
  simp only [bind_run]
  rcases hmf : m hf' with ⟨rf, sf⟩
  rcases hmt : m ht' with ⟨rt, st⟩
  rw [hmf, hmt] at this
  rcases this with ⟨e, hc'⟩ | ⟨hd, hS⟩
  · simp only at e hc'
    subst e
    cases rt with
    | error e => exact Or.inl ⟨rfl, hc'⟩
    | ok a => exact hf a sf st hc'
  · simp only at hd hS
    cases rt with
    | error e => exact Or.inr (he e st hd)
    | ok a => exact Or.inr (hk a st hd (hS a rfl))

theorem G_bind {c : Cfg} {α β} {m : H α} {f : α → H β} {S : α → Host → Prop} {Q : Except HErr β → Host → Prop}
    (hm : G c m (QD c S)) (hf : ∀ a, LS c (f a) Q) (he : ErrOK c Q)
    (hk : ∀ a h, Dead c h → S a h → Q (f a h).1 (f a h).2) : G c (m >>= f) Q :=
  ⟨HT_bind hm.1 he hk, LS_bind hm.2 hf he hk⟩

theorem G_bindG {c : Cfg} {α β} {m : H α} {f : α → H β} {S : α → Host → Prop} {Q : Except HErr β → Host → Prop}
    (hm : G c m (QD c S)) (hf : ∀ a, G c (f a) Q) (he : ErrOK c Q) : G c (m >>= f) Q :=
  G_bind hm (fun a => (hf a).2) he (fun a h hd _ => (hf a).1 h hd)

theorem HT_catch {c : Cfg} {α} {P : Host → Prop} {m : H α} {hd : HErr → H α} {S : α → Host → Prop}
    {Q : Except HErr α → Host → Prop}
    (hm : HT P m (QD c S)) (hok : ∀ a h, Dead c h → S a h → Q (.ok a) h)
    (hk : ∀ e h, Dead c h → Q (hd e h).1 (hd e h).2) : HT P (catch_ m hd) Q := by
  intro h hp
  have := hm h hp
  simp only [catch_run]
  rcases hmh : m h with ⟨r, h'⟩
  rw [hmh] at this
  cases r with
  | error e => exact hk e h' this.1
  | ok a => exact hok a h' this.1 (this.2 a rfl)

theorem LS_catch {c : Cfg} {α} {m : H α} {hd : HErr → H α} {S : α → Host → Prop} {Q : Except HErr α → Host → Prop}
    (hm : LS c m (QD c S)) (hh : ∀ e, LS c (hd e) Q) (hok : ∀ a h, Dead c h → S a h → Q (.ok a) h)
    (hk : ∀ e h, Dead c h → Q (hd e h).1 (hd e h).2) : LS c (catch_ m hd) Q := by
  intro hf' ht' hc
  have := hm hf' ht' hc
  simp only [catch_run]
  rcases hmf : m hf' with ⟨rf, sf⟩
  rcases hmt : m ht' with ⟨rt, st⟩
  rw [hmf, hmt] at this
  rcases this with ⟨e, hc'⟩ | ⟨hd', hS⟩
  · simp only at e hc'
    subst e
    cases rt with
    | error e => exact hh e sf st hc'
    | ok a => exact Or.inl ⟨rfl, hc'⟩
  · simp only at hd' hS
    cases rt with
    | error e => exact Or.inr (hk e st hd')
    | ok a => exact Or.inr (hok a st hd' (hS a rfl))

theorem G_catch {c : Cfg} {α} {m : H α} {hd : HErr → H α} {S : α → Host → Prop} {Q : Except HErr α → Host → Prop}
    (hm : G c m (QD c S)) (hh : ∀ e, G c (hd e) Q) (hok : ∀ a h, Dead c h → S a h → Q (.ok a) h) : G c (catch_ m hd) Q :=
  ⟨HT_catch hm.1 hok (fun e h hd' => (hh e).1 h hd'), LS_catch hm.2 (fun e => (hh e).2) hok (fun e h hd' => (hh e).1 h hd')⟩

/-- `let h ← get; f h`: what `f` looks at is the same on both sides -/
theorem G_get {c : Cfg} {α} {f : Host → H α} {Q : Except HErr α → Host → Prop}
    (hfeq : ∀ hf ht, Cut c hf ht → f ht = f hf) (hf : ∀ h0, h0.cfg = c → LS c (f h0) Q)
    (hk : ∀ h, Dead c h → Q (f h h).1 (f h h).2) : G c (get >>= f) Q := by
  refine ⟨fun h hd => ?_, fun hf' ht' hc => ?_⟩
  · simp only [bind_run, get_run]; exact hk h hd
  · simp only [bind_run, get_run]
    rw [hfeq hf' ht' hc]
    exact hf hf' hc.cfgf hf' ht' hc

theorem G_getG {c : Cfg} {α} {f : Host → H α} {Q : Except HErr α → Host → Prop}
    (hfeq : ∀ hf ht, Cut c hf ht → f ht = f hf) (hf : ∀ h0, h0.cfg = c → G c (f h0) Q) : G c (get >>= f) Q :=
  G_get hfeq (fun h0 e => (hf h0 e).2) (fun h hd => (hf h hd.cfg).1 h hd)

theorem G_modify {c : Cfg} {g : Host → Host} {Q : Except HErr Unit → Host → Prop}
    (hc : ∀ hf ht, Cut c hf ht → Cut c (g hf) (g ht)) (hq : ∀ h, Dead c h → Q (.ok ()) (g h)) : G c (modify g) Q :=
  ⟨fun h hd => hq h hd, fun hf ht h => Or.inl ⟨rfl, hc hf ht h⟩⟩

theorem G_devWrite {c : Cfg} (w : Bytes) : G c (devWrite w) (QT c) :=
  G_modify (fun _ _ h => cut_write w h) (fun _ hd => ⟨dead_write w hd, fun _ _ => trivial⟩)

theorem cut_status {c : Cfg} {hf ht : Host} (st : Nat) (h : Cut c hf ht) :
    Cut c { hf with status := st } { ht with status := st } :=
  ⟨h.cfgf, h.cfgt, rfl, h.mps, h.eda, h.opened, h.txRev, h.fuelHint, h.preB, h.preR, h.stream⟩

theorem dead_status {c : Cfg} {h : Host} (st : Nat) (hd : Dead c h) : Dead c { h with status := st } :=
  ⟨hd.cfg, hd.peer, hd.rxB, hd.rxR⟩

theorem G_setStatus {c : Cfg} (st : Nat) : G c (setStatus st) (QD c (fun _ h => h.status = st)) :=
  G_modify (fun _ _ h => cut_status st h) (fun _ hd => ⟨dead_status st hd, fun _ _ => rfl⟩)

/-! ### the read primitives -/

theorem cut_rxB {c : Cfg} {hf ht : Host} (bf bt : Bytes) (a b : Nat) (h : Cut c hf ht) (hp : bt <+: bf)
    (he : ht.rxB = hf.rxB → bt = bf) : Cut c { hf with rxB := bf, reads := a } { ht with rxB := bt, reads := b } := by
  refine ⟨h.cfgf, h.cfgt, h.status, h.mps, h.eda, h.opened, h.txRev, h.fuelHint, hp, h.preR, ?_⟩
  rcases h.stream with hm | ⟨eB, eR, j, cs, h1, h2⟩
  · exact Or.inl hm
  · exact Or.inr ⟨he eB, eR, j, cs, h1, h2⟩

theorem cut_rxR {c : Cfg} {hf ht : Host} (bf bt : List Bytes) (a b : Nat) (h : Cut c hf ht) (hp : bt <+: bf)
    (he : ht.rxR = hf.rxR → bt = bf) : Cut c { hf with rxR := bf, reads := a } { ht with rxR := bt, reads := b } := by
  refine ⟨h.cfgf, h.cfgt, h.status, h.mps, h.eda, h.opened, h.txRev, h.fuelHint, h.preB, hp, ?_⟩
  rcases h.stream with hm | ⟨eB, eR, j, cs, h1, h2⟩
  · exact Or.inl hm
  · exact Or.inr ⟨eB, he eR, j, cs, h1, h2⟩

theorem devRead_nil (n : Nat) (h : Host) (hb : h.rxB = []) : devRead n h = (.error .timeout, bump h) := by
  unfold devRead bump
  simp [hb]

theorem devRead_zero (h : Host) : devRead 0 h = (.error .timeout, bump h) := by
  unfold devRead bump
  simp

theorem devRead_ok (n : Nat) (h : Host) (hn : n ≠ 0) (hle : n ≤ h.rxB.length) :
    devRead n h = (.ok (h.rxB.take n), { h with reads := h.reads + 1, rxB := h.rxB.drop n }) := by
  unfold devRead
  have : h.rxB.isEmpty = false := by
    cases hb : h.rxB with
    | nil => rw [hb] at hle; simp at hle; exact absurd hle hn
    | cons _ _ => rfl
  simp only [hn, this, false_or, Bool.false_eq_true, if_false, hle, if_true]

theorem devRead_short (n : Nat) (h : Host) (hne : h.rxB ≠ []) (hlt : h.rxB.length < n) (hs : h.cfg.partialReads = false) :
    devRead n h = (.error .timeout, { h with reads := h.reads + 1, rxB := [] }) := by
  unfold devRead
  have : h.rxB.isEmpty = false := by
    cases hb : h.rxB with
    | nil => exact absurd hb hne
    | cons _ _ => rfl
  have hn : n ≠ 0 := by omega
  have hle : ¬ n ≤ h.rxB.length := by omega
  simp only [hn, this, false_or, Bool.false_eq_true, if_false, hle, hs]

theorem cut_bump {c : Cfg} {hf ht : Host} (h : Cut c hf ht) : Cut c (bump hf) (bump ht) :=
  ⟨h.cfgf, h.cfgt, h.status, h.mps, h.eda, h.opened, h.txRev, h.fuelHint, h.preB, h.preR, h.stream⟩

theorem dead_bump {c : Cfg} {h : Host} (hd : Dead c h) : Dead c (bump h) := ⟨hd.cfg, hd.peer, hd.rxB, hd.rxR⟩

theorem prefix_eq_of_length {α} {a b : List α} (hp : a <+: b) (hl : b.length ≤ a.length) : a = b := by
  obtain ⟨s, rfl⟩ := hp
  have : s = [] := List.length_eq_zero_iff.mp (by simp only [List.length_append] at hl; omega)
  simp [this]

theorem G_devRead {c : Cfg} (htr : c.tr = .serial) (hstrict : c.partialReads = false) (n : Nat) :
    G c (devRead n) (QE c) := by
  refine ⟨fun h hd => ?_, fun hf ht hc => ?_⟩
  · rw [devRead_nil n h (hd.rxB htr)]
    exact ⟨dead_bump hd, fun _ h => by cases h⟩
  · have hpf : hf.cfg.partialReads = false := by rw [hc.cfgf]; exact hstrict
    have hpt : ht.cfg.partialReads = false := by rw [hc.cfgt]; exact hstrict
    have hno : ¬ c.tr = .hid := by rw [htr]; intro h; cases h
    by_cases hn : n = 0
    · subst hn
      rw [devRead_zero, devRead_zero]
      exact Or.inl ⟨rfl, cut_bump hc⟩
    · by_cases hbt : ht.rxB = []
      · rw [devRead_nil n ht hbt]
        rcases hc.stream with hm | ⟨eB, _⟩
        · exact Or.inr ⟨⟨hc.cfgt, hm, fun _ => hbt, fun x => absurd x hno⟩, fun _ h => by cases h⟩
        · rw [devRead_nil n hf (by rw [← eB]; exact hbt)]
          exact Or.inl ⟨rfl, cut_bump hc⟩
      · by_cases hle : n ≤ ht.rxB.length
        · have hle2 : n ≤ hf.rxB.length := Nat.le_trans hle hc.preB.length_le
          rw [devRead_ok n ht hn hle, devRead_ok n hf hn hle2]
          obtain ⟨s, hs⟩ := hc.preB
          left
          refine ⟨?_, ?_⟩
          · simp only [← hs, List.take_append_of_le_length hle]
          · refine cut_rxB _ _ _ _ hc ?_ (fun e => by rw [e])
            rw [← hs, List.drop_append_of_le_length hle]
            exact List.prefix_append _ _
        · rw [devRead_short n ht hbt (by omega) hpt]
          rcases hc.stream with hm | ⟨eB, _⟩
          · exact Or.inr ⟨⟨hc.cfgt, hm, fun _ => rfl, fun x => absurd x hno⟩, fun _ h => by cases h⟩
          · rw [devRead_short n hf (by rw [← eB]; exact hbt) (by rw [← eB]; omega) hpf]
            exact Or.inl ⟨rfl, cut_rxB _ _ _ _ hc (List.prefix_refl _) (fun _ => rfl)⟩

theorem hidDevRead_nil (h : Host) (hb : h.rxR = []) : hidDevRead h = (.error .timeout, bump h) := by
  unfold hidDevRead bump
  simp [hb]

theorem hidDevRead_cons (h : Host) (x : Bytes) (r : List Bytes) (hb : h.rxR = x :: r) :
    hidDevRead h = (if x.isEmpty then .error .timeout else .ok x, { h with reads := h.reads + 1, rxR := r }) := by
  unfold hidDevRead
  simp only [hb]
  split <;> rfl

theorem G_hidDevRead {c : Cfg} (htr : c.tr = .hid) : G c hidDevRead (QE c) := by
  have hno : ¬ c.tr = .serial := by rw [htr]; intro h; cases h
  refine ⟨fun h hd => ?_, fun hf ht hc => ?_⟩
  · rw [hidDevRead_nil h (hd.rxR htr)]
    exact ⟨dead_bump hd, fun _ h => by cases h⟩
  · cases hbt : ht.rxR with
    | nil =>
      rw [hidDevRead_nil ht hbt]
      rcases hc.stream with hm | ⟨_, eR, _⟩
      · exact Or.inr ⟨⟨hc.cfgt, hm, fun x => absurd x hno, fun _ => hbt⟩, fun _ h => by cases h⟩
      · rw [hidDevRead_nil hf (by rw [← eR]; exact hbt)]
        exact Or.inl ⟨rfl, cut_bump hc⟩
    | cons x r =>
      obtain ⟨s, hs⟩ := hc.preR
      rw [hbt] at hs
      rw [hidDevRead_cons ht x r hbt, hidDevRead_cons hf x (r ++ s) (by rw [← hs]; rfl)]
      refine Or.inl ⟨rfl, cut_rxR _ _ _ _ hc (List.prefix_append _ _) ?_⟩
      intro e
      rw [hbt, ← hs] at e
      have : s = [] := by
        have := congrArg List.length e
        simp only [List.length_cons, List.length_append] at this
        exact List.length_eq_zero_iff.mp (by omega)
      simp [this]

/-! ### more rules -/

theorem LS_ite {c : Cfg} {α} {p : Prop} [Decidable p] {A B : H α} {Q : Except HErr α → Host → Prop}
    (hA : LS c A Q) (hB : LS c B Q) : LS c (if p then A else B) Q := by
  split
  · exact hA
  · exact hB

theorem G_ite {c : Cfg} {α} {p : Prop} [Decidable p] {A B : H α} {Q : Except HErr α → Host → Prop}
    (hA : G c A Q) (hB : G c B Q) : G c (if p then A else B) Q := by
  split
  · exact hA
  · exact hB

theorem LS_bindE {c : Cfg} {α β} {m : H α} {f : α → H β} {Q : Except HErr β → Host → Prop}
    (hm : LS c m (QE c)) (hf : ∀ a, LS c (f a) Q) (he : ErrOK c Q) : LS c (m >>= f) Q :=
  LS_bind hm hf he (fun _ _ _ hF => hF.elim)

theorem G_bindE {c : Cfg} {α β} {m : H α} {f : α → H β} {Q : Except HErr β → Host → Prop}
    (hm : G c m (QE c)) (hf : ∀ a, LS c (f a) Q) (he : ErrOK c Q) : G c (m >>= f) Q :=
  G_bind hm hf he (fun _ _ _ hF => hF.elim)

theorem LS_modify {c : Cfg} {g : Host → Host} (Q : Except HErr Unit → Host → Prop)
    (hc : ∀ hf ht, Cut c hf ht → Cut c (g hf) (g ht)) : LS c (modify g) Q :=
  fun hf ht h => Or.inl ⟨rfl, hc hf ht h⟩

theorem LS_devWrite {c : Cfg} (w : Bytes) (Q : Except HErr Unit → Host → Prop) : LS c (devWrite w) Q :=
  LS_modify Q (fun _ _ h => cut_write w h)

theorem LS_setStatus {c : Cfg} (st : Nat) (Q : Except HErr Unit → Host → Prop) : LS c (setStatus st) Q :=
  LS_modify Q (fun _ _ h => cut_status st h)

theorem LS_get {c : Cfg} {α} {f : Host → H α} {Q : Except HErr α → Host → Prop}
    (hfeq : ∀ hf ht, Cut c hf ht → f ht = f hf) (hf : ∀ h0, h0.cfg = c → LS c (f h0) Q) : LS c (get >>= f) Q := by
  intro hf' ht' hc
  simp only [bind_run, get_run]
  rw [hfeq hf' ht' hc]
  exact hf hf' hc.cfgf hf' ht' hc

theorem devRead_len (n : Nat) (h h' : Host) (b : Bytes) (hs : h.cfg.partialReads = false)
    (hr : devRead n h = (.ok b, h')) : h'.rxB.length < h.rxB.length := by
  by_cases hn : n = 0
  · subst hn; rw [devRead_zero] at hr; cases hr
  · by_cases hb : h.rxB = []
    · rw [devRead_nil n h hb] at hr; cases hr
    · have hpos : 0 < h.rxB.length := List.length_pos_iff.mpr hb
      by_cases hle : n ≤ h.rxB.length
      · rw [devRead_ok n h hn hle] at hr
        simp only [Prod.mk.injEq, Except.ok.injEq] at hr
        obtain ⟨_, rfl⟩ := hr
        simp only [List.length_drop]
        omega
      · rw [devRead_short n h hb (by omega) hs] at hr; cases hr

/-! ### the serial link -/

section serial
variable {c : Cfg} (htr : c.tr = .serial) (hstrict : c.partialReads = false)
include htr hstrict

theorem HT_waitGo (f : Nat) : HT (Dead c) (waitGo f) (QE c) := by
  cases f with
  | zero => exact fun h hd => ⟨hd, fun _ e => by cases e⟩
  | succ f =>
    unfold waitGo
    exact HT_bind (G_devRead htr hstrict 1).1 (QD_err _) (fun _ _ _ hF => hF.elim)

theorem LS_waitGo : ∀ (ft ff : Nat) (hf ht : Host), Cut c hf ht → ht.rxB.length < ft → hf.rxB.length < ff →
    Res c (QE c) (waitGo ff hf) (waitGo ft ht) := by
  intro ft
  induction ft with
  | zero => intro ff hf ht _ h; omega
  | succ ft ih =>
    intro ff hf ht hc h1 h2
    cases ff with
    | zero => omega
    | succ ff =>
      simp only [waitGo, bind_run]
      have hr := (G_devRead htr hstrict 1).2 hf ht hc
      rcases hdf : devRead 1 hf with ⟨rf, sf⟩
      rcases hdt : devRead 1 ht with ⟨rt, st⟩
      rw [hdf, hdt] at hr
      rcases hr with ⟨e, hc'⟩ | ⟨hd, hS⟩
      · simp only at e hc'
        subst e
        cases rt with
        | error e => exact Or.inl ⟨rfl, hc'⟩
        | ok b =>
          have l1 := devRead_len 1 _ _ _ (by rw [hc.cfgf]; exact hstrict) hdf
          have l2 := devRead_len 1 _ _ _ (by rw [hc.cfgt]; exact hstrict) hdt
          simp only
          by_cases hv : fromLe b = 0
          · rw [if_pos hv, if_pos hv]
            exact ih ff sf st hc' (by omega) (by omega)
          · rw [if_neg hv, if_neg hv]
            exact Or.inl ⟨rfl, hc'⟩
      · simp only at hd hS
        cases rt with
        | error e => exact Or.inr ⟨hd, fun _ e => by cases e⟩
        | ok b => exact (hS b rfl).elim

theorem G_waitForData : G c waitForData (QE c) :=
  ⟨fun h hd => HT_waitGo htr hstrict _ h hd,
   fun hf ht hc => LS_waitGo htr hstrict _ _ hf ht hc (Nat.lt_succ_self _) (Nat.lt_succ_self _)⟩

theorem G_readFrameHeader (e : Option Nat) : G c (readFrameHeader e) (QE c) := by
  unfold readFrameHeader
  refine G_bindE (G_waitForData htr hstrict) (fun header => ?_) (QD_err _)
  refine LS_ite (LS_fail _ _) ?_
  dsimp only
  refine LS_ite ?_ ?_ <;> refine LS_bindE ?_ (fun ftype => ?_) (QD_err _)
  any_goals
    (refine LS_ite (LS_fail _ _) ?_
     cases e with
     | none => exact LS_pure _ _
     | some e => exact LS_ite (LS_fail _ _) (LS_pure _ _))
  · exact LS_pure _ _
  · exact LS_bindE (G_devRead htr hstrict 1).2 (fun b => LS_pure _ _) (QD_err _)

theorem G_serialRead : G c serialRead (QE c) := by
  unfold serialRead
  refine G_bindE (G_readFrameHeader htr hstrict none) (fun x => ?_) (QD_err _)
  obtain ⟨_, ftype⟩ := x
  refine LS_bindE (G_devRead htr hstrict 2).2 (fun lenB => ?_) (QD_err _)
  refine LS_bindE (G_devRead htr hstrict 2).2 (fun crcB => ?_) (QD_err _)
  refine LS_ite (LS_bindE (LS_devWrite _ _) (fun _ => LS_fail _ _) (QD_err _)) ?_
  refine LS_bindE (G_devRead htr hstrict _).2 (fun data => ?_) (QD_err _)
  refine LS_bindE (LS_devWrite _ _) (fun _ => ?_) (QD_err _)
  refine LS_ite (LS_fail _ _) (LS_ite ?_ (LS_pure _ _))
  cases parseCmdResponse data with
  | ok r => exact LS_pure _ _
  | error e => exact LS_fail _ _

theorem G_serialSendFrame (t : Nat) (data : Bytes) : G c (serialSendFrame t data) (QE c) := by
  unfold serialSendFrame
  refine G_ite (G_fail _ (QD_err _)) ?_
  exact G_bindG (G_devWrite _) (fun _ => G_bindE (G_readFrameHeader htr hstrict _) (fun _ => LS_pure _ _) (QD_err _)) (QD_err _)

end serial

/-! ### the HID link -/

theorem G_dite {c : Cfg} {α} {p : Prop} [Decidable p] {A B : H α} {Q : Except HErr α → Host → Prop}
    (hA : p → G c A Q) (hB : ¬ p → G c B Q) : G c (if p then A else B) Q := by
  split
  · exact hA ‹_›
  · exact hB ‹_›

theorem G_toQT {c : Cfg} {α} {m : H α} {S : α → Host → Prop} (hm : G c m (QD c S)) : G c m (QT c) :=
  G_mono hm (fun _ _ hq => QD_mono (fun _ _ _ _ => trivial) hq)

theorem G_ofQE {c : Cfg} {α} {m : H α} (S : α → Host → Prop) (hm : G c m (QE c)) : G c m (QD c S) :=
  G_mono hm (fun _ _ hq => QD_mono (fun _ _ _ hF => hF.elim) hq)

section hid
variable {c : Cfg} (htr : c.tr = .hid)
include htr

theorem G_hidRead : G c hidRead (QE c) := by
  unfold hidRead
  exact G_bindE (G_hidDevRead htr) (fun raw => LS_lift _ _) (QD_err _)

omit htr in
theorem G_hidWriteReport (rid : Nat) (data : Bytes) : G c (hidWriteReport rid data) (QT c) := by
  unfold hidWriteReport
  exact G_ite (G_fail _ (QD_err _)) (G_devWrite _)

theorem G_hidWriteData (a : Bool) (data : Bytes) : G c (hidWriteData a data) (QT c) := by
  unfold hidWriteData
  refine G_ite (G_fail _ (QD_err _)) ?_
  cases a with
  | false => exact G_devWrite _
  | true =>
    simp only [if_true]
    have h1 : G c (catch_ (do let r ← hidDevRead; pure (some r)) (fun e => if e = .timeout then pure none else fail e))
        (QD c (fun got _ => got = none)) := by
      refine G_catch (S := fun _ _ => False) (G_bindE (G_hidDevRead htr) (fun r => LS_pure _ _) (QD_err _)) (fun e => ?_)
        (fun _ _ _ hF => hF.elim)
      exact G_ite (G_pure _ (fun h hd => ⟨hd, fun a e => by cases e; rfl⟩)) (G_fail _ (QD_err _))
    refine G_bind h1 (fun got => ?_) (QD_err _) ?_
    · cases got with
      | none => exact LS_devWrite _ _
      | some _ => exact LS_fail _ _
    · intro got h hd hg
      subst hg
      exact (G_devWrite (c := c) _).1 h hd

end hid

/-! ### the protocol interface -/

section proto
variable {c : Cfg} (hstrict : c.tr = .serial → c.partialReads = false)
include hstrict

theorem G_readAny : G c readAny (QE c) := by
  unfold readAny
  refine G_getG (fun hf ht hc => by simp only [hc.cfgf, hc.cfgt]) (fun h0 e => ?_)
  rw [e]
  cases htr : c.tr with
  | serial => exact G_serialRead htr (hstrict htr)
  | hid => exact G_hidRead htr

/-- a value is returned on a dead link only over HID (nothing is read back there) -/
theorem G_writeCommand (p : CmdPkt) : G c (writeCommand p) (QT c) := by
  unfold writeCommand
  refine G_bindG (S := fun _ _ => True) (G_lift _ (fun h hd => ⟨hd, fun _ _ => trivial⟩)) (fun data => ?_) (QD_err _)
  refine G_getG (fun hf ht hc => by simp only [hc.cfgf, hc.cfgt]) (fun h0 e => ?_)
  rw [e]
  cases htr : c.tr with
  | serial => exact G_toQT (G_serialSendFrame htr (hstrict htr) _ _)
  | hid => exact G_hidWriteReport _ _

theorem G_writeData (a : Bool) (data : Bytes) : G c (writeData a data) (QD c (fun _ _ => c.tr ≠ .serial)) := by
  unfold writeData
  refine G_getG (fun hf ht hc => by simp only [hc.cfgf, hc.cfgt]) (fun h0 e => ?_)
  rw [e]
  cases htr : c.tr with
  | serial => exact G_ofQE _ (G_serialSendFrame htr (hstrict htr) _ _)
  | hid => exact G_mono (G_hidWriteData htr a data) (fun _ _ hq => QD_mono (fun _ _ _ _ => by intro h; cases h) hq)

omit hstrict in
theorem LS_requireOpen (Q : Except HErr Unit → Host → Prop) : LS c requireOpen Q := by
  unfold requireOpen
  exact LS_get (fun hf ht hc => by simp only [hc.opened]) (fun h0 _ => LS_ite (LS_pure _ _) (LS_fail _ _))

omit hstrict in
theorem G_requireOpen : G c requireOpen (QT c) := by
  refine ⟨fun h hd => ?_, LS_requireOpen _⟩
  unfold requireOpen
  simp only [bind_run, get_run]
  split
  · exact ⟨hd, fun _ _ => trivial⟩
  · exact ⟨hd, fun _ _ => trivial⟩

/-- `_process_cmd` on a link that went dead: an exception, or the NO_RESPONSE pseudo response -/
def Spc : Resp → Host → Prop := fun x h => x.status = Spec.stNoResponse ∧ h.status = Spec.stNoResponse

theorem G_processCmd (p : CmdPkt) : G c (processCmd p) (QD c Spc) := by
  unfold processCmd
  refine G_bindG (G_requireOpen) (fun _ => ?_) (QD_err _)
  have h1 : G c (catch_ (do writeCommand p; readAny)
      (fun e => if e = .timeout then do setStatus Spec.stNoResponse; pure (.resp (noResponse p.tag)) else fail e))
      (QD c (fun x h => ∃ r, x = .resp r ∧ Spc r h)) := by
    refine G_catch (S := fun _ _ => False) (G_bindG (G_writeCommand hstrict p) (fun _ => G_readAny hstrict) (QD_err _))
      (fun e => ?_) (fun _ _ _ hF => hF.elim)
    refine G_ite (G_bind (G_setStatus _) (fun _ => LS_pure _ _) (QD_err _) ?_) (G_fail _ (QD_err _))
    intro _ h hd hs
    exact ⟨hd, fun a e => by cases e; exact ⟨_, rfl, rfl, hs⟩⟩
  refine G_bind h1 (fun x => ?_) (QD_err _) ?_
  · cases x with
    | data _ => exact LS_fail _ _
    | resp r =>
      refine LS_bindE (LS_setStatus _ _) (fun _ => ?_) (QD_err _)
      exact LS_get (fun hf ht hc => by simp only [hc.cfgf, hc.cfgt]) (fun h0 _ => LS_ite (LS_fail _ _) (LS_pure _ _))
  · rintro x h hd ⟨r, rfl, h1, h2⟩
    simp only [bind_run, setStatus_run, get_run]
    split
    · exact ⟨dead_status _ hd, fun _ e => by cases e⟩
    · exact ⟨dead_status _ hd, fun a e => by cases e; exact ⟨h1, h1⟩⟩

omit hstrict in
theorem Spc_ne {r : Resp} {h : Host} (hs : Spc r h) : ¬ r.status = Spec.stSuccess := by
  rw [hs.1]; decide

theorem G_getProperty (t i : Nat) : G c (getProperty t i) (QD c (fun v _ => v = none)) := by
  unfold getProperty
  refine G_bind (G_processCmd hstrict _) (fun r => ?_) (QD_err _) ?_
  · exact LS_ite (LS_ite (LS_pure _ _) (LS_fail _ _)) (LS_pure _ _)
  · intro r h hd hs
    simp only [Spc_ne hs, if_false, pure_run]
    exact ⟨hd, fun a e => by cases e; rfl⟩

omit hstrict in
theorem cut_mps {c : Cfg} {hf ht : Host} (x : Option Nat) (h : Cut c hf ht) :
    Cut c { hf with mps := x } { ht with mps := x } :=
  ⟨h.cfgf, h.cfgt, h.status, rfl, h.eda, h.opened, h.txRev, h.fuelHint, h.preB, h.preR, h.stream⟩

theorem G_getMaxPacketSize : G c getMaxPacketSize (QT c) := by
  unfold getMaxPacketSize
  refine G_getG (fun hf ht hc => by simp only [hc.mps]) (fun h0 _ => ?_)
  cases h0.mps with
  | some v => exact G_pure _ (fun h hd => ⟨hd, fun _ _ => trivial⟩)
  | none =>
    simp only
    refine G_bindG (S := fun _ _ => True) ?_ (fun v => ?_) (QD_err _)
    · refine G_catch (G_getProperty hstrict _ _) (fun e => ?_) (fun a h hd _ => ⟨hd, fun _ _ => trivial⟩)
      exact G_ite (G_pure _ (fun h hd => ⟨hd, fun _ _ => trivial⟩)) (G_fail _ (QD_err _))
    · split
      · exact G_fail _ (QD_err _)
      · refine G_bindG (S := fun _ _ => True) (G_modify (fun _ _ h => cut_mps _ h) ?_) (fun _ => ?_) (QD_err _)
        · exact fun h hd => ⟨⟨hd.cfg, hd.peer, hd.rxB, hd.rxR⟩, fun _ _ => trivial⟩
        · exact G_pure _ (fun h hd => ⟨hd, fun _ _ => trivial⟩)

theorem G_splitData (data : Bytes) : G c (splitData data) (QD c (fun chunks _ => data ≠ [] → chunks ≠ [])) := by
  unfold splitData
  refine G_bindG (G_getMaxPacketSize hstrict) (fun n => ?_) (QD_err _)
  refine G_dite (fun _ => G_fail _ (QD_err _)) (fun hn => G_pure _ (fun h hd => ⟨hd, fun a e hd' => ?_⟩))
  cases e
  rw [split_cons n (by omega) data hd']
  simp

end proto

/-! ### data phases -/

theorem HT_bind0 {α β} {P : Host → Prop} {m : H α} {f : α → H β} {Q₁ : Except HErr α → Host → Prop}
    {Q : Except HErr β → Host → Prop}
    (hm : HT P m Q₁) (he : ∀ e h, Q₁ (.error e) h → Q (.error e) h)
    (hk : ∀ a h, Q₁ (.ok a) h → Q (f a h).1 (f a h).2) : HT P (m >>= f) Q := by
  intro h hp
  have := hm h hp
  simp only [bind_run]
  rcases hmh : m h with ⟨r, h'⟩
  rw [hmh] at this
  cases r with
  | error e => exact he e h' this
  | ok a => exact hk a h' this

theorem LS_bind0 {c : Cfg} {α β} {m : H α} {f : α → H β} {Q₁ : Except HErr α → Host → Prop}
    {Q : Except HErr β → Host → Prop}
    (hm : LS c m Q₁) (hf : ∀ a, LS c (f a) Q) (he : ∀ e h, Q₁ (.error e) h → Q (.error e) h)
    (hk : ∀ a h, Q₁ (.ok a) h → Q (f a h).1 (f a h).2) : LS c (m >>= f) Q := by
  intro hf' ht' hc
  have := hm hf' ht' hc
  simp only [bind_run]
  rcases hmf : m hf' with ⟨rf, sf⟩
  rcases hmt : m ht' with ⟨rt, st⟩
  rw [hmf, hmt] at this
  rcases this with ⟨e, hc'⟩ | hq
  · simp only at e hc'
    subst e
    cases rt with
    | error e => exact Or.inl ⟨rfl, hc'⟩
    | ok a => exact hf a sf st hc'
  · simp only at hq
    cases rt with
    | error e => exact Or.inr (he e st hq)
    | ok a => exact Or.inr (hk a st hq)

/-- failure class of the read side: an exception, or a status that is not SUCCESS -/
def QS {α} : Except HErr α → Host → Prop := fun r h => (∃ e, r = .error e) ∨ h.status ≠ Spec.stSuccess

theorem QS_err {α} (e : HErr) (h : Host) : QS (.error e : Except HErr α) h := Or.inl ⟨e, rfl⟩

/-- the loop fuel ran out on the cut side (it starts with less), or the standard class -/
def QF (c : Cfg) {α} (S : α → Host → Prop) : Except HErr α → Host → Prop :=
  fun r h => r = .error .fuel ∨ QD c S r h

/-- one round of the `_read_data` loop -/
def rdStep : H (Option RxItem) :=
  catch_ (do let x ← readAny; pure (some x))
    (fun e =>
      if e = .abort then (do let x ← readAny; pure (some x))
      else if e = .timeout then (do setStatus Spec.stNoResponse; pure none)
      else fail e)

theorem readDataLoop_succ (tag f : Nat) (acc : Bytes) :
    readDataLoop tag (f + 1) acc = (rdStep >>= fun r =>
      match r with
      | none => pure acc
      | some (.data b) => readDataLoop tag f (acc ++ b)
      | some (.resp r) =>
        if r.kind = .generic then do
          setStatus r.status
          if r.cmdTag = tag then pure acc else readDataLoop tag f acc
        else readDataLoop tag f acc) := rfl

/-- the tail of `_read_data` after the loop -/
def rdTail (length : Nat) (data : Bytes) : H Bytes := do
  let h ← get
  if data.length < length ∨ h.status ≠ Spec.stSuccess then do
    if h.status = Spec.stSuccess then setStatus Spec.stFail
    let h ← get
    if h.cfg.cmdExc then fail (.cmd h.status) else pure (data.take length)
  else pure (data.take length)

theorem readData_eq (tag length : Nat) :
    readData tag length = (requireOpen >>= fun _ => get >>= fun h =>
      readDataLoop tag (length + h.fuelHint + h.rxB.length + h.rxR.length + 8) [] >>= rdTail length) := rfl

section data
variable {c : Cfg} (hstrict : c.tr = .serial → c.partialReads = false)
include hstrict

def Snr : Option RxItem → Host → Prop := fun r h => r = none ∧ h.status = Spec.stNoResponse

theorem G_rdStep : G c rdStep (QD c Snr) := by
  unfold rdStep
  have hr : G c (do let x ← readAny; pure (some x)) (QE c) :=
    G_bindE (G_readAny hstrict) (fun _ => LS_pure _ _) (QD_err _)
  refine G_catch hr (fun e => ?_) (fun _ _ _ hF => hF.elim)
  refine G_ite (G_ofQE _ hr) (G_ite ?_ (G_fail _ (QD_err _)))
  refine G_bind (G_setStatus _) (fun _ => LS_pure _ _) (QD_err _) ?_
  intro _ h hd hs
  exact ⟨hd, fun a e => by cases e; exact ⟨rfl, hs⟩⟩

theorem HT_readDataLoop (tag f : Nat) (acc : Bytes) :
    HT (Dead c) (readDataLoop tag f acc) (QF c (fun _ h => h.status = Spec.stNoResponse)) := by
  cases f with
  | zero => exact fun h _ => Or.inl rfl
  | succ f =>
    rw [readDataLoop_succ]
    refine HT_bind (G_rdStep hstrict).1 (fun e h hd => Or.inr (QD_err _ e h hd)) ?_
    rintro r h hd ⟨rfl, hs⟩
    exact Or.inr ⟨hd, fun _ _ => hs⟩

theorem LS_readDataLoop (tag : Nat) : ∀ (ft ff : Nat) (acc : Bytes) (hf ht : Host), Cut c hf ht → ft ≤ ff →
    Res c (QF c (fun _ h => h.status = Spec.stNoResponse)) (readDataLoop tag ff acc hf) (readDataLoop tag ft acc ht) := by
  intro ft
  induction ft with
  | zero => intro ff acc hf ht _ _; exact Or.inr (Or.inl rfl)
  | succ ft ih =>
    intro ff acc hf ht hc hle
    cases ff with
    | zero => omega
    | succ ff =>
      have hle' : ft ≤ ff := by omega
      rw [readDataLoop_succ, readDataLoop_succ]
      simp only [bind_run]
      have hr := (G_rdStep hstrict).2 hf ht hc
      rcases hdf : rdStep hf with ⟨rf, sf⟩
      rcases hdt : rdStep ht with ⟨rt, st⟩
      rw [hdf, hdt] at hr
      rcases hr with ⟨e, hc'⟩ | ⟨hd, hS⟩
      · simp only at e hc'
        subst e
        cases rt with
        | error e => exact Or.inl ⟨rfl, hc'⟩
        | ok r =>
          cases r with
          | none => exact Or.inl ⟨rfl, hc'⟩
          | some it =>
            cases it with
            | data b => exact ih ff _ sf st hc' hle'
            | resp r =>
              simp only
              by_cases hk : r.kind = .generic
              · simp only [hk, if_true, bind_run, setStatus_run]
                by_cases ht' : r.cmdTag = tag
                · simp only [ht', if_true]
                  exact Or.inl ⟨rfl, cut_status _ hc'⟩
                · simp only [ht', if_false]
                  exact ih ff _ _ _ (cut_status _ hc') hle'
              · simp only [hk, if_false]
                exact ih ff _ sf st hc' hle'
      · simp only at hd hS
        cases rt with
        | error e => exact Or.inr (Or.inr ⟨hd, fun _ e => by cases e⟩)
        | ok r =>
          obtain ⟨rfl, hs⟩ := hS r rfl
          exact Or.inr (Or.inr ⟨hd, fun _ _ => hs⟩)

omit hstrict in
theorem LS_rdTail (length : Nat) (data : Bytes) (Q : Except HErr Bytes → Host → Prop) (he : ErrOK c Q) :
    LS c (rdTail length data) Q := by
  unfold rdTail
  refine LS_get (fun hf ht hc => by simp only [hc.status]) (fun h0 _ => ?_)
  refine LS_ite ?_ (LS_pure _ _)
  have hj : LS c (do
      let h ← H.get
      if h.cfg.cmdExc = true then fail (HErr.cmd h.status) else pure (List.take length data)) Q :=
    LS_get (fun hf ht hc => by simp only [hc.cfgf, hc.cfgt, hc.status]) (fun h1 _ => LS_ite (LS_fail _ _) (LS_pure _ _))
  dsimp only
  exact LS_ite (LS_bindE (LS_setStatus _ _) (fun _ => hj) he) hj

omit hstrict in
theorem rdTail_bad (length : Nat) (data : Bytes) (h : Host) (hs : h.status = Spec.stNoResponse) :
    QS (rdTail length data h).1 (rdTail length data h).2 := by
  have h1 : h.status ≠ Spec.stSuccess := by rw [hs]; decide
  unfold rdTail
  simp only [bind_run, get_run, h1, ne_eq, not_false_eq_true, or_true, if_true, if_false]
  split
  · exact QS_err _ _
  · exact Or.inr h1

omit hstrict in
theorem QF_tail (length : Nat) (r : Except HErr Bytes) (h : Host)
    (hq : QF c (fun _ h => h.status = Spec.stNoResponse) r h) :
    (∃ e, r = .error e) ∨ (∃ a, r = .ok a ∧ QS (rdTail length a h).1 (rdTail length a h).2) := by
  cases r with
  | error e => exact Or.inl ⟨e, rfl⟩
  | ok a =>
    rcases hq with hq | ⟨_, hS⟩
    · cases hq
    · exact Or.inr ⟨a, rfl, rdTail_bad length a h (hS a rfl)⟩

theorem HT_readData (tag length : Nat) : HT (Dead c) (readData tag length) QS := by
  intro h hd
  rw [readData_eq]
  simp only [bind_run, requireOpen, get_run]
  by_cases ho : h.opened = true
  · simp only [ho, if_true, pure_run]
    have := HT_readDataLoop hstrict tag (length + h.fuelHint + h.rxB.length + h.rxR.length + 8) [] h hd
    rcases hl : readDataLoop tag (length + h.fuelHint + h.rxB.length + h.rxR.length + 8) [] h with ⟨r, h'⟩
    rw [hl] at this
    rcases QF_tail length r h' this with ⟨e, rfl⟩ | ⟨a, rfl, hq⟩
    · exact QS_err _ _
    · exact hq
  · simp only [ho, Bool.false_eq_true, if_false, fail_run]
    exact QS_err _ _

theorem LS_readData (tag length : Nat) : LS c (readData tag length) QS := by
  intro hf ht hc
  rw [readData_eq]
  simp only [bind_run, requireOpen, get_run, hc.opened]
  by_cases ho : hf.opened = true
  · simp only [ho, if_true, pure_run]
    have hle : length + ht.fuelHint + ht.rxB.length + ht.rxR.length + 8 ≤
        length + hf.fuelHint + hf.rxB.length + hf.rxR.length + 8 := by
      have := hc.preB.length_le
      have := hc.preR.length_le
      rw [hc.fuelHint]
      omega
    have hr := LS_readDataLoop hstrict tag _ _ [] hf ht hc hle
    rcases hlf : readDataLoop tag (length + hf.fuelHint + hf.rxB.length + hf.rxR.length + 8) [] hf with ⟨rf, sf⟩
    rcases hlt : readDataLoop tag (length + ht.fuelHint + ht.rxB.length + ht.rxR.length + 8) [] ht with ⟨rt, st⟩
    rw [hlf, hlt] at hr
    rcases hr with ⟨e, hc'⟩ | hq
    · simp only at e hc'
      subst e
      cases rt with
      | error e => exact Or.inl ⟨rfl, hc'⟩
      | ok a => exact LS_rdTail length a QS (fun e h _ => QS_err e h) sf st hc'
    · simp only at hq
      rcases QF_tail length rt st hq with ⟨e, rfl⟩ | ⟨a, rfl, hq'⟩
      · exact Or.inr (QS_err _ _)
      · exact Or.inr hq'
  · simp only [ho, Bool.false_eq_true, if_false, fail_run]
    exact Or.inl ⟨rfl, hc⟩

theorem LS_readChunks (a m pl rem packets : Nat) : ∀ (k : Nat) (acc : Bytes),
    LS c (readChunks a m pl rem packets k acc) QS := by
  intro k
  induction k with
  | zero => intro acc; exact LS_pure _ _
  | succ k ih =>
    intro acc
    unfold readChunks
    dsimp only
    refine LS_bind (G_processCmd hstrict _).2 (fun r => ?_) (fun e h _ => QS_err e h) ?_
    · refine LS_ite ?_ (LS_pure _ _)
      refine LS_bind0 (LS_readData hstrict _ _) (fun d => ?_) (fun e h _ => QS_err e h) ?_
      · exact LS_get (fun hf ht hc => by simp only [hc.status]) (fun h0 _ => LS_ite (LS_pure _ _) (ih _))
      · intro d h hq
        rcases hq with ⟨e, he⟩ | hq
        · cases he
        · simp only [bind_run, get_run, hq, ne_eq, not_false_eq_true, if_true, pure_run]
          exact Or.inr hq
    · intro r h hd hs
      simp only [Spc_ne hs, if_false, pure_run]
      exact Or.inr (by rw [hs.2]; decide)

theorem HT_readChunks (a m pl rem packets k : Nat) (acc : Bytes) :
    HT (Dead c) (readChunks a m pl rem packets (k + 1) acc) QS := by
  unfold readChunks
  dsimp only
  refine HT_bind (G_processCmd hstrict _).1 (fun e h _ => QS_err e h) ?_
  intro r h hd hs
  simp only [Spc_ne hs, if_false, pure_run]
  exact Or.inr (by rw [hs.2]; decide)

/-- over the serial link every data packet waits for its ACK: a dead link is always noticed -/
def Ssc : Nat × Option HErr → Host → Prop := fun p _ => p.2 ≠ none

theorem HT_sendChunks (a : Bool) : ∀ (cs : List Bytes) (s0 : Nat),
    HT (Dead c) (sendChunks a cs s0) (QD c (fun p _ => c.tr = .serial → cs ≠ [] → p.2 ≠ none)) := by
  intro cs
  induction cs with
  | nil => intro s0 h hd; exact ⟨hd, fun _ _ _ hne => absurd rfl hne⟩
  | cons x cs ih =>
    intro s0 h hd
    simp only [sendChunks]
    have hw := (G_writeData hstrict a x).1 h hd
    rcases hwd : writeData a x h with ⟨r, h'⟩
    rw [hwd] at hw
    cases r with
    | error e => exact ⟨hw.1, fun p e _ _ => by cases e; simp⟩
    | ok u =>
      have hns := hw.2 u rfl
      have := ih (s0 + x.length) h' hw.1
      exact ⟨this.1, fun p e hs _ => absurd hs hns⟩

theorem LS_sendChunks (a : Bool) : ∀ (cs : List Bytes) (s0 : Nat),
    LS c (sendChunks a cs s0) (QD c (fun p _ => c.tr = .serial → p.2 ≠ none)) := by
  intro cs
  induction cs with
  | nil => intro s0; exact LS_pure _ _
  | cons x cs ih =>
    intro s0 hf ht hc
    simp only [sendChunks]
    have hr := (G_writeData hstrict a x).2 hf ht hc
    rcases hwf : writeData a x hf with ⟨rf, sf⟩
    rcases hwt : writeData a x ht with ⟨rt, st⟩
    rw [hwf, hwt] at hr
    rcases hr with ⟨e, hc'⟩ | ⟨hd, hS⟩
    · simp only at e hc'
      subst e
      cases rt with
      | error e => exact Or.inl ⟨rfl, hc'⟩
      | ok u => exact ih _ sf st hc'
    · simp only at hd hS
      cases rt with
      | error e => exact Or.inr ⟨hd, fun p e _ => by cases e; simp⟩
      | ok u =>
        have hns := hS u rfl
        have := HT_sendChunks hstrict a cs (s0 + x.length) st hd
        exact Or.inr ⟨this.1, fun p e hs => absurd hs hns⟩

theorem G_sendChunks (a : Bool) (cs : List Bytes) (s0 : Nat) : G c (sendChunks a cs s0) (QT c) :=
  ⟨fun h hd => QD_mono (fun _ _ _ _ => trivial) (HT_sendChunks hstrict a cs s0 h hd),
   fun hf ht hc => (LS_sendChunks hstrict a cs s0 hf ht hc).imp id (QD_mono (fun _ _ _ _ => trivial))⟩

theorem G_sendDataHandler (e : HErr) : G c (sendDataHandler e) (QE c) := by
  unfold sendDataHandler
  refine G_ite (G_bindG (G_setStatus _) (fun _ => G_fail _ (QD_err _)) (QD_err _)) ?_
  exact G_ite (G_readAny hstrict) (G_fail _ (QD_err _))

omit hstrict in
theorem cut_eda {c : Cfg} {hf ht : Host} (x : Bool) (h : Cut c hf ht) :
    Cut c { hf with eda := x } { ht with eda := x } :=
  ⟨h.cfgf, h.cfgt, h.status, h.mps, rfl, h.opened, h.txRev, h.fuelHint, h.preB, h.preR, h.stream⟩

theorem G_sendData (chunks : List Bytes) : G c (sendData chunks) (QE c) := by
  unfold sendData
  refine G_bindG G_requireOpen (fun _ => ?_) (QD_err _)
  refine G_getG (fun hf ht hc => by simp only [hc.cfgf, hc.cfgt, hc.eda]) (fun h0 _ => ?_)
  dsimp only
  refine G_bindG (G_sendChunks hstrict _ _ _) (fun p => ?_) (QD_err _)
  obtain ⟨sent, err⟩ := p
  dsimp only
  have hK : ∀ r : RxItem, LS c (match r with
      | .data _ => fail .other
      | .resp r => do
        setStatus r.status
        if r.status ≠ Spec.stSuccess then
          if h0.cfg.cmdExc then fail (.cmd r.status) else pure false
        else pure (sent == (chunks.map List.length).sum) : H Bool) (QE c) := by
    intro r
    cases r with
    | data _ => exact LS_fail _ _
    | resp r =>
      refine LS_bindE (LS_setStatus _ _) (fun _ => ?_) (QD_err _)
      exact LS_ite (LS_ite (LS_fail _ _) (LS_pure _ _)) (LS_pure _ _)
  cases err with
  | none =>
    exact G_bindE (G_catch (G_readAny hstrict) (fun e => G_sendDataHandler hstrict e) (fun _ _ _ hF => hF.elim)) hK (QD_err _)
  | some e => exact G_bindE (G_sendDataHandler hstrict e) hK (QD_err _)

omit hstrict in
theorem noResp_tail (sent total : Nat) (e : HErr) (h : Host) :
    QS ((if e = .timeout then do setStatus Spec.stNoResponse; fail .conn
          else if e.isSpsdk then do setStatus Spec.stSendingOperationConditionError; pure (sent == total)
          else fail e : H Bool) h).1
      ((if e = .timeout then do setStatus Spec.stNoResponse; fail .conn
          else if e.isSpsdk then do setStatus Spec.stSendingOperationConditionError; pure (sent == total)
          else fail e : H Bool) h).2 := by
  split
  · exact QS_err _ _
  · split
    · exact Or.inr (by simp only [bind_run, setStatus_run, pure_run]; decide)
    · exact QS_err _ _

theorem LS_sendDataNoResp (htr : c.tr = .serial) (chunks : List Bytes) : LS c (sendDataNoResp chunks) QS := by
  unfold sendDataNoResp
  refine LS_bindE (LS_requireOpen _) (fun _ => ?_) (fun e h _ => QS_err e h)
  refine LS_get (fun hf ht hc => by simp only [hc.eda]) (fun h0 _ => ?_)
  dsimp only
  refine LS_bind (LS_sendChunks hstrict _ _ _) (fun p => ?_) (fun e h _ => QS_err e h) ?_
  · obtain ⟨sent, err⟩ := p
    dsimp only
    cases err with
    | none => exact LS_pure _ _
    | some e =>
      refine LS_ite (LS_bindE (LS_setStatus _ _) (fun _ => LS_fail _ _) (fun e h _ => QS_err e h)) ?_
      exact LS_ite (LS_bindE (LS_setStatus _ _) (fun _ => LS_pure _ _) (fun e h _ => QS_err e h)) (LS_fail _ _)
  · rintro ⟨sent, err⟩ h hd hs
    cases err with
    | none => exact absurd rfl (hs htr)
    | some e => exact noResp_tail sent _ e h

theorem HT_sendDataNoResp (htr : c.tr = .serial) (chunks : List Bytes) (hne : chunks ≠ []) :
    HT (Dead c) (sendDataNoResp chunks) QS := by
  unfold sendDataNoResp
  refine HT_bind (G_requireOpen).1 (fun e h _ => QS_err e h) ?_
  intro _ h hd _
  simp only [bind_run, get_run]
  have := HT_sendChunks hstrict h.eda chunks 0 h hd
  rcases hsc : sendChunks h.eda chunks 0 h with ⟨r, h'⟩
  rw [hsc] at this
  cases r with
  | error e => exact QS_err _ _
  | ok p =>
    obtain ⟨sent, err⟩ := p
    cases err with
    | none => exact absurd rfl (this.2 (sent, none) rfl htr hne)
    | some e => exact noResp_tail sent _ e h'

end data

/-! ### the operations -/

theorem NS_of_QS {α} (f : α → Val) {r : Except HErr α} {h : Host} (hq : QS r h) : NS (r.map f) h := by
  rcases hq with ⟨e, rfl⟩ | hq
  · exact not_succeeded_error _ _
  · exact not_succeeded_status _ _ hq

section ops
variable {c : Cfg} (hstrict : c.tr = .serial → c.partialReads = false)
include hstrict

theorem G_simpleCmd (tag : Nat) (ps : List Nat) : G c (simpleCmd tag ps) NS := by
  unfold simpleCmd
  refine G_bind (G_processCmd hstrict _) (fun r => LS_pure _ _) NS_err ?_
  intro r h hd hs
  simp only [pure_run, Spc_ne hs, decide_false]
  exact not_succeeded_false _

theorem G_getPropertyOp (t i : Nat) : G c (runOp (.getProperty t i)) NS := by
  simp only [runOp]
  refine G_bind (G_getProperty hstrict t i) (fun v => ?_) NS_err ?_
  · cases v <;> exact LS_pure _ _
  · intro v h hd hv
    subst hv
    exact not_succeeded_none _

/-- `readData …; pure (.bytes d)` -/
theorem LS_readBytes (tag n : Nat) : LS c (do let d ← readData tag n; pure (Val.bytes d)) NS := by
  refine LS_bind0 (LS_readData hstrict tag n) (fun d => LS_pure _ _) (fun e h _ => not_succeeded_error e h) ?_
  intro d h hq
  rcases hq with ⟨e, he⟩ | hq
  · cases he
  · exact not_succeeded_status _ _ hq

theorem G_dataInCmd (tag : Nat) (ps : List Nat) (k : RKind) : G c (dataInCmd tag ps k) NS := by
  unfold dataInCmd
  refine G_bind (G_processCmd hstrict _) (fun r => ?_) NS_err ?_
  · exact LS_ite (LS_ite (LS_readBytes hstrict _ _) (LS_fail _ _)) (LS_pure _ _)
  · intro r h hd hs
    simp only [Spc_ne hs, if_false, pure_run]
    exact not_succeeded_none _

theorem G_readMemory (a n m : Nat) (fast : Bool) (ht : ¬ (c.usb = true ∧ fast = false ∧ n = 0)) :
    G c (readMemory a n m fast) NS := by
  unfold readMemory
  dsimp only
  refine G_getG (fun hf ht hc => by simp only [hc.cfgf, hc.cfgt]) (fun h0 e => ?_)
  rw [e]
  refine G_dite (fun hu => ?_) (fun _ => ?_)
  · refine G_bindG (G_getMaxPacketSize hstrict) (fun payload => ?_) NS_err
    refine G_dite (fun _ => G_fail _ NS_err) (fun hp => ?_)
    have hn : n ≠ 0 := by
      intro e; exact ht ⟨hu.1, by simpa using hu.2, e⟩
    have hpk : n / payload + (if n % payload ≠ 0 then 1 else 0) ≠ 0 := by
      intro e
      have h2 : n % payload = 0 := by
        by_cases hc : n % payload = 0
        · exact hc
        · simp [hc] at e
      have h1 : n / payload = 0 := by
        rw [h2] at e
        have e' : n / payload + 0 = 0 := by simpa using e
        simpa using e'
      have := Nat.div_add_mod n payload
      rw [h1, h2] at this; simp at this; exact hn this.symm
    obtain ⟨k, hk⟩ := Nat.exists_eq_succ_of_ne_zero hpk
    refine ⟨?_, ?_⟩
    · refine HT_bind0 (Q₁ := QS) ?_ (fun e h _ => not_succeeded_error e h) ?_
      · rw [hk]; exact HT_readChunks hstrict _ _ _ _ _ k []
      · intro d h hq
        rcases hq with ⟨e, he⟩ | hq
        · cases he
        · exact not_succeeded_status _ _ hq
    · refine LS_bind0 (LS_readChunks hstrict _ _ _ _ _ _ _) (fun d => LS_pure _ _) (fun e h _ => not_succeeded_error e h) ?_
      intro d h hq
      rcases hq with ⟨e, he⟩ | hq
      · cases he
      · exact not_succeeded_status _ _ hq
  · refine G_bind (G_processCmd hstrict _) (fun r => ?_) NS_err ?_
    · exact LS_ite (LS_ite (LS_readBytes hstrict _ _) (LS_fail _ _)) (LS_pure _ _)
    · intro r h hd hs
      simp only [Spc_ne hs, if_false, pure_run]
      exact not_succeeded_none _

theorem LS_sendBool (chunks : List Bytes) : LS c (do let ok ← sendData chunks; pure (Val.bool ok)) NS :=
  LS_bindE (G_sendData hstrict chunks).2 (fun _ => LS_pure _ _) NS_err

theorem G_dataOutCmd (tag : Nat) (ps : List Nat) (data : Bytes) : G c (dataOutCmd tag ps data) NS := by
  unfold dataOutCmd
  refine G_bindG (G_splitData hstrict data) (fun chunks => ?_) NS_err
  refine G_bind (G_processCmd hstrict _) (fun r => ?_) NS_err ?_
  · exact LS_ite (LS_sendBool hstrict _) (LS_pure _ _)
  · intro r h hd hs
    simp only [Spc_ne hs, if_false, pure_run]
    exact not_succeeded_false _

theorem G_writeMemory (a : Nat) (data : Bytes) (m : Nat) : G c (writeMemory a data m) NS := by
  unfold writeMemory
  refine G_bindG (G_splitData hstrict data) (fun chunks => ?_) NS_err
  dsimp only
  refine G_bind (G_processCmd hstrict _) (fun r => ?_) NS_err ?_
  · exact LS_ite (LS_sendBool hstrict _) (LS_pure _ _)
  · intro r h hd hs
    simp only [Spc_ne hs, if_false, pure_run]
    exact not_succeeded_false _

theorem G_receiveSbFile (data : Bytes) (ce : Bool) : G c (receiveSbFile data ce) NS := by
  unfold receiveSbFile
  refine G_bindG (G_splitData hstrict data) (fun chunks => ?_) NS_err
  refine G_bind (G_processCmd hstrict _) (fun r => ?_) NS_err ?_
  · refine LS_ite ?_ (LS_pure _ _)
    refine LS_bindE (LS_modify _ (fun _ _ h => cut_eda _ h)) (fun _ => ?_) NS_err
    refine LS_bindE (G_sendData hstrict chunks).2 (fun ok => ?_) NS_err
    exact LS_bindE (LS_modify _ (fun _ _ h => cut_eda _ h)) (fun _ => LS_pure _ _) NS_err
  · intro r h hd hs
    simp only [Spc_ne hs, if_false, pure_run]
    exact not_succeeded_false _

theorem G_loadImage (htr : c.tr = .serial) (data : Bytes) (hne : data ≠ []) : G c (loadImage data) NS := by
  unfold loadImage
  refine G_bind (G_splitData hstrict data) (fun chunks => ?_) NS_err ?_
  · refine LS_bindE (LS_setStatus _ _) (fun _ => ?_) NS_err
    refine LS_bind0 (LS_sendDataNoResp hstrict htr chunks) (fun ok => LS_pure _ _) (fun e h _ => not_succeeded_error e h) ?_
    intro d h hq
    rcases hq with ⟨e, he⟩ | hq
    · cases he
    · exact not_succeeded_status _ _ hq
  · intro chunks h hd hs
    have hq := HT_sendDataNoResp hstrict htr chunks (hs hne) _ (dead_status Spec.stSuccess hd)
    simp only [bind_run, setStatus_run]
    rcases hsd : sendDataNoResp chunks { h with status := Spec.stSuccess } with ⟨r, h'⟩
    rw [hsd] at hq
    rcases hq with ⟨e, he⟩ | hq
    · simp only at he; subst he; exact not_succeeded_error _ _
    · cases r with
      | error e => exact not_succeeded_error _ _
      | ok b => exact not_succeeded_status _ _ hq

theorem G_efuseReadOnce (i : Nat) : G c (efuseReadOnce i) (QD c (fun v _ => v = none)) := by
  unfold efuseReadOnce
  refine G_bind (G_processCmd hstrict _) (fun r => ?_) (QD_err _) ?_
  · refine LS_ite (LS_ite ?_ (LS_fail _ _)) (LS_pure _ _)
    split
    · exact LS_pure _ _
    · exact LS_fail _ _
  · intro r h hd hs
    simp only [Spc_ne hs, if_false, pure_run]
    exact ⟨hd, fun a e => by cases e; rfl⟩

theorem G_efuseReadOnceOp (i : Nat) : G c (runOp (.efuseReadOnce i)) NS := by
  simp only [runOp]
  refine G_bind (G_efuseReadOnce hstrict i) (fun v => ?_) NS_err ?_
  · cases v <;> exact LS_pure _ _
  · intro v h hd hv
    subst hv
    exact not_succeeded_none _

theorem G_efuseProgramOnce (i v : Nat) (verify : Bool) : G c (efuseProgramOnce i v verify) NS := by
  unfold efuseProgramOnce
  refine G_bind (G_processCmd hstrict _) (fun r => ?_) NS_err ?_
  · refine LS_ite (LS_pure _ _) (LS_ite ?_ (LS_pure _ _))
    refine LS_bind (G_efuseReadOnce hstrict _).2 (fun rv => ?_) NS_err ?_
    · cases rv with
      | none => exact LS_pure _ _
      | some x => exact LS_ite (LS_pure _ _) (LS_bindE (LS_setStatus _ _) (fun _ => LS_pure _ _) NS_err)
    · intro rv h hd hv
      subst hv
      exact not_succeeded_false _
  · intro r h hd hs
    simp only [ne_eq, Spc_ne hs, not_false_eq_true, if_true, pure_run]
    exact not_succeeded_false _

theorem G_flashReadOnce (i n : Nat) : G c (flashReadOnce i n) NS := by
  unfold flashReadOnce
  refine G_ite (G_fail _ NS_err) ?_
  refine G_bind (G_processCmd hstrict _) (fun r => ?_) NS_err ?_
  · exact LS_ite (LS_ite (LS_pure _ _) (LS_fail _ _)) (LS_pure _ _)
  · intro r h hd hs
    simp only [Spc_ne hs, if_false, pure_run]
    exact not_succeeded_none _

theorem G_flashProgramOnce (i : Nat) (d : Bytes) : G c (flashProgramOnce i d) NS := by
  unfold flashProgramOnce
  refine G_ite (G_fail _ NS_err) ?_
  refine G_bind (G_processCmd hstrict _) (fun r => LS_pure _ _) NS_err ?_
  intro r h hd hs
  simp only [pure_run, Spc_ne hs, decide_false]
  exact not_succeeded_false _

end ops

/-! ### `open` over the serial link -/

theorem cut_opened {c : Cfg} {hf ht : Host} (x : Bool) (h : Cut c hf ht) :
    Cut c { hf with opened := x } { ht with opened := x } :=
  ⟨h.cfgf, h.cfgt, h.status, h.mps, h.eda, rfl, h.txRev, h.fuelHint, h.preB, h.preR, h.stream⟩

theorem dead_opened {c : Cfg} {h : Host} (x : Bool) (hd : Dead c h) : Dead c { h with opened := x } :=
  ⟨hd.cfg, hd.peer, hd.rxB, hd.rxR⟩

section opening
variable {c : Cfg} (htr : c.tr = .serial) (hstrict : c.partialReads = false)
include htr hstrict

theorem LS_pingDummyLoop : ∀ f : Nat, LS c (pingDummyLoop f) (QE c) := by
  intro f
  induction f with
  | zero => exact LS_pure _ _
  | succ f ih =>
    unfold pingDummyLoop
    exact LS_bindE (G_devRead htr hstrict 1).2 (fun b => LS_ite (LS_pure _ _) ih) (QD_err _)

theorem HT_pingDummyLoop (f : Nat) : HT (Dead c) (pingDummyLoop (f + 1)) (QE c) := by
  unfold pingDummyLoop
  exact HT_bind (G_devRead htr hstrict 1).1 (QD_err _) (fun _ _ _ hF => hF.elim)

theorem G_ping : G c ping (QE c) := by
  unfold ping
  refine ⟨?_, ?_⟩
  · refine HT_bind (G_devWrite (c := c) _).1 (QD_err _) ?_
    intro _ h hd _
    exact HT_bind (HT_pingDummyLoop htr hstrict 49) (QD_err _) (fun _ _ _ hF => hF.elim) h hd
  · refine LS_bindE (LS_devWrite _ _) (fun _ => ?_) (QD_err _)
    refine LS_bindE (LS_pingDummyLoop htr hstrict _) (fun found => ?_) (QD_err _)
    refine LS_ite (LS_fail _ _) ?_
    refine LS_bindE (G_devRead htr hstrict 1).2 (fun t => ?_) (QD_err _)
    refine LS_ite (LS_fail _ _) (LS_ite (LS_fail _ _) ?_)
    refine LS_bindE (G_devRead htr hstrict 8).2 (fun body => ?_) (QD_err _)
    exact LS_ite (LS_fail _ _) (LS_ite (LS_fail _ _) (LS_pure _ _))

theorem G_openSerial : ∀ k : Nat, G c (openSerial k) (QE c) := by
  intro k
  induction k with
  | zero => exact G_fail _ (QD_err _)
  | succ k ih =>
    unfold openSerial
    refine G_bindG (S := fun _ _ => True)
      (G_modify (fun _ _ h => cut_opened _ h) (fun h hd => ⟨dead_opened _ hd, fun _ _ => trivial⟩)) (fun _ => ?_) (QD_err _)
    refine G_catch (G_ping htr hstrict) (fun e => ?_) (fun _ _ _ hF => hF.elim)
    refine G_bindG (S := fun _ _ => True)
      (G_modify (fun _ _ h => cut_opened _ h) (fun h hd => ⟨dead_opened _ hd, fun _ _ => trivial⟩)) (fun _ => ?_) (QD_err _)
    exact G_ite ih (G_fail _ (QD_err _))

theorem G_openOp : G c (runOp .open_) NS := by
  simp only [runOp]
  refine G_getG (fun hf ht hc => by simp only [hc.cfgf, hc.cfgt]) (fun h0 e => ?_)
  rw [e, htr]
  exact G_bindE (G_openSerial htr hstrict _) (fun _ => LS_pure _ _) NS_err

end opening

/-- every operation whose success depends on an answer of the device -/
theorem G_runOp {c : Cfg} (hstrict : c.tr = .serial → c.partialReads = false) (op : Op) (ht : talks c op) :
    G c (runOp op) NS := by
  cases op with
  | open_ => exact G_openOp ht (hstrict ht)
  | getProperty t i => exact G_getPropertyOp hstrict t i
  | setProperty t v => exact G_simpleCmd hstrict _ _
  | fillMemory a n p => exact G_simpleCmd hstrict _ _
  | eraseRegion a n m => exact G_simpleCmd hstrict _ _
  | eraseAll m => exact G_simpleCmd hstrict _ _
  | execute a g s => exact G_simpleCmd hstrict _ _
  | call a g => exact G_simpleCmd hstrict _ _
  | eraseAllUnsecure => exact G_simpleCmd hstrict _ _
  | configureMemory a m => exact G_simpleCmd hstrict _ _
  | reliableUpdate a => exact G_simpleCmd hstrict _ _
  | readMemory a n m f => exact G_readMemory hstrict a n m f ht
  | writeMemory a d m => exact G_writeMemory hstrict a d m
  | receiveSbFile d ce => exact G_receiveSbFile hstrict d ce
  | loadImage d => exact G_loadImage hstrict ht.1 d ht.2
  | flashReadOnce i n => exact G_flashReadOnce hstrict i n
  | flashProgramOnce i d => exact G_flashProgramOnce hstrict i d
  | efuseReadOnce i => exact G_efuseReadOnceOp hstrict i
  | efuseProgramOnce i v ce => exact G_efuseProgramOnce hstrict i v ce
  | flashReadResource a n o =>
    simp only [runOp]
    exact G_ite (G_fail _ NS_err) (G_dataInCmd hstrict _ _ _)
  | kpEnroll => exact G_simpleCmd hstrict _ _
  | kpSetIntrinsicKey t z => exact G_simpleCmd hstrict _ _
  | kpWriteNonvolatile m => exact G_simpleCmd hstrict _ _
  | kpReadNonvolatile m => exact G_simpleCmd hstrict _ _
  | kpSetUserKey t d => exact G_dataOutCmd hstrict _ _ _
  | kpWriteKeyStore d => exact G_dataOutCmd hstrict _ _ _
  | kpReadKeyStore => exact G_dataInCmd hstrict _ _ _
  | reset r => exact absurd ht id
  | logCmd t ps => exact G_simpleCmd hstrict _ _
  | fuseProgram a d m => exact G_dataOutCmd hstrict _ _ _
  | fuseRead a n m => exact G_dataInCmd hstrict _ _ _

theorem observable_of_cut {c : Cfg} (xf xt : Except HErr Val × Host) (he : xt.1 = xf.1) (hc : Cut c xf.2 xt.2) :
    observable xt = observable xf := by
  unfold observable
  rw [he, hc.status, hc.txRev]

/-- serial link, strict reads (`device.read(n)` returns `n` bytes or times out), replay peer: every byte position -/
theorem truncation_safe_serial (h : Host) (op : Op) (k : Nat) (cs : List (List Bytes))
    (htr : h.cfg.tr = .serial) (hstrict : h.cfg.partialReads = false) (hpeer : h.peer = .script cs)
    (ht : talks h.cfg op) :
    observable (runOp op (h.truncate k)) = observable (runOp op h) ∨
      ¬ succeeded (runOp op (h.truncate k)).1 (runOp op (h.truncate k)).2 := by
  have hG := G_runOp (c := h.cfg) (fun _ => hstrict) op ht
  rcases hG.2 h (h.truncate k) (cut_truncate h k cs htr hpeer) with ⟨e, hc'⟩ | hq
  · exact Or.inl (observable_of_cut _ _ e hc')
  · exact Or.inr hq

/-- USB-HID: the stream is cut after any number of whole reports -/
theorem truncation_safe_hid (h : Host) (op : Op) (k : Nat) (cs : List (List Bytes))
    (htr : h.cfg.tr = .hid) (hpeer : h.peer = .script cs) (ht : talks h.cfg op) :
    observable (runOp op (h.truncateReports k)) = observable (runOp op h) ∨
      ¬ succeeded (runOp op (h.truncateReports k)).1 (runOp op (h.truncateReports k)).2 := by
  have hG := G_runOp (c := h.cfg) (fun hs => by rw [htr] at hs; cases hs) op ht
  rcases hG.2 h (h.truncateReports k) (cut_truncateReports h k cs htr hpeer) with ⟨e, hc'⟩ | hq
  · exact Or.inl (observable_of_cut _ _ e hc')
  · exact Or.inr hq

end SpsdkVerif.Mboot.Trunc
