/-
Truncation of the device→host stream in the MIDDLE of an operation (C10): for every cut position the operation on the
cut stream either behaves observably exactly as on the full stream, or it does not report success.
Definitions: `Host.truncate`, `Host.truncateReports`, `observable`, `succeeded` (Model/Mboot.lean); `talks`, `Starved` and the
"silent link" lemmas (Proofs/MbootFault.lean).

Proof architecture: a lock-step simulation between the run on the full stream (`hf`) and the run on the cut stream (`ht`),
relation `Cut`; the two runs agree until a read on the cut side finds too little, from then on the cut host is `Dead`
(nothing readable, the script releases nothing any more) and the rest of the operation ends in a failure class.
-/
import SpsdkVerif.Model.Mboot
import SpsdkVerif.Proofs.Mboot
import SpsdkVerif.Proofs.MbootFault

namespace SpsdkVerif.Mboot.Trunc
open SpsdkVerif SpsdkVerif.Mboot SpsdkVerif.Mboot.H SpsdkVerif.Mboot.Fault

/-! ### the relation between the two runs -/

/-- a replay script that releases nothing any more -/
def Mute (p : Peer) : Prop := ∃ cs, p = .script cs ∧ ∀ x ∈ cs, x = []

def truncTr : Transport → Nat → List (List Bytes) → List (List Bytes)
  | .serial => truncChunks
  | .hid => truncReports

/-- nothing readable on the link in use, and nothing will ever arrive -/
structure Dead (c : Cfg) (h : Host) : Prop where
  cfg : h.cfg = c
  peer : Mute h.peer
  rxB : c.tr = .serial → h.rxB = []
  rxR : c.tr = .hid → h.rxR = []

/-- `hf` runs on the full stream, `ht` on the cut one; everything else is equal -/
structure Cut (c : Cfg) (hf ht : Host) : Prop where
  cfgf : hf.cfg = c
  cfgt : ht.cfg = c
  status : ht.status = hf.status
  mps : ht.mps = hf.mps
  eda : ht.eda = hf.eda
  opened : ht.opened = hf.opened
  txRev : ht.txRev = hf.txRev
  fuelHint : ht.fuelHint = hf.fuelHint
  preB : ht.rxB <+: hf.rxB
  preR : ht.rxR <+: hf.rxR
  stream : Mute ht.peer ∨
    (ht.rxB = hf.rxB ∧ ht.rxR = hf.rxR ∧ ∃ j cs, hf.peer = .script cs ∧ ht.peer = .script (truncTr c.tr j cs))

theorem mute_map (cs : List (List Bytes)) : Mute (.script (cs.map (fun _ => []))) :=
  ⟨_, rfl, by intro x hx; simp only [List.mem_map] at hx; obtain ⟨_, _, rfl⟩ := hx; rfl⟩

theorem cut_truncate (h : Host) (k : Nat) (cs : List (List Bytes)) (htr : h.cfg.tr = .serial) (hpeer : h.peer = .script cs) :
    Cut h.cfg h (h.truncate k) := by
  unfold Host.truncate
  rw [hpeer]
  simp only
  by_cases hk : h.rxB.length ≤ k
  · rw [if_pos hk]
    exact ⟨rfl, rfl, rfl, rfl, rfl, rfl, rfl, rfl, List.prefix_refl _, List.prefix_refl _,
      Or.inr ⟨rfl, rfl, k - h.rxB.length, cs, hpeer, by rw [htr]; rfl⟩⟩
  · rw [if_neg hk]
    exact ⟨rfl, rfl, rfl, rfl, rfl, rfl, rfl, rfl, List.take_prefix _ _, List.prefix_refl _, Or.inl (mute_map cs)⟩

theorem cut_truncateReports (h : Host) (k : Nat) (cs : List (List Bytes)) (htr : h.cfg.tr = .hid) (hpeer : h.peer = .script cs) :
    Cut h.cfg h (h.truncateReports k) := by
  unfold Host.truncateReports
  rw [hpeer]
  simp only
  by_cases hk : h.rxR.length ≤ k
  · rw [if_pos hk]
    exact ⟨rfl, rfl, rfl, rfl, rfl, rfl, rfl, rfl, List.prefix_refl _, List.prefix_refl _,
      Or.inr ⟨rfl, rfl, k - h.rxR.length, cs, hpeer, by rw [htr]; rfl⟩⟩
  · rw [if_neg hk]
    exact ⟨rfl, rfl, rfl, rfl, rfl, rfl, rfl, rfl, List.prefix_refl _, List.take_prefix _ _, Or.inl (mute_map cs)⟩

/-! ### `device.write` -/

theorem write_serial (h : Host) (w : Bytes) (htr : h.cfg.tr = .serial) :
    ∃ p out, h.write w = { h with txRev := w :: h.txRev, relRev := out :: h.relRev, peer := p, rxB := h.rxB ++ out.flatten } ∧
      (∀ cs, h.peer = .script cs → p = .script cs.tail ∧ out = cs.headD []) := by
  unfold Host.write
  cases hp : h.peer with
  | none => exact ⟨.none, [], by simp only [htr], by intro cs h; cases h⟩
  | live d => exact ⟨.live (d.stepSerial w).1, [(d.stepSerial w).2], by simp only [htr], by intro cs h; cases h⟩
  | script cs =>
    cases cs with
    | nil => exact ⟨.script [], [], by simp only [htr], by intro cs h; cases h; exact ⟨rfl, rfl⟩⟩
    | cons x r => exact ⟨.script r, x, by simp only [htr], by intro cs h; cases h; exact ⟨rfl, rfl⟩⟩

theorem write_hid (h : Host) (w : Bytes) (htr : h.cfg.tr = .hid) :
    ∃ p out, h.write w = { h with txRev := w :: h.txRev, relRev := out :: h.relRev, peer := p, rxR := h.rxR ++ out } ∧
      (∀ cs, h.peer = .script cs → p = .script cs.tail ∧ out = cs.headD []) := by
  unfold Host.write
  cases hp : h.peer with
  | none => exact ⟨.none, [], by simp only [htr], by intro cs h; cases h⟩
  | live d => exact ⟨.live (d.stepHid w).1, (d.stepHid w).2, by simp only [htr], by intro cs h; cases h⟩
  | script cs =>
    cases cs with
    | nil => exact ⟨.script [], [], by simp only [htr], by intro cs h; cases h; exact ⟨rfl, rfl⟩⟩
    | cons x r => exact ⟨.script r, x, by simp only [htr], by intro cs h; cases h; exact ⟨rfl, rfl⟩⟩

theorem mute_step {cs : List (List Bytes)} (hm : ∀ x ∈ cs, x = []) :
    Mute (.script cs.tail) ∧ cs.headD [] = [] := by
  cases cs with
  | nil => exact ⟨⟨_, rfl, by simp⟩, rfl⟩
  | cons x r => exact ⟨⟨_, rfl, fun y hy => hm y (List.mem_cons_of_mem _ hy)⟩, hm x (by simp)⟩

theorem dead_write {c : Cfg} {h : Host} (w : Bytes) (hd : Dead c h) : Dead c (h.write w) := by
  obtain ⟨hcfg, ⟨cs, hp, hm⟩, hb, hr⟩ := hd
  obtain ⟨m1, m2⟩ := mute_step hm
  cases htr : c.tr with
  | serial =>
    obtain ⟨p, out, e, hs⟩ := write_serial h w (by rw [hcfg]; exact htr)
    obtain ⟨rfl, rfl⟩ := hs cs hp
    rw [e]
    refine ⟨hcfg, m1, fun _ => ?_, fun x => ?_⟩
    · show h.rxB ++ (cs.headD []).flatten = []
      rw [m2, hb htr]; rfl
    · rw [htr] at x; cases x
  | hid =>
    obtain ⟨p, out, e, hs⟩ := write_hid h w (by rw [hcfg]; exact htr)
    obtain ⟨rfl, rfl⟩ := hs cs hp
    rw [e]
    refine ⟨hcfg, m1, fun x => ?_, fun _ => ?_⟩
    · rw [htr] at x; cases x
    · show h.rxR ++ cs.headD [] = []
      rw [m2, hr htr]; rfl

theorem cut_write {c : Cfg} {hf ht : Host} (w : Bytes) (hc : Cut c hf ht) : Cut c (hf.write w) (ht.write w) := by
  obtain ⟨c1, c2, c3, c4, c5, c6, c7, c8, pB, pR, hs⟩ := hc
  cases htr : c.tr with
  | serial =>
    have htt : truncTr c.tr = truncChunks := by rw [htr]; rfl
    obtain ⟨pf, outf, ef, hsf⟩ := write_serial hf w (by rw [c1]; exact htr)
    obtain ⟨pt, outt, et, hst⟩ := write_serial ht w (by rw [c2]; exact htr)
    rw [ef, et]
    rcases hs with ⟨cs, hp, hm⟩ | ⟨eB, eR, j, cs, hpf, hpt⟩
    · obtain ⟨m1, m2⟩ := mute_step hm
      obtain ⟨rfl, rfl⟩ := hst cs hp
      refine ⟨c1, c2, c3, c4, c5, c6, ?_, c8, ?_, pR, Or.inl m1⟩
      · show w :: ht.txRev = w :: hf.txRev
        rw [c7]
      · show ht.rxB ++ (cs.headD []).flatten <+: hf.rxB ++ outf.flatten
        rw [m2]
        simp only [List.flatten_nil, List.append_nil]
        exact pB.trans (List.prefix_append _ _)
    · obtain ⟨rfl, rfl⟩ := hsf cs hpf
      obtain ⟨rfl, rfl⟩ := hst _ hpt
      rw [htt]
      cases cs with
      | nil =>
        refine ⟨c1, c2, c3, c4, c5, c6, ?_, c8, ?_, pR, Or.inr ⟨?_, eR, j, [], rfl, ?_⟩⟩
        · show w :: ht.txRev = w :: hf.txRev
          rw [c7]
        · simp [truncChunks, eB]
        · simp [truncChunks, eB]
        · rw [htt]; rfl
      | cons x r =>
        by_cases hx : x.flatten.length ≤ j
        · rw [show truncChunks j (x :: r) = x :: truncChunks (j - x.flatten.length) r by rw [truncChunks, if_pos hx]]
          refine ⟨c1, c2, c3, c4, c5, c6, ?_, c8, ?_, pR,
            Or.inr ⟨?_, eR, j - x.flatten.length, r, rfl, ?_⟩⟩
          · show w :: ht.txRev = w :: hf.txRev
            rw [c7]
          · simp [eB]
          · simp [eB]
          · rw [htt]; rfl
        · refine ⟨c1, c2, c3, c4, c5, c6, ?_, c8, ?_, pR, Or.inl ?_⟩
          · show w :: ht.txRev = w :: hf.txRev
            rw [c7]
          · simp only [truncChunks, hx, if_false, List.headD_cons, List.flatten_cons, List.flatten_nil, List.append_nil, eB]
            exact (List.prefix_append_right_inj _).mpr (List.take_prefix _ _)
          · simp only [truncChunks, hx, if_false, List.tail_cons]
            exact mute_map r
  | hid =>
    have htt : truncTr c.tr = truncReports := by rw [htr]; rfl
    obtain ⟨pf, outf, ef, hsf⟩ := write_hid hf w (by rw [c1]; exact htr)
    obtain ⟨pt, outt, et, hst⟩ := write_hid ht w (by rw [c2]; exact htr)
    rw [ef, et]
    rcases hs with ⟨cs, hp, hm⟩ | ⟨eB, eR, j, cs, hpf, hpt⟩
    · obtain ⟨m1, m2⟩ := mute_step hm
      obtain ⟨rfl, rfl⟩ := hst cs hp
      refine ⟨c1, c2, c3, c4, c5, c6, ?_, c8, pB, ?_, Or.inl m1⟩
      · show w :: ht.txRev = w :: hf.txRev
        rw [c7]
      · show ht.rxR ++ cs.headD [] <+: hf.rxR ++ outf
        rw [m2]
        simp only [List.append_nil]
        exact pR.trans (List.prefix_append _ _)
    · obtain ⟨rfl, rfl⟩ := hsf cs hpf
      obtain ⟨rfl, rfl⟩ := hst _ hpt
      rw [htt]
      cases cs with
      | nil =>
        refine ⟨c1, c2, c3, c4, c5, c6, ?_, c8, pB, ?_, Or.inr ⟨eB, ?_, j, [], rfl, ?_⟩⟩
        · show w :: ht.txRev = w :: hf.txRev
          rw [c7]
        · simp [truncReports, eR]
        · simp [truncReports, eR]
        · rw [htt]; rfl
      | cons x r =>
        by_cases hx : x.length ≤ j
        · rw [show truncReports j (x :: r) = x :: truncReports (j - x.length) r by rw [truncReports, if_pos hx]]
          refine ⟨c1, c2, c3, c4, c5, c6, ?_, c8, pB, ?_,
            Or.inr ⟨eB, ?_, j - x.length, r, rfl, ?_⟩⟩
          · show w :: ht.txRev = w :: hf.txRev
            rw [c7]
          · simp [eR]
          · simp [eR]
          · rw [htt]; rfl
        · refine ⟨c1, c2, c3, c4, c5, c6, ?_, c8, pB, ?_, Or.inl ?_⟩
          · show w :: ht.txRev = w :: hf.txRev
            rw [c7]
          · simp only [truncReports, hx, if_false, List.headD_cons, eR]
            exact (List.prefix_append_right_inj _).mpr (List.take_prefix _ _)
          · simp only [truncReports, hx, if_false, List.tail_cons]
            exact mute_map r

/-- serial link, strict reads (`device.read(n)` returns `n` bytes or times out), replay peer: every byte position -/
theorem truncation_safe_serial (h : Host) (op : Op) (k : Nat) (cs : List (List Bytes))
    (htr : h.cfg.tr = .serial) (hstrict : h.cfg.partialReads = false) (hpeer : h.peer = .script cs)
    (ht : talks h.cfg op) :
    observable (runOp op (h.truncate k)) = observable (runOp op h) ∨
      ¬ succeeded (runOp op (h.truncate k)).1 (runOp op (h.truncate k)).2 := by
  sorry

/-- USB-HID: the stream is cut after any number of whole reports -/
theorem truncation_safe_hid (h : Host) (op : Op) (k : Nat) (cs : List (List Bytes))
    (htr : h.cfg.tr = .hid) (hpeer : h.peer = .script cs) (ht : talks h.cfg op) :
    observable (runOp op (h.truncateReports k)) = observable (runOp op h) ∨
      ¬ succeeded (runOp op (h.truncateReports k)).1 (runOp op (h.truncateReports k)).2 := by
  sorry

end SpsdkVerif.Mboot.Trunc
