/-
Truncation of the device→host stream in the MIDDLE of an operation (C10): for every cut position the operation on the
cut stream either behaves observably exactly as on the full stream, or it does not report success.
Definitions: `Host.truncate`, `Host.truncateReports`, `observable`, `succeeded` (Model/Mboot.lean); `talks`, `Starved` and the
"silent link" lemmas (Proofs/MbootFault.lean).

Proof architecture: a lock-step simulation between the run on the full stream (`hf`) and the run on the cut stream (`ht`),
relation `Cut`; the two runs agree until a read on the cut side finds too little, from then on the cut host is `Dead`
(nothing readable, the script releases nothing any more) and the rest of the operation ends in a failure class.
-/
import SpsdkVerif.Model.Mboot
import SpsdkVerif.Proofs.Mboot
import SpsdkVerif.Proofs.MbootFault

namespace SpsdkVerif.Mboot.Trunc
open SpsdkVerif SpsdkVerif.Mboot SpsdkVerif.Mboot.H SpsdkVerif.Mboot.Fault

/-! ### the relation between the two runs -/

/-- a replay script that releases nothing any more -/
def Mute (p : Peer) : Prop := ∃ cs, p = .script cs ∧ ∀ x ∈ cs, x = []

def truncTr : Transport → Nat → List (List Bytes) → List (List Bytes)
  | .serial => truncChunks
  | .hid => truncReports

/-- nothing readable on the link in use, and nothing will ever arrive -/
structure Dead (c : Cfg) (h : Host) : Prop where
  cfg : h.cfg = c
  peer : Mute h.peer
  rxB : c.tr = .serial → h.rxB = []
  rxR : c.tr = .hid → h.rxR = []

/-- `hf` runs on the full stream, `ht` on the cut one; everything else is equal -/
structure Cut (c : Cfg) (hf ht : Host) : Prop where
  cfgf : hf.cfg = c
  cfgt : ht.cfg = c
  status : ht.status = hf.status
  mps : ht.mps = hf.mps
  eda : ht.eda = hf.eda
  opened : ht.opened = hf.opened
  txRev : ht.txRev = hf.txRev
  fuelHint : ht.fuelHint = hf.fuelHint
  preB : ht.rxB <+: hf.rxB
  preR : ht.rxR <+: hf.rxR
  stream : Mute ht.peer ∨
    (ht.rxB = hf.rxB ∧ ht.rxR = hf.rxR ∧ ∃ j cs, hf.peer = .script cs ∧ ht.peer = .script (truncTr c.tr j cs))

theorem mute_map (cs : List (List Bytes)) : Mute (.script (cs.map (fun _ => []))) :=
  ⟨_, rfl, by intro x hx; simp only [List.mem_map] at hx; obtain ⟨_, _, rfl⟩ := hx; rfl⟩

theorem cut_truncate (h : Host) (k : Nat) (cs : List (List Bytes)) (htr : h.cfg.tr = .serial) (hpeer : h.peer = .script cs) :
    Cut h.cfg h (h.truncate k) := by
  unfold Host.truncate
  rw [hpeer]
  simp only
  by_cases hk : h.rxB.length ≤ k
  · rw [if_pos hk]
    exact ⟨rfl, rfl, rfl, rfl, rfl, rfl, rfl, rfl, List.prefix_refl _, List.prefix_refl _,
      Or.inr ⟨rfl, rfl, k - h.rxB.length, cs, hpeer, by rw [htr]; rfl⟩⟩
  · rw [if_neg hk]
    exact ⟨rfl, rfl, rfl, rfl, rfl, rfl, rfl, rfl, List.take_prefix _ _, List.prefix_refl _, Or.inl (mute_map cs)⟩

theorem cut_truncateReports (h : Host) (k : Nat) (cs : List (List Bytes)) (htr : h.cfg.tr = .hid) (hpeer : h.peer = .script cs) :
    Cut h.cfg h (h.truncateReports k) := by
  unfold Host.truncateReports
  rw [hpeer]
  simp only
  by_cases hk : h.rxR.length ≤ k
  · rw [if_pos hk]
    exact ⟨rfl, rfl, rfl, rfl, rfl, rfl, rfl, rfl, List.prefix_refl _, List.prefix_refl _,
      Or.inr ⟨rfl, rfl, k - h.rxR.length, cs, hpeer, by rw [htr]; rfl⟩⟩
  · rw [if_neg hk]
    exact ⟨rfl, rfl, rfl, rfl, rfl, rfl, rfl, rfl, List.prefix_refl _, List.take_prefix _ _, Or.inl (mute_map cs)⟩

/-! ### `device.write` -/

theorem write_serial (h : Host) (w : Bytes) (htr : h.cfg.tr = .serial) :
    ∃ p out, h.write w = { h with txRev := w :: h.txRev, relRev := out :: h.relRev, peer := p, rxB := h.rxB ++ out.flatten } ∧
      (∀ cs, h.peer = .script cs → p = .script cs.tail ∧ out = cs.headD []) := by
  unfold Host.write
  cases hp : h.peer with
  | none => exact ⟨.none, [], by simp only [htr], by intro cs h; cases h⟩
  | live d => exact ⟨.live (d.stepSerial w).1, [(d.stepSerial w).2], by simp only [htr], by intro cs h; cases h⟩
  | script cs =>
    cases cs with
    | nil => exact ⟨.script [], [], by simp only [htr], by intro cs h; cases h; exact ⟨rfl, rfl⟩⟩
    | cons x r => exact ⟨.script r, x, by simp only [htr], by intro cs h; cases h; exact ⟨rfl, rfl⟩⟩

theorem write_hid (h : Host) (w : Bytes) (htr : h.cfg.tr = .hid) :
    ∃ p out, h.write w = { h with txRev := w :: h.txRev, relRev := out :: h.relRev, peer := p, rxR := h.rxR ++ out } ∧
      (∀ cs, h.peer = .script cs → p = .script cs.tail ∧ out = cs.headD []) := by
  unfold Host.write
  cases hp : h.peer with
  | none => exact ⟨.none, [], by simp only [htr], by intro cs h; cases h⟩
  | live d => exact ⟨.live (d.stepHid w).1, (d.stepHid w).2, by simp only [htr], by intro cs h; cases h⟩
  | script cs =>
    cases cs with
    | nil => exact ⟨.script [], [], by simp only [htr], by intro cs h; cases h; exact ⟨rfl, rfl⟩⟩
    | cons x r => exact ⟨.script r, x, by simp only [htr], by intro cs h; cases h; exact ⟨rfl, rfl⟩⟩

theorem mute_step {cs : List (List Bytes)} (hm : ∀ x ∈ cs, x = []) :
    Mute (.script cs.tail) ∧ cs.headD [] = [] := by
  cases cs with
  | nil => exact ⟨⟨_, rfl, by simp⟩, rfl⟩
  | cons x r => exact ⟨⟨_, rfl, fun y hy => hm y (List.mem_cons_of_mem _ hy)⟩, hm x (by simp)⟩

theorem dead_write {c : Cfg} {h : Host} (w : Bytes) (hd : Dead c h) : Dead c (h.write w) := by
  obtain ⟨hcfg, ⟨cs, hp, hm⟩, hb, hr⟩ := hd
  obtain ⟨m1, m2⟩ := mute_step hm
  cases htr : c.tr with
  | serial =>
    obtain ⟨p, out, e, hs⟩ := write_serial h w (by rw [hcfg]; exact htr)
    obtain ⟨rfl, rfl⟩ := hs cs hp
    rw [e]
    refine ⟨hcfg, m1, fun _ => ?_, fun x => ?_⟩
    · show h.rxB ++ (cs.headD []).flatten = []
      rw [m2, hb htr]; rfl
    · rw [htr] at x; cases x
  | hid =>
    obtain ⟨p, out, e, hs⟩ := write_hid h w (by rw [hcfg]; exact htr)
    obtain ⟨rfl, rfl⟩ := hs cs hp
    rw [e]
    refine ⟨hcfg, m1, fun x => ?_, fun _ => ?_⟩
    · rw [htr] at x; cases x
    · show h.rxR ++ cs.headD [] = []
      rw [m2, hr htr]; rfl

theorem cut_write {c : Cfg} {hf ht : Host} (w : Bytes) (hc : Cut c hf ht) : Cut c (hf.write w) (ht.write w) := by
  obtain ⟨c1, c2, c3, c4, c5, c6, c7, c8, pB, pR, hs⟩ := hc
  cases htr : c.tr with
  | serial =>
    have htt : truncTr c.tr = truncChunks := by rw [htr]; rfl
    obtain ⟨pf, outf, ef, hsf⟩ := write_serial hf w (by rw [c1]; exact htr)
    obtain ⟨pt, outt, et, hst⟩ := write_serial ht w (by rw [c2]; exact htr)
    rw [ef, et]
    rcases hs with ⟨cs, hp, hm⟩ | ⟨eB, eR, j, cs, hpf, hpt⟩
    · obtain ⟨m1, m2⟩ := mute_step hm
      obtain ⟨rfl, rfl⟩ := hst cs hp
      refine ⟨c1, c2, c3, c4, c5, c6, ?_, c8, ?_, pR, Or.inl m1⟩
      · show w :: ht.txRev = w :: hf.txRev
        rw [c7]
      · show ht.rxB ++ (cs.headD []).flatten <+: hf.rxB ++ outf.flatten
        rw [m2]
        simp only [List.flatten_nil, List.append_nil]
        exact pB.trans (List.prefix_append _ _)
    · obtain ⟨rfl, rfl⟩ := hsf cs hpf
      obtain ⟨rfl, rfl⟩ := hst _ hpt
      rw [htt]
      cases cs with
      | nil =>
        refine ⟨c1, c2, c3, c4, c5, c6, ?_, c8, ?_, pR, Or.inr ⟨?_, eR, j, [], rfl, ?_⟩⟩
        · show w :: ht.txRev = w :: hf.txRev
          rw [c7]
        · simp [truncChunks, eB]
        · simp [truncChunks, eB]
        · rw [htt]; rfl
      | cons x r =>
        by_cases hx : x.flatten.length ≤ j
        · rw [show truncChunks j (x :: r) = x :: truncChunks (j - x.flatten.length) r by rw [truncChunks, if_pos hx]]
          refine ⟨c1, c2, c3, c4, c5, c6, ?_, c8, ?_, pR,
            Or.inr ⟨?_, eR, j - x.flatten.length, r, rfl, ?_⟩⟩
          · show w :: ht.txRev = w :: hf.txRev
            rw [c7]
          · simp [eB]
          · simp [eB]
          · rw [htt]; rfl
        · refine ⟨c1, c2, c3, c4, c5, c6, ?_, c8, ?_, pR, Or.inl ?_⟩
          · show w :: ht.txRev = w :: hf.txRev
            rw [c7]
          · simp only [truncChunks, hx, if_false, List.headD_cons, List.flatten_cons, List.flatten_nil, List.append_nil, eB]
            exact (List.prefix_append_right_inj _).mpr (List.take_prefix _ _)
          · simp only [truncChunks, hx, if_false, List.tail_cons]
            exact mute_map r
  | hid =>
    have htt : truncTr c.tr = truncReports := by rw [htr]; rfl
    obtain ⟨pf, outf, ef, hsf⟩ := write_hid hf w (by rw [c1]; exact htr)
    obtain ⟨pt, outt, et, hst⟩ := write_hid ht w (by rw [c2]; exact htr)
    rw [ef, et]
    rcases hs with ⟨cs, hp, hm⟩ | ⟨eB, eR, j, cs, hpf, hpt⟩
    · obtain ⟨m1, m2⟩ := mute_step hm
      obtain ⟨rfl, rfl⟩ := hst cs hp
      refine ⟨c1, c2, c3, c4, c5, c6, ?_, c8, pB, ?_, Or.inl m1⟩
      · show w :: ht.txRev = w :: hf.txRev
        rw [c7]
      · show ht.rxR ++ cs.headD [] <+: hf.rxR ++ outf
        rw [m2]
        simp only [List.append_nil]
        exact pR.trans (List.prefix_append _ _)
    · obtain ⟨rfl, rfl⟩ := hsf cs hpf
      obtain ⟨rfl, rfl⟩ := hst _ hpt
      rw [htt]
      cases cs with
      | nil =>
        refine ⟨c1, c2, c3, c4, c5, c6, ?_, c8, pB, ?_, Or.inr ⟨eB, ?_, j, [], rfl, ?_⟩⟩
        · show w :: ht.txRev = w :: hf.txRev
          rw [c7]
        · simp [truncReports, eR]
        · simp [truncReports, eR]
        · rw [htt]; rfl
      | cons x r =>
        by_cases hx : x.length ≤ j
        · rw [show truncReports j (x :: r) = x :: truncReports (j - x.length) r by rw [truncReports, if_pos hx]]
          refine ⟨c1, c2, c3, c4, c5, c6, ?_, c8, pB, ?_,
            Or.inr ⟨eB, ?_, j - x.length, r, rfl, ?_⟩⟩
          · show w :: ht.txRev = w :: hf.txRev
            rw [c7]
          · simp [eR]
          · simp [eR]
          · rw [htt]; rfl
        · refine ⟨c1, c2, c3, c4, c5, c6, ?_, c8, pB, ?_, Or.inl ?_⟩
          · show w :: ht.txRev = w :: hf.txRev
            rw [c7]
          · simp only [truncReports, hx, if_false, List.headD_cons, eR]
            exact (List.prefix_append_right_inj _).mpr (List.take_prefix _ _)
          · simp only [truncReports, hx, if_false, List.tail_cons]
            exact mute_map r

/-! ### the simulation framework -/

/-- outcome of the pair of runs: in lock-step (same result, still related), or the cut run landed in the class `Q` -/
def Res (c : Cfg) {α} (Q : Except HErr α → Host → Prop) (xf xt : Except HErr α × Host) : Prop :=
  (xt.1 = xf.1 ∧ Cut c xf.2 xt.2) ∨ Q xt.1 xt.2

def LS (c : Cfg) {α} (m : H α) (Q : Except HErr α → Host → Prop) : Prop :=
  ∀ hf ht, Cut c hf ht → Res c Q (m hf) (m ht)

def HT {α} (P : Host → Prop) (m : H α) (Q : Except HErr α → Host → Prop) : Prop :=
  ∀ h, P h → Q (m h).1 (m h).2

/-- from a dead host the run lands in `Q`; from a related pair the runs stay in lock-step or the cut one lands in `Q` -/
def G (c : Cfg) {α} (m : H α) (Q : Except HErr α → Host → Prop) : Prop := HT (Dead c) m Q ∧ LS c m Q

/-- the standard failure class: the host is dead; a value, if one is returned at all, satisfies `S` -/
def QD (c : Cfg) {α} (S : α → Host → Prop) : Except HErr α → Host → Prop :=
  fun r h => Dead c h ∧ ∀ a, r = .ok a → S a h

/-- always an exception -/
abbrev QE (c : Cfg) {α} : Except HErr α → Host → Prop := QD c (fun _ _ => False)
/-- anything, but dead -/
abbrev QT (c : Cfg) {α} : Except HErr α → Host → Prop := QD c (fun _ _ => True)

def ErrOK (c : Cfg) {α} (Q : Except HErr α → Host → Prop) : Prop := ∀ e h, Dead c h → Q (.error e) h

theorem QD_err {c : Cfg} {α} (S : α → Host → Prop) : ErrOK c (QD c S) :=
  fun _ _ hd => ⟨hd, fun _ h => by cases h⟩

def NS : Except HErr Val → Host → Prop := fun r h => ¬ succeeded r h

theorem NS_err {c : Cfg} : ErrOK c NS := fun e h _ => not_succeeded_error e h

theorem QD_mono {c : Cfg} {α} {S S' : α → Host → Prop} (hS : ∀ a h, Dead c h → S a h → S' a h) {r : Except HErr α} {h : Host}
    (hq : QD c S r h) : QD c S' r h := ⟨hq.1, fun a e => hS a h hq.1 (hq.2 a e)⟩

theorem G_mono {c : Cfg} {α} {m : H α} {Q Q' : Except HErr α → Host → Prop} (hm : G c m Q) (hQ : ∀ r h, Q r h → Q' r h) :
    G c m Q' := by
  refine ⟨fun h hd => hQ _ _ (hm.1 h hd), fun hf ht hc => ?_⟩
  rcases hm.2 hf ht hc with h1 | h1
  · exact Or.inl h1
  · exact Or.inr (hQ _ _ h1)

theorem LS_pure {c : Cfg} {α} (a : α) (Q : Except HErr α → Host → Prop) : LS c (pure a : H α) Q :=
  fun _ _ hc => Or.inl ⟨rfl, hc⟩

theorem LS_fail {c : Cfg} {α} (e : HErr) (Q : Except HErr α → Host → Prop) : LS c (fail e : H α) Q :=
  fun _ _ hc => Or.inl ⟨rfl, hc⟩

theorem LS_lift {c : Cfg} {α} (x : Except HErr α) (Q : Except HErr α → Host → Prop) : LS c (lift x : H α) Q :=
  fun _ _ hc => Or.inl ⟨rfl, hc⟩

theorem G_pure {c : Cfg} {α} (a : α) {Q : Except HErr α → Host → Prop} (hq : ∀ h, Dead c h → Q (.ok a) h) :
    G c (pure a : H α) Q := ⟨fun h hd => hq h hd, LS_pure a Q⟩

theorem G_fail {c : Cfg} {α} (e : HErr) {Q : Except HErr α → Host → Prop} (hq : ErrOK c Q) :
    G c (fail e : H α) Q := ⟨fun h hd => hq e h hd, LS_fail e Q⟩

theorem G_lift {c : Cfg} {α} (x : Except HErr α) {Q : Except HErr α → Host → Prop} (hq : ∀ h, Dead c h → Q x h) :
    G c (lift x : H α) Q := ⟨fun h hd => hq h hd, LS_lift x Q⟩

theorem HT_bind {c : Cfg} {α β} {P : Host → Prop} {m : H α} {f : α → H β} {S : α → Host → Prop}
    {Q : Except HErr β → Host → Prop}
    (hm : HT P m (QD c S)) (he : ErrOK c Q) (hk : ∀ a h, Dead c h → S a h → Q (f a h).1 (f a h).2) :
    HT P (m >>= f) Q := by
  intro h hp
  have := hm h hp
  simp only [bind_run]
  rcases hmh : m h with ⟨r, h'⟩
  rw [hmh] at this
  cases r with
  | error e => exact he e h' this.1
  | ok a => exact hk a h' this.1 (this.2 a rfl)

theorem LS_bind {c : Cfg} {α β} {m : H α} {f : α → H β} {S : α → Host → Prop} {Q : Except HErr β → Host → Prop}
    (hm : LS c m (QD c S)) (hf : ∀ a, LS c (f a) Q) (he : ErrOK c Q)
    (hk : ∀ a h, Dead c h → S a h → Q (f a h).1 (f a h).2) : LS c (m >>= f) Q := by
  intro hf' ht' hc
  have := hm hf' ht' hc
  simp only [bind_run]
  rcases hmf : m hf' with ⟨rf, sf⟩
  rcases hmt : m ht' with ⟨rt, st⟩
  rw [hmf, hmt] at this
  rcases this with ⟨e, hc'⟩ | ⟨hd, hS⟩
  · simp only at e hc'
    subst e
    cases rt with
    | error e => exact Or.inl ⟨rfl, hc'⟩
    | ok a => exact hf a sf st hc'
  · simp only at hd hS
    cases rt with
    | error e => exact Or.inr (he e st hd)
    | ok a => exact Or.inr (hk a st hd (hS a rfl))

theorem G_bind {c : Cfg} {α β} {m : H α} {f : α → H β} {S : α → Host → Prop} {Q : Except HErr β → Host → Prop}
    (hm : G c m (QD c S)) (hf : ∀ a, LS c (f a) Q) (he : ErrOK c Q)
    (hk : ∀ a h, Dead c h → S a h → Q (f a h).1 (f a h).2) : G c (m >>= f) Q :=
  ⟨HT_bind hm.1 he hk, LS_bind hm.2 hf he hk⟩

theorem G_bindG {c : Cfg} {α β} {m : H α} {f : α → H β} {S : α → Host → Prop} {Q : Except HErr β → Host → Prop}
    (hm : G c m (QD c S)) (hf : ∀ a, G c (f a) Q) (he : ErrOK c Q) : G c (m >>= f) Q :=
  G_bind hm (fun a => (hf a).2) he (fun a h hd _ => (hf a).1 h hd)

theorem HT_catch {c : Cfg} {α} {P : Host → Prop} {m : H α} {hd : HErr → H α} {S : α → Host → Prop}
    {Q : Except HErr α → Host → Prop}
    (hm : HT P m (QD c S)) (hok : ∀ a h, Dead c h → S a h → Q (.ok a) h)
    (hk : ∀ e h, Dead c h → Q (hd e h).1 (hd e h).2) : HT P (catch_ m hd) Q := by
  intro h hp
  have := hm h hp
  simp only [catch_run]
  rcases hmh : m h with ⟨r, h'⟩
  rw [hmh] at this
  cases r with
  | error e => exact hk e h' this.1
  | ok a => exact hok a h' this.1 (this.2 a rfl)

theorem LS_catch {c : Cfg} {α} {m : H α} {hd : HErr → H α} {S : α → Host → Prop} {Q : Except HErr α → Host → Prop}
    (hm : LS c m (QD c S)) (hh : ∀ e, LS c (hd e) Q) (hok : ∀ a h, Dead c h → S a h → Q (.ok a) h)
    (hk : ∀ e h, Dead c h → Q (hd e h).1 (hd e h).2) : LS c (catch_ m hd) Q := by
  intro hf' ht' hc
  have := hm hf' ht' hc
  simp only [catch_run]
  rcases hmf : m hf' with ⟨rf, sf⟩
  rcases hmt : m ht' with ⟨rt, st⟩
  rw [hmf, hmt] at this
  rcases this with ⟨e, hc'⟩ | ⟨hd', hS⟩
  · simp only at e hc'
    subst e
    cases rt with
    | error e => exact hh e sf st hc'
    | ok a => exact Or.inl ⟨rfl, hc'⟩
  · simp only at hd' hS
    cases rt with
    | error e => exact Or.inr (hk e st hd')
    | ok a => exact Or.inr (hok a st hd' (hS a rfl))

theorem G_catch {c : Cfg} {α} {m : H α} {hd : HErr → H α} {S : α → Host → Prop} {Q : Except HErr α → Host → Prop}
    (hm : G c m (QD c S)) (hh : ∀ e, G c (hd e) Q) (hok : ∀ a h, Dead c h → S a h → Q (.ok a) h) : G c (catch_ m hd) Q :=
  ⟨HT_catch hm.1 hok (fun e h hd' => (hh e).1 h hd'), LS_catch hm.2 (fun e => (hh e).2) hok (fun e h hd' => (hh e).1 h hd')⟩

/-- `let h ← get; f h`: what `f` looks at is the same on both sides -/
theorem G_get {c : Cfg} {α} {f : Host → H α} {Q : Except HErr α → Host → Prop}
    (hfeq : ∀ hf ht, Cut c hf ht → f ht = f hf) (hf : ∀ h0, h0.cfg = c → LS c (f h0) Q)
    (hk : ∀ h, Dead c h → Q (f h h).1 (f h h).2) : G c (get >>= f) Q := by
  refine ⟨fun h hd => ?_, fun hf' ht' hc => ?_⟩
  · simp only [bind_run, get_run]; exact hk h hd
  · simp only [bind_run, get_run]
    rw [hfeq hf' ht' hc]
    exact hf hf' hc.cfgf hf' ht' hc

theorem G_getG {c : Cfg} {α} {f : Host → H α} {Q : Except HErr α → Host → Prop}
    (hfeq : ∀ hf ht, Cut c hf ht → f ht = f hf) (hf : ∀ h0, h0.cfg = c → G c (f h0) Q) : G c (get >>= f) Q :=
  G_get hfeq (fun h0 e => (hf h0 e).2) (fun h hd => (hf h hd.cfg).1 h hd)

theorem G_modify {c : Cfg} {g : Host → Host} {Q : Except HErr Unit → Host → Prop}
    (hc : ∀ hf ht, Cut c hf ht → Cut c (g hf) (g ht)) (hq : ∀ h, Dead c h → Q (.ok ()) (g h)) : G c (modify g) Q :=
  ⟨fun h hd => hq h hd, fun hf ht h => Or.inl ⟨rfl, hc hf ht h⟩⟩

theorem G_devWrite {c : Cfg} (w : Bytes) : G c (devWrite w) (QT c) :=
  G_modify (fun _ _ h => cut_write w h) (fun _ hd => ⟨dead_write w hd, fun _ _ => trivial⟩)

theorem cut_status {c : Cfg} {hf ht : Host} (st : Nat) (h : Cut c hf ht) :
    Cut c { hf with status := st } { ht with status := st } :=
  ⟨h.cfgf, h.cfgt, rfl, h.mps, h.eda, h.opened, h.txRev, h.fuelHint, h.preB, h.preR, h.stream⟩

theorem dead_status {c : Cfg} {h : Host} (st : Nat) (hd : Dead c h) : Dead c { h with status := st } :=
  ⟨hd.cfg, hd.peer, hd.rxB, hd.rxR⟩

theorem G_setStatus {c : Cfg} (st : Nat) : G c (setStatus st) (QD c (fun _ h => h.status = st)) :=
  G_modify (fun _ _ h => cut_status st h) (fun _ hd => ⟨dead_status st hd, fun _ _ => rfl⟩)

/-! ### the read primitives -/

theorem cut_rxB {c : Cfg} {hf ht : Host} (bf bt : Bytes) (a b : Nat) (h : Cut c hf ht) (hp : bt <+: bf)
    (he : ht.rxB = hf.rxB → bt = bf) : Cut c { hf with rxB := bf, reads := a } { ht with rxB := bt, reads := b } := by
  refine ⟨h.cfgf, h.cfgt, h.status, h.mps, h.eda, h.opened, h.txRev, h.fuelHint, hp, h.preR, ?_⟩
  rcases h.stream with hm | ⟨eB, eR, j, cs, h1, h2⟩
  · exact Or.inl hm
  · exact Or.inr ⟨he eB, eR, j, cs, h1, h2⟩

theorem cut_rxR {c : Cfg} {hf ht : Host} (bf bt : List Bytes) (a b : Nat) (h : Cut c hf ht) (hp : bt <+: bf)
    (he : ht.rxR = hf.rxR → bt = bf) : Cut c { hf with rxR := bf, reads := a } { ht with rxR := bt, reads := b } := by
  refine ⟨h.cfgf, h.cfgt, h.status, h.mps, h.eda, h.opened, h.txRev, h.fuelHint, h.preB, hp, ?_⟩
  rcases h.stream with hm | ⟨eB, eR, j, cs, h1, h2⟩
  · exact Or.inl hm
  · exact Or.inr ⟨eB, he eR, j, cs, h1, h2⟩

theorem devRead_nil (n : Nat) (h : Host) (hb : h.rxB = []) : devRead n h = (.error .timeout, bump h) := by
  unfold devRead bump
  simp [hb]

theorem devRead_zero (h : Host) : devRead 0 h = (.error .timeout, bump h) := by
  unfold devRead bump
  simp

theorem devRead_ok (n : Nat) (h : Host) (hn : n ≠ 0) (hle : n ≤ h.rxB.length) :
    devRead n h = (.ok (h.rxB.take n), { h with reads := h.reads + 1, rxB := h.rxB.drop n }) := by
  unfold devRead
  have : h.rxB.isEmpty = false := by
    cases hb : h.rxB with
    | nil => rw [hb] at hle; simp at hle; exact absurd hle hn
    | cons _ _ => rfl
  simp only [hn, this, false_or, Bool.false_eq_true, if_false, hle, if_true]

theorem devRead_short (n : Nat) (h : Host) (hne : h.rxB ≠ []) (hlt : h.rxB.length < n) (hs : h.cfg.partialReads = false) :
    devRead n h = (.error .timeout, { h with reads := h.reads + 1, rxB := [] }) := by
  unfold devRead
  have : h.rxB.isEmpty = false := by
    cases hb : h.rxB with
    | nil => exact absurd hb hne
    | cons _ _ => rfl
  have hn : n ≠ 0 := by omega
  have hle : ¬ n ≤ h.rxB.length := by omega
  simp only [hn, this, false_or, Bool.false_eq_true, if_false, hle, hs]

theorem cut_bump {c : Cfg} {hf ht : Host} (h : Cut c hf ht) : Cut c (bump hf) (bump ht) :=
  ⟨h.cfgf, h.cfgt, h.status, h.mps, h.eda, h.opened, h.txRev, h.fuelHint, h.preB, h.preR, h.stream⟩

theorem dead_bump {c : Cfg} {h : Host} (hd : Dead c h) : Dead c (bump h) := ⟨hd.cfg, hd.peer, hd.rxB, hd.rxR⟩

theorem prefix_eq_of_length {α} {a b : List α} (hp : a <+: b) (hl : b.length ≤ a.length) : a = b := by
  obtain ⟨s, rfl⟩ := hp
  have : s = [] := List.length_eq_zero_iff.mp (by simp only [List.length_append] at hl; omega)
  simp [this]

theorem G_devRead {c : Cfg} (htr : c.tr = .serial) (hstrict : c.partialReads = false) (n : Nat) :
    G c (devRead n) (QE c) := by
  refine ⟨fun h hd => ?_, fun hf ht hc => ?_⟩
  · rw [devRead_nil n h (hd.rxB htr)]
    exact ⟨dead_bump hd, fun _ h => by cases h⟩
  · have hpf : hf.cfg.partialReads = false := by rw [hc.cfgf]; exact hstrict
    have hpt : ht.cfg.partialReads = false := by rw [hc.cfgt]; exact hstrict
    have hno : ¬ c.tr = .hid := by rw [htr]; intro h; cases h
    by_cases hn : n = 0
    · subst hn
      rw [devRead_zero, devRead_zero]
      exact Or.inl ⟨rfl, cut_bump hc⟩
    · by_cases hbt : ht.rxB = []
      · rw [devRead_nil n ht hbt]
        rcases hc.stream with hm | ⟨eB, _⟩
        · exact Or.inr ⟨⟨hc.cfgt, hm, fun _ => hbt, fun x => absurd x hno⟩, fun _ h => by cases h⟩
        · rw [devRead_nil n hf (by rw [← eB]; exact hbt)]
          exact Or.inl ⟨rfl, cut_bump hc⟩
      · by_cases hle : n ≤ ht.rxB.length
        · have hle2 : n ≤ hf.rxB.length := Nat.le_trans hle hc.preB.length_le
          rw [devRead_ok n ht hn hle, devRead_ok n hf hn hle2]
          obtain ⟨s, hs⟩ := hc.preB
          left
          refine ⟨?_, ?_⟩
          · simp only [← hs, List.take_append_of_le_length hle]
          · refine cut_rxB _ _ _ _ hc ?_ (fun e => by rw [e])
            rw [← hs, List.drop_append_of_le_length hle]
            exact List.prefix_append _ _
        · rw [devRead_short n ht hbt (by omega) hpt]
          rcases hc.stream with hm | ⟨eB, _⟩
          · exact Or.inr ⟨⟨hc.cfgt, hm, fun _ => rfl, fun x => absurd x hno⟩, fun _ h => by cases h⟩
          · rw [devRead_short n hf (by rw [← eB]; exact hbt) (by rw [← eB]; omega) hpf]
            exact Or.inl ⟨rfl, cut_rxB _ _ _ _ hc (List.prefix_refl _) (fun _ => rfl)⟩

theorem hidDevRead_nil (h : Host) (hb : h.rxR = []) : hidDevRead h = (.error .timeout, bump h) := by
  unfold hidDevRead bump
  simp [hb]

theorem hidDevRead_cons (h : Host) (x : Bytes) (r : List Bytes) (hb : h.rxR = x :: r) :
    hidDevRead h = (if x.isEmpty then .error .timeout else .ok x, { h with reads := h.reads + 1, rxR := r }) := by
  unfold hidDevRead
  simp only [hb]
  split <;> rfl

theorem G_hidDevRead {c : Cfg} (htr : c.tr = .hid) : G c hidDevRead (QE c) := by
  have hno : ¬ c.tr = .serial := by rw [htr]; intro h; cases h
  refine ⟨fun h hd => ?_, fun hf ht hc => ?_⟩
  · rw [hidDevRead_nil h (hd.rxR htr)]
    exact ⟨dead_bump hd, fun _ h => by cases h⟩
  · cases hbt : ht.rxR with
    | nil =>
      rw [hidDevRead_nil ht hbt]
      rcases hc.stream with hm | ⟨_, eR, _⟩
      · exact Or.inr ⟨⟨hc.cfgt, hm, fun x => absurd x hno, fun _ => hbt⟩, fun _ h => by cases h⟩
      · rw [hidDevRead_nil hf (by rw [← eR]; exact hbt)]
        exact Or.inl ⟨rfl, cut_bump hc⟩
    | cons x r =>
      obtain ⟨s, hs⟩ := hc.preR
      rw [hbt] at hs
      rw [hidDevRead_cons ht x r hbt, hidDevRead_cons hf x (r ++ s) (by rw [← hs]; rfl)]
      refine Or.inl ⟨rfl, cut_rxR _ _ _ _ hc (List.prefix_append _ _) ?_⟩
      intro e
      rw [hbt, ← hs] at e
      have : s = [] := by
        have := congrArg List.length e
        simp only [List.length_cons, List.length_append] at this
        exact List.length_eq_zero_iff.mp (by omega)
      simp [this]

/-! ### more rules -/

theorem LS_ite {c : Cfg} {α} {p : Prop} [Decidable p] {A B : H α} {Q : Except HErr α → Host → Prop}
    (hA : LS c A Q) (hB : LS c B Q) : LS c (if p then A else B) Q := by
  split
  · exact hA
  · exact hB

theorem G_ite {c : Cfg} {α} {p : Prop} [Decidable p] {A B : H α} {Q : Except HErr α → Host → Prop}
    (hA : G c A Q) (hB : G c B Q) : G c (if p then A else B) Q := by
  split
  · exact hA
  · exact hB

theorem LS_bindE {c : Cfg} {α β} {m : H α} {f : α → H β} {Q : Except HErr β → Host → Prop}
    (hm : LS c m (QE c)) (hf : ∀ a, LS c (f a) Q) (he : ErrOK c Q) : LS c (m >>= f) Q :=
  LS_bind hm hf he (fun _ _ _ hF => hF.elim)

theorem G_bindE {c : Cfg} {α β} {m : H α} {f : α → H β} {Q : Except HErr β → Host → Prop}
    (hm : G c m (QE c)) (hf : ∀ a, LS c (f a) Q) (he : ErrOK c Q) : G c (m >>= f) Q :=
  G_bind hm hf he (fun _ _ _ hF => hF.elim)

theorem LS_modify {c : Cfg} {g : Host → Host} (Q : Except HErr Unit → Host → Prop)
    (hc : ∀ hf ht, Cut c hf ht → Cut c (g hf) (g ht)) : LS c (modify g) Q :=
  fun hf ht h => Or.inl ⟨rfl, hc hf ht h⟩

theorem LS_devWrite {c : Cfg} (w : Bytes) (Q : Except HErr Unit → Host → Prop) : LS c (devWrite w) Q :=
  LS_modify Q (fun _ _ h => cut_write w h)

theorem LS_setStatus {c : Cfg} (st : Nat) (Q : Except HErr Unit → Host → Prop) : LS c (setStatus st) Q :=
  LS_modify Q (fun _ _ h => cut_status st h)

theorem LS_get {c : Cfg} {α} {f : Host → H α} {Q : Except HErr α → Host → Prop}
    (hfeq : ∀ hf ht, Cut c hf ht → f ht = f hf) (hf : ∀ h0, h0.cfg = c → LS c (f h0) Q) : LS c (get >>= f) Q := by
  intro hf' ht' hc
  simp only [bind_run, get_run]
  rw [hfeq hf' ht' hc]
  exact hf hf' hc.cfgf hf' ht' hc

theorem devRead_len (n : Nat) (h h' : Host) (b : Bytes) (hs : h.cfg.partialReads = false)
    (hr : devRead n h = (.ok b, h')) : h'.rxB.length < h.rxB.length := by
  by_cases hn : n = 0
  · subst hn; rw [devRead_zero] at hr; cases hr
  · by_cases hb : h.rxB = []
    · rw [devRead_nil n h hb] at hr; cases hr
    · have hpos : 0 < h.rxB.length := List.length_pos_iff.mpr hb
      by_cases hle : n ≤ h.rxB.length
      · rw [devRead_ok n h hn hle] at hr
        simp only [Prod.mk.injEq, Except.ok.injEq] at hr
        obtain ⟨_, rfl⟩ := hr
        simp only [List.length_drop]
        omega
      · rw [devRead_short n h hb (by omega) hs] at hr; cases hr

/-! ### the serial link -/

section serial
variable {c : Cfg} (htr : c.tr = .serial) (hstrict : c.partialReads = false)
include htr hstrict

theorem HT_waitGo (f : Nat) : HT (Dead c) (waitGo f) (QE c) := by
  cases f with
  | zero => exact fun h hd => ⟨hd, fun _ e => by cases e⟩
  | succ f =>
    unfold waitGo
    exact HT_bind (G_devRead htr hstrict 1).1 (QD_err _) (fun _ _ _ hF => hF.elim)

theorem LS_waitGo : ∀ (ft ff : Nat) (hf ht : Host), Cut c hf ht → ht.rxB.length < ft → hf.rxB.length < ff →
    Res c (QE c) (waitGo ff hf) (waitGo ft ht) := by
  intro ft
  induction ft with
  | zero => intro ff hf ht _ h; omega
  | succ ft ih =>
    intro ff hf ht hc h1 h2
    cases ff with
    | zero => omega
    | succ ff =>
      simp only [waitGo, bind_run]
      have hr := (G_devRead htr hstrict 1).2 hf ht hc
      rcases hdf : devRead 1 hf with ⟨rf, sf⟩
      rcases hdt : devRead 1 ht with ⟨rt, st⟩
      rw [hdf, hdt] at hr
      rcases hr with ⟨e, hc'⟩ | ⟨hd, hS⟩
      · simp only at e hc'
        subst e
        cases rt with
        | error e => exact Or.inl ⟨rfl, hc'⟩
        | ok b =>
          have l1 := devRead_len 1 _ _ _ (by rw [hc.cfgf]; exact hstrict) hdf
          have l2 := devRead_len 1 _ _ _ (by rw [hc.cfgt]; exact hstrict) hdt
          simp only
          by_cases hv : fromLe b = 0
          · rw [if_pos hv, if_pos hv]
            exact ih ff sf st hc' (by omega) (by omega)
          · rw [if_neg hv, if_neg hv]
            exact Or.inl ⟨rfl, hc'⟩
      · simp only at hd hS
        cases rt with
        | error e => exact Or.inr ⟨hd, fun _ e => by cases e⟩
        | ok b => exact (hS b rfl).elim

theorem G_waitForData : G c waitForData (QE c) :=
  ⟨fun h hd => HT_waitGo htr hstrict _ h hd,
   fun hf ht hc => LS_waitGo htr hstrict _ _ hf ht hc (Nat.lt_succ_self _) (Nat.lt_succ_self _)⟩

theorem G_readFrameHeader (e : Option Nat) : G c (readFrameHeader e) (QE c) := by
  unfold readFrameHeader
  refine G_bindE (G_waitForData htr hstrict) (fun header => ?_) (QD_err _)
  refine LS_ite (LS_fail _ _) ?_
  dsimp only
  refine LS_ite ?_ ?_ <;> refine LS_bindE ?_ (fun ftype => ?_) (QD_err _)
  any_goals
    (refine LS_ite (LS_fail _ _) ?_
     cases e with
     | none => exact LS_pure _ _
     | some e => exact LS_ite (LS_fail _ _) (LS_pure _ _))
  · exact LS_pure _ _
  · exact LS_bindE (G_devRead htr hstrict 1).2 (fun b => LS_pure _ _) (QD_err _)

theorem G_serialRead : G c serialRead (QE c) := by
  unfold serialRead
  refine G_bindE (G_readFrameHeader htr hstrict none) (fun x => ?_) (QD_err _)
  obtain ⟨_, ftype⟩ := x
  refine LS_bindE (G_devRead htr hstrict 2).2 (fun lenB => ?_) (QD_err _)
  refine LS_bindE (G_devRead htr hstrict 2).2 (fun crcB => ?_) (QD_err _)
  refine LS_ite (LS_bindE (LS_devWrite _ _) (fun _ => LS_fail _ _) (QD_err _)) ?_
  refine LS_bindE (G_devRead htr hstrict _).2 (fun data => ?_) (QD_err _)
  refine LS_bindE (LS_devWrite _ _) (fun _ => ?_) (QD_err _)
  refine LS_ite (LS_fail _ _) (LS_ite ?_ (LS_pure _ _))
  cases parseCmdResponse data with
  | ok r => exact LS_pure _ _
  | error e => exact LS_fail _ _

theorem G_serialSendFrame (t : Nat) (data : Bytes) : G c (serialSendFrame t data) (QE c) := by
  unfold serialSendFrame
  refine G_ite (G_fail _ (QD_err _)) ?_
  exact G_bindG (G_devWrite _) (fun _ => G_bindE (G_readFrameHeader htr hstrict _) (fun _ => LS_pure _ _) (QD_err _)) (QD_err _)

end serial

/-- serial link, strict reads (`device.read(n)` returns `n` bytes or times out), replay peer: every byte position -/
theorem truncation_safe_serial (h : Host) (op : Op) (k : Nat) (cs : List (List Bytes))
    (htr : h.cfg.tr = .serial) (hstrict : h.cfg.partialReads = false) (hpeer : h.peer = .script cs)
    (ht : talks h.cfg op) :
    observable (runOp op (h.truncate k)) = observable (runOp op h) ∨
      ¬ succeeded (runOp op (h.truncate k)).1 (runOp op (h.truncate k)).2 := by
  sorry

/-- USB-HID: the stream is cut after any number of whole reports -/
theorem truncation_safe_hid (h : Host) (op : Op) (k : Nat) (cs : List (List Bytes))
    (htr : h.cfg.tr = .hid) (hpeer : h.peer = .script cs) (ht : talks h.cfg op) :
    observable (runOp op (h.truncateReports k)) = observable (runOp op h) ∨
      ¬ succeeded (runOp op (h.truncateReports k)).1 (runOp op (h.truncateReports k)).2 := by
  sorry

end SpsdkVerif.Mboot.Trunc
