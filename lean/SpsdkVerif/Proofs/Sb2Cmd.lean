/-
C04 helper lemmas, command layer: header encode/decode, the 13 commands through SPSDK's parser model
(`decodeCmd`) and through the ROM model (`Rom.readCmd`), command streams.
INTERFACE lemmas (used by Proofs/Sb2Section.lean, Proofs/Sb2Image.lean, Properties/C04.lean) are marked
`-- INTERFACE`: keep their names and statements.
-/
import SpsdkVerif.Model.Sb2
import SpsdkVerif.Model.Sb2Spec
import SpsdkVerif.Proofs.Crypto
import SpsdkVerif.Proofs.Sb2Base

namespace SpsdkVerif.Sb2
open SpsdkVerif SpsdkVerif.Sb2.Rom
open SpsdkVerif.Misc (Bytes beEnc beDec leEnc leDec bitLen)
open SpsdkVerif.Crypto (xorBytes zeroPad16 zeros)
open SpsdkVerif.Generated

set_option linter.unusedSimpArgs false

/-! ## integer codecs -/

-- INTERFACE
theorem leEnc_length (n v : Nat) : (leEnc n v).length = n := Crypto.leEnc_length n v

-- INTERFACE
theorem leDec_leEnc (n v : Nat) (h : v < 256 ^ n) : leDec (leEnc n v) = v := by
  unfold leDec leEnc
  rw [List.reverse_reverse, Base.beDec_beEnc_mod, Nat.mod_eq_of_lt h]

-- INTERFACE: BCD version words are stored big-endian: `leEnc 2 (swap16 v)` read as big-endian is `v`
theorem beDec_leEnc_swap16 (v : Nat) (h : v < 65536) : beDec (leEnc 2 (swap16 v)) = v := by
  have hs : swap16 v = v % 256 * 256 + v / 256 := Base.swap16_nat v h
  rw [hs]
  obtain ⟨a, b, ha, hb, rfl⟩ : ∃ a b, a < 256 ∧ b < 256 ∧ v = 256 * b + a :=
    ⟨v % 256, v / 256, by omega, by omega, by omega⟩
  have e1 : (256 * b + a) % 256 = a := by omega
  have e2 : (256 * b + a) / 256 = b := by omega
  rw [e1, e2]
  have e3 : (a * 256 + b) / 256 = a := by omega
  have e4 : (a * 256 + b) % 256 = b := by omega
  simp [leEnc, beEnc, beDec, e3, e4]
  omega

-- INTERFACE
theorem zeroPad16_length (d : Bytes) : (zeroPad16 d).length = (d.length + 15) / 16 * 16 := by
  simp [zeroPad16, Crypto.zeroPad, zeros]
  omega

-- INTERFACE
theorem zeroPad16_eq_pad16 (d : Bytes) : zeroPad16 d = Spec.pad16 d := by
  simp [zeroPad16, Crypto.zeroPad, Spec.pad16]

/-! ## command header -/

/-- everything of a raw header behind the checksum byte -/
def hdrTail (h : CmdHdr) : Bytes :=
  u8 h.tag :: (leEnc 2 h.flags ++ (leEnc 4 h.address ++ (leEnc 4 h.count ++ leEnc 4 h.data)))

theorem rawHdr_eq (c : Nat) (h : CmdHdr) : rawHdr c h = u8 c :: hdrTail h := by
  simp [rawHdr, hdrTail]

theorem hdrTail_length (h : CmdHdr) : (hdrTail h).length = 15 := by
  simp [hdrTail, leEnc_length]

theorem checksum_fold (l : Bytes) (acc : Nat) (ha : acc < 256) :
    l.foldl (fun acc x => (acc + x.toNat) &&& 255) acc = (acc + sumBytes l) % 256 := by
  induction l generalizing acc with
  | nil => simp [sumBytes]; omega
  | cons x l ih =>
    have e : (acc + x.toNat) &&& 255 = (acc + x.toNat) % 256 :=
      Nat.and_two_pow_sub_one_eq_mod (acc + x.toNat) 8
    rw [List.foldl_cons, e, ih _ (Nat.mod_lt _ (by omega))]
    simp only [sumBytes, List.map_cons, List.sum_cons]
    omega

theorem checksum_eq (raw : Bytes) : checksum raw = (90 + sumBytes (raw.drop 1)) % 256 := by
  simp only [checksum, Sb2Consts.checksumStart, Sb2Consts.checksumMask, Sb2Consts.checksumSeed]
  exact checksum_fold _ 90 (by omega)

theorem checksum_lt (raw : Bytes) : checksum raw < 256 := by
  rw [checksum_eq]; omega

theorem leDec_single (x : UInt8) : leDec [x] = x.toNat := by simp [leDec, beDec]

/-- field access into a 16-byte header written as six consecutive pieces -/
theorem hdr_layout (x0 x1 : UInt8) (f2 fa fb fc rest : Bytes)
    (h2 : f2.length = 2) (ha : fa.length = 4) (hb : fb.length = 4) (hc : fc.length = 4) :
    let d := x0 :: x1 :: (f2 ++ (fa ++ (fb ++ (fc ++ rest))))
    d.getD 0 0 = x0 ∧ d.getD 1 0 = x1 ∧ (d.drop 2).take 2 = f2 ∧ (d.drop 4).take 4 = fa ∧
    (d.drop 8).take 4 = fb ∧ (d.drop 12).take 4 = fc ∧ d.take 16 = x0 :: x1 :: (f2 ++ (fa ++ (fb ++ fc))) ∧
    d.drop 16 = rest ∧
    Rom.splitW [1, 1, 2, 4, 4, 4] d = some [[x0], [x1], f2, fa, fb, fc] := by
  match f2, h2 with
  | [a, b], _ =>
  match fa, ha with
  | [a1, a2, a3, a4], _ =>
  match fb, hb with
  | [b1, b2, b3, b4], _ =>
  match fc, hc with
  | [c1, c2, c3, c4], _ =>
  simp +arith [Rom.splitW]


theorem rawHdr_length (c : Nat) (h : CmdHdr) : (rawHdr c h).length = 16 := by
  simp [rawHdr, leEnc_length]

-- INTERFACE
theorem encodeHdr_length (h : CmdHdr) : (encodeHdr h).length = 16 := by
  simp [encodeHdr, rawHdr_length]

theorem inRange_iff (h : CmdHdr) : h.inRange = true ↔
    h.tag < 256 ∧ h.flags < 65536 ∧ h.address < 2 ^ 32 ∧ h.count < 2 ^ 32 ∧ h.data < 2 ^ 32 := by
  simp [CmdHdr.inRange, and_assoc]

theorem u8_toNat (n : Nat) (h : n < 256) : (u8 n).toNat = n := by
  simp [u8, Nat.mod_eq_of_lt h]

theorem encodeHdr_append (h : CmdHdr) (rest : Bytes) :
    encodeHdr h ++ rest = u8 (checksum (rawHdr 0 h)) :: u8 h.tag ::
      (leEnc 2 h.flags ++ (leEnc 4 h.address ++ (leEnc 4 h.count ++ (leEnc 4 h.data ++ rest)))) := by
  simp [encodeHdr, rawHdr]

-- INTERFACE: SPSDK's `CmdHeader.parse(export())`
theorem decodeHdr_encodeHdr (h : CmdHdr) (hr : h.inRange = true) (rest : Bytes) :
    decodeHdr (encodeHdr h ++ rest) = .ok h := by
  obtain ⟨r1, r2, r3, r4, r5⟩ := (inRange_iff h).1 hr
  have hl : ¬ (encodeHdr h ++ rest).length < Sb2Consts.cmdHeaderFmtSize := by
    simp [Sb2Consts.cmdHeaderFmtSize, encodeHdr_length]
  unfold decodeHdr
  rw [if_neg hl]
  rw [encodeHdr_append]
  obtain ⟨g0, g1, g2, g3, g4, g5, -, -, -⟩ := hdr_layout (u8 (checksum (rawHdr 0 h))) (u8 h.tag)
    (leEnc 2 h.flags) (leEnc 4 h.address) (leEnc 4 h.count) (leEnc 4 h.data) rest
    (leEnc_length _ _) (leEnc_length _ _) (leEnc_length _ _) (leEnc_length _ _)
  simp only [g0, g1, g2, g3, g4, g5]
  rw [u8_toNat _ r1, leDec_leEnc 2 _ (by simpa using r2), leDec_leEnc 4 _ (by simpa using r3),
    leDec_leEnc 4 _ (by simpa using r4), leDec_leEnc 4 _ (by simpa using r5), u8_toNat _ (checksum_lt _)]
  simp

-- INTERFACE: the ROM reads the same five fields and its checksum formula accepts SPSDK's checksum
theorem readHdr_encodeHdr (h : CmdHdr) (hr : h.inRange = true) (rest : Bytes) :
    Rom.readHdr (encodeHdr h ++ rest) = .ok ⟨h.tag, h.flags, h.address, h.count, h.data⟩ := by
  obtain ⟨r1, r2, r3, r4, r5⟩ := (inRange_iff h).1 hr
  unfold Rom.readHdr
  rw [encodeHdr_append]
  obtain ⟨-, -, -, -, -, -, g6, -, g8⟩ := hdr_layout (u8 (checksum (rawHdr 0 h))) (u8 h.tag)
    (leEnc 2 h.flags) (leEnc 4 h.address) (leEnc 4 h.count) (leEnc 4 h.data) rest
    (leEnc_length _ _) (leEnc_length _ _) (leEnc_length _ _) (leEnc_length _ _)
  simp only [Rom.Spec.cmdHeaderWidths, Rom.Spec.cmdHeaderSize, Rom.Spec.checksumSeed, g6, g8]
  rw [leDec_single, leDec_single, u8_toNat _ r1, leDec_leEnc 2 _ (by simpa using r2), leDec_leEnc 4 _ (by simpa using r3),
    leDec_leEnc 4 _ (by simpa using r4), leDec_leEnc 4 _ (by simpa using r5), u8_toNat _ (checksum_lt _)]
  have : checksum (rawHdr 0 h) = (90 + sumBytes (hdrTail h)) % 256 := by
    rw [checksum_eq, rawHdr_eq]; rfl
  rw [this]
  simp [hdrTail]


/-! ## flag arithmetic -/

theorem or_andNot_or (a M x : Nat) : a ||| (andNot a M ||| x) = a ||| x := by
  apply Nat.eq_of_testBit_eq
  intro i
  simp only [andNot, Nat.testBit_or, Nat.testBit_xor, Nat.testBit_and]
  cases a.testBit i <;> cases M.testBit i <;> cases x.testBit i <;> rfl

theorem shl8_and_ff00 (d : Nat) : (d <<< 8) &&& 65280 = d % 256 * 256 := by
  have : (65280 : Nat) = 255 <<< 8 := by decide
  rw [this, ← Nat.shiftLeft_and_distrib]
  have : (255 : Nat) = 2 ^ 8 - 1 := by decide
  rw [this, Nat.and_two_pow_sub_one_eq_mod, Nat.shiftLeft_eq]

theorem shl4_and_f0 (g : Nat) : (g <<< 4) &&& 240 = g % 16 * 16 := by
  have : (240 : Nat) = 15 <<< 4 := by decide
  rw [this, ← Nat.shiftLeft_and_distrib]
  have : (15 : Nat) = 2 ^ 4 - 1 := by decide
  rw [this, Nat.and_two_pow_sub_one_eq_mod, Nat.shiftLeft_eq]

theorem devOf_eq (m : Nat) : devOf m = m % 256 := by
  simp only [devOf, Sb2Consts.memDeviceIdMask, Sb2Consts.memDeviceIdShift, Nat.shiftRight_zero]
  exact Nat.and_two_pow_sub_one_eq_mod m 8

theorem grpOf_eq (m : Nat) : grpOf m = m / 256 % 16 := by
  simp only [grpOf, Sb2Consts.memGroupIdMask, Sb2Consts.memGroupIdShift]
  rw [Nat.shiftRight_and_distrib]
  have : (3840 : Nat) >>> 8 = 2 ^ 4 - 1 := by decide
  rw [this, Nat.and_two_pow_sub_one_eq_mod, Nat.shiftRight_eq_div_pow]

theorem memBits_lt (m : Nat) : Spec.memBits m < 2 ^ 16 := by
  unfold Spec.memBits; omega

theorem withMemFlags_eq (f m : Nat) : withMemFlags f m = f ||| Spec.memBits m := by
  simp only [withMemFlags, Sb2Consts.romDeviceIdMask, Sb2Consts.romDeviceIdShift, Sb2Consts.romGroupIdMask,
    Sb2Consts.romGroupIdShift]
  rw [or_andNot_or, or_andNot_or, devOf_eq, grpOf_eq, shl8_and_ff00, shl4_and_f0, Nat.or_assoc]
  congr 1
  have h : m / 256 % 16 % 16 * 16 < 2 ^ 8 := by omega
  have e : m % 256 % 256 * 256 = (m % 256) <<< 8 := by rw [Nat.shiftLeft_eq]; omega
  rw [e, ← Nat.shiftLeft_add_eq_or_of_lt h, Nat.shiftLeft_eq]
  clear e h
  unfold Spec.memBits
  omega


theorem withMemFlags_lt (f m : Nat) (hf : f < 65536) : withMemFlags f m < 65536 := by
  rw [withMemFlags_eq]
  exact Nat.or_lt_two_pow (n := 16) hf (memBits_lt m)

theorem andNot_ff00 (x : Nat) (h : x < 65536) : andNot x 65280 = x % 256 := by
  have hM : (65280 : Nat) = (2 ^ 16 - 1) ^^^ (2 ^ 8 - 1) := by decide
  have h256 : (256 : Nat) = 2 ^ 8 := by decide
  apply Nat.eq_of_testBit_eq
  intro i
  rw [andNot, hM, h256]
  simp only [Nat.testBit_xor, Nat.testBit_and, Nat.testBit_two_pow_sub_one, Nat.testBit_mod_two_pow]
  by_cases h8 : i < 8
  · have : i < 16 := by omega
    simp [h8, this]
  · by_cases h16 : i < 16
    · simp [h8, h16]
    · have : x.testBit i = false :=
        Nat.testBit_lt_two_pow (Nat.lt_of_lt_of_le (show x < 2 ^ 16 from h) (Nat.pow_le_pow_right (by omega) (by omega)))
      simp [h8, h16, this]

theorem progFlags_eq (m w2 f : Nat) (hm : m < 256) (hf : f < 65536) :
    progFlags m w2 f = (f ||| (if w2 ≠ 0 then 1 else 0)) % 256 + m * 256 := by
  simp only [progFlags, Sb2Consts.romDeviceIdMask, Sb2Consts.romDeviceIdShift]
  have hb : (if w2 ≠ 0 then 1 else 0 : Nat) < 256 := by split <;> omega
  generalize (if w2 ≠ 0 then 1 else 0 : Nat) = b at *
  have hX : b ||| f < 65536 := Nat.or_lt_two_pow (n := 16) (by omega) hf
  rw [andNot_ff00 _ hX, shl8_and_ff00, Nat.mod_eq_of_lt hm, ← Nat.or_assoc]
  have h256 : (256 : Nat) = 2 ^ 8 := by decide
  have e1 : b ||| (b ||| f) % 256 = (f ||| b) % 256 := by
    rw [h256, Nat.or_mod_two_pow, ← Nat.or_assoc, Nat.mod_eq_of_lt (by omega), Nat.or_self,
      Nat.or_mod_two_pow, Nat.mod_eq_of_lt (a := b) (by omega), Nat.or_comm]
  rw [e1, Nat.or_comm, Nat.add_comm]
  have h := Nat.shiftLeft_add_eq_or_of_lt (a := m) (i := 8) (b := (f ||| b) % 256) (by omega)
  rw [Nat.shiftLeft_eq] at h
  exact h.symm


/-! ## fill pattern -/

theorem bitLenF_gt (n : Nat) : ∀ (f x : Nat), 2 ^ n ≤ x → x ≤ f → n < Misc.bitLenF f x := by
  induction n with
  | zero =>
    intro f x h1 h2
    cases f with
    | zero => simp at h1; omega
    | succ f =>
      have : x ≠ 0 := by simp at h1; omega
      simp only [Misc.bitLenF, this, if_false]
      omega
  | succ n ih =>
    intro f x h1 h2
    rw [Nat.pow_succ] at h1
    have hp : 0 < 2 ^ n := Nat.pow_pos (by omega)
    cases f with
    | zero => omega
    | succ f =>
      have : x ≠ 0 := by omega
      simp only [Misc.bitLenF, this, if_false]
      have := ih f (x / 2) (by omega) (by omega)
      omega

theorem bitLen_le (x n : Nat) (h : x < 2 ^ n) : bitLen x ≤ n := Base.bitLenF_le x x n h
theorem bitLen_gt (x n : Nat) (h : 2 ^ n ≤ x) : n < bitLen x := bitLenF_gt n x x h (Nat.le_refl x)

theorem fillWord_ok (p : Nat) (hp : p < 2 ^ 32) : fillWord p = .ok (Spec.fillPattern p) := by
  unfold fillWord Spec.fillPattern
  by_cases h1 : p < 256
  · have := bitLen_le p 8 (by simpa using h1)
    have e : (bitLen p + 7) / 8 = 0 ∨ (bitLen p + 7) / 8 = 1 := by omega
    rcases e with e | e <;> simp [e, h1]
  · by_cases h2 : p < 65536
    · have := bitLen_le p 16 (by simpa using h2)
      have := bitLen_gt p 8 (by simp; omega)
      have e : (bitLen p + 7) / 8 = 2 := by omega
      simp [e, h1, h2]
    · by_cases h3 : p < 2 ^ 24
      · have := bitLen_le p 24 h3
        have := bitLen_gt p 16 (by simp; omega)
        have e : (bitLen p + 7) / 8 = 3 := by omega
        simp [e, h1, h2]
      · have := bitLen_le p 32 hp
        have := bitLen_gt p 24 (by omega)
        have e : (bitLen p + 7) / 8 = 4 := by omega
        simp [e, h1, h2]

theorem fillWordT_eq (p : Nat) (hp : p < 2 ^ 32) : fillWordT p = Spec.fillPattern p := by
  simp [fillWordT, fillWord_ok p hp]

theorem fillPattern_lt (p : Nat) (hp : p < 2 ^ 32) : Spec.fillPattern p < 2 ^ 32 := by
  unfold Spec.fillPattern
  split
  · omega
  · split <;> omega

/-! ## commands -/

theorem keystoreFlags_eq (cid : Nat) (h : cid ∈ [1, 4, 8, 9, 10, 11, 16]) :
    (cid <<< Sb2Consts.keystoreDeviceIdShift) &&& Sb2Consts.keystoreDeviceIdMask = cid * 256 := by
  simp only [Sb2Consts.keystoreDeviceIdShift, Sb2Consts.keystoreDeviceIdMask]
  rw [shl8_and_ff00]
  simp at h
  omega

-- INTERFACE
theorem hdr_inRange (x : Cmd) (wf : Spec.WFcmd x) : x.hdr.inRange = true := by
  rw [inRange_iff]
  cases x with
  | nop => simp [Cmd.hdr, Sb2Consts.tagNop]
  | tag f a c d =>
    obtain ⟨h1, h2, h3, h4⟩ := wf
    simp [Cmd.hdr, Sb2Consts.tagTag]; omega
  | load a d m f =>
    obtain ⟨h1, h2, h3, h4⟩ := wf
    simp only [Cmd.hdr, Sb2Consts.tagLoad]
    refine ⟨by omega, ?_, h1, ?_, ?_⟩
    · rw [withMemFlags_eq, Nat.zero_or]
      exact Nat.or_lt_two_pow (n := 16) h4 (memBits_lt m)
    · rw [zeroPad16_length]; omega
    · unfold loadCrc; omega
  | fill a p l =>
    obtain ⟨h1, h2, h3, h4⟩ := wf
    simp only [Cmd.hdr, Sb2Consts.tagFill]
    refine ⟨by omega, by omega, h1, ?_, ?_⟩
    · split <;> omega
    · rw [fillWordT_eq p h2]; exact fillPattern_lt p h2
  | jump a arg sp =>
    obtain ⟨h1, h2, h3⟩ := wf
    simp only [Cmd.hdr, Sb2Consts.tagJump]
    refine ⟨by omega, ?_, h1, h3, h2⟩
    split <;> omega
  | call a arg =>
    obtain ⟨h1, h2⟩ := wf
    simp only [Cmd.hdr, Sb2Consts.tagCall]
    refine ⟨by omega, by omega, h1, by omega, h2⟩
  | erase a l f m =>
    obtain ⟨h1, h2, h3, h4⟩ := wf
    simp only [Cmd.hdr, Sb2Consts.tagErase]
    exact ⟨by omega, withMemFlags_lt f m h3, h1, h2, by omega⟩
  | reset => simp [Cmd.hdr, Sb2Consts.tagReset]
  | memEnable a s m =>
    obtain ⟨h1, h2, h3⟩ := wf
    simp only [Cmd.hdr, Sb2Consts.tagMemEnable]
    exact ⟨by omega, withMemFlags_lt 0 m (by omega), h1, h2, by omega⟩
  | prog a m w1 w2 f =>
    obtain ⟨h1, h2, h3, h4, h5⟩ := wf
    simp only [Cmd.hdr, Sb2Consts.tagProg]
    refine ⟨by omega, ?_, h1, h3, h4⟩
    rw [progFlags_eq m w2 f h2 h5]; omega
  | versionCheck t v =>
    obtain ⟨h1, h2⟩ := wf
    simp only [Cmd.hdr, Sb2Consts.tagFwVersionCheck]
    exact ⟨by omega, by omega, by omega, h2, by omega⟩
  | keystoreToNv a cid =>
    obtain ⟨h1, h2⟩ := wf
    simp only [Cmd.hdr, Sb2Consts.tagWrKeystoreToNv, Sb2Consts.keystoreCount]
    rw [keystoreFlags_eq cid h2]
    simp at h2
    exact ⟨by omega, by omega, h1, by omega, by omega⟩
  | keystoreFromNv a cid =>
    obtain ⟨h1, h2⟩ := wf
    simp only [Cmd.hdr, Sb2Consts.tagWrKeystoreFromNv, Sb2Consts.keystoreCount]
    rw [keystoreFlags_eq cid h2]
    simp at h2
    exact ⟨by omega, by omega, h1, by omega, by omega⟩

theorem addrOk_of_lt (a : Nat) (h : a < 2 ^ 32) : addrOk a = true := by
  simp [addrOk]; omega

-- INTERFACE
theorem check_ok (x : Cmd) (wf : Spec.WFcmd x) : x.check = .ok () := by
  cases x with
  | nop => rfl
  | tag f a c d => rfl
  | load a d m f => simp [Cmd.check, addrOk_of_lt a wf.1]
  | fill a p l =>
    obtain ⟨h1, h2, h3, h4⟩ := wf
    have : (if l = 0 then 4 else l) % 4 = 0 := by split <;> omega
    simp [Cmd.check, this, fillWord_ok p h2, addrOk_of_lt a h1]
  | jump a arg sp => simp [Cmd.check, addrOk_of_lt a wf.1]
  | call a arg => simp [Cmd.check, addrOk_of_lt a wf.1]
  | erase a l f m => simp [Cmd.check, addrOk_of_lt a wf.1]
  | reset => rfl
  | memEnable a s m => rfl
  | prog a m w1 w2 f =>
    obtain ⟨h1, h2, h3, h4, h5⟩ := wf
    have : ¬ m > 255 := by omega
    simp [Cmd.check, this, addrOk_of_lt _ h1, addrOk_of_lt _ h3, addrOk_of_lt _ h4]
  | versionCheck t v =>
    obtain ⟨h1, h2⟩ := wf
    have : t = 0 ∨ t = 1 := by omega
    simp [Cmd.check, Sb2Consts.versionCheckTypes, this]
  | keystoreToNv a cid =>
    obtain ⟨h1, h2⟩ := wf
    have : cid ≤ 255 := by simp at h2; omega
    simp [Cmd.check, addrOk_of_lt a h1, this]
  | keystoreFromNv a cid =>
    obtain ⟨h1, h2⟩ := wf
    have : cid ≤ 255 := by simp at h2; omega
    simp [Cmd.check, addrOk_of_lt a h1, this]

theorem encodeCmd_eq (x : Cmd) : encodeCmd x = encodeHdr x.hdr ++ x.payload := by
  unfold encodeCmd zeroPad16
  rw [Crypto.zeroPad_of_aligned 16 _ (by rw [encodeHdr_length])]

theorem payload_length (x : Cmd) : 16 + x.payload.length = Spec.cmdLen x := by
  cases x <;> simp [Cmd.payload, Spec.cmdLen, zeroPad16_length]

-- INTERFACE
theorem encodeCmd_length (x : Cmd) : (encodeCmd x).length = Spec.cmdLen x := by
  rw [encodeCmd_eq, List.length_append, encodeHdr_length, payload_length]

-- INTERFACE
theorem cmdLen_pos (x : Cmd) : 16 ≤ Spec.cmdLen x ∧ Spec.cmdLen x % 16 = 0 := by
  cases x <;> simp [Spec.cmdLen] <;> omega

theorem zeroPad16_idem (d : Bytes) : zeroPad16 (zeroPad16 d) = zeroPad16 d := by
  unfold zeroPad16
  exact Crypto.zeroPad_of_aligned 16 _ (Crypto.zeroPad16_length_mod d)

theorem align16_zeroPad16 (d : Bytes) : align16 (zeroPad16 d).length = (zeroPad16 d).length := by
  have := Crypto.zeroPad16_length_mod d
  unfold align16; omega

/-- what both readers see of `encodeCmd x ++ rest` -/
theorem encodeCmd_facts (x : Cmd) (wf : Spec.WFcmd x) (rest : Bytes) :
    let d := encodeCmd x ++ rest
    ¬ d.length < 2 ∧ (d.getD 1 0).toNat = x.hdr.tag ∧ decodeHdr d = .ok x.hdr ∧
    Rom.readHdr d = .ok ⟨x.hdr.tag, x.hdr.flags, x.hdr.address, x.hdr.count, x.hdr.data⟩ ∧
    d.drop 16 = x.payload ++ rest ∧ d.length = 16 + (x.payload ++ rest).length := by
  have hr := hdr_inRange x wf
  obtain ⟨r1, -⟩ := (inRange_iff _).1 hr
  intro d
  have hd : d = encodeHdr x.hdr ++ (x.payload ++ rest) := by
    show encodeCmd x ++ rest = _
    rw [encodeCmd_eq, List.append_assoc]
  have hl : d.length = 16 + (x.payload ++ rest).length := by
    rw [hd, List.length_append, encodeHdr_length]
  refine ⟨by omega, ?_, ?_, ?_, ?_, hl⟩
  · rw [hd, encodeHdr_append]
    simp [u8_toNat _ r1]
  · rw [hd]; exact decodeHdr_encodeHdr _ hr _
  · rw [hd]; exact readHdr_encodeHdr _ hr _
  · rw [hd, List.drop_append_of_le_length (by rw [encodeHdr_length]; omega),
      List.drop_of_length_le (by rw [encodeHdr_length]; omega), List.nil_append]

-- INTERFACE: `parse_command(cmd.export() + rest)` is the canonical form of the command
theorem decodeCmd_encodeCmd (x : Cmd) (wf : Spec.WFcmd x) (rest : Bytes) :
    decodeCmd (encodeCmd x ++ rest) = .ok (x.canon, (encodeCmd x).length) := by
  obtain ⟨f1, f2, f3, -, f5, -⟩ := encodeCmd_facts x wf rest
  rw [encodeCmd_length]
  unfold decodeCmd
  rw [if_neg f1]
  simp only [f2, f3, f5]
  cases x with
  | nop => simp [Cmd.hdr, knownTags, Sb2Consts.tagNop, Sb2Consts.tagTag, Sb2Consts.tagLoad, Sb2Consts.tagFill, Sb2Consts.tagJump, Sb2Consts.tagCall,
      Sb2Consts.tagErase, Sb2Consts.tagReset, Sb2Consts.tagMemEnable, Sb2Consts.tagProg, Sb2Consts.tagFwVersionCheck,
      Sb2Consts.tagWrKeystoreToNv, Sb2Consts.tagWrKeystoreFromNv, Cmd.canon, Spec.cmdLen]
  | tag f a c d => simp [Cmd.hdr, knownTags, Sb2Consts.tagNop, Sb2Consts.tagTag, Sb2Consts.tagLoad, Sb2Consts.tagFill, Sb2Consts.tagJump, Sb2Consts.tagCall,
      Sb2Consts.tagErase, Sb2Consts.tagReset, Sb2Consts.tagMemEnable, Sb2Consts.tagProg, Sb2Consts.tagFwVersionCheck,
      Sb2Consts.tagWrKeystoreToNv, Sb2Consts.tagWrKeystoreFromNv, Cmd.canon, Spec.cmdLen]
  | load a d m f =>
    have e1 : ((zeroPad16 d ++ rest).take (align16 (zeroPad16 d).length)) = zeroPad16 d := by
      rw [align16_zeroPad16, List.take_left]
    simp only [Cmd.hdr, Cmd.payload, e1, zeroPad16_idem]
    simp [knownTags, Sb2Consts.tagNop, Sb2Consts.tagTag, Sb2Consts.tagLoad, Sb2Consts.tagFill, Sb2Consts.tagJump, Sb2Consts.tagCall,
      Sb2Consts.tagErase, Sb2Consts.tagReset, Sb2Consts.tagMemEnable, Sb2Consts.tagProg, Sb2Consts.tagFwVersionCheck,
      Sb2Consts.tagWrKeystoreToNv, Sb2Consts.tagWrKeystoreFromNv, Cmd.canon, Spec.cmdLen, zeroPad16_length]
  | fill a p l =>
    obtain ⟨h1, h2, h3, h4⟩ := wf
    have e1 : (if l = 0 then 4 else l) ≠ 0 := by split <;> omega
    have e2 : (if l = 0 then 4 else l) % 4 = 0 := by split <;> omega
    simp [Cmd.hdr, knownTags, Sb2Consts.tagNop, Sb2Consts.tagTag, Sb2Consts.tagLoad, Sb2Consts.tagFill, Sb2Consts.tagJump, Sb2Consts.tagCall,
      Sb2Consts.tagErase, Sb2Consts.tagReset, Sb2Consts.tagMemEnable, Sb2Consts.tagProg, Sb2Consts.tagFwVersionCheck,
      Sb2Consts.tagWrKeystoreToNv, Sb2Consts.tagWrKeystoreFromNv, Cmd.canon, Spec.cmdLen, e1, e2]
  | jump a arg sp =>
    cases sp <;> simp [Cmd.hdr, knownTags, Sb2Consts.tagNop, Sb2Consts.tagTag, Sb2Consts.tagLoad, Sb2Consts.tagFill, Sb2Consts.tagJump, Sb2Consts.tagCall,
      Sb2Consts.tagErase, Sb2Consts.tagReset, Sb2Consts.tagMemEnable, Sb2Consts.tagProg, Sb2Consts.tagFwVersionCheck,
      Sb2Consts.tagWrKeystoreToNv, Sb2Consts.tagWrKeystoreFromNv, Cmd.canon, Spec.cmdLen]
  | call a arg => simp [Cmd.hdr, knownTags, Sb2Consts.tagNop, Sb2Consts.tagTag, Sb2Consts.tagLoad, Sb2Consts.tagFill, Sb2Consts.tagJump, Sb2Consts.tagCall,
      Sb2Consts.tagErase, Sb2Consts.tagReset, Sb2Consts.tagMemEnable, Sb2Consts.tagProg, Sb2Consts.tagFwVersionCheck,
      Sb2Consts.tagWrKeystoreToNv, Sb2Consts.tagWrKeystoreFromNv, Cmd.canon, Spec.cmdLen]
  | erase a l f m => simp [Cmd.hdr, knownTags, Sb2Consts.tagNop, Sb2Consts.tagTag, Sb2Consts.tagLoad, Sb2Consts.tagFill, Sb2Consts.tagJump, Sb2Consts.tagCall,
      Sb2Consts.tagErase, Sb2Consts.tagReset, Sb2Consts.tagMemEnable, Sb2Consts.tagProg, Sb2Consts.tagFwVersionCheck,
      Sb2Consts.tagWrKeystoreToNv, Sb2Consts.tagWrKeystoreFromNv, Cmd.canon, Spec.cmdLen]
  | reset => simp [Cmd.hdr, knownTags, Sb2Consts.tagNop, Sb2Consts.tagTag, Sb2Consts.tagLoad, Sb2Consts.tagFill, Sb2Consts.tagJump, Sb2Consts.tagCall,
      Sb2Consts.tagErase, Sb2Consts.tagReset, Sb2Consts.tagMemEnable, Sb2Consts.tagProg, Sb2Consts.tagFwVersionCheck,
      Sb2Consts.tagWrKeystoreToNv, Sb2Consts.tagWrKeystoreFromNv, Cmd.canon, Spec.cmdLen]
  | memEnable a s m => simp [Cmd.hdr, knownTags, Sb2Consts.tagNop, Sb2Consts.tagTag, Sb2Consts.tagLoad, Sb2Consts.tagFill, Sb2Consts.tagJump, Sb2Consts.tagCall,
      Sb2Consts.tagErase, Sb2Consts.tagReset, Sb2Consts.tagMemEnable, Sb2Consts.tagProg, Sb2Consts.tagFwVersionCheck,
      Sb2Consts.tagWrKeystoreToNv, Sb2Consts.tagWrKeystoreFromNv, Cmd.canon, Spec.cmdLen]
  | prog a m w1 w2 f => simp [Cmd.hdr, knownTags, Sb2Consts.tagNop, Sb2Consts.tagTag, Sb2Consts.tagLoad, Sb2Consts.tagFill, Sb2Consts.tagJump, Sb2Consts.tagCall,
      Sb2Consts.tagErase, Sb2Consts.tagReset, Sb2Consts.tagMemEnable, Sb2Consts.tagProg, Sb2Consts.tagFwVersionCheck,
      Sb2Consts.tagWrKeystoreToNv, Sb2Consts.tagWrKeystoreFromNv, Cmd.canon, Spec.cmdLen]
  | versionCheck t v =>
    obtain ⟨h1, h2⟩ := wf
    have : t = 0 ∨ t = 1 := by omega
    simp [Cmd.hdr, knownTags, Sb2Consts.tagNop, Sb2Consts.tagTag, Sb2Consts.tagLoad, Sb2Consts.tagFill, Sb2Consts.tagJump, Sb2Consts.tagCall,
      Sb2Consts.tagErase, Sb2Consts.tagReset, Sb2Consts.tagMemEnable, Sb2Consts.tagProg, Sb2Consts.tagFwVersionCheck,
      Sb2Consts.tagWrKeystoreToNv, Sb2Consts.tagWrKeystoreFromNv, Cmd.canon, Spec.cmdLen, Sb2Consts.versionCheckTypes, this]
  | keystoreToNv a cid =>
    obtain ⟨h1, h2⟩ := wf
    have e1 := keystoreFlags_eq cid h2
    have e2 : (cid * 256 &&& Sb2Consts.keystoreDeviceIdMask) >>> Sb2Consts.keystoreDeviceIdShift = cid := by
      simp at h2
      rcases h2 with h | h | h | h | h | h | h <;> subst h <;> decide
    have e3 : cid ∈ Sb2Consts.extMemIds := h2
    simp [Cmd.hdr, knownTags, Sb2Consts.tagNop, Sb2Consts.tagTag, Sb2Consts.tagLoad, Sb2Consts.tagFill, Sb2Consts.tagJump, Sb2Consts.tagCall,
      Sb2Consts.tagErase, Sb2Consts.tagReset, Sb2Consts.tagMemEnable, Sb2Consts.tagProg, Sb2Consts.tagFwVersionCheck,
      Sb2Consts.tagWrKeystoreToNv, Sb2Consts.tagWrKeystoreFromNv, Cmd.canon, Spec.cmdLen, e1, e2, e3]
  | keystoreFromNv a cid =>
    obtain ⟨h1, h2⟩ := wf
    have e1 := keystoreFlags_eq cid h2
    have e2 : (cid * 256 &&& Sb2Consts.keystoreDeviceIdMask) >>> Sb2Consts.keystoreDeviceIdShift = cid := by
      simp at h2
      rcases h2 with h | h | h | h | h | h | h <;> subst h <;> decide
    have e3 : cid ∈ Sb2Consts.extMemIds := h2
    simp [Cmd.hdr, knownTags, Sb2Consts.tagNop, Sb2Consts.tagTag, Sb2Consts.tagLoad, Sb2Consts.tagFill, Sb2Consts.tagJump, Sb2Consts.tagCall,
      Sb2Consts.tagErase, Sb2Consts.tagReset, Sb2Consts.tagMemEnable, Sb2Consts.tagProg, Sb2Consts.tagFwVersionCheck,
      Sb2Consts.tagWrKeystoreToNv, Sb2Consts.tagWrKeystoreFromNv, Cmd.canon, Spec.cmdLen, e1, e2, e3]

-- INTERFACE: the ROM decodes an exported command to the command that was given (`Spec.view`)
theorem readCmd_encodeCmd (x : Cmd) (wf : Spec.WFcmd x) (rest : Bytes) :
    Rom.readCmd (encodeCmd x ++ rest) = .ok (Spec.view x, Spec.cmdLen x) := by
  obtain ⟨-, -, -, f4, f5, f6⟩ := encodeCmd_facts x wf rest
  unfold Rom.readCmd
  simp only [f4, f5, f6]
  cases x with
  | nop => simp [Cmd.hdr, Sb2Consts.tagNop, Sb2Consts.tagTag, Sb2Consts.tagLoad, Sb2Consts.tagFill, Sb2Consts.tagJump, Sb2Consts.tagCall,
      Sb2Consts.tagErase, Sb2Consts.tagReset, Sb2Consts.tagMemEnable, Sb2Consts.tagProg, Sb2Consts.tagFwVersionCheck,
      Sb2Consts.tagWrKeystoreToNv, Sb2Consts.tagWrKeystoreFromNv,
      Rom.Spec.tagNop, Rom.Spec.tagTag, Rom.Spec.tagLoad, Rom.Spec.tagFill, Rom.Spec.tagJump, Rom.Spec.tagCall,
      Rom.Spec.tagErase, Rom.Spec.tagReset, Rom.Spec.tagMemEnable, Rom.Spec.tagProg, Rom.Spec.tagFwVersionCheck,
      Rom.Spec.tagWrKeystoreToNv, Rom.Spec.tagWrKeystoreFromNv, Rom.Spec.jumpSpFlag, Spec.view, Spec.cmdLen]
  | tag f a c d => simp [Cmd.hdr, Sb2Consts.tagNop, Sb2Consts.tagTag, Sb2Consts.tagLoad, Sb2Consts.tagFill, Sb2Consts.tagJump, Sb2Consts.tagCall,
      Sb2Consts.tagErase, Sb2Consts.tagReset, Sb2Consts.tagMemEnable, Sb2Consts.tagProg, Sb2Consts.tagFwVersionCheck,
      Sb2Consts.tagWrKeystoreToNv, Sb2Consts.tagWrKeystoreFromNv,
      Rom.Spec.tagNop, Rom.Spec.tagTag, Rom.Spec.tagLoad, Rom.Spec.tagFill, Rom.Spec.tagJump, Rom.Spec.tagCall,
      Rom.Spec.tagErase, Rom.Spec.tagReset, Rom.Spec.tagMemEnable, Rom.Spec.tagProg, Rom.Spec.tagFwVersionCheck,
      Rom.Spec.tagWrKeystoreToNv, Rom.Spec.tagWrKeystoreFromNv, Rom.Spec.jumpSpFlag, Spec.view, Spec.cmdLen]
  | load a d m f =>
    have hm := Crypto.zeroPad16_length_mod d
    have e0 : ((zeroPad16 d).length + 15) / 16 * 16 = (zeroPad16 d).length := by omega
    have e1 : ((zeroPad16 d ++ rest).take (zeroPad16 d).length) = zeroPad16 d := List.take_left
    have e2 : crc32Mpeg (zeroPad16 d) = loadCrc (zeroPad16 d) := rfl
    simp only [Cmd.hdr, Cmd.payload, e0, e1, e2]
    simp [Sb2Consts.tagNop, Sb2Consts.tagTag, Sb2Consts.tagLoad, Sb2Consts.tagFill, Sb2Consts.tagJump, Sb2Consts.tagCall,
      Sb2Consts.tagErase, Sb2Consts.tagReset, Sb2Consts.tagMemEnable, Sb2Consts.tagProg, Sb2Consts.tagFwVersionCheck,
      Sb2Consts.tagWrKeystoreToNv, Sb2Consts.tagWrKeystoreFromNv, Rom.Spec.tagNop, Rom.Spec.tagTag, Rom.Spec.tagLoad, Rom.Spec.tagFill, Rom.Spec.tagJump, Rom.Spec.tagCall,
      Rom.Spec.tagErase, Rom.Spec.tagReset, Rom.Spec.tagMemEnable, Rom.Spec.tagProg, Rom.Spec.tagFwVersionCheck,
      Rom.Spec.tagWrKeystoreToNv, Rom.Spec.tagWrKeystoreFromNv, Rom.Spec.jumpSpFlag, Spec.view, Spec.cmdLen, withMemFlags_eq, zeroPad16_length, ← zeroPad16_eq_pad16]
  | fill a p l =>
    obtain ⟨h1, h2, h3, h4⟩ := wf
    simp [Cmd.hdr, Sb2Consts.tagNop, Sb2Consts.tagTag, Sb2Consts.tagLoad, Sb2Consts.tagFill, Sb2Consts.tagJump, Sb2Consts.tagCall,
      Sb2Consts.tagErase, Sb2Consts.tagReset, Sb2Consts.tagMemEnable, Sb2Consts.tagProg, Sb2Consts.tagFwVersionCheck,
      Sb2Consts.tagWrKeystoreToNv, Sb2Consts.tagWrKeystoreFromNv,
      Rom.Spec.tagNop, Rom.Spec.tagTag, Rom.Spec.tagLoad, Rom.Spec.tagFill, Rom.Spec.tagJump, Rom.Spec.tagCall,
      Rom.Spec.tagErase, Rom.Spec.tagReset, Rom.Spec.tagMemEnable, Rom.Spec.tagProg, Rom.Spec.tagFwVersionCheck,
      Rom.Spec.tagWrKeystoreToNv, Rom.Spec.tagWrKeystoreFromNv, Rom.Spec.jumpSpFlag, Spec.view, Spec.cmdLen, fillWordT_eq p h2]
  | jump a arg sp =>
    cases sp <;> simp [Cmd.hdr, Sb2Consts.tagNop, Sb2Consts.tagTag, Sb2Consts.tagLoad, Sb2Consts.tagFill, Sb2Consts.tagJump, Sb2Consts.tagCall,
      Sb2Consts.tagErase, Sb2Consts.tagReset, Sb2Consts.tagMemEnable, Sb2Consts.tagProg, Sb2Consts.tagFwVersionCheck,
      Sb2Consts.tagWrKeystoreToNv, Sb2Consts.tagWrKeystoreFromNv,
      Rom.Spec.tagNop, Rom.Spec.tagTag, Rom.Spec.tagLoad, Rom.Spec.tagFill, Rom.Spec.tagJump, Rom.Spec.tagCall,
      Rom.Spec.tagErase, Rom.Spec.tagReset, Rom.Spec.tagMemEnable, Rom.Spec.tagProg, Rom.Spec.tagFwVersionCheck,
      Rom.Spec.tagWrKeystoreToNv, Rom.Spec.tagWrKeystoreFromNv, Rom.Spec.jumpSpFlag, Spec.view, Spec.cmdLen]
  | call a arg => simp [Cmd.hdr, Sb2Consts.tagNop, Sb2Consts.tagTag, Sb2Consts.tagLoad, Sb2Consts.tagFill, Sb2Consts.tagJump, Sb2Consts.tagCall,
      Sb2Consts.tagErase, Sb2Consts.tagReset, Sb2Consts.tagMemEnable, Sb2Consts.tagProg, Sb2Consts.tagFwVersionCheck,
      Sb2Consts.tagWrKeystoreToNv, Sb2Consts.tagWrKeystoreFromNv,
      Rom.Spec.tagNop, Rom.Spec.tagTag, Rom.Spec.tagLoad, Rom.Spec.tagFill, Rom.Spec.tagJump, Rom.Spec.tagCall,
      Rom.Spec.tagErase, Rom.Spec.tagReset, Rom.Spec.tagMemEnable, Rom.Spec.tagProg, Rom.Spec.tagFwVersionCheck,
      Rom.Spec.tagWrKeystoreToNv, Rom.Spec.tagWrKeystoreFromNv, Rom.Spec.jumpSpFlag, Spec.view, Spec.cmdLen]
  | erase a l f m => simp [Cmd.hdr, Sb2Consts.tagNop, Sb2Consts.tagTag, Sb2Consts.tagLoad, Sb2Consts.tagFill, Sb2Consts.tagJump, Sb2Consts.tagCall,
      Sb2Consts.tagErase, Sb2Consts.tagReset, Sb2Consts.tagMemEnable, Sb2Consts.tagProg, Sb2Consts.tagFwVersionCheck,
      Sb2Consts.tagWrKeystoreToNv, Sb2Consts.tagWrKeystoreFromNv,
      Rom.Spec.tagNop, Rom.Spec.tagTag, Rom.Spec.tagLoad, Rom.Spec.tagFill, Rom.Spec.tagJump, Rom.Spec.tagCall,
      Rom.Spec.tagErase, Rom.Spec.tagReset, Rom.Spec.tagMemEnable, Rom.Spec.tagProg, Rom.Spec.tagFwVersionCheck,
      Rom.Spec.tagWrKeystoreToNv, Rom.Spec.tagWrKeystoreFromNv, Rom.Spec.jumpSpFlag, Spec.view, Spec.cmdLen, withMemFlags_eq]
  | reset => simp [Cmd.hdr, Sb2Consts.tagNop, Sb2Consts.tagTag, Sb2Consts.tagLoad, Sb2Consts.tagFill, Sb2Consts.tagJump, Sb2Consts.tagCall,
      Sb2Consts.tagErase, Sb2Consts.tagReset, Sb2Consts.tagMemEnable, Sb2Consts.tagProg, Sb2Consts.tagFwVersionCheck,
      Sb2Consts.tagWrKeystoreToNv, Sb2Consts.tagWrKeystoreFromNv,
      Rom.Spec.tagNop, Rom.Spec.tagTag, Rom.Spec.tagLoad, Rom.Spec.tagFill, Rom.Spec.tagJump, Rom.Spec.tagCall,
      Rom.Spec.tagErase, Rom.Spec.tagReset, Rom.Spec.tagMemEnable, Rom.Spec.tagProg, Rom.Spec.tagFwVersionCheck,
      Rom.Spec.tagWrKeystoreToNv, Rom.Spec.tagWrKeystoreFromNv, Rom.Spec.jumpSpFlag, Spec.view, Spec.cmdLen]
  | memEnable a s m => simp [Cmd.hdr, Sb2Consts.tagNop, Sb2Consts.tagTag, Sb2Consts.tagLoad, Sb2Consts.tagFill, Sb2Consts.tagJump, Sb2Consts.tagCall,
      Sb2Consts.tagErase, Sb2Consts.tagReset, Sb2Consts.tagMemEnable, Sb2Consts.tagProg, Sb2Consts.tagFwVersionCheck,
      Sb2Consts.tagWrKeystoreToNv, Sb2Consts.tagWrKeystoreFromNv,
      Rom.Spec.tagNop, Rom.Spec.tagTag, Rom.Spec.tagLoad, Rom.Spec.tagFill, Rom.Spec.tagJump, Rom.Spec.tagCall,
      Rom.Spec.tagErase, Rom.Spec.tagReset, Rom.Spec.tagMemEnable, Rom.Spec.tagProg, Rom.Spec.tagFwVersionCheck,
      Rom.Spec.tagWrKeystoreToNv, Rom.Spec.tagWrKeystoreFromNv, Rom.Spec.jumpSpFlag, Spec.view, Spec.cmdLen, withMemFlags_eq]
  | prog a m w1 w2 f =>
    obtain ⟨h1, h2, h3, h4, h5⟩ := wf
    simp [Cmd.hdr, Sb2Consts.tagNop, Sb2Consts.tagTag, Sb2Consts.tagLoad, Sb2Consts.tagFill, Sb2Consts.tagJump, Sb2Consts.tagCall,
      Sb2Consts.tagErase, Sb2Consts.tagReset, Sb2Consts.tagMemEnable, Sb2Consts.tagProg, Sb2Consts.tagFwVersionCheck,
      Sb2Consts.tagWrKeystoreToNv, Sb2Consts.tagWrKeystoreFromNv,
      Rom.Spec.tagNop, Rom.Spec.tagTag, Rom.Spec.tagLoad, Rom.Spec.tagFill, Rom.Spec.tagJump, Rom.Spec.tagCall,
      Rom.Spec.tagErase, Rom.Spec.tagReset, Rom.Spec.tagMemEnable, Rom.Spec.tagProg, Rom.Spec.tagFwVersionCheck,
      Rom.Spec.tagWrKeystoreToNv, Rom.Spec.tagWrKeystoreFromNv, Rom.Spec.jumpSpFlag, Spec.view, Spec.cmdLen, progFlags_eq m w2 f h2 h5]
  | versionCheck t v => simp [Cmd.hdr, Sb2Consts.tagNop, Sb2Consts.tagTag, Sb2Consts.tagLoad, Sb2Consts.tagFill, Sb2Consts.tagJump, Sb2Consts.tagCall,
      Sb2Consts.tagErase, Sb2Consts.tagReset, Sb2Consts.tagMemEnable, Sb2Consts.tagProg, Sb2Consts.tagFwVersionCheck,
      Sb2Consts.tagWrKeystoreToNv, Sb2Consts.tagWrKeystoreFromNv,
      Rom.Spec.tagNop, Rom.Spec.tagTag, Rom.Spec.tagLoad, Rom.Spec.tagFill, Rom.Spec.tagJump, Rom.Spec.tagCall,
      Rom.Spec.tagErase, Rom.Spec.tagReset, Rom.Spec.tagMemEnable, Rom.Spec.tagProg, Rom.Spec.tagFwVersionCheck,
      Rom.Spec.tagWrKeystoreToNv, Rom.Spec.tagWrKeystoreFromNv, Rom.Spec.jumpSpFlag, Spec.view, Spec.cmdLen]
  | keystoreToNv a cid => simp [Cmd.hdr, Sb2Consts.tagNop, Sb2Consts.tagTag, Sb2Consts.tagLoad, Sb2Consts.tagFill, Sb2Consts.tagJump, Sb2Consts.tagCall,
      Sb2Consts.tagErase, Sb2Consts.tagReset, Sb2Consts.tagMemEnable, Sb2Consts.tagProg, Sb2Consts.tagFwVersionCheck,
      Sb2Consts.tagWrKeystoreToNv, Sb2Consts.tagWrKeystoreFromNv,
      Rom.Spec.tagNop, Rom.Spec.tagTag, Rom.Spec.tagLoad, Rom.Spec.tagFill, Rom.Spec.tagJump, Rom.Spec.tagCall,
      Rom.Spec.tagErase, Rom.Spec.tagReset, Rom.Spec.tagMemEnable, Rom.Spec.tagProg, Rom.Spec.tagFwVersionCheck,
      Rom.Spec.tagWrKeystoreToNv, Rom.Spec.tagWrKeystoreFromNv, Rom.Spec.jumpSpFlag, Spec.view, Spec.cmdLen, keystoreFlags_eq cid wf.2]
  | keystoreFromNv a cid => simp [Cmd.hdr, Sb2Consts.tagNop, Sb2Consts.tagTag, Sb2Consts.tagLoad, Sb2Consts.tagFill, Sb2Consts.tagJump, Sb2Consts.tagCall,
      Sb2Consts.tagErase, Sb2Consts.tagReset, Sb2Consts.tagMemEnable, Sb2Consts.tagProg, Sb2Consts.tagFwVersionCheck,
      Sb2Consts.tagWrKeystoreToNv, Sb2Consts.tagWrKeystoreFromNv,
      Rom.Spec.tagNop, Rom.Spec.tagTag, Rom.Spec.tagLoad, Rom.Spec.tagFill, Rom.Spec.tagJump, Rom.Spec.tagCall,
      Rom.Spec.tagErase, Rom.Spec.tagReset, Rom.Spec.tagMemEnable, Rom.Spec.tagProg, Rom.Spec.tagFwVersionCheck,
      Rom.Spec.tagWrKeystoreToNv, Rom.Spec.tagWrKeystoreFromNv, Rom.Spec.jumpSpFlag, Spec.view, Spec.cmdLen, keystoreFlags_eq cid wf.2]

/-! ## command streams -/

theorem cmdsLen_cons (x : Cmd) (cmds : List Cmd) : Spec.cmdsLen (x :: cmds) = Spec.cmdLen x + Spec.cmdsLen cmds := by
  simp [Spec.cmdsLen]

theorem cmdsLen_mod (cmds : List Cmd) : Spec.cmdsLen cmds % 16 = 0 := by
  induction cmds with
  | nil => simp [Spec.cmdsLen]
  | cons x cmds ih =>
    have := (cmdLen_pos x).2
    rw [cmdsLen_cons]; omega

theorem flatten_encode_length (cmds : List Cmd) : (cmds.map encodeCmd).flatten.length = Spec.cmdsLen cmds := by
  induction cmds with
  | nil => simp [Spec.cmdsLen]
  | cons x cmds ih => simp [cmdsLen_cons, encodeCmd_length, ih]

/-- the final `% 16` padding of a section's command data never adds anything -/
theorem cmdsData_eq (cmds : List Cmd) : cmdsData cmds = (cmds.map encodeCmd).flatten := by
  unfold cmdsData zeroPad16
  exact Crypto.zeroPad_of_aligned 16 _ (by rw [flatten_encode_length]; exact cmdsLen_mod cmds)

-- INTERFACE
theorem cmdsData_length (cmds : List Cmd) :
    (cmdsData cmds).length = Spec.cmdsLen cmds ∧ Spec.cmdsLen cmds % 16 = 0 :=
  ⟨by rw [cmdsData_eq, flatten_encode_length], cmdsLen_mod cmds⟩

-- INTERFACE: every command occupies at least one block
theorem cmds_length_le (cmds : List Cmd) : cmds.length ≤ Spec.cmdsLen cmds / 16 := by
  induction cmds with
  | nil => simp
  | cons x cmds ih =>
    have := (cmdLen_pos x).1
    rw [cmdsLen_cons, List.length_cons]; omega

-- INTERFACE
theorem rawSize_sum (cmds : List Cmd) : (cmds.map Cmd.rawSize).sum = Spec.cmdsLen cmds := by
  have : Cmd.rawSize = Spec.cmdLen := by
    funext x; exact payload_length x
  rw [this, Spec.cmdsLen]

-- INTERFACE: the ROM reads the whole stream of a section back, command for command
theorem readCmds_cmdsData (cmds : List Cmd) (wf : ∀ x ∈ cmds, Spec.WFcmd x) (fuel : Nat) (hf : cmds.length ≤ fuel) :
    Rom.readCmds fuel (cmdsData cmds) = .ok (cmds.map Spec.view) := by
  rw [cmdsData_eq]
  induction cmds generalizing fuel with
  | nil => cases fuel <;> simp [Rom.readCmds]
  | cons x cmds ih =>
    cases fuel with
    | zero => simp at hf
    | succ fuel =>
      have hx := wf x (by simp)
      have hne : ((x :: cmds).map encodeCmd).flatten.isEmpty = false := by
        have h1 := flatten_encode_length (x :: cmds)
        have h2 := (cmdLen_pos x).1
        rw [cmdsLen_cons] at h1
        cases h : ((x :: cmds).map encodeCmd).flatten with
        | nil => rw [h] at h1; simp at h1; omega
        | cons _ _ => rfl
      rw [Rom.readCmds, hne]
      simp only [List.map_cons, List.flatten_cons, Bool.false_eq_true, if_false]
      rw [readCmd_encodeCmd x hx]
      simp only
      rw [← encodeCmd_length, List.drop_left, ih (fun y hy => wf y (by simp [hy])) fuel (by simpa using hf)]

end SpsdkVerif.Sb2
