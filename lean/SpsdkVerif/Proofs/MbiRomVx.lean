/-
C02 for the header-less "Vx" images (mc56f81xxx / mwct20x2): the independent ROM model `Spec.MbiRomVx.romVx`
(Spec/MbiRomVx.lean, own constants) accepts every image the Vx model (Model/MbiVx.lean, tied to /repo by the C01
correspondence stream `vx`) exports, and the tamper reductions: a changed byte of the signed ranges that is still accepted
with the image-signature obligation holding is a signature forgery; a changed byte of the data part of a CRC image is
rejected unconditionally (single-byte error detection of CRC-32/MPEG-2).
-/
import SpsdkVerif.Proofs.MbiVx
import SpsdkVerif.Proofs.MbiRomNegCrc
import SpsdkVerif.Spec.MbiRomVx
import SpsdkVerif.Crypto.Break

namespace SpsdkVerif.Mbi.Vx
open SpsdkVerif SpsdkVerif.Misc SpsdkVerif.Crypto SpsdkVerif.Mbi
open SpsdkVerif.Generated.IvtConsts

/-- the ROM side's name of the three Vx image kinds -/
def romKind : Kind → Spec.MbiRomVx.Kind
  | .plain => .plain
  | .crc => .crc
  | .signed => .signed

/-- the (opaque) ISK certificate block handed to the builder is an ISK certificate of the format (size, magic, version) and
    `cert_hash` is what the format stores: the first 16 bytes of its SHA-256 -/
def VxCertOK (co : CryptoOps) (cfg : Cfg) : Prop :=
  cfg.cert.length = Spec.MbiRomVx.iskCertSize
  ∧ Spec.MbiRom.rd16 cfg.cert 0 = Spec.MbiRomVx.iskMagic ∧ Spec.MbiRom.rd16 cfg.cert 2 = Spec.MbiRomVx.iskVersion
  ∧ (cfg.addHash = true → cfg.certHash = (co.hash .sha256 cfg.cert).take Spec.MbiRomVx.iskHashSize)

/-- what the ROM answers for an accepted signed image -/
def vxAccepted (rootPub img : Bytes) : Spec.MbiRom.Accepted :=
  { obligations := [.ecdsa rootPub (slice img 1040 1112) (slice img 1112 1176),
                    .ecdsa (slice img 1048 1112) (dataToSign img) (slice img 896 960)]
    authenticated := [(0, 1024), (1040, 1176), (1184, 1200), (3072, img.length)] }

theorem vxrom_signedData (img : Bytes) : Spec.MbiRomVx.signedData img = dataToSign img := rfl

theorem vxrom_need_ok {b : Bool} {w : String} (h : b = true) : Spec.MbiRom.need b w = .ok () := by
  simp [Spec.MbiRom.need, h]

theorem vxrom_dataToSign_length (img : Bytes) (h : 3072 ≤ img.length) : (dataToSign img).length = img.length - 2144 := by
  unfold dataToSign slice
  vxc
  simp only [List.length_append, List.length_take, List.length_drop]
  omega

/-- the acceptance conditions of the signed ROM check, read off the definition -/
theorem vxrom_signed_ok (co : CryptoOps) (env : Spec.MbiRomVx.VxEnv) (img : Bytes) (h1 : 3072 ≤ img.length)
    (h2 : rd32 img 992 = (dataToSign img).length) (h3 : slice img 864 896 = co.hash .sha256 (dataToSign img))
    (h4 : Spec.MbiRom.rd16 img 1040 = 0x4D43) (h5 : Spec.MbiRom.rd16 img 1042 = 1)
    (h6 : env.iskHash = true → slice img 1184 1200 = (co.hash .sha256 (slice img 1040 1176)).take 16) :
    Spec.MbiRomVx.romVxSigned co env img = .ok (vxAccepted env.rootPub img) := by
  unfold Spec.MbiRomVx.romVxSigned
  have e1 : decide (img.length ≥ Spec.MbiRomVx.dataStart) = true :=
    decide_eq_true (show img.length ≥ Spec.MbiRomVx.dataStart from h1)
  have e2 : (Spec.MbiRom.rd32 img (Spec.MbiRomVx.bcaOff + Spec.MbiRomVx.bcaImageLength)
      == (Spec.MbiRomVx.signedData img).length) = true := by
    rw [vxrom_signedData, beq_iff_eq]; exact h2
  have e3 : (Spec.MbiRom.sub img Spec.MbiRomVx.digestOff Spec.MbiRomVx.sigOff
      == co.hash .sha256 (Spec.MbiRomVx.signedData img)) = true := by
    rw [vxrom_signedData, beq_iff_eq]; exact h3
  have e4 : decide ((Spec.MbiRom.rd16 img Spec.MbiRomVx.iskOff == Spec.MbiRomVx.iskMagic) = true
      ∧ (Spec.MbiRom.rd16 img (Spec.MbiRomVx.iskOff + 2) == Spec.MbiRomVx.iskVersion) = true) = true := by
    simp only [decide_eq_true_eq, beq_iff_eq]; exact ⟨h4, h5⟩
  have e5 : decide ((!env.iskHash) = true ∨
      (Spec.MbiRom.sub img Spec.MbiRomVx.iskHashOff (Spec.MbiRomVx.iskHashOff + Spec.MbiRomVx.iskHashSize)
        == (co.hash .sha256 (Spec.MbiRom.sub img Spec.MbiRomVx.iskOff (Spec.MbiRomVx.iskOff + Spec.MbiRomVx.iskCertSize))).take
              Spec.MbiRomVx.iskHashSize) = true) = true := by
    simp only [decide_eq_true_eq, beq_iff_eq]
    cases hi : env.iskHash
    · left; rfl
    · right; exact h6 hi
  simp only [Spec.MbiRom.need, e1, e2, e3, e4, e5, if_true, bind, Except.bind, pure, Except.pure]
  rfl

/-- ... and the converse: what an accepted signed image looks like -/
theorem vxrom_signed_inv (co : CryptoOps) (env : Spec.MbiRomVx.VxEnv) (img : Bytes) (a : Spec.MbiRom.Accepted)
    (h : Spec.MbiRomVx.romVxSigned co env img = .ok a) :
    3072 ≤ img.length ∧ rd32 img 992 = (dataToSign img).length
      ∧ slice img 864 896 = co.hash .sha256 (dataToSign img) ∧ a = vxAccepted env.rootPub img := by
  unfold Spec.MbiRomVx.romVxSigned at h
  obtain ⟨h1, h⟩ := romneg_need _ _ _ _ h
  simp only [] at h
  obtain ⟨h2, h⟩ := romneg_need _ _ _ _ h
  obtain ⟨h3, h⟩ := romneg_need _ _ _ _ h
  obtain ⟨_, h⟩ := romneg_need _ _ _ _ h
  obtain ⟨_, h⟩ := romneg_need _ _ _ _ h
  refine ⟨?_, ?_, ?_, ?_⟩
  · simpa [Spec.MbiRomVx.dataStart] using h1
  · exact beq_iff_eq.mp h2
  · exact beq_iff_eq.mp h3
  · injection h with h; exact h.symm

/-! ### acceptance -/

theorem vxrom_export_unique {co : CryptoOps} {k : Kind} {cfg : Cfg} {signer : Signer} {e e' : Bytes}
    (h : exportImage co k cfg signer = .ok e) (h' : exportImage co k cfg signer = .ok e') : e' = e := by
  rw [h] at h'; injection h' with h'; exact h'.symm

theorem vxrom_rd16_of_slice (img c : Bytes) (a n off : Nat) (h : slice img a (a + n) = c) (ho : off + 2 ≤ n) :
    Spec.MbiRom.rd16 img (a + off) = Spec.MbiRom.rd16 c off := by
  have := vx_slice_slice img c a (a + n) off (off + 2) h (by omega)
  unfold Spec.MbiRom.rd16
  have e1 : (img.drop (a + off)).take 2 = slice img (a + off) (a + (off + 2)) := by
    unfold slice
    rw [List.take_drop]
    congr 2
    all_goals omega
  have e2 : (c.drop off).take 2 = slice c off (off + 2) := by
    unfold slice
    rw [List.take_drop]
  rw [e1, e2, this]

/-- signed Vx images pass the ROM checks; what is left are exactly the two signature obligations root key → ISK certificate
    and ISK key → image, the latter over `dataToSign e` with the signature the provider returned -/
theorem vx_rom_accepts_signed (co : CryptoOps) (cfg : Cfg) (signer : Signer) (hw : cfgWF .signed cfg = true)
    (hj : cfg.justHeader = false) (hs : ∀ m, (signer m).length = vxImgBcaOffset - vxImgSignatureOffset)
    (hh : ∀ m, (co.hash .sha256 m).length = vxImgDigestSize) (hc : VxCertOK co cfg) (rootPub : Bytes) :
    ∃ e a, exportImage co .signed cfg signer = .ok e
      ∧ Spec.MbiRomVx.romVx co ⟨rootPub, cfg.addHash⟩ .signed e = .ok a
      ∧ a.obligations = [.ecdsa rootPub (cfg.cert.take 72) (cfg.cert.drop 72),
                         .ecdsa (slice cfg.cert 8 72) (dataToSign e) (signer (dataToSign e))] := by
  obtain ⟨e, hE, d1, _, d3, d4, d5, d6⟩ := vx_signed_describes co cfg signer hw hj hs hh
  obtain ⟨e', hE', l1, _⟩ := vx_export_frame co .signed cfg signer hw hs hh
  have := vxrom_export_unique hE hE'
  subst this
  rw [hj] at l1
  simp only [Bool.false_eq_true, if_false] at l1
  have hn := (vxCfg .signed cfg hw).hn
  obtain ⟨c1, c2, c3, c4⟩ := hc
  simp only [Spec.MbiRomVx.iskCertSize, Spec.MbiRomVx.iskMagic, Spec.MbiRomVx.iskVersion, Spec.MbiRomVx.iskHashSize] at c1 c2 c3 c4
  rw [c1] at d5
  vxc
  have hlen : 3072 ≤ e'.length := by rw [l1]; exact hn
  have hdl := vxrom_dataToSign_length e' hlen
  have hcert : slice e' 1040 1176 = cfg.cert := d5
  refine ⟨e', vxAccepted rootPub e', hE, ?_, ?_⟩
  · show Spec.MbiRomVx.romVxSigned co ⟨rootPub, cfg.addHash⟩ e' = _
    refine vxrom_signed_ok co ⟨rootPub, cfg.addHash⟩ e' hlen ?_ d3 ?_ ?_ ?_
    · rw [hdl]; omega
    · rw [← c2]; exact vxrom_rd16_of_slice e' cfg.cert 1040 136 0 hcert (by omega)
    · rw [← c3]; exact vxrom_rd16_of_slice e' cfg.cert 1040 136 2 hcert (by omega)
    · intro ha
      rw [hcert, d6 ha, c4 ha]
  · show [_, _] = [_, _]
    have t1 : slice e' 1040 1112 = cfg.cert.take 72 := by
      have := vx_slice_slice e' cfg.cert 1040 1176 0 72 hcert (by omega)
      simpa [slice] using this
    have t2 : slice e' 1112 1176 = cfg.cert.drop 72 := by
      have := vx_slice_slice e' cfg.cert 1040 1176 72 136 hcert (by omega)
      rw [this]
      unfold slice
      rw [List.take_of_length_le (by omega)]
    have t3 : slice e' 1048 1112 = slice cfg.cert 8 72 := vx_slice_slice e' cfg.cert 1040 1176 8 72 hcert (by omega)
    rw [t1, t2, t3, d4]

/-- CRC Vx images pass the ROM's CRC check, which insists that the protected range is the whole data part -/
theorem vx_rom_accepts_crc (co : CryptoOps) (env : Spec.MbiRomVx.VxEnv) (cfg : Cfg) (signer : Signer)
    (hw : cfgWF .crc cfg = true) :
    ∃ e a, exportImage co .crc cfg signer = .ok e ∧ Spec.MbiRomVx.romVx co env .crc e = .ok a
      ∧ a.authenticated = [(964, 976), (3072, e.length)] := by
  obtain ⟨e, hE, w1, w2, w3⟩ := vx_crc_describes co cfg signer hw
  have hn := (vxCfg .crc cfg hw).hn
  have hjh := ((vxCfg .crc cfg hw).hns (by decide)).2.2
  -- the emitted length (the signature provider plays no role for CRC images)
  have hlen : 3072 ≤ e.length := by
    have h := vxCfg .crc cfg hw
    have hrl := vx_raw_length h
    rw [hjh] at hrl
    simp only [Bool.false_eq_true, if_false] at hrl
    have he : e = crcSignBca (vxRaw .crc cfg) := by
      have := vx_export_crc co h signer
      rw [hE] at this; injection this
    obtain ⟨c1, _⟩ := vx_crc_facts (vxRaw .crc cfg) (by rw [hrl]; exact hn)
    rw [he, c1, hrl]
    vxc
    exact hn
  vxc
  have hsub : Spec.MbiRom.sub e Spec.MbiRomVx.dataStart e.length = e.drop 3072 := by
    unfold Spec.MbiRom.sub
    rw [List.take_of_length_le (Nat.le_refl _)]
    rfl
  have hdl : (e.drop 3072).length = e.length - 3072 := List.length_drop
  refine ⟨e, { authenticated := [(964, 976), (3072, e.length)] }, hE, ?_, rfl⟩
  show Spec.MbiRomVx.romVxCrc e = _
  unfold Spec.MbiRomVx.romVxCrc
  have r1 : Spec.MbiRom.rd32 e (Spec.MbiRomVx.bcaOff + Spec.MbiRomVx.bcaCrcStart) = Spec.MbiRomVx.dataStart := w1
  have r2 : Spec.MbiRom.rd32 e (Spec.MbiRomVx.bcaOff + Spec.MbiRomVx.bcaCrcCount) = e.length - Spec.MbiRomVx.dataStart := by
    rw [show e.length - Spec.MbiRomVx.dataStart = e.length - 3072 from rfl, ← hdl]; exact w2
  have r3 : Spec.MbiRom.rd32 e (Spec.MbiRomVx.bcaOff + Spec.MbiRomVx.bcaCrcValue) = Crc.crc Spec.MbiRom.crcParams (e.drop 3072) := w3
  have hadd : Spec.MbiRomVx.dataStart + (e.length - Spec.MbiRomVx.dataStart) = e.length := by
    simp only [Spec.MbiRomVx.dataStart]; omega
  have e1 : decide (e.length ≥ Spec.MbiRomVx.dataStart) = true :=
    decide_eq_true (show e.length ≥ Spec.MbiRomVx.dataStart from hlen)
  simp only [Spec.MbiRom.need, r1, r2, r3, hadd, hsub, e1, beq_self_eq_true, and_self, decide_true, if_true, bind, Except.bind,
    pure, Except.pure]
  rfl

/-- plain Vx images: nothing to authenticate -/
theorem vx_rom_accepts_plain (co : CryptoOps) (env : Spec.MbiRomVx.VxEnv) (cfg : Cfg) (signer : Signer)
    (hw : cfgWF .plain cfg = true) :
    ∃ e a, exportImage co .plain cfg signer = .ok e ∧ Spec.MbiRomVx.romVx co env .plain e = .ok a := by
  have h := vxCfg .plain cfg hw
  have hjh := (h.hns (by decide)).2.2
  have hrl := vx_raw_length h
  rw [hjh] at hrl
  simp only [Bool.false_eq_true, if_false] at hrl
  refine ⟨_, {}, vx_export_plain co h signer, ?_⟩
  have hn := h.hn
  have e1 : decide ((vxRaw .plain cfg).length ≥ Spec.MbiRomVx.dataStart) = true :=
    decide_eq_true (by rw [hrl]; exact hn)
  simp only [Spec.MbiRomVx.romVx, Spec.MbiRom.need, e1, if_true, bind, Except.bind, pure, Except.pure]

/-! ### tamper reductions -/

/-- position `i` lies in what digest and signature cover -/
def vxSignedPos (i : Nat) : Prop := i < 864 ∨ (960 ≤ i ∧ i < 1024) ∨ 3072 ≤ i

theorem vxrom_set_getElem? (l : Bytes) (i j : Nat) (y : UInt8) (h : i ≠ j) : (l.set i y)[j]? = l[j]? := by
  rw [List.getElem?_set]; simp [h]

theorem vxrom_slice_set (l : Bytes) (i a b : Nat) (y : UInt8) (h : i < a ∨ b ≤ i) : slice (l.set i y) a b = slice l a b := by
  apply vx_slice_congr
  intro j h1 h2
  exact vxrom_set_getElem? l i j y (by omega)

/-- a changed byte inside the signed ranges changes the signed data -/
theorem vxrom_dataToSign_set (l : Bytes) (i : Nat) (x y : UInt8) (hx : l[i]? = some x) (hxy : x ≠ y) (hp : vxSignedPos i) :
    dataToSign (l.set i y) ≠ dataToSign l := by
  have hn : i < l.length := by
    rcases Nat.lt_or_ge i l.length with hlt | hge
    · exact hlt
    · rw [List.getElem?_eq_none hge] at hx; simp at hx
  intro he
  unfold dataToSign slice at he
  vxc
  have hy : (l.set i y)[i]? = some y := List.getElem?_set_self hn
  have lA : ((l.set i y).take 864).length = (l.take 864).length := by simp
  have lB : (((l.set i y).take 1024).drop 960).length = ((l.take 1024).drop 960).length := by simp
  have h12 := List.append_inj he (by simp only [List.length_append]; rw [lA, lB])
  have h1 := List.append_inj h12.1 lA
  rcases hp with hp | hp | hp
  · have := congrArg (fun z => z[i]?) h1.1
    simp only [List.getElem?_take, if_pos hp] at this
    rw [hy, hx] at this
    exact hxy (by simpa using this.symm)
  · have := congrArg (fun z => z[i - 960]?) h1.2
    simp only [List.getElem?_drop, List.getElem?_take, show 960 + (i - 960) = i by omega, if_pos hp.2] at this
    rw [hy, hx] at this
    exact hxy (by simpa using this.symm)
  · have := congrArg (fun z => z[i - 3072]?) h12.2
    simp only [List.getElem?_drop, show 3072 + (i - 3072) = i by omega] at this
    rw [hy, hx] at this
    exact hxy (by simpa using this.symm)

/-- SIGNED: a changed byte of the signed ranges (header below the digest, BCA, data) that the ROM still accepts with its
    ISK → image obligation holding is a signature forgery under the ISK key -/
theorem vx_tamper_rejected_signed (co : CryptoOps) (cfg : Cfg) (signer : Signer) (hw : cfgWF .signed cfg = true)
    (hj : cfg.justHeader = false) (hs : ∀ m, (signer m).length = vxImgBcaOffset - vxImgSignatureOffset)
    (hh : ∀ m, (co.hash .sha256 m).length = vxImgDigestSize) (hc : VxCertOK co cfg) (rootPub : Bytes)
    (alg : SigAlg) (sk : PrivKey) (r : Rand) (hsigner : signer = fun m => co.sign alg sk m r)
    (hpub : slice cfg.cert 8 72 = co.pubOf sk) :
    ∃ e, exportImage co .signed cfg signer = .ok e
      ∧ ∀ (i : Nat) (y : UInt8), vxSignedPos i → i < e.length → e[i]? ≠ some y →
          ∀ a, Spec.MbiRomVx.romVx co ⟨rootPub, cfg.addHash⟩ .signed (e.set i y) = .ok a →
            (∀ ob ∈ a.obligations, holdsEcdsa co alg ob) → Break co := by
  obtain ⟨e, hE, d1, _, d3, d4, d5, d6⟩ := vx_signed_describes co cfg signer hw hj hs hh
  obtain ⟨c1, _, _, _⟩ := hc
  simp only [Spec.MbiRomVx.iskCertSize] at c1
  rw [c1] at d5
  vxc
  refine ⟨e, hE, ?_⟩
  intro i y hp hi hne a hok hobs
  obtain ⟨x, hx⟩ : ∃ x, e[i]? = some x := ⟨e[i], List.getElem?_eq_getElem hi⟩
  have hxy : x ≠ y := fun h => hne (by rw [hx, h])
  obtain ⟨_, _, _, ha⟩ := vxrom_signed_inv co _ _ a hok
  have hob := hobs (.ecdsa (slice (e.set i y) 1048 1112) (dataToSign (e.set i y)) (slice (e.set i y) 896 960))
    (by rw [ha]; simp [vxAccepted])
  simp only [holdsEcdsa] at hob
  have hrange : i < 1048 ∨ 1112 ≤ i := by rcases hp with hp | hp | hp <;> omega
  have hrange2 : i < 896 ∨ 960 ≤ i := by rcases hp with hp | hp | hp <;> omega
  have k1 : slice (e.set i y) 1048 1112 = co.pubOf sk := by
    rw [vxrom_slice_set e i 1048 1112 y hrange, vx_slice_slice e cfg.cert 1040 1176 8 72 d5 (by omega), hpub]
  have k2 : slice (e.set i y) 896 960 = co.sign alg sk (dataToSign e) r := by
    rw [vxrom_slice_set e i 896 960 y hrange2, d4, hsigner]
  rw [k1, k2] at hob
  exact Break.sigForgery alg sk (dataToSign e) (dataToSign (e.set i y)) r
    (fun h => vxrom_dataToSign_set e i x y hx hxy hp h.symm) hob

/-- … and, independently of any key: the digest check alone turns such a change into a SHA-256 collision when the digest
    slot is left alone (the digest slot is outside the signed ranges) -/
theorem vx_tamper_digest (co : CryptoOps) (cfg : Cfg) (signer : Signer) (hw : cfgWF .signed cfg = true)
    (hj : cfg.justHeader = false) (hs : ∀ m, (signer m).length = vxImgBcaOffset - vxImgSignatureOffset)
    (hh : ∀ m, (co.hash .sha256 m).length = vxImgDigestSize) (env : Spec.MbiRomVx.VxEnv) :
    ∃ e, exportImage co .signed cfg signer = .ok e
      ∧ ∀ (i : Nat) (y : UInt8), vxSignedPos i → i < e.length → e[i]? ≠ some y →
          ∀ a, Spec.MbiRomVx.romVx co env .signed (e.set i y) = .ok a → Break co := by
  obtain ⟨e, hE, _, _, d3, _⟩ := vx_signed_describes co cfg signer hw hj hs hh
  vxc
  refine ⟨e, hE, ?_⟩
  intro i y hp hi hne a hok
  obtain ⟨x, hx⟩ : ∃ x, e[i]? = some x := ⟨e[i], List.getElem?_eq_getElem hi⟩
  have hxy : x ≠ y := fun h => hne (by rw [hx, h])
  obtain ⟨_, _, hd, _⟩ := vxrom_signed_inv co _ _ a hok
  have hrange : i < 864 ∨ 896 ≤ i := by rcases hp with hp | hp | hp <;> omega
  rw [vxrom_slice_set e i 864 896 y hrange, d3] at hd
  exact Break.collision .sha256 (dataToSign e) (dataToSign (e.set i y))
    (fun h => vxrom_dataToSign_set e i x y hx hxy hp h.symm) hd

/-- CRC: ANY change of ANY single byte of the data part is rejected - unconditionally -/
theorem vx_tamper_rejected_crc (co : CryptoOps) (env : Spec.MbiRomVx.VxEnv) (cfg : Cfg) (signer : Signer)
    (hw : cfgWF .crc cfg = true) :
    ∃ e, exportImage co .crc cfg signer = .ok e
      ∧ ∀ (i : Nat) (y : UInt8), 3072 ≤ i → i < e.length → e[i]? ≠ some y →
          ∀ a, Spec.MbiRomVx.romVx co env .crc (e.set i y) ≠ .ok a := by
  obtain ⟨e, hE, w1, w2, w3⟩ := vx_crc_describes co cfg signer hw
  vxc
  refine ⟨e, hE, ?_⟩
  intro i y h3 hi hne a hok
  obtain ⟨x, hx⟩ : ∃ x, e[i]? = some x := ⟨e[i], List.getElem?_eq_getElem hi⟩
  have hxy : x ≠ y := fun h => hne (by rw [hx, h])
  change Spec.MbiRomVx.romVxCrc (e.set i y) = .ok a at hok
  unfold Spec.MbiRomVx.romVxCrc at hok
  obtain ⟨_, hok⟩ := romneg_need _ _ _ _ hok
  simp only [Spec.MbiRomVx.dataStart, Spec.MbiRomVx.bcaOff, Spec.MbiRomVx.bcaCrcStart, Spec.MbiRomVx.bcaCrcCount,
    Spec.MbiRomVx.bcaCrcValue] at hok
  obtain ⟨_, hok⟩ := romneg_need _ _ _ _ hok
  obtain ⟨g2, _⟩ := romneg_need _ _ _ _ hok
  rw [romneg_rd32_same e i _ y (Or.inr (by omega)), romneg_rd32_same e i _ y (Or.inr (by omega)),
    romneg_rd32_same e i _ y (Or.inr (by omega))] at g2
  have r1 : Spec.MbiRom.rd32 e (960 + 4) = 3072 := w1
  have r2 : Spec.MbiRom.rd32 e (960 + 8) = (e.drop 3072).length := w2
  have r3 : Spec.MbiRom.rd32 e (960 + 12) = Crc.crc Spec.MbiRom.crcParams (e.drop 3072) := w3
  rw [r1, r2, r3] at g2
  have hdl : (e.drop 3072).length = e.length - 3072 := List.length_drop
  have hsub : Spec.MbiRom.sub (e.set i y) 3072 (3072 + (e.drop 3072).length) = (e.drop 3072).set (i - 3072) y := by
    unfold Spec.MbiRom.sub
    rw [hdl, List.take_of_length_le (by simp only [List.length_set]; omega), List.drop_set, if_neg (by omega)]
  rw [hsub, beq_iff_eq] at g2
  have hx' : (e.drop 3072)[i - 3072]? = some x := by
    rw [List.getElem?_drop, show 3072 + (i - 3072) = i by omega]; exact hx
  exact romneg_crc_set Crc.wf_crc32Mpeg2 (by decide) (by decide) _ (i - 3072) x y hx' hxy g2.symm

end SpsdkVerif.Mbi.Vx
