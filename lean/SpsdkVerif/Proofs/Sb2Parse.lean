/-
C04 phase 2 helper lemmas: SPSDK's own image parser model (Model/Sb2Parse.lean) on files produced by the builder model.
INTERFACE lemmas (used by Properties/C04.lean) are marked `-- INTERFACE`: keep their names and statements.
-/
import SpsdkVerif.Proofs.Sb2Image
import SpsdkVerif.Model.Sb2Parse

set_option linter.unusedSimpArgs false
set_option linter.unusedVariables false

namespace SpsdkVerif.Sb2
open SpsdkVerif SpsdkVerif.Sb2.Rom
open SpsdkVerif.Misc (Bytes beEnc beDec leEnc leDec bcdDigitOk)
open SpsdkVerif.Crypto (CryptoOps CryptoLaws Break xorBytes zeroPad16 zeros hmac kwWrap kwUnwrap)
open SpsdkVerif.Generated

variable {c : CryptoOps}

/-! ## sections -/

theorem canon_rawSize (x : Cmd) : x.canon.rawSize = x.rawSize := by
  cases x <;> simp [Cmd.canon, Cmd.rawSize, Cmd.payload, zeroPad16_idem]

theorem canon_rawSize_sum (cmds : List Cmd) : ((cmds.map Cmd.canon).map Cmd.rawSize).sum = Spec.cmdsLen cmds := by
  rw [List.map_map, ← rawSize_sum]
  congr 1
  apply List.map_congr_left
  intro x _
  exact canon_rawSize x

-- INTERFACE: the parsed section object occupies exactly the bytes of the built section and reports the effective MAC count
theorem parsedSection_facts (s : Section) (wf : Spec.WFsection s) :
    (Parse.parsedSection s).rawSize = Spec.sectionLen s ∧ (Parse.parsedSection s).effHmacCount = Spec.macCount s ∧
    (Parse.parsedSection s).uid = s.uid := by
  have ⟨e1, e2, e3⟩ := effHmacCount_eq s wf
  have ⟨r1, r2, r3⟩ := rawSize_eq_sectionLen s wf
  obtain ⟨_, hne, _, _⟩ := wf
  have ⟨h2, h3⟩ := cmdsLen_facts s.cmds hne
  have hc : (Parse.parsedSection s).effHmacCount = Spec.macCount s := by
    unfold Parse.parsedSection
    rw [e1]
    unfold Section.effHmacCount
    simp only [canon_rawSize_sum]
    repeat' split
    all_goals omega
  refine ⟨?_, hc, rfl⟩
  unfold Section.rawSize
  rw [hc]
  unfold Parse.parsedSection
  simp only [canon_rawSize_sum]
  unfold Spec.sectionLen at *
  rw [align16_of_mod (by omega)]
  omega

theorem ctrBlocks_invol (h : CryptoLaws c) (dek nonce : Bytes) (n ctr : Nat) (d : Bytes) (hd : d.length = 16 * n) :
    ctrBlocks c dek nonce n ctr (ctrBlocks c dek nonce n ctr d) = d := by
  induction n generalizing ctr d with
  | zero => simp [ctrBlocks]; exact List.eq_nil_of_length_eq_zero (by omega)
  | succ n ih =>
    simp only [ctrBlocks]
    have hB : (xorBytes (d.take 16) (ksBlock c dek nonce ctr)).length = 16 := by
      simp [ksBlock_length h]; omega
    rw [List.take_left' hB, List.drop_left' hB, Crypto.xorBytes_cancel _ _ (by simp [ksBlock_length h]; omega),
      ih _ _ (by simp; omega), List.take_append_drop]

theorem parseCmds_cmdsData (cmds : List Cmd) (wf : ∀ x ∈ cmds, Spec.WFcmd x) (fuel : Nat) (hf : cmds.length ≤ fuel) :
    Parse.parseCmds fuel (cmdsData cmds) = .ok (cmds.map Cmd.canon) := by
  rw [cmdsData_eq]
  induction cmds generalizing fuel with
  | nil => cases fuel <;> simp [Parse.parseCmds]
  | cons x cmds ih =>
    cases fuel with
    | zero => simp at hf
    | succ fuel =>
      have hx := wf x (by simp)
      have hne : ((x :: cmds).map encodeCmd).flatten.isEmpty = false := by
        have h1 := flatten_encode_length (x :: cmds)
        have h2 := (cmdLen_pos x).1
        rw [cmdsLen_cons] at h1
        cases h : ((x :: cmds).map encodeCmd).flatten with
        | nil => rw [h] at h1; simp at h1; omega
        | cons _ _ => rfl
      rw [Parse.parseCmds, hne]
      simp only [List.map_cons, List.flatten_cons, Bool.false_eq_true, if_false]
      rw [decodeCmd_encodeCmd x hx]
      simp only
      rw [List.drop_left, ih (fun y hy => wf y (by simp [hy])) fuel (by simpa using hf)]

theorem checkTable_eq_checkMacs (mac data : Bytes) (hc bs rem off : Nat) (tbl : Bytes) (hb : bs * (hc - 1) ≤ rem) :
    Parse.checkTable c mac data hc bs rem off tbl = Rom.checkMacs c mac hc bs tbl (Rom.slice data off rem) := by
  induction hc generalizing rem off tbl with
  | zero => simp [Parse.checkTable, Rom.checkMacs]
  | succ n ih =>
    cases n with
    | zero => simp [Parse.checkTable, Rom.checkMacs]
    | succ m =>
      simp only [Parse.checkTable, Rom.checkMacs]
      have hbr : bs ≤ rem := by
        have : bs * (m + 1) ≤ rem := by simpa using hb
        have : bs ≤ bs * (m + 1) := Nat.le_mul_of_pos_right _ (by omega)
        omega
      have e1 : Rom.slice data off bs = (Rom.slice data off rem).take bs := by
        simp only [Rom.slice, List.take_take, Nat.min_eq_left hbr]
      have e2 : Rom.slice data (off + bs) (rem - bs) = (Rom.slice data off rem).drop bs := by
        simp only [Rom.slice, List.drop_take, List.drop_drop]
      rw [ih (rem - bs) (off + bs) (tbl.drop 32) (by
        have : bs * (m + 1) ≤ rem := by simpa using hb
        rw [Nat.mul_succ] at this
        simp; omega), e1, e2]


-- INTERFACE: `BootSectionV2.parse` on a section built for its position: the section object, and the counter has
-- advanced by the section's length in blocks
theorem parseSection_buildSection (h : CryptoLaws c) (dek mac nonce pre post : Bytes) (s : Section)
    (wf : Spec.WFsection s) (hpre : pre.length % 16 = 0) :
    Parse.parseSection c dek mac nonce
        (pre ++ buildSection c dek mac nonce (nonceCtr nonce + pre.length / 16) s ++ post) pre.length
        (nonceCtr nonce + pre.length / 16)
      = .ok (Parse.parsedSection s, nonceCtr nonce + pre.length / 16 + Spec.sectionLen s / 16) := by
  have ⟨e1, e2, e3⟩ := effHmacCount_eq s wf
  have ⟨l1, l2⟩ := cmdsData_length s.cmds
  have hr0 := sectionHdr_inRange s wf
  obtain ⟨wuid, hne, wcmds, wlen⟩ := wf
  have ⟨l3, l4⟩ := cmdsLen_facts s.cmds hne
  have hps : Parse.parsedSection s = ⟨s.uid, Spec.macCount s, s.cmds.map Cmd.canon⟩ := by
    unfold Parse.parsedSection; rw [e1]
  have hsl : Spec.sectionLen s / 16 = 3 + 2 * Spec.macCount s + Spec.cmdsLen s.cmds / 16 := by
    unfold Spec.sectionLen; omega
  rw [hps, hsl]
  unfold buildSection buildSectionWith
  simp only [e1]
  generalize nonceCtr nonce + pre.length / 16 = ctr
  generalize hN : (cmdsData s.cmds).length / 16 = N
  have hN' : Spec.cmdsLen s.cmds = 16 * N := by omega
  have hN2 : Spec.cmdsLen s.cmds / 16 = N := by omega
  rw [hN2] at hr0 ⊢
  generalize hhc : Spec.macCount s = hc at *
  generalize hhdr : (⟨Sb2Consts.tagTag, imageSectionFlags, s.uid, N, hc⟩ : CmdHdr) = hdr at *
  generalize heh : xorBytes (encodeHdr hdr) (ksBlock c dek nonce ctr) = eh
  have leh : eh.length = 16 := by subst heh; simp [encodeHdr_length, ksBlock_length h]
  generalize hec : ctrBlocks c dek nonce N (ctr + (1 + (hc + 1) * 2)) (cmdsData s.cmds) = ec
  have lec : ec.length = 16 * N := by subst hec; exact ctrBlocks_length h _ _ _ _ _ (by omega)
  have hcm := checkMacs_hmacEntries h mac hc (N / hc * 16) ec
  generalize htbl : hmacEntries c mac hc (N / hc * 16) ec = tbl at hcm
  have ltbl : tbl.length = 32 * hc := by subst htbl; exact hmacEntries_length h _ _ _ _
  have lhm := hmac256_length h mac eh
  generalize hfile : pre ++ (eh ++ hmac256 c mac eh ++ tbl ++ ec) ++ post = file
  have F2 : Rom.slice file pre.length 16 = eh := by
    have : file = pre ++ eh ++ (hmac256 c mac eh ++ tbl ++ ec ++ post) := by subst hfile; simp [List.append_assoc]
    rw [this]; exact slice_mid _ _ _ _ _ rfl leh.symm
  have F3 : Rom.slice file (pre.length + 16) 32 = hmac c .sha256 mac eh := by
    have : file = (pre ++ eh) ++ hmac256 c mac eh ++ (tbl ++ ec ++ post) := by subst hfile; simp [List.append_assoc]
    rw [this]; exact slice_mid _ _ _ _ _ (by simp [leh]) lhm.symm
  have F6 : Rom.slice file (pre.length + 48) (32 * hc) = tbl := by
    have : file = (pre ++ eh ++ hmac256 c mac eh) ++ tbl ++ (ec ++ post) := by subst hfile; simp [List.append_assoc]
    rw [this]; exact slice_mid _ _ _ _ _ (by simp [leh, lhm]) ltbl.symm
  have F7 : Rom.slice file (pre.length + 48 + 32 * hc) (N * 16) = ec := by
    have : file = (pre ++ eh ++ hmac256 c mac eh ++ tbl) ++ ec ++ post := by subst hfile; simp [List.append_assoc]
    rw [this]; exact slice_mid _ _ _ _ _ (by simp [leh, lhm, ltbl]; omega) (by omega)
  have F4 : xorBytes eh (ksBlock c dek nonce ctr) = encodeHdr hdr := by
    rw [← heh]
    exact Crypto.xorBytes_cancel _ _ (by simp [encodeHdr_length, ksBlock_length h])
  have F5 : decodeHdr (encodeHdr hdr) = .ok hdr := by
    have := decodeHdr_encodeHdr hdr hr0 []
    rwa [List.append_nil] at this
  have hb : N / hc * 16 * (hc - 1) ≤ N * 16 := by
    have h1 : N / hc * hc ≤ N := Nat.div_mul_le_self N hc
    have h2 : N / hc * (hc - 1) ≤ N / hc * hc := Nat.mul_le_mul_left _ (by omega)
    have h3 : N / hc * 16 * (hc - 1) = N / hc * (hc - 1) * 16 := by
      rw [Nat.mul_assoc, Nat.mul_comm 16, ← Nat.mul_assoc]
    omega
  have F8 : Parse.checkTable c mac file hc (N / hc * 16) (N * 16) (pre.length + 48 + 32 * hc) tbl = true := by
    rw [checkTable_eq_checkMacs _ _ _ _ _ _ _ hb, F7, hcm]
  have F9 : ctrBlocks c dek nonce ((ec.length + 15) / 16) (ctr + 1 + (hc + 1) * 2) ec = cmdsData s.cmds := by
    rw [show (ec.length + 15) / 16 = N by omega, show ctr + 1 + (hc + 1) * 2 = ctr + (1 + (hc + 1) * 2) by omega, ← hec]
    exact ctrBlocks_invol h _ _ _ _ _ (by omega)
  have F10 := parseCmds_cmdsData s.cmds wcmds ((cmdsData s.cmds).length + 1) (by have := cmds_length_le s.cmds; omega)
  have g1 : hdr.data = hc := by subst hhdr; rfl
  have g2 : hdr.count = N := by subst hhdr; rfl
  have g3 : hdr.address = s.uid := by subst hhdr; rfl
  unfold Parse.parseSection
  simp only [F2, F3, F4, F5, g1, g2, g3, F6, F7, F8, F9, F10]
  rw [if_neg (fun hne => hne rfl), if_neg (by omega), if_neg (by simp)]
  rw [show ctr + 1 + (hc + 1) * 2 + (ec.length + 15) / 16 = ctr + (3 + 2 * hc + N) by omega]

/-! ## image header and key blob through the parser -/

theorem swap16_leDec_leEnc (v : Nat) (hv : v < 65536) : swap16 (leDec (leEnc 2 (swap16 v))) = v := by
  have e1 : swap16 v = v % 256 * 256 + v / 256 := Base.swap16_nat v hv
  have hlt : swap16 v < 65536 := by rw [e1]; omega
  rw [leDec_leEnc 2 _ (by simpa using hlt)]
  have e2 : swap16 (swap16 v) = swap16 v % 256 * 256 + swap16 v / 256 := Base.swap16_nat _ hlt
  rw [e2, e1]
  omega

theorem decodeImageHdr_encode (h : ImageHdr) (ok : HdrOk h) (hpv : Parse.bcdVersionOk h.productVersion)
    (hcv : Parse.bcdVersionOk h.componentVersion) :
    Parse.decodeImageHdr (encodeImageHdr h) = .ok h.toRom := by
  have e : encodeImageHdr h =
      [h.nonce, h.padding.take 4, Sb2Consts.imageSignature1, [u8 h.major], [u8 h.minor], leEnc 2 h.flags,
       leEnc 4 h.imageBlocks, leEnc 4 h.firstBootTagBlock, leEnc 4 h.firstBootSectionId, leEnc 4 h.offsetToCert,
       leEnc 2 h.headerBlocks, leEnc 2 h.keyBlobBlock, leEnc 2 h.keyBlobBlockCount, leEnc 2 h.maxSectionMacCount,
       Sb2Consts.imageSignature2, leEnc 8 h.timestamp,
       leEnc 2 (swap16 h.productVersion.major), leEnc 2 0, leEnc 2 (swap16 h.productVersion.minor), leEnc 2 0,
       leEnc 2 (swap16 h.productVersion.service), leEnc 2 0,
       leEnc 2 (swap16 h.componentVersion.major), leEnc 2 0, leEnc 2 (swap16 h.componentVersion.minor), leEnc 2 0,
       leEnc 2 (swap16 h.componentVersion.service), leEnc 2 0,
       leEnc 4 h.buildNumber, (h.padding.drop 4).take 4].flatten ++ [] := by
    simp [encodeImageHdr, versionWords, List.append_assoc]
  have hl := encodeImageHdr_length h ok.nonce ok.padding
  unfold Parse.decodeImageHdr
  rw [if_neg (by rw [hl]; decide)]
  rw [e, splitW_flatten _ _ (by
    simp [Sb2Consts.imageHeaderFmt, leEnc_length, ok.nonce, ok.padding, Sb2Consts.imageSignature1, Sb2Consts.imageSignature2])]
  simp only []
  rw [if_neg (fun hne => hne rfl), if_neg (fun hne => hne rfl)]
  obtain ⟨p0, p1, p2⟩ := ok.productVersion
  obtain ⟨c0, c1, c2⟩ := ok.componentVersion
  obtain ⟨b0, b1, b2⟩ := hpv
  obtain ⟨d0, d1, d2⟩ := hcv
  rw [swap16_leDec_leEnc _ p0, swap16_leDec_leEnc _ p1, swap16_leDec_leEnc _ p2,
    swap16_leDec_leEnc _ c0, swap16_leDec_leEnc _ c1, swap16_leDec_leEnc _ c2]
  rw [if_neg (by simp [b0, b1, b2, d0, d1, d2])]
  rw [leDec_single, leDec_single, u8_toNat _ ok.major, u8_toNat _ ok.minor,
    leDec_leEnc 2 _ (by simpa using ok.flags), leDec_leEnc 4 _ (by simpa using ok.imageBlocks),
    leDec_leEnc 4 _ (by simpa using ok.firstBootTagBlock), leDec_leEnc 4 _ (by simpa using ok.firstBootSectionId),
    leDec_leEnc 4 _ (by simpa using ok.offsetToCert), leDec_leEnc 2 _ (by simpa using ok.headerBlocks),
    leDec_leEnc 2 _ (by simpa using ok.keyBlobBlock), leDec_leEnc 2 _ (by simpa using ok.keyBlobBlockCount),
    leDec_leEnc 2 _ (by simpa using ok.maxSectionMacCount), leDec_leEnc 8 _ (by simpa using ok.timestamp),
    leDec_leEnc 4 _ (by simpa using ok.buildNumber)]
  rfl

theorem kekLenOk_nonempty (kek : Bytes) (hk : Parse.kekLenOk kek = true) : kek.isEmpty = false := by
  cases kek with
  | nil => simp [Parse.kekLenOk] at hk
  | cons _ _ => rfl

theorem keyBlobSlice (data : Bytes) (hl : 208 ≤ data.length) :
    (Rom.slice data 128 80).take ((Rom.slice data 128 80).length - 8) = Rom.slice data 128 72 := by
  have : (Rom.slice data 128 80).length = 80 := by simp [Rom.slice]; omega
  rw [this]
  simp [Rom.slice, List.take_take]

theorem unwrapKeys_ok (h : CryptoLaws c) (kek dek mac data : Bytes) (hk : Parse.kekLenOk kek = true)
    (hl : 208 ≤ data.length) (hs : Rom.slice data 128 72 = kwWrap c kek (dek ++ mac))
    (ld : dek.length = 32) (lm : mac.length = 32) :
    Parse.unwrapKeys c kek data = .ok (dek, mac) := by
  unfold Parse.unwrapKeys
  rw [if_neg (by rw [kekLenOk_nonempty kek hk]; simp), if_neg (by rw [hk]; simp)]
  simp only [Sb2Consts.imageHeaderFmtSize, Sb2Consts.v21HeaderMacSize, Sb2Consts.v21KeyBlobSize, Nat.reduceAdd]
  rw [keyBlobSlice data hl, hs, Crypto.kw_inv h _ _ (by simp [ld, lm]) (by simp [ld, lm])]
  simp only []
  rw [List.take_left' ld, List.drop_left' ld]

theorem unwrapKeys_wrong (kek kek' dek mac data : Bytes)
    (hl : 208 ≤ data.length) (hs : Rom.slice data 128 72 = kwWrap c kek (dek ++ mac)) (hk : kek' ≠ kek) :
    (∃ e, Parse.unwrapKeys c kek' data = .error e) ∨ Break c := by
  by_cases hsome : (kwUnwrap c kek' (kwWrap c kek (dek ++ mac))).isSome
  · exact Or.inr (Break.wrapForgery kek kek' _ (Ne.symm hk) hsome)
  · left
    unfold Parse.unwrapKeys
    by_cases he : kek'.isEmpty = true
    · exact ⟨_, if_pos he⟩
    · rw [if_neg he]
      by_cases hk' : (!Parse.kekLenOk kek') = true
      · exact ⟨_, if_pos hk'⟩
      · rw [if_neg hk']
        simp only [Sb2Consts.imageHeaderFmtSize, Sb2Consts.v21HeaderMacSize, Sb2Consts.v21KeyBlobSize, Nat.reduceAdd]
        rw [keyBlobSlice data hl, hs]
        cases hu : kwUnwrap c kek' (kwWrap c kek (dek ++ mac)) with
        | none => exact ⟨_, rfl⟩
        | some k => rw [hu] at hsome; simp at hsome


/-! ## section loops -/

theorem parseSections21_buildSections (h : CryptoLaws c) (dek mac nonce post : Bytes) (ss : List Section)
    (wf : ∀ s ∈ ss, Spec.WFsection s) (pre : Bytes) (hpre : pre.length % 16 = 0) (fuel : Nat) (hf : ss.length < fuel)
    (first : Bool) (hfirst : first = true → ss ≠ []) :
    Parse.parseSections21 c dek mac nonce
        (pre ++ buildSections c dek mac nonce (nonceCtr nonce + pre.length / 16) ss ++ post)
        (pre.length + Spec.sectionsLen ss) fuel first pre.length (nonceCtr nonce + pre.length / 16)
      = .ok (ss.map Parse.parsedSection) := by
  induction ss generalizing pre fuel first with
  | nil =>
    cases fuel with
    | zero => omega
    | succ f =>
      have : first = false := by cases first <;> simp_all
      subst this
      simp [Parse.parseSections21, Spec.sectionsLen]
  | cons s rest ih =>
    have wfs := wf s (by simp)
    have ⟨_, r2, r3⟩ := rawSize_eq_sectionLen s wfs
    have ⟨p1, _, _⟩ := parsedSection_facts s wfs
    cases fuel with
    | zero => omega
    | succ f =>
      generalize hb : buildSection c dek mac nonce (nonceCtr nonce + pre.length / 16) s = b
      have hl : b.length = Spec.sectionLen s := by subst hb; exact buildSectionWith_length h _ _ _ _ _ s wfs
      have hsl : Spec.sectionsLen (s :: rest) = Spec.sectionLen s + Spec.sectionsLen rest := by
        simp [Spec.sectionsLen]
      have hdiv : (pre ++ b).length / 16 = pre.length / 16 + Spec.sectionLen s / 16 := by
        rw [List.length_append, hl]; omega
      have hfile : pre ++ buildSections c dek mac nonce (nonceCtr nonce + pre.length / 16) (s :: rest) ++ post
          = pre ++ b ++ (buildSections c dek mac nonce (nonceCtr nonce + (pre ++ b).length / 16) rest ++ post) := by
        rw [hdiv, ← hl]
        simp only [buildSections, hb, List.append_assoc, Nat.add_assoc]
      have hps := parseSection_buildSection h dek mac nonce pre
        (buildSections c dek mac nonce (nonceCtr nonce + (pre ++ b).length / 16) rest ++ post) s wfs hpre
      rw [hb] at hps
      have hih := ih (fun x hx => wf x (by simp [hx])) (pre ++ b) (by simp; omega) f (by simpa using hf) false (by simp)
      have hstop : pre.length + Spec.sectionsLen (s :: rest) = (pre ++ b).length + Spec.sectionsLen rest := by
        simp [hsl, hl]; omega
      have hnext : pre.length + (Parse.parsedSection s).rawSize = (pre ++ b).length := by simp [hl, p1]
      have hctr : nonceCtr nonce + pre.length / 16 + Spec.sectionLen s / 16 = nonceCtr nonce + (pre ++ b).length / 16 := by
        rw [hdiv]; omega
      rw [hfile]
      unfold Parse.parseSections21
      rw [if_neg (by simp; omega), hps]
      simp only []
      rw [hstop, hnext, hctr, ← List.append_assoc, hih]
      simp

theorem parseSections20_buildSections (h : CryptoLaws c) (dek mac nonce post : Bytes) (ss : List Section)
    (wf : ∀ s ∈ ss, Spec.WFsection s) (pre : Bytes) (hpre : pre.length % 16 = 0) (fuel : Nat) (hf : ss.length < fuel)
    (seen : List Nat) (hseen : ∀ s ∈ ss, s.uid ∉ seen) (hu : (ss.map (·.uid)).Nodup) :
    Parse.parseSections20 c dek mac nonce
        (pre ++ buildSections c dek mac nonce (nonceCtr nonce + pre.length / 16) ss ++ post)
        (pre.length + Spec.sectionsLen ss) fuel seen pre.length (nonceCtr nonce + pre.length / 16)
      = .ok (ss.map Parse.parsedSection) := by
  induction ss generalizing pre fuel seen with
  | nil =>
    cases fuel with
    | zero => omega
    | succ f => simp [Parse.parseSections20, Spec.sectionsLen]
  | cons s rest ih =>
    have wfs := wf s (by simp)
    have ⟨_, r2, r3⟩ := rawSize_eq_sectionLen s wfs
    have ⟨p1, _, p3⟩ := parsedSection_facts s wfs
    cases fuel with
    | zero => omega
    | succ f =>
      generalize hb : buildSection c dek mac nonce (nonceCtr nonce + pre.length / 16) s = b
      have hl : b.length = Spec.sectionLen s := by subst hb; exact buildSectionWith_length h _ _ _ _ _ s wfs
      have hsl : Spec.sectionsLen (s :: rest) = Spec.sectionLen s + Spec.sectionsLen rest := by
        simp [Spec.sectionsLen]
      have hdiv : (pre ++ b).length / 16 = pre.length / 16 + Spec.sectionLen s / 16 := by
        rw [List.length_append, hl]; omega
      have hfile : pre ++ buildSections c dek mac nonce (nonceCtr nonce + pre.length / 16) (s :: rest) ++ post
          = pre ++ b ++ (buildSections c dek mac nonce (nonceCtr nonce + (pre ++ b).length / 16) rest ++ post) := by
        rw [hdiv, ← hl]
        simp only [buildSections, hb, List.append_assoc, Nat.add_assoc]
      have hps := parseSection_buildSection h dek mac nonce pre
        (buildSections c dek mac nonce (nonceCtr nonce + (pre ++ b).length / 16) rest ++ post) s wfs hpre
      rw [hb] at hps
      have hu' : s.uid ∉ rest.map (·.uid) ∧ (rest.map (·.uid)).Nodup := by simpa using hu
      have hih := ih (fun x hx => wf x (by simp [hx])) (pre ++ b) (by simp; omega) f (by simpa using hf)
        (s.uid :: seen) (by
          intro x hx hm
          rcases List.mem_cons.1 hm with e | e
          · exact hu'.1 (List.mem_map.2 ⟨x, hx, e⟩)
          · exact hseen x (by simp [hx]) e) hu'.2
      have hstop : pre.length + Spec.sectionsLen (s :: rest) = (pre ++ b).length + Spec.sectionsLen rest := by
        simp [hsl, hl]; omega
      have hnext : pre.length + (Parse.parsedSection s).rawSize = (pre ++ b).length := by simp [hl, p1]
      have hctr : nonceCtr nonce + pre.length / 16 + Spec.sectionLen s / 16 = nonceCtr nonce + (pre ++ b).length / 16 := by
        rw [hdiv]; omega
      rw [hfile]
      unfold Parse.parseSections20
      rw [if_neg (by omega), hps]
      simp only []
      rw [if_neg (by rw [p3]; exact hseen s (by simp)), p3, hstop, hnext, hctr, ← List.append_assoc, hih]
      simp


/-! ## V2.1 -/

-- INTERFACE
theorem parseV21_buildV21 (h : CryptoLaws c) (cfg : Cfg) (wf : Spec.WF21 cfg)
    (hk : Parse.kekLenOk cfg.kek = true)
    (hpv : Parse.bcdVersionOk cfg.productVersion) (hcv : Parse.bcdVersionOk cfg.componentVersion)
    (cp : Parse.CertParser) (ci : Parse.CertInfo)
    (hcp : ∀ rest, cp (cfg.certBlock ++ rest) = some ci)
    (hraw : ci.rawSize = cfg.certBlock.length) (hsz : ci.sigSize = cfg.signature.length)
    (hver : ci.verify cfg.signature (cfg.signed21 c) = true) :
    Parse.parseV21 c cp cfg.kek (buildV21 c cfg) = .ok (Parse.parsedOf21 cfg) := by
  obtain ⟨f1, f2, f3, f4, f5, f6, f7, f8, f9, f10, f11, f12, f13, f14, f15⟩ := v21_facts h cfg wf
  have ⟨hok, hrom⟩ := header21_facts cfg wf
  have hstart := start21_aligned cfg wf
  obtain ⟨wdek, wmac, wnonce, wpad, wts, wpv, wcv, wbn, wfl, wsg, wcert, wsig, wne, wsec, wlen, wmc⟩ := wf
  have hstop : Spec.fileLen21 cfg / 16 * 16 = (buildV21 c cfg).length := by
    rw [f1, fileLen21_sha]; have := shaLen21_cases cfg; omega
  have hdec : Parse.decodeImageHdr ((buildV21 c cfg).take 96) = .ok (hd21 cfg) := by
    rw [f5, decodeImageHdr_encode _ hok hpv hcv, hrom]
  generalize hfile : buildV21 c cfg = file at *
  have hcert : cp (file.drop 208) = some ci := by
    have : file.drop 208 = cfg.certBlock ++ (file.drop 208).drop cfg.certBlock.length := by
      have := List.take_append_drop cfg.certBlock.length (file.drop 208)
      unfold Rom.slice at f9
      rw [f9] at this
      exact this.symm
    rw [this]; exact hcp _
  generalize hhd : hd21 cfg = hd at hdec
  have ⟨g3, g5, g9, g10⟩ : hd.flags = cfg.flags ∧ hd.offsetToCert = 208 ∧
      hd.imageBlocks = Spec.fileLen21 cfg / 16 ∧ hd.nonce = cfg.nonce := by
    subst hhd; exact ⟨rfl, rfl, rfl, rfl⟩
  unfold Parse.parseV21
  rw [unwrapKeys_ok h cfg.kek cfg.dek cfg.mac file hk (by omega) f8 wdek wmac]
  simp only [Sb2Consts.imageHeaderFmtSize]
  rw [hdec]
  simp only [g3, g5, g9, g10, headerKeysLen_eq, hstop, Sb2Consts.v21FlagsShaPresentBit, Sb2Consts.v21Sha256Size]
  rw [if_neg (fun hne => hne rfl), hcert]
  simp only [hraw, hsz, flags_sha_iff, decide_eq_true_eq, ← shaLen21.eq_1]
  rw [f11, f13, hver, if_neg (by simp)]
  have hbsO : cfg.bsOffset21 = 208 + cfg.certBlock.length + shaLen21 cfg + cfg.signature.length := bsOffset21_eq cfg
  generalize hst : 208 + cfg.certBlock.length + shaLen21 cfg + cfg.signature.length = start at *
  rw [if_neg (by omega)]
  have hsha : (decide (cfg.flags / 32768 % 2 = 1) &&
      Rom.slice file (208 + cfg.certBlock.length) 32 != c.hash .sha256 (cfg.bsData21 c)) = false := by
    rcases shaLen21_cases cfg with ⟨hs, hl⟩ | ⟨hs, hl⟩
    · rw [hl] at f10
      rw [if_pos ((shaPresent_iff cfg).2 hs)] at f10
      rw [f10]
      simp
    · simp [hs]
  have hpre : file = file.take start ++ cfg.bsData21 c ++ [] := by
    rw [List.append_nil, ← f12, List.take_append_drop]
  have lpre : (file.take start).length = start := by rw [List.length_take]; omega
  have hps := parseSections21_buildSections h cfg.dek cfg.mac cfg.nonce [] cfg.sections wsec (file.take start)
    (by rw [lpre]; omega) (file.length + 2) (by have := sections_length_le cfg.sections wsec; omega) true (fun _ => wne)
  have hbsd : cfg.bsData21 c = buildSections c cfg.dek cfg.mac cfg.nonce (nonceCtr cfg.nonce + start / 16) cfg.sections := by
    unfold Cfg.bsData21; rw [hbsO]
  rw [lpre, ← hbsd, ← hpre, show start + Spec.sectionsLen cfg.sections = file.length by omega] at hps
  rw [hps]
  simp only []
  rw [f12, hsha]
  subst hhd
  simp [Parse.parsedOf21, hd21]


-- INTERFACE
theorem parseV21_wrong_kek (h : CryptoLaws c) (cfg : Cfg) (wf : Spec.WF21 cfg) (cp : Parse.CertParser)
    (kek' : Bytes) (hk : kek' ≠ cfg.kek) :
    (∃ e, Parse.parseV21 c cp kek' (buildV21 c cfg) = .error e) ∨ Break c := by
  obtain ⟨f1, f2, f3, f4, f5, f6, f7, f8, f9, f10, f11, f12, f13, f14, f15⟩ := v21_facts h cfg wf
  rcases unwrapKeys_wrong cfg.kek kek' cfg.dek cfg.mac (buildV21 c cfg) (by omega) f8 hk with ⟨e, he⟩ | hb
  · left
    refine ⟨e, ?_⟩
    unfold Parse.parseV21
    rw [he]
  · exact Or.inr hb

/-! ## V2.0 -/

theorem file20_eq (h : CryptoLaws c) (cfg : Cfg) (hdr : ImageHdr) (cs sg : Bytes)
    (lpre : (pre20 c cfg hdr).length = 208) (hcs : cs.length % 16 = 0) :
    file20 c cfg hdr cs sg = (pre20 c cfg hdr ++ cs) ++
      buildSections c cfg.dek cfg.mac cfg.nonce (nonceCtr cfg.nonce + (pre20 c cfg hdr ++ cs).length / 16) cfg.sections ++ sg := by
  have : (pre20 c cfg hdr ++ cs).length / 16 = (pre20 c cfg hdr).length / 16 + cs.length / 16 := by
    rw [List.length_append, lpre]; omega
  rw [this, ← Nat.add_assoc]; rfl

theorem parseSections20_file20 (h : CryptoLaws c) (cfg : Cfg) (hdr : ImageHdr) (cs sg : Bytes)
    (lpre : (pre20 c cfg hdr).length = 208) (hcs : cs.length % 16 = 0)
    (wsec : ∀ s ∈ cfg.sections, Spec.WFsection s) (hu : (cfg.sections.map (·.uid)).Nodup) :
    Parse.parseSections20 c cfg.dek cfg.mac cfg.nonce (file20 c cfg hdr cs sg)
        (208 + cs.length + Spec.sectionsLen cfg.sections) ((file20 c cfg hdr cs sg).length + 2) []
        (208 + cs.length) (nonceCtr cfg.nonce + (208 + cs.length) / 16)
      = .ok (cfg.sections.map Parse.parsedSection) := by
  have hl : (pre20 c cfg hdr ++ cs).length = 208 + cs.length := by rw [List.length_append, lpre]
  have hps := parseSections20_buildSections h cfg.dek cfg.mac cfg.nonce sg cfg.sections wsec (pre20 c cfg hdr ++ cs)
    (by rw [hl]; omega) ((file20 c cfg hdr cs sg).length + 2) (by
      have := sections_length_le cfg.sections wsec
      rw [file20_eq h cfg hdr cs sg lpre hcs]
      have ⟨lb, _⟩ := buildSections_length h cfg.dek cfg.mac cfg.nonce cfg.sections wsec
        (nonceCtr cfg.nonce + (pre20 c cfg hdr ++ cs).length / 16)
      simp only [List.length_append] at lb ⊢
      omega) [] (by simp) hu
  rw [← file20_eq h cfg hdr cs sg lpre hcs, hl] at hps
  exact hps

/-- the certificate section of a signed V2.0 file as SPSDK's parser reads it -/
theorem certSection_parse_facts (h : CryptoLaws c) (dek mac nonce P cert rest cs file : Bytes) (lP : P.length = 208)
    (hlen : cert.length / 16 < 2 ^ 32)
    (hcs : cs = buildCertSection c dek mac nonce (nonceCtr nonce + P.length / 16) cert)
    (hfile : file = P ++ cs ++ rest) :
    Rom.slice file 224 32 = hmac c .sha256 mac (Rom.slice file 208 16) ∧
    decodeHdr (xorBytes (Rom.slice file 208 16) (ksBlock c dek nonce (nonceCtr nonce + 208 / 16)))
      = .ok ⟨Sb2Consts.tagTag, certSectionFlags, Sb2Consts.certSectionMark, cert.length / 16, 1⟩ ∧
    file.drop 288 = cert ++ rest ∧
    Rom.slice file 288 cert.length = cert ∧
    Rom.slice file 256 32 = hmac c .sha256 mac cert := by
  generalize hhdr : (⟨Sb2Consts.tagTag, certSectionFlags, Sb2Consts.certSectionMark, cert.length / 16, 1⟩ : CmdHdr) = hdr
  have hr : hdr.inRange = true := by
    subst hhdr
    simp [CmdHdr.inRange, Sb2Consts.tagTag, certSectionFlags, Sb2Consts.sectFlagCleartext, Sb2Consts.sectFlagLastSect,
      Sb2Consts.certSectionMark]
    omega
  generalize heh : xorBytes (encodeHdr hdr) (ksBlock c dek nonce (nonceCtr nonce + P.length / 16)) = eh
  have leh : eh.length = 16 := by subst heh; simp [encodeHdr_length, ksBlock_length h]
  have hcs' : cs = eh ++ hmac256 c mac eh ++ hmac256 c mac cert ++ cert := by
    rw [hcs]; unfold buildCertSection; simp only [hhdr, heh]
  have lm1 := hmac256_length h mac eh
  have lm2 := hmac256_length h mac cert
  have F1 : Rom.slice file 208 16 = eh := by
    have : file = P ++ eh ++ (hmac256 c mac eh ++ hmac256 c mac cert ++ cert ++ rest) := by
      rw [hfile, hcs']; simp only [List.append_assoc]
    rw [this]; exact slice_mid _ _ _ _ _ lP.symm leh.symm
  have F2 : Rom.slice file 224 32 = hmac256 c mac eh := by
    have : file = (P ++ eh) ++ hmac256 c mac eh ++ (hmac256 c mac cert ++ cert ++ rest) := by
      rw [hfile, hcs']; simp only [List.append_assoc]
    rw [this]; exact slice_mid _ _ _ _ _ (by simp only [List.length_append, lP, leh]) lm1.symm
  have F3 : Rom.slice file 256 32 = hmac256 c mac cert := by
    have : file = (P ++ eh ++ hmac256 c mac eh) ++ hmac256 c mac cert ++ (cert ++ rest) := by
      rw [hfile, hcs']; simp only [List.append_assoc]
    rw [this]; exact slice_mid _ _ _ _ _ (by simp only [List.length_append, lP, leh, lm1]) lm2.symm
  have hfile4 : file = (P ++ eh ++ hmac256 c mac eh ++ hmac256 c mac cert) ++ cert ++ rest := by
    rw [hfile, hcs']; simp only [List.append_assoc]
  have l4 : 288 = (P ++ eh ++ hmac256 c mac eh ++ hmac256 c mac cert).length := by
    simp only [List.length_append, lP, leh, lm1, lm2]
  have F4 : Rom.slice file 288 cert.length = cert := by
    rw [hfile4]; exact slice_mid _ _ _ _ _ l4 rfl
  have F5 : file.drop 288 = cert ++ rest := by
    rw [hfile4, List.append_assoc]; exact List.drop_left' l4.symm
  have F6 : xorBytes eh (ksBlock c dek nonce (nonceCtr nonce + 208 / 16)) = encodeHdr hdr := by
    rw [← heh, lP]
    exact Crypto.xorBytes_cancel _ _ (by simp [encodeHdr_length, ksBlock_length h])
  have F7 : decodeHdr (encodeHdr hdr) = .ok hdr := by
    have := decodeHdr_encodeHdr hdr hr []
    rwa [List.append_nil] at this
  refine ⟨?_, ?_, F5, F4, ?_⟩
  · rw [F2, F1]; rfl
  · rw [F1, F6, F7]
  · rw [F3]; rfl


theorem parseV20_unsigned (h : CryptoLaws c) (cfg : Cfg) (wf : Spec.WF20 cfg false)
    (hk : Parse.kekLenOk cfg.kek = true)
    (hpv : Parse.bcdVersionOk cfg.productVersion) (hcv : Parse.bcdVersionOk cfg.componentVersion)
    (hu : (cfg.sections.map (·.uid)).Nodup) (cp : Parse.CertParser) :
    Parse.parseV20 c cp cfg.kek (buildV20 c cfg false) = .ok (Parse.parsedOf20 cfg false) := by
  have ⟨hok, hrom⟩ := header20_facts cfg false wf
  obtain ⟨wdek, wmac, wnonce, wpad, wts, wpv, wcv, wbn, wsg, wne, wsec, wlen, wmc⟩ := wf
  obtain ⟨lpre, -, flen, smod, ftake, fhmac, fkw, fread, fdrop, fsec⟩ :=
    v20_facts h cfg (cfg.header20 false) [] [] hok wdek wmac wpad wsec (by simp)
  have hps := parseSections20_file20 h cfg (cfg.header20 false) [] [] lpre (by simp) wsec hu
  rw [buildV20_unsigned]
  have hdec : Parse.decodeImageHdr ((file20 c cfg (cfg.header20 false) [] []).take 96) = .ok (hd20 cfg false) := by
    rw [ftake, decodeImageHdr_encode _ hok hpv hcv, hrom]
  generalize hfile : file20 c cfg (cfg.header20 false) [] [] = file at *
  simp only [List.length_nil, Nat.add_zero] at flen hps
  generalize hhd : hd20 cfg false = hd at hdec
  have ⟨g1, g2, g3, g9, g10⟩ : hd.major = 2 ∧ hd.minor = 0 ∧ hd.flags = 4 ∧
      hd.imageBlocks = Spec.bodyLen20 cfg false / 16 ∧ hd.nonce = cfg.nonce := by
    subst hhd; exact ⟨rfl, rfl, rfl, rfl, rfl⟩
  have hbl : Spec.bodyLen20 cfg false = 208 + Spec.sectionsLen cfg.sections := by simp [Spec.bodyLen20]
  have hstop : Spec.bodyLen20 cfg false / 16 * 16 = 208 + Spec.sectionsLen cfg.sections := by omega
  have hm : Rom.slice file 96 32 = hmac c .sha256 cfg.mac (file.take 96) := by rw [fhmac, ftake]; rfl
  unfold Parse.parseV20
  rw [unwrapKeys_ok h cfg.kek cfg.dek cfg.mac file hk (by omega) fkw wdek wmac]
  simp only [Sb2Consts.imageHeaderFmtSize, Sb2Consts.v20HeaderMacSize]
  rw [if_neg (fun hne => hne hm), hdec]
  simp only [g1, g2, g3, g9, g10, hstop, headerKeysLen_eq, Sb2Consts.v20FlagsSigned, Sb2Consts.v20FlagsUnsigned]
  rw [if_neg (by omega), if_neg (by omega), hps]
  subst hhd
  simp [Parse.parsedOf20, hd20]

theorem parseV20_signed (h : CryptoLaws c) (cfg : Cfg) (wf : Spec.WF20 cfg true)
    (hk : Parse.kekLenOk cfg.kek = true)
    (hpv : Parse.bcdVersionOk cfg.productVersion) (hcv : Parse.bcdVersionOk cfg.componentVersion)
    (hu : (cfg.sections.map (·.uid)).Nodup)
    (cp : Parse.CertParser) (ci : Parse.CertInfo)
    (hcp : ∀ rest, cp (cfg.certBlock ++ rest) = some ci)
    (hraw : ci.rawSize = cfg.certBlock.length)
    (hver : ci.verify cfg.signature (cfg.body20 c true) = true) :
    Parse.parseV20 c cp cfg.kek (buildV20 c cfg true) = .ok (Parse.parsedOf20 cfg true) := by
  have ⟨hok, hrom⟩ := header20_facts cfg true wf
  have hbody := body20_length h cfg true wf
  obtain ⟨wdek, wmac, wnonce, wpad, wts, wpv, wcv, wbn, wsg, wne, wsec, wlen, wmc⟩ := wf
  obtain ⟨wcert, wsig⟩ := wsg rfl
  have cmod := certBlockOk_mod _ wcert
  have hbl : Spec.bodyLen20 cfg true = 288 + cfg.certBlock.length + Spec.sectionsLen cfg.sections := by
    simp [Spec.bodyLen20]; omega
  have htake : (buildV20 c cfg true).take (288 + cfg.certBlock.length + Spec.sectionsLen cfg.sections) = cfg.body20 c true := by
    rw [← hbl, ← hbody]
    exact List.take_left' rfl
  rw [buildV20_signed] at htake ⊢
  generalize hcs : buildCertSection c cfg.dek cfg.mac cfg.nonce
    (nonceCtr cfg.nonce + (pre20 c cfg (cfg.header20 true)).length / 16) cfg.certBlock = cs at htake
  have lcs : cs.length = 80 + cfg.certBlock.length := by subst hcs; exact buildCertSection_length h _ _ _ _ _
  obtain ⟨lpre, ⟨rest, hshape⟩, flen, smod, ftake, fhmac, fkw, fread, fdrop, fsec⟩ :=
    v20_facts h cfg (cfg.header20 true) cs cfg.signature hok wdek wmac wpad wsec (by omega)
  have hps := parseSections20_file20 h cfg (cfg.header20 true) cs cfg.signature lpre (by omega) wsec hu
  obtain ⟨c1, c2, c3, c4, c5⟩ := certSection_parse_facts h cfg.dek cfg.mac cfg.nonce _ cfg.certBlock rest cs _ lpre
    (by omega) hcs.symm hshape
  have hdec : Parse.decodeImageHdr ((file20 c cfg (cfg.header20 true) cs cfg.signature).take 96) = .ok (hd20 cfg true) := by
    rw [ftake, decodeImageHdr_encode _ hok hpv hcv, hrom]
  generalize hfile : file20 c cfg (cfg.header20 true) cs cfg.signature = file at *
  rw [lcs] at flen fdrop hps
  rw [show 208 + (80 + cfg.certBlock.length) = 288 + cfg.certBlock.length by omega] at flen fdrop hps
  generalize hhd : hd20 cfg true = hd at hdec
  have ⟨g1, g2, g3, g9, g10⟩ : hd.major = 2 ∧ hd.minor = 0 ∧ hd.flags = 8 ∧
      hd.imageBlocks = Spec.bodyLen20 cfg true / 16 ∧ hd.nonce = cfg.nonce := by
    subst hhd; exact ⟨rfl, rfl, rfl, rfl, rfl⟩
  have hstop : Spec.bodyLen20 cfg true / 16 * 16 = 288 + cfg.certBlock.length + Spec.sectionsLen cfg.sections := by omega
  have hm : Rom.slice file 96 32 = hmac c .sha256 cfg.mac (file.take 96) := by rw [fhmac, ftake]; rfl
  have hcsec : Parse.parseCertSection c cp cfg.dek cfg.mac cfg.nonce file 208 (nonceCtr cfg.nonce + 208 / 16)
      = .ok (ci, 80 + cfg.certBlock.length) := by
    unfold Parse.parseCertSection
    rw [if_neg (fun hne => hne c1), c2]
    simp only []
    rw [if_neg (fun hne => hne rfl), if_neg (fun hne => hne rfl), if_neg (fun hne => hne rfl), c3, hcp]
    simp only [hraw]
    rw [c4, if_neg (fun hne => hne c5), if_neg (by omega)]
  unfold Parse.parseV20
  rw [unwrapKeys_ok h cfg.kek cfg.dek cfg.mac file hk (by omega) fkw wdek wmac]
  simp only [Sb2Consts.imageHeaderFmtSize, Sb2Consts.v20HeaderMacSize]
  rw [if_neg (fun hne => hne hm), hdec]
  simp only [g1, g2, g3, g9, g10, hstop, headerKeysLen_eq, Sb2Consts.v20FlagsSigned, Sb2Consts.v20FlagsUnsigned]
  rw [if_neg (by omega), if_pos trivial, hcsec]
  simp only []
  rw [fdrop, htake, hver, if_neg (by simp)]
  rw [show 208 + (80 + cfg.certBlock.length) = 288 + cfg.certBlock.length by omega,
    show nonceCtr cfg.nonce + 208 / 16 + (80 + cfg.certBlock.length) / 16
      = nonceCtr cfg.nonce + (288 + cfg.certBlock.length) / 16 by omega, hps]
  subst hhd
  simp [Parse.parsedOf20, hd20]


-- INTERFACE
theorem parseV20_buildV20 (h : CryptoLaws c) (cfg : Cfg) (signed : Bool) (wf : Spec.WF20 cfg signed)
    (hk : Parse.kekLenOk cfg.kek = true)
    (hpv : Parse.bcdVersionOk cfg.productVersion) (hcv : Parse.bcdVersionOk cfg.componentVersion)
    (hu : (cfg.sections.map (·.uid)).Nodup)
    (cp : Parse.CertParser) (ci : Parse.CertInfo)
    (hcp : signed = true → ∀ rest, cp (cfg.certBlock ++ rest) = some ci)
    (hraw : signed = true → ci.rawSize = cfg.certBlock.length)
    (hver : signed = true → ci.verify cfg.signature (cfg.body20 c true) = true) :
    Parse.parseV20 c cp cfg.kek (buildV20 c cfg signed) = .ok (Parse.parsedOf20 cfg signed) := by
  cases signed
  · exact parseV20_unsigned h cfg wf hk hpv hcv hu cp
  · exact parseV20_signed h cfg wf hk hpv hcv hu cp ci (hcp rfl) (hraw rfl) (hver rfl)

-- INTERFACE
theorem parseV20_wrong_kek (h : CryptoLaws c) (cfg : Cfg) (signed : Bool) (wf : Spec.WF20 cfg signed)
    (cp : Parse.CertParser) (kek' : Bytes) (hk : kek' ≠ cfg.kek) :
    (∃ e, Parse.parseV20 c cp kek' (buildV20 c cfg signed) = .error e) ∨ Break c := by
  have ⟨hok, hrom⟩ := header20_facts cfg signed wf
  obtain ⟨wdek, wmac, wnonce, wpad, wts, wpv, wcv, wbn, wsg, wne, wsec, wlen, wmc⟩ := wf
  have key : ∀ cs sg : Bytes, cs.length % 16 = 0 →
      (∃ e, Parse.parseV20 c cp kek' (file20 c cfg (cfg.header20 signed) cs sg) = .error e) ∨ Break c := by
    intro cs sg hcs
    have F := v20_facts h cfg (cfg.header20 signed) cs sg hok wdek wmac wpad wsec hcs
    rcases unwrapKeys_wrong cfg.kek kek' cfg.dek cfg.mac _ (by rw [F.len]; omega) F.kwAt hk with ⟨e, he⟩ | hb
    · left
      refine ⟨e, ?_⟩
      unfold Parse.parseV20
      rw [he]
    · exact Or.inr hb
  cases signed
  · rw [buildV20_unsigned]; exact key [] [] (by simp)
  · have ⟨wcert, _⟩ := wsg rfl
    have := certBlockOk_mod _ wcert
    rw [buildV20_signed]
    exact key _ _ (by rw [buildCertSection_length h]; omega)

end SpsdkVerif.Sb2
