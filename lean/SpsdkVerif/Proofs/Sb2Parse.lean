/-
C04 phase 2 helper lemmas: SPSDK's own image parser model (Model/Sb2Parse.lean) on files produced by the builder model.
INTERFACE lemmas (used by Properties/C04.lean) are marked `-- INTERFACE`: keep their names and statements.
-/
import SpsdkVerif.Proofs.Sb2Image
import SpsdkVerif.Model.Sb2Parse

namespace SpsdkVerif.Sb2
open SpsdkVerif SpsdkVerif.Sb2.Rom
open SpsdkVerif.Misc (Bytes beEnc beDec leEnc leDec bcdDigitOk)
open SpsdkVerif.Crypto (CryptoOps CryptoLaws Break xorBytes zeroPad16 zeros hmac kwWrap kwUnwrap)
open SpsdkVerif.Generated

variable {c : CryptoOps}

/-! ## sections -/

-- INTERFACE: the parsed section object occupies exactly the bytes of the built section and reports the effective MAC count
theorem parsedSection_facts (s : Section) (wf : Spec.WFsection s) :
    (Parse.parsedSection s).rawSize = Spec.sectionLen s ∧ (Parse.parsedSection s).effHmacCount = Spec.macCount s ∧
    (Parse.parsedSection s).uid = s.uid := by
  sorry

-- INTERFACE: `BootSectionV2.parse` on a section built for its position: the section object, and the counter has
-- advanced by the section's length in blocks
theorem parseSection_buildSection (h : CryptoLaws c) (dek mac nonce pre post : Bytes) (s : Section)
    (wf : Spec.WFsection s) (hpre : pre.length % 16 = 0) :
    Parse.parseSection c dek mac nonce
        (pre ++ buildSection c dek mac nonce (nonceCtr nonce + pre.length / 16) s ++ post) pre.length
        (nonceCtr nonce + pre.length / 16)
      = .ok (Parse.parsedSection s, nonceCtr nonce + pre.length / 16 + Spec.sectionLen s / 16) := by
  sorry

/-! ## V2.1 -/

-- INTERFACE (parser_agrees): SPSDK's parser returns what was given to the builder
theorem parseV21_buildV21 (h : CryptoLaws c) (cfg : Cfg) (wf : Spec.WF21 cfg)
    (hk : Parse.kekLenOk cfg.kek = true)
    (hpv : Parse.bcdVersionOk cfg.productVersion) (hcv : Parse.bcdVersionOk cfg.componentVersion)
    (cp : Parse.CertParser) (ci : Parse.CertInfo)
    (hcp : ∀ rest, cp (cfg.certBlock ++ rest) = some ci)
    (hraw : ci.rawSize = cfg.certBlock.length) (hsz : ci.sigSize = cfg.signature.length)
    (hver : ci.verify cfg.signature (cfg.signed21 c) = true) :
    Parse.parseV21 c cp cfg.kek (buildV21 c cfg) = .ok (Parse.parsedOf21 cfg) := by
  sorry

-- INTERFACE: a different KEK makes the parser raise — unless RFC 3394 integrity is broken
theorem parseV21_wrong_kek (h : CryptoLaws c) (cfg : Cfg) (wf : Spec.WF21 cfg) (cp : Parse.CertParser)
    (kek' : Bytes) (hk : kek' ≠ cfg.kek) :
    (∃ e, Parse.parseV21 c cp kek' (buildV21 c cfg) = .error e) ∨ Break c := by
  sorry

/-! ## V2.0 -/

-- INTERFACE
theorem parseV20_buildV20 (h : CryptoLaws c) (cfg : Cfg) (signed : Bool) (wf : Spec.WF20 cfg signed)
    (hk : Parse.kekLenOk cfg.kek = true)
    (hpv : Parse.bcdVersionOk cfg.productVersion) (hcv : Parse.bcdVersionOk cfg.componentVersion)
    (hu : (cfg.sections.map (·.uid)).Nodup)
    (cp : Parse.CertParser) (ci : Parse.CertInfo)
    (hcp : signed = true → ∀ rest, cp (cfg.certBlock ++ rest) = some ci)
    (hraw : signed = true → ci.rawSize = cfg.certBlock.length)
    (hver : signed = true → ci.verify cfg.signature (cfg.body20 c true) = true) :
    Parse.parseV20 c cp cfg.kek (buildV20 c cfg signed) = .ok (Parse.parsedOf20 cfg signed) := by
  sorry

-- INTERFACE
theorem parseV20_wrong_kek (h : CryptoLaws c) (cfg : Cfg) (signed : Bool) (wf : Spec.WF20 cfg signed)
    (cp : Parse.CertParser) (kek' : Bytes) (hk : kek' ≠ cfg.kek) :
    (∃ e, Parse.parseV20 c cp kek' (buildV20 c cfg signed) = .error e) ∨ Break c := by
  sorry

end SpsdkVerif.Sb2
