/- C07 helper lemmas, part 12: the ROM-side reader reads the IVT / boot data / DCD / XMCD extents of an exported image. -/
import SpsdkVerif.Proofs.HabRomBase
import SpsdkVerif.Proofs.HabLayout
import SpsdkVerif.Proofs.HabRoundtrip

namespace SpsdkVerif.Hab
open SpsdkVerif SpsdkVerif.Misc SpsdkVerif.Generated
open SpsdkVerif.Spec
open SpsdkVerif.Spec.HabRom (bindE chk sub rdN u8at u16be u32be u32le RCmd Walk View)

/-- the k-th 4-byte chunk of a concatenation of 4-byte chunks -/
theorem slice_flatten4 (cs : List Bytes) (h : ∀ c ∈ cs, c.length = 4) (k : Nat) (c : Bytes) (hk : cs[k]? = some c) :
    slice cs.flatten (4 * k) 4 = c := by
  induction cs generalizing k with
  | nil => simp at hk
  | cons a r ih =>
    have ha := h a (by simp)
    cases k with
    | zero =>
      simp at hk; subst hk
      simp only [List.flatten_cons, Nat.mul_zero]
      have := slice_append_mid' [] a r.flatten 0 4 rfl ha.symm
      simpa using this
    | succ k =>
      simp at hk
      simp only [List.flatten_cons]
      rw [slice_append_right _ _ _ _ (by omega), ha]
      have : 4 * (k + 1) - 4 = 4 * k := by omega
      rw [this]
      exact ih (fun c hc => h c (by simp [hc])) k hk

theorem ivt_flat (v : Ivt) : v.encode = List.flatten [hdr Hab.Spec.tagIVT Hab.Spec.ivtSize v.version, le32 v.entry,
    le32 v.rs1, le32 v.dcd, le32 v.bdt, le32 v.self, le32 v.csf, le32 v.rs2] := by
  simp [Ivt.encode, List.append_assoc]

theorem bdt_flat (b : Bdt) : b.encode = List.flatten [le32 b.start, le32 b.length, le32 b.plugin] := by
  simp [Bdt.encode, List.append_assoc]

theorem ivt_chunk (v : Ivt) (k : Nat) (c : Bytes)
    (hk : [hdr Hab.Spec.tagIVT Hab.Spec.ivtSize v.version, le32 v.entry, le32 v.rs1, le32 v.dcd, le32 v.bdt, le32 v.self,
      le32 v.csf, le32 v.rs2][k]? = some c) : slice v.encode (4 * k) 4 = c := by
  rw [ivt_flat]
  exact slice_flatten4 _ (by intro c hc; simp at hc; rcases hc with h | h | h | h | h | h | h | h <;> subst h <;> simp) k c hk

theorem bdt_chunk (b : Bdt) (k : Nat) (c : Bytes) (hk : [le32 b.start, le32 b.length, le32 b.plugin][k]? = some c) :
    slice b.encode (4 * k) 4 = c := by
  rw [bdt_flat]
  exact slice_flatten4 _ (by intro c hc; simp at hc; rcases hc with h | h | h <;> subst h <;> simp) k c hk

/-- a read inside a known slice of the image -/
theorem u32le_in (img x : Bytes) (o n k v : Nat) (hx : slice img o n = x) (hv : v < 2 ^ 32) (hk : 4 * k + 4 ≤ n)
    (hc : slice x (4 * k) 4 = le32 v) : u32le img (o + 4 * k) = .ok v := by
  apply u32le_of_slice _ _ _ hv
  rw [← slice_slice _ o n (4 * k) 4 hk, hx, hc]

theorem readView_export (c : Cfg) (b : Built) (h : c.WF) (happ : b.app.length = c.appBin.length)
    (hcsf : c.hasCsf = true → (csfBytes c.version b.cmds).length = HabConsts.csfSize) :
    HabRom.readView (exportImage c b) =
      .ok { entry := c.entry, dcd := c.ivt.dcd, self := c.start + c.ivtOff, csf := c.ivt.csf, start := c.start,
            blen := c.bdt.length } := by
  obtain ⟨pIvt, pSelf, pEntry, pBdt, pBdtS, pDcd, pDcd0, _, _, _, pCsf, pNoCsf, pBs, pBp, pBl⟩ :=
    ivt_points_lemma c b h happ hcsf
  generalize exportImage c b = img at *
  have hgt := csfAbs_gt (c.ils + c.app.length)
  have haddr := h.addr
  have hco := csfOff_eq c
  have hle := h.ivtLe
  have hI : slice img 0 32 = c.ivt.encode := by simpa [slice] using pIvt
  have hB : slice img 32 12 = c.bdt.encode := by rw [pBdt, Nat.add_sub_cancel_left] at pBdtS; exact pBdtS
  have hlen12 : 32 + 12 ≤ img.length := by
    have := congrArg List.length hB
    simp [slice] at this; omega
  -- bounds
  have hdcdv : c.ivt.dcd < 2 ^ 32 := by
    cases hdd : c.dcd with
    | none => rw [pDcd0 hdd]; omega
    | some d => rw [(pDcd d hdd).1, pSelf]; omega
  have hcsfv : c.ivt.csf < 2 ^ 32 := by
    by_cases hh : c.hasCsf = true
    · rw [(pCsf hh).1, pSelf]; omega
    · rw [(pNoCsf (by simpa using hh)).1]; omega
  have hblen : c.bdt.length < 2 ^ 32 := by
    rw [pBl]
    have hi : (if isEnc c.flags = true then HabConsts.keyblobSize else 0) ≤ 512 := by split <;> simp [HabConsts.keyblobSize]
    have : img.length ≤ c.csfOff + 8192 := by
      by_cases hh : c.hasCsf = true
      · have := (pCsf hh).2.2.2; have e : HabConsts.csfSize = 8192 := rfl; omega
      · have := (pNoCsf (by simpa using hh)).2; have := app_before_csf c h; rw [happ] at *; omega
    generalize (if isEnc c.flags = true then HabConsts.keyblobSize else 0) = kb at hi ⊢
    omega
  -- header bytes
  have hh4 : slice c.ivt.encode 0 4 = hdr Hab.Spec.tagIVT Hab.Spec.ivtSize c.ivt.version := ivt_chunk c.ivt 0 _ rfl
  have hdr4' : hdr Hab.Spec.tagIVT Hab.Spec.ivtSize c.ivt.version = [u8 0xD1, u8 0, u8 32, u8 64] := by
    simp [hdr, be16_eq, Hab.Spec.tagIVT, Hab.Spec.ivtSize, Cfg.ivt, HabConsts.ivtVersion]
  have s04 : slice img 0 4 = [u8 0xD1, u8 0, u8 32, u8 64] := by
    rw [← hdr4', ← hh4, ← hI, slice_slice _ 0 32 0 4 (by omega)]
  have r0 : u8at img 0 = .ok 0xD1 := u8at_of_slice _ _ _ (by decide) (by
    have := slice_slice img 0 4 0 1 (by omega); rw [s04] at this; rw [← this]; rfl)
  have r1 : u16be img 1 = .ok 32 := u16be_of_slice _ _ _ (by decide) (by
    have := slice_slice img 0 4 1 2 (by omega); rw [s04] at this; simp only [Nat.zero_add] at this; rw [← this]; rfl)
  have r3 : u8at img 3 = .ok 64 := u8at_of_slice _ _ _ (by decide) (by
    have := slice_slice img 0 4 3 1 (by omega); rw [s04] at this; simp only [Nat.zero_add] at this; rw [← this]; rfl)
  have rEntry : u32le img 4 = .ok c.entry := by
    have := u32le_in img _ 0 32 1 c.entry hI h.entry (by omega) (by rw [← pEntry]; exact ivt_chunk c.ivt 1 _ rfl)
    simpa using this
  have rDcd : u32le img 12 = .ok c.ivt.dcd := by
    have := u32le_in img _ 0 32 3 c.ivt.dcd hI hdcdv (by omega) (ivt_chunk c.ivt 3 _ rfl)
    simpa using this
  have rBdp : u32le img 16 = .ok c.ivt.bdt := by
    have := u32le_in img _ 0 32 4 c.ivt.bdt hI (by rw [pBdt, pSelf]; omega) (by omega) (ivt_chunk c.ivt 4 _ rfl)
    simpa using this
  have rSelf : u32le img 20 = .ok c.ivt.self := by
    have := u32le_in img _ 0 32 5 c.ivt.self hI (by rw [pSelf]; omega) (by omega) (ivt_chunk c.ivt 5 _ rfl)
    simpa using this
  have rCsf : u32le img 24 = .ok c.ivt.csf := by
    have := u32le_in img _ 0 32 6 c.ivt.csf hI hcsfv (by omega) (ivt_chunk c.ivt 6 _ rfl)
    simpa using this
  have rStart : u32le img 32 = .ok c.bdt.start := by
    have := u32le_in img _ 32 12 0 c.bdt.start hB (by rw [pBs]; omega) (by omega) (bdt_chunk c.bdt 0 _ rfl)
    simpa using this
  have rLen : u32le img 36 = .ok c.bdt.length := by
    have := u32le_in img _ 32 12 1 c.bdt.length hB hblen (by omega) (bdt_chunk c.bdt 1 _ rfl)
    simpa using this
  have rPlug : u32le img 40 = .ok c.bdt.plugin := by
    have := u32le_in img _ 32 12 2 c.bdt.plugin hB (by rw [pBp]; omega) (by omega) (bdt_chunk c.bdt 2 _ rfl)
    simpa using this
  unfold HabRom.readView
  rw [r0, bindE_ok, r1, bindE_ok, r3, bindE_ok, chk_of _ _ _ (by decide), rEntry, bindE_ok, rDcd, bindE_ok, rBdp,
    bindE_ok, rSelf, bindE_ok, rCsf, bindE_ok, chk_of _ _ _ (by simp [pBdt]), rStart, bindE_ok, rLen, bindE_ok,
    rPlug, bindE_ok, chk_of _ _ _ (by simp [pBp]), chk_of _ _ _ (by simp [pBs, pSelf])]
  rw [pSelf, pBs]


theorem image_len_ge (c : Cfg) (b : Built) (h : c.WF) : c.appOff ≤ (exportImage c b).length := by
  obtain ⟨t, e⟩ := image_nf' c h b.app (if c.hasCsf then some (csfBytes c.version b.cmds) else none)
  have : exportImage c b = pre c ++ b.app ++ t := e
  rw [this]
  simp [pre_length c h] <;> omega

def dcdLenOf (c : Cfg) : Nat := match c.dcd with | some d => d.length | none => 0
def xmcdLenOf (c : Cfg) : Nat := match c.xmcd with | some x => x.length | none => 0

/-- DCD / XMCD extents as the reader derives them from the headers in the image -/
theorem frontLens_export (c : Cfg) (b : Built) (h : c.WF) (happ : b.app.length = c.appBin.length)
    (hcsf : c.hasCsf = true → (csfBytes c.version b.cmds).length = HabConsts.csfSize)
    (hd : ∀ d, c.dcd = some d → DcdWF d) (hx : ∀ x, c.xmcd = some x → XmcdWF x) (v : View)
    (hv : v.dcd = c.ivt.dcd ∧ v.self = c.start + c.ivtOff) :
    HabRom.frontLens (exportImage c b) v =
      .ok (dcdLenOf c, xmcdLenOf c) := by
  unfold dcdLenOf xmcdLenOf
  obtain ⟨_, pSelf, _, _, _, pDcd, pDcd0, pXm, _⟩ := ivt_points_lemma c b h happ hcsf
  have hge := appOff_ge c h
  have hlen := image_len_ge c b h
  generalize himg : exportImage c b = img at *
  have h68 : img.length ≥ 68 := by omega
  unfold HabRom.frontLens
  rw [if_pos h68]
  cases hdd : c.dcd with
  | some d =>
    obtain ⟨hv1, hs⟩ := pDcd d hdd
    rw [hv1, Nat.add_sub_cancel_left] at hs
    obtain ⟨hl, p, body, hp, _, he⟩ := hd d hdd
    have hxn : c.xmcd = none := by
      rcases h.notBoth with hh | hh
      · rw [hdd] at hh; cases hh
      · exact hh
    have hd4 : 4 ≤ d.length := by have := congrArg List.length he; simp at this; omega
    have e' : d = u8 Hab.Spec.tagDCD :: u8 (d.length / 256 % 256) :: u8 (d.length % 256) :: u8 p :: body := by
      conv => lhs; rw [he]
      simp [hdr, be16_eq]
    have r64 : u8at img 64 = .ok 0xD2 := u8at_of_slice _ _ _ (by decide) (by
      have := slice_slice img 64 d.length 0 1 (by omega); rw [hs] at this; rw [Nat.add_zero] at this
      rw [← this, e']; rfl)
    have r65 : u16be img 65 = .ok d.length := u16be_of_slice _ _ _ hl (by
      have := slice_slice img 64 d.length 1 2 (by omega); rw [hs] at this
      rw [← this, be16_eq]; conv => lhs; rw [e']
      rfl)
    have r67 : u8at img 67 = .ok p := u8at_of_slice _ _ _ hp (by
      have := slice_slice img 64 d.length 3 1 (by omega); rw [hs] at this
      rw [← this]; conv => lhs; rw [e']
      rfl)
    have hne : v.dcd ≠ 0 := by rw [hv.1, hv1, pSelf]; have := h.nonzero; omega
    rw [if_neg hne, chk_of _ _ _ (by rw [hv.1, hv.2, hv1, pSelf]; simp), r64, bindE_ok, chk_of _ _ _ (by decide), r65,
      bindE_ok, r67, bindE_ok, if_neg (fun hh => hne hh.1), bindE_ok, hxn]
  | none =>
    have hv0 : v.dcd = 0 := by rw [hv.1, pDcd0 hdd]
    rw [if_pos hv0, bindE_ok]
    cases hxx : c.xmcd with
    | some x =>
      have hs := pXm x hxx
      have e64 : HabConsts.xmcdSegOffset = 64 := rfl
      rw [e64] at hs
      obtain ⟨hxl, type, iface, inst, body, ht, hi, hj, he⟩ := hx x hxx
      have hx4 : 4 ≤ x.length := by have := congrArg List.length he; simp at this; omega
      have r67 : u8at img 67 = .ok 0xC0 := u8at_of_slice _ _ _ (by decide) (by
        have := slice_slice img 64 x.length 3 1 (by omega); rw [hs] at this
        rw [← this]; conv => lhs; rw [he]
        rfl)
      have r64 : u8at img 64 = .ok (x.length % 256) := u8at_of_slice _ _ _ (by omega) (by
        have := slice_slice img 64 x.length 0 1 (by omega); rw [hs] at this; rw [Nat.add_zero] at this
        rw [← this]; conv => lhs; rw [he]
        rfl)
      have r65 : u8at img 65 = .ok (type * 16 + x.length / 256) := u8at_of_slice _ _ _ (by omega) (by
        have := slice_slice img 64 x.length 1 1 (by omega); rw [hs] at this
        rw [← this]; conv => lhs; rw [he]
        rfl)
      have e : (type * 16 + x.length / 256) % 16 * 256 + x.length % 256 = x.length := by omega
      rw [r67, bindE_ok, if_pos ⟨hv0, rfl⟩, r64, bindE_ok, r65, bindE_ok, bindE_ok, e]
    | none =>
      have hz : slice img 64 4 = zeros 4 := by
        obtain ⟨t, e⟩ := image_nf' c h b.app (if c.hasCsf then some (csfBytes c.version b.cmds) else none)
        have himg' : img = pre c ++ b.app ++ t := by rw [← himg]; exact e
        have h3 : (st3 c).length = 44 := by rw [st3_length c h, hdd, hxx]
        rw [himg', List.append_assoc, slice_append_left _ _ _ _ (by rw [pre_length c h]; omega)]
        unfold pre
        rw [slice_append_right _ _ _ _ (by omega), h3]
        exact slice_zeros _ _ _ (by omega)
      have r67 : u8at img 67 = .ok 0 := u8at_of_slice _ _ _ (by decide) (by
        have := slice_slice img 64 4 3 1 (by omega); rw [hz] at this
        rw [← this]; rfl)
      rw [r67, bindE_ok, if_neg (by intro hh; cases hh.2), bindE_ok]

end SpsdkVerif.Hab
