/-
C01 for the header-less "Vx" images of the mc56f81xxx / mwct20x2 families (Model/MbiVx.lean): the exporters write only into
the byte ranges that belong to the tool (`Vx.owned`), the fields they write describe the emitted bytes (BCA image length /
firmware version / CRC start-count-value, image digest and signature over exactly header + BCA + data), the parser gives the
image back as the application together with life cycle and firmware version, and re-exporting the parsed image reproduces
every byte outside the signature.
-/
import SpsdkVerif.Model.MbiVx
import SpsdkVerif.Proofs.MbiBase
import SpsdkVerif.Proofs.MbiPlain

namespace SpsdkVerif.Mbi.Vx
open SpsdkVerif SpsdkVerif.Misc SpsdkVerif.Crypto SpsdkVerif.Mbi
open SpsdkVerif.Generated.IvtConsts

/-! ### bytes: reads of `setAt` / `putSlot`, pointwise congruences -/

theorem vx_zeros_getElem? (n j : Nat) : (zeros n)[j]? = if j < n then some 0 else none := by
  unfold zeros
  rw [List.getElem?_replicate]

theorem vx_setAt_outside (x w : Bytes) (off i : Nat) (h : off ≤ x.length) (hi : i < off ∨ off + w.length ≤ i) :
    (setAt x off w)[i]? = x[i]? := by
  unfold setAt
  rcases hi with hi | hi
  · rw [List.append_assoc, List.getElem?_append_left (by rw [List.length_take]; omega), List.getElem?_take_of_lt hi]
  · rw [List.getElem?_append_right (by simp only [List.length_append, List.length_take]; omega)]
    simp only [List.length_append, List.length_take, List.getElem?_drop, Nat.min_eq_left h]
    congr 1
    omega

theorem vx_setAt_slice (x w : Bytes) (off : Nat) (h : off ≤ x.length) : slice (setAt x off w) off (off + w.length) = w := by
  unfold setAt
  have := slice_append_mid (x.take off) w (x.drop (off + w.length))
  rwa [List.length_take, Nat.min_eq_left h] at this

theorem vx_putSlot_length (img new : Bytes) (a b : Nat) (h1 : a ≤ b) (h2 : b ≤ img.length) (h3 : new.length ≤ b - a) :
    (putSlot img a b new).length = img.length := by
  unfold putSlot
  simp only [List.length_append, List.length_take, List.length_drop, zeros_length]
  omega

theorem vx_putSlot_outside (img new : Bytes) (a b i : Nat) (h1 : a ≤ b) (h2 : b ≤ img.length) (h3 : new.length ≤ b - a)
    (hi : i < a ∨ b ≤ i) : (putSlot img a b new)[i]? = img[i]? := by
  unfold putSlot
  rcases hi with hi | hi
  · rw [List.append_assoc, List.append_assoc, List.getElem?_append_left (by rw [List.length_take]; omega),
      List.getElem?_take_of_lt hi]
  · rw [List.getElem?_append_right (by simp only [List.length_append, List.length_take, zeros_length]; omega)]
    simp only [List.length_append, List.length_take, List.getElem?_drop, zeros_length]
    congr 1
    omega

theorem vx_putSlot_slice (img new : Bytes) (a b : Nat) (h : a ≤ img.length) :
    slice (putSlot img a b new) a (a + new.length) = new := by
  unfold putSlot
  have := slice_append_mid (img.take a) new (zeros (b - a - new.length) ++ img.drop b)
  rw [List.length_take, Nat.min_eq_left h] at this
  simpa only [List.append_assoc] using this

theorem vx_slice_getElem? (x : Bytes) (a b j : Nat) : (slice x a b)[j]? = if a + j < b then x[a + j]? else none := by
  unfold slice
  rw [List.getElem?_drop, List.getElem?_take]

theorem vx_slice_congr (x y : Bytes) (a b : Nat) (h : ∀ i, a ≤ i → i < b → x[i]? = y[i]?) : slice x a b = slice y a b := by
  apply List.ext_getElem?
  intro j
  rw [vx_slice_getElem?, vx_slice_getElem?]
  split
  · exact h _ (by omega) (by omega)
  · rfl

theorem vx_take_congr (x y : Bytes) (a : Nat) (h : ∀ i, i < a → x[i]? = y[i]?) : x.take a = y.take a := by
  apply List.ext_getElem?
  intro j
  rw [List.getElem?_take, List.getElem?_take]
  split
  · exact h _ (by omega)
  · rfl

theorem vx_drop_congr (x y : Bytes) (a : Nat) (h : ∀ i, a ≤ i → x[i]? = y[i]?) : x.drop a = y.drop a := by
  apply List.ext_getElem?
  intro j
  rw [List.getElem?_drop, List.getElem?_drop]
  exact h _ (by omega)

theorem vx_rd32_congr (x y : Bytes) (o o' : Nat) (h : ∀ t, t < 4 → x[o + t]? = y[o' + t]?) : rd32 x o = rd32 y o' := by
  unfold rd32
  congr 1
  apply List.ext_getElem?
  intro j
  rw [List.getElem?_take, List.getElem?_take, List.getElem?_drop, List.getElem?_drop]
  split
  · exact h _ (by omega)
  · rfl

/-- a slice found pointwise -/
theorem vx_slice_eq (x w : Bytes) (a : Nat) (h : ∀ j, j < w.length → x[a + j]? = w[j]?) : slice x a (a + w.length) = w := by
  apply List.ext_getElem?
  intro j
  rw [vx_slice_getElem?]
  split
  · exact h _ (by omega)
  · rw [List.getElem?_eq_none (by omega)]

theorem vx_slice_elem (x w : Bytes) (a b j : Nat) (h : slice x a b = w) (hj : a + j < b) : x[a + j]? = w[j]? := by
  rw [← h, vx_slice_getElem?, if_pos hj]

theorem vx_dataToSign_congr (x y : Bytes)
    (h : ∀ i, (i < vxImgDigestOffset ∨ (vxImgBcaOffset ≤ i ∧ i < vxImgSignedHeaderEnd) ∨ vxImgDataStart ≤ i) → x[i]? = y[i]?) :
    dataToSign x = dataToSign y := by
  unfold dataToSign
  rw [vx_take_congr x y _ (fun i hi => h i (Or.inl hi)),
    vx_slice_congr x y _ _ (fun i h1 h2 => h i (Or.inr (Or.inl ⟨h1, h2⟩))),
    vx_drop_congr x y _ (fun i hi => h i (Or.inr (Or.inr hi)))]

theorem vx_setAt_same (x w : Bytes) (off : Nat) (h : off + w.length ≤ x.length) (hs : slice x off (off + w.length) = w) :
    setAt x off w = x := by
  apply List.ext_getElem?
  intro i
  by_cases hi : i < off ∨ off + w.length ≤ i
  · exact vx_setAt_outside x w off i (by omega) hi
  · have e : i = off + (i - off) := by omega
    rw [e, vx_slice_elem _ _ _ _ _ (vx_setAt_slice x w off (by omega)) (by omega),
      vx_slice_elem _ _ _ _ _ hs (by omega)]

theorem vx_putSlot_same (img new : Bytes) (a b : Nat) (h1 : a ≤ b) (h2 : b ≤ img.length) (h3 : new.length = b - a)
    (hs : slice img a b = new) : putSlot img a b new = img := by
  have hb : b = a + new.length := by omega
  apply List.ext_getElem?
  intro i
  by_cases hi : i < a ∨ b ≤ i
  · exact vx_putSlot_outside img new a b i h1 h2 (by omega) hi
  · have e : i = a + (i - a) := by omega
    rw [e, vx_slice_elem _ _ _ _ _ (vx_putSlot_slice img new a b (by omega)) (by omega),
      vx_slice_elem _ _ _ _ _ hs (by omega)]

/-! ### configuration facts -/

macro "vxc" : tactic => `(tactic| simp only [vxImgDigestSize, vxImgDigestOffset, vxImgSignatureOffset, vxImgBcaOffset,
  vxImgBcaImageLengthOffset, vxImgBcaFwVersionOffset, vxImgFcfOffset, vxImgFcfLifecycleOffset, vxImgIskOffset,
  vxImgIskHashOffset, vxImgIskHashSize, vxImgWpcRootCaCertHashOffset, vxImgDukBlockOffset, vxImgDataStart,
  vxImgSignedHeaderEnd] at *)

structure VxCfg (k : Kind) (cfg : Cfg) : Prop where
  hn : vxImgDataStart ≤ (align4 cfg.app).length
  hn31 : (align4 cfg.app).length < 2 ^ 31
  hlc : lifecycleTags.contains cfg.lifecycle = true
  hfw : cfg.fwVersion < 2 ^ 32
  hns : k ≠ .signed → cfg.fwVersion = 0 ∧ cfg.cert = [] ∧ cfg.justHeader = false
  hsg : k = .signed → cfg.cert.length ≤ vxImgIskHashOffset - vxImgIskOffset ∧ cfg.cert ≠ [] ∧ cfg.certHash.length = vxImgIskHashSize

theorem vxCfg (k : Kind) (cfg : Cfg) (hw : cfgWF k cfg = true) : VxCfg k cfg := by
  unfold cfgWF at hw
  simp only [Bool.and_eq_true, and_assoc, decide_eq_true_eq] at hw
  obtain ⟨a1, a2, a3, a4, a5, a6⟩ := hw
  refine ⟨a1, a2, a3, a4, ?_, ?_⟩
  · intro hk
    have : (k != Kind.signed) = true := by simpa using hk
    have := a5 this
    simpa [and_assoc] using this
  · intro hk
    have : (k == Kind.signed) = true := by simpa using hk
    have := a6 this
    simpa [and_assoc] using this

theorem VxCfg.hlc_lt {k : Kind} {cfg : Cfg} (h : VxCfg k cfg) : cfg.lifecycle < 256 := by
  have := h.hlc
  simp only [lifecycleTags, List.contains_cons, List.contains_nil, Bool.or_false, Bool.or_eq_true, beq_iff_eq] at this
  omega

/-! ### the collector -/

/-- `update_fcf` -/
def vxF (cfg : Cfg) (x : Bytes) : Bytes :=
  if cfg.lifecycle = 0xFF then x else setAt x vxImgFcfLifecycleOffset [UInt8.ofNat cfg.lifecycle]

theorem vx_updateFcf {k : Kind} {cfg : Cfg} (h : VxCfg k cfg) (x : Bytes) : updateFcf cfg x = .ok (vxF cfg x) := by
  unfold updateFcf vxF
  split
  · rfl
  · rw [if_neg (by rw [h.hlc]; simp)]

theorem vxF_length (cfg : Cfg) (x : Bytes) (hx : vxImgFcfLifecycleOffset < x.length) : (vxF cfg x).length = x.length := by
  unfold vxF
  split
  · rfl
  · exact setAt_length _ _ _ (by simp only [List.length_singleton]; omega)

theorem vxF_outside (cfg : Cfg) (x : Bytes) (hx : vxImgFcfLifecycleOffset < x.length) (i : Nat)
    (hi : i ≠ vxImgFcfLifecycleOffset ∨ cfg.lifecycle = 0xFF) : (vxF cfg x)[i]? = x[i]? := by
  unfold vxF
  split
  · rfl
  · rename_i hl
    have hi' : i ≠ vxImgFcfLifecycleOffset := by
      rcases hi with hi | hi
      · exact hi
      · exact absurd hi hl
    exact vx_setAt_outside _ _ _ _ (by omega) (by simp only [List.length_singleton]; omega)

theorem vxF_at (cfg : Cfg) (x : Bytes) (hx : vxImgFcfLifecycleOffset < x.length) (hl : cfg.lifecycle ≠ 0xFF) :
    (vxF cfg x)[vxImgFcfLifecycleOffset]? = some (UInt8.ofNat cfg.lifecycle) := by
  unfold vxF
  rw [if_neg hl]
  have := vx_slice_elem _ _ _ _ 0 (vx_setAt_slice x [UInt8.ofNat cfg.lifecycle] vxImgFcfLifecycleOffset (by omega))
    (by simp)
  simpa using this

/-- the life-cycle byte of an image that went through `update_fcf` -/
theorem vxF_lifecycle {k : Kind} {cfg : Cfg} (h : VxCfg k cfg) (x : Bytes) (hx : vxImgFcfLifecycleOffset < x.length) :
    ((vxF cfg x).getD vxImgFcfLifecycleOffset 0).toNat
      = (if cfg.lifecycle = 0xFF then (x.getD vxImgFcfLifecycleOffset 0).toNat else cfg.lifecycle) := by
  split
  · rename_i hl
    unfold vxF
    rw [if_pos hl]
  · rename_i hl
    rw [List.getD_eq_getElem?_getD, vxF_at cfg x hx hl]
    simp only [Option.getD_some, UInt8.toNat_ofNat']
    have := h.hlc_lt
    omega

theorem vxF_idem (cfg : Cfg) (x : Bytes) (hx : vxImgFcfLifecycleOffset < x.length) : vxF cfg (vxF cfg x) = vxF cfg x := by
  by_cases hl : cfg.lifecycle = 0xFF
  · unfold vxF; simp [hl]
  · have hlen := vxF_length cfg x hx
    have e : ∀ y, vxF cfg y = setAt y vxImgFcfLifecycleOffset [UInt8.ofNat cfg.lifecycle] := fun y => by
      unfold vxF; rw [if_neg hl]
    rw [e (vxF cfg x)]
    apply vx_setAt_same
    · rw [hlen]; simp only [List.length_singleton]; omega
    · apply vx_slice_eq
      intro j hj
      simp only [List.length_singleton] at hj
      have : j = 0 := by omega
      subst this
      simpa using vxF_at cfg x hx hl

theorem vx_rd32_of_slice (x : Bytes) (off v : Nat) (h : slice x off (off + 4) = le32 v) (hv : v < 2 ^ 32) : rd32 x off = v := by
  have : (x.drop off).take 4 = le32 v := by
    rw [← h]
    apply List.ext_getElem?
    intro j
    rw [vx_slice_getElem?, List.getElem?_take, List.getElem?_drop]
    by_cases hj : j < 4
    · rw [if_pos hj, if_pos (by omega)]
    · rw [if_neg hj, if_neg (by omega)]
  rw [rd32_of_window _ _ _ this, leDec_le32 v hv]

theorem vx_updateBca_length (cfg : Cfg) (x : Bytes) (t : Nat) (hx : vxImgBcaFwVersionOffset + 4 ≤ x.length) :
    (updateBca cfg x t).length = x.length := by
  unfold updateBca
  vxc
  rw [setAt_length _ _ _ (by rw [setAt_length _ _ _ (by rw [le32_length]; omega), le32_length]; omega),
    setAt_length _ _ _ (by rw [le32_length]; omega)]

theorem vx_updateBca_outside (cfg : Cfg) (x : Bytes) (t : Nat) (hx : vxImgBcaFwVersionOffset + 4 ≤ x.length) (i : Nat)
    (hi : i < vxImgBcaImageLengthOffset ∨ vxImgBcaFwVersionOffset + 4 ≤ i) : (updateBca cfg x t)[i]? = x[i]? := by
  unfold updateBca
  vxc
  have hl : (setAt x 992 (le32 t)).length = x.length := setAt_length _ _ _ (by rw [le32_length]; omega)
  rw [vx_setAt_outside _ _ _ _ (by omega) (by rw [le32_length]; omega),
    vx_setAt_outside _ _ _ _ (by omega) (by rw [le32_length]; omega)]

theorem vx_updateBca_words (cfg : Cfg) (x : Bytes) (t : Nat) (hx : vxImgBcaFwVersionOffset + 4 ≤ x.length) :
    slice (updateBca cfg x t) vxImgBcaImageLengthOffset (vxImgBcaImageLengthOffset + 4) = le32 t
    ∧ slice (updateBca cfg x t) vxImgBcaFwVersionOffset (vxImgBcaFwVersionOffset + 4) = le32 cfg.fwVersion := by
  unfold updateBca
  vxc
  have hl : (setAt x 992 (le32 t)).length = x.length := setAt_length _ _ _ (by rw [le32_length]; omega)
  have h1 := vx_setAt_slice x (le32 t) 992 (by omega)
  have h2 := vx_setAt_slice (setAt x 992 (le32 t)) (le32 cfg.fwVersion) 996 (by omega)
  rw [le32_length] at h1 h2
  refine ⟨Eq.trans ?_ h1, h2⟩
  apply vx_slice_congr
  intro i hi1 hi2
  exact vx_setAt_outside (setAt x 992 (le32 t)) (le32 cfg.fwVersion) 996 i (by omega) (by rw [le32_length]; omega)

theorem vx_updateBca_same (cfg : Cfg) (x : Bytes) (t : Nat) (hx : vxImgBcaFwVersionOffset + 4 ≤ x.length)
    (h1 : slice x vxImgBcaImageLengthOffset (vxImgBcaImageLengthOffset + 4) = le32 t)
    (h2 : slice x vxImgBcaFwVersionOffset (vxImgBcaFwVersionOffset + 4) = le32 cfg.fwVersion) :
    updateBca cfg x t = x := by
  unfold updateBca
  vxc
  rw [vx_setAt_same x (le32 t) 992 (by rw [le32_length]; omega) (by rw [le32_length]; exact h1),
    vx_setAt_same x (le32 cfg.fwVersion) 996 (by rw [le32_length]; omega) (by rw [le32_length]; exact h2)]

/-- BCA image length of a signed image of `n` bytes -/
def vxT (n : Nat) : Nat := n - (vxImgDataStart - (vxImgDigestOffset + (vxImgFcfOffset - vxImgBcaOffset)))

theorem vx_totalLen_signed (x : Bytes) (hx : vxImgDataStart ≤ x.length) : totalLen .signed x = ((vxT x.length : Nat) : Int) := by
  unfold totalLen vxT
  vxc
  omega

/-- what the collector emits -/
def vxRaw (k : Kind) (cfg : Cfg) : Bytes :=
  match k with
  | .signed =>
    let b := vxF cfg (updateBca cfg (align4 cfg.app) (vxT (align4 cfg.app).length))
    if cfg.justHeader then b.take vxImgDukBlockOffset else b
  | _ => vxF cfg (align4 cfg.app)

theorem vx_collect {k : Kind} {cfg : Cfg} (h : VxCfg k cfg) : collect k cfg = .ok (vxRaw k cfg) := by
  have hn := h.hn
  have hne : (align4 cfg.app).isEmpty = false := by
    cases hh : align4 cfg.app with
    | nil => rw [hh] at hn; simp [vxImgDataStart] at hn
    | cons a l => rfl
  unfold collect
  simp only [hne, Bool.false_eq_true, if_false]
  rw [if_neg (by omega)]
  cases k with
  | plain => exact vx_updateFcf h _
  | crc => exact vx_updateFcf h _
  | signed =>
    have ht := vx_totalLen_signed _ hn
    have hfw := h.hfw
    have h31 := h.hn31
    simp only [ht, Int.toNat_natCast]
    rw [if_neg (by
      have : vxT (align4 cfg.app).length ≤ (align4 cfg.app).length := by unfold vxT; omega
      omega)]
    simp only [vx_updateFcf h, bind, Except.bind, pure, Except.pure, vxRaw]

theorem vx_raw_length {k : Kind} {cfg : Cfg} (h : VxCfg k cfg) :
    (vxRaw k cfg).length = (if cfg.justHeader then vxImgDukBlockOffset else (align4 cfg.app).length) := by
  have hn := h.hn
  have hB : (updateBca cfg (align4 cfg.app) (vxT (align4 cfg.app).length)).length = (align4 cfg.app).length :=
    vx_updateBca_length _ _ _ (by vxc; omega)
  cases k with
  | signed =>
    simp only [vxRaw]
    split
    · rw [List.length_take, vxF_length _ _ (by rw [hB]; vxc; omega), hB]; vxc; omega
    · rw [vxF_length _ _ (by rw [hB]; vxc; omega), hB]
  | plain =>
    rw [(h.hns (by decide)).2.2]
    simp only [vxRaw, Bool.false_eq_true, if_false]
    exact vxF_length _ _ (by vxc; omega)
  | crc =>
    rw [(h.hns (by decide)).2.2]
    simp only [vxRaw, Bool.false_eq_true, if_false]
    exact vxF_length _ _ (by vxc; omega)

theorem vx_raw_outside {k : Kind} {cfg : Cfg} (h : VxCfg k cfg) (i : Nat) (hi : i < (vxRaw k cfg).length)
    (h1 : ¬ (k = .signed ∧ vxImgBcaImageLengthOffset ≤ i ∧ i < vxImgBcaFwVersionOffset + 4))
    (h2 : i ≠ vxImgFcfLifecycleOffset ∨ cfg.lifecycle = 0xFF) : (vxRaw k cfg)[i]? = (align4 cfg.app)[i]? := by
  have hn := h.hn
  have hlen := vx_raw_length h
  have hB : (updateBca cfg (align4 cfg.app) (vxT (align4 cfg.app).length)).length = (align4 cfg.app).length :=
    vx_updateBca_length _ _ _ (by vxc; omega)
  cases k with
  | signed =>
    have e : (vxF cfg (updateBca cfg (align4 cfg.app) (vxT (align4 cfg.app).length)))[i]? = (align4 cfg.app)[i]? := by
      rw [vxF_outside _ _ (by rw [hB]; vxc; omega) i h2, vx_updateBca_outside _ _ _ (by vxc; omega) i (by
        simp only [true_and] at h1; omega)]
    simp only [vxRaw] at hlen hi ⊢
    split
    · rename_i hj
      rw [hlen, if_pos hj] at hi
      rw [List.getElem?_take_of_lt hi, e]
    · exact e
  | plain => exact vxF_outside _ _ (by vxc; omega) i h2
  | crc => exact vxF_outside _ _ (by vxc; omega) i h2

theorem vx_raw_lifecycle {k : Kind} {cfg : Cfg} (h : VxCfg k cfg) :
    ((vxRaw k cfg).getD vxImgFcfLifecycleOffset 0).toNat
      = (if cfg.lifecycle = 0xFF then ((align4 cfg.app).getD vxImgFcfLifecycleOffset 0).toNat else cfg.lifecycle) := by
  have hn := h.hn
  have hB : (updateBca cfg (align4 cfg.app) (vxT (align4 cfg.app).length)).length = (align4 cfg.app).length :=
    vx_updateBca_length _ _ _ (by vxc; omega)
  cases k with
  | signed =>
    have e : ((vxF cfg (updateBca cfg (align4 cfg.app) (vxT (align4 cfg.app).length))).getD vxImgFcfLifecycleOffset 0).toNat
        = (if cfg.lifecycle = 0xFF then ((align4 cfg.app).getD vxImgFcfLifecycleOffset 0).toNat else cfg.lifecycle) := by
      rw [vxF_lifecycle h _ (by rw [hB]; vxc; omega), List.getD_eq_getElem?_getD, List.getD_eq_getElem?_getD,
        vx_updateBca_outside _ _ _ (by vxc; omega) _ (by vxc; omega)]
    simp only [vxRaw]
    split
    · rw [List.getD_eq_getElem?_getD, List.getElem?_take_of_lt (by vxc; omega), ← List.getD_eq_getElem?_getD, e]
    · exact e
  | plain => exact vxF_lifecycle h _ (by vxc; omega)
  | crc => exact vxF_lifecycle h _ (by vxc; omega)

theorem vx_raw_words {cfg : Cfg} (h : VxCfg .signed cfg) :
    slice (vxRaw .signed cfg) vxImgBcaImageLengthOffset (vxImgBcaImageLengthOffset + 4) = le32 (vxT (align4 cfg.app).length)
    ∧ slice (vxRaw .signed cfg) vxImgBcaFwVersionOffset (vxImgBcaFwVersionOffset + 4) = le32 cfg.fwVersion := by
  have hn := h.hn
  have hB : (updateBca cfg (align4 cfg.app) (vxT (align4 cfg.app).length)).length = (align4 cfg.app).length :=
    vx_updateBca_length _ _ _ (by vxc; omega)
  obtain ⟨w1, w2⟩ := vx_updateBca_words cfg (align4 cfg.app) (vxT (align4 cfg.app).length) (by vxc; omega)
  have e : ∀ i, i < vxImgFcfLifecycleOffset → (vxRaw .signed cfg)[i]?
      = (updateBca cfg (align4 cfg.app) (vxT (align4 cfg.app).length))[i]? := by
    intro i hi
    have e1 := vxF_outside cfg (updateBca cfg (align4 cfg.app) (vxT (align4 cfg.app).length)) (by rw [hB]; vxc; omega) i
      (Or.inl (by omega))
    simp only [vxRaw]
    split
    · rw [List.getElem?_take_of_lt (by vxc; omega), e1]
    · exact e1
  refine ⟨Eq.trans ?_ w1, Eq.trans ?_ w2⟩
  · exact vx_slice_congr _ _ _ _ (fun i _ hi => e i (by vxc; omega))
  · exact vx_slice_congr _ _ _ _ (fun i _ hi => e i (by vxc; omega))

/-! ### the CRC exporter -/

theorem vx_slice_slice (x y : Bytes) (a b c d : Nat) (h : slice x a b = y) (hd : a + d ≤ b) :
    slice x (a + c) (a + d) = slice y c d := by
  apply List.ext_getElem?
  intro j
  rw [vx_slice_getElem?, vx_slice_getElem?, ← h, vx_slice_getElem?]
  by_cases hj : c + j < d
  · rw [if_pos (by omega), if_pos hj, if_pos (by omega)]
    congr 1
    omega
  · rw [if_neg (by omega), if_neg hj]

theorem vx_slice_length (x : Bytes) (a b : Nat) (h : b ≤ x.length) : (slice x a b).length = b - a := by
  rw [slice_length]; omega

theorem vx_three_words (s w1 w2 w3 : Bytes) (hs : s.length = 64) (l1 : w1.length = 4) (l2 : w2.length = 4)
    (l3 : w3.length = 4) :
    (setAt (setAt (setAt s 12 w1) 4 w2) 8 w3).length = 64
    ∧ (∀ j, (j < 4 ∨ 16 ≤ j) → (setAt (setAt (setAt s 12 w1) 4 w2) 8 w3)[j]? = s[j]?)
    ∧ slice (setAt (setAt (setAt s 12 w1) 4 w2) 8 w3) 4 8 = w2
    ∧ slice (setAt (setAt (setAt s 12 w1) 4 w2) 8 w3) 8 12 = w3
    ∧ slice (setAt (setAt (setAt s 12 w1) 4 w2) 8 w3) 12 16 = w1 := by
  have h1 : (setAt s 12 w1).length = 64 := by rw [setAt_length _ _ _ (by omega), hs]
  have h2 : (setAt (setAt s 12 w1) 4 w2).length = 64 := by rw [setAt_length _ _ _ (by omega), h1]
  have h3 : (setAt (setAt (setAt s 12 w1) 4 w2) 8 w3).length = 64 := by rw [setAt_length _ _ _ (by omega), h2]
  have s1 := vx_setAt_slice s w1 12 (by omega)
  have s2 := vx_setAt_slice (setAt s 12 w1) w2 4 (by omega)
  have s3 := vx_setAt_slice (setAt (setAt s 12 w1) 4 w2) w3 8 (by omega)
  rw [l1] at s1
  rw [l2] at s2
  rw [l3] at s3
  have o3 : ∀ j, (j < 8 ∨ 12 ≤ j) → (setAt (setAt (setAt s 12 w1) 4 w2) 8 w3)[j]? = (setAt (setAt s 12 w1) 4 w2)[j]? :=
    fun j hj => vx_setAt_outside _ _ _ _ (by omega) (by omega)
  have o2 : ∀ j, (j < 4 ∨ 8 ≤ j) → (setAt (setAt s 12 w1) 4 w2)[j]? = (setAt s 12 w1)[j]? :=
    fun j hj => vx_setAt_outside _ _ _ _ (by omega) (by omega)
  have o1 : ∀ j, (j < 12 ∨ 16 ≤ j) → (setAt s 12 w1)[j]? = s[j]? :=
    fun j hj => vx_setAt_outside _ _ _ _ (by omega) (by omega)
  refine ⟨h3, ?_, ?_, s3, ?_⟩
  · intro j hj
    rw [o3 j (by omega), o2 j (by omega), o1 j (by omega)]
  · exact (vx_slice_congr _ _ _ _ (fun j _ _ => o3 j (by omega))).trans s2
  · exact (vx_slice_congr _ _ _ _ (fun j _ _ => (o3 j (by omega)).trans (o2 j (by omega)))).trans s1

def vxBca (img : Bytes) : Bytes :=
  setAt (setAt (setAt (slice img vxImgBcaOffset vxImgFcfOffset) 0xC (le32 (crc32m (dataPart img)))) 0x4 (le32 vxImgDataStart))
    0x8 (le32 (dataPart img).length)

theorem vx_crcSignBca_eq (img : Bytes) : crcSignBca img = putSlot img vxImgBcaOffset vxImgFcfOffset (vxBca img) := rfl

section crc
variable (img : Bytes) (hx : vxImgDataStart ≤ img.length)
include hx

theorem vxBca_facts :
    (vxBca img).length = 64
    ∧ (∀ j, (j < 4 ∨ 16 ≤ j) → (vxBca img)[j]? = (slice img vxImgBcaOffset vxImgFcfOffset)[j]?)
    ∧ slice (vxBca img) 4 8 = le32 vxImgDataStart
    ∧ slice (vxBca img) 8 12 = le32 (dataPart img).length
    ∧ slice (vxBca img) 12 16 = le32 (crc32m (dataPart img)) := by
  have hs : (slice img vxImgBcaOffset vxImgFcfOffset).length = 64 := by
    rw [vx_slice_length _ _ _ (by vxc; omega)]; rfl
  exact vx_three_words _ _ _ _ hs (le32_length _) (le32_length _) (le32_length _)

theorem vx_crc_facts :
    (crcSignBca img).length = img.length
    ∧ (∀ i, (i < vxImgBcaOffset + 4 ∨ vxImgBcaOffset + 16 ≤ i) → (crcSignBca img)[i]? = img[i]?)
    ∧ slice (crcSignBca img) (vxImgBcaOffset + 4) (vxImgBcaOffset + 8) = le32 vxImgDataStart
    ∧ slice (crcSignBca img) (vxImgBcaOffset + 8) (vxImgBcaOffset + 12) = le32 (dataPart img).length
    ∧ slice (crcSignBca img) (vxImgBcaOffset + 12) (vxImgBcaOffset + 16) = le32 (crc32m (dataPart img)) := by
  obtain ⟨b0, b1, b2, b3, b4⟩ := vxBca_facts img hx
  have hsl : slice (crcSignBca img) vxImgBcaOffset (vxImgBcaOffset + 64) = vxBca img := by
    have := vx_putSlot_slice img (vxBca img) vxImgBcaOffset vxImgFcfOffset (by vxc; omega)
    rwa [b0] at this
  rw [vx_crcSignBca_eq]
  rw [vx_crcSignBca_eq] at hsl
  refine ⟨vx_putSlot_length _ _ _ _ (by decide) (by vxc; omega) (by rw [b0]; decide), ?_, ?_, ?_, ?_⟩
  · intro i hi
    by_cases ho : i < vxImgBcaOffset ∨ vxImgFcfOffset ≤ i
    · exact vx_putSlot_outside _ _ _ _ _ (by decide) (by vxc; omega) (by rw [b0]; decide) ho
    · have e : i = vxImgBcaOffset + (i - vxImgBcaOffset) := by omega
      rw [e, vx_slice_elem _ _ _ _ _ hsl (by vxc; omega), b1 _ (by vxc; omega), vx_slice_getElem?, if_pos (by vxc; omega)]
  · rw [vx_slice_slice _ _ _ _ 4 8 hsl (by omega), b2]
  · rw [vx_slice_slice _ _ _ _ 8 12 hsl (by omega), b3]
  · rw [vx_slice_slice _ _ _ _ 12 16 hsl (by omega), b4]

theorem vx_crc_same
    (h1 : slice img (vxImgBcaOffset + 4) (vxImgBcaOffset + 8) = le32 vxImgDataStart)
    (h2 : slice img (vxImgBcaOffset + 8) (vxImgBcaOffset + 12) = le32 (dataPart img).length)
    (h3 : slice img (vxImgBcaOffset + 12) (vxImgBcaOffset + 16) = le32 (crc32m (dataPart img))) :
    crcSignBca img = img := by
  have hs : (slice img vxImgBcaOffset vxImgFcfOffset).length = 64 := by
    rw [vx_slice_length _ _ _ (by vxc; omega)]; rfl
  have e : vxBca img = slice img vxImgBcaOffset vxImgFcfOffset := by
    unfold vxBca
    rw [vx_setAt_same _ (le32 (crc32m (dataPart img))) 12 (by rw [le32_length, hs]; omega) (by
        rw [le32_length, ← vx_slice_slice img _ vxImgBcaOffset vxImgFcfOffset 12 16 rfl (by decide)]; exact h3),
      vx_setAt_same _ (le32 vxImgDataStart) 4 (by rw [le32_length, hs]; omega) (by
        rw [le32_length, ← vx_slice_slice img _ vxImgBcaOffset vxImgFcfOffset 4 8 rfl (by decide)]; exact h1),
      vx_setAt_same _ (le32 (dataPart img).length) 8 (by rw [le32_length, hs]; omega) (by
        rw [le32_length, ← vx_slice_slice img _ vxImgBcaOffset vxImgFcfOffset 8 12 rfl (by decide)]; exact h2)]
  rw [vx_crcSignBca_eq, e]
  exact vx_putSlot_same _ _ _ _ (by decide) (by vxc; omega) (by rw [hs]; rfl) rfl

end crc

/-! ### the ECC exporter -/

theorem vx_putSlot_fill (img new : Bytes) (a b i : Nat) (h : a ≤ img.length) (h1 : a + new.length ≤ i) (h2 : i < b) :
    (putSlot img a b new)[i]? = some 0 := by
  unfold putSlot
  have la : (img.take a).length = a := by rw [List.length_take]; omega
  rw [List.getElem?_append_left (by simp only [List.length_append, la, zeros_length]; omega),
    List.getElem?_append_right (by simp only [List.length_append, la]; omega), vx_zeros_getElem?,
    if_pos (by simp only [List.length_append, la]; omega)]

theorem vx_sign_facts (co : CryptoOps) (cfg : Cfg) (signer : Signer) (img : Bytes) (hx : vxImgDukBlockOffset ≤ img.length)
    (hs : ∀ m, (signer m).length = vxImgBcaOffset - vxImgSignatureOffset)
    (hh : ∀ m, (co.hash .sha256 m).length = vxImgDigestSize)
    (hc : cfg.cert.length ≤ vxImgIskHashOffset - vxImgIskOffset) (hch : cfg.certHash.length = vxImgIskHashSize) :
    ∃ e, eccSignVx co cfg signer img = .ok e ∧ e.length = img.length
      ∧ (∀ i, (i < vxImgDigestOffset ∨ (vxImgBcaOffset ≤ i ∧ i < vxImgIskOffset)
              ∨ (if cfg.addHash then vxImgWpcRootCaCertHashOffset else vxImgIskHashOffset) ≤ i) → e[i]? = img[i]?)
      ∧ slice e vxImgDigestOffset vxImgSignatureOffset = co.hash .sha256 (dataToSign img)
      ∧ slice e vxImgSignatureOffset vxImgBcaOffset = signer (dataToSign img)
      ∧ slice e vxImgIskOffset (vxImgIskOffset + cfg.cert.length) = cfg.cert
      ∧ (∀ i, vxImgIskOffset + cfg.cert.length ≤ i → i < vxImgIskHashOffset → e[i]? = some 0)
      ∧ (cfg.addHash = true → slice e vxImgIskHashOffset (vxImgIskHashOffset + vxImgIskHashSize) = cfg.certHash
          ∧ ∀ i, vxImgIskHashOffset + vxImgIskHashSize ≤ i → i < vxImgWpcRootCaCertHashOffset → e[i]? = some 0) := by
  have hsl := hs (dataToSign img)
  have hhl := hh (dataToSign img)
  generalize hH : co.hash .sha256 (dataToSign img) = H at hhl
  generalize hS : signer (dataToSign img) = S at hsl
  have hne : S.isEmpty = false := by
    cases S with
    | nil => simp [vxImgBcaOffset, vxImgSignatureOffset] at hsl
    | cons a l => rfl
  vxc
  -- the four stages
  have l1 : (putSlot img 864 896 H).length = img.length := vx_putSlot_length _ _ _ _ (by omega) (by omega) (by omega)
  have o1 : ∀ i, (i < 864 ∨ 896 ≤ i) → (putSlot img 864 896 H)[i]? = img[i]? :=
    fun i hi => vx_putSlot_outside _ _ _ _ _ (by omega) (by omega) (by omega) hi
  have s1 : slice (putSlot img 864 896 H) 864 896 = H := by
    have := vx_putSlot_slice img H 864 896 (by omega)
    rwa [hhl] at this
  generalize hx1 : putSlot img 864 896 H = x1 at l1 o1 s1
  have l2 : (putSlot x1 896 960 S).length = img.length := by
    rw [vx_putSlot_length _ _ _ _ (by omega) (by omega) (by omega), l1]
  have o2 : ∀ i, (i < 896 ∨ 960 ≤ i) → (putSlot x1 896 960 S)[i]? = x1[i]? :=
    fun i hi => vx_putSlot_outside _ _ _ _ _ (by omega) (by omega) (by omega) hi
  have s2 : slice (putSlot x1 896 960 S) 896 960 = S := by
    have := vx_putSlot_slice x1 S 896 960 (by omega)
    rwa [hsl] at this
  generalize hx2 : putSlot x1 896 960 S = x2 at l2 o2 s2
  have l3 : (putSlot x2 1040 1184 cfg.cert).length = img.length := by
    rw [vx_putSlot_length _ _ _ _ (by omega) (by omega) (by omega), l2]
  have o3 : ∀ i, (i < 1040 ∨ 1184 ≤ i) → (putSlot x2 1040 1184 cfg.cert)[i]? = x2[i]? :=
    fun i hi => vx_putSlot_outside _ _ _ _ _ (by omega) (by omega) (by omega) hi
  have s3 : slice (putSlot x2 1040 1184 cfg.cert) 1040 (1040 + cfg.cert.length) = cfg.cert :=
    vx_putSlot_slice x2 cfg.cert 1040 1184 (by omega)
  have f3 : ∀ i, 1040 + cfg.cert.length ≤ i → i < 1184 → (putSlot x2 1040 1184 cfg.cert)[i]? = some 0 :=
    fun i h1 h2 => vx_putSlot_fill _ _ _ _ _ (by omega) h1 h2
  generalize hx3 : putSlot x2 1040 1184 cfg.cert = x3 at l3 o3 s3 f3
  have l4 : (putSlot x3 1184 1504 cfg.certHash).length = img.length := by
    rw [vx_putSlot_length _ _ _ _ (by omega) (by omega) (by omega), l3]
  have o4 : ∀ i, (i < 1184 ∨ 1504 ≤ i) → (putSlot x3 1184 1504 cfg.certHash)[i]? = x3[i]? :=
    fun i hi => vx_putSlot_outside _ _ _ _ _ (by omega) (by omega) (by omega) hi
  have s4 : slice (putSlot x3 1184 1504 cfg.certHash) 1184 (1184 + 16) = cfg.certHash := by
    have := vx_putSlot_slice x3 cfg.certHash 1184 1504 (by omega)
    rwa [hch] at this
  have f4 : ∀ i, 1184 + 16 ≤ i → i < 1504 → (putSlot x3 1184 1504 cfg.certHash)[i]? = some 0 :=
    fun i h1 h2 => vx_putSlot_fill x3 cfg.certHash 1184 1504 i (by omega) (by omega) h2
  -- facts about x3 in terms of img
  have a3 : ∀ i, (i < 864 ∨ (960 ≤ i ∧ i < 1040) ∨ 1184 ≤ i) → x3[i]? = img[i]? := fun i hi => by
    rw [o3 i (by omega), o2 i (by omega), o1 i (by omega)]
  have d3 : slice x3 864 896 = H := by
    rw [← s1]; exact vx_slice_congr _ _ _ _ (fun i _ _ => (o3 i (by omega)).trans (o2 i (by omega)))
  have g3 : slice x3 896 960 = S := by
    rw [← s2]; exact vx_slice_congr _ _ _ _ (fun i _ _ => o3 i (by omega))
  have hE : eccSignVx co cfg signer img
      = .ok (if cfg.addHash = true then putSlot x3 1184 1504 cfg.certHash else x3) := by
    unfold eccSignVx
    vxc
    simp only [hS, hH, hne, hx1, hx2, hx3, Bool.false_eq_true, if_false]
  refine ⟨_, hE, ?_⟩
  cases hah : cfg.addHash
  · simp only [Bool.false_eq_true, if_false]
    exact ⟨l3, a3, d3, g3, s3, f3, fun h => absurd h (by simp)⟩
  · simp only [if_true]
    refine ⟨l4, ?_, ?_, ?_, ?_, ?_, fun _ => ⟨s4, f4⟩⟩
    · intro i hi; rw [o4 i (by omega), a3 i (by omega)]
    · exact (vx_slice_congr _ _ _ _ (fun i _ _ => o4 i (by omega))).trans d3
    · exact (vx_slice_congr _ _ _ _ (fun i _ _ => o4 i (by omega))).trans g3
    · exact (vx_slice_congr _ _ _ _ (fun i _ _ => o4 i (by omega))).trans s3
    · intro i h1 h2; rw [o4 i (by omega), f3 i h1 h2]

/-! ### the theorems -/

theorem vx_export_plain (co : CryptoOps) {cfg : Cfg} (h : VxCfg .plain cfg) (signer : Signer) :
    exportImage co .plain cfg signer = .ok (vxRaw .plain cfg) := by
  unfold exportImage
  simp only [vx_collect h, bind, Except.bind, pure, Except.pure]

theorem vx_export_crc (co : CryptoOps) {cfg : Cfg} (h : VxCfg .crc cfg) (signer : Signer) :
    exportImage co .crc cfg signer = .ok (crcSignBca (vxRaw .crc cfg)) := by
  unfold exportImage
  simp only [vx_collect h, bind, Except.bind, pure, Except.pure]

theorem vx_export_signed (co : CryptoOps) {cfg : Cfg} (h : VxCfg .signed cfg) (signer : Signer) :
    exportImage co .signed cfg signer = eccSignVx co cfg signer (vxRaw .signed cfg) := by
  unfold exportImage
  simp only [vx_collect h, bind, Except.bind]

theorem vx_lc_of_owned (k : Kind) (cfg : Cfg) (i : Nat) (ho : owned k cfg i = false) :
    i ≠ vxImgFcfLifecycleOffset ∨ cfg.lifecycle = 0xFF := by
  unfold owned at ho
  rw [Bool.or_eq_false_iff] at ho
  have := ho.1
  by_cases hl : cfg.lifecycle = 0xFF
  · exact Or.inr hl
  · left
    intro hi
    simp [hi, hl] at this

/-- the export succeeds; outside the tool-owned ranges the image IS the (4-padded) application, of the same length
    (header-only exports: the first 0x800 bytes) -/
theorem vx_export_frame (co : CryptoOps) (k : Kind) (cfg : Cfg) (signer : Signer) (hw : cfgWF k cfg = true)
    (hs : ∀ m, (signer m).length = vxImgBcaOffset - vxImgSignatureOffset)
    (hh : ∀ m, (co.hash .sha256 m).length = vxImgDigestSize) :
    ∃ e, exportImage co k cfg signer = .ok e
      ∧ e.length = (if cfg.justHeader then vxImgDukBlockOffset else (align4 cfg.app).length)
      ∧ ∀ i, i < e.length → owned k cfg i = false → e[i]? = (align4 cfg.app)[i]? := by
  have h := vxCfg k cfg hw
  have hn := h.hn
  have hrl := vx_raw_length h
  cases k with
  | plain =>
    refine ⟨_, vx_export_plain co h signer, hrl, ?_⟩
    intro i hi ho
    exact vx_raw_outside h i hi (by simp) (vx_lc_of_owned _ _ _ ho)
  | crc =>
    have hjh := (h.hns (by decide)).2.2
    have hrl' : (vxRaw .crc cfg).length = (align4 cfg.app).length := by rw [hrl, hjh]; rfl
    obtain ⟨c1, c2, _⟩ := vx_crc_facts (vxRaw .crc cfg) (by rw [hrl']; exact hn)
    refine ⟨_, vx_export_crc co h signer, by rw [c1, hrl], ?_⟩
    intro i hi ho
    have hlc := vx_lc_of_owned _ _ _ ho
    rw [c1] at hi
    unfold owned at ho
    rw [Bool.or_eq_false_iff] at ho
    have ho2 := ho.2
    simp only [Bool.and_eq_false_iff, decide_eq_false_iff_not] at ho2
    rw [c2 i (by omega)]
    exact vx_raw_outside h i hi (by simp) hlc
  | signed =>
    obtain ⟨hc, _, hch⟩ := h.hsg rfl
    have hx : vxImgDukBlockOffset ≤ (vxRaw .signed cfg).length := by
      rw [hrl]; split <;> vxc <;> omega
    obtain ⟨e, hE, s1, s2, _⟩ := vx_sign_facts co cfg signer (vxRaw .signed cfg) hx hs hh hc hch
    refine ⟨e, by rw [vx_export_signed co h signer, hE], by rw [s1, hrl], ?_⟩
    intro i hi ho
    have hlc := vx_lc_of_owned _ _ _ ho
    rw [s1] at hi
    unfold owned at ho
    rw [Bool.or_eq_false_iff] at ho
    have ho2 := ho.2
    simp only [Bool.or_eq_false_iff, Bool.and_eq_false_iff, decide_eq_false_iff_not] at ho2
    obtain ⟨⟨⟨o1, o2⟩, o3⟩, o4⟩ := ho2
    have hout : i < vxImgDigestOffset ∨ (vxImgBcaOffset ≤ i ∧ i < vxImgIskOffset)
        ∨ (if cfg.addHash then vxImgWpcRootCaCertHashOffset else vxImgIskHashOffset) ≤ i := by
      cases hah : cfg.addHash
      · simp only [Bool.false_eq_true, if_false]; vxc; omega
      · simp only [hah, Bool.true_eq_false, false_or] at o4
        simp only [if_true]; vxc; omega
    rw [s2 i hout]
    exact vx_raw_outside h i hi (by vxc; omega) hlc

theorem vx_parse_of (k : Kind) (e : Bytes) (lc fw : Nat) (h1 : vxImgFcfLifecycleOffset < e.length) (h2 : e.length % 4 = 0)
    (h3 : (e.getD vxImgFcfLifecycleOffset 0).toNat = lc)
    (h4 : k = .signed → rd32 e vxImgBcaFwVersionOffset = fw) (h5 : k ≠ .signed → fw = 0) :
    parseImage k e = .ok ⟨e, lc, fw⟩ := by
  unfold parseImage
  rw [if_neg (by omega)]
  simp only [align4_of_aligned e h2, h3]
  cases k with
  | signed => simp only [h4 rfl]
  | plain => simp only [h5 (by decide)]
  | crc => simp only [h5 (by decide)]

/-- parse(export(x)): the application is the image itself, the life cycle is the configured one (or the byte the application
    carries when NOT_SET), the firmware version is recovered from the BCA of signed images -/
theorem vx_parse_export (co : CryptoOps) (k : Kind) (cfg : Cfg) (signer : Signer) (hw : cfgWF k cfg = true)
    (hs : ∀ m, (signer m).length = vxImgBcaOffset - vxImgSignatureOffset)
    (hh : ∀ m, (co.hash .sha256 m).length = vxImgDigestSize) :
    ∃ e, exportImage co k cfg signer = .ok e
      ∧ parseImage k e = .ok ⟨e, (if cfg.lifecycle = 0xFF then ((align4 cfg.app).getD vxImgFcfLifecycleOffset 0).toNat else cfg.lifecycle),
                               (if k = .signed then cfg.fwVersion else 0)⟩ := by
  have h := vxCfg k cfg hw
  have hn := h.hn
  have hrl := vx_raw_length h
  have hmod : (align4 cfg.app).length % 4 = 0 := align4_length_mod cfg.app
  have hlcr := vx_raw_lifecycle h
  cases k with
  | plain =>
    have hjh := (h.hns (by decide)).2.2
    rw [hjh] at hrl
    simp only [Bool.false_eq_true, if_false] at hrl
    refine ⟨_, vx_export_plain co h signer, ?_⟩
    exact vx_parse_of _ _ _ _ (by rw [hrl]; vxc; omega) (by rw [hrl]; exact hmod) hlcr (by simp) (by simp)
  | crc =>
    have hjh := (h.hns (by decide)).2.2
    rw [hjh] at hrl
    simp only [Bool.false_eq_true, if_false] at hrl
    obtain ⟨c1, c2, _⟩ := vx_crc_facts (vxRaw .crc cfg) (by rw [hrl]; exact hn)
    refine ⟨_, vx_export_crc co h signer, ?_⟩
    refine vx_parse_of _ _ _ _ (by rw [c1, hrl]; vxc; omega) (by rw [c1, hrl]; exact hmod) ?_ (by simp) (by simp)
    rw [← hlcr, List.getD_eq_getElem?_getD, List.getD_eq_getElem?_getD, c2 _ (by vxc; omega)]
  | signed =>
    obtain ⟨hc, _, hch⟩ := h.hsg rfl
    have hx : vxImgDukBlockOffset ≤ (vxRaw .signed cfg).length := by
      rw [hrl]; split <;> vxc <;> omega
    obtain ⟨e, hE, s1, s2, _⟩ := vx_sign_facts co cfg signer (vxRaw .signed cfg) hx hs hh hc hch
    refine ⟨e, by rw [vx_export_signed co h signer, hE], ?_⟩
    refine vx_parse_of _ _ _ _ (by rw [s1]; vxc; omega) ?_ ?_ (fun _ => ?_) (by simp)
    · rw [s1, hrl]; split
      · decide
      · exact hmod
    · rw [← hlcr, List.getD_eq_getElem?_getD, List.getD_eq_getElem?_getD, s2 _ (by vxc; omega)]
    · simp only [if_true]
      rw [vx_rd32_congr e (vxRaw .signed cfg) _ _ (fun t ht => s2 _ (by vxc; omega))]
      exact vx_rd32_of_slice _ _ _ (vx_raw_words h).2 h.hfw

/-- CRC images: the three BCA words describe the data part of the emitted image (start 0xC00, its length, its CRC-32/MPEG-2) -/
theorem vx_crc_describes (co : CryptoOps) (cfg : Cfg) (signer : Signer) (hw : cfgWF .crc cfg = true) :
    ∃ e, exportImage co .crc cfg signer = .ok e
      ∧ rd32 e (vxImgBcaOffset + 4) = vxImgDataStart
      ∧ rd32 e (vxImgBcaOffset + 8) = (e.drop vxImgDataStart).length
      ∧ rd32 e (vxImgBcaOffset + 12) = crc32m (e.drop vxImgDataStart) := by
  have h := vxCfg .crc cfg hw
  have hn := h.hn
  have hrl := vx_raw_length h
  have hjh := (h.hns (by decide)).2.2
  rw [hjh] at hrl
  simp only [Bool.false_eq_true, if_false] at hrl
  obtain ⟨c1, c2, c3, c4, c5⟩ := vx_crc_facts (vxRaw .crc cfg) (by rw [hrl]; exact hn)
  refine ⟨_, vx_export_crc co h signer, ?_⟩
  have hd : (crcSignBca (vxRaw .crc cfg)).drop vxImgDataStart = dataPart (vxRaw .crc cfg) :=
    vx_drop_congr _ _ _ (fun i hi => c2 i (by vxc; omega))
  rw [hd]
  have hdl : (dataPart (vxRaw .crc cfg)).length < 2 ^ 32 := by
    have := h.hn31
    unfold dataPart
    rw [List.length_drop, hrl]
    omega
  exact ⟨vx_rd32_of_slice _ _ _ c3 (by decide), vx_rd32_of_slice _ _ _ c4 hdl,
    vx_rd32_of_slice _ _ _ c5 (plain_crc32m_lt _)⟩

theorem vx_sign_dataToSign (cfg : Cfg) (e img : Bytes)
    (s2 : ∀ i, (i < vxImgDigestOffset ∨ (vxImgBcaOffset ≤ i ∧ i < vxImgIskOffset)
              ∨ (if cfg.addHash then vxImgWpcRootCaCertHashOffset else vxImgIskHashOffset) ≤ i) → e[i]? = img[i]?) :
    dataToSign e = dataToSign img := by
  apply vx_dataToSign_congr
  intro i hi
  apply s2
  cases cfg.addHash
  · simp only [Bool.false_eq_true, if_false]; vxc; omega
  · simp only [if_true]; vxc; omega

/-- signed images (complete export): BCA image length = emitted length - data start + signed header length, firmware version
    as configured, the digest slot holds SHA-256 of, and the signature slot the signature over, exactly
    header[0:0x360] ‖ BCA[0x3C0:0x400] ‖ data[0xC00:] OF THE EMITTED IMAGE; the ISK certificate (+ hash) sits in its slot -/
theorem vx_signed_describes (co : CryptoOps) (cfg : Cfg) (signer : Signer) (hw : cfgWF .signed cfg = true)
    (hj : cfg.justHeader = false) (hs : ∀ m, (signer m).length = vxImgBcaOffset - vxImgSignatureOffset)
    (hh : ∀ m, (co.hash .sha256 m).length = vxImgDigestSize) :
    ∃ e, exportImage co .signed cfg signer = .ok e
      ∧ (rd32 e vxImgBcaImageLengthOffset : Int) = (e.length : Int) - vxImgDataStart + (vxImgDigestOffset + (vxImgFcfOffset - vxImgBcaOffset))
      ∧ rd32 e vxImgBcaFwVersionOffset = cfg.fwVersion
      ∧ slice e vxImgDigestOffset vxImgSignatureOffset = co.hash .sha256 (dataToSign e)
      ∧ slice e vxImgSignatureOffset vxImgBcaOffset = signer (dataToSign e)
      ∧ slice e vxImgIskOffset (vxImgIskOffset + cfg.cert.length) = cfg.cert
      ∧ (cfg.addHash = true → slice e vxImgIskHashOffset (vxImgIskHashOffset + vxImgIskHashSize) = cfg.certHash) := by
  have h := vxCfg .signed cfg hw
  have hn := h.hn
  have hrl := vx_raw_length h
  rw [hj] at hrl
  simp only [Bool.false_eq_true, if_false] at hrl
  obtain ⟨hc, _, hch⟩ := h.hsg rfl
  obtain ⟨w1, w2⟩ := vx_raw_words h
  obtain ⟨e, hE, s1, s2, s3, s4, s5, _, s7⟩ := vx_sign_facts co cfg signer (vxRaw .signed cfg) (by rw [hrl]; vxc; omega)
    hs hh hc hch
  have hd := vx_sign_dataToSign cfg e _ s2
  refine ⟨e, by rw [vx_export_signed co h signer, hE], ?_, ?_, by rw [hd]; exact s3, by rw [hd]; exact s4, s5,
    fun ha => (s7 ha).1⟩
  · have hT : vxT (align4 cfg.app).length < 2 ^ 32 := by
      have := h.hn31; unfold vxT; omega
    rw [vx_rd32_congr e (vxRaw .signed cfg) _ _ (fun t ht => s2 _ (by vxc; omega)), vx_rd32_of_slice _ _ _ w1 hT, s1, hrl]
    unfold vxT
    vxc
    omega
  · rw [vx_rd32_congr e (vxRaw .signed cfg) _ _ (fun t ht => s2 _ (by vxc; omega))]
    exact vx_rd32_of_slice _ _ _ w2 h.hfw

theorem vxF_same (cfg : Cfg) (x : Bytes) (hx : vxImgFcfLifecycleOffset < x.length)
    (h : cfg.lifecycle ≠ 0xFF → x[vxImgFcfLifecycleOffset]? = some (UInt8.ofNat cfg.lifecycle)) : vxF cfg x = x := by
  unfold vxF
  split
  · rfl
  · rename_i hl
    apply vx_setAt_same
    · simp only [List.length_singleton]; omega
    · apply vx_slice_eq
      intro j hj
      simp only [List.length_singleton] at hj
      have : j = 0 := by omega
      subst this
      simpa using h hl

theorem vx_raw_at {k : Kind} {cfg : Cfg} (h : VxCfg k cfg) (hl : cfg.lifecycle ≠ 0xFF) :
    (vxRaw k cfg)[vxImgFcfLifecycleOffset]? = some (UInt8.ofNat cfg.lifecycle) := by
  have hn := h.hn
  have hB : (updateBca cfg (align4 cfg.app) (vxT (align4 cfg.app).length)).length = (align4 cfg.app).length :=
    vx_updateBca_length _ _ _ (by vxc; omega)
  cases k with
  | signed =>
    have e := vxF_at cfg (updateBca cfg (align4 cfg.app) (vxT (align4 cfg.app).length)) (by rw [hB]; vxc; omega) hl
    simp only [vxRaw]
    split
    · rw [List.getElem?_take_of_lt (by vxc; omega), e]
    · exact e
  | plain => exact vxF_at _ _ (by vxc; omega) hl
  | crc => exact vxF_at _ _ (by vxc; omega) hl

/-- the configuration of the re-export -/
theorem vxCfg_re {k : Kind} {cfg : Cfg} (h : VxCfg k cfg) (e : Bytes) (he : align4 e = e)
    (hl : e.length = (align4 cfg.app).length) : VxCfg k { cfg with app := e } := by
  refine ⟨?_, ?_, h.hlc, h.hfw, h.hns, h.hsg⟩
  · show vxImgDataStart ≤ (align4 e).length
    rw [he, hl]; exact h.hn
  · show (align4 e).length < 2 ^ 31
    rw [he, hl]; exact h.hn31

/-- re-export of the parsed image (same settings, same certificate) reproduces the image: exactly for plain and CRC images,
    outside the signature slot for signed images (any second signature of the right length) -/
theorem vx_reexport (co : CryptoOps) (k : Kind) (cfg : Cfg) (signer signer' : Signer) (hw : cfgWF k cfg = true)
    (hj : cfg.justHeader = false)
    (hs : ∀ m, (signer m).length = vxImgBcaOffset - vxImgSignatureOffset)
    (hs' : ∀ m, (signer' m).length = vxImgBcaOffset - vxImgSignatureOffset)
    (hh : ∀ m, (co.hash .sha256 m).length = vxImgDigestSize) :
    ∃ e e', exportImage co k cfg signer = .ok e ∧ exportImage co k { cfg with app := e } signer' = .ok e'
      ∧ e'.length = e.length
      ∧ ∀ i, ¬ (k = .signed ∧ vxImgSignatureOffset ≤ i ∧ i < vxImgBcaOffset) → e'[i]? = e[i]? := by
  have h := vxCfg k cfg hw
  have hn := h.hn
  have hrl := vx_raw_length h
  rw [hj] at hrl
  simp only [Bool.false_eq_true, if_false] at hrl
  have hmod : (align4 cfg.app).length % 4 = 0 := align4_length_mod cfg.app
  cases k with
  | plain =>
    have hal : align4 (vxRaw .plain cfg) = vxRaw .plain cfg := align4_of_aligned _ (by rw [hrl]; exact hmod)
    have h' := vxCfg_re h (vxRaw .plain cfg) hal hrl
    have e1 : vxRaw .plain { cfg with app := vxRaw .plain cfg } = vxRaw .plain cfg := by
      show vxF cfg (align4 (vxRaw .plain cfg)) = _
      rw [hal]
      exact vxF_idem cfg _ (by vxc; omega)
    refine ⟨_, _, vx_export_plain co h signer, vx_export_plain co h' signer', by rw [e1], fun i _ => by rw [e1]⟩
  | crc =>
    obtain ⟨c1, c2, c3, c4, c5⟩ := vx_crc_facts (vxRaw .crc cfg) (by rw [hrl]; exact hn)
    have hel : (crcSignBca (vxRaw .crc cfg)).length = (align4 cfg.app).length := by rw [c1, hrl]
    have hal : align4 (crcSignBca (vxRaw .crc cfg)) = crcSignBca (vxRaw .crc cfg) :=
      align4_of_aligned _ (by rw [hel]; exact hmod)
    have h' := vxCfg_re h _ hal hel
    have hF : vxF cfg (crcSignBca (vxRaw .crc cfg)) = crcSignBca (vxRaw .crc cfg) := by
      apply vxF_same _ _ (by rw [hel]; vxc; omega)
      intro hl
      rw [c2 _ (by vxc; omega)]
      exact vx_raw_at h hl
    have hd : dataPart (crcSignBca (vxRaw .crc cfg)) = dataPart (vxRaw .crc cfg) :=
      vx_drop_congr _ _ _ (fun i hi => c2 i (by vxc; omega))
    have e1 : vxRaw .crc { cfg with app := crcSignBca (vxRaw .crc cfg) } = crcSignBca (vxRaw .crc cfg) := by
      show vxF cfg (align4 (crcSignBca (vxRaw .crc cfg))) = _
      rw [hal, hF]
    have e2 : crcSignBca (crcSignBca (vxRaw .crc cfg)) = crcSignBca (vxRaw .crc cfg) :=
      vx_crc_same _ (by rw [hel]; exact hn) c3 (by rw [hd]; exact c4) (by rw [hd]; exact c5)
    refine ⟨_, _, vx_export_crc co h signer, vx_export_crc co h' signer', by rw [e1, e2], fun i _ => by rw [e1, e2]⟩
  | signed =>
    obtain ⟨hc, _, hch⟩ := h.hsg rfl
    obtain ⟨w1, w2⟩ := vx_raw_words h
    obtain ⟨e, hE, s1, s2, s3, s4, s5, s6, s7⟩ := vx_sign_facts co cfg signer (vxRaw .signed cfg) (by rw [hrl]; vxc; omega)
      hs hh hc hch
    have hel : e.length = (align4 cfg.app).length := by rw [s1, hrl]
    have hal : align4 e = e := align4_of_aligned _ (by rw [hel]; exact hmod)
    have h' := vxCfg_re h e hal hel
    have hB : updateBca cfg e (vxT e.length) = e := by
      rw [hel]
      apply vx_updateBca_same _ _ _ (by rw [hel]; vxc; omega)
      · exact (vx_slice_congr _ _ _ _ (fun i _ _ => s2 i (by vxc; omega))).trans w1
      · exact (vx_slice_congr _ _ _ _ (fun i _ _ => s2 i (by vxc; omega))).trans w2
    have hF : vxF cfg e = e := by
      apply vxF_same _ _ (by rw [hel]; vxc; omega)
      intro hl
      rw [s2 _ (by vxc; omega)]
      exact vx_raw_at h hl
    have e1 : vxRaw .signed { cfg with app := e } = e := by
      show (if cfg.justHeader = true then (vxF cfg (updateBca cfg (align4 e) (vxT (align4 e).length))).take vxImgDukBlockOffset
        else vxF cfg (updateBca cfg (align4 e) (vxT (align4 e).length))) = e
      rw [hj, hal, hB, hF]
      rfl
    obtain ⟨e', hE', t1, t2, t3, t4, t5, t6, t7⟩ := vx_sign_facts co { cfg with app := e } signer' e (by rw [hel]; vxc; omega)
      hs' hh hc hch
    have hd := vx_sign_dataToSign cfg e _ s2
    refine ⟨e, e', by rw [vx_export_signed co h signer, hE], by rw [vx_export_signed co h' signer', e1, hE'], t1, ?_⟩
    intro i hi
    simp only [true_and] at hi
    by_cases ho : i < vxImgDigestOffset ∨ (vxImgBcaOffset ≤ i ∧ i < vxImgIskOffset)
        ∨ (if cfg.addHash then vxImgWpcRootCaCertHashOffset else vxImgIskHashOffset) ≤ i
    · exact t2 i ho
    · by_cases r1 : i < vxImgSignatureOffset
      · -- digest slot
        have e : i = vxImgDigestOffset + (i - vxImgDigestOffset) := by vxc; omega
        rw [e, vx_slice_elem _ _ _ _ _ t3 (by vxc; omega), vx_slice_elem _ _ _ _ _ s3 (by vxc; omega), hd]
      · by_cases r2 : i < vxImgIskOffset + cfg.cert.length
        · have e : i = vxImgIskOffset + (i - vxImgIskOffset) := by vxc; omega
          rw [e, vx_slice_elem _ _ _ _ _ t5 (by vxc; omega), vx_slice_elem _ _ _ _ _ s5 (by vxc; omega)]
        · by_cases r3 : i < vxImgIskHashOffset
          · rw [t6 i (by vxc; omega) r3, s6 i (by vxc; omega) r3]
          · cases hah : cfg.addHash
            · rw [hah] at ho
              simp only [Bool.false_eq_true, if_false] at ho
              exact absurd (Or.inr (Or.inr (by omega))) ho
            · rw [hah] at ho
              simp only [if_true] at ho
              obtain ⟨t7a, t7b⟩ := t7 hah
              obtain ⟨s7a, s7b⟩ := s7 hah
              by_cases r4 : i < vxImgIskHashOffset + vxImgIskHashSize
              · have e : i = vxImgIskHashOffset + (i - vxImgIskHashOffset) := by vxc; omega
                rw [e, vx_slice_elem _ _ _ _ _ t7a (by vxc; omega), vx_slice_elem _ _ _ _ _ s7a (by vxc; omega)]
              · rw [t7b i (by omega) (by vxc; omega), s7b i (by omega) (by vxc; omega)]

end SpsdkVerif.Mbi.Vx
