/-
Helper lemmas for Properties/C15.lean (debug authentication codec, Model/Dat.lean).  Core Lean only.
-/
import SpsdkVerif.Model.Dat
import SpsdkVerif.Proofs.Misc
import SpsdkVerif.Crypto.Break
import SpsdkVerif.Spec.Rotkh
namespace SpsdkVerif.Dat
open SpsdkVerif SpsdkVerif.Misc SpsdkVerif.Generated
open SpsdkVerif.Crypto (CryptoOps CryptoLaws Break SigAlg HashAlg PrivKey Rand)


theorem leEnc_length (n v : Nat) : (leEnc n v).length = n := by simp [leEnc, beEnc_length']
theorem leDec_leEnc (n v : Nat) (h : v < 256 ^ n) : leDec (leEnc n v) = v := by
  simp [leDec, leEnc, beDec_beEnc_mod, Nat.mod_eq_of_lt h]
theorem leDec_leEnc2 (v : Nat) (h : v < 65536) : leDec (leEnc 2 v) = v := leDec_leEnc 2 v (by simpa using h)
theorem leDec_leEnc4 (v : Nat) (h : v < 4294967296) : leDec (leEnc 4 v) = v := leDec_leEnc 4 v (by simpa using h)

@[simp] theorem zeros_length (n : Nat) : (zeros n).length = n := by simp [zeros]
theorem fitS_length (n : Nat) (b : Bytes) : (fitS n b).length = n := by simp [fitS]
theorem fitS_self (n : Nat) (b : Bytes) (h : b.length = n) : fitS n b = b := by simp [fitS, ← h]

theorem rd_append (n : Nat) (a r : Bytes) (h : a.length = n) : rd n (a ++ r) = .ok (a, r) := by
  subst h; simp [rd]

@[simp] theorem bind_ok' {α β : Type} (a : α) (f : α → PyRes β) : (Except.ok a >>= f) = f a := rfl
@[simp] theorem bind_err' {α β : Type} (e : PyErr) (f : α → PyRes β) : ((Except.error e : PyRes α) >>= f) = .error e := rfl

/-! RSA rot meta -/
theorem zeros_drop (k w : Nat) : (zeros k).drop w = zeros (k - w) := by simp [zeros]
theorem zeros_append (a b : Nat) : zeros a ++ zeros b = zeros (a + b) := by simp [zeros]

theorem rsaMetaFill_spec (w : Nat) : ∀ (items : List Bytes) (pre : Bytes) (i k : Nat),
    pre.length = i * w → (∀ it ∈ items, it.length = w) → items.length * w ≤ k →
    rsaMetaFill w (pre ++ zeros k) i items = pre ++ items.flatten ++ zeros (k - items.length * w)
  | [], pre, i, k, _, _, _ => by simp [rsaMetaFill]
  | it :: rest, pre, i, k, hp, hit, hk => by
    have hl : it.length = w := hit it (by simp)
    have hk' : w + rest.length * w ≤ k := by
      have : (rest.length + 1) * w = w + rest.length * w := by rw [Nat.add_mul, Nat.one_mul, Nat.add_comm]
      simpa [this] using hk
    have h1 : sliceSet (pre ++ zeros k) (i * w) ((i + 1) * w) it = (pre ++ it) ++ zeros (k - w) := by
      have hmax : max (i * w) ((i + 1) * w) = pre.length + w := by
        rw [hp, Nat.add_mul, Nat.one_mul]; exact Nat.max_eq_right (Nat.le_add_right _ _)
      simp only [sliceSet, hmax]
      rw [← hp, List.take_left', List.drop_append, ]
      simp [zeros_drop]
      rfl
    rw [rsaMetaFill, h1]
    rw [rsaMetaFill_spec w rest (pre ++ it) (i + 1) (k - w) (by simp [hp, hl, Nat.add_mul]) (fun x hx => hit x (by simp [hx])) (by omega)]
    simp only [List.flatten_cons, List.append_assoc, List.length_cons]
    congr 3
    have : (rest.length + 1) * w = w + rest.length * w := by rw [Nat.add_mul, Nat.one_mul, Nat.add_comm]
    rw [this, Nat.sub_add_eq]

theorem allZero_of_forall (b : Bytes) (h : ∀ x ∈ b, x = 0) : allZero b = true := by
  simp only [allZero, List.all_eq_true]; intro x hx; simp [h x hx]

theorem rsaMetaItems_zeros (w : Nat) (data : Bytes) : ∀ (n i : Nat), (∀ x ∈ data.drop (i * w), x = 0) →
    rsaMetaItems w data n i = []
  | 0, _, _ => by simp [rsaMetaItems]
  | n + 1, i, h => by
    have hz : allZero ((data.drop (i * w)).take w) = true :=
      allZero_of_forall _ (fun x hx => h x (List.mem_of_mem_take hx))
    have hn : ∀ x ∈ data.drop ((i + 1) * w), x = 0 := by
      intro x hx
      have : data.drop ((i + 1) * w) = (data.drop (i * w)).drop w := by
        rw [List.drop_drop, Nat.add_mul, Nat.one_mul]
      rw [this] at hx
      exact h x (List.mem_of_mem_drop hx)
    simp only [rsaMetaItems, hz, if_true]
    exact rsaMetaItems_zeros w data n (i + 1) hn

theorem rsaMetaItems_spec (w : Nat) : ∀ (items : List Bytes) (pre : Bytes) (i m z : Nat),
    pre.length = i * w → (∀ it ∈ items, it.length = w ∧ allZero it = false) →
    rsaMetaItems w (pre ++ items.flatten ++ zeros z) (items.length + m) i = items
  | [], pre, i, m, z, hp, _ => by
    simp only [List.flatten_nil, List.append_nil, List.length_nil, Nat.zero_add]
    apply rsaMetaItems_zeros
    intro x hx
    rw [← hp, List.drop_left] at hx
    simp [zeros] at hx; exact hx.2
  | it :: rest, pre, i, m, z, hp, hit => by
    obtain ⟨hl, hnz⟩ := hit it (by simp)
    have hs : ((pre ++ (it :: rest).flatten ++ zeros z).drop (i * w)).take w = it := by
      rw [← hp]; simp [List.append_assoc, List.drop_left', ← hl]
    have hlen : (it :: rest).length + m = (rest.length + m) + 1 := by simp; omega
    rw [hlen, rsaMetaItems]
    simp only [hs, hnz]
    have := rsaMetaItems_spec w rest (pre ++ it) (i + 1) m z (by simp [hp, hl, Nat.add_mul])
      (fun x hx => hit x (by simp [hx]))
    simp only [List.flatten_cons, List.append_assoc] at this ⊢
    simp [this]


theorem rsaConsts : DatConsts.rotMetaRsaCount * DatConsts.rotMetaRsaItem = DatConsts.rotMetaRsaSize ∧
    DatConsts.rotMetaRsaMinLen ≤ DatConsts.rotMetaRsaSize := by decide

theorem rsaMeta_roundtrip (items : List Bytes) (hn : items.length ≤ DatConsts.rotMetaRsaCount)
    (hit : ∀ it ∈ items, it.length = DatConsts.rotMetaRsaItem ∧ allZero it = false) :
    (rsaMetaExport items).length = DatConsts.rotMetaRsaSize ∧ rsaMetaParse (rsaMetaExport items) = .ok (.rsa items) := by
  obtain ⟨hc, hm⟩ := rsaConsts
  have hle : items.length * DatConsts.rotMetaRsaItem ≤ DatConsts.rotMetaRsaSize := by
    rw [← hc]; exact Nat.mul_le_mul_right _ hn
  have he : rsaMetaExport items = items.flatten ++ zeros (DatConsts.rotMetaRsaSize - items.length * DatConsts.rotMetaRsaItem) := by
    have := rsaMetaFill_spec DatConsts.rotMetaRsaItem items [] 0 DatConsts.rotMetaRsaSize (by simp) (fun it h => (hit it h).1) hle
    simpa [rsaMetaExport] using this
  have hflat : items.flatten.length = items.length * DatConsts.rotMetaRsaItem := by
    clear he hle hn
    induction items with
    | nil => simp
    | cons a r ih =>
      simp only [List.flatten_cons, List.length_append, List.length_cons]
      rw [ih (fun x hx => hit x (by simp [hx])), (hit a (by simp)).1, Nat.add_mul, Nat.one_mul, Nat.add_comm]
  have hlen : (rsaMetaExport items).length = DatConsts.rotMetaRsaSize := by
    rw [he, List.length_append, zeros_length, hflat]; omega
  refine ⟨hlen, ?_⟩
  have hnl : ¬ (rsaMetaExport items).length < DatConsts.rotMetaRsaMinLen := by omega
  simp only [rsaMetaParse, hnl, if_false]
  obtain ⟨m, hm2⟩ : ∃ m, DatConsts.rotMetaRsaCount = items.length + m := ⟨_, (Nat.add_sub_cancel' hn).symm⟩
  rw [he, hm2]
  have := rsaMetaItems_spec DatConsts.rotMetaRsaItem items [] 0 m
    (DatConsts.rotMetaRsaSize - items.length * DatConsts.rotMetaRsaItem) (by simp) hit
  simp only [List.nil_append] at this
  rw [this]

theorem lookup_mem (k v : Nat) : ∀ (l : List (Nat × Nat)), lookup k l = some v → (k, v) ∈ l
  | [], h => by simp [lookup] at h
  | (a, b) :: r, h => by
    simp only [lookup] at h
    split at h
    · rename_i e; injection h with h; subst e; subst h; simp
    · exact List.mem_cons_of_mem _ (lookup_mem k v r h)

theorem ver_lt (dc : DC) (h : versionOk dc.major dc.minor = true) : dc.major < 65536 ∧ dc.minor < 65536 := by
  simp only [versionOk, DatConsts.versions] at h
  simp at h
  omega

theorem rsa_export (dc : DC) (h : WFRsa dc) :
    ∃ items, dc.rotMeta = .rsa items ∧ dataToSign dc = .ok (specTbsRsa dc items) ∧
      exportDC dc = .ok (specTbsRsa dc items ++ dc.sig) := by
  obtain ⟨hc, hcls, items, ks, ss, hrm, hn, hit, hks, hss, hdck, hrot, hsig⟩ := h
  obtain ⟨hmlen, hmp⟩ := rsaMeta_roundtrip items hn hit
  have h128 : DatConsts.rotMetaRsaSize = 128 := by decide
  have hmaj := ver_lt dc hc.ver
  refine ⟨items, hrm, ?_, ?_⟩
  · simp only [dataToSign, hcls, signLayout, packFields, DatConsts.rsaSign]
    simp [fieldOk, fieldBytes, argNat, argBytes, widthVal, hrm, rotMetaExport, hks, hmaj.1, hmaj.2, hc.socc,
      hc.socu, hc.vu, hc.beacon, specTbsRsa, fitS_self, hc.uuid, hdck, hrot, hmlen, h128]
  · simp only [exportDC, hcls, exportLayout, packFields, DatConsts.rsaExport]
    simp [fieldOk, fieldBytes, argNat, argBytes, widthVal, hc.sigNe, hrm, rotMetaExport, hks, hss, hmaj.1, hmaj.2, hc.socc,
      hc.socu, hc.vu, hc.beacon, specTbsRsa, fitS_self, hc.uuid, hdck, hrot, hsig, hmlen, h128]

theorem rsa_roundtrip (dc : DC) (h : WFRsa dc) (t : Bytes) :
    ∃ b, exportDC dc = .ok b ∧ parseRsa (b ++ t) = .ok dc := by
  obtain ⟨items, hrm, _, hexp⟩ := rsa_export dc h
  obtain ⟨hc, hcls, items', ks, ss, hrm', hn, hit, hks, hss, hdck, hrot, hsig⟩ := h
  have : items' = items := by rw [hrm] at hrm'; injection hrm' with h; exact h.symm
  subst this
  obtain ⟨hmlen, hmp⟩ := rsaMeta_roundtrip items' hn hit
  have h128 : DatConsts.rotMetaRsaSize = 128 := by decide
  have hmaj := ver_lt dc hc.ver
  refine ⟨_, hexp, ?_⟩
  simp only [specTbsRsa, List.append_assoc]
  simp [parseRsa, rd_append, leEnc_length, leDec_leEnc2, leDec_leEnc4, hmaj.1, hmaj.2, hc.ver, hks, hss, h128,
      hc.socc, hc.socu, hc.vu, hc.beacon, hc.uuid, hdck, hrot, hsig, hmlen, hmp]
  simp only [Functor.map, Except.map]
  cases dc
  simp only [Except.ok.injEq, DC.mk.injEq] at *
  simp [hcls, hrm]


/-! ECC -/
theorem flags_rt_fin : ∀ c : Fin 5, ∀ u : Fin 5, u.val < c.val →
    flagsBytes u.val c.val = .ok (specFlags u.val c.val) ∧ flagsParse (specFlags u.val c.val) = .ok (u.val, c.val) := by
  decide +kernel

theorem flags_rt (used cnt : Nat) (h : used < cnt) (hc : cnt ≤ 4) :
    flagsBytes used cnt = .ok (specFlags used cnt) ∧ flagsParse (specFlags used cnt) = .ok (used, cnt) :=
  flags_rt_fin ⟨cnt, by omega⟩ ⟨used, by omega⟩ h

theorem specFlags_length (u c : Nat) : (specFlags u c).length = 4 := by simp [specFlags, leEnc_length]
theorem flagsLen4 : DatConsts.flagsLen = 4 := by decide


theorem withFlags_ok (used cnt : Nat) (tail : Bytes) (h : used < cnt) (hc : cnt ≤ 4) :
    withFlags used cnt tail = .ok (specFlags used cnt ++ tail) := by
  unfold withFlags
  rw [(flags_rt used cnt h hc).1]

theorem rdItems_append (w : Nat) : ∀ (items : List Bytes) (rest : Bytes), (∀ it ∈ items, it.length = w) →
    rdItems w items.length (items.flatten ++ rest) = .ok (items, rest)
  | [], rest, _ => by simp [rdItems]
  | it :: r, rest, h => by
    have hl := h it (by simp)
    simp only [List.length_cons, rdItems, List.flatten_cons, List.append_assoc, rd_append w it _ hl]
    rw [rdItems_append w r rest (fun x hx => h x (by simp [hx]))]

theorem eccMeta_roundtrip (coord w used cnt : Nat) (items : List Bytes) (rest : Bytes)
    (hw : eccItemWidth coord = some w) (hu : used < cnt) (hc : cnt ≤ 4)
    (h1 : cnt = 1 → items = []) (h2 : 1 < cnt → items.length = cnt ∧ ∀ it ∈ items, it.length = w) :
    eccMetaParse coord ((specFlags used cnt ++ crtkTable items) ++ rest) = .ok (.ecc used cnt items, rest) := by
  have hf := (flags_rt used cnt hu hc).2
  have ht : ((specFlags used cnt ++ crtkTable items) ++ rest).take DatConsts.flagsLen = specFlags used cnt := by
    rw [flagsLen4, List.append_assoc, ← specFlags_length used cnt, List.take_left]
  have hd : ((specFlags used cnt ++ crtkTable items) ++ rest).drop DatConsts.flagsLen = crtkTable items ++ rest := by
    rw [flagsLen4, List.append_assoc, ← specFlags_length used cnt, List.drop_left]
  simp only [eccMetaParse, ht, hd, hf]
  by_cases hc1 : 1 < cnt
  · obtain ⟨hl, hit⟩ := h2 hc1
    have hct : crtkTable items = items.flatten := by simp [crtkTable, hl, hc1]
    simp only [hc1, if_true, hw, hct]
    rw [← hl, rdItems_append w items rest hit]
  · have : cnt = 1 := by omega
    have hi := h1 this
    subst hi
    simp [hc1, crtkTable]


theorem ecc_export (dc : DC) (h : WFEcc dc) :
    ∃ used cnt items, dc.rotMeta = .ecc used cnt items ∧ dataToSign dc = .ok (specTbsEcc dc used cnt items) ∧
      exportDC dc = .ok (specTbsEcc dc used cnt items ++ dc.sig) := by
  obtain ⟨hc, hcls, used, cnt, items, coord, w, hrm, hco, hhb, hw, hu, hcn, h1, h2, hrot, hdck, hsig⟩ := h
  have hmaj := ver_lt dc hc.ver
  have hme : rotMetaExport dc.rotMeta = .ok (specFlags used cnt ++ crtkTable items) := by
    rw [hrm]; simp only [rotMetaExport]; exact withFlags_ok used cnt _ hu hcn
  have hmb : rotMetaBytes dc = specFlags used cnt ++ crtkTable items := by simp [rotMetaBytes, hme]
  refine ⟨used, cnt, items, hrm, ?_, ?_⟩
  · simp only [dataToSign, hcls, signLayout, packFields, DatConsts.eccSign]
    simp [fieldOk, fieldBytes, argNat, argBytes, widthVal, hme, hmb, hmaj.1, hmaj.2, hc.socc,
      hc.socu, hc.vu, hc.beacon, specTbsEcc, fitS_self, hc.uuid]
  · simp only [exportDC, hcls, exportLayout, packFields, DatConsts.eccExport]
    simp [fieldOk, fieldBytes, argNat, argBytes, widthVal, hc.sigNe, hme, hmb, hmaj.1, hmaj.2, hc.socc,
      hc.socu, hc.vu, hc.beacon, specTbsEcc, fitS_self, hc.uuid]

theorem map_ok' {α β : Type} (f : α → β) (a : α) : f <$> (Except.ok a : PyRes α) = Except.ok (f a) := rfl

theorem ecc_roundtrip (dc : DC) (h : WFEcc dc) (t : Bytes) :
    ∃ b, exportDC dc = .ok b ∧ parseEcc (b ++ t) = .ok dc := by
  obtain ⟨used, cnt, items, hrm, _, hexp⟩ := ecc_export dc h
  obtain ⟨hc, hcls, used', cnt', items', coord, w, hrm', hco, hhb, hw, hu, hcn, h1, h2, hrot, hdck, hsig⟩ := h
  have : used' = used ∧ cnt' = cnt ∧ items' = items := by
    rw [hrm] at hrm'; injection hrm' with a b c; exact ⟨a.symm, b.symm, c.symm⟩
  obtain ⟨rfl, rfl, rfl⟩ := this
  have hmaj := ver_lt dc hc.ver
  refine ⟨_, hexp, ?_⟩
  have hm := fun rest => eccMeta_roundtrip coord w used' cnt' items' rest hw hu hcn h1 h2
  obtain ⟨hb, hhb'⟩ := Option.isSome_iff_exists.mp hhb
  simp only [specTbsEcc, List.append_assoc] at hm ⊢
  simp [parseEcc, parseHead, rd_append, leEnc_length, leDec_leEnc2, leDec_leEnc4, hmaj.1, hmaj.2, hc.ver, hco, hhb',
      hc.socc, hc.socu, hc.vu, hc.beacon, hc.uuid, hdck, hrot, hsig, hm, map_ok']
  cases dc
  simp only [DC.mk.injEq] at *
  simp [hcls, hrm]


/-! EdgeLock -/
theorem ele_export (o : SrkOracle) (dc : DC) (h : WFEle o dc) :
    ∃ used cnt srk, dc.rotMeta = .ele used cnt srk ∧ dataToSign dc = .ok (specTbsEle dc used cnt srk) ∧
      exportDC dc = .ok (specTbsEle dc used cnt srk ++ dc.sig) := by
  obtain ⟨hc, hcls, used, cnt, srk, hrm, hu, hcn, ho, hdck⟩ := h
  have hmaj := ver_lt dc hc.ver
  have hme : rotMetaExport dc.rotMeta = .ok (specFlags used cnt ++ srk) := by
    rw [hrm]; simp only [rotMetaExport]; exact withFlags_ok used cnt _ hu hcn
  have hmb : rotMetaBytes dc = specFlags used cnt ++ srk := by simp [rotMetaBytes, hme]
  refine ⟨used, cnt, srk, hrm, ?_, ?_⟩
  · simp only [dataToSign, hcls, signLayout, packFields, DatConsts.eleSign]
    simp [fieldOk, fieldBytes, argNat, argBytes, widthVal, hme, hmb, hmaj.1, hmaj.2, hc.socc,
      hc.socu, hc.vu, hc.beacon, specTbsEle, fitS_self, hc.uuid]
  · simp only [exportDC, hcls, exportLayout, packFields, DatConsts.eleExport]
    simp [fieldOk, fieldBytes, argNat, argBytes, widthVal, hc.sigNe, hme, hmb, hmaj.1, hmaj.2, hc.socc,
      hc.socu, hc.vu, hc.beacon, specTbsEle, fitS_self, hc.uuid]

theorem ele_roundtrip (o : SrkOracle) (dc : DC) (h : WFEle o dc) (t : Bytes) :
    ∃ b, exportDC dc = .ok b ∧ parseEle o (b ++ t) = .ok dc := by
  obtain ⟨used, cnt, srk, hrm, _, hexp⟩ := ele_export o dc h
  obtain ⟨hc, hcls, used', cnt', srk', hrm', hu, hcn, ho, hdck⟩ := h
  have : used' = used ∧ cnt' = cnt ∧ srk' = srk := by
    rw [hrm] at hrm'; injection hrm' with a b c; exact ⟨a.symm, b.symm, c.symm⟩
  obtain ⟨rfl, rfl, rfl⟩ := this
  have hmaj := ver_lt dc hc.ver
  refine ⟨_, hexp, ?_⟩
  have hf := (flags_rt used' cnt' hu hcn).2
  have ht : ∀ rest : Bytes, (specFlags used' cnt' ++ rest).take DatConsts.flagsLen = specFlags used' cnt' := by
    intro rest; rw [flagsLen4, ← specFlags_length used' cnt', List.take_left]
  have hd : ∀ rest : Bytes, (specFlags used' cnt' ++ rest).drop DatConsts.flagsLen = rest := by
    intro rest; rw [flagsLen4, ← specFlags_length used' cnt', List.drop_left]
  simp only [specTbsEle, List.append_assoc]
  simp [parseEle, parseHead, rd_append, leEnc_length, leDec_leEnc2, leDec_leEnc4, hmaj.1, hmaj.2, hc.ver,
      hc.socc, hc.socu, hc.vu, hc.beacon, hc.uuid, hdck, ht, hd, hf, ho, map_ok']
  cases dc
  simp only [DC.mk.injEq] at *
  simp [hcls, hrm]

/-! all classes -/
theorem wf_common (o : SrkOracle) (dc : DC) (h : WF o dc) : WFCommon dc := by
  unfold WF at h
  split at h
  · exact h.common
  · exact h.common
  · exact h.common

theorem export_spec (o : SrkOracle) (dc : DC) (h : WF o dc) :
    dataToSign dc = .ok (specTbs dc) ∧ exportDC dc = .ok (specTbs dc ++ dc.sig) := by
  unfold WF at h
  split at h
  · obtain ⟨items, hrm, h1, h2⟩ := rsa_export dc h
    simp only [specTbs, hrm]; exact ⟨h1, h2⟩
  · obtain ⟨u, c, items, hrm, h1, h2⟩ := ecc_export dc h
    simp only [specTbs, hrm]; exact ⟨h1, h2⟩
  · obtain ⟨u, c, srk, hrm, h1, h2⟩ := ele_export o dc h
    simp only [specTbs, hrm]; exact ⟨h1, h2⟩

theorem roundtrip_ext (o : SrkOracle) (dc : DC) (h : WF o dc) (t : Bytes) :
    parseCls o dc.cls ((specTbs dc ++ dc.sig) ++ t) = .ok dc := by
  have hs := (export_spec o dc h).2
  unfold WF at h
  split at h
  · rename_i hc
    obtain ⟨b, hb, hp⟩ := rsa_roundtrip dc h t
    rw [hs] at hb; injection hb with hb; subst hb
    simpa [parseCls, hc] using hp
  · rename_i hc
    obtain ⟨b, hb, hp⟩ := ecc_roundtrip dc h t
    rw [hs] at hb; injection hb with hb; subst hb
    simpa [parseCls, hc] using hp
  · rename_i hc
    obtain ⟨b, hb, hp⟩ := ele_roundtrip o dc h t
    rw [hs] at hb; injection hb with hb; subst hb
    simpa [parseCls, hc] using hp



/-! signed range, generically from the generated layouts -/
theorem packFields_append (dc : DC) (l₁ l₂ : List (DatFld × DatArg)) (b : Bytes)
    (h : packFields dc (l₁ ++ l₂) = .ok b) :
    ∃ b₁ b₂, packFields dc l₁ = .ok b₁ ∧ packFields dc l₂ = .ok b₂ ∧ b = b₁ ++ b₂ := by
  simp only [packFields, List.all_append, Bool.and_eq_true] at h ⊢
  by_cases h1 : l₁.all (fieldOk dc) = true
  · by_cases h2 : l₂.all (fieldOk dc) = true
    · simp only [h1, h2, and_self, if_true, Except.ok.injEq] at h ⊢
      exact ⟨_, _, rfl, rfl, by rw [← h, List.flatMap_append]⟩
    · simp [h1, h2] at h
  · simp [h1] at h

/-- the signature field of each class's export layout -/
def sigField : Cls → DatFld × DatArg
  | .rsa => (.bytes .rsaSig, .sig)
  | .ecc => (.bytes .lenSig, .sig)
  | .ele => (.bytes .lenSig, .sig)

theorem layout_split (c : Cls) : exportLayout c = signLayout c ++ [sigField c] := by
  cases c <;> decide

theorem signed_range (dc : DC) (b : Bytes) (h : exportDC dc = .ok b) :
    ∃ m, dataToSign dc = .ok m ∧ b = m ++ fieldBytes dc (sigField dc.cls) := by
  unfold exportDC at h
  split at h
  · cases h
  · rw [layout_split] at h
    obtain ⟨b₁, b₂, h1, h2, hb⟩ := packFields_append dc _ _ b h
    refine ⟨b₁, h1, ?_⟩
    simp only [packFields, List.all_cons, List.all_nil, Bool.and_true, List.flatMap_cons, List.flatMap_nil, List.append_nil] at h2
    split at h2
    · injection h2 with h2; rw [hb, h2]
    · cases h2

/-! the data to sign does not depend on the signature -/
theorem dataToSign_sig (dc : DC) (s : Bytes) : dataToSign { dc with sig := s } = dataToSign dc := by
  cases hc : dc.cls <;>
  simp [dataToSign, signLayout, hc, packFields, DatConsts.rsaSign, DatConsts.eccSign, DatConsts.eleSign, fieldOk, fieldBytes, argNat, argBytes,
    widthVal, rotMetaBytes]


/-! response -/

/-- credential ‖ beacon (LE32) ‖ [UUID] : the documented common part of a response -/
def specDarCommon (r : DAR) : Bytes :=
  (specTbs r.dc ++ r.dc.sig) ++ (leEnc 4 r.authBeacon ++ (if r.usesEcc then r.uuid else []))

theorem darCommon_spec (o : SrkOracle) (r : DAR) (h : WFDar o r) : darCommon r = .ok (specDarCommon r) := by
  have he := (export_spec o r.dc h.dc).2
  cases hu : r.usesEcc <;>
  simp [darCommon, he, darCommonLayout, hu, DatConsts.darCommonBase, DatConsts.darCommonEcc, darFieldOk, darFieldBytes, h.beacon,
    specDarCommon, fitS_self, h.uuid]

theorem darMsg_spec (o : SrkOracle) (r : DAR) (h : WFDar o r) : darMsg r = .ok (specDarCommon r ++ r.challenge) := by
  have hl : DatConsts.darSignLayout = [(.raw, .skip), (.raw, .dacChallenge)] := by decide
  simp [darMsg, hl, darCommon_spec o r h]

theorem darExport_spec (c : CryptoOps) (pss : Bool) (sk : PrivKey) (rnd : Rand) (o : SrkOracle) (r : DAR) (h : WFDar o r)
    (hs : c.sign (darSigAlg pss r) sk (specDarCommon r ++ r.challenge) rnd ≠ []) :
    darExport c pss sk rnd r = .ok (specDarCommon r ++ c.sign (darSigAlg pss r) sk (specDarCommon r ++ r.challenge) rnd) := by
  have hl : DatConsts.darExportLayout = [(.raw, .skip), (.raw, .signature)] := by decide
  simp [darExport, hl, darCommon_spec o r h, darMsg_spec o r h, hs]

theorem leEnc4_inj (a b : Nat) (ha : a < 4294967296) (hb : b < 4294967296) (h : leEnc 4 a = leEnc 4 b) : a = b := by
  have := congrArg leDec h
  rwa [leDec_leEnc4 a ha, leDec_leEnc4 b hb] at this

/-- two credentials of one class with the same exported bytes are equal -/
theorem export_inj (o : SrkOracle) (d₁ d₂ : DC) (h₁ : WF o d₁) (h₂ : WF o d₂) (hc : d₁.cls = d₂.cls)
    (he : specTbs d₁ ++ d₁.sig = specTbs d₂ ++ d₂.sig) : d₁ = d₂ := by
  have p₁ := roundtrip_ext o d₁ h₁ []
  have p₂ := roundtrip_ext o d₂ h₂ []
  rw [he, hc, p₂] at p₁
  injection p₁ with p₁
  exact p₁.symm

theorem darMsg_inj (o : SrkOracle) (r₁ r₂ : DAR) (h₁ : WFDar o r₁) (h₂ : WFDar o r₂)
    (hc : r₁.dc.cls = r₂.dc.cls) (hu : r₁.usesEcc = r₂.usesEcc)
    (hm : specDarCommon r₁ ++ r₁.challenge = specDarCommon r₂ ++ r₂.challenge) :
    r₁.dc = r₂.dc ∧ r₁.authBeacon = r₂.authBeacon ∧ r₁.challenge = r₂.challenge ∧ (r₁.usesEcc = true → r₁.uuid = r₂.uuid) := by
  have hlen := congrArg List.length hm
  have hul : (if r₁.usesEcc then r₁.uuid else []).length = (if r₂.usesEcc then r₂.uuid else []).length := by
    rw [← hu]; cases r₁.usesEcc <;> simp [h₁.uuid, h₂.uuid]
  simp only [specDarCommon, List.length_append, leEnc_length, h₁.challenge, h₂.challenge, hul] at hlen
  simp only [specDarCommon, List.append_assoc] at hm
  have hE : (specTbs r₁.dc ++ r₁.dc.sig).length = (specTbs r₂.dc ++ r₂.dc.sig).length := by
    simp only [List.length_append]; omega
  rw [← List.append_assoc (specTbs r₁.dc), ← List.append_assoc (specTbs r₂.dc)] at hm
  obtain ⟨e1, e2⟩ := List.append_inj hm hE
  obtain ⟨e3, e4⟩ := List.append_inj e2 (by simp [leEnc_length])
  obtain ⟨e5, e6⟩ := List.append_inj e4 hul
  refine ⟨export_inj o _ _ h₁.dc h₂.dc hc e1, leEnc4_inj _ _ h₁.beacon h₂.beacon e3, e6, ?_⟩
  intro ht
  rw [← hu, ht] at e5
  simpa using e5


/-! dispatcher -/
theorem specTbs_head (dc : DC) : ∃ rest, specTbs dc = leEnc 2 dc.major ++ (leEnc 2 dc.minor ++ (leEnc 4 dc.socc ++ rest)) := by
  unfold specTbs
  split <;> exact ⟨_, rfl⟩

theorem parseDC_ok (rows : List DatRow) (o : SrkOracle) (dc : DC) (h : WF o dc) (fam : String) (row : DatRow)
    (ha : ambassador rows dc.socc = some fam) (hr : latestRow rows fam = some row)
    (hg : getClass row dc.major dc.minor = .ok (.cls dc.cls)) (t : Bytes) :
    parseDC rows o ((specTbs dc ++ dc.sig) ++ t) = .ok dc := by
  have hp := roundtrip_ext o dc h t
  have hc := wf_common o dc h
  have hmaj := ver_lt dc hc.ver
  obtain ⟨rest, hrest⟩ := specTbs_head dc
  have hd : (specTbs dc ++ dc.sig) ++ t = leEnc 2 dc.major ++ (leEnc 2 dc.minor ++ (leEnc 4 dc.socc ++ (rest ++ dc.sig ++ t))) := by
    rw [hrest]; simp only [List.append_assoc]
  unfold parseDC
  rw [hd] at hp ⊢
  simp [rd_append, leEnc_length, leDec_leEnc2, leDec_leEnc4, hmaj.1, hmaj.2, hc.socc, ha, hr, hc.ver, hg]
  simpa using hp

/-! challenge -/

/-- the documented challenge layout; `(wmaj, wmin)` = the version words as they are on the wire -/
def specDacBytes (wmaj wmin : Nat) (a : DAC) : Bytes :=
  leEnc 2 wmaj ++ (leEnc 2 wmin ++ (leEnc 4 a.socc ++ (a.uuid ++ (leEnc 4 a.revocation ++ (a.rkthHash ++
    (leEnc 4 a.socPinned ++ (leEnc 4 a.socDefault ++ (leEnc 4 a.ccVu ++ a.challenge))))))))

structure WFDacInts (a : DAC) : Prop where
  ver : versionOk a.major a.minor = true
  socc : a.socc < 4294967296
  rev : a.revocation < 4294967296
  pinned : a.socPinned < 4294967296
  dflt : a.socDefault < 4294967296
  vu : a.ccVu < 4294967296
  uuid : a.uuid.length = 16
  challenge : a.challenge.length = 32

theorem dacExport_spec (a : DAC) (h : WFDacInts a) : dacExport a = .ok (specDacBytes a.major a.minor a) := by
  have hv : a.major < 65536 ∧ a.minor < 65536 := by
    have := h.ver
    simp only [versionOk, DatConsts.versions] at this
    simp at this
    omega
  simp [dacExport, DatConsts.dacExport, dacFieldOk, dacFieldBytes, dacArgNat, dacArgBytes, hv.1, hv.2, h.socc, h.rev, h.pinned,
    h.dflt, h.vu, specDacBytes]

theorem dacParse_spec (rows : List DatRow) (a : DAC) (h : WFDacInts a) (fam : String) (row : DatRow)
    (ha : ambassador rows a.socc = some fam) (hr : latestRow rows fam = some row)
    (hlen : a.rkthHash.length = dacRotHashLen row.basedOnEle row.sha256Always
      (if row.dacVersionSwapped then a.minor else a.major) (if row.dacVersionSwapped then a.major else a.minor)) (t : Bytes) :
    dacParse rows (specDacBytes (if row.dacVersionSwapped then a.minor else a.major)
      (if row.dacVersionSwapped then a.major else a.minor) a ++ t) = .ok a := by
  have hv : a.major < 65536 ∧ a.minor < 65536 := by
    have := h.ver
    simp only [versionOk, DatConsts.versions] at this
    simp at this
    omega
  unfold dacParse
  simp only [specDacBytes, List.append_assoc]
  cases hs : row.dacVersionSwapped <;>
  simp [hs] at hlen <;>
  simp [rd_append, leEnc_length, leDec_leEnc2, leDec_leEnc4, hv.1, hv.2, h.socc, h.rev, h.pinned, h.dflt, h.vu, h.uuid,
    h.challenge, ha, hr, hlen.symm, hs, h.ver, map_ok']


/-- the bytes SPSDK hashes for one RoT key: RSA `export(exp_length=3)` = modulus ‖ 3-byte exponent, ECC `export()` = X ‖ Y -/
def dcKeyBytes : Spec.Key → Bytes
  | .rsa n e => Spec.beMin n ++ beEnc 3 e
  | .ecc cv x y => beEnc cv.coordSize x ++ beEnc cv.coordSize y

theorem flatten_replicate_zeros (m w : Nat) : (List.replicate m (List.replicate w (0 : UInt8))).flatten = zeros (m * w) := by
  induction m with
  | zero => simp [zeros]
  | succ m ih =>
    rw [List.replicate_succ, List.flatten_cons, ih, Nat.succ_mul, Nat.add_comm]
    simp [zeros, List.replicate_append_replicate]

theorem rot_hash_rsa (c : CryptoOps) (hl : CryptoLaws c) (ks : List Spec.Key) (hn : ks.length ≤ 4)
    (hr : ∀ k ∈ ks, ∃ n e, k = .rsa n e ∧ byteLen e = 3) (dc : DC) (hcls : dc.cls = .rsa)
    (hm : rsaMetaOfKeys c (ks.map dcKeyBytes) = .ok dc.rotMeta) :
    calculateHash c dc = .ok (Spec.rotkh c .certBlock1 ks) := by
  have hmax : DatConsts.rotMetaRsaMaxKeys = 4 := by decide
  have hitems : (ks.map dcKeyBytes).map (c.hash .sha256) = ks.map (Spec.keyHash c) := by
    rw [List.map_map]
    apply List.map_congr_left
    intro k hk
    obtain ⟨n, e, rfl, he⟩ := hr k hk
    simp [dcKeyBytes, Spec.keyHash, Spec.Key.material, Spec.Key.hashAlg, Spec.beMin, he]
  have hng : ¬ (ks.map dcKeyBytes).length > DatConsts.rotMetaRsaMaxKeys := by simp [hmax]; omega
  simp only [rsaMetaOfKeys, hng, if_false, hitems] at hm
  injection hm with hm
  have h32 : ∀ it ∈ ks.map (Spec.keyHash c), it.length = DatConsts.rotMetaRsaItem := by
    intro it hit
    obtain ⟨k, _, rfl⟩ := List.mem_map.mp hit
    simp only [Spec.keyHash]
    rw [hl.hash_len]
    obtain ⟨n, e, rfl, _⟩ := hr k ‹_›
    rfl
  have hsz : DatConsts.rotMetaRsaSize = 128 ∧ DatConsts.rotMetaRsaItem = 32 := by decide
  have hfill := rsaMetaFill_spec DatConsts.rotMetaRsaItem (ks.map (Spec.keyHash c)) [] 0 DatConsts.rotMetaRsaSize (by simp) h32
    (by simp [hsz.1, hsz.2]; omega)
  simp only [calculateHash, hcls, ← hm]
  simp only [Spec.rotkh, Spec.rotkhCa, List.map_map, Spec.rotkhV1, Spec.rkhTableV1]
  congr 2
  simp only [rsaMetaExport]
  have hid : (ks.map ((fun x => x.1) ∘ fun k => (k, false))) = ks := by
    rw [show ((fun (x : Spec.Key × Bool) => x.1) ∘ fun k => (k, false)) = id from rfl]; simp
  rw [hid]
  simp only [List.nil_append] at hfill
  rw [hfill, List.flatten_append, flatten_replicate_zeros, List.length_map, hsz.1, hsz.2]
  congr 2
  omega


theorem flatten_length_const {α : Type} (l : List α) (f : α → Bytes) (w : Nat) (h : ∀ x ∈ l, (f x).length = w) :
    (l.map f).flatten.length = l.length * w := by
  induction l with
  | nil => simp
  | cons a r ih =>
    simp only [List.map_cons, List.flatten_cons, List.length_append, List.length_cons]
    rw [ih (fun x hx => h x (by simp [hx])), h a (by simp), Nat.succ_mul, Nat.add_comm]

theorem dcKeyBytes_ecc_length (cv : Spec.Curve) (x y : Nat) : (dcKeyBytes (.ecc cv x y)).length = cv.coordSize * 2 := by
  simp [dcKeyBytes, beEnc_length']; omega

theorem curve_tables (cv : Spec.Curve) :
    eccHashBits cv.coordSize = some (cv.hashAlg.size * 8) ∧ hashOfBits (cv.hashAlg.size * 8) = some cv.hashAlg ∧
    0 < cv.hashAlg.size ∧ cv.coordSize * 2 / 2 = cv.coordSize ∧
    eccTableHash cv.hashAlg.size = .ok cv.hashAlg ∧ eccSingleKeyHash (cv.coordSize * 2) = .ok cv.hashAlg := by
  cases cv <;> decide

theorem flagsValid_ok (used cnt : Nat) (h : used < cnt) (hc : cnt ≤ 4) : flagsValid used cnt = true := by
  simp [flagsValid, h, hc]

theorem rot_hash_ecc (c : CryptoOps) (hl : CryptoLaws c) (cv : Spec.Curve) (ks : List Spec.Key)
    (h1 : 1 ≤ ks.length) (h4 : ks.length ≤ 4) (hk : ∀ k ∈ ks, ∃ x y, k = .ecc cv x y)
    (used : Nat) (hu : used < ks.length) (dc : DC) (hcls : dc.cls = .ecc)
    (hm : eccMetaOfKeys c (ks.map dcKeyBytes) used = .ok dc.rotMeta)
    (hp : (ks.map dcKeyBytes)[used]? = some dc.rotPub) :
    calculateHash c dc = .ok (Spec.rotkh c .certBlock21 ks) := by
  obtain ⟨hb, hob, hpos, hhalf, hex1, hex2⟩ := curve_tables cv
  have hlenk : ∀ k ∈ ks, (dcKeyBytes k).length = cv.coordSize * 2 := by
    intro k hk'; obtain ⟨x, y, rfl⟩ := hk k hk'; exact dcKeyBytes_ecc_length cv x y
  have hkh : ∀ k ∈ ks, c.hash cv.hashAlg (dcKeyBytes k) = Spec.keyHash c k := by
    intro k hk'; obtain ⟨x, y, rfl⟩ := hk k hk'; rfl
  have hval : flagsValid used (ks.map dcKeyBytes).length = true := by
    rw [List.length_map]; exact flagsValid_ok used ks.length hu h4
  have hid : (ks.map ((fun (x : Spec.Key × Bool) => x.1) ∘ fun k => (k, false))) = ks := by
    rw [show ((fun (x : Spec.Key × Bool) => x.1) ∘ fun k => (k, false)) = id from rfl]; simp
  simp only [Spec.rotkh, Spec.rotkhCa, List.map_map, hid]
  match ks, h1, h4, hk, hu, hm, hp, hlenk, hkh, hval with
  | [k], _, _, hk, hu, hm, hp, hlenk, hkh, hval =>
    have hu0 : used = 0 := by simpa using hu
    subst hu0
    have hl0 := hlenk k (by simp)
    have hv1 : flagsValid 0 1 = true := by decide
    simp only [eccMetaOfKeys, List.map_cons, List.map_nil, hl0, hhalf, List.any_cons, List.any_nil, hb, hob, hval] at hm
    simp [hv1] at hm
    simp only [List.map_cons, List.map_nil, List.getElem?_cons_zero, Option.some.injEq] at hp
    simp only [calculateHash, hcls, ← hm, crtkTable]
    simp only [List.length_nil, Nat.not_lt_zero, if_false, List.isEmpty_nil, if_true, ← hp, hl0, gt_iff_lt]
    simp only [hex2, Spec.rotkhV21]
    rw [hkh k (by simp)]
  | k :: k2 :: rest, _, _, hk, hu, hm, hp, hlenk, hkh, hval =>
    have hl0 := hlenk k (by simp)
    have hany : ((k :: k2 :: rest).map dcKeyBytes).any (fun b => decide (b.length / 2 ≠ cv.coordSize)) = false := by
      rw [List.any_eq_false]
      intro b hbm
      obtain ⟨kk, hkk, rfl⟩ := List.mem_map.mp hbm
      simp [hlenk kk hkk, hhalf]
    have hgt : ((k :: k2 :: rest).map dcKeyBytes).length > 1 := by simp
    unfold eccMetaOfKeys at hm
    simp only [List.map_cons] at hm hany
    simp only [hl0, hhalf, hany, hb, hob] at hm
    simp only [List.map_cons, List.length_cons, List.length_map] at hval hm
    simp only [hval] at hm
    simp at hm
    have hitems : c.hash cv.hashAlg (dcKeyBytes k) :: c.hash cv.hashAlg (dcKeyBytes k2) :: List.map (c.hash cv.hashAlg ∘ dcKeyBytes) rest
        = (k :: k2 :: rest).map (Spec.keyHash c) := by
      simp only [List.map_cons]
      rw [hkh k (by simp), hkh k2 (by simp)]
      congr 2
      apply List.map_congr_left
      intro x hx
      exact hkh x (by simp [hx])
    rw [hitems] at hm
    have hflen : ((k :: k2 :: rest).map (Spec.keyHash c)).flatten.length = (k :: k2 :: rest).length * cv.hashAlg.size := by
      apply flatten_length_const
      intro x hx
      obtain ⟨a, b, rfl⟩ := hk x hx
      simp only [Spec.keyHash, hl.hash_len]; rfl
    have hct : crtkTable ((k :: k2 :: rest).map (Spec.keyHash c)) = ((k :: k2 :: rest).map (Spec.keyHash c)).flatten := by
      simp [crtkTable]
    have hne : (((k :: k2 :: rest).map (Spec.keyHash c)).flatten).isEmpty = false := by
      rw [List.isEmpty_eq_false_iff, ← List.length_pos_iff, hflen]
      exact Nat.mul_pos (by simp) hpos
    have hkalg : k.hashAlg = cv.hashAlg := by obtain ⟨a, b, rfl⟩ := hk k (by simp); rfl
    simp only [calculateHash, hcls, ← hm, hct, hne]
    have hdiv : (rest.length + 1 + 1) * cv.hashAlg.size / (rest.length + 1 + 1) = cv.hashAlg.size :=
      Nat.mul_div_cancel_left _ (by omega)
    simp only [Bool.false_eq_true, if_false, List.length_cons, hflen, hdiv, Nat.add_eq_zero_iff, Nat.succ_ne_zero, and_false]
    simp only [hex1, Spec.rotkhV21, Spec.ctrkTable, hkalg]


/-! fixed-width big-endian fields -/
theorem beEnc_zero (n : Nat) : beEnc n 0 = zeros n := by
  induction n with
  | zero => simp [beEnc, zeros]
  | succ n ih =>
    rw [beEnc]; simp only [Nat.zero_div, ih, Nat.zero_mod]
    simp [zeros, List.replicate_succ']

theorem beEnc_leading_zeros : ∀ (n x k : Nat), k ≤ n → x < 256 ^ (n - k) → (beEnc n x).take k = zeros k
  | 0, x, k, hk, _ => by
    have : k = 0 := by omega
    subst this; simp [zeros]
  | n + 1, x, k, hk, hx => by
    by_cases hkn : k = n + 1
    · subst hkn
      have : x = 0 := by simpa using hx
      subst this
      rw [beEnc_zero, List.take_of_length_le (by simp)]
    · have hk' : k ≤ n := by omega
      have hsub : n + 1 - k = (n - k) + 1 := by omega
      rw [hsub, Nat.pow_succ] at hx
      have hd : x / 256 < 256 ^ (n - k) := Nat.div_lt_of_lt_mul (by rw [Nat.mul_comm]; exact hx)
      rw [beEnc, List.take_append_of_le_length (by rw [beEnc_length']; exact hk')]
      exact beEnc_leading_zeros n (x / 256) k hk' hd

end SpsdkVerif.Dat
