/-
Inversion / length theorems for the modes of `Crypto/Modes.lean`, for EVERY `c : CryptoOps`
satisfying `CryptoLaws c` (all keys, IVs, nonces, tweaks, messages, lengths).
The generic `…With` versions need only the two laws of the block permutation that is plugged in.
Core Lean only (no Mathlib), so model files may import this module too.
-/
import SpsdkVerif.Crypto.Modes

namespace SpsdkVerif.Crypto
open SpsdkVerif
open SpsdkVerif.Misc (beEnc beDec leEnc leDec)

/-! ## helpers -/

@[simp] theorem xorBytes_length (a b : Bytes) : (xorBytes a b).length = min a.length b.length := by
  simp [xorBytes]

@[simp] theorem zeros_length (n : Nat) : (zeros n).length = n := by simp [zeros]

theorem xorBytes_nil_left (b : Bytes) : xorBytes [] b = [] := by simp [xorBytes]

theorem xorBytes_cancel : ∀ (a b : Bytes), a.length ≤ b.length → xorBytes (xorBytes a b) b = a
  | [], _, _ => by simp [xorBytes]
  | x :: a, [], h => by simp at h
  | x :: a, y :: b, h => by
    have ih := xorBytes_cancel a b (by simpa using h)
    simp only [xorBytes, List.zipWith_cons_cons] at ih ⊢
    rw [ih, UInt8.xor_assoc, UInt8.xor_self, UInt8.xor_zero]

theorem xorBytes_cancel_eq (a b : Bytes) (h : a.length = b.length) : xorBytes (xorBytes a b) b = a :=
  xorBytes_cancel a b (by omega)

theorem xorBytes_comm (a b : Bytes) : xorBytes a b = xorBytes b a := by
  unfold xorBytes
  rw [List.zipWith_comm]
  congr 1
  funext x y
  exact UInt8.xor_comm y x

theorem xorBytes_append (a b c d : Bytes) (h : a.length = c.length) :
    xorBytes (a ++ b) (c ++ d) = xorBytes a c ++ xorBytes b d := by
  unfold xorBytes
  exact List.zipWith_append h

theorem xorBytes_take (a b : Bytes) (n : Nat) : xorBytes (a.take n) b = (xorBytes a b).take n := by
  unfold xorBytes
  induction a generalizing b n with
  | nil => simp
  | cons x a ih =>
    cases b with
    | nil => simp
    | cons y b =>
      cases n with
      | zero => simp
      | succ n => simp [ih]

theorem beEnc_length : ∀ (n v : Nat), (beEnc n v).length = n
  | 0, _ => rfl
  | n + 1, v => by simp [beEnc, beEnc_length n]

theorem leEnc_length (n v : Nat) : (leEnc n v).length = n := by simp [leEnc, beEnc_length]

theorem zeroPad_length_mod (n : Nat) (hpos : 0 < n) (m : Bytes) : (zeroPad n m).length % n = 0 := by
  · have hlt := Nat.mod_lt m.length hpos
    have hd := Nat.div_add_mod m.length n
    simp only [zeroPad, List.length_append, zeros_length]
    by_cases h0 : m.length % n = 0
    · simp [h0]
    · have e : (n - m.length % n) % n = n - m.length % n := Nat.mod_eq_of_lt (by omega)
      rw [e]
      have : m.length + (n - m.length % n) = n * (m.length / n + 1) := by
        rw [Nat.mul_add]; omega
      rw [this]; simp

theorem zeroPad16_length_mod (m : Bytes) : (zeroPad16 m).length % 16 = 0 := zeroPad_length_mod 16 (by omega) m

theorem zeroPad_of_aligned (n : Nat) (m : Bytes) (h : m.length % n = 0) : zeroPad n m = m := by
  simp [zeroPad, h, zeros]

/-! ## block maps -/

section blocks
variable {f g : Bytes → Bytes}

theorem mapBlocks_length (hf : ∀ b, (f b).length = 16) : ∀ (n : Nat) (m : Bytes), (mapBlocks f n m).length = 16 * n
  | 0, _ => by simp [mapBlocks]
  | n + 1, m => by simp [mapBlocks, hf, mapBlocks_length hf n]; omega

theorem mapBlocks_inv (hgf : ∀ b, b.length = 16 → g (f b) = b) (hf : ∀ b, (f b).length = 16) :
    ∀ (n : Nat) (m : Bytes), m.length = 16 * n → mapBlocks g n (mapBlocks f n m) = m
  | 0, m, h => by
    have : m = [] := List.eq_nil_of_length_eq_zero (by omega)
    simp [mapBlocks, this]
  | n + 1, m, h => by
    have h1 : (m.take 16).length = 16 := by simp; omega
    have h2 : (m.drop 16).length = 16 * n := by simp; omega
    simp only [mapBlocks]
    rw [List.take_left' (hf _), List.drop_left' (hf _), hgf _ h1, mapBlocks_inv hgf hf n _ h2,
      List.take_append_drop]

theorem streamOf_length (hf : ∀ b, (f b).length = 16) (blk : Nat → Bytes) :
    ∀ (n i : Nat), (streamOf f blk n i).length = 16 * n
  | 0, _ => by simp [streamOf]
  | n + 1, i => by simp [streamOf, hf, streamOf_length hf blk n]; omega

end blocks

theorem blocksFor_ge (len : Nat) : len ≤ 16 * blocksFor len := by unfold blocksFor; omega

/-! ## ECB -/

theorem ecbEncWith_length {enc : Bytes → Bytes} (he : ∀ b, (enc b).length = 16) (m : Bytes) :
    (ecbEncWith enc m).length = 16 * (m.length / 16) := mapBlocks_length he _ _

theorem ecbWith_inv {enc dec : Bytes → Bytes} (hde : ∀ b, b.length = 16 → dec (enc b) = b)
    (he : ∀ b, (enc b).length = 16) (m : Bytes) (hm : m.length % 16 = 0) :
    ecbDecWith dec (ecbEncWith enc m) = m := by
  unfold ecbDecWith
  rw [ecbEncWith_length he]
  unfold ecbEncWith
  have : 16 * (m.length / 16) / 16 = m.length / 16 := by omega
  rw [this]
  exact mapBlocks_inv hde he _ _ (by omega)

/-! ## CBC -/

theorem cbcEncAux_length {enc : Bytes → Bytes} (he : ∀ b, (enc b).length = 16) :
    ∀ (n : Nat) (iv m : Bytes), (cbcEncAux enc n iv m).length = 16 * n
  | 0, _, _ => by simp [cbcEncAux]
  | n + 1, iv, m => by simp [cbcEncAux, he, cbcEncAux_length he n]; omega

theorem cbcAux_inv {enc dec : Bytes → Bytes} (hde : ∀ b, b.length = 16 → dec (enc b) = b)
    (he : ∀ b, (enc b).length = 16) :
    ∀ (n : Nat) (iv m : Bytes), iv.length = 16 → m.length = 16 * n →
      cbcDecAux dec n iv (cbcEncAux enc n iv m) = m
  | 0, iv, m, _, h => by
    have : m = [] := List.eq_nil_of_length_eq_zero (by omega)
    simp [cbcEncAux, cbcDecAux, this]
  | n + 1, iv, m, hiv, h => by
    have h1 : (m.take 16).length = 16 := by simp; omega
    have h2 : (m.drop 16).length = 16 * n := by simp; omega
    have hx : (xorBytes (m.take 16) iv).length = 16 := by simp [hiv]; omega
    simp only [cbcEncAux, cbcDecAux]
    rw [List.take_left' (he _), List.drop_left' (he _), hde _ hx,
      xorBytes_cancel_eq _ _ (by rw [h1, hiv]), cbcAux_inv hde he n _ _ (he _) h2, List.take_append_drop]

theorem cbcEncWith_length {enc : Bytes → Bytes} (he : ∀ b, (enc b).length = 16) (iv m : Bytes) :
    (cbcEncWith enc iv m).length = 16 * (m.length / 16) := cbcEncAux_length he _ _ _

theorem cbcWith_inv {enc dec : Bytes → Bytes} (hde : ∀ b, b.length = 16 → dec (enc b) = b)
    (he : ∀ b, (enc b).length = 16) (iv m : Bytes) (hiv : iv.length = 16) (hm : m.length % 16 = 0) :
    cbcDecWith dec iv (cbcEncWith enc iv m) = m := by
  unfold cbcDecWith
  rw [cbcEncWith_length he]
  unfold cbcEncWith
  have : 16 * (m.length / 16) / 16 = m.length / 16 := by omega
  rw [this]
  exact cbcAux_inv hde he _ _ _ hiv (by omega)

/-! ## counter modes -/

theorem xor_stream_invol (m ks : Bytes) (h : m.length ≤ ks.length) : xorBytes (xorBytes m ks) ks = m :=
  xorBytes_cancel m ks h

theorem ctrXorWith_length {enc : Bytes → Bytes} (he : ∀ b, (enc b).length = 16) (iv m : Bytes) :
    (ctrXorWith enc iv m).length = m.length := by
  have := blocksFor_ge m.length
  simp [ctrXorWith, ctrStream, streamOf_length he]; omega

theorem ctrWith_invol {enc : Bytes → Bytes} (he : ∀ b, (enc b).length = 16) (iv m : Bytes) :
    ctrXorWith enc iv (ctrXorWith enc iv m) = m := by
  have hl := ctrXorWith_length he iv m
  have key : ∀ x : Bytes, x.length = m.length →
      ctrXorWith enc iv x = xorBytes x (ctrStream enc iv (blocksFor m.length) 0) := by
    intro x hx; unfold ctrXorWith; rw [hx]
  rw [key _ hl, key m rfl]
  apply xorBytes_cancel
  have := blocksFor_ge m.length
  simp [ctrStream, streamOf_length he]; omega

/-! ## XTS -/

theorem gfDouble_length (t : Bytes) : (gfDouble t).length = 16 := by simp [gfDouble, leEnc_length]

theorem xtsAux_length {f : Bytes → Bytes} (hf : ∀ b, (f b).length = 16) :
    ∀ (n : Nat) (t m : Bytes), t.length = 16 → (xtsAux f n t m).length = 16 * n
  | 0, _, _, _ => by simp [xtsAux]
  | n + 1, t, m, ht => by
    simp [xtsAux, hf, ht, xtsAux_length hf n _ _ (gfDouble_length t)]; omega

theorem xtsAux_inv {f g : Bytes → Bytes} (hgf : ∀ b, b.length = 16 → g (f b) = b) (hf : ∀ b, (f b).length = 16) :
    ∀ (n : Nat) (t m : Bytes), t.length = 16 → m.length = 16 * n → xtsAux g n t (xtsAux f n t m) = m
  | 0, t, m, _, h => by
    have : m = [] := List.eq_nil_of_length_eq_zero (by omega)
    simp [xtsAux, this]
  | n + 1, t, m, ht, h => by
    have h1 : (m.take 16).length = 16 := by simp; omega
    have h2 : (m.drop 16).length = 16 * n := by simp; omega
    have hx : (xorBytes (m.take 16) t).length = 16 := by simp [ht]; omega
    have hy : (xorBytes (f (xorBytes (m.take 16) t)) t).length = 16 := by simp [hf, ht]
    simp only [xtsAux]
    rw [List.take_left' hy, List.drop_left' hy, xorBytes_cancel_eq _ _ (by rw [hf, ht]), hgf _ hx,
      xorBytes_cancel_eq _ _ (by rw [h1, ht]), xtsAux_inv hgf hf n _ _ (gfDouble_length t) h2,
      List.take_append_drop]

theorem xtsEncWith_length {enc1 enc2 : Bytes → Bytes} (h1 : ∀ b, (enc1 b).length = 16)
    (h2 : ∀ b, (enc2 b).length = 16) (tweak m : Bytes) :
    (xtsEncWith enc1 enc2 tweak m).length = 16 * (m.length / 16) := xtsAux_length h1 _ _ _ (h2 _)

theorem xtsWith_inv {enc1 dec1 enc2 : Bytes → Bytes} (hde : ∀ b, b.length = 16 → dec1 (enc1 b) = b)
    (h1 : ∀ b, (enc1 b).length = 16) (h2 : ∀ b, (enc2 b).length = 16) (tweak m : Bytes)
    (hm : m.length % 16 = 0) : xtsDecWith dec1 enc2 tweak (xtsEncWith enc1 enc2 tweak m) = m := by
  unfold xtsDecWith
  rw [xtsEncWith_length h1 h2]
  unfold xtsEncWith
  have : 16 * (m.length / 16) / 16 = m.length / 16 := by omega
  rw [this]
  exact xtsAux_inv hde h1 _ _ _ (h2 _) (by omega)

/-! ## CCM -/

theorem cbcMacAux_length {enc : Bytes → Bytes} (he : ∀ b, (enc b).length = 16) :
    ∀ (n : Nat) (x m : Bytes), x.length = 16 → (cbcMacAux enc n x m).length = 16
  | 0, _, _, hx => by simpa [cbcMacAux] using hx
  | n + 1, x, m, _ => by simp only [cbcMacAux]; exact cbcMacAux_length he n _ _ (he _)

theorem cbcMac_length {enc : Bytes → Bytes} (he : ∀ b, (enc b).length = 16) (m : Bytes) :
    (cbcMac enc m).length = 16 := cbcMacAux_length he _ _ _ (by simp)

theorem ccmTag_length {enc : Bytes → Bytes} (he : ∀ b, (enc b).length = 16) (nonce aad : Bytes)
    (tagLen : Nat) (m : Bytes) (ht : tagLen ≤ 16) : (ccmTag enc nonce aad tagLen m).length = tagLen := by
  simp [ccmTag, ccmMac, cbcMac_length he, he]; omega

theorem ccmEncWith_length {enc : Bytes → Bytes} (he : ∀ b, (enc b).length = 16) (nonce aad : Bytes)
    (tagLen : Nat) (m : Bytes) (ht : tagLen ≤ 16) :
    (ccmEncWith enc nonce aad tagLen m).length = m.length + tagLen := by
  have := blocksFor_ge m.length
  simp [ccmEncWith, ccmTag_length he _ _ _ _ ht, ccmStream, streamOf_length he]; omega

theorem ccmWith_inv {enc : Bytes → Bytes} (he : ∀ b, (enc b).length = 16) (nonce aad : Bytes)
    (tagLen : Nat) (m : Bytes) (ht : tagLen ≤ 16) :
    ccmDecWith enc nonce aad tagLen (ccmEncWith enc nonce aad tagLen m) = some m := by
  have hb := blocksFor_ge m.length
  have hl := ccmEncWith_length he nonce aad tagLen m ht
  have hbody : (xorBytes m (ccmStream enc nonce (blocksFor m.length))).length = m.length := by
    simp [ccmStream, streamOf_length he]; omega
  unfold ccmDecWith
  rw [hl]
  have e1 : m.length + tagLen - tagLen = m.length := by omega
  simp only [e1, show ¬ (m.length + tagLen < tagLen) by omega, if_false]
  unfold ccmEncWith
  rw [List.take_left' hbody, List.drop_left' hbody, hbody,
    xorBytes_cancel _ _ (by simp [ccmStream, streamOf_length he]; omega)]
  simp

/-! ## RFC 3394 key wrap -/

/-- invariant of the wrap state: `A` is 8 bytes, there are `n` registers of 8 bytes -/
def KwInv (n : Nat) (s : Bytes × List Bytes) : Prop :=
  s.1.length = 8 ∧ s.2.length = n ∧ ∀ r ∈ s.2, r.length = 8

theorem getD_mem_length {n : Nat} {s : Bytes × List Bytes} (h : KwInv n s) {i : Nat} (hi : i < n) :
    (s.2.getD i []).length = 8 := by
  obtain ⟨_, h2, h3⟩ := h
  have hi' : i < s.2.length := by omega
  rw [List.getD_eq_getElem?_getD, List.getElem?_eq_getElem hi']
  exact h3 _ (List.getElem_mem hi')

theorem kwStepEnc_inv {enc : Bytes → Bytes} (he : ∀ b, (enc b).length = 16) {n : Nat}
    {s : Bytes × List Bytes} (h : KwInv n s) (ti : Nat × Nat) : KwInv n (kwStepEnc enc ti s) := by
  obtain ⟨h1, h2, h3⟩ := h
  refine ⟨?_, ?_, ?_⟩
  · simp [kwStepEnc, he, beEnc_length]
  · simp [kwStepEnc, h2]
  · intro r hr
    simp only [kwStepEnc] at hr
    rcases List.mem_or_eq_of_mem_set hr with hr | hr
    · exact h3 r hr
    · subst hr; simp [he]

theorem kwStep_dec_enc {enc dec : Bytes → Bytes} (hde : ∀ b, b.length = 16 → dec (enc b) = b)
    (he : ∀ b, (enc b).length = 16) {n : Nat} {s : Bytes × List Bytes} (h : KwInv n s) (ti : Nat × Nat)
    (hi : ti.2 < n) : kwStepDec dec ti (kwStepEnc enc ti s) = s := by
  have hr := getD_mem_length h hi
  obtain ⟨h1, h2, h3⟩ := h
  have hi' : ti.2 < s.2.length := by omega
  have hb : (s.1 ++ s.2.getD ti.2 []).length = 16 := by rw [List.length_append, h1, hr]
  have hx : xorBytes (xorBytes ((enc (s.1 ++ s.2.getD ti.2 [])).take 8) (beEnc 8 ti.1)) (beEnc 8 ti.1)
      = (enc (s.1 ++ s.2.getD ti.2 [])).take 8 :=
    xorBytes_cancel_eq _ _ (by simp [he, beEnc_length])
  have hget : (s.2.set ti.2 ((enc (s.1 ++ s.2.getD ti.2 [])).drop 8)).getD ti.2 []
      = (enc (s.1 ++ s.2.getD ti.2 [])).drop 8 := by
    rw [List.getD_eq_getElem?_getD, List.getElem?_set_self hi']; rfl
  simp only [kwStepDec, kwStepEnc]
  rw [hx, hget, List.take_append_drop, hde _ hb, List.set_set]
  have e1 : (s.1 ++ s.2.getD ti.2 []).take 8 = s.1 := List.take_left' h1
  have e2 : (s.1 ++ s.2.getD ti.2 []).drop 8 = s.2.getD ti.2 [] := List.drop_left' h1
  rw [e1, e2]
  have e3 : s.2.set ti.2 (s.2.getD ti.2 []) = s.2 := by
    rw [List.getD_eq_getElem?_getD, List.getElem?_eq_getElem hi']
    exact List.set_getElem_self hi'
  rw [e3]

theorem kw_fold_inv {enc dec : Bytes → Bytes} (hde : ∀ b, b.length = 16 → dec (enc b) = b)
    (he : ∀ b, (enc b).length = 16) {n : Nat} :
    ∀ (l : List (Nat × Nat)) (s : Bytes × List Bytes), KwInv n s → (∀ ti ∈ l, ti.2 < n) →
      l.foldr (fun ti s => kwStepDec dec ti s) (l.foldl (fun s ti => kwStepEnc enc ti s) s) = s
  | [], s, _, _ => rfl
  | ti :: l, s, h, hl => by
    simp only [List.foldl_cons, List.foldr_cons]
    rw [kw_fold_inv hde he l _ (kwStepEnc_inv he h ti) (fun t ht => hl t (List.mem_cons_of_mem _ ht))]
    exact kwStep_dec_enc hde he h ti (hl ti List.mem_cons_self)

theorem kw_fold_KwInv {enc : Bytes → Bytes} (he : ∀ b, (enc b).length = 16) {n : Nat} :
    ∀ (l : List (Nat × Nat)) (s : Bytes × List Bytes), KwInv n s →
      KwInv n (l.foldl (fun s ti => kwStepEnc enc ti s) s)
  | [], _, h => h
  | ti :: l, s, h => by
    simp only [List.foldl_cons]
    exact kw_fold_KwInv he l _ (kwStepEnc_inv he h ti)

/-- chunking a multiple of `n` bytes: `k` pieces of exactly `n` bytes that concatenate back -/
theorem chunksF_spec (n : Nat) (hn : 0 < n) :
    ∀ (k f : Nat) (l : Bytes), l.length = n * k → k ≤ f →
      (chunksF n f l).length = k ∧ (∀ r ∈ chunksF n f l, r.length = n) ∧ (chunksF n f l).flatten = l
  | 0, f, l, hl, _ => by
    have : l = [] := List.eq_nil_of_length_eq_zero (by simpa using hl)
    subst this
    cases f <;> simp [chunksF]
  | k + 1, 0, _, _, hf => by omega
  | k + 1, f + 1, l, hl, hf => by
    have hpos : 0 < l.length := by rw [hl]; exact Nat.mul_pos hn (by omega)
    have hne : l.isEmpty = false := by
      cases l with
      | nil => simp at hpos
      | cons _ _ => rfl
    have hle : n ≤ l.length := by rw [hl, Nat.mul_add]; omega
    have hd : (l.drop n).length = n * k := by simp [hl, Nat.mul_add]
    obtain ⟨i1, i2, i3⟩ := chunksF_spec n hn k f (l.drop n) hd (by omega)
    simp only [chunksF, hne, Bool.false_eq_true, if_false]
    refine ⟨by simp [i1], ?_, ?_⟩
    · intro r hr
      rcases List.mem_cons.mp hr with hr | hr
      · subst hr; simp; omega
      · exact i2 r hr
    · simp [i3]

theorem chunks_spec (n : Nat) (hn : 0 < n) (k : Nat) (l : Bytes) (hl : l.length = n * k) :
    (chunks n l).length = k ∧ (∀ r ∈ chunks n l, r.length = n) ∧ (chunks n l).flatten = l := by
  apply chunksF_spec n hn k l.length l hl
  rw [hl]
  exact Nat.le_mul_of_pos_left k hn

theorem kwSteps_idx (n : Nat) (hn : 0 < n) : ∀ ti ∈ kwSteps n, ti.2 < n := by
  intro ti h
  simp only [kwSteps, List.mem_map, List.mem_range] at h
  obtain ⟨s, _, rfl⟩ := h
  exact Nat.mod_lt _ hn

theorem flatten_length8 : ∀ (r : List Bytes), (∀ x ∈ r, x.length = 8) → r.flatten.length = 8 * r.length
  | [], _ => rfl
  | x :: r, h => by
    simp [h x List.mem_cons_self, flatten_length8 r (fun y hy => h y (List.mem_cons_of_mem _ hy))]
    omega

theorem kwWrapWith_length {enc : Bytes → Bytes} (he : ∀ b, (enc b).length = 16) (iv p : Bytes)
    (hiv : iv.length = 8) (hp : p.length % 8 = 0) : (kwWrapWith enc iv p).length = p.length + 8 := by
  obtain ⟨c1, c2, _⟩ := chunks_spec 8 (by omega) (p.length / 8) p (by omega)
  have hinv : KwInv (p.length / 8) (iv, chunks 8 p) := ⟨hiv, c1, c2⟩
  have := kw_fold_KwInv he (kwSteps (chunks 8 p).length) _ hinv
  obtain ⟨f1, f2, f3⟩ := this
  simp only [kwWrapWith, List.length_append]
  rw [flatten_length8 _ f3, f1, f2]
  omega

theorem kwWith_inv {enc dec : Bytes → Bytes} (hde : ∀ b, b.length = 16 → dec (enc b) = b)
    (he : ∀ b, (enc b).length = 16) (iv p : Bytes) (hiv : iv.length = 8)
    (hp : p.length % 8 = 0) (hp16 : 16 ≤ p.length) :
    kwUnwrapWith dec iv (kwWrapWith enc iv p) = some p := by
  have hlen := kwWrapWith_length he iv p hiv hp
  obtain ⟨c1, c2, c3⟩ := chunks_spec 8 (by omega) (p.length / 8) p (by omega)
  have hinv : KwInv (p.length / 8) (iv, chunks 8 p) := ⟨hiv, c1, c2⟩
  have hfin := kw_fold_KwInv he (kwSteps (chunks 8 p).length) _ hinv
  obtain ⟨f1, f2, f3⟩ := hfin
  unfold kwUnwrapWith
  rw [hlen]
  have hc : ¬ (p.length + 8 < 24 ∨ (p.length + 8) % 8 ≠ 0) := by omega
  simp only [hc, if_false]
  unfold kwWrapWith
  simp only []
  rw [List.take_left' f1, List.drop_left' f1]
  -- re-chunking the flattened registers gives the registers back
  have hre : chunks 8 ((List.foldl (fun s ti => kwStepEnc enc ti s) (iv, chunks 8 p)
      (kwSteps (chunks 8 p).length)).2.flatten)
      = (List.foldl (fun s ti => kwStepEnc enc ti s) (iv, chunks 8 p) (kwSteps (chunks 8 p).length)).2 := by
    apply chunks_flatten8 _ f3
  rw [hre, f2, ← c1]
  rw [kw_fold_inv hde he _ _ hinv (by rw [c1]; exact kwSteps_idx _ (by omega))]
  simp [c3]
where
  chunks_flatten8 : ∀ (r : List Bytes), (∀ x ∈ r, x.length = 8) → chunks 8 r.flatten = r := by
    intro r
    unfold chunks
    suffices h : ∀ (f : Nat) (r : List Bytes), (∀ x ∈ r, x.length = 8) → r.length ≤ f → chunksF 8 f r.flatten = r by
      intro hr
      apply h _ r hr
      rw [flatten_length8 r hr]; omega
    intro f
    induction f with
    | zero => intro r _ hl; have : r = [] := List.eq_nil_of_length_eq_zero (by omega); simp [this, chunksF]
    | succ f ih =>
      intro r hr hl
      cases r with
      | nil => simp [chunksF]
      | cons x r =>
        have hx := hr x List.mem_cons_self
        have hne : (x ++ r.flatten).isEmpty = false := by
          cases x with
          | nil => simp at hx
          | cons _ _ => rfl
        simp only [List.flatten_cons, chunksF, hne, Bool.false_eq_true, if_false]
        rw [List.take_left' hx, List.drop_left' hx,
          ih r (fun y hy => hr y (List.mem_cons_of_mem _ hy)) (by simpa using hl)]

/-! ## MAC / KDF lengths -/

theorem cmacWith_length {enc : Bytes → Bytes} (he : ∀ b, (enc b).length = 16) (m : Bytes) :
    (cmacWith enc m).length = 16 := cbcMac_length he _

/-! ## the `CryptoOps` forms -/

section ops
variable {c : CryptoOps}

theorem ecbEnc_length (h : CryptoLaws c) (k m : Bytes) : (ecbEnc c k m).length = 16 * (m.length / 16) :=
  ecbEncWith_length (h.enc_len k) m

/-- ECB: decrypt ∘ encrypt = id on block multiples, every key -/
theorem ecb_inv (h : CryptoLaws c) (k m : Bytes) (hm : m.length % 16 = 0) : ecbDec c k (ecbEnc c k m) = m :=
  ecbWith_inv (h.dec_enc k) (h.enc_len k) m hm

theorem cbcEnc_length (h : CryptoLaws c) (k iv m : Bytes) : (cbcEnc c k iv m).length = 16 * (m.length / 16) :=
  cbcEncWith_length (h.enc_len k) iv m

/-- CBC: decrypt ∘ encrypt = id on block multiples, every key and 16-byte IV -/
theorem cbc_inv (h : CryptoLaws c) (k iv m : Bytes) (hiv : iv.length = 16) (hm : m.length % 16 = 0) :
    cbcDec c k iv (cbcEnc c k iv m) = m :=
  cbcWith_inv (h.dec_enc k) (h.enc_len k) iv m hiv hm

/-- CBC with SPSDK's zero padding: any message length; the result is the zero-padded message -/
theorem cbc_inv_pad (h : CryptoLaws c) (k iv m : Bytes) (hiv : iv.length = 16) :
    cbcDec c k iv (cbcEnc c k iv (zeroPad16 m)) = zeroPad16 m :=
  cbc_inv h k iv _ hiv (zeroPad16_length_mod m)

theorem sm4cbc_inv (h : Sm4Laws c) (k iv m : Bytes) (hiv : iv.length = 16) (hm : m.length % 16 = 0) :
    sm4CbcDec c k iv (sm4CbcEnc c k iv m) = m :=
  cbcWith_inv (h.dec_enc k) (h.enc_len k) iv m hiv hm

theorem sm4cbc_inv_pad (h : Sm4Laws c) (k iv m : Bytes) (hiv : iv.length = 16) :
    sm4CbcDec c k iv (sm4CbcEnc c k iv (zeroPad16 m)) = zeroPad16 m :=
  sm4cbc_inv h k iv _ hiv (zeroPad16_length_mod m)

theorem ctrXor_length (h : CryptoLaws c) (k iv m : Bytes) : (ctrXor c k iv m).length = m.length :=
  ctrXorWith_length (h.enc_len k) iv m

/-- CTR is an involution: every key, every counter block, every message length -/
theorem ctr_invol (h : CryptoLaws c) (k iv m : Bytes) : ctrXor c k iv (ctrXor c k iv m) = m :=
  ctrWith_invol (h.enc_len k) iv m

theorem xtsEnc_length (h : CryptoLaws c) (k1 k2 t m : Bytes) :
    (xtsEnc c k1 k2 t m).length = 16 * (m.length / 16) :=
  xtsEncWith_length (h.enc_len k1) (h.enc_len k2) t m

/-- XTS (no stealing): every key pair, tweak, block-multiple data unit -/
theorem xts_inv (h : CryptoLaws c) (k1 k2 t m : Bytes) (hm : m.length % 16 = 0) :
    xtsDec c k1 k2 t (xtsEnc c k1 k2 t m) = m :=
  xtsWith_inv (h.dec_enc k1) (h.enc_len k1) (h.enc_len k2) t m hm

theorem ccmEnc_length (h : CryptoLaws c) (k n a : Bytes) (t : Nat) (m : Bytes) (ht : t ≤ 16) :
    (ccmEnc c k n a t m).length = m.length + t :=
  ccmEncWith_length (h.enc_len k) n a t m ht

/-- CCM: decrypt-and-verify of an encryption returns the plaintext — every key, nonce, AAD, tag length ≤ 16, message -/
theorem ccm_inv (h : CryptoLaws c) (k n a : Bytes) (t : Nat) (m : Bytes) (ht : t ≤ 16) :
    ccmDec c k n a t (ccmEnc c k n a t m) = some m :=
  ccmWith_inv (h.enc_len k) n a t m ht

theorem kwWrap_length (h : CryptoLaws c) (kek p : Bytes) (hp : p.length % 8 = 0) :
    (kwWrap c kek p).length = p.length + 8 :=
  kwWrapWith_length (h.enc_len kek) _ p (by simp [kwDefaultIV]) hp

/-- RFC 3394: unwrap ∘ wrap = some, every KEK, every key of ≥ 16 bytes that is a multiple of 8 -/
theorem kw_inv (h : CryptoLaws c) (kek p : Bytes) (hp : p.length % 8 = 0) (hp16 : 16 ≤ p.length) :
    kwUnwrap c kek (kwWrap c kek p) = some p :=
  kwWith_inv (h.dec_enc kek) (h.enc_len kek) _ p (by simp [kwDefaultIV]) hp hp16

theorem cmac_length (h : CryptoLaws c) (k m : Bytes) : (cmac c k m).length = 16 :=
  cmacWith_length (h.enc_len k) m

theorem hmac_length (h : CryptoLaws c) (a : HashAlg) (k m : Bytes) : (hmac c a k m).length = a.size := by
  simp [hmac, h.hash_len]

theorem hkdfExpandAux_length (h : CryptoLaws c) (a : HashAlg) (prk info : Bytes) :
    ∀ (n i : Nat) (prev : Bytes), (hkdfExpandAux c a prk info n i prev).length = a.size * n
  | 0, _, _ => by simp [hkdfExpandAux]
  | n + 1, i, prev => by
    simp only [hkdfExpandAux, List.length_append, hmac_length h, hkdfExpandAux_length h a prk info n]
    rw [Nat.mul_add]; omega

theorem hkdf_length (h : CryptoLaws c) (a : HashAlg) (salt ikm info : Bytes) (len : Nat) :
    (hkdf c a salt ikm info len).length = len := by
  have hs : 0 < a.size := by cases a <;> simp [HashAlg.size]
  simp only [hkdf, hkdfExpand, List.length_take, hkdfExpandAux_length h]
  have := Nat.div_add_mod (len + a.size - 1) a.size
  have := Nat.mod_lt (len + a.size - 1) hs
  apply Nat.min_eq_left
  -- len ≤ size * ((len + size - 1) / size)
  omega

end ops

/-! ## structure of HMAC / HKDF / CMAC beyond unfolding (additions, phase 2) -/

section macs
variable {c : CryptoOps}

theorem hashSize_le_block (a : HashAlg) : a.size ≤ a.blockSize := by
  cases a <;> simp [HashAlg.size, HashAlg.blockSize]

/-- RFC 2104 key normalisation: a key longer than one block is replaced by its digest -/
theorem hmac_long_key (h : CryptoLaws c) (a : HashAlg) (k m : Bytes) (hk : k.length > a.blockSize) :
    hmac c a k m = hmac c a (c.hash a k) m := by
  have hs := hashSize_le_block a
  have e : hmacKey0 c a k = hmacKey0 c a (c.hash a k) := by
    have : ¬ a.size > a.blockSize := by omega
    simp only [hmacKey0, hk, if_true, h.hash_len, this, if_false]
  simp only [hmac, e]

/-- … and a key of at most one block may be extended by zero bytes up to the block size without changing the MAC -/
theorem hmac_key_zero_pad (a : HashAlg) (k m : Bytes) (j : Nat) (hk : k.length + j ≤ a.blockSize) :
    hmac c a (k ++ zeros j) m = hmac c a k m := by
  have e : hmacKey0 c a (k ++ zeros j) = hmacKey0 c a k := by
    have h1 : ¬ (k.length + j > a.blockSize) := by omega
    have h2 : ¬ k.length > a.blockSize := by omega
    have h3 : a.blockSize - (k.length + j) = (a.blockSize - k.length) - j := by omega
    have h4 : j + (a.blockSize - k.length - j) = a.blockSize - k.length := by omega
    simp only [hmacKey0, zeros, List.length_append, List.length_replicate, h1, h2, if_false, List.append_assoc,
      List.replicate_append_replicate, h3, h4]
  simp only [hmac, e]

/-- RFC 5869 §2.2: an absent / empty salt is a string of `HashLen` zeros — and under HMAC that is the empty key -/
theorem hkdfExtract_empty_salt (a : HashAlg) (ikm : Bytes) :
    hkdfExtract c a [] ikm = hmac c a (zeros a.size) ikm ∧ hkdfExtract c a [] ikm = hmac c a [] ikm := by
  have := hmac_key_zero_pad (c := c) a [] ikm a.size (by simpa using hashSize_le_block a)
  simp only [List.nil_append] at this
  exact ⟨by simp [hkdfExtract], by simp [hkdfExtract, this]⟩

theorem hkdfExpandAux_take (h : CryptoLaws c) (a : HashAlg) (prk info : Bytes) :
    ∀ (n k i : Nat) (prev : Bytes),
      (hkdfExpandAux c a prk info (n + k) i prev).take (a.size * n) = hkdfExpandAux c a prk info n i prev
  | 0, _, _, _ => by simp [hkdfExpandAux]
  | n + 1, k, i, prev => by
    have e : n + 1 + k = (n + k) + 1 := by omega
    have hl : (hmac c a prk (prev ++ info ++ [UInt8.ofNat i])).length = a.size := hmac_length h a prk _
    rw [e]
    simp only [hkdfExpandAux]
    rw [List.take_append, hl, List.take_of_length_le (by rw [hl]; rw [Nat.mul_add]; omega)]
    have e2 : a.size * (n + 1) - a.size = a.size * n := by rw [Nat.mul_add]; omega
    rw [e2, hkdfExpandAux_take h a prk info n k]

/-- HKDF output for a shorter length is a prefix of the output for a longer one (same salt, IKM, info) -/
theorem hkdf_prefix (h : CryptoLaws c) (a : HashAlg) (salt ikm info : Bytes) (len len' : Nat) (hl : len ≤ len') :
    hkdf c a salt ikm info len = (hkdf c a salt ikm info len').take len := by
  have hs : 0 < a.size := by cases a <;> simp [HashAlg.size]
  simp only [hkdf, hkdfExpand]
  generalize hkdfExtract c a salt ikm = prk
  have hn : (len + a.size - 1) / a.size ≤ (len' + a.size - 1) / a.size := Nat.div_le_div_right (by omega)
  obtain ⟨k, hk⟩ := Nat.exists_eq_add_of_le hn
  have ht := hkdfExpandAux_take h a prk info ((len + a.size - 1) / a.size) k 1 []
  rw [← hk] at ht
  rw [← ht, List.take_take, List.take_take]
  have h1 := Nat.div_add_mod (len + a.size - 1) a.size
  have h2 := Nat.mod_lt (len + a.size - 1) hs
  have : len ≤ a.size * ((len + a.size - 1) / a.size) := by omega
  congr 1
  omega

/-- the first block of output keying material is `HMAC(PRK, info ‖ 0x01)` -/
theorem hkdf_first_block (a : HashAlg) (salt ikm info : Bytes) (len : Nat) (h0 : 0 < len) (h1 : len ≤ a.size) :
    hkdf c a salt ikm info len = (hmac c a (hkdfExtract c a salt ikm) (info ++ [1])).take len := by
  have e : (len + a.size - 1) / a.size = 1 := by
    apply Nat.div_eq_of_lt_le <;> omega
  simp [hkdf, hkdfExpand, e, hkdfExpandAux]

/-- SP 800-38B, complete final block: mask with K1 = dbl(E_K(0)) -/
theorem cmacWith_complete (enc : Bytes → Bytes) (m : Bytes) (n : Nat) (hn : 0 < n) (hm : m.length = 16 * n) :
    cmacWith enc m = cbcMac enc (m.take (16 * (n - 1)) ++
      xorBytes (m.drop (16 * (n - 1))) (cmacDbl (enc (zeros 16)))) := by
  have h0 : m.length ≠ 0 := by omega
  have hb : blocksFor m.length = n := by unfold blocksFor; omega
  have hl : (m.drop (16 * (n - 1))).length = 16 := by simp; omega
  simp [cmacWith, h0, hb, hl]

/-- SP 800-38B, incomplete (or absent) final block: pad `10…0`, mask with K2 = dbl(K1) -/
theorem cmacWith_partial (enc : Bytes → Bytes) (m : Bytes) (hm : m.length % 16 ≠ 0 ∨ m.length = 0) :
    cmacWith enc m = cbcMac enc (m.take (16 * (m.length / 16)) ++
      xorBytes (m.drop (16 * (m.length / 16)) ++ [0x80] ++ zeros (15 - m.length % 16))
        (cmacDbl (cmacDbl (enc (zeros 16))))) := by
  by_cases h0 : m.length = 0
  · have : m = [] := List.eq_nil_of_length_eq_zero h0
    subst this
    simp [cmacWith]
  · have hr : m.length % 16 ≠ 0 := by
      rcases hm with h | h
      · exact h
      · exact absurd h h0
    have hb : blocksFor m.length - 1 = m.length / 16 := by unfold blocksFor; omega
    have hl : (m.drop (16 * (m.length / 16))).length = m.length % 16 := by simp; omega
    have hne : ¬ m.length % 16 = 16 := by omega
    simp [cmacWith, h0, hb, hl, hne]

theorem cmacDbl_length (b : Bytes) : (cmacDbl b).length = 16 := by simp [cmacDbl, beEnc_length]

end macs

end SpsdkVerif.Crypto
