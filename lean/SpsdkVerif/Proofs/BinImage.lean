/- Helper lemmas for Properties/C16.lean. -/
import SpsdkVerif.Model.BinImage

namespace SpsdkVerif.BinImg

end SpsdkVerif.BinImg
