/- Helper lemmas for Properties/C16.lean. -/
import SpsdkVerif.Model.BinImage
import SpsdkVerif.Proofs.Misc

namespace SpsdkVerif.BinImg
open SpsdkVerif SpsdkVerif.Misc

/-- structural induction over the nested inductive `Img` -/
theorem Img.induct' (P : Img → Prop)
    (h : ∀ s o a b p ch, (∀ c ∈ ch, P c) → P (.mk s o a b p ch)) : ∀ i, P i :=
  fun i => Img.rec (motive_1 := P) (motive_2 := fun l => ∀ c ∈ l, P c)
    (fun s o a b p ch ih => h s o a b p ch ih) (by intro c hc; cases hc)
    (fun hd tl ih1 ih2 => by
      intro c hc
      rcases List.mem_cons.1 hc with rfl | h'
      · exact ih1
      · exact ih2 c h') i

/-! ### patterns, alignment -/

theorem block_length (p : Pattern) (n : Nat) : (p.block n).length = n := by
  cases p <;> simp [Pattern.block, cycleTake_length]

theorem patBlock_length (p : Option Pattern) (n : Nat) : (patBlock p n).length = n := by
  cases p <;> simp [patBlock, block_length]

theorem patBlock_zero (p : Option Pattern) : patBlock p 0 = [] :=
  List.eq_nil_of_length_eq_zero (patBlock_length p 0)

theorem cycleTake_add (p : Bytes) (n m i : Nat) :
    cycleTake p (n + m) i = cycleTake p n i ++ cycleTake p m (i + n) := by
  induction n generalizing i with
  | zero => simp [cycleTake]
  | succ n ih =>
    have : n + 1 + m = (n + m) + 1 := by omega
    rw [this, cycleTake, cycleTake, ih]
    simp [Nat.add_assoc, Nat.add_comm 1 n]

theorem patBlock_add (p : Option Pattern) (n m : Nat) :
    ∃ ext, patBlock p (n + m) = patBlock p n ++ ext ∧ ext.length = m := by
  cases p with
  | none => exact ⟨List.replicate m 0, by simp [patBlock, List.replicate_append_replicate], by simp⟩
  | some p =>
    cases p with
    | zeros =>
      exact ⟨List.replicate m 0, by simp [patBlock, Pattern.block, List.replicate_append_replicate], by simp⟩
    | ones =>
      exact ⟨List.replicate m 0xFF, by simp [patBlock, Pattern.block, List.replicate_append_replicate], by simp⟩
    | inc =>
      refine ⟨((List.range' n m)).map (fun i => UInt8.ofNat (i % 256)), ?_, by simp⟩
      simp only [patBlock, Pattern.block]
      rw [← List.map_append]
      congr 1
      have := @List.range'_append_1 0 n m
      simpa [List.range_eq_range'] using this.symm
    | num v =>
      refine ⟨cycleTake (beEnc (max (byteLen v) 1) v) m (0 + n), ?_, by simp [cycleTake_length]⟩
      simp only [patBlock, Pattern.block]
      exact cycleTake_add _ _ _ _

theorem alignNat_one (n : Nat) : alignNat n 1 = n := by simp [alignNat]

theorem alignNat_of_mod (n a : Nat) (ha : 0 < a) (h : n % a = 0) : alignNat n a = n := by
  have e2 := Nat.mod_add_div n a
  rw [h] at e2
  generalize n / a = q at e2
  subst e2
  unfold alignNat
  rw [Nat.zero_add, Nat.mul_add_div ha, Nat.div_eq_of_lt (by omega), Nat.add_zero, Nat.mul_comm]

/-! ### `blit`, `ownBuf` -/

theorem blit_ok (buf : Bytes) (off : Nat) (d : Bytes) (h : off + d.length ≤ buf.length) :
    ∃ buf', blit buf off d = .ok buf' ∧ buf'.length = buf.length ∧
      ∀ k, buf'[k]? = if off ≤ k ∧ k < off + d.length then d[k - off]? else buf[k]? := by
  unfold blit
  by_cases hd : d = []
  · subst hd
    refine ⟨buf, by simp, rfl, ?_⟩
    intro k
    have : ¬ (off ≤ k ∧ k < off + ([] : Bytes).length) := by simp
    rw [if_neg this]
  · have hd' : d.isEmpty = false := by cases d <;> simp_all
    refine ⟨buf.take off ++ d ++ buf.drop (off + d.length), by simp [hd', h], ?_, ?_⟩
    · simp; omega
    · intro k
      have hl : (buf.take off).length = off := by simp; omega
      by_cases h1 : k < off
      · have : ¬ (off ≤ k ∧ k < off + d.length) := by omega
        rw [if_neg this, List.append_assoc, List.getElem?_append_left (by omega), List.getElem?_take]
        simp [h1]
      · by_cases h2 : k < off + d.length
        · rw [if_pos ⟨by omega, h2⟩, List.append_assoc, List.getElem?_append_right (by omega), hl,
            List.getElem?_append_left (by omega)]
        · have : ¬ (off ≤ k ∧ k < off + d.length) := by omega
          rw [if_neg this, List.getElem?_append_right (by simp; omega), List.getElem?_drop]
          congr 1
          simp; omega

theorem blit_spec (buf : Bytes) (off : Nat) (d buf' : Bytes) (h : blit buf off d = .ok buf') :
    buf'.length = buf.length ∧ (d ≠ [] → off + d.length ≤ buf.length) := by
  unfold blit at h
  by_cases hd : d = []
  · subst hd
    simp at h; subst h; simp
  · have hd' : d.isEmpty = false := by cases d <;> simp_all
    simp only [hd', Bool.false_eq_true, if_false] at h
    by_cases hf : off + d.length ≤ buf.length
    · rw [if_pos hf] at h
      cases h
      refine ⟨by simp; omega, fun _ => hf⟩
    · rw [if_neg hf] at h; cases h

theorem blit_append (buf : Bytes) (off : Nat) (d buf' ext : Bytes) (h : blit buf off d = .ok buf') :
    blit (buf ++ ext) off d = .ok (buf' ++ ext) := by
  unfold blit at h ⊢
  by_cases hd : d = []
  · subst hd
    simp at h ⊢; subst h; rfl
  · have hd' : d.isEmpty = false := by cases d <;> simp_all
    simp only [hd', Bool.false_eq_true, if_false] at h ⊢
    by_cases hf : off + d.length ≤ buf.length
    · rw [if_pos hf] at h
      cases h
      rw [if_pos (by simp; omega)]
      congr 1
      rw [List.take_append_of_le_length (by omega), List.drop_append_of_le_length (by omega)]
      simp
    · rw [if_neg hf] at h; cases h

theorem ownBuf_length (L : Nat) (bin : Option Bytes) (pat : Option Pattern) (h : binLen bin ≤ L) :
    (ownBuf L bin pat).length = L := by
  unfold ownBuf
  cases bin with
  | none => simp [patBlock_length]
  | some b =>
    simp only [binLen] at h
    by_cases hb : b.isEmpty
    · simp [hb, patBlock_length]
    · simp [hb, patBlock_length]; omega

theorem ownBuf_get_bin (L : Nat) (b : Bytes) (pat : Option Pattern) (k : Nat) (hk : k < b.length) :
    (ownBuf L (some b) pat)[k]? = b[k]? := by
  unfold ownBuf
  have hb : b.isEmpty = false := by cases b <;> simp_all
  simp only [hb, Bool.false_eq_true, if_false]
  rw [List.getElem?_append_left hk]

theorem ownBuf_get_fill (L : Nat) (bin : Option Bytes) (pat : Option Pattern) (k : Nat)
    (hk : binLen bin ≤ k) : (ownBuf L bin pat)[k]? = (patBlock pat L)[k]? := by
  unfold ownBuf
  cases bin with
  | none => rfl
  | some b =>
    simp only [binLen] at hk
    by_cases hb : b.isEmpty
    · simp [hb]
    · have hb' : b.isEmpty = false := by simpa using hb
      simp only [hb', Bool.false_eq_true, if_false]
      rw [List.getElem?_append_right hk, List.getElem?_drop]
      congr 1; omega

theorem ownBuf_add (M m : Nat) (bin : Option Bytes) (pat : Option Pattern) (h : binLen bin ≤ M) :
    ∃ ext, ownBuf (M + m) bin pat = ownBuf M bin pat ++ ext ∧ ext.length = m := by
  obtain ⟨ext, he, hl⟩ := patBlock_add pat M m
  refine ⟨ext, ?_, hl⟩
  unfold ownBuf
  cases bin with
  | none => exact he
  | some b =>
    simp only [binLen] at h
    by_cases hb : b.isEmpty
    · simp [hb, he]
    · have hb' : b.isEmpty = false := by simpa using hb
      simp only [hb', Bool.false_eq_true, if_false, he]
      rw [List.drop_append_of_le_length (by rw [patBlock_length]; exact h), List.append_assoc]

/-! ### validation -/

/-- interval overlap of two siblings, on raw numbers -/
def Ov (cb cl sb sl : Nat) : Prop := cb < sb + sl ∧ sb < cb + cl

theorem overlapsAny_false (b l : Nat) (sibs : List (Nat × Nat)) :
    overlapsAny b l sibs = false ↔ ∀ s ∈ sibs, ¬ Ov b l s.1 s.2 := by
  induction sibs with
  | nil => simp [overlapsAny]
  | cons s rest ih =>
    obtain ⟨sb, sl⟩ := s
    simp only [overlapsAny, List.mem_cons, forall_eq_or_imp, Ov]
    by_cases h : ((b : Int) + l - 1 < sb ∨ (b : Int) > sb + sl - 1)
    · rw [if_pos h, ih]
      simp only [Ov]
      constructor
      · intro h'; exact ⟨by omega, h'⟩
      · intro h'; exact h'.2
    · rw [if_neg h]
      simp only [Bool.true_eq_false, false_iff, not_and]
      intro h'; omega

theorem mem_append_iff_idx (before rest : List Img) (c s : Img) :
    s ∈ before ++ rest ↔ ∃ j, j ≠ before.length ∧ (before ++ c :: rest)[j]? = some s := by
  constructor
  · intro h
    rcases List.mem_append.1 h with h | h
    · obtain ⟨j, hj⟩ := List.mem_iff_getElem?.1 h
      have hlt : j < before.length := (List.getElem?_eq_some_iff.1 hj).1
      exact ⟨j, by omega, by rw [List.getElem?_append_left hlt]; exact hj⟩
    · obtain ⟨j, hj⟩ := List.mem_iff_getElem?.1 h
      refine ⟨before.length + 1 + j, by omega, ?_⟩
      rw [List.getElem?_append_right (by omega)]
      have : before.length + 1 + j - before.length = j + 1 := by omega
      rw [this, List.getElem?_cons_succ]; exact hj
  · rintro ⟨j, hne, hj⟩
    by_cases hlt : j < before.length
    · rw [List.getElem?_append_left hlt] at hj
      exact List.mem_append_left _ (List.mem_of_getElem? hj)
    · rw [List.getElem?_append_right (by omega)] at hj
      obtain ⟨i, hi⟩ : ∃ i, j - before.length = i + 1 := ⟨j - before.length - 1, by omega⟩
      rw [hi, List.getElem?_cons_succ] at hj
      exact List.mem_append_right _ (List.mem_of_getElem? hj)

theorem validateChildren_ok_iff (pl : Nat) (all before rest : List Img) :
    validateChildren pl all before rest = .ok () ↔
      (∀ c ∈ rest, c.validate = .ok () ∧ c.offset + c.len ≤ pl) ∧
      (∀ k j c s, rest[k]? = some c → (before ++ rest)[j]? = some s → j ≠ before.length + k →
        ¬ Ov c.offset c.len s.offset s.len) := by
  induction rest generalizing before with
  | nil => simp [validateChildren]
  | cons c rest ih =>
    rw [validateChildren]
    cases hv : c.validate with
    | error e =>
      simp only []
      constructor
      · intro h; cases h
      · intro h; have := (h.1 c (by simp)).1; rw [hv] at this; cases this
    | ok u =>
      cases u
      simp only []
      by_cases hs : ((c.offset : Int) + c.len - 1 ≥ pl)
      · rw [if_pos hs]
        constructor
        · intro h; cases h
        · intro h; have := (h.1 c (by simp)).2; omega
      · rw [if_neg hs]
        cases ho : overlapsAny c.offset c.len ((before ++ rest).map (fun s => (s.offset, s.len))) with
        | true =>
          simp only [if_true]
          constructor
          · intro h; cases h
          · intro h
            have hf : overlapsAny c.offset c.len ((before ++ rest).map (fun s => (s.offset, s.len))) = false := by
              rw [overlapsAny_false]
              intro s hs'
              obtain ⟨x, hx, rfl⟩ := List.mem_map.1 hs'
              obtain ⟨j, hj1, hj2⟩ := (mem_append_iff_idx before rest c x).1 hx
              exact h.2 0 j c x (by simp) hj2 (by omega)
            rw [hf] at ho; cases ho
        | false =>
          simp only [Bool.false_eq_true, if_false]
          rw [ih]
          rw [overlapsAny_false] at ho
          constructor
          · rintro ⟨h1, h2⟩
            refine ⟨?_, ?_⟩
            · intro c' hc'
              rcases List.mem_cons.1 hc' with rfl | hc'
              · exact ⟨hv, by omega⟩
              · exact h1 c' hc'
            · intro k j c' s hk hj hne
              cases k with
              | zero =>
                have hk' : c = c' := by simpa using hk
                subst hk'
                have : s ∈ before ++ rest := (mem_append_iff_idx before rest c s).2 ⟨j, by omega, hj⟩
                exact ho (s.offset, s.len) (List.mem_map.2 ⟨s, this, rfl⟩)
              | succ k =>
                rw [List.getElem?_cons_succ] at hk
                refine h2 k j c' s hk ?_ ?_
                · rw [List.append_assoc]; exact hj
                · simp; omega
          · rintro ⟨h1, h2⟩
            refine ⟨fun c' hc' => h1 c' (List.mem_cons_of_mem _ hc'), ?_⟩
            intro k j c' s hk hj hne
            refine h2 (k + 1) j c' s (by rw [List.getElem?_cons_succ]; exact hk) ?_ ?_
            · rw [List.append_assoc] at hj; exact hj
            · simp at hne; omega

/-- no two children at distinct positions overlap -/
def NoOverlapIdx (l : List Img) : Prop :=
  ∀ (a b : Nat) (ca cb : Img), a ≠ b → l[a]? = some ca → l[b]? = some cb → ¬ Ov ca.offset ca.len cb.offset cb.len

theorem validate_ok_iff (s o al : Nat) (bin : Option Bytes) (pat : Option Pattern) (ch : List Img) :
    (Img.mk s o al bin pat ch).validate = .ok () ↔
      binLen bin ≤ (Img.mk s o al bin pat ch).len ∧
      (∀ c ∈ ch, c.validate = .ok () ∧ c.offset + c.len ≤ (Img.mk s o al bin pat ch).len) ∧
      NoOverlapIdx ch := by
  rw [Img.validate]
  by_cases h : binLen bin > (Img.mk s o al bin pat ch).len
  · rw [if_pos h]
    constructor
    · intro h'; cases h'
    · intro h'; omega
  · rw [if_neg h, validateChildren_ok_iff]
    simp only [List.nil_append, List.length_nil, Nat.zero_add, NoOverlapIdx]
    constructor
    · rintro ⟨h1, h2⟩
      exact ⟨by omega, h1, fun a b ca cb hab ha hb => h2 a b ca cb ha hb (by omega)⟩
    · rintro ⟨_, h1, h2⟩
      exact ⟨h1, fun k j c s hk hj hne => h2 k j c s (by omega) hk hj⟩

/-! ### export -/

theorem NoOverlapIdx.tail {c : Img} {cs : List Img} (h : NoOverlapIdx (c :: cs)) : NoOverlapIdx cs :=
  fun a b ca cb hab ha hb =>
    h (a + 1) (b + 1) ca cb (by omega) (by rw [List.getElem?_cons_succ]; exact ha)
      (by rw [List.getElem?_cons_succ]; exact hb)

theorem NoOverlapIdx.head {c : Img} {cs : List Img} (h : NoOverlapIdx (c :: cs)) :
    ∀ s ∈ cs, ¬ Ov c.offset c.len s.offset s.len := by
  intro s hs
  obtain ⟨j, hj⟩ := List.mem_iff_getElem?.1 hs
  exact h 0 (j + 1) c s (by omega) (by simp) (by rw [List.getElem?_cons_succ]; exact hj)

theorem placeChildren_spec (ch : List Img) (buf : Bytes)
    (hfit : ∀ c ∈ ch, ∃ d, c.export = .ok d ∧ d.length = c.len ∧ c.offset + c.len ≤ buf.length) :
    ∃ buf', placeChildren ch buf = .ok buf' ∧ buf'.length = buf.length ∧
      (∀ k, (∀ c ∈ ch, k < c.offset ∨ c.offset + c.len ≤ k) → buf'[k]? = buf[k]?) ∧
      (NoOverlapIdx ch → ∀ c ∈ ch, ∀ d, c.export = .ok d → ∀ j, j < d.length →
        buf'[c.offset + j]? = d[j]?) := by
  induction ch generalizing buf with
  | nil =>
    refine ⟨buf, by simp [placeChildren], rfl, fun _ _ => rfl, ?_⟩
    intro _ c hc; cases hc
  | cons c cs ih =>
    obtain ⟨d, hd, hdl, hdf⟩ := hfit c (by simp)
    obtain ⟨buf1, hb1, hl1, hg1⟩ := blit_ok buf c.offset d (by omega)
    obtain ⟨buf', hb', hl', hfree, hat⟩ := ih buf1 (by
      intro c' hc'
      obtain ⟨d', h1, h2, h3⟩ := hfit c' (List.mem_cons_of_mem _ hc')
      exact ⟨d', h1, h2, by omega⟩)
    refine ⟨buf', ?_, by omega, ?_, ?_⟩
    · rw [placeChildren, hd]; simp only []; rw [hb1]; simp only []; exact hb'
    · intro k hk
      rw [hfree k (fun c' hc' => hk c' (List.mem_cons_of_mem _ hc')), hg1 k]
      have := hk c (by simp)
      rw [if_neg (by omega)]
    · intro hno c' hc' d' hd' j hj
      rcases List.mem_cons.1 hc' with rfl | hc'
      · rw [hd] at hd'; cases hd'
        rw [hfree, hg1, if_pos (by omega)]
        · congr 1; omega
        · intro s hs
          have := hno.head s hs
          simp only [Ov] at this
          omega
      · exact hat hno.tail c' hc' d' hd' j hj

theorem placeChildren_length (ch : List Img) (buf buf' : Bytes) (h : placeChildren ch buf = .ok buf') :
    buf'.length = buf.length := by
  induction ch generalizing buf with
  | nil => simp [placeChildren] at h; subst h; rfl
  | cons c cs ih =>
    rw [placeChildren] at h
    cases hd : c.export with
    | error e => rw [hd] at h; cases h
    | ok d =>
      rw [hd] at h; simp only [] at h
      cases hb : blit buf c.offset d with
      | error e => rw [hb] at h; cases h
      | ok buf1 =>
        rw [hb] at h; simp only [] at h
        rw [ih buf1 h, (blit_spec _ _ _ _ hb).1]

theorem placeChildren_append (ch : List Img) (buf buf' ext : Bytes) (h : placeChildren ch buf = .ok buf') :
    placeChildren ch (buf ++ ext) = .ok (buf' ++ ext) := by
  induction ch generalizing buf with
  | nil => simp [placeChildren] at h ⊢; subst h; rfl
  | cons c cs ih =>
    rw [placeChildren] at h ⊢
    cases hd : c.export with
    | error e => rw [hd] at h; cases h
    | ok d =>
      rw [hd] at h; simp only [] at h ⊢
      cases hb : blit buf c.offset d with
      | error e => rw [hb] at h; cases h
      | ok buf1 =>
        rw [hb] at h; simp only [] at h
        rw [blit_append _ _ _ _ ext hb]; simp only []
        exact ih buf1 h

theorem finishExport_aligned (al : Nat) (pat : Option Pattern) (buf : Bytes) (hal : 0 < al)
    (h : buf.length % al = 0) : finishExport al pat (.ok buf) = .ok buf := by
  simp only [finishExport]
  rw [if_neg (by omega), alignNat_of_mod _ _ hal h, Nat.sub_self, patBlock_zero, List.append_nil]

/-- with a positive alignment and an aligned length the single-binary fast path of `export` agrees with
    the general path -/
theorem export_eq_general (s o al : Nat) (bin : Option Bytes) (pat : Option Pattern) (ch : List Img)
    (hal : 0 < al) (h : (Img.mk s o al bin pat ch).len % al = 0) :
    (Img.mk s o al bin pat ch).export =
      finishExport al pat (placeChildren ch (ownBuf (Img.mk s o al bin pat ch).len bin pat)) := by
  by_cases hc : ∃ b, bin = some b ∧ ch = []
  · obtain ⟨b, rfl, rfl⟩ := hc
    rw [Img.export]
    simp only [placeChildren]
    split
    · rename_i hcond
      simp only [Bool.and_eq_true, Bool.not_eq_true', beq_iff_eq] at hcond
      obtain ⟨hne, hlen⟩ := hcond
      have : ownBuf (Img.mk s o al (some b) pat []).len (some b) pat = b := by
        unfold ownBuf
        simp only [hne, Bool.false_eq_true, if_false, hlen]
        rw [List.drop_of_length_le (by rw [patBlock_length]; exact Nat.le_refl _), List.append_nil]
      rw [this, finishExport_aligned al pat b hal (by rw [← hlen]; exact h)]
    · rfl
  · rw [Img.export.eq_2]
    intro b hb hch
    exact hc ⟨b, hb, hch⟩

theorem export_spec (s o al : Nat) (bin : Option Bytes) (pat : Option Pattern) (ch : List Img)
    (hal : 0 < al) (hs : s % al = 0)
    (hv : (Img.mk s o al bin pat ch).validate = .ok ())
    (hch : ∀ c ∈ ch, ∃ d, c.export = .ok d ∧ d.length = c.len) :
    ∃ b, (Img.mk s o al bin pat ch).export = .ok b ∧ b.length = (Img.mk s o al bin pat ch).len ∧
      (∀ k, (∀ c ∈ ch, k < c.offset ∨ c.offset + c.len ≤ k) →
        b[k]? = (ownBuf (Img.mk s o al bin pat ch).len bin pat)[k]?) ∧
      (∀ c ∈ ch, ∀ d, c.export = .ok d → ∀ j, j < d.length → b[c.offset + j]? = d[j]?) := by
  have hlen : (Img.mk s o al bin pat ch).len % al = 0 := by
    rw [Img.len]
    split
    · exact hs
    · exact (alignNat_spec _ _ hal).1
  rw [export_eq_general s o al bin pat ch hal hlen]
  obtain ⟨hbin, hfit, hno⟩ := (validate_ok_iff s o al bin pat ch).1 hv
  generalize (Img.mk s o al bin pat ch).len = L at *
  have hol := ownBuf_length L bin pat hbin
  obtain ⟨buf', hb', hl', hfree, hat⟩ := placeChildren_spec ch (ownBuf L bin pat) (by
    intro c hc
    obtain ⟨d, h1, h2⟩ := hch c hc
    exact ⟨d, h1, h2, by rw [hol]; exact (hfit c hc).2⟩)
  refine ⟨buf', ?_, by omega, hfree, hat hno⟩
  rw [hb', finishExport_aligned al pat buf' hal (by rw [hl', hol]; exact hlen)]


/-! ### alignment only extends -/

theorem len_size_zero (o al : Nat) (bin : Option Bytes) (pat : Option Pattern) (ch : List Img) :
    (Img.mk 0 o al bin pat ch).len = alignNat (max (binLen bin) (childrenEnd ch)) al := by
  rw [Img.len]; simp

theorem align_extends' (off a : Nat) (bin : Option Bytes) (pat : Option Pattern) (ch : List Img) (b1 : Bytes)
    (ha : 0 < a) (h1 : (Img.mk 0 off 1 bin pat ch).export = .ok b1) :
    ∃ pad, (Img.mk 0 off a bin pat ch).export = .ok (b1 ++ pad) ∧
      (b1 ++ pad).length = alignNat b1.length a := by
  rw [export_eq_general _ _ _ _ _ _ (by omega) (Nat.mod_one _), len_size_zero, alignNat_one] at h1
  obtain ⟨hA1, hA2, _⟩ := alignNat_spec (max (binLen bin) (childrenEnd ch)) a ha
  rw [export_eq_general _ _ _ _ _ _ ha (by rw [len_size_zero]; exact hA1), len_size_zero]
  have hM : binLen bin ≤ max (binLen bin) (childrenEnd ch) := Nat.le_max_left _ _
  generalize max (binLen bin) (childrenEnd ch) = M at *
  cases hp : placeChildren ch (ownBuf M bin pat) with
  | error e => rw [hp] at h1; simp [finishExport] at h1
  | ok buf1 =>
    have hl1 : buf1.length = M := by
      rw [placeChildren_length _ _ _ hp, ownBuf_length _ _ _ hM]
    rw [hp, finishExport_aligned 1 pat buf1 (by omega) (Nat.mod_one _)] at h1
    cases h1
    obtain ⟨ext, he, hel⟩ := ownBuf_add M (alignNat M a - M) bin pat hM
    have hMa : M + (alignNat M a - M) = alignNat M a := by omega
    rw [hMa] at he
    refine ⟨ext, ?_, ?_⟩
    · rw [he, placeChildren_append _ _ _ ext hp, finishExport_aligned a pat _ ha]
      rw [List.length_append, hl1, hel, hMa]; exact hA1
    · rw [List.length_append, hl1, hel, hMa]

/-! ### `add_image` -/

theorem mem_insertSorted (c : Img) (l : List Img) (x : Img) : x ∈ insertSorted c l ↔ x = c ∨ x ∈ l := by
  induction l with
  | nil => simp [insertSorted]
  | cons y ys ih =>
    rw [insertSorted]
    split
    · simp
    · simp only [List.mem_cons, ih]
      constructor
      · rintro (h | h | h) <;> simp [h]
      · rintro (h | h | h) <;> simp [h]

theorem length_insertSorted (c : Img) (l : List Img) : (insertSorted c l).length = l.length + 1 := by
  induction l with
  | nil => simp [insertSorted]
  | cons y ys ih =>
    rw [insertSorted]
    split <;> simp [ih]

theorem sorted_insertSorted (c : Img) (l : List Img) (h : l.Pairwise (fun x y => x.offset ≤ y.offset)) :
    (insertSorted c l).Pairwise (fun x y => x.offset ≤ y.offset) := by
  induction l with
  | nil => simp [insertSorted]
  | cons y ys ih =>
    rw [insertSorted]
    rw [List.pairwise_cons] at h
    split
    · rename_i hlt
      refine List.pairwise_cons.2 ⟨?_, List.pairwise_cons.2 h⟩
      intro z hz
      rcases List.mem_cons.1 hz with rfl | hz
      · omega
      · have := h.1 z hz; omega
    · rename_i hge
      refine List.pairwise_cons.2 ⟨?_, ih h.2⟩
      intro z hz
      rcases (mem_insertSorted c ys z).1 hz with rfl | hz
      · omega
      · exact h.1 z hz

theorem len_withOffset (c : Img) (o : Nat) : (c.withOffset o).len = c.len := by
  cases c with
  | mk s o' a b p ch => simp only [Img.withOffset, Img.len]

theorem offset_withOffset (c : Img) (o : Nat) : (c.withOffset o).offset = o := by
  cases c with
  | mk s o' a b p ch => rfl

theorem children_addImage (p c : Img) : (p.addImage c).children = insertSorted c p.children := by
  cases p with
  | mk s o a b pt ch => rfl

/-! ### lists -/

theorem take_drop_of_get {α} (b d : List α) (o : Nat) (h : ∀ j, j < d.length → b[o + j]? = d[j]?) :
    (b.drop o).take d.length = d := by
  apply List.ext_getElem?
  intro j
  rw [List.getElem?_take]
  split
  · rename_i hj
    rw [List.getElem?_drop]; exact h j hj
  · rename_i hj
    rw [List.getElem?_eq_none (by omega)]

theorem take_drop_trans {α} (b bc bd : List α) (oc o : Nat)
    (h1 : (b.drop oc).take bc.length = bc) (h2 : (bc.drop o).take bd.length = bd) :
    (b.drop (oc + o)).take bd.length = bd := by
  have hlen : bd.length ≤ bc.length - o := by
    have := congrArg List.length h2
    simp at this; omega
  rw [← List.drop_drop]
  conv => rhs; rw [← h2, ← h1]
  rw [List.drop_take, List.take_take, Nat.min_eq_left hlen]


/-! ### descending into children -/

theorem validate_child (i c : Img) (hv : i.validate = .ok ()) (hc : c ∈ i.children) :
    c.validate = .ok () ∧ c.offset + c.len ≤ i.len := by
  cases i with
  | mk s o a b p ch => exact ((validate_ok_iff s o a b p ch).1 hv).2.1 c hc

end SpsdkVerif.BinImg
