/-
Lemmas for the writer side of HEX / S19 for arbitrary image trees (Model/HexFmtOw.lean): bincopy's
`_Segments.add(.., overwrite=True)` keeps the segment list normal (ascending, strictly separated, non-empty)
and means "the new data where it lies, the old content everywhere else", for ALL lists and ALL data.
Core Lean only.
-/
import SpsdkVerif.Model.HexFmtOw
import SpsdkVerif.Proofs.HexFmt
import SpsdkVerif.Proofs.BinImage
namespace SpsdkVerif.HexFmt

/-- what one `add_binary(.., overwrite=True)` means at address `a`: the new data where it lies, the old content elsewhere -/
def owAt (seg : Seg) (old : Option UInt8) (a : Nat) : Option UInt8 :=
  if seg.addr ≤ a ∧ a < seg.max then seg.data[a - seg.addr]? else old

/-- ascending, strictly separated (not even touching), non-empty segments: what a `BinFile` holds -/
def Norm (l : List Seg) : Prop := l.Pairwise (fun x y => x.max < y.addr) ∧ ∀ s ∈ l, s.data ≠ []

theorem idx_congr {α} (l : List α) {i j : Nat} (h : i = j) : l[i]? = l[j]? := by rw [h]

theorem memAt_cons_or (s : Seg) (rest : List Seg) (a : Nat) : memAt (s :: rest) a = (memAt [s] a).or (memAt rest a) :=
  memAt_append [s] rest a

theorem memAt_one (s : Seg) (a : Nat) :
    memAt [s] a = if s.addr ≤ a ∧ a < s.addr + s.data.length then s.data[a - s.addr]? else none := rfl

theorem owAt_eq (seg : Seg) (old : Option UInt8) (a : Nat) :
    owAt seg old a = if seg.addr ≤ a ∧ a < seg.addr + seg.data.length then seg.data[a - seg.addr]? else old := rfl

theorem memAt_none (l : List Seg) (a : Nat) (h : ∀ x ∈ l, x.max ≤ a ∨ a < x.addr) : memAt l a = none := by
  induction l with
  | nil => rfl
  | cons s rest ih =>
    have hs := h s (by simp)
    simp only [memAt]
    rw [if_neg (by omega)]
    exact ih (fun x hx => h x (by simp [hx]))

theorem get_splice (D s : Bytes) (off i : Nat) (ho : off ≤ D.length) :
    (D.take off ++ s ++ D.drop (off + s.length))[i]? =
      if i < off then D[i]? else if i < off + s.length then s[i - off]? else D[i]? := by
  simp only [List.getElem?_append, List.length_append, List.length_take, List.getElem?_take, List.getElem?_drop,
    Nat.min_eq_left ho]
  by_cases h1 : i < off
  · simp only [h1, if_true]
    rw [if_pos (by omega)]
  · simp only [h1, if_false]
    by_cases h2 : i < off + s.length
    · simp only [h2, if_true]
    · simp only [h2, if_false]
      exact idx_congr D (by omega)

theorem length_splice (D s : Bytes) (off : Nat) (ho : off ≤ D.length) :
    (D.take off ++ s ++ D.drop (off + s.length)).length = max D.length (off + s.length) := by
  simp only [List.length_append, List.length_take, List.length_drop, Nat.min_eq_left ho]
  omega

/-- `_Segment.add_data(.., overwrite=True)` with data touching or overlapping the segment: the result spans both,
    holds the new data where it lies and the old data elsewhere -/
theorem addDataOw_spec (c seg : Seg) (hc : c.data ≠ []) (hs : seg.data ≠ []) (h1 : seg.addr ≤ c.max) (h2 : c.addr ≤ seg.max) :
    ∃ c', c.addDataOw seg = .ok c' ∧ c'.addr = min c.addr seg.addr ∧ c'.max = max c.max seg.max ∧ c'.data ≠ [] ∧
      ∀ a, memAt [c'] a = owAt seg (memAt [c] a) a := by
  have hcl : 0 < c.data.length := List.length_pos_iff.mpr hc
  have hsl : 0 < seg.data.length := List.length_pos_iff.mpr hs
  simp only [Seg.max] at h1 h2
  unfold Seg.addDataOw
  simp only [Seg.max]
  by_cases e1 : seg.addr = c.addr + c.data.length
  · rw [if_pos e1]
    refine ⟨_, rfl, by simp only []; omega, by simp only [List.length_append]; omega, by simp [hc], ?_⟩
    intro a
    rw [memAt_one, owAt_eq, memAt_one]; simp only [List.length_append]
    by_cases ha : seg.addr ≤ a ∧ a < seg.addr + seg.data.length
    · rw [if_pos (by omega), if_pos ha, List.getElem?_append_right (by omega)]
      exact idx_congr _ (by omega)
    · rw [if_neg ha]
      by_cases hb : c.addr ≤ a ∧ a < c.addr + c.data.length
      · rw [if_pos (by omega), if_pos hb, List.getElem?_append_left (by omega)]
      · rw [if_neg (by omega), if_neg hb]
  · rw [if_neg e1]
    by_cases e2 : seg.addr + seg.data.length = c.addr
    · rw [if_pos e2]
      refine ⟨_, rfl, by simp only []; omega, by simp only [List.length_append]; omega, by simp [hc], ?_⟩
      intro a
      rw [memAt_one, owAt_eq, memAt_one]; simp only [List.length_append]
      by_cases ha : seg.addr ≤ a ∧ a < seg.addr + seg.data.length
      · rw [if_pos (by omega), if_pos ha, List.getElem?_append_left (by omega)]
      · rw [if_neg ha]
        by_cases hb : c.addr ≤ a ∧ a < c.addr + c.data.length
        · rw [if_pos (by omega), if_pos hb, List.getElem?_append_right (by omega)]
          exact idx_congr _ (by omega)
        · rw [if_neg (by omega), if_neg hb]
    · rw [if_neg e2, if_pos (by omega)]
      by_cases e3 : seg.addr < c.addr
      · rw [if_pos e3]
        have hDl : (seg.data.take (c.addr - seg.addr) ++ c.data).length = c.addr - seg.addr + c.data.length := by
          simp only [List.length_append, List.length_take]; omega
        have hrl : (seg.data.drop (c.addr - seg.addr)).length = seg.data.length - (c.addr - seg.addr) := List.length_drop
        have hk : c.addr - seg.addr ≤ (seg.data.take (c.addr - seg.addr) ++ c.data).length := by omega
        have hlen := length_splice (seg.data.take (c.addr - seg.addr) ++ c.data) (seg.data.drop (c.addr - seg.addr)) (c.addr - seg.addr) hk
        refine ⟨_, rfl, by simp only []; omega, by simp only []; rw [hlen, hDl, hrl]; omega, ?_, ?_⟩
        · intro h0
          have := congrArg List.length h0
          simp only [] at this
          rw [hlen, hDl, hrl] at this; simp only [List.length_nil] at this; omega
        · intro a
          rw [memAt_one, owAt_eq, memAt_one]; simp only []
          rw [hlen, get_splice _ _ _ _ hk, hDl, hrl]
          simp only [List.getElem?_append, List.length_take, List.getElem?_take, List.getElem?_drop]
          by_cases ha : seg.addr ≤ a ∧ a < seg.addr + seg.data.length
          · rw [if_pos (by omega), if_pos ha]
            by_cases hb : a - seg.addr < c.addr - seg.addr
            · rw [if_pos hb, if_pos (by omega), if_pos hb]
            · rw [if_neg hb, if_pos (by omega)]
              exact idx_congr _ (by omega)
          · rw [if_neg ha]
            by_cases hb : c.addr ≤ a ∧ a < c.addr + c.data.length
            · rw [if_pos (by omega), if_pos hb, if_neg (by omega), if_neg (by omega), if_neg (by omega)]
              exact idx_congr _ (by omega)
            · rw [if_neg (by omega), if_neg hb]
      · rw [if_neg e3]
        have hk : seg.addr - c.addr ≤ c.data.length := by omega
        have hlen := length_splice c.data seg.data (seg.addr - c.addr) hk
        refine ⟨_, rfl, by simp only []; omega, by simp only []; rw [hlen]; omega, ?_, ?_⟩
        · intro h0
          have := congrArg List.length h0
          rw [hlen] at this; simp only [List.length_nil] at this; omega
        · intro a
          rw [memAt_one, owAt_eq, memAt_one]; simp only []
          rw [hlen, get_splice _ _ _ _ hk]
          by_cases ha : seg.addr ≤ a ∧ a < seg.addr + seg.data.length
          · rw [if_pos (by omega), if_pos ha, if_neg (by omega), if_pos (by omega)]
            exact idx_congr _ (by omega)
          · rw [if_neg ha]
            by_cases hb : c.addr ≤ a ∧ a < c.addr + c.data.length
            · rw [if_pos (by omega), if_pos hb]
              by_cases hd : a - c.addr < seg.addr - c.addr
              · rw [if_pos hd]
              · rw [if_neg hd, if_neg (by omega)]
            · rw [if_neg (by omega), if_neg hb]

theorem memAt_cons (s : Seg) (rest : List Seg) (a : Nat) :
    memAt (s :: rest) a = if s.addr ≤ a ∧ a < s.addr + s.data.length then s.data[a - s.addr]? else memAt rest a := rfl

theorem norm_cons (s : Seg) (l : List Seg) : Norm (s :: l) ↔ s.data ≠ [] ∧ (∀ x ∈ l, s.addr + s.data.length < x.addr) ∧ Norm l := by
  unfold Norm
  simp only [List.pairwise_cons, List.mem_cons, forall_eq_or_imp, Seg.max]
  constructor
  · rintro ⟨⟨h1, h2⟩, h3, h4⟩; exact ⟨h3, h1, h2, h4⟩
  · rintro ⟨h3, h1, h2, h4⟩; exact ⟨⟨h1, h2⟩, h3, h4⟩

theorem norm_nil : Norm [] := ⟨List.Pairwise.nil, by simp⟩

theorem absorb_del (c s : Seg) (rest : List Seg) (h : c.addr + c.data.length ≥ s.addr + s.data.length) :
    absorb c (s :: rest) = absorb c rest := by
  have : c.max ≥ s.max := h
  simp only [absorb, this, if_true]

theorem absorb_merge (c s : Seg) (rest : List Seg) (h : ¬ c.addr + c.data.length ≥ s.addr + s.data.length)
    (h2 : c.addr + c.data.length ≥ s.addr) :
    absorb c (s :: rest) = (⟨c.addr, c.data ++ s.data.drop (c.addr + c.data.length - s.addr)⟩, rest) := by
  have h' : ¬ c.max ≥ s.max := h
  have h2' : c.max ≥ s.addr := h2
  simp only [absorb, h', h2', if_true, if_false]
  rfl

theorem absorb_stop (c s : Seg) (rest : List Seg) (h : ¬ c.addr + c.data.length ≥ s.addr + s.data.length)
    (h2 : ¬ c.addr + c.data.length ≥ s.addr) : absorb c (s :: rest) = (c, s :: rest) := by
  have h' : ¬ c.max ≥ s.max := h
  have h2' : ¬ c.max ≥ s.addr := h2
  simp only [absorb, h', h2', if_false]

/-- the loop after an insertion: the current segment keeps its start, only grows, the list stays normal, what is left
    of the following segments are following segments, and no byte changes (the current segment wins where it lies) -/
theorem absorb_spec (c : Seg) (post : List Seg) (hc : c.data ≠ []) (hp : Norm post) (hlt : ∀ s ∈ post, c.addr < s.addr) :
    (absorb c post).1.addr = c.addr ∧ c.addr + c.data.length ≤ (absorb c post).1.addr + (absorb c post).1.data.length ∧
      Norm ((absorb c post).1 :: (absorb c post).2) ∧ (∀ x ∈ (absorb c post).2, x ∈ post) ∧
      ∀ a, memAt ((absorb c post).1 :: (absorb c post).2) a = memAt (c :: post) a := by
  induction post with
  | nil =>
    simp only [absorb]
    exact ⟨trivial, Nat.le_refl _, (norm_cons _ _).2 ⟨hc, by simp, norm_nil⟩, by simp, fun _ => trivial⟩
  | cons s rest ih =>
    obtain ⟨hs, hgap, hrest⟩ := (norm_cons _ _).1 hp
    have hcs := hlt s (by simp)
    have hsl : 0 < s.data.length := List.length_pos_iff.mpr hs
    have hcl : 0 < c.data.length := List.length_pos_iff.mpr hc
    by_cases g1 : c.addr + c.data.length ≥ s.addr + s.data.length
    · rw [absorb_del c s rest g1]
      obtain ⟨i1, i2, i3, i4, i5⟩ := ih hrest (fun x hx => hlt x (by simp [hx]))
      refine ⟨i1, i2, i3, fun x hx => by simp [i4 x hx], ?_⟩
      intro a
      rw [i5 a, memAt_cons, memAt_cons c, memAt_cons s]
      by_cases ha : c.addr ≤ a ∧ a < c.addr + c.data.length
      · rw [if_pos ha, if_pos ha]
      · rw [if_neg ha, if_neg ha, if_neg (by omega)]
    · by_cases g2 : c.addr + c.data.length ≥ s.addr
      · rw [absorb_merge c s rest g1 g2]
        have hl : (c.data ++ s.data.drop (c.addr + c.data.length - s.addr)).length = s.addr + s.data.length - c.addr := by
          simp only [List.length_append, List.length_drop]; omega
        refine ⟨rfl, by simp only []; rw [hl]; omega, ?_, fun x hx => by simp [hx], ?_⟩
        · refine (norm_cons _ _).2 ⟨by simp [hc], ?_, hrest⟩
          intro x hx
          have := hgap x hx
          simp only []; rw [hl]; omega
        · intro a
          rw [memAt_cons, memAt_cons c, memAt_cons s]
          simp only []
          rw [hl]
          by_cases ha : c.addr ≤ a ∧ a < c.addr + c.data.length
          · rw [if_pos (by omega), if_pos ha, List.getElem?_append_left (by omega)]
          · rw [if_neg ha]
            by_cases hb : s.addr ≤ a ∧ a < s.addr + s.data.length
            · rw [if_pos (by omega), if_pos hb, List.getElem?_append_right (by omega), List.getElem?_drop]
              exact idx_congr _ (by omega)
            · rw [if_neg (by omega), if_neg hb]
      · rw [absorb_stop c s rest g1 g2]
        refine ⟨rfl, Nat.le_refl _, ?_, fun x hx => hx, fun _ => rfl⟩
        refine (norm_cons _ _).2 ⟨hc, ?_, hp⟩
        intro x hx
        simp only []
        rcases List.mem_cons.1 hx with rfl | hx
        · omega
        · have := hgap x hx; omega

theorem owAt_or (seg : Seg) (x y : Option UInt8) (a : Nat) : (owAt seg x a).or y = owAt seg (x.or y) a := by
  rw [owAt_eq, owAt_eq]
  by_cases ha : seg.addr ≤ a ∧ a < seg.addr + seg.data.length
  · rw [if_pos ha, if_pos ha, List.getElem?_eq_getElem (by omega)]; rfl
  · rw [if_neg ha, if_neg ha]

/-- the linear search has stopped at `s` (the first segment not wholly below the new data): insert / overwrite / merge -/
theorem hitOw_spec (seg s : Seg) (rest : List Seg) (hn : Norm (s :: rest)) (hd : seg.data ≠ [])
    (hit : seg.addr ≤ s.addr + s.data.length) :
    ∃ Y, hitOw seg s rest = .ok Y ∧ Norm Y ∧ Y ≠ [] ∧ (∀ y ∈ Y, min seg.addr s.addr ≤ y.addr) ∧
      ∀ a, memAt Y a = owAt seg (memAt (s :: rest) a) a := by
  obtain ⟨hs, hgap, hrest⟩ := (norm_cons _ _).1 hn
  have hsl : 0 < s.data.length := List.length_pos_iff.mpr hs
  have hdl : 0 < seg.data.length := List.length_pos_iff.mpr hd
  unfold hitOw
  by_cases h : seg.max < s.addr
  · rw [if_pos h]
    have h' : seg.addr + seg.data.length < s.addr := h
    have hlt : ∀ x ∈ s :: rest, seg.addr < x.addr := by
      intro x hx
      rcases List.mem_cons.1 hx with rfl | hx
      · omega
      · have := hgap x hx; omega
    obtain ⟨i1, _, i3, i4, i5⟩ := absorb_spec seg (s :: rest) hd hn hlt
    refine ⟨_, rfl, i3, by simp, ?_, ?_⟩
    · intro y hy
      rcases List.mem_cons.1 hy with rfl | hy
      · rw [i1]; exact Nat.min_le_left _ _
      · have := hlt y (i4 y hy); omega
    · intro a
      rw [i5 a, memAt_cons seg, owAt_eq]
  · rw [if_neg h]
    have h' : ¬ seg.addr + seg.data.length < s.addr := h
    obtain ⟨s', e1, e2, e3, e4, e5⟩ := addDataOw_spec s seg hs hd hit (by simp only [Seg.max]; omega)
    rw [e1]
    simp only [Seg.max] at e3
    have hlt : ∀ x ∈ rest, s'.addr < x.addr := by
      intro x hx
      have := hgap x hx; omega
    obtain ⟨i1, _, i3, i4, i5⟩ := absorb_spec s' rest e4 hrest hlt
    refine ⟨_, rfl, i3, by simp, ?_, ?_⟩
    · intro y hy
      rcases List.mem_cons.1 hy with rfl | hy
      · rw [i1, e2]; omega
      · have := hgap y (i4 y hy); omega
    · intro a
      rw [i5 a, memAt_cons_or, e5 a, owAt_or, ← memAt_cons_or]

/-- the linear insert of `_Segments.add(.., overwrite=True)` on a normal list -/
theorem owLinear_spec (seg : Seg) (hd : seg.data ≠ []) : ∀ l, Norm l →
    ∃ l' i, owLinear seg l = .ok (l', i) ∧ Norm l' ∧ i < l'.length ∧
      (∀ m, m < seg.addr → (∀ x ∈ l, m < x.addr) → ∀ x ∈ l', m < x.addr) ∧
      ∀ a, memAt l' a = owAt seg (memAt l a) a := by
  intro l
  induction l with
  | nil =>
    intro _
    refine ⟨[seg], 0, rfl, (norm_cons _ _).2 ⟨hd, by simp, norm_nil⟩, by simp, ?_, fun a => rfl⟩
    intro m hm _ x hx
    rw [List.mem_singleton] at hx; subst hx; exact hm
  | cons s rest ih =>
    intro hn
    obtain ⟨hs, hgap, hrest⟩ := (norm_cons _ _).1 hn
    unfold owLinear
    by_cases hit : seg.addr ≤ s.max
    · rw [if_pos hit]
      obtain ⟨Y, y1, y2, y3, y4, y5⟩ := hitOw_spec seg s rest hn hd hit
      rw [y1]
      refine ⟨Y, 0, rfl, y2, List.length_pos_iff.mpr y3, ?_, y5⟩
      intro m hm hl x hx
      have := y4 x hx
      have := hl s (by simp)
      omega
    · rw [if_neg hit]
      have hit' : ¬ seg.addr ≤ s.addr + s.data.length := hit
      obtain ⟨l', i, r1, r2, r3, r4, r5⟩ := ih hrest
      rw [r1]
      refine ⟨s :: l', i + 1, rfl, ?_, by simp [r3], ?_, ?_⟩
      · exact (norm_cons _ _).2 ⟨hs, r4 _ (by omega) hgap, r2⟩
      · intro m hm hl x hx
        rcases List.mem_cons.1 hx with rfl | hx
        · exact hl _ (by simp)
        · exact r4 m hm (fun y hy => hl y (by simp [hy])) x hx
      · intro a
        rw [memAt_cons, memAt_cons, r5 a]
        by_cases ha : s.addr ≤ a ∧ a < s.addr + s.data.length
        · rw [if_pos ha, if_pos ha, owAt_eq, if_neg (by omega)]
        · rw [if_neg ha, if_neg ha]

theorem norm_append (l r : List Seg) :
    Norm (l ++ r) ↔ Norm l ∧ Norm r ∧ ∀ x ∈ l, ∀ y ∈ r, x.addr + x.data.length < y.addr := by
  unfold Norm
  simp only [List.pairwise_append, List.mem_append, Seg.max]
  constructor
  · rintro ⟨⟨h1, h2, h3⟩, h4⟩
    exact ⟨⟨h1, fun s hs => h4 s (Or.inl hs)⟩, ⟨h2, fun s hs => h4 s (Or.inr hs)⟩, h3⟩
  · rintro ⟨⟨h1, h4⟩, ⟨h2, h5⟩, h3⟩
    exact ⟨⟨h1, h2, h3⟩, fun s hs => hs.elim (h4 s) (h5 s)⟩

/-- an untouched prefix wholly below the new data -/
theorem pre_spec (pre X Y : List Seg) (seg : Seg) (hn : Norm (pre ++ X)) (hy : Norm Y)
    (h1 : ∀ x ∈ pre, x.addr + x.data.length < seg.addr) (h2 : ∀ x ∈ pre, ∀ y ∈ Y, x.addr + x.data.length < y.addr)
    (h3 : ∀ a, memAt Y a = owAt seg (memAt X a) a) :
    Norm (pre ++ Y) ∧ ∀ a, memAt (pre ++ Y) a = owAt seg (memAt (pre ++ X) a) a := by
  obtain ⟨n1, _, _⟩ := (norm_append _ _).1 hn
  refine ⟨(norm_append _ _).2 ⟨n1, hy, h2⟩, ?_⟩
  intro a
  rw [memAt_append, memAt_append, h3 a]
  by_cases ha : seg.addr ≤ a ∧ a < seg.addr + seg.data.length
  · rw [memAt_none pre a (fun x hx => Or.inl (by have := h1 x hx; simp only [Seg.max]; omega))]
    rfl
  · rw [owAt_eq, owAt_eq, if_neg ha, if_neg ha]

/-- `_Segments.add(segment, overwrite=True)`, for EVERY normal segment list, every position of the current segment and
    every non-empty data: it succeeds, the list stays normal (ascending, strictly separated, non-empty), the current
    index stays inside, and afterwards every address holds the new data where that lies and what it held before elsewhere -/
theorem addOw_spec (st : SegList) (seg : Seg) (hn : Norm st.list) (hcur : st.list = [] ∨ st.cur < st.list.length)
    (hd : seg.data ≠ []) :
    ∃ st', st.addOw seg = .ok st' ∧ Norm st'.list ∧ st'.cur < st'.list.length ∧
      ∀ a, memAt st'.list a = owAt seg (memAt st.list a) a := by
  obtain ⟨l, cur⟩ := st
  simp only at hn hcur ⊢
  unfold SegList.addOw
  simp only
  cases l with
  | nil =>
    simp only [List.isEmpty_nil, if_true]
    exact ⟨_, rfl, (norm_cons _ _).2 ⟨hd, by simp, norm_nil⟩, by simp, fun a => rfl⟩
  | cons x xs =>
    have hc : cur < (x :: xs).length := by
      rcases hcur with h | h
      · cases h
      · exact h
    simp only [List.isEmpty_cons, Bool.false_eq_true, if_false]
    rw [List.getElem?_eq_getElem hc]
    simp only
    by_cases hf : seg.addr = ((x :: xs)[cur]).max
    · rw [if_pos hf]
      have hsplit : x :: xs = (x :: xs).take cur ++ (x :: xs)[cur] :: (x :: xs).drop (cur + 1) := by
        rw [← List.drop_eq_getElem_cons hc, List.take_append_drop]
      generalize hpre : (x :: xs).take cur = pre at hsplit ⊢
      generalize hpost : (x :: xs).drop (cur + 1) = post at hsplit ⊢
      generalize (x :: xs)[cur] = c at hsplit hf ⊢
      rw [hsplit] at hn ⊢
      obtain ⟨n1, n2, n3⟩ := (norm_append _ _).1 hn
      have hf' : seg.addr = c.addr + c.data.length := hf
      have hdl : 0 < seg.data.length := List.length_pos_iff.mpr hd
      obtain ⟨Y, y1, y2, y3, y4, y5⟩ := hitOw_spec seg c post n2 hd (by omega)
      have hY : Y = (absorb ⟨c.addr, c.data ++ seg.data⟩ post).1 :: (absorb ⟨c.addr, c.data ++ seg.data⟩ post).2 := by
        unfold hitOw at y1
        have hnlt : ¬ seg.max < c.addr := by simp only [Seg.max]; omega
        rw [if_neg hnlt] at y1
        have hadd : c.addDataOw seg = .ok ⟨c.addr, c.data ++ seg.data⟩ := by
          unfold Seg.addDataOw; rw [if_pos hf]
        rw [hadd] at y1
        simp only [Except.ok.injEq] at y1
        exact y1.symm
      have hp := pre_spec pre (c :: post) Y seg hn y2
        (fun p hp => by have := n3 p hp c (by simp); omega)
        (fun p hp y hy => by have := n3 p hp c (by simp); have := y4 y hy; omega) y5
      refine ⟨_, rfl, ?_, ?_, ?_⟩
      · simp only [finishAdd]; rw [← hY]; exact hp.1
      · simp [finishAdd]
      · simp only [finishAdd]; rw [← hY]; exact hp.2
    · rw [if_neg hf]
      obtain ⟨l', i, r1, r2, r3, _, r5⟩ := owLinear_spec seg hd (x :: xs) hn
      rw [r1]
      exact ⟨_, rfl, r2, r3, r5⟩

/-! ## sequences of writes -/

/-- the memory a sequence of overwriting writes leaves at address `a`, starting from `init`: the LAST write that
    covers `a` wins -/
def memWFrom (init : Option UInt8) (ws : List Seg) (a : Nat) : Option UInt8 :=
  ws.foldl (fun old w => owAt w old a) init

def memW (ws : List Seg) (a : Nat) : Option UInt8 := memWFrom none ws a

theorem addAllOw_spec (ws : List Seg) (hw : ∀ w ∈ ws, w.data ≠ []) : ∀ st : SegList, Norm st.list →
    (st.list = [] ∨ st.cur < st.list.length) →
    ∃ st', addAllOw st ws = .ok st' ∧ Norm st'.list ∧ (st'.list = [] ∨ st'.cur < st'.list.length) ∧
      ∀ a, memAt st'.list a = memWFrom (memAt st.list a) ws a := by
  induction ws with
  | nil => intro st hn hc; exact ⟨st, rfl, hn, hc, fun _ => rfl⟩
  | cons w ws ih =>
    intro st hn hc
    obtain ⟨st1, a1, a2, a3, a4⟩ := addOw_spec st w hn hc (hw w (by simp))
    obtain ⟨st2, b1, b2, b3, b4⟩ := ih (fun x hx => hw x (by simp [hx])) st1 a2 (Or.inr a3)
    refine ⟨st2, ?_, b2, b3, ?_⟩
    · simp only [addAllOw, a1]; exact b1
    · intro a
      rw [b4 a, a4 a]; rfl

theorem memAt_some_cover (l : List Seg) (a : Nat) (h : memAt l a ≠ none) : ∃ x ∈ l, x.addr ≤ a ∧ a < x.addr + x.data.length := by
  induction l with
  | nil => exact absurd rfl h
  | cons s rest ih =>
    rw [memAt_cons] at h
    by_cases ha : s.addr ≤ a ∧ a < s.addr + s.data.length
    · exact ⟨s, by simp, ha⟩
    · rw [if_neg ha] at h
      obtain ⟨x, hx, hxa⟩ := ih h
      exact ⟨x, by simp [hx], hxa⟩

theorem memAt_cover_some (l : List Seg) (a : Nat) (x : Seg) (hx : x ∈ l) (hxa : x.addr ≤ a ∧ a < x.addr + x.data.length) :
    memAt l a ≠ none := by
  induction l with
  | nil => cases hx
  | cons s rest ih =>
    rw [memAt_cons]
    by_cases ha : s.addr ≤ a ∧ a < s.addr + s.data.length
    · rw [if_pos ha, List.getElem?_eq_getElem (by omega)]; simp
    · rw [if_neg ha]
      rcases List.mem_cons.1 hx with rfl | hx
      · exact absurd hxa ha
      · exact ih hx

theorem memWFrom_cover (ws : List Seg) (a : Nat) : ∀ init, memWFrom init ws a ≠ none →
    init ≠ none ∨ ∃ w ∈ ws, w.addr ≤ a ∧ a < w.addr + w.data.length := by
  induction ws with
  | nil => intro init h; exact Or.inl h
  | cons w ws ih =>
    intro init h
    rcases ih (owAt w init a) h with h1 | ⟨x, hx, hxa⟩
    · rw [owAt_eq] at h1
      by_cases ha : w.addr ≤ a ∧ a < w.addr + w.data.length
      · exact Or.inr ⟨w, by simp, ha⟩
      · rw [if_neg ha] at h1; exact Or.inl h1
    · exact Or.inr ⟨x, by simp [hx], hxa⟩

/-- nothing is stored outside the written ranges: every resulting segment ends where some write ends at the latest -/
theorem segs_bound (ws l : List Seg) (B : Nat) (hl : ∀ s ∈ l, s.data ≠ []) (hb : ∀ w ∈ ws, w.addr + w.data.length ≤ B)
    (hm : ∀ a, memAt l a = memW ws a) : ∀ s ∈ l, s.addr + s.data.length ≤ B := by
  intro s hs
  have hsl : 0 < s.data.length := List.length_pos_iff.mpr (hl s hs)
  have h1 := memAt_cover_some l (s.addr + s.data.length - 1) s hs (by omega)
  rw [hm] at h1
  rcases memWFrom_cover ws _ none h1 with h | ⟨w, hw, hwa⟩
  · exact absurd rfl h
  · have := hb w hw; omega

theorem norm_noAdj (l : List Seg) (h : Norm l) : NoAdj l := by
  induction l with
  | nil => trivial
  | cons a rest ih =>
    obtain ⟨_, hg, hr⟩ := (norm_cons _ _).1 h
    cases rest with
    | nil => trivial
    | cons b rest' =>
      refine ⟨?_, ih hr⟩
      have := hg b (by simp)
      simp only [Seg.max]; omega

theorem norm_segsFrom (l : List Seg) : ∀ m, Norm l → (∀ s ∈ l, m ≤ s.addr ∧ s.addr + s.data.length ≤ 2 ^ 32) → SegsFrom m l := by
  induction l with
  | nil => intro _ _ _; trivial
  | cons a rest ih =>
    intro m h hb
    obtain ⟨hd, hg, hr⟩ := (norm_cons _ _).1 h
    refine ⟨(hb a (by simp)).1, hd, (hb a (by simp)).2, ih _ hr ?_⟩
    intro s hs
    have := hg s hs
    exact ⟨by simp only [Seg.max]; omega, (hb s (by simp [hs])).2⟩

end SpsdkVerif.HexFmt

namespace SpsdkVerif.BinImg
open SpsdkVerif.HexFmt SpsdkVerif.Misc

/-- every `add_binary` call of `save_binary_image` carries data (an empty pattern block or binary is skipped) -/
theorem savePlan_nonempty (i : Img) : ∀ abs, ∀ w ∈ i.savePlan abs, w.data ≠ [] := by
  induction i using Img.induct' with
  | h s o al b p ch ih =>
    intro abs w hw
    unfold Img.savePlan at hw
    simp only [List.mem_append] at hw
    rcases hw with (hw | hw) | hw
    · cases p with
      | none => cases hw
      | some p =>
        simp only at hw
        split at hw
        · rename_i hL
          rw [List.mem_singleton] at hw; subst hw
          intro h0
          have := block_length p (Img.mk s o al b (some p) ch).len
          simp only at h0
          rw [h0] at this; exact hL this.symm
        · cases hw
    · cases b with
      | none => cases hw
      | some b =>
        simp only at hw
        split at hw
        · cases hw
        · rename_i hb
          rw [List.mem_singleton] at hw; subst hw
          intro h0; simp only at h0; rw [h0] at hb; exact hb rfl
    · have : ∀ (l : List Img), (∀ c ∈ l, ∀ abs, ∀ w ∈ c.savePlan abs, w.data ≠ []) → ∀ abs, ∀ w ∈ savePlanList abs l, w.data ≠ [] := by
        intro l
        induction l with
        | nil => intro _ abs w hw; rw [savePlanList] at hw; cases hw
        | cons c cs ihl =>
          intro hl abs w hw
          rw [savePlanList, List.mem_append] at hw
          rcases hw with hw | hw
          · exact hl c (by simp) abs w hw
          · exact ihl (fun c' hc' => hl c' (by simp [hc'])) abs w hw
      exact this ch ih _ w hw

end SpsdkVerif.BinImg
