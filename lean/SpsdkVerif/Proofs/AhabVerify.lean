/- Helper lemmas about the model of the AHAB verifier (Model/AhabVerify.lean) for Properties/C06.lean. -/
import SpsdkVerif.Proofs.Ahab

namespace SpsdkVerif.AhabVerify
open SpsdkVerif SpsdkVerif.Misc SpsdkVerif.Ahab
open SpsdkVerif.Generated

/-- a bit-range record (`add_record_bit_range`) fails exactly outside `[0, hi]` - through the GENERATED `check_range` -/
theorem recFails_bits (r : AhabConsts.RangeRec) (x : Int) (h : r.viaCheckRange = true) :
    recFails r (some x) = true ↔ ¬ (0 ≤ x ∧ x ≤ r.hi) := by
  simp only [recFails, h, if_true, PyFuns.check_range]
  by_cases h1 : 0 ≤ x <;> by_cases h2 : x ≤ r.hi <;> simp [h1, h2]

/-- a plain range record (`add_record_range`) fails exactly outside `[lo, hi]` -/
theorem recFails_range (r : AhabConsts.RangeRec) (x : Int) (h : r.viaCheckRange = false) :
    recFails r (some x) = true ↔ ¬ (r.lo ≤ x ∧ x ≤ r.hi) := by
  simp only [recFails, h]
  by_cases h1 : x < r.lo <;> by_cases h2 : x > r.hi <;> simp [h1, h2] <;> omega

theorem getFI_bounds (x : Int) (off size : Nat) : 0 ≤ getFI x off size ∧ getFI x off size < (2 ^ size : Nat) := by
  unfold getFI
  have hp : (0 : Int) < ((2 ^ size : Nat) : Int) := by
    have : 0 < 2 ^ size := Nat.pos_of_ne_zero (by simp)
    omega
  exact ⟨Int.emod_nonneg _ (by omega), Int.emod_lt_of_pos _ hp⟩

theorem failed_nil_iff (recs : List AhabConsts.RangeRec) (env : String → Option Int) :
    failed recs env = [] ↔ ∀ r ∈ recs, recFails r (env r.value) = false := by
  simp only [failed, List.map_eq_nil_iff, List.filter_eq_nil_iff]
  constructor
  · intro h r hr; have := h r hr; simpa using this
  · intro h r hr; simp [h r hr]

theorem mem_failed (recs : List AhabConsts.RangeRec) (env : String → Option Int) (r : AhabConsts.RangeRec)
    (hr : r ∈ recs) (hf : recFails r (env r.value) = true) : r.name ∈ failed recs env := by
  simp only [failed, List.mem_map, List.mem_filter]
  exact ⟨r, ⟨hr, hf⟩, rfl⟩

theorem recFails_false_bits (r : AhabConsts.RangeRec) (x : Int) (h : r.viaCheckRange = true) :
    recFails r (some x) = false ↔ (0 ≤ x ∧ x ≤ r.hi) := by
  have := recFails_bits r x h
  cases hb : recFails r (some x) <;> simp_all

theorem recFails_false_range (r : AhabConsts.RangeRec) (x : Int) (h : r.viaCheckRange = false) :
    recFails r (some x) = false ↔ (r.lo ≤ x ∧ x ≤ r.hi) := by
  have := recFails_range r x h
  cases hb : recFails r (some x) <;> simp_all

/-- the container's own range records are clean exactly when flags, sw_version, fuse_version and the signature block
    offset fit their fields: each record looks at ITS attribute -/
theorem container_records_iff (v : Ver) (c : VContainer) :
    failed AhabConsts.recsContainer (containerEnv v c) = [] ↔
      (0 ≤ c.flags ∧ c.flags ≤ 4294967295) ∧ (0 ≤ c.swVersion ∧ c.swVersion ≤ 65535) ∧ (0 ≤ c.fuseVersion ∧ c.fuseVersion ≤ 255) ∧
      ((sigBlockOffset v c.images.length : Nat) : Int) ≤ 65535 := by
  have b1 := getFI_bounds c.flags AhabConsts.cFlagsUsedSrkIdOffset AhabConsts.cFlagsUsedSrkIdSize
  have b2 := getFI_bounds c.flags AhabConsts.cFlagsSrkRevokeMaskOffset AhabConsts.cFlagsSrkRevokeMaskSize
  have e1 : ((2 ^ AhabConsts.cFlagsUsedSrkIdSize : Nat) : Int) = 4 := by decide
  have e2 : ((2 ^ AhabConsts.cFlagsSrkRevokeMaskSize : Nat) : Int) = 16 := by decide
  rw [e1] at b1; rw [e2] at b2
  rw [failed_nil_iff]
  simp only [AhabConsts.recsContainer, List.forall_mem_cons, List.not_mem_nil, false_imp_iff, implies_true, and_true]
  rw [show containerEnv v c "flags" = some c.flags from rfl,
      show containerEnv v c "flag_used_srk_id" = some (getFI c.flags AhabConsts.cFlagsUsedSrkIdOffset AhabConsts.cFlagsUsedSrkIdSize) from rfl,
      show containerEnv v c "flag_srk_revoke_keys" = some (getFI c.flags AhabConsts.cFlagsSrkRevokeMaskOffset AhabConsts.cFlagsSrkRevokeMaskSize) from rfl,
      show containerEnv v c "sw_version" = some c.swVersion from rfl,
      show containerEnv v c "fuse_version" = some c.fuseVersion from rfl,
      show containerEnv v c "_signature_block_offset" = some ((sigBlockOffset v c.images.length : Nat) : Int) from rfl]
  rw [recFails_false_bits _ _ rfl, recFails_false_range _ _ rfl, recFails_false_bits _ _ rfl, recFails_false_bits _ _ rfl,
      recFails_false_bits _ _ rfl, recFails_false_range _ _ rfl]
  simp only
  constructor
  · rintro ⟨h1, _, _, h4, h5, h6⟩
    exact ⟨h1, h4, h5, h6.2⟩
  · rintro ⟨h1, h4, h5, h6⟩
    exact ⟨h1, ⟨by omega, by omega⟩, ⟨by omega, by omega⟩, h4, h5, ⟨by omega, h6⟩⟩


theorem iae_records_iff (e : VIae) :
    failed AhabConsts.recsIae (iaeEnv e) = [] ↔
      (0 ≤ e.flags ∧ e.flags ≤ 4294967295) ∧ (0 ≤ e.metaData ∧ e.metaData ≤ 4294967295) ∧
      (0 ≤ e.imageOffset ∧ e.imageOffset ≤ 4294967295) ∧ (0 ≤ e.imageSize ∧ e.imageSize ≤ 4294967295) ∧
      (0 ≤ e.loadAddress ∧ e.loadAddress ≤ 18446744073709551615) ∧ (0 ≤ e.entryPoint ∧ e.entryPoint ≤ 18446744073709551615) := by
  rw [failed_nil_iff]
  simp only [AhabConsts.recsIae, List.forall_mem_cons, List.not_mem_nil, false_imp_iff, implies_true, and_true]
  rw [show iaeEnv e "flags" = some e.flags from rfl, show iaeEnv e "image_meta_data" = some e.metaData from rfl,
      show iaeEnv e "_image_offset" = some e.imageOffset from rfl, show iaeEnv e "image_size" = some e.imageSize from rfl,
      show iaeEnv e "load_address" = some e.loadAddress from rfl, show iaeEnv e "entry_point" = some e.entryPoint from rfl]
  rw [recFails_false_bits _ _ rfl, recFails_false_bits _ _ rfl, recFails_false_bits _ _ rfl, recFails_false_bits _ _ rfl,
      recFails_false_bits _ _ rfl, recFails_false_bits _ _ rfl]

theorem header_records_iff (h : VHeader) :
    failed AhabConsts.recsHeader (headerEnv h) = [] ↔
      (0 ≤ h.tag ∧ h.tag ≤ 255) ∧ (0 ≤ h.length ∧ h.length ≤ 65535) ∧ (0 ≤ h.version ∧ h.version ≤ 255) := by
  rw [failed_nil_iff]
  simp only [AhabConsts.recsHeader, List.forall_mem_cons, List.not_mem_nil, false_imp_iff, implies_true, and_true]
  rw [show headerEnv h "tag" = some h.tag from rfl, show headerEnv h "length" = some h.length from rfl,
      show headerEnv h "version" = some h.version from rfl]
  rw [recFails_false_bits _ _ rfl, recFails_false_bits _ _ rfl, recFails_false_bits _ _ rfl]

theorem offset_record_iff (v : Ver) (off : Int) :
    failed (sbRecs v) (offsetEnv off) = [] ↔ (0 ≤ off ∧ off ≤ 65535) := by
  rw [failed_nil_iff]
  cases v <;>
  · simp only [sbRecs, AhabConsts.recsSigBlock, AhabConsts.recsSigBlockV2, List.forall_mem_cons, List.not_mem_nil, false_imp_iff,
      implies_true, and_true]
    rw [show offsetEnv off "offset" = some off from rfl, show offsetEnv off "blob.key_identifier" = some 0 from rfl]
    rw [recFails_false_bits _ _ rfl, recFails_false_bits _ _ rfl]
    simp

theorem keyid_record_iff (v : Ver) (kid : Int) :
    failed (sbRecs v) (keyIdEnv kid) = [] ↔ (0 ≤ kid ∧ kid ≤ 4294967295) := by
  rw [failed_nil_iff]
  cases v <;>
  · simp only [sbRecs, AhabConsts.recsSigBlock, AhabConsts.recsSigBlockV2, List.forall_mem_cons, List.not_mem_nil, false_imp_iff,
      implies_true, and_true]
    rw [show keyIdEnv kid "offset" = some 0 from rfl, show keyIdEnv kid "blob.key_identifier" = some kid from rfl]
    rw [recFails_false_bits _ _ rfl, recFails_false_bits _ _ rfl]
    simp

theorem blob_records_iff (b : VBlob) : failed AhabConsts.recsBlob (blobEnv b) = [] ↔ (0 ≤ b.mode ∧ b.mode ≤ 255) := by
  rw [failed_nil_iff]
  simp only [AhabConsts.recsBlob, List.forall_mem_cons, List.not_mem_nil, false_imp_iff, implies_true, and_true]
  rw [show blobEnv b "mode" = some b.mode from rfl, recFails_false_bits _ _ rfl]

theorem verifyHeader_nil (tags versions : List Nat) (h : VHeader) (tag ver : Nat) (ht : tag ∈ tags) (hv : ver ∈ versions)
    (h1 : h.tag = tag) (h2 : h.version = ver) (h3 : h.objLen = h.length) (r1 : tag ≤ 255) (r2 : ver ≤ 255)
    (r3 : 0 ≤ h.length ∧ h.length ≤ 65535) : verifyHeader tags versions h = [] := by
  unfold verifyHeader
  rw [(header_records_iff h).2 ⟨by omega, r3, by omega⟩]
  have a1 : tags.any (fun t => (t : Int) == h.tag) = true := List.any_eq_true.2 ⟨tag, ht, by simp [h1]⟩
  have a2 : versions.any (fun t => (t : Int) == h.version) = true := List.any_eq_true.2 ⟨ver, hv, by simp [h2]⟩
  simp [a1, a2, h3]


/-! ### the verifier input that corresponds to an updated model container -/

def toVIae (p : Placed) : VIae :=
  ⟨p.iae.imageOffset, p.iae.imageSize, p.iae.loadAddress, p.iae.entryPoint, p.iae.flags, p.iae.metaData,
   p.ready.image.length, p.entry.sizeAlign, true⟩

def toVBlob (b : Blob) (dek : Option Bytes) : VBlob :=
  ⟨b.size, b.mode, dek.map (·.length), b.keyblob.length, b.keyIdentifier,
   ⟨AhabConsts.blobTag, b.length, AhabConsts.blobVersion, b.length⟩⟩

def toVSigBlock (v : Ver) (sb : SigBlock) (dek : Option Bytes) : VSigBlock :=
  let o := sbLayout v sb
  ⟨⟨AhabConsts.sigBlockTag, o.length, v.sigBlockVersion, o.length⟩,
   ⟨decide (sb.srk.length ≠ 0), o.srkOff, sb.srk.length, true⟩,
   ⟨decide (sb.sigSize v ≠ 0), o.sigOff, sb.sigSize v, true⟩,
   ⟨decide (sb.cert.length ≠ 0), o.certOff, sb.cert.length, true⟩,
   ⟨decide (sb.blobLen ≠ 0), o.blobOff, sb.blobLen, true⟩,
   sb.blob.map (toVBlob · dek)⟩

def toVContainer (v : Ver) (u : UContainer) : VContainer :=
  let L := headerLength v u.placed.length (sbLayout v u.cont.sb).length
  ⟨⟨AhabConsts.containerTag, L, v.containerVersion, L⟩, u.cont.flags, u.cont.swVersion, u.cont.fuseVersion, u.base,
   u.placed.map toVIae, some (toVSigBlock v u.cont.sb u.cont.dek)⟩

/-- a block whose layout comes from `update_fields` passes `verify_block` -/
theorem verifyBlock_nil (v : Ver) (name : String) (present : Bool) (off len : Nat) (minOff : Int) (sub : List String)
    (hsub : sub = []) (hp : present = true → minOff ≤ off ∧ off ≠ 0 ∧ off ≤ 65535 ∧ (v = .v1 → off % 8 = 0))
    (ha : present = false → off = 0) :
    verifyBlock v name ⟨present, off, len, true⟩ minOff sub = [] := by
  subst hsub
  unfold verifyBlock
  cases present
  · have := ha rfl; subst this; simp
  · obtain ⟨h1, h2, h3, h4⟩ := hp rfl
    have hne : (((off : Nat) : Int) != 0) = true := by simp; omega
    simp only [hne]
    simp only [bne_self_eq_false, Bool.false_eq_true, if_false, Bool.not_true]
    have hlt : ¬ (((off : Nat) : Int) < minOff) := by omega
    rw [if_neg hlt]
    have hal : ¬ ((v == Ver.v1 && ((off : Nat) : Int) % ((AhabConsts.containerAlignment : Nat) : Int) != 0) = true) := by
      cases v
      · have := h4 rfl
        have e : ((AhabConsts.containerAlignment : Nat) : Int) = 8 := rfl
        simp [e]; omega
      · simp
    rw [if_neg hal, (offset_record_iff v off).2 ⟨by omega, by omega⟩]
    simp


structure BlobWF (b : Blob) (dek : Option Bytes) : Prop where
  size : AhabConsts.blobKeySizes.any (fun t => ((t.2.1 : Nat) : Int) == ((b.size : Nat) : Int)) = true
  mode : b.mode ≤ 255
  kid : b.keyIdentifier ≤ 4294967295
  kb : b.keyblob.length = b.size / 8 + 48
  dek : ∀ d, dek = some d → d.length = b.size / 8
  len : b.length ≤ 65535

theorem verifyBlob_nil (b : Blob) (dek : Option Bytes) (h : BlobWF b dek) : verifyBlob (toVBlob b dek) = [] := by
  unfold verifyBlob toVBlob
  simp only
  rw [verifyHeader_nil [AhabConsts.blobTag] [AhabConsts.blobVersion] _ AhabConsts.blobTag AhabConsts.blobVersion
      (List.mem_singleton.2 rfl) (List.mem_singleton.2 rfl) rfl rfl rfl (by decide) (by decide) ⟨by simp, by have := h.len; simp; omega⟩]
  rw [h.size, (blob_records_iff _).2 ⟨by simp, by have := h.mode; simp; omega⟩]
  have e8 : Int.fdiv ((b.size : Nat) : Int) 8 = ((b.size / 8 : Nat) : Int) := by
    rw [Int.fdiv_eq_ediv_of_nonneg _ (by omega)]; simp
  have hk : b.keyblob.length ≠ 0 := by have := h.kb; omega
  simp only [e8, if_neg hk]
  have hk2 : (((b.keyblob.length : Nat) : Int) == ((b.size / 8 : Nat) : Int) + 48) = true := by
    have := h.kb; simp; omega
  simp only [hk2, if_true, List.append_nil, List.nil_append, if_true]
  cases hd : dek with
  | none => simp
  | some d =>
    have := h.dek d hd
    simp [this]

theorem verifySigBlock_nil (v : Ver) (sb : SigBlock) (dek : Option Bytes) (hlen : (sbLayout v sb).length ≤ 65535)
    (hblob : ∀ b, sb.blob = some b → BlobWF b dek ∧ b.length ≠ 0) :
    verifySigBlock v (toVSigBlock v sb dek) = [] := by
  have L := sigblock_layout v sb
  simp only at L
  obtain ⟨z1, z2, z3, z4, p1, p2, p3, p4, h16, hal⟩ := L
  unfold verifySigBlock toVSigBlock
  simp only
  generalize ho : sbLayout v sb = o at *
  have hfix : (((v.sbLayout).size : Nat) : Int) = 16 := by rw [sbLayout_fixed]; rfl
  rw [hfix]
  have hver : v.sigBlockVersion ≤ 255 := by cases v <;> decide
  rw [verifyHeader_nil [AhabConsts.sigBlockTag] [v.sigBlockVersion] _ AhabConsts.sigBlockTag v.sigBlockVersion
      (List.mem_singleton.2 rfl) (List.mem_singleton.2 rfl) rfl rfl rfl (by decide) hver ⟨by simp, by simp; omega⟩]
  rw [verifyBlock_nil v "SRK Table" _ o.srkOff _ 16 [] rfl
      (fun hp => by have h := of_decide_eq_true hp; have := p1 h; have := hal; exact ⟨by omega, by omega, by omega, fun hv => (this hv).1⟩)
      (fun hp => by have h := of_decide_eq_false hp; exact z1 (by omega))]
  rw [verifyBlock_nil v "Signature" _ o.sigOff _ _ [] rfl
      (fun hp => by
        have h := of_decide_eq_true hp
        have q := p2 h
        refine ⟨?_, by omega, by omega, fun hv => (hal hv).2.1⟩
        by_cases h1 : sb.srk.length = 0
        · simp [h1]; omega
        · have := q.2.1 h1; simp [h1]; omega)
      (fun hp => by have h := of_decide_eq_false hp; exact z2 (by omega))]
  rw [verifyBlock_nil v "Certificate" _ o.certOff _ _ [] rfl
      (fun hp => by
        have h := of_decide_eq_true hp
        have q := p3 h
        refine ⟨?_, by omega, by omega, fun hv => (hal hv).2.2.1⟩
        by_cases h2 : sb.sigSize v = 0
        · by_cases h1 : sb.srk.length = 0
          · simp [h1, h2]; omega
          · have := q.2.1 h1; simp [h1, h2]; omega
        · have := q.2.2.1 h2; simp [h2]; omega)
      (fun hp => by have h := of_decide_eq_false hp; exact z3 (by omega))]
  have hblobBlock : ∀ sub, sub = [] → verifyBlock v "Blob" ⟨decide (sb.blobLen ≠ 0), o.blobOff, sb.blobLen, true⟩
      (if decide (sb.cert.length ≠ 0) = true then (o.certOff : Int) + (sb.cert.length : Nat)
       else if decide (sb.sigSize v ≠ 0) = true then (o.sigOff : Int) + (sb.sigSize v : Nat)
       else if decide (sb.srk.length ≠ 0) = true then (o.srkOff : Int) + (sb.srk.length : Nat) else 16) sub = [] := by
    intro sub hsub
    exact verifyBlock_nil v "Blob" _ o.blobOff _ _ _ hsub
      (fun hp => by
        have h := of_decide_eq_true hp
        have q := p4 h
        refine ⟨?_, by omega, by omega, fun hv => (hal hv).2.2.2⟩
        by_cases h3 : sb.cert.length = 0
        · by_cases h2 : sb.sigSize v = 0
          · by_cases h1 : sb.srk.length = 0
            · simp [h1, h2, h3]; omega
            · have := q.2.1 h1; simp [h1, h2, h3]; omega
          · have := q.2.2.1 h2; simp [h2, h3]; omega
        · have := q.2.2.2.1 h3; simp [h3]; omega)
      (fun hp => by have h := of_decide_eq_false hp; exact z4 (by omega))
  cases hb : sb.blob with
  | none =>
    simp only [Option.map_none]
    rw [hblobBlock [] rfl]
    rfl
  | some b =>
    have hw := hblob b hb
    have hbl : sb.blobLen ≠ 0 := by simp [SigBlock.blobLen, hb]; exact hw.2
    simp only [Option.map_some]
    rw [hblobBlock _ (verifyBlob_nil b dek hw.1)]
    simp only [decide_eq_true hbl, if_true, List.nil_append, List.append_nil]
    unfold toVBlob
    exact (keyid_record_iff v _).2 ⟨by simp, by have := hw.1.kid; simp; omega⟩


/-- an updated entry as `update_fields` leaves it, with field values that fit the binary format -/
structure PlacedWF (ch : Chip) (v : Ver) (base : Nat) (p : Placed) : Prop where
  iae : p.iae = mkIae base p.offset p.entry p.ready
  size : p.ready.size = validSize ch v p.entry.flags p.entry.sizeAlign p.ready.image
  rOff : p.offset - base ≤ 4294967295
  rSize : p.ready.size ≤ 4294967295
  rLoad : p.entry.loadAddress ≤ 18446744073709551615
  rEntry : p.entry.entryPoint ≤ 18446744073709551615
  rFlags : p.entry.flags ≤ 4294967295
  rMeta : p.entry.metaData ≤ 4294967295

theorem verifyIae_nil (ch : Chip) (v : Ver) (base : Nat) (p : Placed) (h : PlacedWF ch v base p) :
    verifyIae ch v (toVIae p) = [] := by
  unfold verifyIae toVIae
  simp only [h.iae, mkIae]
  rw [(iae_records_iff _).2 ⟨⟨by simp, by have := h.rFlags; simp; omega⟩, ⟨by simp, by have := h.rMeta; simp; omega⟩,
      ⟨by simp, by have := h.rOff; simp; omega⟩, ⟨by simp, by have := h.rSize; simp; omega⟩,
      ⟨by simp, by have := h.rLoad; simp; omega⟩, ⟨by simp, by have := h.rEntry; simp; omega⟩⟩]
  have hs := h.size
  unfold validSize at hs
  have hflags : ((p.entry.flags : Nat) : Int).toNat = p.entry.flags := by simp
  rw [hflags]
  have hempty : p.ready.image.isEmpty = decide (p.ready.image.length = 0) := by
    cases p.ready.image <;> simp
  rw [hempty] at hs
  by_cases h0 : p.ready.image.length = 0
  · simp only [h0, decide_true, if_true] at hs ⊢
    simp [hs]
  · simp only [h0, decide_false, Bool.false_eq_true, if_false] at hs ⊢
    by_cases h1 : p.entry.sizeAlign = 0
    · simp only [h1, ne_eq, not_true_eq_false, if_false] at hs ⊢
      simp [hs]
    · simp only [ne_eq, h1, not_false_eq_true, if_true] at hs ⊢
      simp [hs]

/-- `verify_complete`, container part: every record of the model's verifier is clean on an updated container whose
    values fit the format -/
theorem verifyContainer_nil (ch : Chip) (v : Ver) (u : UContainer)
    (hflags : u.cont.flags ≤ 4294967295) (hsw : u.cont.swVersion ≤ 65535) (hfuse : u.cont.fuseVersion ≤ 255)
    (hn : u.placed ≠ [])
    (hL : headerLength v u.placed.length (sbLayout v u.cont.sb).length ≤ 65535)
    (hblob : ∀ b, u.cont.sb.blob = some b → BlobWF b u.cont.dek ∧ b.length ≠ 0)
    (hp : ∀ p ∈ u.placed, PlacedWF ch v u.base p)
    (hauth : u.cont.srkSet = 0 → u.cont.sb.srk.length = 0 ∧ u.cont.sb.sigSize v = 0) :
    verifyContainer ch v (toVContainer v u) = [] := by
  have hA : authenticityRecord (toVContainer v u) = [] := by
    unfold authenticityRecord toVContainer toVSigBlock
    simp only
    split
    · rename_i h0
      have hs : u.cont.srkSet = 0 := by
        have hb : (getFI (u.cont.flags : Int) AhabConsts.cFlagsSrkSetOffset AhabConsts.cFlagsSrkSetSize) = 0 := by simpa using h0
        unfold getFI at hb
        unfold Container.srkSet
        rw [getF_eq]
        have e0 : AhabConsts.cFlagsSrkSetOffset = 0 := rfl
        have e2 : AhabConsts.cFlagsSrkSetSize = 2 := rfl
        rw [e0, e2] at hb ⊢
        simp at hb ⊢
        omega
      have := hauth hs
      simp [this.1, this.2]
    · rfl
  unfold verifyContainer
  rw [hA, List.append_nil]
  unfold toVContainer
  simp only
  have hver : v.containerVersion ≤ 255 := by cases v <;> decide
  rw [verifyHeader_nil [AhabConsts.containerTag] [v.containerVersion] _ AhabConsts.containerTag v.containerVersion
      (List.mem_singleton.2 rfl) (List.mem_singleton.2 rfl) rfl rfl rfl (by decide) hver ⟨by simp, by simp; omega⟩]
  have hsbo : sigBlockOffset v u.placed.length ≤ 65535 := by
    have h1 := (hdrLayout_widths v).2
    have h2 := (iaeLayout_facts v).2.2
    unfold headerLength at hL
    rw [h1, h2] at hL
    have := al8_spec (16 + u.placed.length * 128)
    unfold sigBlockOffset
    rw [h1, h2]
    have h16 : 16 ≤ (sbLayout v u.cont.sb).length := (sigblock_layout v u.cont.sb).2.2.2.2.2.2.2.2.1
    omega
  have hsblen : (sbLayout v u.cont.sb).length ≤ 65535 := by unfold headerLength at hL; omega
  rw [(container_records_iff v _).2 ⟨⟨by simp, by simp; omega⟩, ⟨by simp, by simp; omega⟩, ⟨by simp, by simp; omega⟩,
      by simp only [List.length_map]; omega⟩]
  rw [verifySigBlock_nil v u.cont.sb u.cont.dek hsblen hblob]
  have hne : (u.placed.map toVIae).isEmpty = false := by
    cases hpl : u.placed with
    | nil => exact absurd hpl hn
    | cons a l => rfl
  simp only [hne, Bool.false_eq_true, if_false, List.nil_append, List.append_nil, List.flatMap_map]
  rw [List.flatMap_eq_nil_iff]
  intro p hpm
  exact verifyIae_nil ch v u.base p (hp p hpm)


/-- SRK set 'none' on a container that still carries an SRK table or a signature IS reported (commit 457be4d) -/
theorem srkSetNone_reported (ch : Chip) (v : Ver) (c : VContainer) (sb : VSigBlock) (hsb : c.sb = some sb)
    (h0 : getFI c.flags AhabConsts.cFlagsSrkSetOffset AhabConsts.cFlagsSrkSetSize = 0)
    (hp : sb.srk.present = true ∨ sb.sig.present = true) : "Signature block" ∈ verifyContainer ch v c := by
  unfold verifyContainer authenticityRecord
  rw [hsb]
  simp only [h0, beq_self_eq_true, if_true]
  have : (sb.srk.present || sb.sig.present) = true := by rcases hp with h | h <;> simp [h]
  simp [this]

end SpsdkVerif.AhabVerify
