/- Helper lemmas for the EdgeLock v2 part of Properties/C15.lean (Model/DatV2.lean). Core Lean only. -/
import SpsdkVerif.Model.DatV2
import SpsdkVerif.Proofs.Dat
namespace SpsdkVerif.DatV2
open SpsdkVerif SpsdkVerif.Misc SpsdkVerif.Dat SpsdkVerif.Generated
open SpsdkVerif.Crypto (CryptoOps CryptoLaws SigAlg PrivKey Rand)

theorem leEnc2_eq (v : Nat) : leEnc 2 v = [UInt8.ofNat (v % 256), UInt8.ofNat (v / 256 % 256)] := by
  simp [leEnc, beEnc]

theorem consts : headSize = 40 ∧ sigHeadSize = 8 ∧ DatConsts.certPermDataSize = 12 ∧ DatConsts.certUuidSize = 16 ∧
    AhabConsts.certificateVersion = 2 ∧ AhabConsts.certificateTag = 175 ∧ AhabConsts.signatureVersion = 0 ∧
    AhabConsts.signatureTag = 216 ∧ AhabConsts.reserved = 0 := by decide

/-- the documented head, written out -/
def specHead (c : Cert) : Bytes :=
  [2] ++ (leEnc 2 c.length ++ ([175] ++ (leEnc 2 c.sigOffset ++ ([UInt8.ofNat (255 - c.permissions)] ++ ([UInt8.ofNat c.permissions] ++
    (c.permData ++ ([UInt8.ofNat c.fuseVersion] ++ ([0] ++ (leEnc 2 0 ++ c.uuid)))))))))

def specSigContainer (s : Bytes) : Bytes := [0] ++ (leEnc 2 (8 + s.length) ++ ([216] ++ (leEnc 4 0 ++ s)))

theorem specHead_length (c : Cert) (hp : c.permData.length = 12) (hu : c.uuid.length = 16) : (specHead c).length = 40 := by
  simp [specHead, leEnc_length, hp, hu]

theorem specSig_length (s : Bytes) : (specSigContainer s).length = 8 + s.length := by
  simp [specSigContainer, leEnc_length]; omega

theorem certHead_spec (ko : KeyOracle) (c : Cert) (h : WFCert ko c) : certHead c = .ok (specHead c) := by
  obtain ⟨_, _, hpd, huu, hcv, hct, _⟩ := consts
  have hso : c.sigOffset < 65536 := by have := h.sigOffset; have := h.length; have := h.small; omega
  simp [certHead, hpd, huu, h.permData, h.uuid, h.small, hso, h.perm, h.fuse, specHead, fitS_self, hcv, hct]

theorem sigContainer_spec (ko : KeyOracle) (c : Cert) (h : WFCert ko c) : sigContainer c.sig0 = .ok (specSigContainer c.sig0) := by
  obtain ⟨hh, hs, _, _, _, _, hsv, hst, hres⟩ := consts
  have : 8 + c.sig0.length < 65536 := by have := h.length; have := h.small; omega
  simp [sigContainer, h.sigNe, this, specSigContainer, hs, hsv, hst, hres]

theorem export_spec (ko : KeyOracle) (c : Cert) (h : WFCert ko c) :
    signedData c = .ok (specHead c ++ c.key0) ∧ exportCert c = .ok ((specHead c ++ c.key0) ++ specSigContainer c.sig0) := by
  obtain ⟨hh, hs, _⟩ := consts
  have h1 : signedData c = .ok (specHead c ++ c.key0) := by simp [signedData, certHead_spec ko c h]
  refine ⟨h1, ?_⟩
  have hl : c.length = (specHead c ++ c.key0).length + (specSigContainer c.sig0).length := by
    rw [List.length_append, specHead_length c h.permData h.uuid, specSig_length, h.length, hh, hs]
  simp [exportCert, h1, sigContainer_spec ko c h, hl]


theorem byteVal_single (x : Nat) (h : x < 256) : byteVal [UInt8.ofNat x] = x := by
  simp [byteVal, Nat.mod_eq_of_lt h]

theorem readHead_spec (c : Cert) (hp : c.permData.length = 12) (hu : c.uuid.length = 16) (hl : c.length < 65536)
    (hso : c.sigOffset < 65536) (hpm : c.permissions < 256) (hf : c.fuseVersion < 256) (rest : Bytes) :
    readHead (specHead c ++ rest) = .ok (⟨c.length, c.sigOffset, 255 - c.permissions, c.permissions, c.permData, c.fuseVersion, c.uuid⟩, rest) := by
  obtain ⟨_, _, hpd, huu, _⟩ := consts
  have e3 : ([0] : Bytes) ++ (leEnc 2 0 ++ (c.uuid ++ rest)) = ([0] ++ leEnc 2 0) ++ (c.uuid ++ rest) := by simp
  simp only [specHead, List.append_assoc, readHead, hpd, huu]
  rw [rd_append 1 [2] _ rfl]; simp only [bind_ok']
  rw [rd_append 2 (leEnc 2 c.length) _ (leEnc_length 2 _)]; simp only [bind_ok']
  rw [rd_append 1 [175] _ rfl]; simp only [bind_ok']
  rw [rd_append 2 (leEnc 2 c.sigOffset) _ (leEnc_length 2 _)]; simp only [bind_ok']
  rw [rd_append 1 [UInt8.ofNat (255 - c.permissions)] _ rfl]; simp only [bind_ok']
  rw [rd_append 1 [UInt8.ofNat c.permissions] _ rfl]; simp only [bind_ok']
  rw [rd_append 12 c.permData _ hp]; simp only [bind_ok']
  rw [rd_append 1 [UInt8.ofNat c.fuseVersion] _ rfl]; simp only [bind_ok']
  rw [e3, rd_append 3 ([0] ++ leEnc 2 0) _ (by simp [leEnc_length])]; simp only [bind_ok']
  rw [rd_append 16 c.uuid _ hu]; simp only [bind_ok']
  simp only [pure, Except.pure, leDec_leEnc2 _ hl, leDec_leEnc2 _ hso, byteVal_single _ hpm, byteVal_single _ hf,
    byteVal_single (255 - c.permissions) (by omega)]

theorem headOk_cert (c : Cert) (hp : c.permData.length = 12) (hu : c.uuid.length = 16) (hl : c.length < 65536)
    (rest : Bytes) (hlen : c.length ≤ (specHead c ++ rest).length) :
    headOk headSize AhabConsts.certificateTag AhabConsts.certificateVersion (specHead c ++ rest) = true := by
  obtain ⟨hh, _, _, _, hcv, hct, _⟩ := consts
  have h40 : 40 ≤ (specHead c ++ rest).length := by rw [List.length_append, specHead_length c hp hu]; omega
  have hd : ((specHead c ++ rest).drop 1).take 2 = leEnc 2 c.length := by
    simp [specHead, leEnc2_eq]
  simp only [headOk, hh, hcv, hct, hd, leDec_leEnc2 _ hl, decide_eq_true h40, decide_eq_true hlen, Bool.true_and, Bool.and_true]
  simp [specHead, leEnc2_eq]

theorem parseSig_spec (s t : Bytes) (hs : 8 + s.length < 65536) :
    parseSigContainer (specSigContainer s ++ t) = .ok s := by
  obtain ⟨_, hsh, _, _, _, _, hsv, hst, _⟩ := consts
  have hd : ((specSigContainer s ++ t).drop 1).take 2 = leEnc 2 (8 + s.length) := by
    simp [specSigContainer, leEnc2_eq]
  have hl : (specSigContainer s ++ t).length = 8 + s.length + t.length := by
    rw [List.length_append, specSig_length]
  have hok : headOk sigHeadSize AhabConsts.signatureTag AhabConsts.signatureVersion (specSigContainer s ++ t) = true := by
    simp only [headOk, hsh, hsv, hst, hd, leDec_leEnc2 _ hs, hl]
    simp [specSigContainer, leEnc2_eq]
    omega
  unfold parseSigContainer
  rw [hok]
  simp only [Bool.not_true, Bool.false_eq_true, if_false, hd, leDec_leEnc2 _ hs, hsh]
  rw [← specSig_length s, List.take_left]
  have : leEnc 4 0 = [0, 0, 0, 0] := by decide
  simp [specSigContainer, leEnc2_eq, this]

theorem cert_roundtrip (ko : KeyOracle) (c : Cert) (h : WFCert ko c) (t : Bytes) :
    parseCert ko (((specHead c ++ c.key0) ++ specSigContainer c.sig0) ++ t) = .ok (some c) := by
  obtain ⟨hh, hsh, _⟩ := consts
  have hso : c.sigOffset < 65536 := by have := h.sigOffset; have := h.length; have := h.small; omega
  have hsl : 8 + c.sig0.length < 65536 := by have := h.length; have := h.small; omega
  have e : ((specHead c ++ c.key0) ++ specSigContainer c.sig0) ++ t = specHead c ++ (c.key0 ++ (specSigContainer c.sig0 ++ t)) := by
    simp only [List.append_assoc]
  have hlen : c.length ≤ (specHead c ++ (c.key0 ++ (specSigContainer c.sig0 ++ t))).length := by
    simp only [List.length_append, specHead_length c h.permData h.uuid, specSig_length]
    rw [h.length, hh, hsh]; omega
  have hdrop : (specHead c ++ (c.key0 ++ (specSigContainer c.sig0 ++ t))).drop c.sigOffset = specSigContainer c.sig0 ++ t := by
    rw [← List.append_assoc, List.drop_left']
    rw [List.length_append, specHead_length c h.permData h.uuid, h.sigOffset, hh]
  rw [e]
  simp only [parseCert, headOk_cert c h.permData h.uuid h.small _ hlen, Bool.not_true, Bool.false_eq_true, if_false,
    readHead_spec c h.permData h.uuid h.small hso h.perm h.fuse, h.key, hdrop, parseSig_spec _ _ hsl]
  have h1 : ¬ (headSize + c.key0.length < c.sigOffset) := by rw [h.sigOffset]; omega
  have h2 : c.length = c.sigOffset + sigContainerLen c.sig0 := by
    have hne : c.sig0.isEmpty = false := by
      cases hs : c.sig0 with
      | nil => exact absurd hs h.sigNe
      | cons a r => rfl
    simp only [sigContainerLen, hne, Bool.false_eq_true, if_false]
    rw [h.length, h.sigOffset]
  simp only [ne_eq, not_true_eq_false, if_false, h1, List.take_left', h2]
  rw [← h2]


/-! wrapper -/
theorem leEnc_take_drop4 (b : Bytes) (h : b.length = 12) :
    leEnc 4 (leDec (b.take 4)) ++ (leEnc 4 (leDec ((b.drop 4).take 4)) ++ leEnc 4 (leDec ((b.drop 8).take 4))) = b := by
  match b, h with
  | [b0, b1, b2, b3, b4, b5, b6, b7, b8, b9, b10, b11], _ =>
    simp only [List.take, List.drop, leDec, beDec, List.reverse_cons, List.reverse_nil, List.nil_append, List.cons_append,
      List.foldl_cons, List.foldl_nil, leEnc, beEnc, Nat.zero_mul, Nat.zero_add, List.append_nil, List.reverse_append]
    have e : ∀ x : UInt8, x.toNat < 256 := fun x => x.toNat_lt
    have := e b0; have := e b1; have := e b2; have := e b3; have := e b4; have := e b5
    have := e b6; have := e b7; have := e b8; have := e b9; have := e b10; have := e b11
    simp only [List.cons.injEq, and_true]
    refine ⟨?_, ?_, ?_, ?_, ?_, ?_, ?_, ?_, ?_, ?_, ?_, ?_⟩ <;>
      (apply UInt8.toNat_inj.mp; rw [UInt8.toNat_ofNat']; omega)

theorem wrap_id (c : Cert) (h : c.permData.length = 12) : wrap c = .ok c := by
  have he : DatConsts.v2CtorKeepsSocc = true := by decide
  have ht : c.permData.take 12 = c.permData := by rw [← h, List.take_length]
  have : ¬ c.permData.length < 12 := by omega
  simp only [wrap, this, if_false, he, if_true, ht, permPack, permSocc, permSocu, permBeacon,
    leEnc_take_drop4 c.permData h]

theorem permPack_length (a b c : Nat) : (permPack a b c).length = 12 := by simp [permPack, leEnc_length]

theorem create_spec (socc socu fuse : Nat) (uuid key0 : Bytes) :
    create socc socu fuse uuid key0 =
      .ok (⟨0, 0, DatConsts.certPermDebug, permPack socc socu 0, fuse, uuid, key0, []⟩ : Cert) :=
  wrap_id _ (permPack_length _ _ _)

theorem perm_fields (socc socu beacon : Nat) (h1 : socc < 4294967296) (h2 : socu < 4294967296) (h3 : beacon < 4294967296) :
    permSocc (permPack socc socu beacon) = socc ∧ permSocu (permPack socc socu beacon) = socu ∧
    permBeacon (permPack socc socu beacon) = beacon := by
  refine ⟨?_, ?_, ?_⟩
  · simp only [permSocc, permPack]; rw [List.take_left' (leEnc_length 4 _)]; exact leDec_leEnc4 _ h1
  · simp only [permSocu, permPack]; rw [List.drop_left' (leEnc_length 4 _), List.take_left' (leEnc_length 4 _)]; exact leDec_leEnc4 _ h2
  · simp only [permBeacon, permPack]
    rw [← List.append_assoc, List.drop_left' (by simp [leEnc_length]), List.take_of_length_le (by simp [leEnc_length])]
    exact leDec_leEnc4 _ h3

theorem v2_roundtrip (ko : KeyOracle) (c : Cert) (h : WFCert ko c) (t : Bytes) :
    parseV2 ko (((specHead c ++ c.key0) ++ specSigContainer c.sig0) ++ t) = .ok (some c) := by
  simp only [parseV2, cert_roundtrip ko c h t, wrap_id c h.permData]

/-- `update_fields()` produces a well-formed certificate when the signature has the announced length -/
theorem sign_wf (cr : CryptoOps) (a : SigAlg) (sk : PrivKey) (rnd : Rand) (sigLen : Nat) (ko : KeyOracle) (c c' : Cert)
    (hs : signCert cr a sk rnd sigLen c = .ok c') (hp : c.permissions < 256) (hf : c.fuseVersion < 256)
    (hpd : c.permData.length = 12) (hu : c.uuid.length = 16) (hk : ∀ rest, ko (c.key0 ++ rest) = some c.key0.length)
    (hsl : c'.sig0.length = sigLen) (hpos : 0 < sigLen) (hsm : headSize + c.key0.length + (sigHeadSize + sigLen) < 65536) :
    WFCert ko c' := by
  unfold signCert at hs
  dsimp only at hs
  split at hs
  · injection hs with hs
    subst hs
    simp only [updateLengths] at hsl ⊢
    refine ⟨hp, hf, hpd, hu, ?_, rfl, ?_, hsm, hk⟩
    · intro e
      change cr.sign a sk _ rnd = [] at e
      rw [e] at hsl; simp at hsl; omega
    · show _ + _ + (_ + sigLen) = _ + _ + (_ + List.length (cr.sign a sk _ rnd)); rw [hsl]
  · cases hs

end SpsdkVerif.DatV2
