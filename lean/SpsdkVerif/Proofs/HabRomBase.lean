/- C07 helper lemmas, part 6: basics about the ROM-side reader `Spec/HabRom.lean` (combinators, reads at known
   positions) and the translation of model commands into what the reader has to see. -/
import SpsdkVerif.Model.HabWF
import SpsdkVerif.Spec.HabRom
import SpsdkVerif.Proofs.HabBase
import SpsdkVerif.Proofs.HabCsf

namespace SpsdkVerif.Hab
open SpsdkVerif SpsdkVerif.Misc SpsdkVerif.Generated
open SpsdkVerif.Spec
open SpsdkVerif.Spec.HabRom (bindE chk sub rdN u8at u16be u32be u32le RCmd)

@[simp] theorem bindE_ok {α β : Type} (a : α) (f : α → HabRom.R β) : bindE (.ok a) f = f a := rfl
@[simp] theorem chk_true {α : Type} (msg : String) (k : HabRom.R α) : chk true msg k = k := rfl
theorem chk_of {α : Type} (c : Bool) (msg : String) (k : HabRom.R α) (h : c = true) : chk c msg k = k := by
  subst h; rfl

theorem sub_eq_slice (b : Bytes) (o n : Nat) : sub b o n = slice b o n := rfl

/-- a read at a position where an encoded integer is known to sit -/
theorem rdN_of_slice (dec : Bytes → Nat) (b x : Bytes) (off n : Nat) (h : slice b off n = x) (hl : x.length = n) :
    rdN dec b off n = .ok (dec x) := by
  unfold rdN
  rw [sub_eq_slice, h, if_pos hl]

theorem u8at_of_slice (b : Bytes) (off v : Nat) (hv : v < 256) (h : slice b off 1 = [u8 v]) : u8at b off = .ok v := by
  unfold u8at
  rw [rdN_of_slice beDec b [u8 v] off 1 h rfl]
  simp [beDec, u8_toNat v hv]

theorem u16be_of_slice (b : Bytes) (off v : Nat) (hv : v < 65536) (h : slice b off 2 = be16 v) : u16be b off = .ok v := by
  unfold u16be
  rw [rdN_of_slice beDec b (be16 v) off 2 h (be16_length v)]
  have : (256 : Nat) ^ 2 = 65536 := by decide
  rw [show be16 v = beEnc 2 v from rfl, beDec_beEnc 2 v (by omega)]

theorem u32be_of_slice (b : Bytes) (off v : Nat) (hv : v < 2 ^ 32) (h : slice b off 4 = be32 v) : u32be b off = .ok v := by
  unfold u32be
  rw [rdN_of_slice beDec b (be32 v) off 4 h (be32_length v)]
  have : (256 : Nat) ^ 4 = 2 ^ 32 := by decide
  rw [show be32 v = beEnc 4 v from rfl, beDec_beEnc 4 v (by omega)]

theorem u32le_of_slice (b : Bytes) (off v : Nat) (hv : v < 2 ^ 32) (h : slice b off 4 = le32 v) : u32le b off = .ok v := by
  unfold u32le
  rw [rdN_of_slice leDec b (le32 v) off 4 h (le32_length v)]
  have : (256 : Nat) ^ 4 = 2 ^ 32 := by decide
  rw [show le32 v = leEnc 4 v from rfl, leDec_leEnc 4 v (by omega)]

/-- what the ROM-side reader has to see for a model command -/
def toR : Cmd → RCmd
  | .insKey fl cf alg src tgt loc => .insKey fl cf alg src tgt loc
  | .autDat fl key sf eng cfg loc bl => .autDat fl key sf eng cfg loc bl
  | .set _ _ _ _ => .other 0xB1 8
  | .unlock e f _ => .other 0xB2 (if needUid e f then 16 else 8)
  | .nop _ => .other 0xC0 4

/-- data references of a command list whose locations are assigned: `(location, length)` in command order -/
def refsOf : List CsfCmd → List (Nat × Nat)
  | [] => []
  | c :: r =>
    (if needsRef c.cmd then (match c.data with | some d => [(c.cmd.loc, d.length)] | none => []) else []) ++ refsOf r

end SpsdkVerif.Hab
