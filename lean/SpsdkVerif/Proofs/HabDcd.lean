/- C07 helper lemmas: Write Data / Check Data / Initialize codec, `parse_command` over all classes, DCD segment and
   boot-data round trips (`Model/HabDcd.lean`).  Core Lean only. -/
import SpsdkVerif.Model.HabDcd
import SpsdkVerif.Proofs.HabCsf

namespace SpsdkVerif.HabDcd
open SpsdkVerif SpsdkVerif.Hab
open SpsdkVerif.Misc (beEnc beDec leEnc leDec beEnc_length')

/-! ### small codecs -/
theorem be32_length (v : Nat) : (be32 v).length = 4 := by simp [be32, beEnc_length']

theorem encWords_length (l : List Nat) : (encWords l).length = 4 * l.length := by
  induction l with
  | nil => rfl
  | cons v r ih => simp [encWords, ih]; omega
theorem le32_length (v : Nat) : (le32 v).length = 4 := by simp [le32, leEnc_length]

theorem parByte_lt (w o : Nat) : parByte w o < 256 := by unfold parByte; omega

theorem parByte_width (w o : Nat) (hw : w ∈ Spec.widths) : parByte w o % 8 = w := by
  have : w < 8 := by
    simp only [Spec.widths, List.mem_cons, List.not_mem_nil, or_false] at hw
    omega
  unfold parByte; omega

theorem parByte_ops (w o : Nat) (ho : o < 4) : parByte w o / 8 % 4 = o := by
  unfold parByte; omega

theorem decWords_encWords (data : List Nat) (rest : Bytes) (h : ∀ v ∈ data, v < Spec.initLimit) :
    decWords data.length (encWords data ++ rest) = .ok data := by
  induction data with
  | nil => rfl
  | cons v r ih =>
    have hv := h v (by simp)
    have hv32 : v < 256 ^ 4 := by
      have : Spec.initLimit = 0xFFFFFFFF := rfl
      have e : (256 : Nat) ^ 4 = 4294967296 := by decide
      omega
    have ih' := ih (fun x hx => h x (by simp [hx]))
    have e0 : encWords (v :: r) ++ rest = be32 v ++ (encWords r ++ rest) := by simp [encWords]
    have e1 : rdBE (be32 v ++ (encWords r ++ rest)) 0 4 = some v := by
      have := rdBE_at [] (encWords r ++ rest) 4 v 0 hv32 rfl
      simpa [be32] using this
    have e2 : (be32 v ++ (encWords r ++ rest)).drop 4 = encWords r ++ rest :=
      drop_append_len _ _ _ (be32_length v).symm
    have e3 : (be32 v ++ (encWords r ++ rest)).isEmpty = false := by
      cases hh : be32 v ++ (encWords r ++ rest) with
      | nil =>
        have := congrArg List.length hh
        simp at this
      | cons => rfl
    have e4 : ¬ Spec.initLimit ≤ v := by omega
    rw [e0]
    simp only [List.length_cons, decWords, e1, e2, e3, e4, ih', Bool.false_eq_true, ↓reduceIte]

/-! ### `parse_command` on an exported command -/

/-- the head of `parse_command` on data that begins with a well-formed header of a known tag -/
theorem decodeR_hdr (t l p : Nat) (tail : Bytes) (ht : t ∈ Spec.cmdTags) (hl : l < 65536) (hp : p < 256) :
    DCmd.decodeR (hdr t l p ++ tail) = DCmd.decodeBody (hdr t l p ++ tail) t l p := by
  have ht256 : t < 256 := by
    simp only [Spec.cmdTags, List.mem_cons, List.not_mem_nil, or_false] at ht
    omega
  have e := parseHdr_hdr t l p tail ht256 hl hp
  have hcons : hdr t l p ++ tail = u8 t :: (be16 l ++ [u8 p] ++ tail) := by simp [hdr]
  unfold DCmd.decodeR
  rw [hcons] at e ⊢
  simp only [e, u8_toNat t ht256, ht, not_true_eq_false, ↓reduceIte]

/-- every command of `Hab.Cmd` is exported with a header carrying its tag, its size and a one-byte parameter -/
theorem cmd_encode_hdr (c : Cmd) (h : c.WF) :
    ∃ p tail, p < 256 ∧ c.encode = hdr (DCmd.other c).tag c.size p ++ tail := by
  cases c with
  | insKey fl cf alg src tgt loc =>
    exact ⟨fl, [u8 cf, u8 alg, u8 src, u8 tgt] ++ be32 loc, h.1, by simp [Cmd.encode, Cmd.size, DCmd.tag]⟩
  | autDat fl key sf eng cfg loc bl =>
    exact ⟨fl, [u8 key, u8 sf, u8 eng, u8 cfg] ++ be32 loc ++ encBlocks bl, h.1, by simp [Cmd.encode, Cmd.size, DCmd.tag]⟩
  | set itm alg eng cfg => exact ⟨itm, [0, u8 alg, u8 eng, u8 cfg], h.1, by simp [Cmd.encode, Cmd.size, DCmd.tag]⟩
  | unlock e f uid =>
    exact ⟨e, be32 f ++ (if needUid e f then be64 uid else []), h.1, by simp [Cmd.encode, Cmd.size, DCmd.tag]⟩
  | nop p => exact ⟨p, [], h, by simp [Cmd.encode, Cmd.size, DCmd.tag]⟩

theorem dcmd_encode_length (c : DCmd) (h : c.WF) : c.encode.length = c.size := by
  cases c with
  | writeData w o data => simp [DCmd.encode, DCmd.size, encBlocks_length]
  | checkData w o a m count =>
    obtain ⟨_, _, _, _, hc⟩ := h
    cases count with
    | none => simp [DCmd.encode, DCmd.size, countLen]
    | some c => simp [DCmd.encode, DCmd.size, countLen]
  | init e data => simp [DCmd.encode, DCmd.size, encWords_length]
  | other c => exact encode_length c

theorem dcmd_size_ge (c : DCmd) : 4 ≤ c.size := by
  cases c with
  | writeData => simp only [DCmd.size]; omega
  | checkData => simp only [DCmd.size]; omega
  | init => simp only [DCmd.size]; omega
  | other c => exact c.size_ge

theorem decodeR_encode (c : DCmd) (rest : Bytes) (h : c.WF) : DCmd.decodeR (c.encode ++ rest) = .ok c := by
  cases c with
  | writeData w o data =>
    obtain ⟨hw, ho, hl, hd⟩ := h
    have e : (DCmd.writeData w o data).encode ++ rest =
        hdr Spec.cmdWRT_DAT (4 + 8 * data.length) (parByte w o) ++ (encBlocks data ++ rest) := by
      simp [DCmd.encode]
    have n : (4 + 8 * data.length - 4 + 7) / 8 = data.length := by omega
    have g : ¬ (4 + 8 * data.length < 4) := by omega
    rw [e, decodeR_hdr _ _ _ _ (by decide) hl (parByte_lt w o)]
    unfold DCmd.decodeBody
    simp only [g, ↓reduceIte, parByte_width w o hw, parByte_ops w o ho, hw, not_true_eq_false,
      drop_append_len _ _ 4 (hdr_length _ _ _).symm, n, decBlocks_encBlocks data rest hd]
  | checkData w o a m count =>
    obtain ⟨hw, ho, ha, hm, hc⟩ := h
    have t1 : ¬ Spec.cmdCHK_DAT = Spec.cmdWRT_DAT := by decide
    have ha' : a < 256 ^ 4 := by simpa using ha
    have hm' : m < 256 ^ 4 := by simpa using hm
    have r1 : ∀ l tl, rdBE (hdr Spec.cmdCHK_DAT l (parByte w o) ++ (be32 a ++ (be32 m ++ tl))) 4 4 = some a := by
      intro l tl
      have := rdBE_at (hdr Spec.cmdCHK_DAT l (parByte w o)) (be32 m ++ tl) 4 a 4 ha' (by simp)
      simpa [be32, List.append_assoc] using this
    have r2 : ∀ l tl, rdBE (hdr Spec.cmdCHK_DAT l (parByte w o) ++ (be32 a ++ (be32 m ++ tl))) 8 4 = some m := by
      intro l tl
      have := rdBE_at (hdr Spec.cmdCHK_DAT l (parByte w o) ++ be32 a) tl 4 m 8 hm' (by simp)
      simpa [be32, List.append_assoc] using this
    cases count with
    | none =>
      have e : (DCmd.checkData w o a m none).encode ++ rest =
          hdr Spec.cmdCHK_DAT 12 (parByte w o) ++ (be32 a ++ (be32 m ++ rest)) := by
        simp [DCmd.encode, countLen]
      rw [e, decodeR_hdr _ _ _ _ (by decide) (by decide) (parByte_lt w o)]
      unfold DCmd.decodeBody
      simp only [t1, r1, r2, ↓reduceIte, parByte_width w o hw, parByte_ops w o ho, hw, not_true_eq_false,
        show ¬ (12 < 4) by decide, show ¬ (12 - 4 > 8) by decide]
    | some c =>
      have hc32 := hc c rfl
      have hc' : c < 256 ^ 4 := by simpa using hc32
      have e : (DCmd.checkData w o a m (some c)).encode ++ rest =
          hdr Spec.cmdCHK_DAT 16 (parByte w o) ++ (be32 a ++ (be32 m ++ (be32 c ++ rest))) := by
        simp [DCmd.encode, countLen]
      have r3 : rdBE (hdr Spec.cmdCHK_DAT 16 (parByte w o) ++ (be32 a ++ (be32 m ++ (be32 c ++ rest)))) 12 4 = some c := by
        have := rdBE_at (hdr Spec.cmdCHK_DAT 16 (parByte w o) ++ be32 a ++ be32 m) rest 4 c 12 hc' (by simp)
        simpa [be32, List.append_assoc] using this
      rw [e, decodeR_hdr _ _ _ _ (by decide) (by decide) (parByte_lt w o)]
      unfold DCmd.decodeBody
      simp only [t1, r1, r2, r3, ↓reduceIte, parByte_width w o hw, parByte_ops w o ho, hw, not_true_eq_false,
        show ¬ (16 < 4) by decide, show (16 - 4 > 8) by decide]
  | init eng data =>
    obtain ⟨he, hl, hd⟩ := h
    have t1 : ¬ Spec.cmdINIT = Spec.cmdWRT_DAT := by decide
    have t2 : ¬ Spec.cmdINIT = Spec.cmdCHK_DAT := by decide
    have he256 : eng < 256 := by
      simp only [Spec.engineTags, List.mem_cons, List.not_mem_nil, or_false] at he
      omega
    have e : (DCmd.init eng data).encode ++ rest =
        hdr Spec.cmdINIT (4 + 4 * data.length) eng ++ (encWords data ++ rest) := by
      simp [DCmd.encode]
    have n : (4 + 4 * data.length - 4 + 3) / 4 = data.length := by omega
    have g : ¬ (4 + 4 * data.length < 4) := by omega
    rw [e, decodeR_hdr _ _ _ _ (by decide) hl he256]
    unfold DCmd.decodeBody
    simp only [g, t1, t2, he, ↓reduceIte, not_true_eq_false, drop_append_len _ _ 4 (hdr_length _ _ _).symm, n,
      decWords_encWords data rest hd]
  | other c =>
    obtain ⟨hw, hs⟩ := h
    obtain ⟨p, tail, hp, he⟩ := cmd_encode_hdr c hw
    have hge := c.size_ge
    have e : (DCmd.other c).encode ++ rest = hdr (DCmd.other c).tag c.size p ++ (tail ++ rest) := by
      simp only [DCmd.encode]; rw [he, List.append_assoc]
    have ht : (DCmd.other c).tag ∈ Spec.cmdTags := by cases c <;> simp only [DCmd.tag] <;> decide
    have hdec : Cmd.decode (hdr (DCmd.other c).tag c.size p ++ (tail ++ rest)) = some c := by
      rw [← List.append_assoc, ← he]; exact decode_encode c rest hw
    rw [e, decodeR_hdr _ _ _ _ ht hs hp]
    unfold DCmd.decodeBody
    have g : ¬ (c.size < 4) := by omega
    cases c with
    | nop q =>
      have hq : p = q := by
        have h1 := congrArg (fun l => (l.drop 3).head?) he
        simp [Cmd.encode, Cmd.size, DCmd.tag, hdr, be16_eq] at h1
        have h2 := congrArg UInt8.toNat h1
        rw [u8_toNat q hw, u8_toNat p hp] at h2
        exact h2.symm
      subst hq
      simp only [g, DCmd.tag, ↓reduceIte, show ¬ Hab.Spec.cmdNOP = Spec.cmdWRT_DAT by decide,
        show ¬ Hab.Spec.cmdNOP = Spec.cmdCHK_DAT by decide, show ¬ Hab.Spec.cmdNOP = Spec.cmdINIT by decide]
    | insKey =>
      simp only [DCmd.tag] at hdec ⊢
      simp only [g, ↓reduceIte, hdec, show ¬ Hab.Spec.cmdINS_KEY = Spec.cmdWRT_DAT by decide,
        show ¬ Hab.Spec.cmdINS_KEY = Spec.cmdCHK_DAT by decide, show ¬ Hab.Spec.cmdINS_KEY = Spec.cmdINIT by decide,
        show ¬ Hab.Spec.cmdINS_KEY = Hab.Spec.cmdNOP by decide]
    | autDat =>
      simp only [DCmd.tag] at hdec ⊢
      simp only [g, ↓reduceIte, hdec, show ¬ Hab.Spec.cmdAUT_DAT = Spec.cmdWRT_DAT by decide,
        show ¬ Hab.Spec.cmdAUT_DAT = Spec.cmdCHK_DAT by decide, show ¬ Hab.Spec.cmdAUT_DAT = Spec.cmdINIT by decide,
        show ¬ Hab.Spec.cmdAUT_DAT = Hab.Spec.cmdNOP by decide]
    | set =>
      simp only [DCmd.tag] at hdec ⊢
      simp only [g, ↓reduceIte, hdec, show ¬ Hab.Spec.cmdSET = Spec.cmdWRT_DAT by decide,
        show ¬ Hab.Spec.cmdSET = Spec.cmdCHK_DAT by decide, show ¬ Hab.Spec.cmdSET = Spec.cmdINIT by decide,
        show ¬ Hab.Spec.cmdSET = Hab.Spec.cmdNOP by decide]
    | unlock =>
      simp only [DCmd.tag] at hdec ⊢
      simp only [g, ↓reduceIte, hdec, show ¬ Hab.Spec.cmdUNLK = Spec.cmdWRT_DAT by decide,
        show ¬ Hab.Spec.cmdUNLK = Spec.cmdCHK_DAT by decide, show ¬ Hab.Spec.cmdUNLK = Spec.cmdINIT by decide,
        show ¬ Hab.Spec.cmdUNLK = Hab.Spec.cmdNOP by decide]

/-- export → `parse_command` gives the command back, whatever follows it, and `size` is the exported length -/
theorem dcmd_roundtrip (c : DCmd) (rest : Bytes) (h : c.WF) :
    DCmd.decode (c.encode ++ rest) = some c ∧ c.encode.length = c.size := by
  refine ⟨?_, dcmd_encode_length c h⟩
  unfold DCmd.decode
  rw [decodeR_encode c rest h]

/-! ### DCD segment -/
theorem encDcmds_length (l : List DCmd) (h : ∀ c ∈ l, c.WF) : (encDcmds l).length = dcmdsSize l := by
  induction l with
  | nil => rfl
  | cons c r ih =>
    simp [encDcmds, dcmdsSize, dcmd_encode_length c (h c (by simp)), ih (fun x hx => h x (by simp [hx]))]

theorem length_le_dcmdsSize (l : List DCmd) : l.length ≤ dcmdsSize l := by
  induction l with
  | nil => simp [dcmdsSize]
  | cons c r ih => have := dcmd_size_ge c; simp only [List.length_cons, dcmdsSize]; omega

theorem dcdCmds_encDcmds (l : List DCmd) (fuel : Nat) (rest : Bytes) (hw : ∀ c ∈ l, c.WF)
    (hd : ∀ c ∈ l, c.inDcd = true) (hf : l.length ≤ fuel) :
    dcdCmds fuel (encDcmds l ++ rest) (dcmdsSize l) = .ok l := by
  induction l generalizing fuel with
  | nil => cases fuel <;> simp [dcdCmds, dcmdsSize]
  | cons c r ih =>
    obtain ⟨f, rfl⟩ : ∃ f, fuel = f + 1 := ⟨fuel - 1, by simp at hf; omega⟩
    have hs := dcmd_size_ge c
    have hwc := hw c (by simp)
    have h0 : ¬ (c.size + dcmdsSize r = 0) := by omega
    have e : encDcmds (c :: r) ++ rest = c.encode ++ (encDcmds r ++ rest) := by simp [encDcmds]
    have d : (c.encode ++ (encDcmds r ++ rest)).drop c.size = encDcmds r ++ rest :=
      drop_append_len _ _ _ (dcmd_encode_length c hwc).symm
    have s : c.size + dcmdsSize r - c.size = dcmdsSize r := by omega
    have ih' := ih f (fun x hx => hw x (by simp [hx])) (fun x hx => hd x (by simp [hx])) (by simp at hf; omega)
    rw [e]
    simp only [dcdCmds, dcmdsSize, h0, ↓reduceIte, decodeR_encode c _ hwc, hd c (by simp), d, s, ih',
      not_true_eq_false]

theorem dcdEncode_length (p : Nat) (cmds : List DCmd) (hw : ∀ c ∈ cmds, c.WF) :
    (dcdEncode p cmds).length = dcdLen cmds := by
  simp [dcdEncode, dcdLen, encDcmds_length cmds hw]

/-- `SegDCD.parse(SegDCD.export() ‖ anything)` gives parameter and command list back -/
theorem dcd_segment_roundtrip (p : Nat) (cmds : List DCmd) (rest : Bytes) (hp : p < 256)
    (hw : ∀ c ∈ cmds, c.WF) (hd : ∀ c ∈ cmds, c.inDcd = true) (hl : dcdLen cmds < 65536) :
    dcdParse (dcdEncode p cmds ++ rest) = .ok (p, cmds) := by
  have e : dcdEncode p cmds ++ rest = hdr Hab.Spec.tagDCD (dcdLen cmds) p ++ (encDcmds cmds ++ rest) := by
    simp [dcdEncode]
  have g : ¬ (dcdLen cmds < 4) := by unfold dcdLen; omega
  have s : dcdLen cmds - 4 = dcmdsSize cmds := by unfold dcdLen; omega
  have hf : cmds.length ≤ dcdLen cmds := by have := length_le_dcmdsSize cmds; unfold dcdLen; omega
  unfold dcdParse
  rw [e, parseHdr_hdr _ _ _ _ (by decide) hl hp]
  simp only [ne_eq, not_true_eq_false, ↓reduceIte, g, drop_append_len _ _ 4 (hdr_length _ _ _).symm, s,
    dcdCmds_encDcmds cmds _ rest hw hd hf]

/-- an exported DCD is what the container theorems call a well-formed DCD block (`Hab.DcdWF`), provided its parameter
    byte is not the XMCD tag/version byte 0xC0 -/
theorem dcd_export_wf (p : Nat) (cmds : List DCmd) (hp : p < 256) (hx : p ≠ 0xC0)
    (hw : ∀ c ∈ cmds, c.WF) (hl : dcdLen cmds < 65536) : DcdWF (dcdEncode p cmds) := by
  have hlen := dcdEncode_length p cmds hw
  refine ⟨by rw [hlen]; exact hl, p, encDcmds cmds, hp, ?_, by rw [hlen]; rfl⟩
  have : Generated.HabConsts.xmcdHeaderTag = 12 := rfl
  rw [this]
  omega

/-! ### Check Data with poll count 0 (fixed by 8656d83) -/
/-- `CmdCheckData(…, count=0)`: the count is exported AND counted in the header length (16 = `size`), and
    `parse_command` of the export gives the command back with `count = 0` — before 8656d83 the header said 12 and the
    count was lost -/
theorem checkData_zero_count_roundtrip (w o a m : Nat) (hw : w ∈ Spec.widths) (ho : o < 4) (ha : a < 2 ^ 32)
    (hm : m < 2 ^ 32) (rest : Bytes) :
    (DCmd.checkData w o a m (some 0)).size = 16 ∧ (DCmd.checkData w o a m (some 0)).encode.length = 16 ∧
    DCmd.decode ((DCmd.checkData w o a m (some 0)).encode ++ rest) = some (.checkData w o a m (some 0)) := by
  refine ⟨rfl, by simp [DCmd.encode, countLen], ?_⟩
  exact (dcmd_roundtrip (.checkData w o a m (some 0)) _
    ⟨hw, ho, ha, hm, by intro c hc; injection hc with hc; subst hc; decide⟩).1

/-! ### boot data -/
theorem bdt_roundtrip_aux (s l p : Nat) (rest : Bytes) (hs : s < 2 ^ 32) (hl : l < 2 ^ 32) (hp : p ≤ 2) :
    bdtParse (bdtEncode s l p ++ rest) = .ok (s, l, p) := by
  have hs' : s < 256 ^ 4 := by simpa using hs
  have hl' : l < 256 ^ 4 := by simpa using hl
  have hp' : p < 256 ^ 4 := by
    have e : (256 : Nat) ^ 4 = 4294967296 := by decide
    omega
  have r1 : rdLE (le32 s ++ le32 l ++ le32 p ++ rest) 0 4 = some s := by
    have := rdLE_at [] (le32 l ++ le32 p ++ rest) 4 s 0 hs' rfl
    simpa [le32, List.append_assoc] using this
  have r2 : rdLE (le32 s ++ le32 l ++ le32 p ++ rest) 4 4 = some l := by
    have := rdLE_at (le32 s) (le32 p ++ rest) 4 l 4 hl' (by simp)
    simpa [le32, List.append_assoc] using this
  have r3 : rdLE (le32 s ++ le32 l ++ le32 p ++ rest) 8 4 = some p := by
    have := rdLE_at (le32 s ++ le32 l) rest 4 p 8 hp' (by simp)
    simpa [le32, List.append_assoc] using this
  unfold bdtParse bdtEncode
  simp only [r1, r2, r3, hp, ↓reduceIte]

end SpsdkVerif.HabDcd
