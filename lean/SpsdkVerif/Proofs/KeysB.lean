/-
Helper proofs for C08, part B: NXP raw public keys (RSA `modulus ‖ exponent`, ECC `X ‖ Y`), the length
windows of the sniffing, `PublicKey.parse` routing and `SPSDKEncoding.get_file_encodings`.
(Part A — DER codec, ECDSA signatures, signature provider, verify — is Proofs/Keys.lean.)
-/
import SpsdkVerif.Proofs.KeysBase

namespace SpsdkVerif.Keys.B
open SpsdkVerif SpsdkVerif.Keys SpsdkVerif.Misc SpsdkVerif.Generated

/-- every (curve, raw/DER) the ECC length test of `recreate_from_data` would accept for a blob of `L` bytes -/
def eccMatches (L : Nat) : List (Curve × Bool) :=
  Curve.all.filterMap (fun c => (KeysTables.eccGetCurveStep c.keySize L).map (fun d => (c, d)))
/-- every RSA key size whose window of `recreate_public_numbers` contains `L` -/
def rsaMatches (L : Nat) : List Nat :=
  KeysTables.rsaSupportedKeySizes.filter (fun ks => KeysTables.rsaRawWindow (KeysTables.rsaKeySizeBytes ks) L)
/-- every curve `ECDSASignature.get_ecc_curve` would accept for a signature of `L` bytes -/
def sigMatches (L : Nat) : List Curve :=
  (sigTable.filter (fun p => KeysTables.sigCurveStep L p.2)).map (·.1)

theorem rsa_raw_roundtrip (ks n e : Nat) (hks : ks ∈ KeysTables.rsaSupportedKeySizes) (hn : TopBit n ks)
    (he : 65536 ≤ e ∧ e < 2 ^ 32) :
    ∃ d, rsaExportNxp n e = .ok d ∧ d = beEnc (ks / 8) n ++ beEnc (byteLen e) e ∧
      (d.length = ks / 8 + 3 ∨ d.length = ks / 8 + 4) ∧ rsaRecreateNumbers d = .ok (n, e) := by
  sorry

theorem ecc_raw_roundtrip (ext : Ext) (c : Curve) (x y : Nat) (hx : x < 256 ^ c.cl) (hy : y < 256 ^ c.cl)
    (hon : ext.onCurve c x y = true) :
    eccExportNxp c x y = .ok (rawSig c x y) ∧ (rawSig c x y).length = 2 * c.cl ∧
      eccRecreateFromData ext (rawSig c x y) none = .ok (.ecc c x y) ∧
      eccRecreateFromData ext (rawSig c x y) (some c) = .ok (.ecc c x y) := by
  sorry

theorem raw_lengths_unambiguous (L : Nat) :
    (eccMatches L).length + (rsaMatches L).length ≤ 1 ∧ (sigMatches L).length ≤ 1 := by
  sorry

theorem sniffed_raw_lengths (L : Nat) :
    KeysTables.sigSniffNxp L = true ↔ L ∈ [64, 65, 96, 97, 132, 133] := by
  sorry

theorem sniff_der_long (l : UInt8) (rest : Bytes) (hl : 0x80 ≤ l.toNat ∧ l.toNat ≤ 0xBF) :
    fileEncoding (0x30 :: l :: rest) = .der := by
  sorry

theorem sniff_pem_ascii (d : Bytes) (hascii : ∀ b ∈ d, b.toNat < 128) (hd : hasDashes d = true) :
    fileEncoding d = .pem := by
  sorry

theorem sniff_no_dashes (d : Bytes) (hd : hasDashes d = false) : fileEncoding d = .der := by
  sorry

theorem pubparse_nxp_ecc (ext : Ext) (c : Curve) (x y : Nat) (hx : x < 256 ^ c.cl) (hy : y < 256 ^ c.cl)
    (hon : ext.onCurve c x y = true) (hder : ext.loadDer = none) (hs : fileEncoding (rawSig c x y) = .der) :
    pubParse ext (rawSig c x y) = .ok (.ecc c x y) ∧ pubParseEcc ext (rawSig c x y) = .ok (.ecc c x y) ∧
      pubParseRsa ext (rawSig c x y) = .error .spsdk := by
  sorry

theorem pubparse_nxp_rsa (ext : Ext) (ks n e : Nat) (hks : ks ∈ KeysTables.rsaSupportedKeySizes) (hn : TopBit n ks)
    (he : 65536 ≤ e ∧ e < 2 ^ 32) (hok : ext.rsaOk n e = true) (hder : ext.loadDer = none)
    (d : Bytes) (hd : rsaExportNxp n e = .ok d) (hs : fileEncoding d = .der) :
    pubParse ext d = .ok (.rsa n e) ∧ pubParseRsa ext d = .ok (.rsa n e) ∧ pubParseEcc ext d = .error .spsdk := by
  sorry

end SpsdkVerif.Keys.B
