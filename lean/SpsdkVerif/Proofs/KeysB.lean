/-
Helper proofs for C08, part B: NXP raw public keys (RSA `modulus ‖ exponent`, ECC `X ‖ Y`), the length
windows of the sniffing, `PublicKey.parse` routing and `SPSDKEncoding.get_file_encodings`.
(Part A — DER codec, ECDSA signatures, signature provider, verify — is Proofs/Keys.lean.)
-/
import SpsdkVerif.Proofs.KeysBase

namespace SpsdkVerif.Keys.B
open SpsdkVerif SpsdkVerif.Keys SpsdkVerif.Misc SpsdkVerif.Generated

/-- every (curve, raw/DER) the ECC length test of `recreate_from_data` would accept for a blob of `L` bytes -/
def eccMatches (L : Nat) : List (Curve × Bool) :=
  Curve.all.filterMap (fun c => (KeysTables.eccGetCurveStep c.keySize L).map (fun d => (c, d)))
/-- every RSA key size whose window of `recreate_public_numbers` contains `L` -/
def rsaMatches (L : Nat) : List Nat :=
  KeysTables.rsaSupportedKeySizes.filter (fun ks => KeysTables.rsaRawWindow (KeysTables.rsaKeySizeBytes ks) L)
/-- every curve `ECDSASignature.get_ecc_curve` would accept for a signature of `L` bytes -/
def sigMatches (L : Nat) : List Curve :=
  (sigTable.filter (fun p => KeysTables.sigCurveStep L p.2)).map (·.1)

/-! ### the generated integer tests, as propositions (generic in the table values) -/

theorem rsaWin_iff (kb L : Nat) : KeysTables.rsaRawWindow kb L = true ↔ kb + 3 ≤ L ∧ L ≤ kb + 4 := by
  simp [KeysTables.rsaRawWindow]

theorem sigStep_iff (L c : Nat) :
    KeysTables.sigCurveStep L c = true ↔ (L = c * 2 ∨ (c * 2 + 3 ≤ L ∧ L < c * 2 + 9)) := by
  simp [KeysTables.sigCurveStep]

theorem eccStep_false_iff (k L : Nat) :
    KeysTables.eccGetCurveStep k L = some false ↔ L = (k + 7) / 8 * 2 := by
  simp only [KeysTables.eccGetCurveStep]
  (repeat' split) <;> simp_all <;> omega

theorem eccStep_true_iff (k L : Nat) :
    KeysTables.eccGetCurveStep k L = some true ↔ ((k + 7) / 8 * 2 + 7 ≤ L ∧ L ≤ (k + 7) / 8 * 2 + 9) := by
  simp only [KeysTables.eccGetCurveStep]
  (repeat' split) <;> simp_all <;> omega

theorem eccStep_none_iff (k L : Nat) :
    KeysTables.eccGetCurveStep k L = none ↔ (L ≠ (k + 7) / 8 * 2 ∧ ¬ ((k + 7) / 8 * 2 + 7 ≤ L ∧ L ≤ (k + 7) / 8 * 2 + 9)) := by
  simp only [KeysTables.eccGetCurveStep]
  (repeat' split) <;> simp_all <;> omega

theorem eccStep_none (c : Curve) (L : Nat) (h : 1024 ≤ L) : KeysTables.eccGetCurveStep c.keySize L = none := by
  rw [eccStep_none_iff]
  cases c <;> simp only [Curve.keySize] <;> omega

theorem rsaWin_false (ks L : Nat) (hks : ks ∈ KeysTables.rsaSupportedKeySizes) (h : 1024 ≤ L) :
    KeysTables.rsaRawWindow (KeysTables.rsaKeySizeBytes ks) L = false := by
  rw [← Bool.not_eq_true, rsaWin_iff]
  simp [KeysTables.rsaSupportedKeySizes] at hks
  rcases hks with rfl | rfl | rfl <;> simp only [KeysTables.rsaKeySizeBytes] <;> omega

theorem sigTable_eq : sigTable = [(.p256, 32), (.p384, 48), (.p521, 66)] := by decide

theorem sigStep_false (p : Curve × Nat) (L : Nat) (hp : p ∈ sigTable) (h : 1024 ≤ L) :
    KeysTables.sigCurveStep L p.2 = false := by
  rw [← Bool.not_eq_true, sigStep_iff]
  rw [sigTable_eq] at hp
  simp at hp
  rcases hp with rfl | rfl | rfl <;> simp only [] <;> omega

/-! ### RSA raw `modulus ‖ exponent` -/

theorem two_pow_eight_mul (k : Nat) : 2 ^ (8 * k) = 256 ^ k := by
  rw [Nat.pow_mul]

/-- a number of exactly `8 * k` bits occupies exactly `k` bytes -/
theorem byteLen_topbit (n ks k : Nat) (hks : ks = 8 * k) (hk : 0 < k) (hn : TopBit n ks) : byteLen n = k := by
  subst hks
  obtain ⟨h1, h2⟩ := hn
  rw [two_pow_eight_mul] at h2
  have hle : byteLen n ≤ k := byteLen_le_of_lt n k h2
  have h3 : 256 ^ (k - 1) ≤ 2 ^ (8 * k - 1) := by
    rw [← two_pow_eight_mul]
    exact Nat.pow_le_pow_right (by omega) (by omega)
  have hge : k ≤ byteLen n := le_byteLen_of_le n k (Nat.le_trans h3 h1) hk
  omega

theorem byteLen_exp (e : Nat) (he : 65536 ≤ e ∧ e < 2 ^ 32) : byteLen e = 3 ∨ byteLen e = 4 := by
  have h1 : 3 ≤ byteLen e := le_byteLen_of_le e 3 (by simpa using he.1) (by omega)
  have h2 : byteLen e ≤ 4 := byteLen_le_of_lt e 4 (by simpa using he.2)
  omega

theorem rsaExport_eq (n e : Nat) : rsaExportNxp n e = .ok (beEnc (byteLen n) n ++ beEnc (byteLen e) e) := by
  simp [rsaExportNxp, toBytes_ok, lt_pow_byteLen]

theorem rsaSizes_cases (ks : Nat) (hks : ks ∈ KeysTables.rsaSupportedKeySizes) :
    ks = 2048 ∨ ks = 3072 ∨ ks = 4096 := by
  simpa [KeysTables.rsaSupportedKeySizes] using hks

/-- the windows of the supported RSA sizes are disjoint, so a length inside the window of `ks` selects `ks / 8` -/
theorem rsaRecreate_of_len (d : Bytes) (ks : Nat) (hks : ks ∈ KeysTables.rsaSupportedKeySizes)
    (hlen : ks / 8 + 3 ≤ d.length ∧ d.length ≤ ks / 8 + 4) :
    rsaRecreateNumbers d = .ok (beDec (d.take (ks / 8)), beDec (d.drop (ks / 8))) := by
  unfold rsaRecreateNumbers
  cases hf : KeysTables.rsaSupportedKeySizes.find?
      (fun ks => KeysTables.rsaRawWindow (KeysTables.rsaKeySizeBytes ks) d.length) with
  | none =>
    have := List.find?_eq_none.1 hf ks hks
    rw [rsaWin_iff] at this
    simp only [KeysTables.rsaKeySizeBytes] at this
    omega
  | some ks' =>
    have hp := List.find?_some hf
    have hm := List.mem_of_find?_eq_some hf
    rw [rsaWin_iff] at hp
    simp only [KeysTables.rsaKeySizeBytes] at hp ⊢
    have : ks' / 8 = ks / 8 := by
      rcases rsaSizes_cases ks hks with rfl | rfl | rfl <;>
        rcases rsaSizes_cases ks' hm with rfl | rfl | rfl <;> omega
    rw [this]

theorem rsa_raw_roundtrip (ks n e : Nat) (hks : ks ∈ KeysTables.rsaSupportedKeySizes) (hn : TopBit n ks)
    (he : 65536 ≤ e ∧ e < 2 ^ 32) :
    ∃ d, rsaExportNxp n e = .ok d ∧ d = beEnc (ks / 8) n ++ beEnc (byteLen e) e ∧
      (d.length = ks / 8 + 3 ∨ d.length = ks / 8 + 4) ∧ rsaRecreateNumbers d = .ok (n, e) := by
  have hk : ks = 8 * (ks / 8) ∧ 0 < ks / 8 := by
    rcases rsaSizes_cases ks hks with rfl | rfl | rfl <;> omega
  have hbn : byteLen n = ks / 8 := byteLen_topbit n ks (ks / 8) hk.1 hk.2 hn
  have hbe := byteLen_exp e he
  have hlen : (beEnc (ks / 8) n ++ beEnc (byteLen e) e).length = ks / 8 + byteLen e := by
    rw [List.length_append, beEnc_length, beEnc_length]
  refine ⟨_, ?_, rfl, ?_, ?_⟩
  · rw [rsaExport_eq, hbn]
  · rw [hlen]; omega
  · rw [rsaRecreate_of_len _ ks hks (by rw [hlen]; omega)]
    rw [List.take_left' (beEnc_length _ _), List.drop_left' (beEnc_length _ _)]
    rw [beDec_beEnc _ _ (lt_pow_byteLen e), beDec_beEnc]
    rw [← hbn]; exact lt_pow_byteLen n

/-! ### ECC raw `X ‖ Y` -/

theorem eccGetCurve_raw (c : Curve) :
    eccGetCurve (2 * c.cl) none = .ok (c, false) ∧ eccGetCurve (2 * c.cl) (some c) = .ok (c, false) := by
  cases c <;> decide

theorem eccRecreate_raw (ext : Ext) (c : Curve) (x y : Nat) (hx : x < 256 ^ c.cl) (hy : y < 256 ^ c.cl)
    (hon : ext.onCurve c x y = true) (o : Option Curve) (ho : eccGetCurve (2 * c.cl) o = .ok (c, false)) :
    eccRecreateFromData ext (rawSig c x y) o = .ok (.ecc c x y) := by
  have hl : (rawSig c x y).length = 2 * c.cl := pair_length _ _ _
  have hh : 2 * c.cl / 2 = c.cl := by omega
  unfold eccRecreateFromData
  rw [hl, ho]
  simp only [hh]
  unfold rawSig
  rw [take_pair, drop_pair, beDec_beEnc _ _ hx, beDec_beEnc _ _ hy, hon]
  simp

theorem ecc_raw_roundtrip (ext : Ext) (c : Curve) (x y : Nat) (hx : x < 256 ^ c.cl) (hy : y < 256 ^ c.cl)
    (hon : ext.onCurve c x y = true) :
    eccExportNxp c x y = .ok (rawSig c x y) ∧ (rawSig c x y).length = 2 * c.cl ∧
      eccRecreateFromData ext (rawSig c x y) none = .ok (.ecc c x y) ∧
      eccRecreateFromData ext (rawSig c x y) (some c) = .ok (.ecc c x y) :=
  ⟨rawPair_ok _ _ _ hx hy, pair_length _ _ _,
   eccRecreate_raw ext c x y hx hy hon none (eccGetCurve_raw c).1,
   eccRecreate_raw ext c x y hx hy hon (some c) (eccGetCurve_raw c).2⟩

/-! ### length windows -/

theorem raw_small : ∀ L, L < 1024 →
    ((eccMatches L).length + (rsaMatches L).length ≤ 1 ∧ (sigMatches L).length ≤ 1) := by
  decide +kernel

theorem raw_lengths_unambiguous (L : Nat) :
    (eccMatches L).length + (rsaMatches L).length ≤ 1 ∧ (sigMatches L).length ≤ 1 := by
  by_cases h : L < 1024
  · exact raw_small L h
  · have h' : 1024 ≤ L := by omega
    have e1 : eccMatches L = [] := by
      unfold eccMatches
      rw [List.filterMap_eq_nil_iff]
      intro c _
      simp [eccStep_none c L h']
    have e2 : rsaMatches L = [] := by
      unfold rsaMatches
      rw [List.filter_eq_nil_iff]
      intro ks hks
      simp [rsaWin_false ks L hks h']
    have e3 : sigMatches L = [] := by
      unfold sigMatches
      rw [List.map_eq_nil_iff, List.filter_eq_nil_iff]
      intro p hp
      simp [sigStep_false p L hp h']
    simp [e1, e2, e3]

theorem sniff_small : ∀ L, L < 1024 → (KeysTables.sigSniffNxp L = true ↔ L ∈ [64, 65, 96, 97, 132, 133]) := by
  decide +kernel

theorem sniffed_raw_lengths (L : Nat) :
    KeysTables.sigSniffNxp L = true ↔ L ∈ [64, 65, 96, 97, 132, 133] := by
  by_cases h : L < 1024
  · exact sniff_small L h
  · have h' : 1024 ≤ L := by omega
    constructor
    · intro hs
      simp [KeysTables.sigSniffNxp, KeysTables.coordinateLengths] at hs
      omega
    · intro hm
      simp at hm
      omega

/-! ### `get_file_encodings` -/

theorem sniff_der_long (l : UInt8) (rest : Bytes) (hl : 0x80 ≤ l.toNat ∧ l.toNat ≤ 0xBF) :
    fileEncoding (0x30 :: l :: rest) = .der := by
  have : utf8Valid (0x30 :: l :: rest) = false := by
    have h1 : ¬ l.toNat < 128 := by omega
    have h2 : ¬ (194 ≤ l.toNat ∧ l.toNat ≤ 223) := by omega
    have h3 : ¬ (224 ≤ l.toNat ∧ l.toNat ≤ 239) := by omega
    have h4 : ¬ (240 ≤ l.toNat ∧ l.toNat ≤ 244) := by omega
    simp [utf8Valid, utf8ValidF, h1, h2, h3, h4]
  simp [fileEncoding, this]

theorem utf8_ascii : ∀ (f : Nat) (d : Bytes), d.length ≤ f → (∀ b ∈ d, b.toNat < 128) → utf8ValidF f d = true := by
  intro f
  induction f with
  | zero => intro d hl _; cases d with
    | nil => simp [utf8ValidF]
    | cons a t => simp at hl
  | succ f ih =>
    intro d hl ha
    cases d with
    | nil => simp [utf8ValidF]
    | cons a t =>
      have h1 : a.toNat < 128 := ha a (by simp)
      simp [utf8ValidF, h1]
      apply ih
      · simp at hl; omega
      · intro b hb; exact ha b (by simp [hb])

theorem sniff_pem_ascii (d : Bytes) (hascii : ∀ b ∈ d, b.toNat < 128) (hd : hasDashes d = true) :
    fileEncoding d = .pem := by
  simp [fileEncoding, hd, utf8Valid, utf8_ascii d.length d (Nat.le_refl _) hascii]

theorem sniff_no_dashes (d : Bytes) (hd : hasDashes d = false) : fileEncoding d = .der := by
  simp [fileEncoding, hd]

/-! ### `PublicKey.parse` routing -/

theorem pubparse_nxp_ecc (ext : Ext) (c : Curve) (x y : Nat) (hx : x < 256 ^ c.cl) (hy : y < 256 ^ c.cl)
    (hon : ext.onCurve c x y = true) (hder : ext.loadDer = none) (hs : fileEncoding (rawSig c x y) = .der) :
    pubParse ext (rawSig c x y) = .ok (.ecc c x y) ∧ pubParseEcc ext (rawSig c x y) = .ok (.ecc c x y) ∧
      pubParseRsa ext (rawSig c x y) = .error .spsdk := by
  have h1 : pubParse ext (rawSig c x y) = .ok (.ecc c x y) := by
    simp [pubParse, hs, hder, (ecc_raw_roundtrip ext c x y hx hy hon).2.2.1]
  refine ⟨h1, ?_, ?_⟩
  · simp [pubParseEcc, h1]
  · simp [pubParseRsa, h1]

theorem eccGetCurve_rsa_len (ks L : Nat) (hks : ks ∈ KeysTables.rsaSupportedKeySizes)
    (h : ks / 8 + 3 ≤ L ∧ L ≤ ks / 8 + 4) : eccGetCurve L none = .error .spsdk := by
  have : L = 259 ∨ L = 260 ∨ L = 387 ∨ L = 388 ∨ L = 515 ∨ L = 516 := by
    rcases rsaSizes_cases ks hks with rfl | rfl | rfl <;> omega
  rcases this with rfl | rfl | rfl | rfl | rfl | rfl <;> decide

theorem pubparse_nxp_rsa (ext : Ext) (ks n e : Nat) (hks : ks ∈ KeysTables.rsaSupportedKeySizes) (hn : TopBit n ks)
    (he : 65536 ≤ e ∧ e < 2 ^ 32) (hok : ext.rsaOk n e = true) (hder : ext.loadDer = none)
    (d : Bytes) (hd : rsaExportNxp n e = .ok d) (hs : fileEncoding d = .der) :
    pubParse ext d = .ok (.rsa n e) ∧ pubParseRsa ext d = .ok (.rsa n e) ∧ pubParseEcc ext d = .error .spsdk := by
  obtain ⟨d', hd', _, hlen, hrec⟩ := rsa_raw_roundtrip ks n e hks hn he
  have hdd : d' = d := by
    rw [hd'] at hd; exact Except.ok.inj hd
  subst hdd
  have hecc : eccRecreateFromData ext d' none = .error .spsdk := by
    unfold eccRecreateFromData
    rw [eccGetCurve_rsa_len ks d'.length hks (by omega)]
  have hrsa : rsaRecreateFromData ext d' = .ok (.rsa n e) := by
    simp [rsaRecreateFromData, hrec, hok]
  have h1 : pubParse ext d' = .ok (.rsa n e) := by
    simp [pubParse, hs, hder, hecc, hrsa]
  refine ⟨h1, ?_, ?_⟩
  · simp [pubParseRsa, h1]
  · simp [pubParseEcc, h1]

end SpsdkVerif.Keys.B
