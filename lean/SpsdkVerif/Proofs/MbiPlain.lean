/-
MBI image theorems for the `plain` family (classes whose `collect_data` resolves to the plain collector).
See Properties/C01.lean for the statements' meaning; base lemmas in Proofs/MbiBase.lean.
-/
import SpsdkVerif.Proofs.MbiBase

namespace SpsdkVerif.Mbi
open SpsdkVerif SpsdkVerif.Misc SpsdkVerif.Crypto
open SpsdkVerif.Generated.IvtConsts
open SpsdkVerif.Generated.MbiClasses (MixinName Method Attr provider attrs preParsed isData parent countInLegacyCertBlockLen)

variable {co : CryptoOps} {env : Env} {c : Cls} {cfg : Cfg} {signer : Signer}

/-- what `ClassWF` says about a class of the plain family -/
structure PlainCls (c : Cls) : Prop where
  himgType : c.imageType ≤ imageTypeMask
  htzSize : c.tzSize % 4 = 0
  hivt : c.hasAttr .ivt_table = true
  hclean : c.hasAttr .clean_ivt = true
  hApp : c.has .Mbi_MixinApp = true
  happTable : c.hasAttr .app_table = c.has .Mbi_MixinRelocTable
  hdis : c.hasAttr .disassembly_app_data = c.has .Mbi_MixinRelocTable
  hla : c.hasAttr .load_address = c.has .Mbi_MixinLoadAddress
  hsub : c.hasAttr .image_subtype = c.has .Mbi_MixinImageSubType
  hver : c.hasAttr .image_version = c.has .Mbi_MixinImageVersion
  hv2t : c.hasAttr .image_version_to_image_type = c.has .Mbi_MixinImageVersion
  hhw : c.hasAttr .user_hw_key_enabled = c.has .Mbi_MixinHwKey
  hks : c.hasAttr .key_store = false
  hhmac : c.hasAttr .hmac_key = false
  hbca : c.hasAttr .bca = false
  hfcf : c.hasAttr .fcf = false
  hdisasm : c.resolve .disassemble_image = c.resolve .collect_data
  henc : c.resolve .encrypt = none
  hpenc : c.resolve .post_encrypt = none
  hfin : c.resolve .finalize = none
  hsign : c.signKind = .none ∨ c.signKind = .crc
  hcrc : c.signKind = .crc ↔ c.imageType ≠ 0
  hcert : c.hasAttr .cert_block = false
  hnoHmac : c.has .Mbi_MixinHmac = false
  hnoKs : c.has .Mbi_MixinKeyStore = false
  hmk : c.manifestKind = none
  hnoCtr : c.has .Mbi_MixinCtrInitVector = false
  hcoll : c.resolve .collect_data = some .Mbi_ExportMixinApp ∧ c.has .Mbi_MixinTrustZone = false
        ∨ c.resolve .collect_data = some .Mbi_ExportMixinAppTrustZone ∧ c.has .Mbi_MixinTrustZone = true
  hlen : lenProvidersAre c.lenProviders ([.Mbi_MixinApp] ++ optList (c.has .Mbi_MixinRelocTable) .Mbi_MixinRelocTable
            ++ optList (c.has .Mbi_MixinTrustZone) .Mbi_MixinTrustZone) = true

theorem plainCls (h : ClassWF c = true) (hf : c.family = some .plain) : PlainCls c := by
  unfold ClassWF at h
  simp only [Bool.and_eq_true, hf] at h
  obtain ⟨⟨⟨⟨⟨⟨⟨⟨⟨⟨⟨⟨⟨⟨⟨⟨⟨⟨⟨⟨⟨a1, a2⟩, a3⟩, a4⟩, a5⟩, a6⟩, a7⟩, a8⟩, a9⟩, a10⟩, a11⟩, a12⟩, a13⟩, a14⟩, a15⟩, a16⟩, a17⟩,
    a18⟩, a19⟩, a20⟩, a21⟩, ⟨⟨⟨⟨⟨⟨⟨⟨⟨⟨⟨⟨b1, b2⟩, b3⟩, b4⟩, b5⟩, b6⟩, b7⟩, b8⟩, b9⟩, b10⟩, b11⟩, b12⟩, b13⟩⟩ := h
  have hmk : c.manifestKind = none := by simpa using b10
  have hnoHmac : c.has .Mbi_MixinHmac = false := by simpa using b8
  have hnoKs : c.has .Mbi_MixinKeyStore = false := by simpa using b9
  rw [hmk] at b12 b13
  simp only [Option.isNone_none, Bool.and_true] at b12 b13
  refine { himgType := by simpa using a1, htzSize := by simpa using a2, hivt := a3, hclean := a4, hApp := a6,
           happTable := by simpa using a11, hdis := by simpa using a12, hla := by simpa using a13,
           hsub := by simpa using a14, hver := by simpa using a15, hv2t := by simpa using a16,
           hhw := by simpa using a17, hks := by simpa [hnoKs] using a18, hhmac := by simpa [hnoHmac] using a19,
           hbca := by simpa using a20, hfcf := by simpa using a21, hdisasm := by simpa using b1,
           henc := by simpa using b2, hpenc := by simpa using b3, hfin := by simpa using b4,
           hsign := by simpa using b5, hcrc := ?_, hcert := by simpa using b7, hnoHmac := hnoHmac, hnoKs := hnoKs,
           hmk := hmk, hnoCtr := by simpa using b11, hcoll := ?_, hlen := b13 }
  · rw [beq_iff_eq] at b6
    by_cases hs : c.signKind = .crc
    · rw [hs] at b6; simp only [beq_self_eq_true] at b6
      have : c.imageType ≠ 0 := by simpa using b6.symm
      exact ⟨fun _ => this, fun _ => hs⟩
    · have h1 : (c.signKind == SignKind.crc) = false := by simpa using hs
      rw [h1] at b6
      have : c.imageType = 0 := by simpa using b6.symm
      exact ⟨fun h => absurd h hs, fun h => absurd this h⟩
  · clear a8 a9 a10 b13
    unfold Cls.family at hf
    by_cases htz : c.has .Mbi_MixinTrustZone = true
    · rw [htz] at b12; right; exact ⟨by simpa using b12, htz⟩
    · have htz' : c.has .Mbi_MixinTrustZone = false := by simpa using htz
      rw [htz'] at b12
      left; refine ⟨?_, htz'⟩
      have hne : c.resolve .collect_data ≠ some .Mbi_ExportMixinAppTrustZone := by simpa using b12
      split at hf
      · assumption
      · contradiction
      all_goals simp at hf

/-! ### mixin-level facts (decided over the 40 mixin names) -/

theorem plain_has_hasAttr (base : MixinName) (a : Attr)
    (hd : ∀ m, derivesFrom m base = true → (attrs m).contains a = true) (h : c.has base = true) : c.hasAttr a = true := by
  unfold Cls.has at h; unfold Cls.hasAttr
  rw [List.any_eq_true] at h ⊢
  obtain ⟨m, hm, hb⟩ := h
  exact ⟨m, hm, hd m hb⟩

theorem plain_has_false_of_hasAttr (base : MixinName) (a : Attr)
    (hd : ∀ m, derivesFrom m base = true → (attrs m).contains a = true) (h : c.hasAttr a = false) : c.has base = false := by
  cases hb : c.has base
  · rfl
  · rw [plain_has_hasAttr base a hd hb] at h; exact absurd h (by simp)

/-- what `cfgWF` says for a class of the plain family -/
structure PlainCfg (c : Cls) (cfg : Cfg) : Prop where
  hval : validate c cfg = .ok ()
  hpack : packGuard c cfg = .ok ()
  hla : cfg.loadAddress < 2 ^ 32
  hiv : cfg.imageVersion < 2 ^ 16
  hst : cfg.subType ≤ subTypeMask
  hflags : flagsOf c cfg < 2 ^ 32
  htz : ∀ d, cfg.tz = .custom d → d.length = c.tzSize ∧ c.tzSize > 0
  hnotz : c.hasTrustZone = false → cfg.tz = .enabled
  hreloc : ∀ es, cfg.reloc = some es → (∀ e ∈ es, relocEntryOk e = true) ∧ c.has .Mbi_MixinRelocTable = true ∧ es ≠ []
  hks : cfg.keyStore = none
  hhmac : cfg.hmacKey = none
  hbca : cfg.bca = none
  hfcf : cfg.fcf = none
  hcert : cfg.cert = []
  hsigLen : cfg.sigLen = 0
  hdigest : cfg.digest = none
  hfw : cfg.fwVersion = 0
  hnoIv : c.has .Mbi_MixinImageVersion = false → cfg.imageVersion = 0
  hnoSub : c.has .Mbi_MixinImageSubType = false → cfg.subType = 0
  hnoHw : c.has .Mbi_MixinHwKey = false → cfg.hwKey = false
  hnoLa : c.has .Mbi_MixinLoadAddress = false → cfg.loadAddress = 0
  hctr : cfg.ctrIv = []

theorem plainCfg (hc : PlainCls c) (h : cfgWF c cfg = true) : PlainCfg c cfg := by
  unfold cfgWF at h
  simp only [Bool.and_eq_true] at h
  obtain ⟨⟨⟨⟨⟨⟨⟨⟨⟨⟨⟨⟨⟨⟨⟨⟨⟨⟨⟨⟨⟨⟨⟨⟨⟨⟨a1, a2⟩, a3⟩, a4⟩, a5⟩, a6⟩, a7⟩, a8⟩, a9⟩, a10⟩, a11⟩, a12⟩, a13⟩, a14⟩, a15⟩, a16⟩, a17⟩,
    a18⟩, a19⟩, a20⟩, a21⟩, a22⟩, a23⟩, a24⟩, a25⟩, a26⟩, a27⟩ := h
  have hV1 : c.has .Mbi_MixinCertBlockV1 = false :=
    plain_has_false_of_hasAttr .Mbi_MixinCertBlockV1 .cert_block (by intro m; cases m <;> decide) hc.hcert
  have hV21 : c.has .Mbi_MixinCertBlockV21 = false :=
    plain_has_false_of_hasAttr .Mbi_MixinCertBlockV21 .cert_block (by intro m; cases m <;> decide) hc.hcert
  simp only [hV1, hV21, hc.hmk, hc.hnoCtr, hc.hnoHmac, hc.hnoKs] at *
  refine { hval := by simpa using a1, hpack := by simpa using a2, hla := by simpa using a3, hiv := by simpa using a4,
           hst := by simpa using a5, hflags := by simpa using a7, htz := ?_, hnotz := by intro hh; simpa [hh] using a9, hreloc := ?_,
           hks := ?_, hhmac := ?_, hbca := by simpa using a15, hfcf := by simpa using a16,
           hcert := (by simpa using a19 : _ ∧ _).1, hsigLen := (by simpa using a19 : _ ∧ _).2,
           hdigest := by simpa using a20, hfw := by simpa using a22,
           hnoIv := by intro hh; simpa [hh] using a23, hnoSub := by intro hh; simpa [hh] using a24, hnoHw := by intro hh; simpa [hh] using a25,
           hnoLa := by intro hh; simpa [hh] using a26, hctr := by simpa using a27 }
  · intro d hd; rw [hd] at a8; simpa using a8
  · intro es hes; rw [hes] at a10
    simp only [Bool.and_eq_true, List.all_eq_true, Bool.not_eq_true', List.isEmpty_eq_false_iff] at a10
    exact ⟨a10.1.1, a10.1.2, a10.2⟩
  · cases hk : cfg.keyStore with
    | none => rfl
    | some k => rw [hk] at a11; simp at a11
  · cases hk : cfg.hmacKey with
    | none => rfl
    | some k => rw [hk] at a12; simp at a12



theorem plain_hasAttr_has (base : MixinName) (a : Attr)
    (hd : ∀ m, (attrs m).contains a = true → derivesFrom m base = true) (h : c.hasAttr a = true) : c.has base = true := by
  unfold Cls.hasAttr at h; unfold Cls.has
  rw [List.any_eq_true] at h ⊢
  obtain ⟨m, hm, hb⟩ := h
  exact ⟨m, hm, hd m hb⟩

theorem plain_hasTrustZone (c : Cls) : c.hasTrustZone = c.has .Mbi_MixinTrustZone := by
  unfold Cls.hasTrustZone
  cases hb : c.has .Mbi_MixinTrustZone
  · cases ha : c.hasAttr .trust_zone
    · rfl
    · rw [plain_hasAttr_has .Mbi_MixinTrustZone .trust_zone (by intro m; cases m <;> decide) ha] at hb
      exact absurd hb (by simp)
  · simp

theorem plain_tz_nil (hk : PlainCfg c cfg) (h : c.has .Mbi_MixinTrustZone = false) : cfg.tz.bytes = [] := by
  rw [hk.hnotz (by rw [plain_hasTrustZone]; exact h)]; rfl

theorem plain_reloc_none (hk : PlainCfg c cfg) (h : c.has .Mbi_MixinRelocTable = false) : cfg.reloc = none := by
  cases hr : cfg.reloc with
  | none => rfl
  | some es => have := (hk.hreloc es hr).2.1; rw [h] at this; exact absurd this (by simp)

theorem plain_totalLen_exp (c : Cls) (cfg : Cfg) (exp : List MixinName) (h : lenProvidersAre c.lenProviders exp = true) :
    totalLen c cfg = (exp.map (mixLenOf c cfg)).sum := by
  rw [← sum_of_lenProvidersAre _ _ (mixLenOf c cfg) h]
  unfold totalLen Cls.lenProviders
  rw [List.map_map]
  rfl

theorem plain_totalLen (hc : PlainCls c) (hk : PlainCfg c cfg) :
    totalLen c cfg = (((appData cfg).length + relocLen c cfg + cfg.tz.bytes.length : Nat) : Int) := by
  rw [plain_totalLen_exp c cfg _ hc.hlen]
  cases hr : c.has .Mbi_MixinRelocTable <;> cases ht : c.has .Mbi_MixinTrustZone
  · have h1 := plain_tz_nil hk ht
    have h2 := plain_reloc_none hk hr
    simp [optList, mixLenOf, h1, relocLen, h2]
  · have h2 := plain_reloc_none hk hr
    simp [optList, mixLenOf, relocLen, h2]
  · have h1 := plain_tz_nil hk ht
    simp [optList, mixLenOf, h1]
  · simp [optList, mixLenOf]; omega



theorem plain_forM_ok {α : Type} (f : α → PyRes Unit) :
    ∀ l : List α, l.forM f = .ok () → ∀ m ∈ l, f m = .ok ()
  | [], _, m, hm => by simp at hm
  | a :: l, h, m, hm => by
    have h : (do f a; l.forM f) = Except.ok () := h
    cases hfa : f a with
    | error e => rw [hfa] at h; simp [bind, Except.bind] at h
    | ok u =>
      rw [hfa] at h
      simp only [bind, Except.bind] at h
      rcases List.mem_cons.mp hm with rfl | hm'
      · exact hfa
      · exact plain_forM_ok f l h m hm'

theorem plain_app_mem (hc : PlainCls c) : MixinName.Mbi_MixinApp ∈ c.dataMixins := by
  have h := hc.hApp
  unfold Cls.has at h
  rw [List.any_eq_true] at h
  obtain ⟨m, hm, hb⟩ := h
  have : m = .Mbi_MixinApp := by revert hb; cases m <;> decide
  subst this
  unfold Cls.dataMixins
  exact List.mem_filter.mpr ⟨hm, rfl⟩

theorem plain_app_valid (hc : PlainCls c) (hk : PlainCfg c cfg) :
    minIvtSize ≤ (appData cfg).length
    ∧ ¬ (rd32 (appData cfg) 0 = rd32 (appData cfg) 4 ∧ rd32 (appData cfg) 4 = rd32 (appData cfg) 8) := by
  have h := plain_forM_ok _ _ hk.hval _ (plain_app_mem hc)
  unfold validateMixin at h
  simp only [provider] at h
  split at h
  · exact absurd h (by simp)
  · split at h
    · exact absurd h (by simp)
    · rename_i h1 h2
      exact ⟨by simp only [minAppSize] at h1; simp only [minIvtSize]; omega, h2⟩


/-- the updated application, the relocation table and the whole unsigned image (word 0x28 = `K`) -/
def plainU (c : Cls) (cfg : Cfg) (K : Nat) : Bytes := updateIvt c cfg (appData cfg) (totalLen c cfg).toNat K
def plainR (cfg : Cfg) : Bytes :=
  match cfg.reloc with
  | some es => relocExport es (appData cfg).length
  | none => []
def plainImg (c : Cls) (cfg : Cfg) (K : Nat) : Bytes := plainU c cfg K ++ plainR cfg ++ cfg.tz.bytes

theorem plainU_length (hc : PlainCls c) (hk : PlainCfg c cfg) (K : Nat) : (plainU c cfg K).length = (appData cfg).length :=
  updateIvt_length c cfg _ _ _ (plain_app_valid hc hk).1

theorem plain_collectApp (hc : PlainCls c) (hk : PlainCfg c cfg) :
    collectApp c cfg = .ok (plainU c cfg 0 ++ plainR cfg) := by
  have hlen := (plain_app_valid hc hk).1
  have hne : (appData cfg).isEmpty = false := by
    cases h : appData cfg with
    | nil => rw [h] at hlen; simp [minIvtSize] at hlen
    | cons a l => rfl
  have htab : (if c.hasAttr .app_table = true then cfg.reloc else none) = cfg.reloc := by
    rw [hc.happTable]
    cases hr : c.has .Mbi_MixinRelocTable
    · simp [plain_reloc_none hk hr]
    · simp
  unfold collectApp
  simp only [hne, hc.hivt, hc.hbca, hc.hfcf, Bool.false_and, Bool.or_self, Bool.false_eq_true, if_false, if_true, htab]
  unfold plainR
  cases hr : cfg.reloc with
  | none => simp [plainU]
  | some es => simp only [plainU, updateIvt_length c cfg _ _ _ hlen]

theorem plain_collect (hc : PlainCls c) (hk : PlainCfg c cfg) : collect c cfg = .ok (plainImg c cfg 0) := by
  unfold collect plainImg
  rcases hc.hcoll with ⟨h1, h2⟩ | ⟨h1, h2⟩
  · rw [h1]
    simp only [plain_collectApp hc hk, plain_tz_nil hk h2, List.append_nil]
  · rw [h1]
    simp only [collectAppTz, plain_collectApp hc hk, bind, Except.bind, pure, Except.pure]


theorem plainR_length (c : Cls) (cfg : Cfg) : (plainR cfg).length = relocLen c cfg := by
  unfold plainR relocLen
  cases cfg.reloc with
  | none => rfl
  | some es => exact relocExport_length_indep es _ _

theorem plainImg_length (hc : PlainCls c) (hk : PlainCfg c cfg) (K : Nat) :
    ((plainImg c cfg K).length : Int) = totalLen c cfg := by
  rw [plain_totalLen hc hk]
  unfold plainImg
  simp only [List.length_append, plainU_length hc hk, plainR_length c cfg]

theorem plainImg_length' (hc : PlainCls c) (hk : PlainCfg c cfg) (K : Nat) :
    (plainImg c cfg K).length = (totalLen c cfg).toNat := by
  rw [← plainImg_length hc hk K]; simp

theorem plain_setAt_mid (P W S w : Bytes) (hW : W.length = w.length) :
    setAt (P ++ W ++ S) P.length w = P ++ w ++ S := by
  unfold setAt
  have h1 : (P ++ W ++ S).take P.length = P := by
    rw [List.append_assoc, List.take_append_of_le_length (Nat.le_refl _), List.take_length]
  have h2 : (P ++ W ++ S).drop (P.length + w.length) = S := by
    rw [← hW, ← List.length_append, List.drop_append_of_le_length (Nat.le_refl _), List.drop_length, List.nil_append]
  rw [h1, h2]



def plainHead (c : Cls) (cfg : Cfg) : Bytes :=
  (appData cfg).take 32 ++ le32 (if c.zeroTotalLength then 0 else (totalLen c cfg).toNat) ++ le32 (flagsOf c cfg)
def plainTail (c : Cls) (cfg : Cfg) : Bytes :=
  slice (appData cfg) 44 52 ++ le32 (if c.hasAttr .load_address then cfg.loadAddress else 0) ++ (appData cfg).drop 56
    ++ plainR cfg ++ cfg.tz.bytes

theorem plainImg_split (hc : PlainCls c) (hk : PlainCfg c cfg) (K : Nat) :
    plainImg c cfg K = plainHead c cfg ++ le32 (if c.imageType = 0 then 0 else K) ++ plainTail c cfg := by
  unfold plainImg plainU plainHead plainTail
  rw [updateIvt_eq c cfg _ _ _ (plain_app_valid hc hk).1]
  simp only [List.append_assoc]

theorem plainHead_length (hc : PlainCls c) (hk : PlainCfg c cfg) : (plainHead c cfg).length = 40 := by
  have := (plain_app_valid hc hk).1
  simp only [minIvtSize] at this
  unfold plainHead
  simp only [List.length_append, le32_length, List.length_take]
  omega

theorem plainImg_take (hc : PlainCls c) (hk : PlainCfg c cfg) (K : Nat) :
    (plainImg c cfg K).take 40 = plainHead c cfg := by
  rw [plainImg_split hc hk, List.append_assoc, ← plainHead_length hc hk,
    List.take_append_of_le_length (Nat.le_refl _), List.take_length]

theorem plainImg_drop (hc : PlainCls c) (hk : PlainCfg c cfg) (K : Nat) :
    (plainImg c cfg K).drop 44 = plainTail c cfg := by
  rw [plainImg_split hc hk]
  have : 44 = (plainHead c cfg ++ le32 (if c.imageType = 0 then 0 else K)).length := by
    simp [plainHead_length hc hk, le32_length]
  rw [this, List.drop_append_of_le_length (Nat.le_refl _), List.drop_length, List.nil_append]

theorem plain_crcSign (hc : PlainCls c) (hk : PlainCfg c cfg) (ht : c.imageType ≠ 0) :
    crcSign (plainImg c cfg 0) = plainImg c cfg (crc32m (plainHead c cfg ++ plainTail c cfg)) := by
  unfold crcSign
  simp only [ivtCrcCertificateOffset]
  rw [plainImg_take hc hk, plainImg_drop hc hk, plainImg_split hc hk, plainImg_split hc hk]
  simp only [ht, if_false]
  have := plain_setAt_mid (plainHead c cfg) (le32 0) (plainTail c cfg) (le32 (crc32m (plainHead c cfg ++ plainTail c cfg)))
    (by simp [le32_length])
  rw [plainHead_length hc hk] at this
  simpa using this



def plainK (c : Cls) (cfg : Cfg) : Nat :=
  if c.signKind = .crc then crc32m (plainHead c cfg ++ plainTail c cfg) else 0

theorem plainImg_ne_nil (hc : PlainCls c) (hk : PlainCfg c cfg) (K : Nat) : (plainImg c cfg K).isEmpty = false := by
  have h := plainImg_take hc hk K
  have h2 := plainHead_length hc hk
  cases hi : plainImg c cfg K with
  | nil => rw [hi] at h; simp only [List.take_nil] at h; rw [← h] at h2; simp at h2
  | cons a l => rfl

theorem plain_export (hc : PlainCls c) (hk : PlainCfg c cfg) (signer : Signer) :
    exportImage co c cfg signer = .ok (plainImg c cfg (plainK c cfg)) := by
  unfold exportImage
  simp only [hk.hval, hk.hpack, plain_collect hc hk, bind, Except.bind, encryptStage, hc.henc, postEncryptStage,
    hc.hpenc, finalizeStage, hc.hfin]
  unfold signStage plainK
  rcases hc.hsign with hs | hs
  · rw [hs]; simp
  · rw [hs]
    simp only [plainImg_ne_nil hc hk, Bool.false_eq_true, if_false, if_true]
    rw [plain_crcSign hc hk (hc.hcrc.mp hs)]


theorem plain_bitStep_lt (x : Nat) : Crc.bitStep Crc.crc32Mpeg2 x < 2 ^ 32 := by
  unfold Crc.bitStep
  have hw : Crc.crc32Mpeg2.width = 32 := rfl
  have hp : Crc.crc32Mpeg2.poly < 2 ^ 32 := by decide
  simp only [hw]
  split
  · exact Nat.xor_lt_two_pow (Nat.mod_lt _ (by decide)) hp
  · exact Nat.mod_lt _ (by decide)

theorem plain_register_lt (d : Bytes) : Crc.register Crc.crc32Mpeg2 d < 2 ^ 32 := by
  unfold Crc.register
  have : ∀ (l : Bytes) (x : Nat), x < 2 ^ 32 → List.foldl (Crc.byteStep Crc.crc32Mpeg2) x l < 2 ^ 32 := by
    intro l
    induction l with
    | nil => intro x hx; simpa using hx
    | cons a l ih =>
      intro x _
      simp only [List.foldl_cons]
      apply ih
      unfold Crc.byteStep
      exact plain_bitStep_lt _
  exact this d _ (by decide)

theorem plain_crc32m_lt (d : Bytes) : crc32m d < 2 ^ 32 := by
  unfold crc32m Crc.crc
  have h1 : Crc.crc32Mpeg2.refOut = false := rfl
  have h2 : Crc.crc32Mpeg2.xorOut = 0 := rfl
  simp only [h1, h2, Bool.false_eq_true, if_false, Nat.xor_zero]
  exact plain_register_lt d

theorem plainK_lt (c : Cls) (cfg : Cfg) : plainK c cfg < 2 ^ 32 := by
  unfold plainK
  split
  · exact plain_crc32m_lt _
  · decide

theorem plain_total_lt (hk : PlainCfg c cfg) : (totalLen c cfg).toNat < 2 ^ 32 := by
  have h := hk.hpack
  unfold packGuard at h
  split at h
  · exact absurd h (by simp)
  · rename_i hn
    simp only [not_or] at hn
    have := hn.2.1
    have := hn.1
    simp only [encIvtCopySize, encIvSize] at *
    omega

/-- the four IVT words of an image that starts with the updated application -/
theorem plainU_words (hc : PlainCls c) (hk : PlainCfg c cfg) (K : Nat) (hK : K < 2 ^ 32) (rest : Bytes) :
    rd32 (plainU c cfg K ++ rest) ivtImageLengthOffset = (if c.zeroTotalLength then 0 else (totalLen c cfg).toNat)
    ∧ rd32 (plainU c cfg K ++ rest) ivtImageFlagsOffset = flagsOf c cfg
    ∧ rd32 (plainU c cfg K ++ rest) ivtCrcCertificateOffset = (if c.imageType = 0 then 0 else K)
    ∧ rd32 (plainU c cfg K ++ rest) ivtLoadAddrOffset = (if c.has .Mbi_MixinLoadAddress then cfg.loadAddress else 0) := by
  have hA := (plain_app_valid hc hk).1
  have hw := updateIvt_words c cfg (appData cfg) (totalLen c cfg).toNat K hA hk.hflags (plain_total_lt hk) hK hk.hla
  simp only [hc.hla] at hw
  unfold plainU
  rw [rd32_updateIvt_append _ _ _ _ _ _ _ hA (by decide), rd32_updateIvt_append _ _ _ _ _ _ _ hA (by decide),
    rd32_updateIvt_append _ _ _ _ _ _ _ hA (by decide), rd32_updateIvt_append _ _ _ _ _ _ _ hA (by decide)]
  exact hw

/-- the four IVT words of the exported image -/
theorem plainImg_words (hc : PlainCls c) (hk : PlainCfg c cfg) (K : Nat) (hK : K < 2 ^ 32) :
    rd32 (plainImg c cfg K) ivtImageLengthOffset = (if c.zeroTotalLength then 0 else (totalLen c cfg).toNat)
    ∧ rd32 (plainImg c cfg K) ivtImageFlagsOffset = flagsOf c cfg
    ∧ rd32 (plainImg c cfg K) ivtCrcCertificateOffset = (if c.imageType = 0 then 0 else K)
    ∧ rd32 (plainImg c cfg K) ivtLoadAddrOffset = (if c.has .Mbi_MixinLoadAddress then cfg.loadAddress else 0) := by
  unfold plainImg
  rw [List.append_assoc]
  exact plainU_words hc hk K hK _

theorem plain_flagsIn (hc : PlainCls c) (hk : PlainCfg c cfg) (K : Nat) (hK : K < 2 ^ 32) :
    flagsIn (plainImg c cfg K) = flagsOf c cfg := (plainImg_words hc hk K hK).2.1

theorem plain_imgVer_le (hk : PlainCfg c cfg) : cfg.imageVersion ≤ imgVerMask := by
  have := hk.hiv; simp only [imgVerMask]; omega

theorem plain_tzTag_le (cfg : Cfg) : cfg.tz.tag ≤ tzTypeMask := by
  cases cfg.tz <;> simp [TzCfg.tag, tzTypeMask, tzEnabled, tzCustom, tzDisabled]

/-- the fields of the flag word of the image -/
theorem plain_flag_fields (hc : PlainCls c) (hk : PlainCfg c cfg) :
    getTzType (flagsOf c cfg) = (if c.hasTrustZone then cfg.tz.tag else 0)
    ∧ getSubType (flagsOf c cfg) = (if c.has .Mbi_MixinImageSubType then cfg.subType else 0)
    ∧ getHwKeyEnabled (flagsOf c cfg) = (c.has .Mbi_MixinHwKey && cfg.hwKey)
    ∧ getKeyStorePresented (flagsOf c cfg) = false
    ∧ getAppTablePresented (flagsOf c cfg) = cfg.reloc.isSome
    ∧ getImageVersion (flagsOf c cfg) = (if c.has .Mbi_MixinImageVersion then cfg.imageVersion else 0) := by
  have h := flags_fields c.imageType cfg.tz.tag cfg.subType cfg.imageVersion
    0
    c.hasTrustZone (c.hasAttr .image_subtype) (c.hasAttr .user_hw_key_enabled) cfg.hwKey (c.hasAttr .key_store)
    (none : Option Bytes).isSome (c.hasAttr .app_table) cfg.reloc.isSome (c.hasAttr .image_version)
    (c.hasAttr .image_version_to_image_type) true hc.himgType (plain_tzTag_le cfg) hk.hst (plain_imgVer_le hk)
  obtain ⟨_, h2, h3, h4, h5, h6, h7, _⟩ := h
  unfold flagsOf
  rw [hk.hks]
  refine ⟨h2, ?_, ?_, ?_, ?_, ?_⟩
  · rw [h3, hc.hsub]
  · rw [h4, hc.hhw]
  · rw [h5, hc.hks]; rfl
  · rw [h6, hc.happTable]
    cases hr : c.has .Mbi_MixinRelocTable
    · simp [plain_reloc_none hk hr]
    · simp
  · rw [h7, hc.hver, hc.hv2t]; simp


theorem plain_dropTz (c : Cls) (cfg : Cfg) (K : Nat) (p : Parsed) (hp : p.tz = cfg.tz) :
    (if p.tz.bytes.length = 0 then plainImg c cfg K else dropLast (plainImg c cfg K) p.tz.bytes.length)
      = plainU c cfg K ++ plainR cfg := by
  unfold plainImg
  rw [hp]
  split
  · rename_i h0
    rw [List.length_eq_zero_iff.mp h0, List.append_nil]
  · unfold dropLast
    rw [List.length_append, Nat.add_sub_cancel, List.take_append_of_le_length (Nat.le_refl _), List.take_length]

theorem plain_disApp (hc : PlainCls c) (hk : PlainCfg c cfg) (K : Nat) (hK : K < 2 ^ 32) (p : Parsed)
    (hr : p.reloc = none) :
    disassemblyAppData c p (plainU c cfg K ++ plainR cfg)
      = .ok ({ p with reloc := if c.has .Mbi_MixinRelocTable then cfg.reloc else none }, plainU c cfg K) := by
  have hfl : flagsIn (plainU c cfg K ++ plainR cfg) = flagsOf c cfg := (plainU_words hc hk K hK _).2.1
  unfold disassemblyAppData
  rw [hc.hdis, hfl, (plain_flag_fields hc hk).2.2.2.2.1]
  cases hrt : c.has .Mbi_MixinRelocTable
  · have hn := plain_reloc_none hk hrt
    simp only [Bool.false_eq_true, if_false]
    unfold plainR
    rw [hn]
    simp [← hr]
  · simp only [if_true]
    cases hcr : cfg.reloc with
    | none =>
      unfold plainR
      rw [hcr]
      simp
    | some es =>
      obtain ⟨hok, _, hne⟩ := hk.hreloc es hcr
      have hlen : (plainU c cfg K).length + (relocExport es (plainU c cfg K).length).length < 2 ^ 32 := by
        have h1 := plain_total_lt hk
        have h2 := plain_totalLen hc hk
        have h3 := plainR_length c cfg
        rw [plainU_length hc hk]
        unfold plainR at h3; rw [hcr] at h3; simp only at h3
        rw [h3]
        omega
      have hrt' := reloc_roundtrip (plainU c cfg K) es hne hok hlen
      unfold plainR
      rw [hcr]
      simp only [Option.isSome_some, not_true_eq_false, if_false]
      rw [← plainU_length hc hk K, hrt']
      simp


theorem plain_disassemble (hc : PlainCls c) (hk : PlainCfg c cfg) (K : Nat) (hK : K < 2 ^ 32) (dek : Option Bytes)
    (p : Parsed) (hp : p.tz = cfg.tz) (hr : p.reloc = none) :
    disassemble c p (plainImg c cfg K)
      = .ok { p with app := (canon c cfg dek).app, reloc := (canon c cfg dek).reloc } := by
  have hA := (plain_app_valid hc hk).1
  have hcl : cleanIvt (plainU c cfg K) = cleanIvt (appData cfg) := cleanIvt_updateIvt c cfg _ _ _ hA
  have hal : align4 (cleanIvt (appData cfg)) = cleanIvt (appData cfg) := by
    apply align4_of_aligned
    rw [cleanIvt_length _ hA]
    exact align4_length_mod _
  unfold disassemble
  rw [hc.hdisasm]
  rcases hc.hcoll with ⟨h1, h2⟩ | ⟨h1, h2⟩
  · rw [h1]
    have himg : plainImg c cfg K = plainU c cfg K ++ plainR cfg := by
      unfold plainImg; rw [plain_tz_nil hk h2, List.append_nil]
    simp only [himg, plain_disApp hc hk K hK p hr, bind, Except.bind, pure, Except.pure, hc.hclean, if_true, hcl, hal,
      canon]
  · rw [h1]
    simp only [plain_dropTz c cfg K p hp, plain_disApp hc hk K hK p hr, bind, Except.bind, pure, Except.pure, hc.hclean,
      if_true, hcl, hal, canon]


/-! ### the parse order of a class without certificate block is the class order -/

theorem plain_mustWait (hc : PlainCls c) (d : Bool) (m : MixinName) : mustWait c d m = false := by
  unfold mustWait
  rw [List.any_eq_false]
  intro a ha
  have : a = .cert_block := by
    revert ha; cases m <;> simp [preParsed]
  subst this
  simp [hc.hcert]

theorem plain_parseRound (hc : PlainCls c) : ∀ (l : List MixinName) (d : Bool), ∃ d', parseRound c l d = (l, [], d')
  | [], d => ⟨d, rfl⟩
  | m :: ms, d => by
    obtain ⟨d', hd⟩ := plain_parseRound hc ms (d || setsCert m)
    refine ⟨d', ?_⟩
    simp only [parseRound, plain_mustWait hc, Bool.false_eq_true, if_false, hd]

theorem plain_parseOrder (hc : PlainCls c) : parseOrder c = some c.dataMixins := by
  unfold parseOrder
  generalize c.dataMixins.length = n
  cases hl : c.dataMixins with
  | nil => simp [parseOrderF]
  | cons m ms =>
    obtain ⟨d', hd⟩ := plain_parseRound hc (m :: ms) false
    simp only [parseOrderF, hd]
    cases n <;> simp


/-! ### one `mix_parse` call on the exported image -/

/-- what the `mix_parse` of mixin `m` writes (plain family) -/
def plainUpd (c : Cls) (cfg : Cfg) (m : MixinName) (p : Parsed) : Parsed :=
  match provider m .mix_parse with
  | some .Mbi_MixinTrustZone => { p with tz := cfg.tz }
  | some .Mbi_MixinLoadAddress => { p with loadAddress := if c.has .Mbi_MixinLoadAddress then cfg.loadAddress else 0 }
  | some .Mbi_MixinImageVersion => { p with imageVersion := if c.has .Mbi_MixinImageVersion then cfg.imageVersion else 0 }
  | some .Mbi_MixinImageSubType => { p with subType := if c.has .Mbi_MixinImageSubType then cfg.subType else 0 }
  | some .Mbi_MixinHwKey => { p with hwKey := c.has .Mbi_MixinHwKey && cfg.hwKey }
  | _ => p

theorem plain_excl_attr {m : MixinName} (hm : m ∈ c.mixins) (a : Attr) (hd : (attrs m).contains a = true)
    (ha : c.hasAttr a = false) : False := by
  have : c.hasAttr a = true := by
    unfold Cls.hasAttr; rw [List.any_eq_true]; exact ⟨m, hm, hd⟩
  rw [ha] at this; exact absurd this (by simp)

theorem plain_excl_has {m : MixinName} (hm : m ∈ c.mixins) (base : MixinName) (hd : derivesFrom m base = true)
    (hb : c.has base = false) : False := by
  have : c.has base = true := by
    unfold Cls.has; rw [List.any_eq_true]; exact ⟨m, hm, hd⟩
  rw [hb] at this; exact absurd this (by simp)

theorem plain_lastN (X T : Bytes) : lastN (X ++ T) T.length = T := by
  unfold lastN
  rw [List.length_append, Nat.add_sub_cancel, List.drop_append_of_le_length (Nat.le_refl _), List.drop_length,
    List.nil_append]

theorem plain_parseTz (hc : PlainCls c) (hk : PlainCfg c cfg) (K : Nat) (p : Parsed)
    (htz : c.has .Mbi_MixinTrustZone = true) :
    (let t := getTzType (flagsOf c cfg)
     if t ≠ tzEnabled ∧ t ≠ tzCustom ∧ t ≠ tzDisabled then (.error .spsdk : PyRes Parsed)
     else if t = tzCustom then
       (do let tz ← tzFromBinary c (lastN (plainImg c cfg K) c.tzSize)
           pure { p with tz := tz })
     else .ok { p with tz := if t = tzEnabled then .enabled else .disabled }) = .ok { p with tz := cfg.tz } := by
  have ht : getTzType (flagsOf c cfg) = cfg.tz.tag := by
    rw [(plain_flag_fields hc hk).1, plain_hasTrustZone, htz]; rfl
  simp only [ht]
  cases htzc : cfg.tz with
  | disabled => simp [TzCfg.tag, tzEnabled, tzCustom, tzDisabled]
  | enabled => simp [TzCfg.tag, tzEnabled, tzCustom, tzDisabled]
  | custom d =>
    obtain ⟨hd, hpos⟩ := hk.htz d htzc
    have hl : lastN (plainImg c cfg K) c.tzSize = d := by
      unfold plainImg; rw [htzc, ← hd]; exact plain_lastN _ _
    have hdne : d ≠ [] := by
      intro h0; rw [h0] at hd; simp only [List.length_nil] at hd; omega
    simp only [TzCfg.tag, tzEnabled, tzCustom, tzDisabled, hl, tzFromBinary, hd]
    simp [bind, Except.bind, pure, Except.pure, ← hd, hdne]


theorem plain_mixParse (hc : PlainCls c) (hk : PlainCfg c cfg) (K : Nat) (hK : K < 2 ^ 32) (dek : Option Bytes)
    (p : Parsed) {m : MixinName} (hm : m ∈ c.mixins) :
    mixParse env c dek (plainImg c cfg K) p m = .ok (plainUpd c cfg m p) := by
  have hfl := plain_flagsIn hc hk K hK
  obtain ⟨f1, f2, f3, f4, f5, f6⟩ := plain_flag_fields hc hk
  have hw := plainImg_words hc hk K hK
  unfold mixParse plainUpd
  simp only [hfl]
  generalize hprov : provider m .mix_parse = o
  rcases o with _ | d
  · rfl
  · cases d
    case Mbi_MixinTrustZone =>
      have htz : c.has .Mbi_MixinTrustZone = true := by
        cases hb : c.has .Mbi_MixinTrustZone
        · exact (plain_excl_has hm .Mbi_MixinTrustZone (by revert hprov; cases m <;> decide) hb).elim
        · rfl
      simp only [hc.hcert, Bool.false_eq_true, if_false]
      exact plain_parseTz hc hk K p htz
    case Mbi_MixinLoadAddress => simp only [hw.2.2.2]
    case Mbi_MixinImageVersion => simp only [f6]
    case Mbi_MixinImageSubType => simp only [f2]
    case Mbi_MixinHwKey => simp only [f3]
    case Mbi_MixinKeyStore =>
      exact (plain_excl_has hm .Mbi_MixinKeyStore (by revert hprov; cases m <;> decide) hc.hnoKs).elim
    case Mbi_MixinHmac =>
      exact (plain_excl_has hm .Mbi_MixinHmac (by revert hprov; cases m <;> decide) hc.hnoHmac).elim
    case Mbi_MixinCtrInitVector =>
      exact (plain_excl_has hm .Mbi_MixinCtrInitVector (by revert hprov; cases m <;> decide) hc.hnoCtr).elim
    case Mbi_MixinCertBlockV1 =>
      exact (plain_excl_attr hm .cert_block (by revert hprov; cases m <;> decide) hc.hcert).elim
    case Mbi_MixinCertBlockV21 =>
      exact (plain_excl_attr hm .cert_block (by revert hprov; cases m <;> decide) hc.hcert).elim
    case Mbi_MixinManifest =>
      exact (plain_excl_attr hm .cert_block (by revert hprov; cases m <;> decide) hc.hcert).elim
    case Mbi_MixinBca =>
      exact (plain_excl_attr hm .bca (by revert hprov; cases m <;> decide) hc.hbca).elim
    case Mbi_MixinFcf =>
      exact (plain_excl_attr hm .fcf (by revert hprov; cases m <;> decide) hc.hfcf).elim
    all_goals rfl


theorem plain_foldlM (hc : PlainCls c) (hk : PlainCfg c cfg) (K : Nat) (hK : K < 2 ^ 32) (dek : Option Bytes) :
    ∀ (l : List MixinName) (p : Parsed), (∀ m ∈ l, m ∈ c.mixins) →
      l.foldlM (mixParse env c dek (plainImg c cfg K)) p = .ok (l.foldl (fun q m => plainUpd c cfg m q) p)
  | [], p, _ => rfl
  | m :: ms, p, hl => by
    rw [List.foldlM_cons, plain_mixParse hc hk K hK dek p (hl m (List.mem_cons_self ..))]
    simp only [bind, Except.bind, List.foldl_cons]
    exact plain_foldlM hc hk K hK dek ms _ (fun x hx => hl x (List.mem_cons_of_mem _ hx))

def plainIs (d : MixinName) (m : MixinName) : Bool := provider m .mix_parse == some d

/-- closed form of a run of `plainUpd` -/
theorem plain_foldl_upd (c : Cls) (cfg : Cfg) : ∀ (l : List MixinName) (p : Parsed),
    l.foldl (fun q m => plainUpd c cfg m q) p
      = { p with
          tz := if l.any (plainIs .Mbi_MixinTrustZone) then cfg.tz else p.tz
          loadAddress := if l.any (plainIs .Mbi_MixinLoadAddress)
            then (if c.has .Mbi_MixinLoadAddress then cfg.loadAddress else 0) else p.loadAddress
          imageVersion := if l.any (plainIs .Mbi_MixinImageVersion)
            then (if c.has .Mbi_MixinImageVersion then cfg.imageVersion else 0) else p.imageVersion
          subType := if l.any (plainIs .Mbi_MixinImageSubType)
            then (if c.has .Mbi_MixinImageSubType then cfg.subType else 0) else p.subType
          hwKey := if l.any (plainIs .Mbi_MixinHwKey) then (c.has .Mbi_MixinHwKey && cfg.hwKey) else p.hwKey }
  | [], p => by simp
  | m :: ms, p => by
    rw [List.foldl_cons, plain_foldl_upd c cfg ms]
    unfold plainUpd
    generalize hprov : provider m .mix_parse = o
    have hi : ∀ d, plainIs d m = (o == some d) := by intro d; unfold plainIs; rw [hprov]
    simp only [List.any_cons, hi]
    rcases o with _ | d
    · simp
    · cases d <;> simp <;> (try split) <;> rfl


theorem plain_cover (hc : PlainCls c) (base d : MixinName)
    (hd : ∀ m, derivesFrom m base = true → (attrs m).contains .cert_block = false →
      isData m = true ∧ provider m .mix_parse = some d)
    (hb : c.has base = true) : c.dataMixins.any (plainIs d) = true := by
  unfold Cls.has at hb
  rw [List.any_eq_true] at hb ⊢
  obtain ⟨m, hm, hder⟩ := hb
  have hnc : (attrs m).contains .cert_block = false := by
    cases hx : (attrs m).contains .cert_block
    · rfl
    · exact (plain_excl_attr hm .cert_block hx hc.hcert).elim
  obtain ⟨h1, h2⟩ := hd m hder hnc
  refine ⟨m, ?_, ?_⟩
  · unfold Cls.dataMixins; exact List.mem_filter.mpr ⟨hm, h1⟩
  · unfold plainIs; rw [h2]; simp

/-- everything the mixins parse (the application and the relocation table come from `disassemble_image`) -/
theorem plain_mixParseAll (hc : PlainCls c) (hk : PlainCfg c cfg) (K : Nat) (hK : K < 2 ^ 32) (dek : Option Bytes) :
    mixParseAll env c dek (plainImg c cfg K) = .ok { canon c cfg dek with app := none, reloc := none } := by
  unfold mixParseAll
  rw [plain_parseOrder hc]
  simp only []
  rw [plain_foldlM hc hk K hK dek c.dataMixins {} (fun m (hm : m ∈ c.dataMixins) => (List.mem_filter.mp hm).1),
    plain_foldl_upd]
  have hV1 : c.has .Mbi_MixinCertBlockV1 = false :=
    plain_has_false_of_hasAttr .Mbi_MixinCertBlockV1 .cert_block (by intro m; cases m <;> decide) hc.hcert
  have hV21 : c.has .Mbi_MixinCertBlockV21 = false :=
    plain_has_false_of_hasAttr .Mbi_MixinCertBlockV21 .cert_block (by intro m; cases m <;> decide) hc.hcert
  have hBca : c.has .Mbi_MixinBca = false :=
    plain_has_false_of_hasAttr .Mbi_MixinBca .bca (by intro m; cases m <;> decide) hc.hbca
  have hFcf : c.has .Mbi_MixinFcf = false :=
    plain_has_false_of_hasAttr .Mbi_MixinFcf .fcf (by intro m; cases m <;> decide) hc.hfcf
  have e1 : (if c.dataMixins.any (plainIs .Mbi_MixinTrustZone) then cfg.tz else TzCfg.enabled)
      = (if c.hasTrustZone then cfg.tz else .enabled) := by
    rw [plain_hasTrustZone]
    cases hb : c.has .Mbi_MixinTrustZone
    · have := hk.hnotz (by rw [plain_hasTrustZone]; exact hb)
      simp [this]
    · rw [plain_cover hc .Mbi_MixinTrustZone .Mbi_MixinTrustZone (by intro m; cases m <;> decide) hb]
  have e2 : (if c.dataMixins.any (plainIs .Mbi_MixinLoadAddress)
      then (if c.has .Mbi_MixinLoadAddress then cfg.loadAddress else 0) else 0)
      = (if c.has .Mbi_MixinLoadAddress then cfg.loadAddress else 0) := by
    cases hb : c.has .Mbi_MixinLoadAddress
    · simp
    · rw [plain_cover hc .Mbi_MixinLoadAddress .Mbi_MixinLoadAddress (by intro m; cases m <;> decide) hb]; simp
  have e3 : (if c.dataMixins.any (plainIs .Mbi_MixinImageVersion)
      then (if c.has .Mbi_MixinImageVersion then cfg.imageVersion else 0) else 0)
      = (if c.has .Mbi_MixinImageVersion then cfg.imageVersion else 0) := by
    cases hb : c.has .Mbi_MixinImageVersion
    · simp
    · rw [plain_cover hc .Mbi_MixinImageVersion .Mbi_MixinImageVersion (by intro m; cases m <;> decide) hb]; simp
  have e4 : (if c.dataMixins.any (plainIs .Mbi_MixinImageSubType)
      then (if c.has .Mbi_MixinImageSubType then cfg.subType else 0) else 0)
      = (if c.has .Mbi_MixinImageSubType then cfg.subType else 0) := by
    cases hb : c.has .Mbi_MixinImageSubType
    · simp
    · rw [plain_cover hc .Mbi_MixinImageSubType .Mbi_MixinImageSubType (by intro m; cases m <;> decide) hb]; simp
  have e5 : (if c.dataMixins.any (plainIs .Mbi_MixinHwKey) then (c.has .Mbi_MixinHwKey && cfg.hwKey) else false)
      = (c.has .Mbi_MixinHwKey && cfg.hwKey) := by
    cases hb : c.has .Mbi_MixinHwKey
    · simp
    · rw [plain_cover hc .Mbi_MixinHwKey .Mbi_MixinHwKey (by intro m; cases m <;> decide) hb]; simp
  simp only [e1, e2, e3, e4, e5]
  simp only [canon, hc.hnoKs, hc.hnoHmac, hc.hnoCtr, hV1, hV21, hc.hmk, hBca, hFcf, Bool.false_eq_true, if_false,
    Option.isSome_none]
  simp


/-! ### re-export of the parsed image -/

theorem plain_cfg_ext (a b : Cfg) (h1 : a.app = b.app) (h2 : a.loadAddress = b.loadAddress)
    (h3 : a.imageVersion = b.imageVersion) (h4 : a.subType = b.subType) (h5 : a.tz = b.tz) (h6 : a.hwKey = b.hwKey)
    (h7 : a.keyStore = b.keyStore) (h8 : a.hmacKey = b.hmacKey) (h9 : a.ctrIv = b.ctrIv) (h10 : a.reloc = b.reloc)
    (h11 : a.cert = b.cert) (h12 : a.sigLen = b.sigLen) (h13 : a.fwVersion = b.fwVersion) (h14 : a.digest = b.digest)
    (h15 : a.bca = b.bca) (h16 : a.fcf = b.fcf) : a = b := by
  cases a; cases b; simp_all

/-- the builder's view of the parsed image: the same settings with the cleaned application -/
theorem plain_toCfg (hc : PlainCls c) (hk : PlainCfg c cfg) (dek : Option Bytes) :
    (canon c cfg dek).toCfg = { cfg with app := cleanIvt (appData cfg) } := by
  have hV1 : c.has .Mbi_MixinCertBlockV1 = false :=
    plain_has_false_of_hasAttr .Mbi_MixinCertBlockV1 .cert_block (by intro m; cases m <;> decide) hc.hcert
  have hV21 : c.has .Mbi_MixinCertBlockV21 = false :=
    plain_has_false_of_hasAttr .Mbi_MixinCertBlockV21 .cert_block (by intro m; cases m <;> decide) hc.hcert
  have hBca : c.has .Mbi_MixinBca = false :=
    plain_has_false_of_hasAttr .Mbi_MixinBca .bca (by intro m; cases m <;> decide) hc.hbca
  have hFcf : c.has .Mbi_MixinFcf = false :=
    plain_has_false_of_hasAttr .Mbi_MixinFcf .fcf (by intro m; cases m <;> decide) hc.hfcf
  apply plain_cfg_ext
  · simp [Parsed.toCfg, canon, hc.hclean]
  · show (if c.has .Mbi_MixinLoadAddress then cfg.loadAddress else 0) = cfg.loadAddress
    cases hb : c.has .Mbi_MixinLoadAddress
    · simp [hk.hnoLa hb]
    · simp
  · show (if c.has .Mbi_MixinImageVersion then cfg.imageVersion else 0) = cfg.imageVersion
    cases hb : c.has .Mbi_MixinImageVersion
    · simp [hk.hnoIv hb]
    · simp
  · show (if c.has .Mbi_MixinImageSubType then cfg.subType else 0) = cfg.subType
    cases hb : c.has .Mbi_MixinImageSubType
    · simp [hk.hnoSub hb]
    · simp
  · show (if c.hasTrustZone then cfg.tz else .enabled) = cfg.tz
    cases hb : c.hasTrustZone
    · simp [hk.hnotz hb]
    · simp
  · show (c.has .Mbi_MixinHwKey && cfg.hwKey) = cfg.hwKey
    cases hb : c.has .Mbi_MixinHwKey
    · simp [hk.hnoHw hb]
    · simp
  · simp [Parsed.toCfg, canon, hc.hnoKs, hk.hks]
  · simp [Parsed.toCfg, canon, hc.hnoHmac, hk.hhmac]
  · simp [Parsed.toCfg, canon, hc.hnoCtr, hk.hctr]
  · show (if c.has .Mbi_MixinRelocTable then cfg.reloc else none) = cfg.reloc
    cases hb : c.has .Mbi_MixinRelocTable
    · simp [plain_reloc_none hk hb]
    · simp
  · simp [Parsed.toCfg, canon, hV1, hV21, hk.hcert]
  · simp [Parsed.toCfg, canon, hV1, hV21, hk.hsigLen]
  · simp [Parsed.toCfg, canon, hc.hmk, hk.hfw]
  · simp [Parsed.toCfg, canon, hc.hmk, hk.hdigest]
  · simp [Parsed.toCfg, canon, hBca, hk.hbca]
  · simp [Parsed.toCfg, canon, hFcf, hk.hfcf]


def plainCfg2 (cfg : Cfg) : Cfg := { cfg with app := cleanIvt (appData cfg) }

theorem plain_appData2 (hc : PlainCls c) (hk : PlainCfg c cfg) : appData (plainCfg2 cfg) = cleanIvt (appData cfg) := by
  show align4 (cleanIvt (appData cfg)) = cleanIvt (appData cfg)
  apply align4_of_aligned
  rw [cleanIvt_length _ (plain_app_valid hc hk).1]
  exact align4_length_mod _

theorem plain_rd32_cleanIvt (A : Bytes) (hA : minIvtSize ≤ A.length) (off : Nat) (ho : off + 4 ≤ 32) :
    rd32 (cleanIvt A) off = rd32 A off := by
  have hl : (A.take 32).length = 32 := by
    simp only [minIvtSize] at hA; simp only [List.length_take]; omega
  rw [cleanIvt_eq A hA]
  simp only [List.append_assoc]
  rw [rd32_append_left _ _ _ (by omega)]
  conv => rhs; rw [← List.take_append_drop 32 A]
  rw [rd32_append_left _ _ _ (by omega)]

theorem plain_validateMixin2 (hc : PlainCls c) (hk : PlainCfg c cfg) (m : MixinName) :
    validateMixin c (plainCfg2 cfg) m = validateMixin c cfg m := by
  have hA := (plain_app_valid hc hk).1
  have r0 := plain_rd32_cleanIvt _ hA 0 (by decide)
  have r4 := plain_rd32_cleanIvt _ hA 4 (by decide)
  have r8 := plain_rd32_cleanIvt _ hA 8 (by decide)
  have e1 : (plainCfg2 cfg).tz = cfg.tz := rfl
  have e2 : (plainCfg2 cfg).reloc = cfg.reloc := rfl
  have e3 : (plainCfg2 cfg).keyStore = cfg.keyStore := rfl
  have e4 : (plainCfg2 cfg).hmacKey = cfg.hmacKey := rfl
  have e5 : (plainCfg2 cfg).ctrIv = cfg.ctrIv := rfl
  have e6 : (plainCfg2 cfg).fcf = cfg.fcf := rfl
  unfold validateMixin
  simp only [plain_appData2 hc hk, r0, r4, r8, cleanIvt_length _ hA, e1, e2, e3, e4, e5, e6]

theorem plain_validate2 (hc : PlainCls c) (hk : PlainCfg c cfg) : validate c (plainCfg2 cfg) = .ok () := by
  have hfe : validateMixin c (plainCfg2 cfg) = validateMixin c cfg := funext (plain_validateMixin2 hc hk)
  unfold validate
  rw [hfe]
  exact hk.hval

theorem plain_mixLen2 (hc : PlainCls c) (hk : PlainCfg c cfg) (m : MixinName) :
    mixLen c (plainCfg2 cfg) m = mixLen c cfg m := by
  have hA := (plain_app_valid hc hk).1
  unfold mixLen
  cases provider m .mix_len with
  | none => rfl
  | some d =>
    simp only
    unfold mixLenOf
    simp only [plain_appData2 hc hk, cleanIvt_length _ hA]
    rfl

theorem plain_totalLen2 (hc : PlainCls c) (hk : PlainCfg c cfg) : totalLen c (plainCfg2 cfg) = totalLen c cfg := by
  have hfe : mixLen c (plainCfg2 cfg) = mixLen c cfg := funext (plain_mixLen2 hc hk)
  unfold totalLen
  rw [hfe]

theorem plainCfg_2 (hc : PlainCls c) (hk : PlainCfg c cfg) : PlainCfg c (plainCfg2 cfg) :=
  { hval := plain_validate2 hc hk
    hpack := by
      have := hk.hpack
      unfold packGuard at this ⊢
      rw [plain_totalLen2 hc hk]
      exact this
    hla := hk.hla, hiv := hk.hiv, hst := hk.hst, hflags := hk.hflags, htz := hk.htz, hnotz := hk.hnotz
    hreloc := hk.hreloc, hks := hk.hks, hhmac := hk.hhmac, hbca := hk.hbca, hfcf := hk.hfcf, hcert := hk.hcert
    hsigLen := hk.hsigLen, hdigest := hk.hdigest, hfw := hk.hfw, hnoIv := hk.hnoIv, hnoSub := hk.hnoSub
    hnoHw := hk.hnoHw, hnoLa := hk.hnoLa, hctr := hk.hctr }


theorem plainImg2 (hc : PlainCls c) (hk : PlainCfg c cfg) (K : Nat) : plainImg c (plainCfg2 cfg) K = plainImg c cfg K := by
  have hA := (plain_app_valid hc hk).1
  have hU : plainU c (plainCfg2 cfg) K = plainU c cfg K := by
    unfold plainU
    rw [plain_totalLen2 hc hk, plain_appData2 hc hk]
    exact updateIvt_cleanIvt c cfg _ _ _ hA
  have hR : plainR (plainCfg2 cfg) = plainR cfg := by
    unfold plainR
    rw [plain_appData2 hc hk, cleanIvt_length _ hA]
    rfl
  unfold plainImg
  rw [hU, hR]
  rfl

theorem plainK2 (hc : PlainCls c) (hk : PlainCfg c cfg) : plainK c (plainCfg2 cfg) = plainK c cfg := by
  have hk2 := plainCfg_2 hc hk
  unfold plainK
  rw [← plainImg_take hc hk2 0, ← plainImg_drop hc hk2 0, ← plainImg_take hc hk 0, ← plainImg_drop hc hk 0,
    plainImg2 hc hk]

theorem disassemble_collect_plain (h : Hyp co env c cfg signer) (hf : c.family = some .plain) (dek : Option Bytes)
    (p : Parsed) (hp : p.tz = cfg.tz) (hcert : p.cert.isSome = c.hasAttr .cert_block) (hr : p.reloc = none) :
    ∃ raw, collect c cfg = .ok raw
      ∧ disassemble c p raw = .ok { p with app := (canon c cfg dek).app, reloc := (canon c cfg dek).reloc } := by
  have hc := plainCls h.hcls hf
  have hk := plainCfg hc h.hcfg
  exact ⟨_, plain_collect hc hk, plain_disassemble hc hk 0 (by decide) dek p hp hr⟩

theorem parse_export_plain (h : Hyp co env c cfg signer) (hf : c.family = some .plain) (dek : Option Bytes) :
    ∃ e, exportImage co c cfg signer = .ok e ∧ parseImage co env c dek e = .ok (canon c cfg dek) := by
  have hc := plainCls h.hcls hf
  have hk := plainCfg hc h.hcfg
  refine ⟨_, plain_export hc hk signer, ?_⟩
  have hK := plainK_lt c cfg
  have hsr : ∀ (q : Parsed) (img : Bytes), signRevert c q img = .ok img := by
    intro q img; unfold signRevert
    rcases hc.hsign with hs | hs <;> rw [hs]
  have htz : ({ canon c cfg dek with app := none, reloc := none } : Parsed).tz = cfg.tz := by
    show (canon c cfg dek).tz = cfg.tz
    simp only [canon]
    cases hb : c.hasTrustZone
    · simp [hk.hnotz hb]
    · simp
  unfold parseImage
  rw [plain_mixParseAll hc hk _ hK dek]
  simp only [bind, Except.bind, finalizeRevert, hc.hfin, hsr, postEncryptRevert, hc.hpenc, encryptRevert, hc.henc]
  rw [plain_disassemble hc hk _ hK dek _ htz rfl]

theorem reexport_plain (h : Hyp co env c cfg signer) (hf : c.family = some .plain) (signer' : Signer)
    (hs' : ∀ m, (signer' m).length = cfg.sigLen) (dek : Option Bytes)
    (hdek : c.has .Mbi_MixinHmac = true → dek = cfg.hmacKey) :
    ∃ e e', exportImage co c cfg signer = .ok e ∧ exportImage co c (canon c cfg dek).toCfg signer' = .ok e'
      ∧ eqOutsideSig c cfg e e' := by
  have hc := plainCls h.hcls hf
  have hk := plainCfg hc h.hcfg
  have hk2 := plainCfg_2 hc hk
  refine ⟨_, plainImg c (plainCfg2 cfg) (plainK c (plainCfg2 cfg)), plain_export hc hk signer, ?_, ?_⟩
  · rw [plain_toCfg hc hk dek]
    exact plain_export hc hk2 signer'
  · have hso : sigOffset c cfg (plainImg c cfg (plainK c cfg)) = none := by
      unfold sigOffset
      rcases hc.hsign with hs | hs <;> rw [hs]
    unfold eqOutsideSig
    rw [hso]
    show plainImg c cfg (plainK c cfg) = plainImg c (plainCfg2 cfg) (plainK c (plainCfg2 cfg))
    rw [plainK2 hc hk, plainImg2 hc hk]

theorem header_describes_plain (h : Hyp co env c cfg signer) (hf : c.family = some .plain) :
    ∃ e, exportImage co c cfg signer = .ok e
      ∧ rd32 e ivtImageLengthOffset = (if c.zeroTotalLength then 0 else e.length)
      ∧ rd32 e ivtImageFlagsOffset = flagsOf c cfg
      ∧ rd32 e ivtLoadAddrOffset = (if c.has .Mbi_MixinLoadAddress then cfg.loadAddress else 0)
      ∧ (c.imageType = 0 → rd32 e ivtCrcCertificateOffset = 0)
      ∧ (c.signKind = .crc → rd32 e ivtCrcCertificateOffset
            = crc32m (e.take ivtCrcCertificateOffset ++ e.drop (ivtCrcCertificateOffset + 4)))
      ∧ (c.hasAttr .cert_block = true →
          rd32 e ivtCrcCertificateOffset = appLen c cfg
          ∧ (let off := appLen c cfg + (if c.has .Mbi_MixinHmac then hmacSize + (cfg.keyStore.getD []).length else 0)
             slice e off (off + cfg.cert.length)
               = (if c.has .Mbi_MixinCertBlockV1 then certInImage c cfg else cfg.cert))) := by
  have hc := plainCls h.hcls hf
  have hk := plainCfg hc h.hcfg
  refine ⟨_, plain_export hc hk signer, ?_⟩
  obtain ⟨w1, w2, w3, w4⟩ := plainImg_words hc hk (plainK c cfg) (plainK_lt c cfg)
  refine ⟨?_, w2, w4, ?_, ?_, ?_⟩
  · rw [w1, plainImg_length' hc hk]
  · intro h0; rw [w3, if_pos h0]
  · intro hs
    rw [w3, if_neg (hc.hcrc.mp hs)]
    simp only [ivtCrcCertificateOffset]
    rw [plainImg_take hc hk, plainImg_drop hc hk]
    simp [plainK, hs]
  · intro hcb; rw [hc.hcert] at hcb; exact absurd hcb (by simp)

theorem total_len_sum_plain (h : Hyp co env c cfg signer) (hf : c.family = some .plain) :
    ∃ e, exportImage co c cfg signer = .ok e
      ∧ (e.length : Int) = totalLen c cfg + (if c.signKind = .rsa then cfg.sigLen else 0)
          + (if c.family = some .encrypted then encIvtCopySize + encIvSize else 0) := by
  have hc := plainCls h.hcls hf
  have hk := plainCfg hc h.hcfg
  refine ⟨_, plain_export hc hk signer, ?_⟩
  rw [plainImg_length hc hk, hf]
  have : c.signKind ≠ .rsa := by rcases hc.hsign with hs | hs <;> rw [hs] <;> decide
  simp [this]

end SpsdkVerif.Mbi
