/- Helper lemmas for the C11 extension (alternative widths, configuration path) of Properties/C11.lean. -/
import SpsdkVerif.Model.Registers
import SpsdkVerif.Proofs.Registers

namespace SpsdkVerif.Regs
open SpsdkVerif SpsdkVerif.Misc

/-! ### byte count (own copies of the `byteLen` facts; Proofs/KeysBase.lean is not imported) -/

theorem byteLenF_zero' (f : Nat) : byteLenF f 0 = 0 := by
  cases f <;> simp [byteLenF]

theorem byteLenF_min' (f v : Nat) (h : v ≤ f) :
    v < 256 ^ byteLenF f v ∧ (0 < v → 256 ^ (byteLenF f v - 1) ≤ v) := by
  induction f generalizing v with
  | zero =>
    have : v = 0 := by omega
    subst this; simp [byteLenF]
  | succ f ih =>
    by_cases hv : v = 0
    · subst hv; simp [byteLenF]
    · have h' : v / 256 ≤ f := by omega
      obtain ⟨i1, i2⟩ := ih (v / 256) h'
      simp only [byteLenF, hv, if_false]
      rw [Nat.add_comm 1, Nat.pow_succ, Nat.add_sub_cancel]
      refine ⟨by omega, fun _ => ?_⟩
      by_cases hq : v / 256 = 0
      · rw [hq, byteLenF_zero']; simp; omega
      · have := i2 (by omega)
        have hL : byteLenF f (v / 256) ≠ 0 := by
          intro e; rw [e] at i1; simp at i1; omega
        obtain ⟨L, hL'⟩ := Nat.exists_eq_succ_of_ne_zero hL
        rw [hL'] at this ⊢
        rw [Nat.pow_succ]
        simp at this
        omega

theorem byteCnt_le_iff (v n : Nat) (hn : 0 < n) : byteCnt v ≤ n ↔ v < 256 ^ n := by
  unfold byteCnt
  by_cases hv : v = 0
  · subst hv
    simp only [if_true]
    constructor
    · intro _; exact Nat.pow_pos (by decide)
    · intro _; omega
  · simp only [hv, if_false]
    obtain ⟨h1, h2⟩ := byteLenF_min' v v (Nat.le_refl v)
    have h2 := h2 (by omega)
    change byteLen v ≤ n ↔ _
    unfold byteLen
    constructor
    · intro hle
      exact Nat.lt_of_lt_of_le h1 (Nat.pow_le_pow_right (by decide) hle)
    · intro hlt
      have h3 : 256 ^ (byteLenF v v - 1) < 256 ^ n := by omega
      have h4 : byteLenF v v - 1 < n := (Nat.pow_lt_pow_iff_right (by omega : 1 < 256)).1 h3
      omega

/-! ### `altWidth` -/

theorem foldl_min_le (as : List Nat) (a : Nat) :
    as.foldl min a ≤ a ∧ ∀ x ∈ as, as.foldl min a ≤ x := by
  induction as generalizing a with
  | nil => simp
  | cons b bs ih =>
    simp only [List.foldl_cons]
    obtain ⟨h1, h2⟩ := ih (min a b)
    refine ⟨Nat.le_trans h1 (Nat.min_le_left _ _), ?_⟩
    intro x hx
    simp at hx
    rcases hx with rfl | hx
    · exact Nat.le_trans h1 (Nat.min_le_right _ _)
    · exact h2 x hx

theorem foldl_min_mem (as : List Nat) (a : Nat) : as.foldl min a = a ∨ as.foldl min a ∈ as := by
  induction as generalizing a with
  | nil => simp
  | cons b bs ih =>
    simp only [List.foldl_cons]
    rcases ih (min a b) with h | h
    · rcases Nat.le_total a b with hab | hab
      · left; rw [h]; exact Nat.min_eq_left hab
      · right; rw [h, Nat.min_eq_right hab]; simp
    · right; simp [h]

theorem altWidth_nil (w v : Nat) : altWidth [] w v = w := by simp [altWidth]

/-- either no alternative width holds the value (→ the width), or the result is the least alternative width that does -/
theorem altWidth_cases (alts : List Nat) (w v : Nat) :
    (altWidth alts w v = w ∧ ∀ a ∈ alts, ¬ byteCnt v ≤ a / 8) ∨
    (altWidth alts w v ∈ alts ∧ byteCnt v ≤ altWidth alts w v / 8 ∧
      ∀ a ∈ alts, byteCnt v ≤ a / 8 → altWidth alts w v ≤ a) := by
  unfold altWidth
  cases hf : alts.filter (fun a => decide (byteCnt v ≤ a / 8)) with
  | nil =>
    left
    refine ⟨rfl, ?_⟩
    intro a ha hq
    have : a ∈ alts.filter (fun a => decide (byteCnt v ≤ a / 8)) := by simp [List.mem_filter, ha, hq]
    rw [hf] at this; cases this
  | cons b bs =>
    right
    have hmem : ∀ x, x ∈ b :: bs ↔ (x ∈ alts ∧ byteCnt v ≤ x / 8) := by
      intro x; rw [← hf]; simp [List.mem_filter]
    simp only []
    have hin : bs.foldl min b ∈ b :: bs := by
      rcases foldl_min_mem bs b with h | h
      · rw [h]; simp
      · simp [h]
    obtain ⟨h1, h2⟩ := foldl_min_le bs b
    refine ⟨((hmem _).1 hin).1, ((hmem _).1 hin).2, ?_⟩
    intro a ha hq
    have : a ∈ b :: bs := (hmem a).2 ⟨ha, hq⟩
    simp at this
    rcases this with rfl | h
    · exact h1
    · exact h2 a h

/-! ### `setAlt` / `getAlt` without alternative widths are `set` / `get` -/

theorem subPosW_width (r : Reg) (i : Nat) : subPosW r r.width i = subPos r i := rfl

theorem setAlt_nil (r : Reg) (v : Nat) (raw : Bool) : r.setAlt [] v raw = r.set v raw := by
  simp [Reg.setAlt, Reg.set, altWidth_nil, subPosW_width]

theorem getAlt_nil (r : Reg) (raw : Bool) : r.getAlt [] raw = r.get raw := by
  simp [Reg.getAlt, Reg.get, altWidth_nil]

/-- a plain register that is not reversed ignores the alternative widths -/
theorem setAlt_plain (r : Reg) (alts : List Nat) (v : Nat) (raw : Bool) (hp : r.subW = 0) (hn : r.reverse = false)
    (hv : v < 2 ^ r.width) : r.setAlt alts v raw = .ok { r with value := v } := by
  have : ¬ (v ≥ 2 ^ r.width) := by omega
  simp [Reg.setAlt, isGroup_false r hp, hn, this]

theorem setAlt_reject (r : Reg) (alts : List Nat) (v : Nat) (raw : Bool) (hv : 2 ^ r.width ≤ v) :
    r.setAlt alts v raw = .error .spsdk := by
  simp [Reg.setAlt, hv]

theorem getAlt_plain (r : Reg) (alts : List Nat) (raw : Bool) (hp : r.subW = 0) (hn : r.reverse = false) :
    r.getAlt alts raw = .ok r.value := by
  simp [Reg.getAlt, isGroup_false r hp, hn]

/-! ### byte reversal of a short value: the low bytes of the result are zero -/

theorem beEnc_zero (n : Nat) : beEnc n 0 = List.replicate n 0 := by
  induction n with
  | zero => rfl
  | succ n ih => simp [beEnc, ih, List.replicate_succ']

theorem beEnc_pad (k d x : Nat) (hx : x < 256 ^ k) : beEnc (d + k) x = List.replicate d 0 ++ beEnc k x := by
  induction k generalizing x with
  | zero =>
    have : x = 0 := by simpa using hx
    subst this
    simp [beEnc_zero, beEnc]
  | succ k ih =>
    have hq : x / 256 < 256 ^ k := by
      rw [Nat.pow_succ] at hx
      exact Nat.div_lt_of_lt_mul (by rw [Nat.mul_comm]; exact hx)
    rw [← Nat.add_assoc, beEnc, ih _ hq, beEnc, List.append_assoc]

theorem beDec_append_zeros (l : Bytes) (d : Nat) : beDec (l ++ List.replicate d 0) = beDec l * 256 ^ d := by
  induction d with
  | zero => simp
  | succ d ih =>
    rw [List.replicate_succ', ← List.append_assoc, beDec_append_singleton, ih, Nat.pow_succ]
    simp [Nat.mul_assoc]

/-- reversing a value `x < 256^k` on `d + k` bytes gives a multiple of `256^d` -/
theorem leDec_beEnc_pad (k d x : Nat) (hx : x < 256 ^ k) : leDec (beEnc (d + k) x) % 256 ^ d = 0 := by
  rw [beEnc_pad k d x hx]
  simp only [leDec, List.reverse_append, List.reverse_replicate]
  rw [beDec_append_zeros]
  exact Nat.mul_mod_left _ _

theorem brev_low_zero (aw a x y : Nat) (h8 : aw % 8 = 0) (ha8 : a % 8 = 0) (hle : a ≤ aw) (hx : x < 2 ^ a)
    (hy : brev aw x = some y) : y % 2 ^ (aw - a) = 0 := by
  have hxw : x < 2 ^ aw := Nat.lt_of_lt_of_le hx (Nat.pow_le_pow_right (by decide) hle)
  rw [brev_eq aw x h8 hxw] at hy
  cases hy
  have e1 : aw / 8 = (aw - a) / 8 + a / 8 := by omega
  have e2 : 2 ^ (aw - a) = 256 ^ ((aw - a) / 8) := two_pow_eq_256_pow _ (by omega)
  rw [e1, e2]
  apply leDec_beEnc_pad
  rw [← two_pow_eq_256_pow a ha8]; exact hx

/-- the alternative width recomputed on the byte-swapped value is the one used for writing, unless the value has
    enough trailing zero bytes to fit a smaller alternative width after the swap -/
theorem altWidth_brev_stable (alts : List Nat) (w v x : Nat) (h8w : w % 8 = 0)
    (halts : ∀ a ∈ alts, a % 8 = 0 ∧ 8 ≤ a ∧ a ≤ w)
    (hv : v < 2 ^ w) (hx : brev (altWidth alts w v) v = some x)
    (hst : ∀ a ∈ alts, a < altWidth alts w v → v % 2 ^ (altWidth alts w v - a) ≠ 0) :
    altWidth alts w x = altWidth alts w v := by
  -- facts about the width used for writing
  have hq : ∀ a ∈ alts, ∀ z, (byteCnt z ≤ a / 8 ↔ z < 2 ^ a) := by
    intro a ha z
    obtain ⟨h1, h2, _⟩ := halts a ha
    rw [byteCnt_le_iff z (a / 8) (by omega), ← two_pow_eq_256_pow a h1]
  have haw8 : altWidth alts w v % 8 = 0 := by
    rcases altWidth_cases alts w v with ⟨h, _⟩ | ⟨h, _, _⟩
    · rw [h]; exact h8w
    · exact (halts _ h).1
  have hvaw : v < 2 ^ altWidth alts w v := by
    rcases altWidth_cases alts w v with ⟨h, _⟩ | ⟨h, h2, _⟩
    · rw [h]; exact hv
    · exact (hq _ h v).1 h2
  obtain ⟨x', hx1, hx2, hx3⟩ := brev_invol' _ v haw8 hvaw
  rw [hx] at hx1; cases hx1
  -- no smaller alternative width holds the swapped value
  have hsmall : ∀ a ∈ alts, a < altWidth alts w v → ¬ x < 2 ^ a := by
    intro a ha hlt hxa
    exact hst a ha hlt (brev_low_zero _ a x v haw8 (halts a ha).1 (by omega) hxa hx3)
  rcases altWidth_cases alts w x with ⟨h, hnone⟩ | ⟨hmem, hqx, hmin⟩
  · -- nothing holds x: then nothing held v either
    rcases altWidth_cases alts w v with ⟨h', _⟩ | ⟨h', _, _⟩
    · rw [h, h']
    · exact absurd ((hq _ h' x).2 hx2) (hnone _ h')
  · have hxlt : x < 2 ^ altWidth alts w x := (hq _ hmem x).1 hqx
    rcases Nat.lt_trichotomy (altWidth alts w x) (altWidth alts w v) with hlt | heq | hgt
    · exact absurd hxlt (hsmall _ hmem hlt)
    · exact heq
    · rcases altWidth_cases alts w v with ⟨h', _⟩ | ⟨h', _, _⟩
      · have := (halts _ hmem).2.2; omega
      · have := hmin _ h' ((hq _ h' x).2 hx2); omega

/-! ### grouped registers written with an alternative width -/

/-- the sub-register list written by `Reg.setAlt` on a group -/
def distributeW (r : Reg) (aw v : Nat) : List Nat :=
  (List.range r.subs.length).map (fun i =>
    if i < aw / r.subW then (v >>> subPosW r aw i) &&& mask r.subW else r.subs.getD i 0)

theorem distributeW_length (r : Reg) (aw v : Nat) : (distributeW r aw v).length = r.subs.length := by
  simp [distributeW]

theorem distributeW_getElem? (r : Reg) (aw v i : Nat) (hi : i < r.subs.length) :
    (distributeW r aw v)[i]? =
      some (if i < aw / r.subW then (v >>> subPosW r aw i) &&& mask r.subW else r.subs.getD i 0) := by
  simp [distributeW, hi]

theorem setAlt_group (r : Reg) (alts : List Nat) (v x : Nat) (raw : Bool) (hg : 0 < r.subW) (hv : v < 2 ^ r.width)
    (hx : (if !raw && r.reverse then brev (altWidth alts r.width v) v else some v) = some x) :
    r.setAlt alts v raw = .ok { r with subs := distributeW r (altWidth alts r.width v) x } := by
  have : ¬ (v ≥ 2 ^ r.width) := by omega
  simp only [Reg.setAlt, this, if_false, hx, isGroup_true r hg, if_true, distributeW]

theorem getAlt_group (r : Reg) (alts : List Nat) (raw : Bool) (hg : 0 < r.subW) :
    r.getAlt alts raw =
      (if !raw && r.reverse then
        match brev (altWidth alts r.width (assemble r)) (assemble r) with
        | some x => .ok x
        | none => .error .spsdk
      else .ok (assemble r)) := by
  unfold Reg.getAlt
  rw [isGroup_true r hg]
  rfl

theorem subPosW_normal (r : Reg) (aw i : Nat) (hn : r.revSubs = false) : subPosW r aw i = i * r.subW := by
  simp [subPosW, hn]

theorem subPos_normal (r : Reg) (i : Nat) (hn : r.revSubs = false) : subPos r i = i * r.subW := by
  simp [subPos, hn]

/-- two sub-register slots that contain the same bit are the same slot -/
theorem tile_unique (a b s k : Nat) (h1 : a * s ≤ k) (h2 : k < a * s + s) (h3 : b * s ≤ k) (h4 : k < b * s + s) :
    a = b := by
  have hs : 0 < s := by omega
  have ea : k / s = a := Nat.div_eq_of_lt_le (by rw [Nat.mul_comm] at h1; rw [Nat.mul_comm]; exact h1)
    (by rw [Nat.succ_mul]; exact h2)
  have eb : k / s = b := Nat.div_eq_of_lt_le (by rw [Nat.mul_comm] at h3; rw [Nat.mul_comm]; exact h3)
    (by rw [Nat.succ_mul]; exact h4)
  omega

/-- position of slot `i` as a multiple of the sub-register width, for both orders -/
theorem subPos_mul (r : Reg) (i : Nat) (hw : r.width = r.subW * r.subs.length) (hi : i < r.subs.length) :
    ∃ q, q < r.subs.length ∧ subPos r i = q * r.subW ∧ (r.revSubs = false → q = i) ∧
      (r.revSubs = true → q = r.subs.length - 1 - i) := by
  by_cases hr : r.revSubs = true
  · refine ⟨r.subs.length - 1 - i, by omega, ?_, by simp [hr], fun _ => rfl⟩
    simp only [subPos, hr, if_true]
    rw [hw, Nat.mul_comm r.subW, ← Nat.sub_mul]
    congr 1; omega
  · have hr' : r.revSubs = false := by simpa using hr
    exact ⟨i, hi, subPos_normal r i hr', fun _ => rfl, by simp [hr']⟩

theorem subPos_overlap (r : Reg) (i j k : Nat) (hw : r.width = r.subW * r.subs.length)
    (hi : i < r.subs.length) (hj : j < r.subs.length)
    (h1 : subPos r i ≤ k) (h2 : k < subPos r i + r.subW) (h3 : subPos r j ≤ k) (h4 : k < subPos r j + r.subW) :
    i = j := by
  obtain ⟨qi, hqi, ei, ni, ri⟩ := subPos_mul r i hw hi
  obtain ⟨qj, hqj, ej, nj, rj⟩ := subPos_mul r j hw hj
  rw [ei] at h1 h2; rw [ej] at h3 h4
  have := tile_unique qi qj r.subW k h1 h2 h3 h4
  by_cases hr : r.revSubs = true
  · have := ri hr; have := rj hr; omega
  · have hr' : r.revSubs = false := by simpa using hr
    have := ni hr'; have := nj hr'; omega

/-- the slice of the assembled group value at slot `i` is sub-register `i` -/
theorem slice_assemble (r : Reg) (i : Nat) (hw : r.width = r.subW * r.subs.length)
    (hb : ∀ s ∈ r.subs, s < 2 ^ r.subW) (hi : i < r.subs.length) :
    (assemble r >>> subPos r i) &&& mask r.subW = r.subs.getD i 0 := by
  have hbi : ∀ j, j < r.subs.length → r.subs.getD j 0 < 2 ^ r.subW := by
    intro j hj
    apply hb
    rw [List.getD_eq_getElem?_getD, List.getElem?_eq_getElem hj]
    simp
  apply Nat.eq_of_testBit_eq; intro t
  simp only [Nat.testBit_and, Nat.testBit_shiftRight, testBit_mask]
  by_cases ht : t < r.subW
  · simp only [ht, decide_true, Bool.and_true]
    rw [Bool.eq_iff_iff, testBit_assemble]
    constructor
    · rintro ⟨j, hj, hp, hbit⟩
      have hlt : subPos r i + t - subPos r j < r.subW := by
        rcases Nat.lt_or_ge (subPos r i + t - subPos r j) r.subW with h | h
        · exact h
        · rw [testBit_eq_false_of_lt (hbi j hj) h] at hbit; cases hbit
      have : i = j := subPos_overlap r i j (subPos r i + t) hw hi hj (by omega) (by omega) hp (by omega)
      subst this
      have e : subPos r i + t - subPos r i = t := by omega
      rw [e] at hbit; exact hbit
    · intro hbit
      refine ⟨i, hi, by omega, ?_⟩
      have e : subPos r i + t - subPos r i = t := by omega
      rw [e]; exact hbit
  · simp only [ht, decide_false, Bool.and_false]
    exact (testBit_eq_false_of_lt (hbi i hi) (by omega)).symm

theorem assemble_lt (r : Reg) (hw : r.width = r.subW * r.subs.length)
    (hb : ∀ s ∈ r.subs, s < 2 ^ r.subW) : assemble r < 2 ^ r.width := by
  apply Nat.lt_pow_two_of_testBit
  intro k hk
  cases h : (assemble r).testBit k with
  | false => rfl
  | true =>
    obtain ⟨i, hi, hp, hbit⟩ := (testBit_assemble r k).1 h
    have hbi : r.subs.getD i 0 < 2 ^ r.subW := by
      apply hb
      rw [List.getD_eq_getElem?_getD, List.getElem?_eq_getElem hi]; simp
    have hlt : k - subPos r i < r.subW := by
      rcases Nat.lt_or_ge (k - subPos r i) r.subW with h | h
      · exact h
      · rw [testBit_eq_false_of_lt hbi h] at hbit; cases hbit
    obtain ⟨q, hq, eq, _, _⟩ := subPos_mul r i hw hi
    have : q * r.subW + r.subW ≤ r.subs.length * r.subW := by
      rw [← Nat.succ_mul]; exact Nat.mul_le_mul_right _ (by omega)
    rw [Nat.mul_comm] at hw
    omega

/-- normal order: the sub-registers beyond an alternative width `aw` are zero iff the value is below `2^aw` -/
theorem sub_zero_of_assemble_lt (r : Reg) (aw i : Nat) (hw : r.width = r.subW * r.subs.length)
    (hb : ∀ s ∈ r.subs, s < 2 ^ r.subW) (hn : r.revSubs = false) (hg : 0 < r.subW) (hdiv : aw % r.subW = 0)
    (hlt : assemble r < 2 ^ aw) (hi : aw / r.subW ≤ i) : r.subs.getD i 0 = 0 := by
  rcases Nat.lt_or_ge i r.subs.length with hil | hil
  · rw [← slice_assemble r i hw hb hil, subPos_normal r i hn]
    apply Nat.eq_of_testBit_eq; intro t
    simp only [Nat.testBit_and, Nat.testBit_shiftRight, Nat.zero_testBit]
    have : aw ≤ i * r.subW + t := by
      have h1 : aw / r.subW * r.subW ≤ i * r.subW := Nat.mul_le_mul_right _ hi
      have h2 : aw / r.subW * r.subW = aw := by
        have := Nat.div_add_mod aw r.subW
        rw [hdiv, Nat.mul_comm] at this; omega
      omega
    rw [testBit_eq_false_of_lt hlt this]; rfl
  · rw [List.getD_eq_getElem?_getD, List.getElem?_eq_none hil]; rfl

/-- normal order: distributing `v < 2^aw` over the first `aw / subW` sub-registers of a group whose other
    sub-registers are zero makes the group read `v` -/
theorem assemble_distributeW (r : Reg) (aw v : Nat) (hw : r.width = r.subW * r.subs.length) (hg : 0 < r.subW)
    (hn : r.revSubs = false) (hdiv : aw % r.subW = 0) (hle : aw ≤ r.width) (hv : v < 2 ^ aw)
    (hup : ∀ i, aw / r.subW ≤ i → r.subs.getD i 0 = 0) :
    assemble { r with subs := distributeW r aw v } = v := by
  have haw : aw / r.subW * r.subW = aw := by
    have := Nat.div_add_mod aw r.subW
    rw [hdiv, Nat.mul_comm] at this; omega
  apply Nat.eq_of_testBit_eq; intro k
  rw [Bool.eq_iff_iff, testBit_assemble]
  simp only [distributeW_length]
  have hsp : ∀ i, subPos { r with subs := distributeW r aw v } i = i * r.subW := fun i => by
    simp [subPos, hn]
  constructor
  · rintro ⟨i, hi, hp, hb⟩
    rw [hsp] at hp hb
    rw [List.getD_eq_getElem?_getD, distributeW_getElem? r aw v i hi] at hb
    simp only [Option.getD_some] at hb
    by_cases hin : i < aw / r.subW
    · simp only [hin, if_true, subPosW_normal r aw i hn, Nat.testBit_and, Nat.testBit_shiftRight,
        Bool.and_eq_true] at hb
      have : i * r.subW + (k - i * r.subW) = k := by omega
      rw [this] at hb
      exact hb.1
    · simp only [hin, if_false] at hb
      rw [hup i (by omega)] at hb
      simp at hb
  · intro hb
    have hk : k < aw := by
      rcases Nat.lt_or_ge k aw with h | h
      · exact h
      · rw [testBit_eq_false_of_lt hv h] at hb; cases hb
    have hq : k / r.subW < aw / r.subW := by
      apply Nat.div_lt_of_lt_mul
      rw [Nat.mul_comm, haw]; exact hk
    have hlen : aw / r.subW ≤ r.subs.length := by
      have : aw / r.subW * r.subW ≤ r.subs.length * r.subW := by
        rw [haw, Nat.mul_comm r.subs.length, ← hw]; exact hle
      exact Nat.le_of_mul_le_mul_right this hg
    have h1 : k / r.subW * r.subW ≤ k := Nat.div_mul_le_self k r.subW
    have h2 : k - k / r.subW * r.subW < r.subW := by
      have := Nat.mod_lt k hg
      have e := Nat.div_add_mod k r.subW
      rw [Nat.mul_comm] at e
      omega
    refine ⟨k / r.subW, by omega, ?_, ?_⟩
    · rw [hsp]; exact h1
    · rw [hsp, List.getD_eq_getElem?_getD, distributeW_getElem? r aw v _ (by omega)]
      simp only [Option.getD_some, hq, if_true, subPosW_normal r aw _ hn, Nat.testBit_and,
        Nat.testBit_shiftRight, Bool.and_eq_true, testBit_mask]
      have : k / r.subW * r.subW + (k - k / r.subW * r.subW) = k := by omega
      rw [this]
      exact ⟨hb, by simpa using h2⟩

theorem distributeW_bound (r : Reg) (aw v : Nat) (hb : ∀ s ∈ r.subs, s < 2 ^ r.subW) :
    ∀ s ∈ distributeW r aw v, s < 2 ^ r.subW := by
  intro s hs
  obtain ⟨i, hsi⟩ := List.getElem?_of_mem hs
  have hi' : i < r.subs.length := by
    rcases Nat.lt_or_ge i r.subs.length with h | h
    · exact h
    · rw [List.getElem?_eq_none (by rw [distributeW_length]; exact h)] at hsi; cases hsi
  rw [distributeW_getElem? r aw v i hi'] at hsi
  cases hsi
  split
  · apply Nat.and_lt_two_pow
    simp only [mask]
    have : 0 < 2 ^ r.subW := Nat.two_pow_pos _
    omega
  · apply hb
    rw [List.getD_eq_getElem?_getD, List.getElem?_eq_getElem hi']; simp

/-- facts about the alternative width chosen for a value that fits the register -/
theorem altWidth_facts (alts : List Nat) (r : Reg) (v : Nat) (hw : r.width = r.subW * r.subs.length)
    (h8 : r.width % 8 = 0)
    (halts : ∀ a ∈ alts, a % 8 = 0 ∧ 8 ≤ a ∧ a ≤ r.width ∧ a % r.subW = 0) (hv : v < 2 ^ r.width) :
    altWidth alts r.width v % 8 = 0 ∧ altWidth alts r.width v % r.subW = 0 ∧
      altWidth alts r.width v ≤ r.width ∧ v < 2 ^ altWidth alts r.width v := by
  rcases altWidth_cases alts r.width v with ⟨h, _⟩ | ⟨h, h2, _⟩
  · rw [h]
    refine ⟨h8, ?_, Nat.le_refl _, hv⟩
    rw [hw]; exact Nat.mul_mod_right _ _
  · obtain ⟨a1, a2, a3, a4⟩ := halts _ h
    refine ⟨a1, a4, a3, ?_⟩
    rw [two_pow_eq_256_pow _ a1]
    exact (byteCnt_le_iff v _ (by omega)).1 h2

/-- set-then-get of a group with alternative widths (normal sub-register order) -/
theorem setAlt_getAlt_group (r : Reg) (alts : List Nat) (v : Nat) (raw : Bool)
    (hg : 0 < r.subW) (hw : r.width = r.subW * r.subs.length) (hb : ∀ s ∈ r.subs, s < 2 ^ r.subW)
    (h8 : r.width % 8 = 0) (hn : r.revSubs = false)
    (halts : ∀ a ∈ alts, a % 8 = 0 ∧ 8 ≤ a ∧ a ≤ r.width ∧ a % r.subW = 0)
    (hv : v < 2 ^ r.width)
    (hup : ∀ i, altWidth alts r.width v / r.subW ≤ i → r.subs.getD i 0 = 0)
    (hst : (!raw && r.reverse) = true →
      ∀ a ∈ alts, a < altWidth alts r.width v → v % 2 ^ (altWidth alts r.width v - a) ≠ 0) :
    ∃ l, r.setAlt alts v raw = .ok { r with subs := l } ∧ ({ r with subs := l } : Reg).getAlt alts raw = .ok v ∧
      l.length = r.subs.length ∧ ∀ s ∈ l, s < 2 ^ r.subW := by
  obtain ⟨f8, fdiv, fle, fv⟩ := altWidth_facts alts r v hw h8 halts hv
  have halts' : ∀ a ∈ alts, a % 8 = 0 ∧ 8 ≤ a ∧ a ≤ r.width := fun a ha =>
    ⟨(halts a ha).1, (halts a ha).2.1, (halts a ha).2.2.1⟩
  cases hc : (!raw && r.reverse) with
  | false =>
    refine ⟨distributeW r (altWidth alts r.width v) v, ?_, ?_, distributeW_length _ _ _, distributeW_bound r _ _ hb⟩
    · exact setAlt_group r alts v v raw hg hv (by simp [hc])
    · rw [getAlt_group { r with subs := distributeW r (altWidth alts r.width v) v } alts raw hg]
      simp only [hc]
      rw [assemble_distributeW r _ v hw hg hn fdiv fle fv hup]
      rfl
  | true =>
    obtain ⟨x, hx1, hx2, hx3⟩ := brev_invol' _ v f8 fv
    refine ⟨distributeW r (altWidth alts r.width v) x, ?_, ?_, distributeW_length _ _ _, distributeW_bound r _ _ hb⟩
    · exact setAlt_group r alts v x raw hg hv (by simp [hc, hx1])
    · rw [getAlt_group { r with subs := distributeW r (altWidth alts r.width v) x } alts raw hg]
      simp only [hc]
      rw [assemble_distributeW r _ x hw hg hn fdiv fle hx2 hup]
      have hxw : x < 2 ^ r.width := Nat.lt_of_lt_of_le hx2 (Nat.pow_le_pow_right (by decide) fle)
      have := altWidth_brev_stable alts r.width v x h8 halts' hv hx1 (hst hc)
      simp only [this, hx3, if_true]

end SpsdkVerif.Regs
