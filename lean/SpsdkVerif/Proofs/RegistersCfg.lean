/- Helper lemmas for the C11 extension (alternative widths, configuration path) of Properties/C11.lean. -/
import SpsdkVerif.Model.Registers
import SpsdkVerif.Proofs.Registers

namespace SpsdkVerif.Regs
open SpsdkVerif SpsdkVerif.Misc

/-! ### byte count (own copies of the `byteLen` facts; Proofs/KeysBase.lean is not imported) -/

theorem byteLenF_zero' (f : Nat) : byteLenF f 0 = 0 := by
  cases f <;> simp [byteLenF]

theorem byteLenF_min' (f v : Nat) (h : v ≤ f) :
    v < 256 ^ byteLenF f v ∧ (0 < v → 256 ^ (byteLenF f v - 1) ≤ v) := by
  induction f generalizing v with
  | zero =>
    have : v = 0 := by omega
    subst this; simp [byteLenF]
  | succ f ih =>
    by_cases hv : v = 0
    · subst hv; simp [byteLenF]
    · have h' : v / 256 ≤ f := by omega
      obtain ⟨i1, i2⟩ := ih (v / 256) h'
      simp only [byteLenF, hv, if_false]
      rw [Nat.add_comm 1, Nat.pow_succ, Nat.add_sub_cancel]
      refine ⟨by omega, fun _ => ?_⟩
      by_cases hq : v / 256 = 0
      · rw [hq, byteLenF_zero']; simp; omega
      · have := i2 (by omega)
        have hL : byteLenF f (v / 256) ≠ 0 := by
          intro e; rw [e] at i1; simp at i1; omega
        obtain ⟨L, hL'⟩ := Nat.exists_eq_succ_of_ne_zero hL
        rw [hL'] at this ⊢
        rw [Nat.pow_succ]
        simp at this
        omega

theorem byteCnt_le_iff (v n : Nat) (hn : 0 < n) : byteCnt v ≤ n ↔ v < 256 ^ n := by
  unfold byteCnt
  by_cases hv : v = 0
  · subst hv
    simp only [if_true]
    constructor
    · intro _; exact Nat.pow_pos (by decide)
    · intro _; omega
  · simp only [hv, if_false]
    obtain ⟨h1, h2⟩ := byteLenF_min' v v (Nat.le_refl v)
    have h2 := h2 (by omega)
    change byteLen v ≤ n ↔ _
    unfold byteLen
    constructor
    · intro hle
      exact Nat.lt_of_lt_of_le h1 (Nat.pow_le_pow_right (by decide) hle)
    · intro hlt
      have h3 : 256 ^ (byteLenF v v - 1) < 256 ^ n := by omega
      have h4 : byteLenF v v - 1 < n := (Nat.pow_lt_pow_iff_right (by omega : 1 < 256)).1 h3
      omega

/-! ### `altWidth` -/

theorem foldl_min_le (as : List Nat) (a : Nat) :
    as.foldl min a ≤ a ∧ ∀ x ∈ as, as.foldl min a ≤ x := by
  induction as generalizing a with
  | nil => simp
  | cons b bs ih =>
    simp only [List.foldl_cons]
    obtain ⟨h1, h2⟩ := ih (min a b)
    refine ⟨Nat.le_trans h1 (Nat.min_le_left _ _), ?_⟩
    intro x hx
    simp at hx
    rcases hx with rfl | hx
    · exact Nat.le_trans h1 (Nat.min_le_right _ _)
    · exact h2 x hx

theorem foldl_min_mem (as : List Nat) (a : Nat) : as.foldl min a = a ∨ as.foldl min a ∈ as := by
  induction as generalizing a with
  | nil => simp
  | cons b bs ih =>
    simp only [List.foldl_cons]
    rcases ih (min a b) with h | h
    · rcases Nat.le_total a b with hab | hab
      · left; rw [h]; exact Nat.min_eq_left hab
      · right; rw [h, Nat.min_eq_right hab]; simp
    · right; simp [h]

theorem altWidth_nil (w v : Nat) : altWidth [] w v = w := by simp [altWidth]

/-- either no alternative width holds the value (→ the width), or the result is the least alternative width that does -/
theorem altWidth_cases (alts : List Nat) (w v : Nat) :
    (altWidth alts w v = w ∧ ∀ a ∈ alts, ¬ byteCnt v ≤ a / 8) ∨
    (altWidth alts w v ∈ alts ∧ byteCnt v ≤ altWidth alts w v / 8 ∧
      ∀ a ∈ alts, byteCnt v ≤ a / 8 → altWidth alts w v ≤ a) := by
  unfold altWidth
  cases hf : alts.filter (fun a => decide (byteCnt v ≤ a / 8)) with
  | nil =>
    left
    refine ⟨rfl, ?_⟩
    intro a ha hq
    have : a ∈ alts.filter (fun a => decide (byteCnt v ≤ a / 8)) := by simp [List.mem_filter, ha, hq]
    rw [hf] at this; cases this
  | cons b bs =>
    right
    have hmem : ∀ x, x ∈ b :: bs ↔ (x ∈ alts ∧ byteCnt v ≤ x / 8) := by
      intro x; rw [← hf]; simp [List.mem_filter]
    simp only []
    have hin : bs.foldl min b ∈ b :: bs := by
      rcases foldl_min_mem bs b with h | h
      · rw [h]; simp
      · simp [h]
    obtain ⟨h1, h2⟩ := foldl_min_le bs b
    refine ⟨((hmem _).1 hin).1, ((hmem _).1 hin).2, ?_⟩
    intro a ha hq
    have : a ∈ b :: bs := (hmem a).2 ⟨ha, hq⟩
    simp at this
    rcases this with rfl | h
    · exact h1
    · exact h2 a h

/-! ### `setAlt` / `getAlt` without alternative widths are `set` / `get` -/

theorem subPosW_width (r : Reg) (i : Nat) : subPosW r r.width i = subPos r i := rfl

theorem setAlt_nil (r : Reg) (v : Nat) (raw : Bool) : r.setAlt [] v raw = r.set v raw := by
  simp [Reg.setAlt, Reg.set, altWidth_nil, subPosW_width]

theorem getAlt_nil (r : Reg) (raw : Bool) : r.getAlt [] raw = r.get raw := by
  simp [Reg.getAlt, Reg.get, altWidth_nil]

/-- a plain register that is not reversed ignores the alternative widths -/
theorem setAlt_plain (r : Reg) (alts : List Nat) (v : Nat) (raw : Bool) (hp : r.subW = 0) (hn : r.reverse = false)
    (hv : v < 2 ^ r.width) : r.setAlt alts v raw = .ok { r with value := v } := by
  have : ¬ (v ≥ 2 ^ r.width) := by omega
  simp [Reg.setAlt, isGroup_false r hp, hn, this]

theorem setAlt_reject (r : Reg) (alts : List Nat) (v : Nat) (raw : Bool) (hv : 2 ^ r.width ≤ v) :
    r.setAlt alts v raw = .error .spsdk := by
  simp [Reg.setAlt, hv]

theorem getAlt_plain (r : Reg) (alts : List Nat) (raw : Bool) (hp : r.subW = 0) (hn : r.reverse = false) :
    r.getAlt alts raw = .ok r.value := by
  simp [Reg.getAlt, isGroup_false r hp, hn]

/-! ### byte reversal of a short value: the low bytes of the result are zero -/

theorem beEnc_zero (n : Nat) : beEnc n 0 = List.replicate n 0 := by
  induction n with
  | zero => rfl
  | succ n ih => simp [beEnc, ih, List.replicate_succ']

theorem beEnc_pad (k d x : Nat) (hx : x < 256 ^ k) : beEnc (d + k) x = List.replicate d 0 ++ beEnc k x := by
  induction k generalizing x with
  | zero =>
    have : x = 0 := by simpa using hx
    subst this
    simp [beEnc_zero, beEnc]
  | succ k ih =>
    have hq : x / 256 < 256 ^ k := by
      rw [Nat.pow_succ] at hx
      exact Nat.div_lt_of_lt_mul (by rw [Nat.mul_comm]; exact hx)
    rw [← Nat.add_assoc, beEnc, ih _ hq, beEnc, List.append_assoc]

theorem beDec_append_zeros (l : Bytes) (d : Nat) : beDec (l ++ List.replicate d 0) = beDec l * 256 ^ d := by
  induction d with
  | zero => simp
  | succ d ih =>
    rw [List.replicate_succ', ← List.append_assoc, beDec_append_singleton, ih, Nat.pow_succ]
    simp [Nat.mul_assoc]

/-- reversing a value `x < 256^k` on `d + k` bytes gives a multiple of `256^d` -/
theorem leDec_beEnc_pad (k d x : Nat) (hx : x < 256 ^ k) : leDec (beEnc (d + k) x) % 256 ^ d = 0 := by
  rw [beEnc_pad k d x hx]
  simp only [leDec, List.reverse_append, List.reverse_replicate]
  rw [beDec_append_zeros]
  exact Nat.mul_mod_left _ _

theorem brev_low_zero (aw a x y : Nat) (h8 : aw % 8 = 0) (ha8 : a % 8 = 0) (hle : a ≤ aw) (hx : x < 2 ^ a)
    (hy : brev aw x = some y) : y % 2 ^ (aw - a) = 0 := by
  have hxw : x < 2 ^ aw := Nat.lt_of_lt_of_le hx (Nat.pow_le_pow_right (by decide) hle)
  rw [brev_eq aw x h8 hxw] at hy
  cases hy
  have e1 : aw / 8 = (aw - a) / 8 + a / 8 := by omega
  have e2 : 2 ^ (aw - a) = 256 ^ ((aw - a) / 8) := two_pow_eq_256_pow _ (by omega)
  rw [e1, e2]
  apply leDec_beEnc_pad
  rw [← two_pow_eq_256_pow a ha8]; exact hx

/-- the alternative width recomputed on the byte-swapped value is the one used for writing, unless the value has
    enough trailing zero bytes to fit a smaller alternative width after the swap -/
theorem altWidth_brev_stable (alts : List Nat) (w v x : Nat) (h8w : w % 8 = 0)
    (halts : ∀ a ∈ alts, a % 8 = 0 ∧ 8 ≤ a ∧ a ≤ w)
    (hv : v < 2 ^ w) (hx : brev (altWidth alts w v) v = some x)
    (hst : ∀ a ∈ alts, a < altWidth alts w v → v % 2 ^ (altWidth alts w v - a) ≠ 0) :
    altWidth alts w x = altWidth alts w v := by
  -- facts about the width used for writing
  have hq : ∀ a ∈ alts, ∀ z, (byteCnt z ≤ a / 8 ↔ z < 2 ^ a) := by
    intro a ha z
    obtain ⟨h1, h2, _⟩ := halts a ha
    rw [byteCnt_le_iff z (a / 8) (by omega), ← two_pow_eq_256_pow a h1]
  have haw8 : altWidth alts w v % 8 = 0 := by
    rcases altWidth_cases alts w v with ⟨h, _⟩ | ⟨h, _, _⟩
    · rw [h]; exact h8w
    · exact (halts _ h).1
  have hvaw : v < 2 ^ altWidth alts w v := by
    rcases altWidth_cases alts w v with ⟨h, _⟩ | ⟨h, h2, _⟩
    · rw [h]; exact hv
    · exact (hq _ h v).1 h2
  obtain ⟨x', hx1, hx2, hx3⟩ := brev_invol' _ v haw8 hvaw
  rw [hx] at hx1; cases hx1
  -- no smaller alternative width holds the swapped value
  have hsmall : ∀ a ∈ alts, a < altWidth alts w v → ¬ x < 2 ^ a := by
    intro a ha hlt hxa
    exact hst a ha hlt (brev_low_zero _ a x v haw8 (halts a ha).1 (by omega) hxa hx3)
  rcases altWidth_cases alts w x with ⟨h, hnone⟩ | ⟨hmem, hqx, hmin⟩
  · -- nothing holds x: then nothing held v either
    rcases altWidth_cases alts w v with ⟨h', _⟩ | ⟨h', _, _⟩
    · rw [h, h']
    · exact absurd ((hq _ h' x).2 hx2) (hnone _ h')
  · have hxlt : x < 2 ^ altWidth alts w x := (hq _ hmem x).1 hqx
    rcases Nat.lt_trichotomy (altWidth alts w x) (altWidth alts w v) with hlt | heq | hgt
    · exact absurd hxlt (hsmall _ hmem hlt)
    · exact heq
    · rcases altWidth_cases alts w v with ⟨h', _⟩ | ⟨h', _, _⟩
      · have := (halts _ hmem).2.2; omega
      · have := hmin _ h' ((hq _ h' x).2 hx2); omega

/-! ### grouped registers written with an alternative width -/

/-- the sub-register list written by `Reg.setAlt` on a group -/
def distributeW (r : Reg) (aw v : Nat) : List Nat :=
  (List.range r.subs.length).map (fun i =>
    if i < aw / r.subW then (v >>> subPosW r aw i) &&& mask r.subW else r.subs.getD i 0)

theorem distributeW_length (r : Reg) (aw v : Nat) : (distributeW r aw v).length = r.subs.length := by
  simp [distributeW]

theorem distributeW_getElem? (r : Reg) (aw v i : Nat) (hi : i < r.subs.length) :
    (distributeW r aw v)[i]? =
      some (if i < aw / r.subW then (v >>> subPosW r aw i) &&& mask r.subW else r.subs.getD i 0) := by
  simp [distributeW, hi]

theorem setAlt_group (r : Reg) (alts : List Nat) (v x : Nat) (raw : Bool) (hg : 0 < r.subW) (hv : v < 2 ^ r.width)
    (hx : (if !raw && r.reverse then brev (altWidth alts r.width v) v else some v) = some x) :
    r.setAlt alts v raw = .ok { r with subs := distributeW r (altWidth alts r.width v) x } := by
  have : ¬ (v ≥ 2 ^ r.width) := by omega
  simp only [Reg.setAlt, this, if_false, hx, isGroup_true r hg, if_true, distributeW]

theorem getAlt_group (r : Reg) (alts : List Nat) (raw : Bool) (hg : 0 < r.subW) :
    r.getAlt alts raw =
      (if !raw && r.reverse then
        match brev (altWidth alts r.width (assemble r)) (assemble r) with
        | some x => .ok x
        | none => .error .spsdk
      else .ok (assemble r)) := by
  unfold Reg.getAlt
  rw [isGroup_true r hg]
  rfl

theorem subPosW_normal (r : Reg) (aw i : Nat) (hn : r.revSubs = false) : subPosW r aw i = i * r.subW := by
  simp [subPosW, hn]

theorem subPos_normal (r : Reg) (i : Nat) (hn : r.revSubs = false) : subPos r i = i * r.subW := by
  simp [subPos, hn]

/-- two sub-register slots that contain the same bit are the same slot -/
theorem tile_unique (a b s k : Nat) (h1 : a * s ≤ k) (h2 : k < a * s + s) (h3 : b * s ≤ k) (h4 : k < b * s + s) :
    a = b := by
  have hs : 0 < s := by omega
  have ea : k / s = a := Nat.div_eq_of_lt_le (by rw [Nat.mul_comm] at h1; rw [Nat.mul_comm]; exact h1)
    (by rw [Nat.succ_mul]; exact h2)
  have eb : k / s = b := Nat.div_eq_of_lt_le (by rw [Nat.mul_comm] at h3; rw [Nat.mul_comm]; exact h3)
    (by rw [Nat.succ_mul]; exact h4)
  omega

/-- position of slot `i` as a multiple of the sub-register width, for both orders -/
theorem subPos_mul (r : Reg) (i : Nat) (hw : r.width = r.subW * r.subs.length) (hi : i < r.subs.length) :
    ∃ q, q < r.subs.length ∧ subPos r i = q * r.subW ∧ (r.revSubs = false → q = i) ∧
      (r.revSubs = true → q = r.subs.length - 1 - i) := by
  by_cases hr : r.revSubs = true
  · refine ⟨r.subs.length - 1 - i, by omega, ?_, by simp [hr], fun _ => rfl⟩
    simp only [subPos, hr, if_true]
    rw [hw, Nat.mul_comm r.subW, ← Nat.sub_mul]
    congr 1; omega
  · have hr' : r.revSubs = false := by simpa using hr
    exact ⟨i, hi, subPos_normal r i hr', fun _ => rfl, by simp [hr']⟩

theorem subPos_overlap (r : Reg) (i j k : Nat) (hw : r.width = r.subW * r.subs.length)
    (hi : i < r.subs.length) (hj : j < r.subs.length)
    (h1 : subPos r i ≤ k) (h2 : k < subPos r i + r.subW) (h3 : subPos r j ≤ k) (h4 : k < subPos r j + r.subW) :
    i = j := by
  obtain ⟨qi, hqi, ei, ni, ri⟩ := subPos_mul r i hw hi
  obtain ⟨qj, hqj, ej, nj, rj⟩ := subPos_mul r j hw hj
  rw [ei] at h1 h2; rw [ej] at h3 h4
  have := tile_unique qi qj r.subW k h1 h2 h3 h4
  by_cases hr : r.revSubs = true
  · have := ri hr; have := rj hr; omega
  · have hr' : r.revSubs = false := by simpa using hr
    have := ni hr'; have := nj hr'; omega

/-- the slice of the assembled group value at slot `i` is sub-register `i` -/
theorem slice_assemble (r : Reg) (i : Nat) (hw : r.width = r.subW * r.subs.length)
    (hb : ∀ s ∈ r.subs, s < 2 ^ r.subW) (hi : i < r.subs.length) :
    (assemble r >>> subPos r i) &&& mask r.subW = r.subs.getD i 0 := by
  have hbi : ∀ j, j < r.subs.length → r.subs.getD j 0 < 2 ^ r.subW := by
    intro j hj
    apply hb
    rw [List.getD_eq_getElem?_getD, List.getElem?_eq_getElem hj]
    simp
  apply Nat.eq_of_testBit_eq; intro t
  simp only [Nat.testBit_and, Nat.testBit_shiftRight, testBit_mask]
  by_cases ht : t < r.subW
  · simp only [ht, decide_true, Bool.and_true]
    rw [Bool.eq_iff_iff, testBit_assemble]
    constructor
    · rintro ⟨j, hj, hp, hbit⟩
      have hlt : subPos r i + t - subPos r j < r.subW := by
        rcases Nat.lt_or_ge (subPos r i + t - subPos r j) r.subW with h | h
        · exact h
        · rw [testBit_eq_false_of_lt (hbi j hj) h] at hbit; cases hbit
      have : i = j := subPos_overlap r i j (subPos r i + t) hw hi hj (by omega) (by omega) hp (by omega)
      subst this
      have e : subPos r i + t - subPos r i = t := by omega
      rw [e] at hbit; exact hbit
    · intro hbit
      refine ⟨i, hi, by omega, ?_⟩
      have e : subPos r i + t - subPos r i = t := by omega
      rw [e]; exact hbit
  · simp only [ht, decide_false, Bool.and_false]
    exact (testBit_eq_false_of_lt (hbi i hi) (by omega)).symm

theorem assemble_lt (r : Reg) (hw : r.width = r.subW * r.subs.length)
    (hb : ∀ s ∈ r.subs, s < 2 ^ r.subW) : assemble r < 2 ^ r.width := by
  apply Nat.lt_pow_two_of_testBit
  intro k hk
  cases h : (assemble r).testBit k with
  | false => rfl
  | true =>
    obtain ⟨i, hi, hp, hbit⟩ := (testBit_assemble r k).1 h
    have hbi : r.subs.getD i 0 < 2 ^ r.subW := by
      apply hb
      rw [List.getD_eq_getElem?_getD, List.getElem?_eq_getElem hi]; simp
    have hlt : k - subPos r i < r.subW := by
      rcases Nat.lt_or_ge (k - subPos r i) r.subW with h | h
      · exact h
      · rw [testBit_eq_false_of_lt hbi h] at hbit; cases hbit
    obtain ⟨q, hq, eq, _, _⟩ := subPos_mul r i hw hi
    have : q * r.subW + r.subW ≤ r.subs.length * r.subW := by
      rw [← Nat.succ_mul]; exact Nat.mul_le_mul_right _ (by omega)
    rw [Nat.mul_comm] at hw
    omega

/-- normal order: the sub-registers beyond an alternative width `aw` are zero iff the value is below `2^aw` -/
theorem sub_zero_of_assemble_lt (r : Reg) (aw i : Nat) (hw : r.width = r.subW * r.subs.length)
    (hb : ∀ s ∈ r.subs, s < 2 ^ r.subW) (hn : r.revSubs = false) (hg : 0 < r.subW) (hdiv : aw % r.subW = 0)
    (hlt : assemble r < 2 ^ aw) (hi : aw / r.subW ≤ i) : r.subs.getD i 0 = 0 := by
  rcases Nat.lt_or_ge i r.subs.length with hil | hil
  · rw [← slice_assemble r i hw hb hil, subPos_normal r i hn]
    apply Nat.eq_of_testBit_eq; intro t
    simp only [Nat.testBit_and, Nat.testBit_shiftRight, Nat.zero_testBit]
    have : aw ≤ i * r.subW + t := by
      have h1 : aw / r.subW * r.subW ≤ i * r.subW := Nat.mul_le_mul_right _ hi
      have h2 : aw / r.subW * r.subW = aw := by
        have := Nat.div_add_mod aw r.subW
        rw [hdiv, Nat.mul_comm] at this; omega
      omega
    rw [testBit_eq_false_of_lt hlt this]; rfl
  · rw [List.getD_eq_getElem?_getD, List.getElem?_eq_none hil]; rfl

/-- normal order: distributing `v < 2^aw` over the first `aw / subW` sub-registers of a group whose other
    sub-registers are zero makes the group read `v` -/
theorem assemble_distributeW (r : Reg) (aw v : Nat) (hw : r.width = r.subW * r.subs.length) (hg : 0 < r.subW)
    (hn : r.revSubs = false) (hdiv : aw % r.subW = 0) (hle : aw ≤ r.width) (hv : v < 2 ^ aw)
    (hup : ∀ i, aw / r.subW ≤ i → r.subs.getD i 0 = 0) :
    assemble { r with subs := distributeW r aw v } = v := by
  have haw : aw / r.subW * r.subW = aw := by
    have := Nat.div_add_mod aw r.subW
    rw [hdiv, Nat.mul_comm] at this; omega
  apply Nat.eq_of_testBit_eq; intro k
  rw [Bool.eq_iff_iff, testBit_assemble]
  simp only [distributeW_length]
  have hsp : ∀ i, subPos { r with subs := distributeW r aw v } i = i * r.subW := fun i => by
    simp [subPos, hn]
  constructor
  · rintro ⟨i, hi, hp, hb⟩
    rw [hsp] at hp hb
    rw [List.getD_eq_getElem?_getD, distributeW_getElem? r aw v i hi] at hb
    simp only [Option.getD_some] at hb
    by_cases hin : i < aw / r.subW
    · simp only [hin, if_true, subPosW_normal r aw i hn, Nat.testBit_and, Nat.testBit_shiftRight,
        Bool.and_eq_true] at hb
      have : i * r.subW + (k - i * r.subW) = k := by omega
      rw [this] at hb
      exact hb.1
    · simp only [hin, if_false] at hb
      rw [hup i (by omega)] at hb
      simp at hb
  · intro hb
    have hk : k < aw := by
      rcases Nat.lt_or_ge k aw with h | h
      · exact h
      · rw [testBit_eq_false_of_lt hv h] at hb; cases hb
    have hq : k / r.subW < aw / r.subW := by
      apply Nat.div_lt_of_lt_mul
      rw [Nat.mul_comm, haw]; exact hk
    have hlen : aw / r.subW ≤ r.subs.length := by
      have : aw / r.subW * r.subW ≤ r.subs.length * r.subW := by
        rw [haw, Nat.mul_comm r.subs.length, ← hw]; exact hle
      exact Nat.le_of_mul_le_mul_right this hg
    have h1 : k / r.subW * r.subW ≤ k := Nat.div_mul_le_self k r.subW
    have h2 : k - k / r.subW * r.subW < r.subW := by
      have := Nat.mod_lt k hg
      have e := Nat.div_add_mod k r.subW
      rw [Nat.mul_comm] at e
      omega
    refine ⟨k / r.subW, by omega, ?_, ?_⟩
    · rw [hsp]; exact h1
    · rw [hsp, List.getD_eq_getElem?_getD, distributeW_getElem? r aw v _ (by omega)]
      simp only [Option.getD_some, hq, if_true, subPosW_normal r aw _ hn, Nat.testBit_and,
        Nat.testBit_shiftRight, Bool.and_eq_true, testBit_mask]
      have : k / r.subW * r.subW + (k - k / r.subW * r.subW) = k := by omega
      rw [this]
      exact ⟨hb, by simpa using h2⟩

theorem distributeW_bound (r : Reg) (aw v : Nat) (hb : ∀ s ∈ r.subs, s < 2 ^ r.subW) :
    ∀ s ∈ distributeW r aw v, s < 2 ^ r.subW := by
  intro s hs
  obtain ⟨i, hsi⟩ := List.getElem?_of_mem hs
  have hi' : i < r.subs.length := by
    rcases Nat.lt_or_ge i r.subs.length with h | h
    · exact h
    · rw [List.getElem?_eq_none (by rw [distributeW_length]; exact h)] at hsi; cases hsi
  rw [distributeW_getElem? r aw v i hi'] at hsi
  cases hsi
  split
  · apply Nat.and_lt_two_pow
    simp only [mask]
    have : 0 < 2 ^ r.subW := Nat.two_pow_pos _
    omega
  · apply hb
    rw [List.getD_eq_getElem?_getD, List.getElem?_eq_getElem hi']; simp

/-- facts about the alternative width chosen for a value that fits the register -/
theorem altWidth_facts (alts : List Nat) (r : Reg) (v : Nat) (hw : r.width = r.subW * r.subs.length)
    (h8 : r.width % 8 = 0)
    (halts : ∀ a ∈ alts, a % 8 = 0 ∧ 8 ≤ a ∧ a ≤ r.width ∧ a % r.subW = 0) (hv : v < 2 ^ r.width) :
    altWidth alts r.width v % 8 = 0 ∧ altWidth alts r.width v % r.subW = 0 ∧
      altWidth alts r.width v ≤ r.width ∧ v < 2 ^ altWidth alts r.width v := by
  rcases altWidth_cases alts r.width v with ⟨h, _⟩ | ⟨h, h2, _⟩
  · rw [h]
    refine ⟨h8, ?_, Nat.le_refl _, hv⟩
    rw [hw]; exact Nat.mul_mod_right _ _
  · obtain ⟨a1, a2, a3, a4⟩ := halts _ h
    refine ⟨a1, a4, a3, ?_⟩
    rw [two_pow_eq_256_pow _ a1]
    exact (byteCnt_le_iff v _ (by omega)).1 h2

/-- set-then-get of a group with alternative widths (normal sub-register order) -/
theorem setAlt_getAlt_group (r : Reg) (alts : List Nat) (v : Nat) (raw : Bool)
    (hg : 0 < r.subW) (hw : r.width = r.subW * r.subs.length) (hb : ∀ s ∈ r.subs, s < 2 ^ r.subW)
    (h8 : r.width % 8 = 0) (hn : r.revSubs = false)
    (halts : ∀ a ∈ alts, a % 8 = 0 ∧ 8 ≤ a ∧ a ≤ r.width ∧ a % r.subW = 0)
    (hv : v < 2 ^ r.width)
    (hup : ∀ i, altWidth alts r.width v / r.subW ≤ i → r.subs.getD i 0 = 0)
    (hst : (!raw && r.reverse) = true →
      ∀ a ∈ alts, a < altWidth alts r.width v → v % 2 ^ (altWidth alts r.width v - a) ≠ 0) :
    ∃ l, r.setAlt alts v raw = .ok { r with subs := l } ∧ ({ r with subs := l } : Reg).getAlt alts raw = .ok v ∧
      l.length = r.subs.length ∧ ∀ s ∈ l, s < 2 ^ r.subW := by
  obtain ⟨f8, fdiv, fle, fv⟩ := altWidth_facts alts r v hw h8 halts hv
  have halts' : ∀ a ∈ alts, a % 8 = 0 ∧ 8 ≤ a ∧ a ≤ r.width := fun a ha =>
    ⟨(halts a ha).1, (halts a ha).2.1, (halts a ha).2.2.1⟩
  cases hc : (!raw && r.reverse) with
  | false =>
    refine ⟨distributeW r (altWidth alts r.width v) v, ?_, ?_, distributeW_length _ _ _, distributeW_bound r _ _ hb⟩
    · exact setAlt_group r alts v v raw hg hv (by simp [hc])
    · rw [getAlt_group { r with subs := distributeW r (altWidth alts r.width v) v } alts raw hg]
      simp only [hc]
      rw [assemble_distributeW r _ v hw hg hn fdiv fle fv hup]
      rfl
  | true =>
    obtain ⟨x, hx1, hx2, hx3⟩ := brev_invol' _ v f8 fv
    refine ⟨distributeW r (altWidth alts r.width v) x, ?_, ?_, distributeW_length _ _ _, distributeW_bound r _ _ hb⟩
    · exact setAlt_group r alts v x raw hg hv (by simp [hc, hx1])
    · rw [getAlt_group { r with subs := distributeW r (altWidth alts r.width v) x } alts raw hg]
      simp only [hc]
      rw [assemble_distributeW r _ x hw hg hn fdiv fle hx2 hup]
      have hxw : x < 2 ^ r.width := Nat.lt_of_lt_of_le hx2 (Nat.pow_le_pow_right (by decide) fle)
      have := altWidth_brev_stable alts r.width v x h8 halts' hv hx1 (hst hc)
      simp only [this, hx3, if_true]

/-! ### configuration path: enum names -/

theorem enumValueOf_cases (r : Reg) (f : Field) (fm : FieldMeta) (v : Nat) (h : fieldGet r f = .ok v) :
    enumValueOf r f fm = .ok (.num v) ∨
      ∃ n, enumValueOf r f fm = .ok (.enumName n) ∧ enumConst f fm n = some v := by
  unfold enumValueOf
  rw [h]
  simp only []
  split
  · rename_i k _
    by_cases hc : enumConst f fm (fm.nameOf k) = some v
    · right; exact ⟨fm.nameOf k, by simp [hc], hc⟩
    · left; simp [hc]
  · left; rfl

theorem loadField_decoded (cur : Reg) (f : Field) (fm : FieldMeta) (c : CfgVal) (v : Nat)
    (h : c = .num v ∨ ∃ n, c = .enumName n ∧ enumConst f fm n = some v) :
    loadField cur f fm c = fieldSet cur f v true false := by
  rcases h with rfl | ⟨n, rfl, hn⟩
  · rfl
  · simp [loadField, hn]

/-! ### configuration path: one register with bit-fields -/

/-- bit `k` lies in a bit-field of `fs` (numbered from `j`) that `get_config` writes out: every bit-field except the
    hidden ones that hold their reset value -/
def CarriedFrom (rm : RegMeta) (r : Reg) (fs : List Field) (j k : Nat) : Prop :=
  ∃ t f, fs[t]? = some f ∧ f.offset ≤ k ∧ k < f.offset + f.width ∧
    ¬ ((rm.field (j + t)).hidden = true ∧ fieldGet r f = .ok f.reset)

theorem carriedFrom_cons (rm : RegMeta) (r : Reg) (f : Field) (fs : List Field) (j k : Nat) :
    CarriedFrom rm r (f :: fs) j k ↔
      ((f.offset ≤ k ∧ k < f.offset + f.width ∧ ¬ ((rm.field j).hidden = true ∧ fieldGet r f = .ok f.reset)) ∨
        CarriedFrom rm r fs (j + 1) k) := by
  constructor
  · rintro ⟨t, g, hg, h1, h2, h3⟩
    cases t with
    | zero =>
      simp at hg; subst hg
      left; exact ⟨h1, h2, by simpa using h3⟩
    | succ t =>
      right
      refine ⟨t, g, by simpa using hg, h1, h2, ?_⟩
      have e : j + 1 + t = j + (t + 1) := by omega
      rw [e]; exact h3
  · rintro (⟨h1, h2, h3⟩ | ⟨t, g, hg, h1, h2, h3⟩)
    · exact ⟨0, f, by simp, h1, h2, by simpa using h3⟩
    · refine ⟨t + 1, g, by simpa using hg, h1, h2, ?_⟩
      have e : j + 1 + t = j + (t + 1) := by omega
      rw [← e]; exact h3

theorem slice_testBit (a off w t : Nat) :
    ((a >>> off) &&& mask w).testBit t = (a.testBit (off + t) && decide (t < w)) := by
  simp [Nat.testBit_and, Nat.testBit_shiftRight, testBit_mask]

theorem slice_lt (a off w : Nat) : (a >>> off) &&& mask w < 2 ^ w := by
  apply Nat.and_lt_two_pow
  simp only [mask]
  have : 0 < 2 ^ w := Nat.two_pow_pos _
  omega

/-- `get_config` of the bit-fields `fs` of `R`, loaded bit-field by bit-field into `cur` (same layout): every carried bit
    takes the value it has in `R`, every other bit keeps the value it has in `cur` -/
theorem loadFields_fieldsConfig (R : Reg) (rm : RegMeta) (hp : R.subW = 0) (hn : R.reverse = false)
    (fs : List Field) (j : Nat) (hfs : ∀ t, fs[t]? = R.fields[j + t]?)
    (hin : ∀ f ∈ fs, f.offset + f.width ≤ R.width)
    (cur : Reg) (hcp : cur.subW = 0) (hcn : cur.reverse = false) (hcw : cur.width = R.width)
    (hcf : cur.fields = R.fields) (hcb : cur.value < 2 ^ cur.width) :
    ∃ l x, fieldsConfig R rm fs j = .ok l ∧ loadFields cur rm l = .ok { cur with value := x } ∧ x < 2 ^ R.width ∧
      ∀ k, (CarriedFrom rm R fs j k → x.testBit k = R.value.testBit k) ∧
           (¬ CarriedFrom rm R fs j k → x.testBit k = cur.value.testBit k) := by
  induction fs generalizing j cur with
  | nil =>
    refine ⟨[], cur.value, rfl, rfl, hcw ▸ hcb, ?_⟩
    intro k
    refine ⟨?_, fun _ => rfl⟩
    rintro ⟨t, f, hf, _⟩
    simp at hf
  | cons f fs ih =>
    have hf0 : R.fields[j]? = some f := by
      have := hfs 0; simpa using this.symm
    have hfs' : ∀ t, fs[t]? = R.fields[j + 1 + t]? := by
      intro t
      have := hfs (t + 1)
      have e : j + (t + 1) = j + 1 + t := by omega
      rw [e] at this
      simpa using this
    have hin' : ∀ g ∈ fs, g.offset + g.width ≤ R.width := fun g hg => hin g (by simp [hg])
    have hinf : f.offset + f.width ≤ cur.width := by rw [hcw]; exact hin f (by simp)
    have hget := fieldGet_plain R f hp hn
    unfold fieldsConfig
    rw [hget]
    simp only []
    by_cases hskip : ((rm.field j).hidden && (((R.value >>> f.offset) &&& mask f.width) <<< f.shift == f.reset)) = true
    · -- a hidden bit-field at its reset value is not written out
      rw [if_pos hskip]
      obtain ⟨l, x, h1, h2, h3, h4⟩ := ih (j + 1) hfs' hin' cur hcp hcn hcw hcf hcb
      refine ⟨l, x, h1, h2, h3, ?_⟩
      have hsk : (rm.field j).hidden = true ∧ fieldGet R f = .ok f.reset := by
        simp only [Bool.and_eq_true, beq_iff_eq] at hskip
        exact ⟨hskip.1, by rw [hget, hskip.2]⟩
      intro k
      have hiff : CarriedFrom rm R (f :: fs) j k ↔ CarriedFrom rm R fs (j + 1) k := by
        rw [carriedFrom_cons]
        constructor
        · rintro (⟨_, _, h⟩ | h)
          · exact absurd hsk h
          · exact h
        · exact fun h => Or.inr h
      rw [hiff]; exact h4 k
    · rw [if_neg hskip]
      have hnsk : ¬ ((rm.field j).hidden = true ∧ fieldGet R f = .ok f.reset) := by
        rintro ⟨a, b⟩
        apply hskip
        rw [hget] at b
        have : ((R.value >>> f.offset) &&& mask f.width) <<< f.shift = f.reset := by
          injection b
        simp [a, this]
      -- the value written out decodes to the bit-field value
      have hdec := enumValueOf_cases R f (rm.field j) _ hget
      have hsr : (((R.value >>> f.offset) &&& mask f.width) <<< f.shift) >>> f.shift
          = (R.value >>> f.offset) &&& mask f.width := Nat.shiftLeft_shiftRight _ _
      have hvlt : (((R.value >>> f.offset) &&& mask f.width) <<< f.shift) >>> f.shift < 2 ^ f.width := by
        rw [hsr]; exact slice_lt _ _ _
      have hset := fieldSet_plain_ok cur f _ true hcp hcn hcb hinf hvlt
      rw [hsr] at hset
      obtain ⟨l, x, h1, h2, h3, h4⟩ := ih (j + 1) hfs' hin'
        { cur with value := insertBits cur.value f.offset f.width ((R.value >>> f.offset) &&& mask f.width) }
        hcp hcn hcw hcf (insertBits_lt _ _ _ _ _ hcb hinf)
      have hbits : ∀ k, (CarriedFrom rm R (f :: fs) j k → x.testBit k = R.value.testBit k) ∧
           (¬ CarriedFrom rm R (f :: fs) j k → x.testBit k = cur.value.testBit k) := by
        intro k
        rw [carriedFrom_cons]
        by_cases hc : CarriedFrom rm R fs (j + 1) k
        · exact ⟨fun _ => (h4 k).1 hc, fun h => absurd (Or.inr hc) h⟩
        · have hx := (h4 k).2 hc
          simp only [] at hx
          rw [testBit_insertBits] at hx
          by_cases hr : f.offset ≤ k ∧ k < f.offset + f.width
          · rw [if_pos hr, slice_testBit] at hx
            have e : f.offset + (k - f.offset) = k := by omega
            have hd : decide (k - f.offset < f.width) = true := by simp; omega
            rw [e, hd, Bool.and_true] at hx
            exact ⟨fun _ => hx, fun h => absurd (Or.inl ⟨hr.1, hr.2, hnsk⟩) h⟩
          · rw [if_neg hr] at hx
            refine ⟨?_, fun _ => hx⟩
            rintro (⟨a, b, _⟩ | h)
            · exact absurd ⟨a, b⟩ hr
            · exact absurd h hc
      have hlook : cur.fields[j]? = some f := by rw [hcf]; exact hf0
      rcases hdec with hd | ⟨n, hd, hn'⟩
      · rw [hd, h1]
        refine ⟨(j, .num _) :: l, x, rfl, ?_, h3, hbits⟩
        simp only [loadFields, hlook]
        rw [loadField_decoded cur f (rm.field j) _ _ (Or.inl rfl), hset]
        exact h2
      · rw [hd, h1]
        refine ⟨(j, .enumName n) :: l, x, rfl, ?_, h3, hbits⟩
        simp only [loadFields, hlook]
        rw [loadField_decoded cur f (rm.field j) _ _ (Or.inr ⟨n, rfl, hn'⟩), hset]
        exact h2

/-! ### configuration round trip of one register -/

/-- the bits of `r` that its configuration carries -/
def Carried (rm : RegMeta) (r : Reg) (k : Nat) : Prop := CarriedFrom rm r r.fields 0 k

theorem carried_iff (rm : RegMeta) (r : Reg) (k : Nat) :
    Carried rm r k ↔ ∃ j f, r.fields[j]? = some f ∧ f.offset ≤ k ∧ k < f.offset + f.width ∧
      ¬ ((rm.field j).hidden = true ∧ fieldGet r f = .ok f.reset) := by
  unfold Carried CarriedFrom
  constructor
  · rintro ⟨t, f, h1, h2, h3, h4⟩; exact ⟨t, f, h1, h2, h3, by simpa using h4⟩
  · rintro ⟨t, f, h1, h2, h3, h4⟩; exact ⟨t, f, h1, h2, h3, by simpa using h4⟩

/-- register with bit-fields -/
theorem regcfg_rt_fields (R r0 : Reg) (rm : RegMeta) (hp : R.subW = 0) (hn : R.reverse = false)
    (hne : R.fields ≠ []) (hin : ∀ f ∈ R.fields, f.offset + f.width ≤ R.width)
    (hcp : r0.subW = 0) (hcn : r0.reverse = false) (hcw : r0.width = R.width)
    (hcf : r0.fields = R.fields) (hcb : r0.value < 2 ^ r0.width) :
    ∃ c x, regConfig R rm = .ok c ∧ loadReg r0 rm c = .ok { r0 with value := x } ∧ x < 2 ^ R.width ∧
      ∀ k, (Carried rm R k → x.testBit k = R.value.testBit k) ∧
           (¬ Carried rm R k → x.testBit k = r0.value.testBit k) := by
  obtain ⟨l, x, h1, h2, h3, h4⟩ := loadFields_fieldsConfig R rm hp hn R.fields 0 (by intro t; simp) hin
    r0 hcp hcn hcw hcf hcb
  refine ⟨.fields l, x, ?_, ?_, h3, h4⟩
  · have : R.fields.isEmpty = false := by
      cases hf : R.fields with
      | nil => exact absurd hf hne
      | cons a as => rfl
    simp [regConfig, this, h1]
  · simp only [loadReg, h2]
    rw [getAlt_plain { r0 with value := x } rm.alts true hcp hcn]
    simp only []
    rw [setAlt_plain { r0 with value := x } rm.alts x false hcp hcn (by rw [← hcw] at h3; exact h3)]

/-- plain register without bit-fields -/
theorem regcfg_rt_plain (R r0 : Reg) (rm : RegMeta) (hp : R.subW = 0) (hn : R.reverse = false)
    (he : R.fields = []) (hb : R.value < 2 ^ R.width)
    (hcp : r0.subW = 0) (hcn : r0.reverse = false) (hcw : r0.width = R.width) :
    ∃ c, regConfig R rm = .ok c ∧ loadReg r0 rm c = .ok { r0 with value := R.value } := by
  refine ⟨.value R.value, ?_, ?_⟩
  · simp [regConfig, he, getAlt_plain R rm.alts false hp hn]
  · simp only [loadReg]
    exact setAlt_plain r0 rm.alts R.value false hcp hcn (by rw [hcw]; exact hb)

/-- the slices of the assembled value of `R`, distributed over a register `r0` of the same layout whose
    sub-registers beyond the alternative width are zero, are the sub-registers of `R` -/
theorem distributeW_assemble (R r0 : Reg) (aw : Nat) (hg : 0 < R.subW) (hw : R.width = R.subW * R.subs.length)
    (hb : ∀ s ∈ R.subs, s < 2 ^ R.subW)
    (hsw : r0.subW = R.subW) (hrs : r0.revSubs = R.revSubs) (hlen : r0.subs.length = R.subs.length)
    (hdiv : aw % R.subW = 0) (hlt : assemble R < 2 ^ aw)
    (hord : R.revSubs = false ∨ aw = R.width)
    (hup : ∀ i, aw / R.subW ≤ i → r0.subs.getD i 0 = 0) :
    distributeW r0 aw (assemble R) = R.subs := by
  apply List.ext_getElem?
  intro i
  rcases Nat.lt_or_ge i R.subs.length with hi | hi
  · rw [distributeW_getElem? r0 aw _ i (by omega), List.getElem?_eq_getElem hi]
    congr 1
    rw [hsw]
    have hgd : R.subs[i] = R.subs.getD i 0 := by
      rw [List.getD_eq_getElem?_getD, List.getElem?_eq_getElem hi]; rfl
    by_cases hin : i < aw / R.subW
    · rw [if_pos hin, hgd, ← slice_assemble R i hw hb hi]
      have hpos : subPosW r0 aw i = subPos R i := by
        rcases hord with h | h
        · simp [subPosW, subPos, hrs, hsw, h]
        · simp [subPosW, subPos, hrs, hsw, h]
      rw [hpos]
    · rw [if_neg hin, hup i (by omega), hgd]
      rcases hord with h | h
      · exact (sub_zero_of_assemble_lt R aw i hw hb h hg hdiv hlt (by omega)).symm
      · exfalso
        apply hin
        rw [h, hw, Nat.mul_div_cancel_left _ hg]; exact hi
  · rw [List.getElem?_eq_none (by rw [distributeW_length]; omega), List.getElem?_eq_none hi]

/-- grouped register (no bit-fields), with or without alternative widths -/
theorem regcfg_rt_group (R r0 : Reg) (alts : List Nat) (hg : 0 < R.subW) (hw : R.width = R.subW * R.subs.length)
    (hb : ∀ s ∈ R.subs, s < 2 ^ R.subW) (h8 : R.width % 8 = 0)
    (halts : ∀ a ∈ alts, a % 8 = 0 ∧ 8 ≤ a ∧ a ≤ R.width ∧ a % R.subW = 0)
    (hord : R.revSubs = false ∨ alts = [])
    (hcw : r0.width = R.width) (hsw : r0.subW = R.subW) (hrs : r0.revSubs = R.revSubs)
    (hrv : r0.reverse = R.reverse) (hlen : r0.subs.length = R.subs.length)
    (hup : ∀ i, altWidth alts R.width (assemble R) / R.subW ≤ i → r0.subs.getD i 0 = 0)
    (hst : R.reverse = true → ∀ a ∈ alts, a < altWidth alts R.width (assemble R) →
      assemble R % 2 ^ (altWidth alts R.width (assemble R) - a) ≠ 0) :
    ∃ x, R.getAlt alts false = .ok x ∧ r0.setAlt alts x false = .ok { r0 with subs := R.subs } := by
  have hva := assemble_lt R hw hb
  obtain ⟨f8, fdiv, fle, fv⟩ := altWidth_facts alts R (assemble R) hw h8 halts hva
  have halts' : ∀ a ∈ alts, a % 8 = 0 ∧ 8 ≤ a ∧ a ≤ R.width := fun a ha =>
    ⟨(halts a ha).1, (halts a ha).2.1, (halts a ha).2.2.1⟩
  have hg0 : 0 < r0.subW := by rw [hsw]; exact hg
  have hord' : R.revSubs = false ∨ altWidth alts R.width (assemble R) = R.width := by
    rcases hord with h | h
    · exact Or.inl h
    · right; rw [h, altWidth_nil]
  have hdist := distributeW_assemble R r0 _ hg hw hb hsw hrs hlen fdiv fv hord' hup
  rw [getAlt_group R alts false hg]
  cases hr : R.reverse with
  | false =>
    refine ⟨assemble R, by simp, ?_⟩
    rw [setAlt_group r0 alts (assemble R) (assemble R) false hg0 (by rw [hcw]; exact hva) (by simp [hrv, hr])]
    rw [hcw, hdist]
  | true =>
    obtain ⟨x, hx1, hx2, hx3⟩ := brev_invol' _ (assemble R) f8 fv
    have hxw : x < 2 ^ R.width := Nat.lt_of_lt_of_le hx2 (Nat.pow_le_pow_right (by decide) fle)
    have hstab := altWidth_brev_stable alts R.width (assemble R) x h8 halts' hva hx1 (hst hr)
    refine ⟨x, by simp [hx1], ?_⟩
    rw [setAlt_group r0 alts x (assemble R) false hg0 (by rw [hcw]; exact hxw)
      (by simp [hrv, hr, hcw, hstab, hx3])]
    rw [hcw, hstab, hdist]

theorem regcfg_rt_group' (R r0 : Reg) (rm : RegMeta) (hg : 0 < R.subW) (hw : R.width = R.subW * R.subs.length)
    (hb : ∀ s ∈ R.subs, s < 2 ^ R.subW) (h8 : R.width % 8 = 0) (he : R.fields = [])
    (halts : ∀ a ∈ rm.alts, a % 8 = 0 ∧ 8 ≤ a ∧ a ≤ R.width ∧ a % R.subW = 0)
    (hord : R.revSubs = false ∨ rm.alts = [])
    (hcw : r0.width = R.width) (hsw : r0.subW = R.subW) (hrs : r0.revSubs = R.revSubs)
    (hrv : r0.reverse = R.reverse) (hlen : r0.subs.length = R.subs.length)
    (hup : ∀ i, altWidth rm.alts R.width (assemble R) / R.subW ≤ i → r0.subs.getD i 0 = 0)
    (hst : R.reverse = true → ∀ a ∈ rm.alts, a < altWidth rm.alts R.width (assemble R) →
      assemble R % 2 ^ (altWidth rm.alts R.width (assemble R) - a) ≠ 0) :
    ∃ c, regConfig R rm = .ok c ∧ loadReg r0 rm c = .ok { r0 with subs := R.subs } := by
  obtain ⟨x, h1, h2⟩ := regcfg_rt_group R r0 rm.alts hg hw hb h8 halts hord hcw hsw hrs hrv hlen hup hst
  refine ⟨.value x, ?_, ?_⟩
  · simp [regConfig, he, h1]
  · simp only [loadReg]; exact h2

/-! ### lifting a per-register round trip to the register file -/

theorem updAt_append (pre post : RegFile) (r r' : Reg) (g : Reg → PyRes Reg) (h : g r = .ok r') :
    updAt (pre ++ r :: post) pre.length g = .ok (pre ++ r' :: post) := by
  simp [updAt, h]

theorem roundtrip_lift (m : Meta) (P : RegMeta → Reg → Reg → Prop) (Q : RegMeta → Reg → Reg → Reg → Prop)
    (hreg : ∀ rm r r0, P rm r r0 → ∃ c r', regConfig r rm = .ok c ∧ loadReg r0 rm c = .ok r' ∧ Q rm r r0 r')
    (rs rs0 pre : RegFile) (hlen : rs0.length = rs.length)
    (hok : ∀ t r r0, rs[t]? = some r → rs0[t]? = some r0 → P (m.reg (pre.length + t)) r r0) :
    ∃ cfg rs', getConfigFrom m rs pre.length = .ok cfg ∧ loadConfig m (pre ++ rs0) cfg = .ok (pre ++ rs') ∧
      rs'.length = rs.length ∧
      ∀ t r r0, rs[t]? = some r → rs0[t]? = some r0 →
        ∃ r', rs'[t]? = some r' ∧ Q (m.reg (pre.length + t)) r r0 r' := by
  induction rs generalizing rs0 pre with
  | nil =>
    cases rs0 with
    | nil => exact ⟨[], [], rfl, rfl, rfl, by intro t r r0 h; simp at h⟩
    | cons a as => simp at hlen
  | cons r rs ih =>
    cases rs0 with
    | nil => simp at hlen
    | cons r0 rs0 =>
      obtain ⟨c, r', hc, hl, hq⟩ := hreg _ r r0 (hok 0 r r0 (by simp) (by simp))
      have hlen' : rs0.length = rs.length := by simpa using hlen
      obtain ⟨cfg, rs', h1, h2, h3, h4⟩ := ih rs0 (pre ++ [r']) hlen' (by
        intro t a a0 ha ha0
        have := hok (t + 1) a a0 (by simpa using ha) (by simpa using ha0)
        have e : (pre ++ [r']).length + t = pre.length + (t + 1) := by simp; omega
        rw [e]; exact this)
      have e1 : (pre ++ [r']).length = pre.length + 1 := by simp
      rw [e1] at h1
      refine ⟨(.top pre.length, c) :: cfg, r' :: rs', ?_, ?_, by simp [h3], ?_⟩
      · have hc' : regConfig r (m.reg (pre.length + 0)) = .ok c := hc
        simp only [Nat.add_zero] at hc'
        simp [getConfigFrom, hc', h1]
      · have hl' : loadReg r0 (m.reg (pre.length + 0)) c = .ok r' := hl
        simp only [Nat.add_zero] at hl'
        simp only [loadConfig, loadEntry]
        rw [updAt_append pre rs0 r0 r' _ hl']
        simp only []
        have e2 : pre ++ r' :: rs0 = (pre ++ [r']) ++ rs0 := by simp
        have e3 : pre ++ r' :: rs' = (pre ++ [r']) ++ rs' := by simp
        rw [e2, e3]; exact h2
      · intro t a a0 ha ha0
        cases t with
        | zero =>
          simp at ha ha0; subst ha; subst ha0
          exact ⟨r', by simp, hq⟩
        | succ t =>
          obtain ⟨a', h5, h6⟩ := h4 t a a0 (by simpa using ha) (by simpa using ha0)
          have e : (pre ++ [r']).length + t = pre.length + (t + 1) := by simp; omega
          rw [e] at h6
          exact ⟨a', by simpa using h5, h6⟩

/-! ### a group reads through its sub-registers only -/

theorem group_views_congr (r1 r2 : Reg) (alts : List Nat) (raw : Bool) (hw : r1.width = r2.width)
    (hr : r1.reverse = r2.reverse) (hs : r1.subW = r2.subW) (hne : r2.subW ≠ 0) (hsub : r1.subs = r2.subs)
    (hrs : r1.revSubs = r2.revSubs) :
    r1.getAlt alts raw = r2.getAlt alts raw ∧ r1.get raw = r2.get raw := by
  cases r1; cases r2
  simp only [] at hw hr hs hne hsub hrs
  subst hw hr hs hsub hrs
  simp [Reg.getAlt, Reg.get, Reg.isGroup, hne, assemble, subPos]

/-! ### loading a configuration twice: one register -/

/-- plain register as loaded from a specification (mirror of `C11.RegWF`) -/
structure PlainOK (r : Reg) : Prop where
  plain : r.subW = 0
  norev : r.reverse = false
  bound : r.value < 2 ^ r.width
  fieldsIn : ∀ f ∈ r.fields, f.offset + f.width ≤ r.width
  disjoint : r.fields.Pairwise (fun f g => f.offset + f.width ≤ g.offset ∨ g.offset + g.width ≤ f.offset)

/-- grouped register (mirror of `C11.GroupWF`) -/
structure GroupOK (r : Reg) : Prop where
  sub : 0 < r.subW
  width : r.width = r.subW * r.subs.length
  bound : ∀ s ∈ r.subs, s < 2 ^ r.subW
  bytes : r.width % 8 = 0

/-- the bits a configuration value puts into the bit-field (after the config pre-processor) -/
def cfgSlice (f : Field) (fm : FieldMeta) : CfgVal → Option Nat
  | .enumName n => (enumConst f fm n).map (· >>> f.shift)
  | .num v => some (v >>> f.shift)
  | .rawNum v => some v

theorem fieldSet_plain_gen (r : Reg) (f : Field) (v : Nat) (raw noPre : Bool) (h : PlainOK r)
    (hin : f.offset + f.width ≤ r.width) :
    fieldSet r f v raw noPre =
      (if (if noPre then v else v >>> f.shift) ≥ 2 ^ f.width then .error .spsdk
       else .ok { r with value := insertBits r.value f.offset f.width (if noPre then v else v >>> f.shift) }) := by
  unfold fieldSet
  simp only []
  generalize (if noPre = true then v else v >>> f.shift) = v1
  by_cases hv : v1 ≥ 2 ^ f.width
  · simp [hv]
  · simp only [hv, if_false]
    rw [get_plain r raw h.plain h.norev]
    simp only []
    rw [set_plain r _ raw h.plain h.norev (insertBits_lt _ _ _ _ _ h.bound hin)]

theorem loadField_plain (r : Reg) (f : Field) (fm : FieldMeta) (c : CfgVal) (h : PlainOK r)
    (hin : f.offset + f.width ≤ r.width) :
    loadField r f fm c =
      (match cfgSlice f fm c with
       | none => .error .spsdk
       | some v1 => if v1 ≥ 2 ^ f.width then .error .spsdk
                    else .ok { r with value := insertBits r.value f.offset f.width v1 }) := by
  cases c with
  | enumName n =>
    simp only [loadField, cfgSlice]
    cases enumConst f fm n with
    | none => rfl
    | some v => simp [fieldSet_plain_gen r f v true false h hin]
  | num v => simp [loadField, cfgSlice, fieldSet_plain_gen r f v true false h hin]
  | rawNum v => simp [loadField, cfgSlice, fieldSet_plain_gen r f v true true h hin]

theorem plainOK_upd (r : Reg) (x : Nat) (h : PlainOK r) (hx : x < 2 ^ r.width) : PlainOK { r with value := x } :=
  ⟨h.plain, h.norev, hx, h.fieldsIn, h.disjoint⟩

theorem loadField_plain_inv (r r' : Reg) (f : Field) (fm : FieldMeta) (c : CfgVal) (h : PlainOK r)
    (hin : f.offset + f.width ≤ r.width) (hl : loadField r f fm c = .ok r') :
    ∃ v1, cfgSlice f fm c = some v1 ∧ v1 < 2 ^ f.width ∧
      r' = { r with value := insertBits r.value f.offset f.width v1 } := by
  rw [loadField_plain r f fm c h hin] at hl
  cases hs : cfgSlice f fm c with
  | none => rw [hs] at hl; cases hl
  | some v1 =>
    rw [hs] at hl
    simp only [] at hl
    by_cases hv : v1 ≥ 2 ^ f.width
    · rw [if_pos hv] at hl; cases hl
    · rw [if_neg hv] at hl
      cases hl
      exact ⟨v1, rfl, by omega, rfl⟩

theorem loadFields_plain_inv (r r1 : Reg) (rm : RegMeta) (l : List (Nat × CfgVal)) (h : PlainOK r)
    (hl : loadFields r rm l = .ok r1) : ∃ y, r1 = { r with value := y } ∧ y < 2 ^ r.width := by
  induction l generalizing r with
  | nil => simp [loadFields] at hl; subst hl; exact ⟨r.value, rfl, h.bound⟩
  | cons e rest ih =>
    obtain ⟨j, c⟩ := e
    simp only [loadFields] at hl
    cases hf : r.fields[j]? with
    | none => rw [hf] at hl; cases hl
    | some f =>
      rw [hf] at hl
      simp only [] at hl
      cases hlf : loadField r f (rm.field j) c with
      | error e => rw [hlf] at hl; cases hl
      | ok ra =>
        rw [hlf] at hl
        simp only [] at hl
        have hin := h.fieldsIn f (List.mem_of_getElem? hf)
        obtain ⟨v1, _, _, rfl⟩ := loadField_plain_inv r ra f _ c h hin hlf
        obtain ⟨y, hy, hyb⟩ := ih _ (plainOK_upd r _ h (insertBits_lt _ _ _ _ _ h.bound hin)) hl
        exact ⟨y, hy, hyb⟩

theorem pairwise_disjoint_ne (fs : List Field) (i j : Nat) (f g : Field)
    (hp : fs.Pairwise (fun f g => f.offset + f.width ≤ g.offset ∨ g.offset + g.width ≤ f.offset))
    (hi : fs[i]? = some f) (hj : fs[j]? = some g) (hne : i ≠ j) :
    f.offset + f.width ≤ g.offset ∨ g.offset + g.width ≤ f.offset := by
  have hil : i < fs.length := by
    rcases Nat.lt_or_ge i fs.length with h | h
    · exact h
    · rw [List.getElem?_eq_none h] at hi; cases hi
  have hjl : j < fs.length := by
    rcases Nat.lt_or_ge j fs.length with h | h
    · exact h
    · rw [List.getElem?_eq_none h] at hj; cases hj
  rw [List.getElem?_eq_getElem hil] at hi
  rw [List.getElem?_eq_getElem hjl] at hj
  cases hi; cases hj
  rw [List.pairwise_iff_getElem] at hp
  rcases Nat.lt_or_gt_of_ne hne with h | h
  · exact hp i j hil hjl h
  · exact (hp j i hjl hil h).symm

/-- entries that do not name bit-field `j` leave its bits alone -/
theorem loadFields_frame (r r1 : Reg) (rm : RegMeta) (l : List (Nat × CfgVal)) (j : Nat) (f : Field)
    (h : PlainOK r) (hf : r.fields[j]? = some f) (hnot : j ∉ l.map (·.1)) (hl : loadFields r rm l = .ok r1) :
    (r1.value >>> f.offset) &&& mask f.width = (r.value >>> f.offset) &&& mask f.width := by
  induction l generalizing r with
  | nil => simp [loadFields] at hl; subst hl; rfl
  | cons e rest ih =>
    obtain ⟨j', c⟩ := e
    simp only [loadFields] at hl
    cases hf' : r.fields[j']? with
    | none => rw [hf'] at hl; cases hl
    | some g =>
      rw [hf'] at hl
      simp only [] at hl
      cases hlf : loadField r g (rm.field j') c with
      | error e => rw [hlf] at hl; cases hl
      | ok ra =>
        rw [hlf] at hl
        simp only [] at hl
        have hin := h.fieldsIn g (List.mem_of_getElem? hf')
        obtain ⟨v1, _, _, rfl⟩ := loadField_plain_inv r ra g _ c h hin hlf
        have hne : j' ≠ j := by
          intro e; apply hnot; simp [e]
        have hnot' : j ∉ rest.map (·.1) := by
          intro hm; apply hnot; simp at hm ⊢; exact Or.inr hm
        have := ih _ (plainOK_upd r _ h (insertBits_lt _ _ _ _ _ h.bound hin)) hf hnot' hl
        rw [this]
        exact slice_insertBits_disjoint _ _ _ _ _ _ (pairwise_disjoint_ne r.fields j' j g f h.disjoint hf' hf hne)

theorem insertBits_same (y off w v1 : Nat) (h : (y >>> off) &&& mask w = v1) : insertBits y off w v1 = y := by
  apply Nat.eq_of_testBit_eq; intro k
  rw [testBit_insertBits]
  by_cases hr : off ≤ k ∧ k < off + w
  · rw [if_pos hr, ← h, slice_testBit]
    have e : off + (k - off) = k := by omega
    have hd : decide (k - off < w) = true := by simp; omega
    rw [e, hd, Bool.and_true]
  · rw [if_neg hr]

/-- bit-field dictionary with unique keys, loaded into the register it produced: nothing changes -/
theorem loadFields_idem (r r1 : Reg) (rm : RegMeta) (l : List (Nat × CfgVal)) (h : PlainOK r)
    (hnd : (l.map (·.1)).Nodup) (hl : loadFields r rm l = .ok r1) : loadFields r1 rm l = .ok r1 := by
  induction l generalizing r with
  | nil => rfl
  | cons e rest ih =>
    obtain ⟨j, c⟩ := e
    simp only [loadFields] at hl
    cases hf : r.fields[j]? with
    | none => rw [hf] at hl; cases hl
    | some f =>
      rw [hf] at hl
      simp only [] at hl
      cases hlf : loadField r f (rm.field j) c with
      | error e => rw [hlf] at hl; cases hl
      | ok ra =>
        rw [hlf] at hl
        simp only [] at hl
        have hin := h.fieldsIn f (List.mem_of_getElem? hf)
        obtain ⟨v1, hs, hv1, rfl⟩ := loadField_plain_inv r ra f _ c h hin hlf
        have hra := plainOK_upd r (insertBits r.value f.offset f.width v1) h (insertBits_lt _ _ _ _ _ h.bound hin)
        simp only [List.map_cons, List.nodup_cons] at hnd
        obtain ⟨y, hy, hyb⟩ := loadFields_plain_inv _ r1 rm rest hra hl
        have hfr := loadFields_frame _ r1 rm rest j f hra hf hnd.1 hl
        simp only [] at hfr
        rw [slice_insertBits_same _ _ _ _ hv1] at hfr
        have h1 : PlainOK r1 := by rw [hy]; exact plainOK_upd _ y hra hyb
        have hf1 : r1.fields[j]? = some f := by rw [hy]; exact hf
        have hin1 : f.offset + f.width ≤ r1.width := by rw [hy]; exact hin
        have hstep : loadField r1 f (rm.field j) c = .ok r1 := by
          rw [loadField_plain r1 f _ c h1 hin1, hs]
          simp only []
          rw [if_neg (by omega), insertBits_same _ _ _ _ hfr]
        simp only [loadFields, hf1, hstep]
        exact ih _ hra hnd.2 hl

/-! ### loading twice: groups, sub-registers -/

theorem setAlt_group_inv (r r' : Reg) (alts : List Nat) (v : Nat) (raw : Bool) (hg : 0 < r.subW)
    (h : r.setAlt alts v raw = .ok r') :
    v < 2 ^ r.width ∧ ∃ x, (if !raw && r.reverse then brev (altWidth alts r.width v) v else some v) = some x ∧
      r' = { r with subs := distributeW r (altWidth alts r.width v) x } := by
  by_cases hv : v < 2 ^ r.width
  · refine ⟨hv, ?_⟩
    cases hx : (if !raw && r.reverse then brev (altWidth alts r.width v) v else some v) with
    | none =>
      have : ¬ (v ≥ 2 ^ r.width) := by omega
      simp only [Reg.setAlt, this, if_false, hx] at h
      cases h
    | some x =>
      rw [setAlt_group r alts v x raw hg hv hx] at h
      cases h
      exact ⟨x, rfl, rfl⟩
  · rw [setAlt_reject r alts v raw (by omega)] at h; cases h

theorem distributeW_idem (r : Reg) (aw x : Nat) :
    distributeW { r with subs := distributeW r aw x } aw x = distributeW r aw x := by
  apply List.ext_getElem?
  intro i
  rcases Nat.lt_or_ge i r.subs.length with hi | hi
  · rw [distributeW_getElem? _ aw x i (by simp only [distributeW_length]; exact hi), distributeW_getElem? r aw x i hi]
    congr 1
    by_cases hin : i < aw / r.subW
    · simp only [hin, if_true]; rfl
    · simp only [hin, if_false]
      rw [List.getD_eq_getElem?_getD, distributeW_getElem? r aw x i hi]
      simp [hin]
  · rw [List.getElem?_eq_none (by simp only [distributeW_length]; omega),
      List.getElem?_eq_none (by simp only [distributeW_length]; omega)]

theorem groupOK_upd (r : Reg) (aw x : Nat) (h : GroupOK r) : GroupOK { r with subs := distributeW r aw x } :=
  ⟨h.sub, by simp only [distributeW_length]; exact h.width, distributeW_bound r aw x h.bound, h.bytes⟩

theorem setAlt_idem_group (r r' : Reg) (alts : List Nat) (v : Nat) (raw : Bool) (h : GroupOK r)
    (hs : r.setAlt alts v raw = .ok r') :
    r'.setAlt alts v raw = .ok r' ∧ GroupOK r' ∧ r'.reverse = r.reverse ∧ r'.fields = r.fields ∧
      r'.revSubs = r.revSubs ∧ r'.width = r.width ∧ r'.subW = r.subW := by
  obtain ⟨hv, x, hx, rfl⟩ := setAlt_group_inv r r' alts v raw h.sub hs
  refine ⟨?_, groupOK_upd r _ x h, rfl, rfl, rfl, rfl, rfl⟩
  rw [setAlt_group { r with subs := distributeW r (altWidth alts r.width v) x } alts v x raw h.sub hv hx]
  simp only [distributeW_idem]

/-- the "run the processing" step does nothing on a group that is not byte-reversed -/
theorem process_group_id (r : Reg) (alts : List Nat) (h : GroupOK r) (hn : r.reverse = false)
    (halts : ∀ a ∈ alts, a % 8 = 0 ∧ 8 ≤ a ∧ a ≤ r.width ∧ a % r.subW = 0)
    (hord : r.revSubs = false ∨ alts = []) :
    r.getAlt alts true = .ok (assemble r) ∧ r.setAlt alts (assemble r) false = .ok r := by
  have hva := assemble_lt r h.width h.bound
  obtain ⟨_, fdiv, _, fv⟩ := altWidth_facts alts r (assemble r) h.width h.bytes halts hva
  refine ⟨by rw [getAlt_group r alts true h.sub]; rfl, ?_⟩
  rw [setAlt_group r alts (assemble r) (assemble r) false h.sub hva (by simp [hn])]
  have hord' : r.revSubs = false ∨ altWidth alts r.width (assemble r) = r.width := by
    rcases hord with h' | h'
    · exact Or.inl h'
    · right; rw [h', altWidth_nil]
  have hup : ∀ i, altWidth alts r.width (assemble r) / r.subW ≤ i → r.subs.getD i 0 = 0 := by
    intro i hi
    rcases hord' with h' | h'
    · exact sub_zero_of_assemble_lt r _ i h.width h.bound h' h.sub fdiv fv hi
    · rw [h', h.width, Nat.mul_div_cancel_left _ h.sub] at hi
      rw [List.getD_eq_getElem?_getD, List.getElem?_eq_none hi]; rfl
  rw [distributeW_assemble r r _ h.sub h.width h.bound rfl rfl rfl fdiv fv hord' hup]

/-- register invariant of the configuration path (mirror of `C11.RegWF'`) -/
inductive RegInv (rm : RegMeta) (r : Reg) : Prop
  | plain : PlainOK r → RegInv rm r
  | group : GroupOK r → r.fields = [] →
      (∀ a ∈ rm.alts, a % 8 = 0 ∧ 8 ≤ a ∧ a ≤ r.width ∧ a % r.subW = 0) →
      (r.revSubs = false ∨ rm.alts = []) → RegInv rm r

theorem loadReg_idem (rm : RegMeta) (r r' : Reg) (c : RegCfg) (h : RegInv rm r)
    (hnd : ∀ l, c = .fields l → (l.map (·.1)).Nodup) (hrev : ∀ l, c = .fields l → r.reverse = false)
    (hl : loadReg r rm c = .ok r') :
    loadReg r' rm c = .ok r' ∧ RegInv rm r' ∧ r'.reverse = r.reverse := by
  cases h with
  | plain hp =>
    cases c with
    | value v =>
      simp only [loadReg] at hl ⊢
      by_cases hv : v < 2 ^ r.width
      · rw [setAlt_plain r rm.alts v false hp.plain hp.norev hv] at hl
        cases hl
        exact ⟨setAlt_plain _ rm.alts v false hp.plain hp.norev hv, .plain (plainOK_upd r v hp hv), rfl⟩
      · rw [setAlt_reject r rm.alts v false (by omega)] at hl; cases hl
    | fields l =>
      simp only [loadReg] at hl ⊢
      cases hlf : loadFields r rm l with
      | error e => rw [hlf] at hl; cases hl
      | ok r1 =>
        rw [hlf] at hl
        simp only [] at hl
        obtain ⟨y, hy, hyb⟩ := loadFields_plain_inv r r1 rm l hp hlf
        have h1 : PlainOK r1 := by rw [hy]; exact plainOK_upd r y hp hyb
        rw [getAlt_plain r1 rm.alts true h1.plain h1.norev] at hl
        simp only [] at hl
        rw [setAlt_plain r1 rm.alts r1.value false h1.plain h1.norev h1.bound] at hl
        have e1 : ({ r1 with value := r1.value } : Reg) = r1 := by cases r1; rfl
        rw [e1] at hl
        cases hl
        have hid := loadFields_idem r r1 rm l hp (hnd l rfl) hlf
        refine ⟨?_, .plain h1, by rw [hy]⟩
        rw [hid]
        simp only []
        rw [getAlt_plain r1 rm.alts true h1.plain h1.norev]
        simp only []
        rw [setAlt_plain r1 rm.alts r1.value false h1.plain h1.norev h1.bound, e1]
  | group hg he halts hord =>
    cases c with
    | value v =>
      simp only [loadReg] at hl ⊢
      obtain ⟨h1, h2, h3, h4, h5, h6, h7⟩ := setAlt_idem_group r r' rm.alts v false hg hl
      exact ⟨h1, .group h2 (by rw [h4]; exact he) (by rw [h6, h7]; exact halts) (by rw [h5]; exact hord), h3⟩
    | fields l =>
      cases l with
      | nil =>
        obtain ⟨p1, p2⟩ := process_group_id r rm.alts hg (hrev [] rfl) halts hord
        have : loadReg r rm (.fields []) = .ok r := by
          simp only [loadReg, loadFields, p1, p2]
        rw [this] at hl
        cases hl
        exact ⟨this, .group hg he halts hord, rfl⟩
      | cons e rest =>
        obtain ⟨j, c⟩ := e
        simp [loadReg, loadFields, he] at hl

theorem set_self {α : Type} (l : List α) (i : Nat) (a : α) (h : l[i]? = some a) : l.set i a = l := by
  apply List.ext_getElem?
  intro k
  rw [List.getElem?_set]
  split
  · rename_i hik
    subst hik
    split
    · exact h.symm
    · rename_i hlt
      rw [List.getElem?_eq_none (by omega)] at h; cases h
  · rfl

theorem loadSub_idem (rm : RegMeta) (r r' : Reg) (k : Nat) (c : RegCfg) (h : RegInv rm r)
    (hl : loadSub r k c = .ok r') :
    loadSub r' k c = .ok r' ∧ RegInv rm r' ∧ r'.reverse = r.reverse := by
  cases h with
  | plain hp =>
    have hg : r.isGroup = false := isGroup_false r hp.plain
    cases c with
    | value v => simp [loadSub, hg] at hl
    | fields l =>
      cases l with
      | nil => simp [loadSub, hg] at hl
      | cons e rest => simp [loadSub] at hl
  | group hg he halts hord =>
    have hgt : r.isGroup = true := isGroup_true r hg.sub
    cases c with
    | value v =>
      simp only [loadSub, hgt, true_and] at hl ⊢
      by_cases hk : k < r.subs.length
      · rw [if_pos hk] at hl
        by_cases hv : v ≥ 2 ^ r.subW
        · rw [if_pos hv] at hl; cases hl
        · rw [if_neg hv] at hl
          cases hl
          have hgt' : ({ r with subs := r.subs.set k v } : Reg).isGroup = true := isGroup_true _ hg.sub
          refine ⟨?_, .group ⟨hg.sub, by simp only [List.length_set]; exact hg.width, ?_, hg.bytes⟩ he halts hord, rfl⟩
          · simp only [hgt', List.length_set, hk, if_true, hv, if_false, true_and, List.set_set]
          · intro s hs
            rcases List.mem_or_eq_of_mem_set hs with h1 | h1
            · exact hg.bound s h1
            · subst h1; exact Nat.lt_of_not_ge hv
      · rw [if_neg hk] at hl; cases hl
    | fields l =>
      cases l with
      | nil =>
        simp only [loadSub, hgt, true_and] at hl ⊢
        by_cases hk : k < r.subs.length
        · rw [if_pos hk] at hl; cases hl
          exact ⟨by simp [hgt, hk], .group hg he halts hord, rfl⟩
        · rw [if_neg hk] at hl; cases hl
      | cons e rest => simp [loadSub] at hl

/-! ### loading twice: the register file -/

/-- dictionary keys are unique, and a bit-field dictionary is not given for a byte-reversed register (its raw value is
    byte-swapped by the processing step of every load) -/
def EntryOK (rf : RegFile) (e : RegRef × RegCfg) : Prop :=
  (∀ l, e.2 = .fields l → (l.map (·.1)).Nodup) ∧
  (∀ i l r, e.1 = .top i → e.2 = .fields l → rf[i]? = some r → r.reverse = false)

theorem loadEntry_inv (m : Meta) (rf rfa : RegFile) (e : RegRef × RegCfg) (h : loadEntry m rf e = .ok rfa) :
    ∃ r ra, rf[e.1.idx]? = some r ∧ rfa = rf.set e.1.idx ra ∧
      ((∃ i, e.1 = .top i ∧ loadReg r (m.reg i) e.2 = .ok ra) ∨ (∃ i k, e.1 = .sub i k ∧ loadSub r k e.2 = .ok ra)) := by
  obtain ⟨ref, c⟩ := e
  cases ref with
  | top i =>
    simp only [loadEntry] at h
    obtain ⟨r, ra, h1, h2, h3⟩ := updAt_inv rf rfa i _ h
    exact ⟨r, ra, h1, h3, Or.inl ⟨i, rfl, h2⟩⟩
  | sub i k =>
    simp only [loadEntry] at h
    obtain ⟨r, ra, h1, h2, h3⟩ := updAt_inv rf rfa i _ h
    exact ⟨r, ra, h1, h3, Or.inr ⟨i, k, rfl, h2⟩⟩

theorem loadConfig_frame (m : Meta) (rf rf1 : RegFile) (cfg : Cfg) (i : Nat) (hni : i ∉ cfg.map (·.1.idx))
    (hl : loadConfig m rf cfg = .ok rf1) : rf1[i]? = rf[i]? := by
  induction cfg generalizing rf with
  | nil => simp [loadConfig] at hl; subst hl; rfl
  | cons e es ih =>
    simp only [loadConfig] at hl
    cases hle : loadEntry m rf e with
    | error err => rw [hle] at hl; cases hl
    | ok rfa =>
      rw [hle] at hl
      simp only [] at hl
      obtain ⟨r, ra, h1, h2, _⟩ := loadEntry_inv m rf rfa e hle
      have hne : e.1.idx ≠ i := by intro h; apply hni; simp [h]
      have hni' : i ∉ es.map (·.1.idx) := by
        intro hm; apply hni; simp at hm ⊢; exact Or.inr hm
      rw [ih rfa hni' hl, h2, List.getElem?_set_ne hne]

theorem loadConfig_idem (m : Meta) (rf rf1 : RegFile) (cfg : Cfg)
    (hinv : ∀ i r, rf[i]? = some r → RegInv (m.reg i) r)
    (hk : (cfg.map (·.1.idx)).Nodup) (he : ∀ e ∈ cfg, EntryOK rf e)
    (hl : loadConfig m rf cfg = .ok rf1) : loadConfig m rf1 cfg = .ok rf1 := by
  induction cfg generalizing rf with
  | nil => rfl
  | cons e es ih =>
    simp only [loadConfig] at hl
    cases hle : loadEntry m rf e with
    | error err => rw [hle] at hl; cases hl
    | ok rfa =>
      rw [hle] at hl
      simp only [] at hl
      obtain ⟨r, ra, h1, h2, h3⟩ := loadEntry_inv m rf rfa e hle
      simp only [List.map_cons, List.nodup_cons] at hk
      have heo := he e (by simp)
      -- the register written by `e` is a fixed point of `e`
      have hfix : RegInv (m.reg e.1.idx) ra ∧ ra.reverse = r.reverse ∧
          (∀ s : RegFile, s[e.1.idx]? = some ra → loadEntry m s e = .ok (s.set e.1.idx ra)) := by
        obtain ⟨ref, c⟩ := e
        rcases h3 with ⟨i, hi, hlr⟩ | ⟨i, k, hi, hlr⟩
        · simp only [] at hi hlr h1 heo ⊢
          subst hi
          obtain ⟨a1, a2, a3⟩ := loadReg_idem (m.reg i) r ra c (hinv i r h1) heo.1
            (fun l hc => heo.2 i l r rfl hc h1) hlr
          refine ⟨a2, a3, ?_⟩
          intro s hs
          have hs' : s[i]? = some ra := hs
          simp [loadEntry, updAt, hs', a1, RegRef.idx]
        · simp only [] at hi hlr h1 ⊢
          subst hi
          obtain ⟨a1, a2, a3⟩ := loadSub_idem (m.reg i) r ra k c (hinv i r h1) hlr
          refine ⟨a2, a3, ?_⟩
          intro s hs
          have hs' : s[i]? = some ra := hs
          simp [loadEntry, updAt, hs', a1, RegRef.idx]
      obtain ⟨hinva, hreva, hent⟩ := hfix
      have hinv' : ∀ i r, rfa[i]? = some r → RegInv (m.reg i) r := by
        intro i x hx
        rw [h2, List.getElem?_set] at hx
        split at hx
        · rename_i hii
          subst hii
          split at hx
          · cases hx; exact hinva
          · cases hx
        · exact hinv i x hx
      have he' : ∀ e' ∈ es, EntryOK rfa e' := by
        intro e' he'
        obtain ⟨b1, b2⟩ := he e' (by simp [he'])
        refine ⟨b1, ?_⟩
        intro i l x hi hc hx
        rw [h2, List.getElem?_set] at hx
        split at hx
        · rename_i hii
          subst hii
          split at hx
          · cases hx; rw [hreva]; exact b2 _ l r hi hc h1
          · cases hx
        · exact b2 i l x hi hc hx
      have hrest := ih rfa hinv' hk.2 he' hl
      have hfr : rf1[e.1.idx]? = some ra := by
        rw [loadConfig_frame m rfa rf1 es e.1.idx hk.1 hl, h2]
        have : e.1.idx < rf.length := by
          rcases Nat.lt_or_ge e.1.idx rf.length with h | h
          · exact h
          · rw [List.getElem?_eq_none h] at h1; cases h1
        simp [List.getElem?_set, this]
      simp only [loadConfig]
      rw [hent rf1 hfr, set_self rf1 _ ra hfr]
      exact hrest

end SpsdkVerif.Regs
