/- Phase 3: the unused container slots of an exported AHAB image are ZERO FILLED (so the "no phantom container head"
   hypotheses of `rom_accepts_file` / `image_roundtrip` are derived, not assumed). -/
import SpsdkVerif.Proofs.AhabRom3
import SpsdkVerif.Proofs.AhabParse

namespace SpsdkVerif.Ahab
open SpsdkVerif SpsdkVerif.Misc
open SpsdkVerif.Generated
open SpsdkVerif.Spec.AhabRom (slice rd looksLikeContainer)
open SpsdkVerif.BinImg SpsdkVerif.C16

theorem minList_of_le : ∀ (l : List Nat) (d : Nat), (∀ x ∈ l, d ≤ x) → minList l d = d
  | [], _, _ => rfl
  | x :: xs, d, h => by
    simp only [minList]
    have : min d x = d := Nat.min_eq_left (h x (by simp))
    rw [this]
    exact minList_of_le xs d (fun y hy => h y (by simp [hy]))

theorem al8_startAddr (ch : Chip) (v : Ver) : al8 (ch.startAddr v) = ch.startAddr v := by
  unfold Chip.startAddr
  split <;> cases v <;> decide

/-- no image in front of the recommended start address: the "AHAB Containers" block ends exactly there -/
theorem startReal_eq (ch : Chip) (v : Ver) (us : List UContainer) (h : ∀ p ∈ allPlaced us, ch.startAddr v ≤ p.offset) :
    startReal ch v us = ch.startAddr v := by
  unfold startReal
  rw [minList_of_le, al8_startAddr]
  intro x hx
  obtain ⟨u, hu, hx⟩ := List.mem_flatMap.1 hx
  obtain ⟨p, hp, rfl⟩ := List.mem_map.1 hx
  exact h p (List.mem_flatMap.2 ⟨u, hu, hp⟩)

theorem addImage_bin_pat (p c : Img) : (p.addImage c).binary = p.binary ∧ (p.addImage c).pattern = p.pattern := by
  cases p; exact ⟨rfl, rfl⟩

theorem addAll_bin_pat (p : Img) : ∀ (l : List Img), (addAll p l).binary = p.binary ∧ (addAll p l).pattern = p.pattern := by
  intro l
  induction l generalizing p with
  | nil => exact ⟨rfl, rfl⟩
  | cons c l ih =>
    have := ih (p.addImage c)
    have f := addImage_bin_pat p c
    simp only [addAll, List.foldl_cons] at this ⊢
    exact ⟨this.1.trans f.1, this.2.trans f.2⟩

theorem len_of_size (i : Img) (h : i.size ≠ 0) : i.len = i.size := by
  cases i with
  | mk s o a b p ch =>
    simp only [Img.size] at h
    rw [Img.len]; simp [h, Img.size]

theorem contNode_alignWF (ch : Chip) (v : Ver) (us : List UContainer) (cbytes : List Bytes) : AlignWF (contNode ch v us cbytes) := by
  unfold contNode
  refine addAll_alignWF _ _ (leaf_alignWF _ _ _ _) ?_
  intro x hx
  obtain ⟨ub, _, rfl⟩ := List.mem_map.1 hx
  exact leaf_alignWF _ _ _ _

theorem imageInfo_alignWF (ch : Chip) (v : Ver) (us : List UContainer) (cbytes : List Bytes) (hA : 0 < ch.imageAlignment) :
    AlignWF (imageInfo ch v us cbytes) := by
  unfold imageInfo
  refine addAll_alignWF _ _ (AlignWF.mk _ hA ?_ ?_) ?_
  · simp only [Img.size, Img.alignment]
    exact (alignNat_spec _ _ hA).1
  · intro c hc
    simp only [Img.children, List.mem_singleton] at hc
    subst hc; exact contNode_alignWF ch v us cbytes
  · intro x hx
    obtain ⟨p, _, rfl⟩ := List.mem_map.1 hx
    exact leaf_alignWF _ _ _ _

/-- THE ZERO FILL: in an exported AHAB image every byte behind the slots of the configured containers and in front of the first
    image address is 0 - provided every container fits its slot and no image was explicitly placed in front of the start
    address (both are consequences of the hypotheses `rom_accepts_file` has anyway). -/
theorem export_zero_fill (c : Crypto.CryptoOps) (img : Image) (bin : Bytes)
    (hexp : img.export c = .ok bin) (hA : 0 < img.chip.imageAlignment)
    (us : List UContainer) (hus : img.update c = .ok us)
    (hfit : ∀ u ∈ us, BlobLenOK u.cont.sb ∧ ∀ cb, u.export img.ver = .ok cb → cb.length ≤ img.ver.containerSize)
    (hge : ∀ p ∈ allPlaced us, img.chip.startAddr img.ver ≤ p.offset)
    (k : Nat) (hk1 : us.length * img.ver.containerSize ≤ k) (hk2 : k < img.chip.startAddr img.ver) :
    bin[k]? = some 0 := by
  obtain ⟨us', cbytes, hus', _, hall, hval, hbin⟩ := Image.export_unfold c img bin hexp
  rw [hus] at hus'; cases hus'
  have hea := exportAll_spec img.ver us cbytes hall
  have hroot := imageInfo_alignWF img.chip img.ver us cbytes hA
  have hcn := contNode_alignWF img.chip img.ver us cbytes
  have hcnmem : contNode img.chip img.ver us cbytes ∈ (imageInfo img.chip img.ver us cbytes).children := by
    unfold imageInfo
    rw [addAll_children]
    exact Or.inl (List.mem_singleton.2 rfl)
  have hcnoff : (contNode img.chip img.ver us cbytes).offset = 0 := by
    unfold contNode; rw [(addAll_fields _ _).2.1]; rfl
  have hcnsize : (contNode img.chip img.ver us cbytes).size = img.chip.startAddr img.ver := by
    unfold contNode; rw [(addAll_fields _ _).1]
    simp only [Img.size]
    exact startReal_eq _ _ _ hge
  have hcnbin : (contNode img.chip img.ver us cbytes).binary = none := by
    unfold contNode; rw [(addAll_bin_pat _ _).1]; rfl
  have hcnpat : (contNode img.chip img.ver us cbytes).pattern = some .zeros := by
    unfold contNode; rw [(addAll_bin_pat _ _).2]; rfl
  have hcnlen : (contNode img.chip img.ver us cbytes).len = img.chip.startAddr img.ver := by
    rw [len_of_size _ (by rw [hcnsize]; omega), hcnsize]
  have hvc := (validate_child _ _ hval hcnmem).1
  obtain ⟨bc, hbc, hbcl⟩ := export_length _ hvc hcn
  have hat := export_child_at _ _ bin bc hval hroot hcnmem hbin hbc
  rw [hcnoff, List.drop_zero] at hat
  have hkl : k < bc.length := by rw [hbcl, hcnlen]; exact hk2
  have h1 : bin[k]? = bc[k]? := by
    rw [← hat, List.getElem?_take_of_lt hkl]
  rw [h1]
  have hfill := export_fill _ bc k hvc hcn hbc (by rw [hcnlen]; exact hk2) (by rw [hcnbin]; simp [binLen]) ?_
  · rw [hfill, hcnpat, hcnlen]
    simp only [patBlock, Pattern.block]
    rw [List.getElem?_replicate]
    simp [hk2]
  · intro ci hci
    unfold contNode at hci
    rw [addAll_children] at hci
    rcases hci with hci | hci
    · simp [Img.children] at hci
    · obtain ⟨⟨u, b⟩, hub, rfl⟩ := List.mem_map.1 hci
      right
      have hu : u ∈ us := (List.of_mem_zip hub).1
      have hcbe : u.export img.ver = .ok b := hea.2 _ hub
      obtain ⟨hblob, hfitu⟩ := hfit u hu
      have hle := hfitu b hcbe
      obtain ⟨j, hj⟩ := List.getElem?_of_mem hu
      have hb := (updateContainers_bases c img.chip img.ver img.containers 0 _ us hus).2 j u hj
      simp only [Nat.zero_add] at hb
      have hjl : j < us.length := by
        rcases Nat.lt_or_ge j us.length with h | h
        · exact h
        · rw [List.getElem?_eq_none h] at hj; cases hj
      have hcbe' := hcbe
      unfold UContainer.export at hcbe'
      obtain ⟨hd, ab, s, hdr, e1, e2, _, _, e5, e6, e7, _⟩ := exportContainer_spec img.ver u.cont _ b hblob hcbe'
      simp only [List.length_map] at e1 e5 e6 e7
      have hsbo := sbo_exact img.ver u.placed.length
      have hhl2 : headerLength img.ver u.placed.length (sbLayout img.ver u.cont.sb).length = b.length := by
        unfold headerLength
        rw [(hdrLayout_widths img.ver).2, (iaeLayout_facts img.ver).2.2, e7, hsbo]; omega
      have hlen : (contImg img.ver u b).len = b.length := by
        rw [len_of_size _ (by simp only [contImg, Img.size]; rw [hhl2, e7, hsbo]; omega)]
        simp only [contImg, Img.size]; exact hhl2
      rw [hlen]
      simp only [contImg, Img.offset]
      rw [hb.2.1]
      have : (j + 1) * img.ver.containerSize ≤ us.length * img.ver.containerSize := Nat.mul_le_mul_right _ hjl
      rw [Nat.add_mul, Nat.one_mul] at this
      omega

theorem slice_one_of_get (l : Bytes) (k : Nat) (x : UInt8) (h : l[k]? = some x) : slice l k 1 = [x] := by
  obtain ⟨hlt, hx⟩ := List.getElem?_eq_some_iff.1 h
  unfold slice
  rw [List.drop_eq_getElem_cons hlt, hx]
  simp

/-- a slot whose first 16 bytes lie in the zero-filled area is not taken for a container by the independent checker -/
theorem zero_not_container (p : Spec.AhabRom.Params) (bin : Bytes) (base : Nat) (h : bin[base + 3]? = some 0) :
    looksLikeContainer p bin base = false := by
  unfold looksLikeContainer rd
  rw [slice_one_of_get bin (base + 3) 0 h]
  have : (leDec [0] == Spec.AhabRom.containerTag) = false := by decide
  rw [this]
  simp

theorem unpackInts_cons (w : Nat) (ws : List Nat) (b : Bytes) (x : Nat) (xs : List Nat)
    (h : unpackInts (w :: ws) b = some (x :: xs)) : x = leDec (b.take w) ∧ unpackInts ws (b.drop w) = some xs := by
  rw [unpackInts] at h
  split at h
  · cases h
  · split at h
    · rename_i vs hvs
      cases h
      exact ⟨rfl, hvs⟩
    · cases h

/-- the parser's head check looks at byte 3 (the tag) -/
theorem decodeHeader_tag (v : Ver) (b : Bytes) (hd : Header) (h : decodeHeader v b = some hd) :
    leDec (slice b 3 1) = AhabConsts.containerTag := by
  unfold decodeHeader at h
  rw [(hdrLayout_widths v).1] at h
  split at h
  · cases h
  · split at h
    · rename_i ver len tag fl sw fu n sbo r hu
      split at h
      · cases h
      · rename_i hc
        simp only [not_or, Decidable.not_not] at hc
        obtain ⟨_, h1⟩ := unpackInts_cons _ _ _ _ _ hu
        obtain ⟨_, h2⟩ := unpackInts_cons _ _ _ _ _ h1
        obtain ⟨h3, _⟩ := unpackInts_cons _ _ _ _ _ h2
        rw [← hc.1, h3]
        simp [slice]
    · cases h

theorem zero_not_header (v : Ver) (bin : Bytes) (base : Nat) (h : bin[base + 3]? = some 0) :
    decodeHeader v (bin.drop base) = none := by
  cases hh : decodeHeader v (bin.drop base) with
  | none => rfl
  | some hd =>
    have := decodeHeader_tag v _ hd hh
    have hs : slice (bin.drop base) 3 1 = slice bin (base + 3) 1 := by simp [slice]
    rw [hs, slice_one_of_get bin (base + 3) 0 h] at this
    exact absurd this (by decide)

end SpsdkVerif.Ahab
