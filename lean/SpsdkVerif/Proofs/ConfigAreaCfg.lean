/-
Helper lemmas for the configuration level of C12 (`area_config_roundtrip`): the generated layout as a C11 register file, the
shape of `get_config` output, name resolution.
-/
import SpsdkVerif.Model.ConfigArea
import SpsdkVerif.Proofs.ConfigArea

namespace SpsdkVerif.CfgArea
open SpsdkVerif SpsdkVerif.Regs

theorem optAll_roundtrip {α β : Type} (f : α → Option β) (g : β → Option α) :
    ∀ (l : List α), (∀ a ∈ l, ∃ b, f a = some b ∧ g b = some a) → ∃ bs, optAll f l = some bs ∧ optAll g bs = some l := by
  intro l
  induction l with
  | nil => intro _; exact ⟨[], rfl, rfl⟩
  | cons a as ih =>
    intro h
    obtain ⟨b, hb1, hb2⟩ := h a (by simp)
    obtain ⟨bs, h1, h2⟩ := ih (fun x hx => h x (by simp [hx]))
    exact ⟨b :: bs, by simp [optAll, hb1, h1], by simp [optAll, hb2, h2]⟩

/-- the bit-field entries `get_config` writes carry indices of existing bit-fields -/
theorem fieldsConfig_indices (r : Reg) (rm : RegMeta) : ∀ (fs : List Field) (j : Nat) (l : List (Nat × Regs.CfgVal)),
    fieldsConfig r rm fs j = .ok l → ∀ jc ∈ l, j ≤ jc.1 ∧ jc.1 < j + fs.length := by
  intro fs
  induction fs with
  | nil => intro j l h; simp only [fieldsConfig, Except.ok.injEq] at h; subst h; simp
  | cons f fs ih =>
    intro j l h jc hjc
    simp only [fieldsConfig] at h
    split at h
    · cases h
    · split at h
      · have := ih (j + 1) l h jc hjc
        simp only [List.length_cons]; omega
      · split at h
        · cases h
        · cases h
        · next c rest _ hrest =>
          simp only [Except.ok.injEq] at h; subst h
          rcases List.mem_cons.1 hjc with rfl | hm
          · simp
          · have := ih (j + 1) rest hrest jc hm
            simp only [List.length_cons]; omega

theorem getConfigFrom_entries (m : Meta) : ∀ (rf : RegFile) (k : Nat) (cfg : Cfg), getConfigFrom m rf k = .ok cfg →
    ∀ e ∈ cfg, ∃ i c r, e = (.top i, c) ∧ k ≤ i ∧ rf[i - k]? = some r ∧ regConfig r (m.reg i) = .ok c := by
  intro rf
  induction rf with
  | nil => intro k cfg h; simp only [getConfigFrom, Except.ok.injEq] at h; subst h; simp
  | cons r rs ih =>
    intro k cfg h e he
    simp only [getConfigFrom] at h
    split at h
    · cases h
    · cases h
    · next c rest hc hrest =>
      simp only [Except.ok.injEq] at h; subst h
      rcases List.mem_cons.1 he with rfl | hm
      · exact ⟨k, c, r, rfl, Nat.le_refl _, by simp, hc⟩
      · obtain ⟨i, c', r', h1, h2, h3, h4⟩ := ih (k + 1) rest hrest e hm
        refine ⟨i, c', r', h1, by omega, ?_, h4⟩
        have : i - k = (i - (k + 1)) + 1 := by omega
        rw [this]; simpa using h3

theorem findReg_name (d : LayoutD) (h : findRegB d = true) (i : Nat) (rd : RegD) (hi : d.regs[i]? = some rd) :
    findReg d rd.name = some i := by
  obtain ⟨hlt, he⟩ := List.getElem?_eq_some_iff.1 hi
  rw [findReg, List.findIdx?_eq_some_iff_getElem]
  refine ⟨hlt, by simp [he], ?_⟩
  intro j hji hp
  have hj : d.regs[j]? = some (d.regs[j]'(Nat.lt_trans hji hlt)) := List.getElem?_eq_getElem _
  have := findRegB_sound d h i j rd _ hi hj (by
    simp only [Bool.or_eq_true, beq_iff_eq] at hp
    exact hp)
  omega

theorem findField_name (rd : RegD) (h : nodupFastB (rd.fields.map (·.name)) = true) (j : Nat) (fd : FieldD)
    (hj : rd.fields[j]? = some fd) : findField rd fd.name = some j := by
  obtain ⟨hlt, he⟩ := List.getElem?_eq_some_iff.1 hj
  have hnd := nodupFastB_sound _ h
  rw [findField, List.findIdx?_eq_some_iff_getElem]
  refine ⟨hlt, by simp [he], ?_⟩
  intro t ht hp
  simp only [beq_iff_eq] at hp
  have h1 : (rd.fields.map (·.name))[t]'(by simp; omega) = (rd.fields.map (·.name))[j]'(by simpa using hlt) := by
    simp [hp, he]
  have := (List.getElem_inj hnd).1 h1
  omega

/-- **names resolve**: the name-keyed dictionary of a configuration taken with `get_config` is resolved by `find_reg` /
    `find_bitfield` to exactly the registers and bit-fields it was taken from -/
theorem names_resolve (d : LayoutD) (rf : RegFile) (cfg : Cfg) (hf : findRegB d = true) (hn : fieldNamesB d = true)
    (hlen : rf.length = d.regs.length)
    (hfl : ∀ (i : Nat) (r : Reg) (rd : RegD), rf[i]? = some r → d.regs[i]? = some rd → r.fields.length = rd.fields.length)
    (hg : getConfig (toMeta d) rf = .ok cfg) :
    ∃ n, nameCfg d cfg = some n ∧ resolveCfg d n = some cfg := by
  apply optAll_roundtrip
  intro e he
  obtain ⟨i, c, r, rfl, _, hr, hc⟩ := getConfigFrom_entries (toMeta d) rf 0 cfg hg e he
  simp only [Nat.sub_zero] at hr
  have hi : i < d.regs.length := by rw [← hlen]; exact (List.getElem?_eq_some_iff.1 hr).1
  obtain ⟨rd, hrd⟩ : ∃ rd, d.regs[i]? = some rd := ⟨_, List.getElem?_eq_getElem hi⟩
  have hfr := findReg_name d hf i rd hrd
  cases c with
  | value v => exact ⟨(rd.name, .value v), by simp [nameEntry, hrd], by simp [resolveEntry, hfr]⟩
  | fields fl =>
    have hidx : ∀ jc ∈ fl, jc.1 < rd.fields.length := by
      intro jc hjc
      simp only [regConfig] at hc
      split at hc
      · split at hc <;> cases hc
      · split at hc
        · cases hc
        · next l hl =>
          simp only [Except.ok.injEq, RegCfg.fields.injEq] at hc; subst hc
          have := fieldsConfig_indices r ((toMeta d).reg i) r.fields 0 l hl jc hjc
          rw [← hfl i r rd hr hrd]; omega
    have hnames : nodupFastB (rd.fields.map (·.name)) = true := by
      simp only [fieldNamesB, List.all_eq_true] at hn
      exact hn rd (List.mem_of_getElem? hrd)
    obtain ⟨fl', h1, h2⟩ := optAll_roundtrip
      (fun jc : Nat × Regs.CfgVal => (rd.fields[jc.1]?).map (fun fd => (fd.name, jc.2)))
      (fun nc : Nat × Regs.CfgVal => (findField rd nc.1).map (fun j => (j, nc.2))) fl (by
        intro jc hjc
        have hlt := hidx jc hjc
        refine ⟨((rd.fields[jc.1]'hlt).name, jc.2), by simp [List.getElem?_eq_getElem hlt], ?_⟩
        simp [findField_name rd hnames jc.1 _ (List.getElem?_eq_getElem hlt)])
    exact ⟨(rd.name, .fields fl'), by simp [nameEntry, hrd, h1], by simp [resolveEntry, hfr, hrd, h2]⟩

/-- registers, details and values line up -/
inductive Aligned3 : List RegL → List RegD → Vals → Prop
  | nil : Aligned3 [] [] []
  | cons {r rd v rs rds vs} : r.fields.length = rd.fields.length → Aligned3 rs rds vs → Aligned3 (r :: rs) (rd :: rds) (v :: vs)

theorem toFileFrom_getElem? : ∀ {rs : List RegL} {rds : List RegD} {vs : Vals} (i : Nat), Aligned3 rs rds vs →
    (toFileFrom rs rds vs)[i]? = match rs[i]?, rds[i]?, vs[i]? with
      | some r, some rd, some v => some (toReg r rd v)
      | _, _, _ => none := by
  intro rs rds vs i h
  induction h generalizing i with
  | nil => simp [toFileFrom]
  | cons _ _ ih =>
    cases i with
    | zero => simp [toFileFrom]
    | succ j => simpa [toFileFrom] using ih j

theorem toFileFrom_length : ∀ {rs : List RegL} {rds : List RegD} {vs : Vals}, Aligned3 rs rds vs →
    (toFileFrom rs rds vs).length = rs.length := by
  intro rs rds vs h
  induction h with
  | nil => rfl
  | cons _ _ ih => simp [toFileFrom, ih]

theorem aligned3_lengths : ∀ {rs : List RegL} {rds : List RegD} {vs : Vals}, Aligned3 rs rds vs →
    rds.length = rs.length ∧ vs.length = rs.length := by
  intro rs rds vs h
  induction h with
  | nil => exact ⟨rfl, rfl⟩
  | cons _ _ ih => simp [ih.1, ih.2]

theorem pick3 {rs : List RegL} {rds : List RegD} {vs : Vals} {i : Nat} {x : Regs.Reg} (h : Aligned3 rs rds vs)
    (hx : (toFileFrom rs rds vs)[i]? = some x) :
    ∃ r rd v, rs[i]? = some r ∧ rds[i]? = some rd ∧ vs[i]? = some v ∧ x = toReg r rd v := by
  rw [toFileFrom_getElem? i h] at hx
  split at hx
  · next r rd v h1 h2 h3 => exact ⟨r, rd, v, h1, h2, h3, by simpa using hx.symm⟩
  · cases hx


theorem rv3_fields : ∀ {rs : List RegL} {rds : List RegD} {vs : Vals} {i : Nat} {r : RegL} {rd : RegD}, Aligned3 rs rds vs →
    rs[i]? = some r → rds[i]? = some rd → r.fields.length = rd.fields.length := by
  intro rs rds vs i r rd h
  induction h generalizing i with
  | nil => intro hr; simp at hr
  | cons hf _ ih =>
    intro hr hrd
    cases i with
    | zero => simp at hr hrd; subst hr; subst hrd; exact hf
    | succ j => exact ih (by simpa using hr) (by simpa using hrd)

theorem aligned3_of_alignedB : ∀ {rs : List RegL} {rds : List RegD} {vs : Vals},
    zipAll (fun (r : RegL) (rd : RegD) => r.fields.length == rd.fields.length) rs rds = true → vs.length = rs.length →
    Aligned3 rs rds vs := by
  intro rs
  induction rs with
  | nil =>
    intro rds vs h hl
    cases rds with
    | nil => cases vs with | nil => exact .nil | cons _ _ => simp at hl
    | cons _ _ => simp [zipAll] at h
  | cons r rs ih =>
    intro rds vs h hl
    cases rds with
    | nil => simp [zipAll] at h
    | cons rd rds =>
      cases vs with
      | nil => simp at hl
      | cons v vs =>
        simp only [zipAll, Bool.and_eq_true, beq_iff_eq] at h
        exact .cons h.1 (ih h.2 (by simpa using hl))

end SpsdkVerif.CfgArea
