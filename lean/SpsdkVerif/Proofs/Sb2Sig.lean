/-
C04 phase 2: signature coverage.  A file that differs from a built one anywhere inside the signed range has no
prefix (of any length) equal to the signed message, so the original signature verifying over ANY prefix of the
tampered file is a signature forgery (`Break.sigForgery`).  Also: exactness of the ROM content for 16-aligned LOADs.
Core Lean only.
-/
import SpsdkVerif.Proofs.Sb2Image

namespace SpsdkVerif.Sb2
open SpsdkVerif SpsdkVerif.Sb2.Rom
open SpsdkVerif.Misc (Bytes)
open SpsdkVerif.Crypto (CryptoOps CryptoLaws Break SigAlg PrivKey Rand)

variable {c : CryptoOps}

/-- injectivity of the range extraction: if `f'` has the length of `f` and differs from it at a position below `n`,
    then no prefix of `f'` is the `n`-prefix of `f` -/
theorem take_ne_of_diff (f f' : Bytes) (n i : Nat) (hl : f'.length = f.length) (hn : n ≤ f.length) (hi : i < n)
    (hd : f'[i]? ≠ f[i]?) (m : Nat) : f'.take m ≠ f.take n := by
  intro he
  have hlen := congrArg List.length he
  simp only [List.length_take] at hlen
  have hm : f'.take m = f'.take n := by
    by_cases hmn : m ≤ f'.length
    · have : m = n := by omega
      rw [this]
    · rw [List.take_of_length_le (by omega), List.take_of_length_le (by omega)]
  rw [hm] at he
  have h1 : (f'.take n)[i]? = f'[i]? := by rw [List.getElem?_take]; simp [hi]
  have h2 : (f.take n)[i]? = f[i]? := by rw [List.getElem?_take]; simp [hi]
  rw [he, h2] at h1
  exact hd h1.symm

/-- SB 2.1: the signature was made over the signed range of the built file; the file is then changed anywhere inside
    that range (same length).  If that signature verifies over a prefix — of whatever length a loader derives from the
    tampered header — a forgery is exhibited. -/
theorem signed_range_tamper_v21 (h : CryptoLaws c) (cfg : Cfg) (wf : Spec.WF21 cfg) (alg : SigAlg) (sk : PrivKey) (r : Rand)
    (hsig : cfg.signature = c.sign alg sk (cfg.signed21 c) r)
    (file' : Bytes) (hl : file'.length = (buildV21 c cfg).length)
    (i : Nat) (hi : i < (Spec.expected21 cfg).signedLen) (hd : file'[i]? ≠ (buildV21 c cfg)[i]?)
    (n : Nat) (hv : c.verify alg (c.pubOf sk) (file'.take n) cfg.signature = true) : Break c := by
  have ⟨e1, _, e3⟩ := signed_range_v21 h cfg wf
  have hle : (Spec.expected21 cfg).signedLen ≤ (buildV21 c cfg).length := by
    have := (header_describes_file_v21 h cfg wf).1
    have hb : (Spec.expected21 cfg).firstBootTagBlock ≤ (Spec.expected21 cfg).imageBlocks := by
      simp only [Spec.expected21, Spec.fileLen21]
      apply Nat.div_le_div_right
      omega
    have := Nat.mul_le_mul_right 16 hb
    omega
  have hne := take_ne_of_diff (buildV21 c cfg) file' _ i hl hle hi hd n
  rw [e1] at hne
  rw [hsig] at hv
  exact Break.sigForgery alg sk (cfg.signed21 c) (file'.take n) r (Ne.symm hne) hv

/-- SB 2.0 (signed): the signed message is everything in front of the signature -/
theorem signed_range_tamper_v20 (h : CryptoLaws c) (cfg : Cfg) (wf : Spec.WF20 cfg true) (alg : SigAlg) (sk : PrivKey) (r : Rand)
    (hsig : cfg.signature = c.sign alg sk (cfg.body20 c true) r)
    (file' : Bytes) (hl : file'.length = (buildV20 c cfg true).length)
    (i : Nat) (hi : i < Spec.bodyLen20 cfg true) (hd : file'[i]? ≠ (buildV20 c cfg true)[i]?)
    (n : Nat) (hv : c.verify alg (c.pubOf sk) (file'.take n) cfg.signature = true) : Break c := by
  have hb := body20_length h cfg true wf
  have hle : Spec.bodyLen20 cfg true ≤ (buildV20 c cfg true).length := by
    simp only [buildV20, List.length_append, hb]; omega
  have hne := take_ne_of_diff (buildV20 c cfg true) file' _ i hl hle hi hd n
  have ht : (buildV20 c cfg true).take (Spec.bodyLen20 cfg true) = cfg.body20 c true := by
    simp only [buildV20, if_true]
    rw [← hb, List.take_left]
  rw [ht] at hne
  rw [hsig] at hv
  exact Break.sigForgery alg sk (cfg.body20 c true) (file'.take n) r (Ne.symm hne) hv

/-! ## exact content for aligned LOADs -/

theorem view_eq_viewExact (x : Cmd) (hal : ∀ a d m f, x = .load a d m f → d.length % 16 = 0) :
    Spec.view x = Spec.viewExact x := by
  cases x <;> simp only [Spec.viewExact]
  case load a d m f =>
    have h16 := hal a d m f rfl
    simp [Spec.view, Spec.pad16, h16, Crypto.zeros]

/-- all LOAD data of the configuration is a multiple of 16 bytes long -/
def loadsAligned (cfg : Cfg) : Prop :=
  ∀ s ∈ cfg.sections, ∀ x ∈ s.cmds, ∀ a d m f, x = .load a d m f → d.length % 16 = 0

/-- the content with every command exactly as given (`Spec.viewExact`) -/
def expected21Exact (cfg : Cfg) : Rom.Content :=
  { Spec.expected21 cfg with
    sections := cfg.sections.map (fun s => { Spec.expectedSection s with cmds := s.cmds.map Spec.viewExact }) }

def expected20Exact (cfg : Cfg) (signed : Bool) : Rom.Content :=
  { Spec.expected20 cfg signed with
    sections := cfg.sections.map (fun s => { Spec.expectedSection s with cmds := s.cmds.map Spec.viewExact }) }

theorem sections_exact (cfg : Cfg) (hal : loadsAligned cfg) :
    cfg.sections.map Spec.expectedSection =
      cfg.sections.map (fun s => { Spec.expectedSection s with cmds := s.cmds.map Spec.viewExact }) := by
  apply List.map_congr_left
  intro s hs
  simp only [Spec.expectedSection]
  congr 1
  apply List.map_congr_left
  intro x hx
  exact view_eq_viewExact x (hal s hs x hx)

theorem expected21_exact (cfg : Cfg) (hal : loadsAligned cfg) : Spec.expected21 cfg = expected21Exact cfg := by
  simp only [expected21Exact, ← sections_exact cfg hal]
  rfl

theorem expected20_exact (cfg : Cfg) (signed : Bool) (hal : loadsAligned cfg) :
    Spec.expected20 cfg signed = expected20Exact cfg signed := by
  simp only [expected20Exact, ← sections_exact cfg hal]
  rfl

end SpsdkVerif.Sb2
