/-
Helper lemma for the several-artifacts-per-call part of Properties/C17.lean (model: Model/FreshLoop.lean).
-/
import SpsdkVerif.Model.FreshLoop

namespace SpsdkVerif.Fresh

theorem runCalls_inside_sorted (h : List Nat) (next : Nat) :
    (∀ t ∈ runCalls true h next, next ≤ t) ∧ (runCalls true h next).Pairwise (· < ·) := by
  induction h generalizing next with
  | nil => simp [runCalls]
  | cons n ns ih =>
    have hr := ih (next + n)
    simp only [runCalls, serve, if_true]
    refine ⟨?_, ?_⟩
    · intro t ht
      rcases List.mem_append.mp ht with ht | ht
      · obtain ⟨i, _, rfl⟩ := List.mem_map.mp ht
        exact Nat.le_add_right _ _
      · have := hr.1 t ht
        omega
    · rw [List.pairwise_append]
      refine ⟨?_, hr.2, ?_⟩
      · rw [List.pairwise_map]
        exact (List.pairwise_lt_range).imp (fun h => Nat.add_lt_add_left h next)
      · intro a ha b hb
        obtain ⟨i, hi, rfl⟩ := List.mem_map.mp ha
        have := hr.1 b hb
        have := List.mem_range.mp hi
        show next + i < b
        omega

end SpsdkVerif.Fresh
