/- Helper lemmas for Properties/C20.lean (may import single Mathlib modules). -/
import SpsdkVerif.Generated.PyFuns
import SpsdkVerif.Model.Misc

namespace SpsdkVerif.Misc
open SpsdkVerif SpsdkVerif.Generated.PyFuns

/-! ### Python integer operators on non-negative operands -/

theorem pyShl_nat (a : Nat) (b : Int) : pyShl (a : Int) b = ((a <<< b.toNat : Nat) : Int) := by
  simp [pyShl]
theorem pyShr_nat (a : Nat) (b : Int) : pyShr (a : Int) b = ((a >>> b.toNat : Nat) : Int) := by
  simp [pyShr]
theorem pyAnd_nat (a : Nat) (b : Int) : pyAnd (a : Int) b = ((a &&& b.toNat : Nat) : Int) := by
  simp [pyAnd]
theorem pyOr_nat (a b : Nat) : pyOr (a : Int) (b : Int) = ((a ||| b : Nat) : Int) := by
  simp [pyOr]

theorem memId_nat (d g : Nat) (hd : d < 256) (hg : g < 16) :
    let m := ((g <<< 8) &&& 3840) ||| ((d <<< 0) &&& 255)
    ((m &&& 255) >>> 0 = d) ∧ ((m &&& 3840) >>> 8 = g) := by
  have e1 : (g <<< 8) &&& 3840 = g <<< 8 := by
    have : (3840 : Nat) = 15 <<< 8 := by decide
    rw [this, ← Nat.shiftLeft_and_distrib]
    have : (15 : Nat) = 2 ^ 4 - 1 := by decide
    rw [this, Nat.and_two_pow_sub_one_eq_mod, Nat.mod_eq_of_lt (by omega)]
  have e2 : (d <<< 0) &&& 255 = d := by
    have : (255 : Nat) = 2 ^ 8 - 1 := by decide
    rw [this, Nat.and_two_pow_sub_one_eq_mod, Nat.shiftLeft_zero, Nat.mod_eq_of_lt (by omega)]
  intro m
  have hm : m = g * 256 + d := by
    show ((g <<< 8) &&& 3840) ||| ((d <<< 0) &&& 255) = _
    rw [e1, e2, ← Nat.shiftLeft_add_eq_or_of_lt (by omega), Nat.shiftLeft_eq]
  rw [hm]
  constructor
  · have : (255 : Nat) = 2 ^ 8 - 1 := by decide
    rw [this, Nat.and_two_pow_sub_one_eq_mod, Nat.shiftRight_zero]; omega
  · rw [Nat.shiftRight_and_distrib]
    have : (3840 : Nat) >>> 8 = 2 ^ 4 - 1 := by decide
    rw [this, Nat.and_two_pow_sub_one_eq_mod, Nat.shiftRight_eq_div_pow]; omega

theorem swap16_nat (k : Nat) (h : k < 65536) :
    ((k <<< 8) &&& 65280) ||| ((k >>> 8) &&& 255) = k % 256 * 256 + k / 256 := by
  have e1 : (k <<< 8) &&& 65280 = (k % 256) <<< 8 := by
    have : (65280 : Nat) = 255 <<< 8 := by decide
    rw [this, ← Nat.shiftLeft_and_distrib]
    have : (255 : Nat) = 2 ^ 8 - 1 := by decide
    rw [this, Nat.and_two_pow_sub_one_eq_mod]
  have e2 : (k >>> 8) &&& 255 = k / 256 := by
    have : (255 : Nat) = 2 ^ 8 - 1 := by decide
    rw [this, Nat.and_two_pow_sub_one_eq_mod, Nat.shiftRight_eq_div_pow]
    omega
  rw [e1, e2, ← Nat.shiftLeft_add_eq_or_of_lt (by omega), Nat.shiftLeft_eq]

/-! ### integer <-> bytes -/

theorem beEnc_length' (n v : Nat) : (beEnc n v).length = n := by
  induction n generalizing v with
  | zero => simp [beEnc]
  | succ n ih => simp [beEnc, ih]

theorem beDec_append_single (l : Bytes) (x : UInt8) : beDec (l ++ [x]) = beDec l * 256 + x.toNat := by
  simp [beDec, List.foldl_append]

theorem beDec_beEnc_mod (n v : Nat) : beDec (beEnc n v) = v % 256 ^ n := by
  induction n generalizing v with
  | zero => simp [beEnc, beDec, Nat.mod_one]
  | succ n ih =>
    rw [beEnc, beDec_append_single, ih, UInt8.toNat_ofNat']
    have hp : 256 ^ (n + 1) = 256 * 256 ^ n := by rw [Nat.pow_succ, Nat.mul_comm]
    rw [hp, Nat.mod_mul]
    generalize v / 256 % 256 ^ n = q
    omega

theorem byteLenF_zero (f : Nat) : byteLenF f 0 = 0 := by
  cases f <;> simp [byteLenF]

theorem byteLenF_min (f v : Nat) (h : v ≤ f) :
    v < 256 ^ byteLenF f v ∧ (0 < v → 256 ^ (byteLenF f v - 1) ≤ v) := by
  induction f generalizing v with
  | zero =>
    have : v = 0 := by omega
    subst this; simp [byteLenF]
  | succ f ih =>
    by_cases hv : v = 0
    · subst hv; simp [byteLenF]
    · have h' : v / 256 ≤ f := by omega
      obtain ⟨i1, i2⟩ := ih (v / 256) h'
      simp only [byteLenF, hv, if_false]
      rw [Nat.add_comm 1, Nat.pow_succ, Nat.add_sub_cancel]
      refine ⟨by omega, fun _ => ?_⟩
      by_cases hq : v / 256 = 0
      · rw [hq, byteLenF_zero]; simp; omega
      · have := i2 (by omega)
        have hL : byteLenF f (v / 256) ≠ 0 := by
          intro e; rw [e] at i1; simp at i1; omega
        obtain ⟨L, hL'⟩ := Nat.exists_eq_succ_of_ne_zero hL
        rw [hL'] at this ⊢
        rw [Nat.pow_succ]
        simp at this
        omega

theorem byteLen_pos (v : Nat) (h : v ≠ 0) : 1 ≤ byteLen v := by
  unfold byteLen
  cases v with
  | zero => simp at h
  | succ n => simp [byteLenF]

theorem getBytesCnt_cases (v : Nat) (a2n : Bool) (bc : Nat)
    (hfit : a2n = true → 2 < byteLen v → byteLen v ≤ bc → (byteLen v + 3) / 4 * 4 ≤ bc) :
    (∃ n, getBytesCnt v a2n bc = .ok n ∧ v < 256 ^ n ∧ (bc ≠ 0 → n = bc))
    ∨ (getBytesCnt v a2n bc = .error .spsdk ∧ bc ≠ 0 ∧ 256 ^ bc ≤ v) := by
  by_cases hv : v = 0
  · subst hv
    left
    refine ⟨if bc = 0 then 1 else bc, by simp [getBytesCnt], Nat.pow_pos (by omega), ?_⟩
    intro h; simp [h]
  · obtain ⟨m1, m2⟩ := byteLenF_min v v (Nat.le_refl v)
    have m2 := m2 (by omega)
    have hpos := byteLen_pos v hv
    change v < 256 ^ byteLen v at m1
    change 256 ^ (byteLen v - 1) ≤ v at m2
    simp only [getBytesCnt, hv, if_false]
    generalize byteLen v = c0 at *
    generalize hc : (if (a2n && decide (c0 > 2)) = true then (c0 + 3) / 4 * 4 else c0) = c
    have hcc : c0 ≤ c := by
      rw [← hc]; split <;> omega
    by_cases hb : bc ≠ 0 ∧ c > bc
    · right
      rw [if_pos hb]
      refine ⟨rfl, hb.1, ?_⟩
      have : bc < c0 := by
        by_cases ha : (a2n && decide (c0 > 2)) = true
        · rw [if_pos ha] at hc
          simp at ha
          have := hfit ha.1 ha.2
          omega
        · rw [if_neg ha] at hc
          omega
      exact Nat.le_trans (Nat.pow_le_pow_right (by omega) (by omega)) m2
    · left
      rw [if_neg hb]
      refine ⟨_, rfl, ?_, fun h => by simp [h]⟩
      refine Nat.lt_of_lt_of_le m1 (Nat.pow_le_pow_right (by omega) ?_)
      split <;> omega

/-! ### digit groups -/

section Groups
variable (split : List Char → List (List Char))
  (h_nil : split [] = [[]])
  (h_cons : ∀ c cs, split (c :: cs) =
    if c == '_' then [] :: split cs
    else match split cs with
      | g :: gs => (c :: g) :: gs
      | [] => [[c]])
include h_nil h_cons

theorem split_ne_nil (s : List Char) : split s ≠ [] := by
  cases s with
  | nil => simp [h_nil]
  | cons c cs =>
    rw [h_cons]
    split
    · simp
    · split <;> simp

theorem digitsValue_gen (base : Nat) (s : List Char) (p : Bool) (acc : Nat) :
    digitsValue base s p acc =
      match split s with
      | [] => none
      | g :: gs =>
        if (!p || !g.isEmpty) && g.all (fun c => decide (digitVal c < base))
            && gs.all (fun g => !g.isEmpty && g.all (fun c => decide (digitVal c < base)))
        then some ((s.filter (· != '_')).foldl (fun acc c => acc * base + digitVal c) acc)
        else none := by
  induction s generalizing p acc with
  | nil => cases p <;> simp [digitsValue, h_nil]
  | cons c cs ih =>
    have hne := split_ne_nil split h_nil h_cons cs
    rw [h_cons, digitsValue]
    by_cases hc : c = '_'
    · subst hc
      simp only [beq_self_eq_true, if_true]
      cases p
      · rw [ih]
        cases hs : split cs with
        | nil => exact absurd hs hne
        | cons g gs => simp
      · simp
    · have hc' : (c == '_') = false := by simp [hc]
      simp only [hc', if_false, Bool.false_eq_true]
      rw [ih]
      cases hs : split cs with
      | nil => exact absurd hs hne
      | cons g gs =>
        by_cases hd : digitVal c < base
        · simp [hd, hc]
        · simp [hd]

theorem digitsValue_groups_gen (base : Nat) (s : List Char) (hs : s ≠ []) :
    (if s.head? = some '_' then none else digitsValue base s false 0) =
      if (split s).all (fun g => !g.isEmpty && g.all (fun c => decide (digitVal c < base)))
      then some ((s.filter (· != '_')).foldl (fun acc c => acc * base + digitVal c) 0) else none := by
  cases s with
  | nil => exact absurd rfl hs
  | cons c cs =>
    have hne := split_ne_nil split h_nil h_cons cs
    rw [digitsValue_gen split h_nil h_cons, h_cons]
    by_cases hc : c = '_'
    · subst hc; simp
    · have hc' : (c == '_') = false := by simp [hc]
      simp only [hc', if_false, Bool.false_eq_true]
      cases hs : split cs with
      | nil => exact absurd hs hne
      | cons g gs => simp [hc]

end Groups

/-! ### `pyIntOf` in the grammar's words -/

theorem pyIntOf_eq_groups (G : Nat → List Char → Option Nat)
    (hG : ∀ base s, s ≠ [] → (if s.head? = some '_' then none else digitsValue base s false 0) = G base s)
    (base : Nat) (num : List Char) :
    pyIntOf base num =
      (let num' := if base == 2 then
          (match num with
           | '0' :: 'b' :: '_' :: r => r
           | '0' :: 'b' :: r => r
           | r => r) else num
       if num'.isEmpty || num'.head? = some '_' then none else G base num') := by
  have hG' : ∀ (c : Char) (cs : List Char), c ≠ '_' →
      digitsValue base (c :: cs) false 0 = G base (c :: cs) := by
    intro c cs hc
    have := hG base (c :: cs) (by simp)
    simpa [hc] using this
  rcases num with _ | ⟨c0, r0⟩
  · simp [pyIntOf]
  by_cases h0 : c0 = '0'
  case neg =>
    by_cases hu : c0 = '_'
    · simp [pyIntOf, hu]
    · simp [pyIntOf, hG', h0, hu]
  subst h0
  rcases r0 with _ | ⟨c1, r1⟩
  · simp [pyIntOf, hG']
  by_cases h1 : c1 = 'b'
  case neg => simp [pyIntOf, hG', h1]
  subst h1
  by_cases hb : base = 2
  case neg => simp [pyIntOf, hG', hb]
  subst hb
  rcases r1 with _ | ⟨c2, r2⟩
  · simp [pyIntOf]
  by_cases h2 : c2 = '_'
  case neg => simp [pyIntOf, hG', h2]
  subst h2
  rcases r2 with _ | ⟨c3, r3⟩
  · simp [pyIntOf]
  by_cases h3 : c3 = '_'
  case neg => simp [pyIntOf, hG', h3]
  subst h3
  simp [pyIntOf]

/-! ### plain decimal strings -/

theorem digit_cases (c : Char) (h : '0' ≤ c ∧ c ≤ '9') :
    ∃ n : Fin 10, c = Char.ofNat (48 + n.val) := by
  have h1 : 48 ≤ c.toNat := by
    have := h.1; simpa [Char.le_def, UInt32.le_iff_toNat_le] using this
  have h2 : c.toNat ≤ 57 := by
    have := h.2; simpa [Char.le_def, UInt32.le_iff_toNat_le] using this
  refine ⟨⟨c.toNat - 48, by omega⟩, ?_⟩
  have : 48 + (c.toNat - 48) = c.toNat := by omega
  simp only [this, Char.ofNat_toNat]

theorem digit_facts (c : Char) (h : '0' ≤ c ∧ c ≤ '9') :
    isWs c = false ∧ lowerCh c = c ∧ isNumCh c = true ∧ c ≠ '_' ∧ digitVal c < 10 ∧
    c ≠ 'b' ∧ c ≠ 'o' ∧ c ≠ 'x' := by
  obtain ⟨n, rfl⟩ := digit_cases c h
  revert n
  decide

theorem dropWhile_head_false {α} (p : α → Bool) (l : List α) (h : ∀ x, l.head? = some x → p x = false) :
    l.dropWhile p = l := by
  cases l with
  | nil => rfl
  | cons a l => simp [List.dropWhile, h a rfl]

theorem takeWhile_all {α} (p : α → Bool) (l : List α) (h : ∀ x ∈ l, p x = true) :
    l.takeWhile p = l := by
  induction l with
  | nil => rfl
  | cons a l ih => simp [List.takeWhile, h a (by simp), ih (fun x hx => h x (by simp [hx]))]

theorem dropWhile_all {α} (p : α → Bool) (l : List α) (h : ∀ x ∈ l, p x = true) :
    l.dropWhile p = [] := by
  induction l with
  | nil => rfl
  | cons a l ih => simp [List.dropWhile, h a (by simp), ih (fun x hx => h x (by simp [hx]))]

theorem strip_eq_self (s : List Char) (h : ∀ c ∈ s, isWs c = false) : strip s = s := by
  unfold strip
  rw [dropWhile_head_false isWs s, dropWhile_head_false isWs s.reverse, List.reverse_reverse]
  · intro x hx; exact h x (by simpa using List.mem_of_mem_head? hx)
  · intro x hx; exact h x (List.mem_of_mem_head? hx)

theorem digitsValue_digits (base : Nat) (s : List Char) (acc : Nat)
    (h : ∀ c ∈ s, c ≠ '_' ∧ digitVal c < base) :
    digitsValue base s false acc = some (s.foldl (fun acc c => acc * base + digitVal c) acc) := by
  induction s generalizing acc with
  | nil => simp [digitsValue]
  | cons c cs ih =>
    have hc := h c (by simp)
    simp only [digitsValue, beq_iff_eq, hc.1, if_false, hc.2, if_true, List.foldl_cons]
    exact ih _ (fun c hc => h c (by simp [hc]))

theorem valueToInt_digits (ds : List Char) (h : ds ≠ []) (hd : ∀ c ∈ ds, '0' ≤ c ∧ c ≤ '9') :
    valueToInt ds = some (ds.foldl (fun acc c => acc * 10 + digitVal c) 0) := by
  have hf := fun c hc => digit_facts c (hd c hc)
  have he : ds.isEmpty = false := by cases ds <;> simp_all
  have h1 : strip ds = ds := strip_eq_self ds (fun c hc => (hf c hc).1)
  have h2 : ds.map lowerCh = ds := by
    conv => rhs; rw [← List.map_id ds]
    exact List.map_congr_left (fun c hc => (hf c hc).2.1)
  have h3 : ds.takeWhile isNumCh = ds := takeWhile_all _ _ (fun c hc => (hf c hc).2.2.1)
  have h4 : ds.dropWhile isNumCh = [] := dropWhile_all _ _ (fun c hc => (hf c hc).2.2.1)
  have hm : matchNumSuf ds = some ds := by simp [matchNumSuf, h3, h4, he]
  have hr : regexMatch ds = some (10, ds) := by
    rcases ds with _ | ⟨c0, _ | ⟨c1, rest⟩⟩
    · exact absurd rfl h
    · simp [regexMatch, hm]
    · have := hf c1 (by simp)
      by_cases h0 : c0 = '0'
      · subst h0; simp [regexMatch, hm, this]
      · simp [regexMatch, hm, h0]
  have hp : pyIntOf 10 ds = digitsValue 10 ds false 0 := by
    rcases ds with _ | ⟨c0, _ | ⟨c1, rest⟩⟩
    · exact absurd rfl h
    · have := hf c0 (by simp)
      simp [pyIntOf, this]
    · have hb : c1 ≠ 'b' := (hf c1 (by simp)).2.2.2.2.2.1
      have hu : c0 ≠ '_' := (hf c0 (by simp)).2.2.2.1
      by_cases h0' : c0 = '0'
      · subst h0'; simp [pyIntOf, hb]
      · simp [pyIntOf, hu, h0']
  simp only [valueToInt, he, h1, h2, hr, hp, Bool.false_eq_true, if_false]
  exact digitsValue_digits 10 ds 0 (fun c hc => ⟨(hf c hc).2.2.2.1, (hf c hc).2.2.2.2.1⟩)

/-! ### byte order -/

theorem swap32_nat (k : Nat) :
    leDec (beEnc 4 k) = k % 256 * 16777216 + k / 256 % 256 * 65536 + k / 256 / 256 % 256 * 256
      + k / 256 / 256 / 256 % 256 := by
  simp [leDec, beEnc, beDec]
  omega

theorem swap32_ok (x : Int) (h0 : 0 ≤ x) (h1 : x ≤ 0xFFFFFFFF) :
    swap32 x = .ok (x % 256 * 16777216 + x / 256 % 256 * 65536 + x / 256 / 256 % 256 * 256
      + x / 256 / 256 / 256 % 256) := by
  obtain ⟨k, rfl⟩ := Int.eq_ofNat_of_zero_le h0
  have h : ¬ ((k : Int) < 0 ∨ (k : Int) > 0xFFFFFFFF) := by omega
  simp only [swap32, h, if_false, Int.toNat_natCast]
  rw [swap32_nat k]
  congr 1 <;> (simp only [Int.ofNat_eq_natCast]; omega)

theorem bytes4 (a b c d : Int) (ha : 0 ≤ a ∧ a < 256) (hb : 0 ≤ b ∧ b < 256) (hc : 0 ≤ c ∧ c < 256)
    (hd : 0 ≤ d ∧ d < 256) (y : Int) (hy : y = a * 16777216 + b * 65536 + c * 256 + d) :
    y % 256 = d ∧ y / 256 % 256 = c ∧ y / 256 / 256 % 256 = b ∧ y / 256 / 256 / 256 % 256 = a := by
  subst hy
  refine ⟨by omega, by omega, by omega, by omega⟩

/-! ### bit reversal -/

/-- little-endian value of a bit list -/
def leVal : List Bool → Nat
  | [] => 0
  | b :: l => (if b then 1 else 0) + 2 * leVal l

theorem ofBitsBE_append_single (l : List Bool) (b : Bool) :
    ofBitsBE (l ++ [b]) = ofBitsBE l * 2 + (if b then 1 else 0) := by
  simp [ofBitsBE, List.foldl_append]

theorem ofBitsBE_reverse (l : List Bool) : ofBitsBE l.reverse = leVal l := by
  induction l with
  | nil => rfl
  | cons b l ih => rw [List.reverse_cons, ofBitsBE_append_single, ih, leVal]; omega

theorem bitsOf_length (n x : Nat) : (bitsOf n x).length = n := by
  induction n generalizing x with
  | zero => rfl
  | succ n ih => simp [bitsOf, ih]

theorem leVal_bitsOf (n x : Nat) : leVal (bitsOf n x) = x % 2 ^ n := by
  induction n generalizing x with
  | zero => simp [bitsOf, leVal, Nat.mod_one]
  | succ n ih =>
    have hp : 2 ^ (n + 1) = 2 * 2 ^ n := by rw [Nat.pow_succ, Nat.mul_comm]
    rw [bitsOf, leVal, ih, hp, Nat.mod_mul]
    have : (if (x % 2 == 1) = true then 1 else 0) = x % 2 := by
      rcases Nat.mod_two_eq_zero_or_one x with h | h <;> simp [h]
    rw [this]

theorem bitsOf_leVal (l : List Bool) (n : Nat) (h : l.length = n) : bitsOf n (leVal l) = l := by
  induction l generalizing n with
  | nil => subst h; rfl
  | cons b l ih =>
    subst h
    simp only [List.length_cons, bitsOf, leVal]
    have h1 : ((if b = true then 1 else 0) + 2 * leVal l) / 2 = leVal l := by cases b <;> simp <;> omega
    have h2 : (((if b = true then 1 else 0) + 2 * leVal l) % 2 == 1) = b := by cases b <;> simp <;> omega
    rw [h1, h2, ih _ rfl]

theorem leVal_lt (l : List Bool) : leVal l < 2 ^ l.length := by
  induction l with
  | nil => simp [leVal]
  | cons b l ih =>
    simp only [leVal, List.length_cons, Nat.pow_succ]
    cases b <;> simp <;> omega

theorem bitLenF_le (f x n : Nat) (h : x < 2 ^ n) : bitLenF f x ≤ n := by
  induction f generalizing x n with
  | zero => simp [bitLenF]
  | succ f ih =>
    by_cases hx : x = 0
    · simp [bitLenF, hx]
    · simp only [bitLenF, hx, if_false]
      cases n with
      | zero => simp at h; omega
      | succ m =>
        have := ih (x / 2) m (by rw [Nat.pow_succ] at h; omega)
        omega

theorem reverseBits_eq (x n : Nat) (h : x < 2 ^ n) (hn : 0 < n) :
    reverseBits x n = leVal (bitsOf n x).reverse := by
  have hb : bitLen x ≤ n := bitLenF_le x x n h
  have hN : max n (max (bitLen x) 1) = n := by omega
  simp only [reverseBits, hN]
  rw [← ofBitsBE_reverse, List.reverse_reverse]

theorem reverseBits_invol' (x n : Nat) (h : x < 2 ^ n) (hn : 0 < n) :
    reverseBits (reverseBits x n) n = x := by
  have hl : (bitsOf n x).reverse.length = n := by simp [bitsOf_length]
  have hy : reverseBits x n < 2 ^ n := by
    rw [reverseBits_eq x n h hn]
    have := leVal_lt (bitsOf n x).reverse
    rwa [hl] at this
  rw [reverseBits_eq _ n hy hn, reverseBits_eq x n h hn, bitsOf_leVal _ n hl, List.reverse_reverse,
    leVal_bitsOf, Nat.mod_eq_of_lt h]

/-! ### chunked reversal / pair swap -/

/-- the body of `reverseBytesInLongs` -/
def revLongs (b : Bytes) : Bytes := ((chunk4 b).map List.reverse).flatten

theorem revLongs_spec : ∀ (b : Bytes), b.length % 4 = 0 →
    (revLongs b).length = b.length ∧ revLongs (revLongs b) = b
  | [], _ => by simp [revLongs, chunk4]
  | [_], h => by simp at h
  | [_, _], h => by simp at h
  | [_, _, _], h => by simp at h
  | a :: b :: c :: d :: rest, h => by
    have h' : rest.length % 4 = 0 := by simp at h; omega
    obtain ⟨i1, i2⟩ := revLongs_spec rest h'
    have e : revLongs (a :: b :: c :: d :: rest) = d :: c :: b :: a :: revLongs rest := by
      simp [revLongs, chunk4]
    rw [e]
    constructor
    · simp [i1]
    · have e' : revLongs (d :: c :: b :: a :: revLongs rest) = a :: b :: c :: d :: revLongs (revLongs rest) := by
        simp [revLongs, chunk4]
      rw [e', i2]

theorem swapPairs_spec : ∀ (b : Bytes), (swapPairs b).length = b.length ∧ swapPairs (swapPairs b) = b
  | [] => by simp [swapPairs]
  | [_] => by simp [swapPairs]
  | a :: b :: rest => by
    obtain ⟨i1, i2⟩ := swapPairs_spec rest
    simp [swapPairs, i1, i2]

/-! ### padding -/

theorem alignNat_spec (n a : Nat) (ha : 0 < a) :
    alignNat n a % a = 0 ∧ n ≤ alignNat n a ∧ alignNat n a < n + a := by
  unfold alignNat
  refine ⟨Nat.mul_mod_left _ _, ?_, ?_⟩
  all_goals
    have e := Nat.mod_add_div (n + (a - 1)) a
    have l := Nat.mod_lt (n + (a - 1)) ha
    rw [Nat.mul_comm] at e
    omega

theorem cycleTake_length (p : Bytes) (n i : Nat) : (cycleTake p n i).length = n := by
  induction n generalizing i with
  | zero => rfl
  | succ n ih => simp [cycleTake, ih]

/-! ### BCD -/

theorem bcd_char (d : Nat) (h : d ≤ 9) :
    (decide ('0' ≤ Char.ofNat (48 + d)) && decide (Char.ofNat (48 + d) ≤ '9')) = true ∧
      (Char.ofNat (48 + d)).toNat - 48 = d := by
  have : ∀ k : Fin 10, (decide ('0' ≤ Char.ofNat (48 + k.val)) && decide (Char.ofNat (48 + k.val) ≤ '9')) = true ∧
      (Char.ofNat (48 + k.val)).toNat - 48 = k.val := by decide
  exact this ⟨d, by omega⟩

theorem bcd_foldl (L : List Nat) (hL : ∀ d ∈ L, d ≤ 9) (acc : Nat) :
    (L.map (fun d => Char.ofNat (48 + d))).foldl (fun acc c => acc * 16 + (c.toNat - 48)) acc =
      L.foldl (fun acc d => acc * 16 + d) acc := by
  induction L generalizing acc with
  | nil => rfl
  | cons d L ih =>
    simp only [List.map_cons, List.foldl_cons, (bcd_char d (hL d (by simp))).2]
    exact ih (fun x hx => hL x (by simp [hx])) _

theorem bcdFromDigits_map (L : List Nat) (hlen : L.length ≤ 4) (hL : ∀ d ∈ L, d ≤ 9) :
    bcdFromDigits (L.map (fun d => Char.ofNat (48 + d))) = .ok (L.foldl (fun acc d => acc * 16 + d) 0) := by
  have h1 : ¬ (L.map (fun d => Char.ofNat (48 + d))).length > 4 := by simp; omega
  have h2 : (L.map (fun d => Char.ofNat (48 + d))).all (fun c => decide ('0' ≤ c) && decide (c ≤ '9')) = true := by
    rw [List.all_eq_true]
    intro c hc
    obtain ⟨d, hd, rfl⟩ := List.mem_map.1 hc
    exact (bcd_char d (hL d hd)).1
  unfold bcdFromDigits
  rw [if_neg h1, if_pos h2, bcd_foldl L hL]

theorem bcd_roundtrip' (n : Nat) (h : bcdDigitOk n = true) :
    bcdFromDigits (bcdToDigits n) = .ok n := by
  simp only [bcdDigitOk, Bool.and_eq_true, decide_eq_true_eq] at h
  obtain ⟨⟨⟨⟨h0, h1⟩, h2⟩, h3⟩, h4⟩ := h
  simp only [bcdToDigits]
  generalize hL : (if (List.dropWhile (· == 0) [n / 4096 % 16, n / 256 % 16, n / 16 % 16, n % 16]).isEmpty then [0]
      else List.dropWhile (· == 0) [n / 4096 % 16, n / 256 % 16, n / 16 % 16, n % 16]) = L
  have hcases : L = [n / 4096 % 16, n / 256 % 16, n / 16 % 16, n % 16] ∨
      (n / 4096 % 16 = 0 ∧ L = [n / 256 % 16, n / 16 % 16, n % 16]) ∨
      (n / 4096 % 16 = 0 ∧ n / 256 % 16 = 0 ∧ L = [n / 16 % 16, n % 16]) ∨
      (n / 4096 % 16 = 0 ∧ n / 256 % 16 = 0 ∧ n / 16 % 16 = 0 ∧ L = [n % 16]) := by
    rw [← hL]
    by_cases e4 : n / 4096 % 16 = 0
    · by_cases e3 : n / 256 % 16 = 0
      · by_cases e2 : n / 16 % 16 = 0
        · by_cases e1 : n % 16 = 0
          · simp [e4, e3, e2, e1]
          · simp [e4, e3, e2, e1]
        · simp [e4, e3, e2]
      · simp [e4, e3]
    · simp [e4]
  rcases hcases with h | ⟨e4, h⟩ | ⟨e4, e3, h⟩ | ⟨e4, e3, e2, h⟩ <;> subst h
  all_goals
    rw [bcdFromDigits_map _ (by simp) (by simp; omega)]
    simp
    omega

end SpsdkVerif.Misc
