/- Helper lemmas for Properties/C20.lean (may import single Mathlib modules). -/
import SpsdkVerif.Generated.PyFuns
import SpsdkVerif.Model.Misc

namespace SpsdkVerif.Misc
open SpsdkVerif SpsdkVerif.Generated.PyFuns

/-! ### Python integer operators on non-negative operands -/

theorem pyShl_nat (a : Nat) (b : Int) : pyShl (a : Int) b = ((a <<< b.toNat : Nat) : Int) := by
  simp [pyShl]
theorem pyShr_nat (a : Nat) (b : Int) : pyShr (a : Int) b = ((a >>> b.toNat : Nat) : Int) := by
  simp [pyShr]
theorem pyAnd_nat (a : Nat) (b : Int) : pyAnd (a : Int) b = ((a &&& b.toNat : Nat) : Int) := by
  simp [pyAnd]
theorem pyOr_nat (a b : Nat) : pyOr (a : Int) (b : Int) = ((a ||| b : Nat) : Int) := by
  simp [pyOr]

theorem memId_nat (d g : Nat) (hd : d < 256) (hg : g < 16) :
    let m := ((g <<< 8) &&& 3840) ||| ((d <<< 0) &&& 255)
    ((m &&& 255) >>> 0 = d) ∧ ((m &&& 3840) >>> 8 = g) := by
  have e1 : (g <<< 8) &&& 3840 = g <<< 8 := by
    have : (3840 : Nat) = 15 <<< 8 := by decide
    rw [this, ← Nat.shiftLeft_and_distrib]
    have : (15 : Nat) = 2 ^ 4 - 1 := by decide
    rw [this, Nat.and_two_pow_sub_one_eq_mod, Nat.mod_eq_of_lt (by omega)]
  have e2 : (d <<< 0) &&& 255 = d := by
    have : (255 : Nat) = 2 ^ 8 - 1 := by decide
    rw [this, Nat.and_two_pow_sub_one_eq_mod, Nat.shiftLeft_zero, Nat.mod_eq_of_lt (by omega)]
  intro m
  have hm : m = g * 256 + d := by
    show ((g <<< 8) &&& 3840) ||| ((d <<< 0) &&& 255) = _
    rw [e1, e2, ← Nat.shiftLeft_add_eq_or_of_lt (by omega), Nat.shiftLeft_eq]
  rw [hm]
  constructor
  · have : (255 : Nat) = 2 ^ 8 - 1 := by decide
    rw [this, Nat.and_two_pow_sub_one_eq_mod, Nat.shiftRight_zero]; omega
  · rw [Nat.shiftRight_and_distrib]
    have : (3840 : Nat) >>> 8 = 2 ^ 4 - 1 := by decide
    rw [this, Nat.and_two_pow_sub_one_eq_mod, Nat.shiftRight_eq_div_pow]; omega

theorem swap16_nat (k : Nat) (h : k < 65536) :
    ((k <<< 8) &&& 65280) ||| ((k >>> 8) &&& 255) = k % 256 * 256 + k / 256 := by
  have e1 : (k <<< 8) &&& 65280 = (k % 256) <<< 8 := by
    have : (65280 : Nat) = 255 <<< 8 := by decide
    rw [this, ← Nat.shiftLeft_and_distrib]
    have : (255 : Nat) = 2 ^ 8 - 1 := by decide
    rw [this, Nat.and_two_pow_sub_one_eq_mod]
  have e2 : (k >>> 8) &&& 255 = k / 256 := by
    have : (255 : Nat) = 2 ^ 8 - 1 := by decide
    rw [this, Nat.and_two_pow_sub_one_eq_mod, Nat.shiftRight_eq_div_pow]
    omega
  rw [e1, e2, ← Nat.shiftLeft_add_eq_or_of_lt (by omega), Nat.shiftLeft_eq]

/-! ### integer <-> bytes -/

theorem beEnc_length' (n v : Nat) : (beEnc n v).length = n := by
  induction n generalizing v with
  | zero => simp [beEnc]
  | succ n ih => simp [beEnc, ih]

theorem beDec_append_single (l : Bytes) (x : UInt8) : beDec (l ++ [x]) = beDec l * 256 + x.toNat := by
  simp [beDec, List.foldl_append]

theorem beDec_beEnc_mod (n v : Nat) : beDec (beEnc n v) = v % 256 ^ n := by
  induction n generalizing v with
  | zero => simp [beEnc, beDec, Nat.mod_one]
  | succ n ih =>
    rw [beEnc, beDec_append_single, ih, UInt8.toNat_ofNat']
    have hp : 256 ^ (n + 1) = 256 * 256 ^ n := by rw [Nat.pow_succ, Nat.mul_comm]
    rw [hp, Nat.mod_mul]
    generalize v / 256 % 256 ^ n = q
    omega

theorem byteLenF_zero (f : Nat) : byteLenF f 0 = 0 := by
  cases f <;> simp [byteLenF]

theorem byteLenF_min (f v : Nat) (h : v ≤ f) :
    v < 256 ^ byteLenF f v ∧ (0 < v → 256 ^ (byteLenF f v - 1) ≤ v) := by
  induction f generalizing v with
  | zero =>
    have : v = 0 := by omega
    subst this; simp [byteLenF]
  | succ f ih =>
    by_cases hv : v = 0
    · subst hv; simp [byteLenF]
    · have h' : v / 256 ≤ f := by omega
      obtain ⟨i1, i2⟩ := ih (v / 256) h'
      simp only [byteLenF, hv, if_false]
      rw [Nat.add_comm 1, Nat.pow_succ, Nat.add_sub_cancel]
      refine ⟨by omega, fun _ => ?_⟩
      by_cases hq : v / 256 = 0
      · rw [hq, byteLenF_zero]; simp; omega
      · have := i2 (by omega)
        have hL : byteLenF f (v / 256) ≠ 0 := by
          intro e; rw [e] at i1; simp at i1; omega
        obtain ⟨L, hL'⟩ := Nat.exists_eq_succ_of_ne_zero hL
        rw [hL'] at this ⊢
        rw [Nat.pow_succ]
        simp at this
        omega

theorem byteLen_pos (v : Nat) (h : v ≠ 0) : 1 ≤ byteLen v := by
  unfold byteLen
  cases v with
  | zero => simp at h
  | succ n => simp [byteLenF]

theorem getBytesCnt_cases (v : Nat) (a2n : Bool) (bc : Nat)
    (hfit : a2n = true → 2 < byteLen v → byteLen v ≤ bc → (byteLen v + 3) / 4 * 4 ≤ bc) :
    (∃ n, getBytesCnt v a2n bc = .ok n ∧ v < 256 ^ n ∧ (bc ≠ 0 → n = bc))
    ∨ (getBytesCnt v a2n bc = .error .spsdk ∧ bc ≠ 0 ∧ 256 ^ bc ≤ v) := by
  by_cases hv : v = 0
  · subst hv
    left
    refine ⟨if bc = 0 then 1 else bc, by simp [getBytesCnt], Nat.pow_pos (by omega), ?_⟩
    intro h; simp [h]
  · obtain ⟨m1, m2⟩ := byteLenF_min v v (Nat.le_refl v)
    have m2 := m2 (by omega)
    have hpos := byteLen_pos v hv
    change v < 256 ^ byteLen v at m1
    change 256 ^ (byteLen v - 1) ≤ v at m2
    simp only [getBytesCnt, hv, if_false]
    generalize byteLen v = c0 at *
    generalize hc : (if (a2n && decide (c0 > 2)) = true then (c0 + 3) / 4 * 4 else c0) = c
    have hcc : c0 ≤ c := by
      rw [← hc]; split <;> omega
    by_cases hb : bc ≠ 0 ∧ c > bc
    · right
      rw [if_pos hb]
      refine ⟨rfl, hb.1, ?_⟩
      have : bc < c0 := by
        by_cases ha : (a2n && decide (c0 > 2)) = true
        · rw [if_pos ha] at hc
          simp at ha
          have := hfit ha.1 ha.2
          omega
        · rw [if_neg ha] at hc
          omega
      exact Nat.le_trans (Nat.pow_le_pow_right (by omega) (by omega)) m2
    · left
      rw [if_neg hb]
      refine ⟨_, rfl, ?_, fun h => by simp [h]⟩
      refine Nat.lt_of_lt_of_le m1 (Nat.pow_le_pow_right (by omega) ?_)
      split <;> omega

/-! ### digit groups -/

section Groups
variable (split : List Char → List (List Char))
  (h_nil : split [] = [[]])
  (h_cons : ∀ c cs, split (c :: cs) =
    if c == '_' then [] :: split cs
    else match split cs with
      | g :: gs => (c :: g) :: gs
      | [] => [[c]])
include h_nil h_cons

theorem split_ne_nil (s : List Char) : split s ≠ [] := by
  cases s with
  | nil => simp [h_nil]
  | cons c cs =>
    rw [h_cons]
    split
    · simp
    · split <;> simp

theorem digitsValue_gen (base : Nat) (s : List Char) (p : Bool) (acc : Nat) :
    digitsValue base s p acc =
      match split s with
      | [] => none
      | g :: gs =>
        if (!p || !g.isEmpty) && g.all (fun c => decide (digitVal c < base))
            && gs.all (fun g => !g.isEmpty && g.all (fun c => decide (digitVal c < base)))
        then some ((s.filter (· != '_')).foldl (fun acc c => acc * base + digitVal c) acc)
        else none := by
  induction s generalizing p acc with
  | nil => cases p <;> simp [digitsValue, h_nil]
  | cons c cs ih =>
    have hne := split_ne_nil split h_nil h_cons cs
    rw [h_cons, digitsValue]
    by_cases hc : c = '_'
    · subst hc
      simp only [beq_self_eq_true, if_true]
      cases p
      · rw [ih]
        cases hs : split cs with
        | nil => exact absurd hs hne
        | cons g gs => simp
      · simp
    · have hc' : (c == '_') = false := by simp [hc]
      simp only [hc', if_false, Bool.false_eq_true]
      rw [ih]
      cases hs : split cs with
      | nil => exact absurd hs hne
      | cons g gs =>
        by_cases hd : digitVal c < base
        · simp [hd, hc]
        · simp [hd]

theorem digitsValue_groups_gen (base : Nat) (s : List Char) (hs : s ≠ []) :
    (if s.head? = some '_' then none else digitsValue base s false 0) =
      if (split s).all (fun g => !g.isEmpty && g.all (fun c => decide (digitVal c < base)))
      then some ((s.filter (· != '_')).foldl (fun acc c => acc * base + digitVal c) 0) else none := by
  cases s with
  | nil => exact absurd rfl hs
  | cons c cs =>
    have hne := split_ne_nil split h_nil h_cons cs
    rw [digitsValue_gen split h_nil h_cons, h_cons]
    by_cases hc : c = '_'
    · subst hc; simp
    · have hc' : (c == '_') = false := by simp [hc]
      simp only [hc', if_false, Bool.false_eq_true]
      cases hs : split cs with
      | nil => exact absurd hs hne
      | cons g gs => simp [hc]

end Groups

end SpsdkVerif.Misc
