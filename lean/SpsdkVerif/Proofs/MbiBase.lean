/-
Helper lemmas for the MBI model (C01/C02): byte-level facts (le32/rd32/setAt/align4), the IVT normal forms, the flag
word, the relocation table round trip, class-level consequences of `ClassWF` (closed forms of the length sums) and the
hypothesis bundle `Hyp`.  The per-family image theorems are in Proofs/MbiPlain|SignedV1|SignedV21|Encrypted.lean.
-/
import SpsdkVerif.Model.Mbi
import SpsdkVerif.Proofs.Misc
import SpsdkVerif.Proofs.Crypto

namespace SpsdkVerif.Mbi
open SpsdkVerif SpsdkVerif.Misc SpsdkVerif.Crypto
open SpsdkVerif.Generated.IvtConsts
open SpsdkVerif.Generated.MbiClasses (MixinName Method Attr provider attrs preParsed isData parent countInLegacyCertBlockLen)

/-- hypotheses shared by the image theorems -/
structure Hyp (co : CryptoOps) (env : Env) (c : Cls) (cfg : Cfg) (signer : Signer) : Prop where
  hlaws : CryptoLaws co
  hcls : ClassWF c = true
  hcfg : cfgWF c cfg = true
  henv : EnvOK env c cfg
  hsig : ∀ m, (signer m).length = cfg.sigLen

/-! ### bytes -/

theorem le32_length (v : Nat) : (le32 v).length = 4 := by
  simp [le32, leEnc, beEnc_length']

theorem zeros_length (n : Nat) : (zeros n).length = n := by simp [zeros]

theorem leDec_le32 (v : Nat) (h : v < 2 ^ 32) : leDec (le32 v) = v := by
  simp only [leDec, le32, leEnc, List.reverse_reverse, beDec_beEnc_mod]
  exact Nat.mod_eq_of_lt (by omega)

/-- `rd32` only looks at the four bytes at the offset -/
theorem rd32_of_window (b : Bytes) (off : Nat) (w : Bytes) (h : (b.drop off).take 4 = w) : rd32 b off = leDec w := by
  simp [rd32, h]

theorem window_append_mid (pre w post : Bytes) (n : Nat) (hn : w.length = n) :
    ((pre ++ w ++ post).drop pre.length).take n = w := by
  rw [List.append_assoc, List.drop_left, List.take_left' hn]

theorem rd32_append_le32 (pre post : Bytes) (v : Nat) (h : v < 2 ^ 32) :
    rd32 (pre ++ le32 v ++ post) pre.length = v := by
  rw [rd32_of_window _ _ _ (window_append_mid pre (le32 v) post 4 (le32_length v)), leDec_le32 v h]

theorem rd32_append_left (a b : Bytes) (off : Nat) (h : off + 4 ≤ a.length) : rd32 (a ++ b) off = rd32 a off := by
  unfold rd32
  rw [List.drop_append_of_le_length (by omega), List.take_append_of_le_length (by simp; omega)]

theorem rd32_append_right (a b : Bytes) (off : Nat) : rd32 (a ++ b) (a.length + off) = rd32 b off := by
  unfold rd32
  rw [List.drop_append, List.drop_of_length_le (by omega), List.nil_append]
  congr 3; omega

theorem leDec_zeros4 : leDec (zeros 4) = 0 := by decide

theorem rd32_zeros (pre post : Bytes) : rd32 (pre ++ zeros 4 ++ post) pre.length = 0 := by
  rw [rd32_of_window _ _ _ (window_append_mid pre (zeros 4) post 4 (zeros_length 4)), leDec_zeros4]

theorem setAt_length (b w : Bytes) (off : Nat) (h : off + w.length ≤ b.length) : (setAt b off w).length = b.length := by
  simp [setAt]; omega

theorem align4_length (b : Bytes) : (align4 b).length = b.length + (4 - b.length % 4) % 4 := by
  simp [align4]

theorem align4_length_mod (b : Bytes) : (align4 b).length % 4 = 0 := by
  rw [align4_length]; omega
theorem align4_length_ge (b : Bytes) : b.length ≤ (align4 b).length := by
  rw [align4_length]; omega
theorem align4_of_aligned (b : Bytes) (h : b.length % 4 = 0) : align4 b = b := by
  simp [align4, h, zeros]
theorem align4_take (b : Bytes) : (align4 b).take b.length = b := by
  simp [align4]


/-! ### list-level normal forms -/

theorem slice_length (b : Bytes) (i j : Nat) : (slice b i j).length = min j b.length - i := by
  simp [slice]

/-- replacing a block of the same length in the middle -/
theorem setAt_mid (pre old post w : Bytes) (off : Nat) (hoff : pre.length = off) (hw : old.length = w.length) :
    setAt (pre ++ old ++ post) off w = pre ++ w ++ post := by
  subst hoff
  unfold setAt
  have e1 : (pre ++ old ++ post).take pre.length = pre := by rw [List.append_assoc, List.take_left]
  have e2 : (pre ++ old ++ post).drop (pre.length + w.length) = post := List.drop_left' (by simp [hw])
  rw [e1, e2]

/-- any data of at least 56 bytes, cut at the IVT fields -/
theorem ivt_split (app : Bytes) (h : 56 ≤ app.length) :
    ∃ A W1 W2 W3 M W4 R : Bytes, app = A ++ W1 ++ W2 ++ W3 ++ M ++ W4 ++ R ∧ A.length = 32 ∧ W1.length = 4
      ∧ W2.length = 4 ∧ W3.length = 4 ∧ M.length = 8 ∧ W4.length = 4 := by
  refine ⟨app.take 32, slice app 32 36, slice app 36 40, slice app 40 44, slice app 44 52, slice app 52 56, app.drop 56,
    ?_, ?_, ?_, ?_, ?_, ?_, ?_⟩
  · apply List.ext_getElem?
    intro i
    simp only [slice, List.getElem?_append, List.getElem?_take, List.getElem?_drop, List.length_append, List.length_take,
      List.length_drop]
    repeat' split
    all_goals first | rfl | omega | (congr 1; omega)
  all_goals simp [slice] <;> omega

structure IvtPieces (A W1 W2 W3 M W4 : Bytes) : Prop where
  hA : A.length = 32
  h1 : W1.length = 4
  h2 : W2.length = 4
  h3 : W3.length = 4
  hM : M.length = 8
  h4 : W4.length = 4

section pieces
variable {A W1 W2 W3 M W4 : Bytes} (R : Bytes) (p : IvtPieces A W1 W2 W3 M W4)
include p

theorem IvtPieces.take32 : (A ++ W1 ++ W2 ++ W3 ++ M ++ W4 ++ R).take 32 = A := by
  simp only [List.append_assoc]; exact List.take_left' p.hA

theorem IvtPieces.drop56 : (A ++ W1 ++ W2 ++ W3 ++ M ++ W4 ++ R).drop 56 = R := by
  exact List.drop_left' (by simp [p.hA, p.h1, p.h2, p.h3, p.hM, p.h4])

theorem IvtPieces.slice4452 : slice (A ++ W1 ++ W2 ++ W3 ++ M ++ W4 ++ R) 44 52 = M := by
  unfold slice
  have e : A ++ W1 ++ W2 ++ W3 ++ M ++ W4 ++ R = (A ++ W1 ++ W2 ++ W3 ++ M) ++ (W4 ++ R) := by simp
  rw [e, List.take_left' (by simp [p.hA, p.h1, p.h2, p.h3, p.hM]), List.drop_left' (by simp [p.hA, p.h1, p.h2, p.h3])]

theorem IvtPieces.win32 : ((A ++ W1 ++ W2 ++ W3 ++ M ++ W4 ++ R).drop 32).take 4 = W1 := by
  have := window_append_mid A W1 (W2 ++ W3 ++ M ++ W4 ++ R) 4 p.h1
  simpa [p.hA] using this
theorem IvtPieces.win36 : ((A ++ W1 ++ W2 ++ W3 ++ M ++ W4 ++ R).drop 36).take 4 = W2 := by
  have := window_append_mid (A ++ W1) W2 (W3 ++ M ++ W4 ++ R) 4 p.h2
  simpa [p.hA, p.h1] using this
theorem IvtPieces.win40 : ((A ++ W1 ++ W2 ++ W3 ++ M ++ W4 ++ R).drop 40).take 4 = W3 := by
  have := window_append_mid (A ++ W1 ++ W2) W3 (M ++ W4 ++ R) 4 p.h3
  simpa [p.hA, p.h1, p.h2] using this
theorem IvtPieces.win52 : ((A ++ W1 ++ W2 ++ W3 ++ M ++ W4 ++ R).drop 52).take 4 = W4 := by
  have := window_append_mid (A ++ W1 ++ W2 ++ W3 ++ M) W4 R 4 p.h4
  simpa [p.hA, p.h1, p.h2, p.h3, p.hM] using this

theorem IvtPieces.set32 (w : Bytes) (hw : w.length = 4) :
    setAt (A ++ W1 ++ W2 ++ W3 ++ M ++ W4 ++ R) 32 w = A ++ w ++ W2 ++ W3 ++ M ++ W4 ++ R := by
  have := setAt_mid A W1 (W2 ++ W3 ++ M ++ W4 ++ R) w 32 p.hA (by rw [p.h1, hw])
  simpa using this
theorem IvtPieces.set36 (w : Bytes) (hw : w.length = 4) :
    setAt (A ++ W1 ++ W2 ++ W3 ++ M ++ W4 ++ R) 36 w = A ++ W1 ++ w ++ W3 ++ M ++ W4 ++ R := by
  have := setAt_mid (A ++ W1) W2 (W3 ++ M ++ W4 ++ R) w 36 (by simp [p.hA, p.h1]) (by rw [p.h2, hw])
  simpa using this
theorem IvtPieces.set40 (w : Bytes) (hw : w.length = 4) :
    setAt (A ++ W1 ++ W2 ++ W3 ++ M ++ W4 ++ R) 40 w = A ++ W1 ++ W2 ++ w ++ M ++ W4 ++ R := by
  have := setAt_mid (A ++ W1 ++ W2) W3 (M ++ W4 ++ R) w 40 (by simp [p.hA, p.h1, p.h2]) (by rw [p.h3, hw])
  simpa using this
theorem IvtPieces.set52 (w : Bytes) (hw : w.length = 4) :
    setAt (A ++ W1 ++ W2 ++ W3 ++ M ++ W4 ++ R) 52 w = A ++ W1 ++ W2 ++ W3 ++ M ++ w ++ R := by
  have := setAt_mid (A ++ W1 ++ W2 ++ W3 ++ M) W4 R w 52 (by simp [p.hA, p.h1, p.h2, p.h3, p.hM]) (by rw [p.h4, hw])
  simpa using this

theorem IvtPieces.w1 (w : Bytes) (hw : w.length = 4) : IvtPieces A w W2 W3 M W4 := { p with h1 := hw }
theorem IvtPieces.w2 (w : Bytes) (hw : w.length = 4) : IvtPieces A W1 w W3 M W4 := { p with h2 := hw }
theorem IvtPieces.w3 (w : Bytes) (hw : w.length = 4) : IvtPieces A W1 W2 w M W4 := { p with h3 := hw }
theorem IvtPieces.w4 (w : Bytes) (hw : w.length = 4) : IvtPieces A W1 W2 W3 M w := { p with h4 := hw }

end pieces


/-! ### IVT normal forms (for data of at least 56 bytes) -/

theorem updateIvt_pieces {A W1 W2 W3 M W4 : Bytes} (R : Bytes) (p : IvtPieces A W1 W2 W3 M W4) (c : Cls) (cfg : Cfg)
    (total crcOff : Nat) :
    updateIvt c cfg (A ++ W1 ++ W2 ++ W3 ++ M ++ W4 ++ R) total crcOff
      = A ++ le32 (if c.zeroTotalLength then 0 else total) ++ le32 (flagsOf c cfg)
          ++ le32 (if c.imageType = 0 then 0 else crcOff) ++ M
          ++ le32 (if c.hasAttr .load_address then cfg.loadAddress else 0) ++ R := by
  simp only [updateIvt, ivtImageFlagsOffset, ivtImageLengthOffset, ivtCrcCertificateOffset, ivtLoadAddrOffset]
  rw [p.set36 R _ (le32_length _)]
  have p := p.w2 _ (le32_length (flagsOf c cfg))
  rw [p.set32 R _ (le32_length _)]
  have p := p.w1 _ (le32_length (if c.zeroTotalLength then 0 else total))
  rw [p.set40 R _ (le32_length _)]
  have p := p.w3 _ (le32_length (if c.imageType = 0 then 0 else crcOff))
  rw [p.set52 R _ (le32_length _)]

theorem cleanIvt_pieces {A W1 W2 W3 M W4 : Bytes} (R : Bytes) (p : IvtPieces A W1 W2 W3 M W4) :
    cleanIvt (A ++ W1 ++ W2 ++ W3 ++ M ++ W4 ++ R) = A ++ zeros 4 ++ zeros 4 ++ zeros 4 ++ M ++ zeros 4 ++ R := by
  simp only [cleanIvt, ivtImageFlagsOffset, ivtImageLengthOffset, ivtCrcCertificateOffset, ivtLoadAddrOffset]
  rw [p.set32 R _ (zeros_length _)]
  have p := p.w1 _ (zeros_length 4)
  rw [p.set36 R _ (zeros_length _)]
  have p := p.w2 _ (zeros_length 4)
  rw [p.set40 R _ (zeros_length _)]
  have p := p.w3 _ (zeros_length 4)
  rw [p.set52 R _ (zeros_length _)]

theorem zeros12 : zeros 12 = zeros 4 ++ zeros 4 ++ zeros 4 := by decide

theorem updateIvt_eq (c : Cls) (cfg : Cfg) (app : Bytes) (total crcOff : Nat) (h : minIvtSize ≤ app.length) :
    updateIvt c cfg app total crcOff
      = app.take 32 ++ le32 (if c.zeroTotalLength then 0 else total) ++ le32 (flagsOf c cfg)
          ++ le32 (if c.imageType = 0 then 0 else crcOff) ++ slice app 44 52
          ++ le32 (if c.hasAttr .load_address then cfg.loadAddress else 0) ++ app.drop 56 := by
  obtain ⟨A, W1, W2, W3, M, W4, R, rfl, hA, h1, h2, h3, hM, h4⟩ := ivt_split app (by simpa [minIvtSize] using h)
  have p : IvtPieces A W1 W2 W3 M W4 := ⟨hA, h1, h2, h3, hM, h4⟩
  rw [updateIvt_pieces R p, p.take32, p.slice4452, p.drop56]

theorem cleanIvt_eq (app : Bytes) (h : minIvtSize ≤ app.length) :
    cleanIvt app = app.take 32 ++ zeros 12 ++ slice app 44 52 ++ zeros 4 ++ app.drop 56 := by
  obtain ⟨A, W1, W2, W3, M, W4, R, rfl, hA, h1, h2, h3, hM, h4⟩ := ivt_split app (by simpa [minIvtSize] using h)
  have p : IvtPieces A W1 W2 W3 M W4 := ⟨hA, h1, h2, h3, hM, h4⟩
  rw [cleanIvt_pieces R p, p.take32, p.slice4452, p.drop56, zeros12]
  simp only [List.append_assoc]

theorem updateIvt_length (c : Cls) (cfg : Cfg) (app : Bytes) (total crcOff : Nat) (h : minIvtSize ≤ app.length) :
    (updateIvt c cfg app total crcOff).length = app.length := by
  obtain ⟨A, W1, W2, W3, M, W4, R, rfl, hA, h1, h2, h3, hM, h4⟩ := ivt_split app (by simpa [minIvtSize] using h)
  have p : IvtPieces A W1 W2 W3 M W4 := ⟨hA, h1, h2, h3, hM, h4⟩
  rw [updateIvt_pieces R p]
  simp [le32_length, h1, h2, h3, h4]

theorem cleanIvt_length (app : Bytes) (h : minIvtSize ≤ app.length) : (cleanIvt app).length = app.length := by
  obtain ⟨A, W1, W2, W3, M, W4, R, rfl, hA, h1, h2, h3, hM, h4⟩ := ivt_split app (by simpa [minIvtSize] using h)
  have p : IvtPieces A W1 W2 W3 M W4 := ⟨hA, h1, h2, h3, hM, h4⟩
  rw [cleanIvt_pieces R p]
  simp [h1, h2, h3, h4]

theorem cleanIvt_updateIvt (c : Cls) (cfg : Cfg) (app : Bytes) (total crcOff : Nat) (h : minIvtSize ≤ app.length) :
    cleanIvt (updateIvt c cfg app total crcOff) = cleanIvt app := by
  obtain ⟨A, W1, W2, W3, M, W4, R, rfl, hA, h1, h2, h3, hM, h4⟩ := ivt_split app (by simpa [minIvtSize] using h)
  have p : IvtPieces A W1 W2 W3 M W4 := ⟨hA, h1, h2, h3, hM, h4⟩
  rw [updateIvt_pieces R p, cleanIvt_pieces R p,
    cleanIvt_pieces R ⟨hA, le32_length _, le32_length _, le32_length _, hM, le32_length _⟩]

/-- `update_ivt` of a cleaned application is `update_ivt` of the application -/
theorem updateIvt_cleanIvt (c : Cls) (cfg : Cfg) (app : Bytes) (total crcOff : Nat) (h : minIvtSize ≤ app.length) :
    updateIvt c cfg (cleanIvt app) total crcOff = updateIvt c cfg app total crcOff := by
  obtain ⟨A, W1, W2, W3, M, W4, R, rfl, hA, h1, h2, h3, hM, h4⟩ := ivt_split app (by simpa [minIvtSize] using h)
  have p : IvtPieces A W1 W2 W3 M W4 := ⟨hA, h1, h2, h3, hM, h4⟩
  rw [cleanIvt_pieces R p, updateIvt_pieces R p,
    updateIvt_pieces R ⟨hA, zeros_length _, zeros_length _, zeros_length _, hM, zeros_length _⟩]

theorem updateIvt_words (c : Cls) (cfg : Cfg) (app : Bytes) (total crcOff : Nat) (h : minIvtSize ≤ app.length)
    (hf : flagsOf c cfg < 2 ^ 32) (ht : total < 2 ^ 32) (ho : crcOff < 2 ^ 32) (hl : cfg.loadAddress < 2 ^ 32) :
    let u := updateIvt c cfg app total crcOff
    rd32 u ivtImageLengthOffset = (if c.zeroTotalLength then 0 else total)
    ∧ rd32 u ivtImageFlagsOffset = flagsOf c cfg
    ∧ rd32 u ivtCrcCertificateOffset = (if c.imageType = 0 then 0 else crcOff)
    ∧ rd32 u ivtLoadAddrOffset = (if c.hasAttr .load_address then cfg.loadAddress else 0) := by
  obtain ⟨A, W1, W2, W3, M, W4, R, rfl, hA, h1, h2, h3, hM, h4⟩ := ivt_split app (by simpa [minIvtSize] using h)
  have p : IvtPieces A W1 W2 W3 M W4 := ⟨hA, h1, h2, h3, hM, h4⟩
  have q : IvtPieces A (le32 (if c.zeroTotalLength then 0 else total)) (le32 (flagsOf c cfg))
      (le32 (if c.imageType = 0 then 0 else crcOff)) M (le32 (if c.hasAttr .load_address then cfg.loadAddress else 0)) :=
    ⟨hA, le32_length _, le32_length _, le32_length _, hM, le32_length _⟩
  intro u
  have hu : u = _ := updateIvt_pieces R p c cfg total crcOff
  simp only [ivtImageFlagsOffset, ivtImageLengthOffset, ivtCrcCertificateOffset, ivtLoadAddrOffset]
  rw [hu]
  refine ⟨?_, ?_, ?_, ?_⟩
  · rw [rd32_of_window _ _ _ (q.win32 R), leDec_le32]; split <;> omega
  · rw [rd32_of_window _ _ _ (q.win36 R), leDec_le32]; exact hf
  · rw [rd32_of_window _ _ _ (q.win40 R), leDec_le32]; split <;> omega
  · rw [rd32_of_window _ _ _ (q.win52 R), leDec_le32]; split <;> omega

theorem updateIvt_frame (c : Cls) (cfg : Cfg) (app : Bytes) (total crcOff : Nat) (h : minIvtSize ≤ app.length) :
    (updateIvt c cfg app total crcOff).length = app.length
    ∧ ∀ i, ¬ (32 ≤ i ∧ i < 44) → ¬ (52 ≤ i ∧ i < 56) → (updateIvt c cfg app total crcOff)[i]? = app[i]? := by
  refine ⟨updateIvt_length c cfg app total crcOff h, ?_⟩
  obtain ⟨A, W1, W2, W3, M, W4, R, rfl, hA, h1, h2, h3, hM, h4⟩ := ivt_split app (by simpa [minIvtSize] using h)
  have p : IvtPieces A W1 W2 W3 M W4 := ⟨hA, h1, h2, h3, hM, h4⟩
  intro i hi1 hi2
  rw [updateIvt_pieces R p]
  simp only [List.getElem?_append, List.length_append, le32_length, hA, h1, h2, h3, hM, h4]
  repeat' split
  all_goals first | rfl | omega

/-- the header words of an image that starts with an updated IVT (whatever follows) -/
theorem rd32_updateIvt_append (c : Cls) (cfg : Cfg) (app rest : Bytes) (total crcOff off : Nat)
    (h : minIvtSize ≤ app.length) (ho : off + 4 ≤ 56) :
    rd32 (updateIvt c cfg app total crcOff ++ rest) off = rd32 (updateIvt c cfg app total crcOff) off := by
  apply rd32_append_left
  rw [updateIvt_length c cfg app total crcOff h]
  simp only [minIvtSize] at h; omega

/-! ### the flag word (generated `createFlags` and getters) -/

/-- the flag word as a sum of disjoint fields -/
theorem flags_arith (t sub vf tab hw tz ks ver : Nat) (ht : t < 64) (hsub : sub < 4) (hvf : vf < 2) (htab : tab < 2)
    (hhw : hw < 2) (htz : tz < 4) (hks : ks < 2) :
    t ||| tz <<< 13 ||| sub <<< 6 ||| hw <<< 12 ||| ks <<< 15 ||| tab <<< 11 ||| vf <<< 10 ||| ver <<< 16
      = t + sub * 64 + vf * 1024 + tab * 2048 + hw * 4096 + tz * 8192 + ks * 32768 + ver * 65536 := by
  have e : t ||| tz <<< 13 ||| sub <<< 6 ||| hw <<< 12 ||| ks <<< 15 ||| tab <<< 11 ||| vf <<< 10 ||| ver <<< 16
      = ver <<< 16 ||| (ks <<< 15 ||| (tz <<< 13 ||| (hw <<< 12 ||| (tab <<< 11 ||| (vf <<< 10 ||| (sub <<< 6 ||| t)))))) := by
    ac_rfl
  rw [e]
  have b1 : sub <<< 6 + t < 2 ^ 10 := by rw [Nat.shiftLeft_eq]; omega
  rw [← Nat.shiftLeft_add_eq_or_of_lt (i := 6) (by omega) sub]
  have b2 : vf <<< 10 + (sub <<< 6 + t) < 2 ^ 11 := by rw [Nat.shiftLeft_eq vf] ; omega
  rw [← Nat.shiftLeft_add_eq_or_of_lt b1 vf]
  have b3 : tab <<< 11 + (vf <<< 10 + (sub <<< 6 + t)) < 2 ^ 12 := by rw [Nat.shiftLeft_eq tab] ; omega
  rw [← Nat.shiftLeft_add_eq_or_of_lt b2 tab]
  have b4 : hw <<< 12 + (tab <<< 11 + (vf <<< 10 + (sub <<< 6 + t))) < 2 ^ 13 := by rw [Nat.shiftLeft_eq hw] ; omega
  rw [← Nat.shiftLeft_add_eq_or_of_lt b3 hw]
  have b5 : tz <<< 13 + (hw <<< 12 + (tab <<< 11 + (vf <<< 10 + (sub <<< 6 + t)))) < 2 ^ 15 := by
    rw [Nat.shiftLeft_eq tz] ; omega
  rw [← Nat.shiftLeft_add_eq_or_of_lt b4 tz]
  have b6 : ks <<< 15 + (tz <<< 13 + (hw <<< 12 + (tab <<< 11 + (vf <<< 10 + (sub <<< 6 + t))))) < 2 ^ 16 := by
    rw [Nat.shiftLeft_eq ks] ; omega
  rw [← Nat.shiftLeft_add_eq_or_of_lt b5 ks, ← Nat.shiftLeft_add_eq_or_of_lt b6 ver]
  simp only [Nat.shiftLeft_eq]
  omega


/-! The proofs about the *generated* definitions (`createFlags`, the getters) do not depend on the syntactic shape of the
    generated bodies: the getters are evaluated bit by bit (`Nat.testBit` pushed through whatever `&&&`, `|||`, `>>>`,
    `<<<`, `/ 2^k`, `% 2^k` and literal masks the body has, the rest is propositional + linear arithmetic for `grind`),
    `createFlags` is normalised to an or of optional fields up to the order/orientation of the `|||`. -/

theorem ite_or_eq (c : Bool) (a x : Nat) : (if c then a ||| x else a) = a ||| (if c then x else 0) := by
  cases c <;> simp
theorem ite_or_eq' (c : Bool) (a x : Nat) : (if c then x ||| a else a) = a ||| (if c then x else 0) := by
  cases c <;> simp [Nat.or_comm]
theorem ite_zero_shiftLeft (c : Bool) (v k : Nat) : (if c then v else 0) <<< k = if c then v <<< k else 0 := by
  cases c <;> simp
theorem or_left_comm' (a b c : Nat) : a ||| (b ||| c) = b ||| (a ||| c) := by ac_rfl

/-- prove `<body of create_flags> = <or of fields>`: every `if c then flags ||| x else flags` (or `x ||| flags`) of the
    body becomes `flags ||| (if c then x else 0)`, then both sides agree up to the order of the `|||` (and of the `&&` in
    the conditions); last resort: split every condition -/
macro "mbi_flags_closed" : tactic => `(tactic| (
  simp only [ite_or_eq, ite_or_eq', ite_zero_shiftLeft, tzTypeShift, subTypeShift, imgVerShift, hwUserKeyEnFlag, keyStoreFlag,
    relocTableFlag, bootImageVersionFlag, Nat.reduceShiftLeft] <;>
  first
  | ac_rfl
  | (simp only [Nat.or_comm, Nat.or_assoc, or_left_comm', Bool.and_comm, Bool.and_assoc, Bool.and_left_comm]; done)
  | ((try simp only [Nat.or_comm, Nat.or_assoc, or_left_comm', Bool.and_comm, Bool.and_assoc, Bool.and_left_comm])
     (repeat' split) <;> (try simp_all) <;> ac_rfl)))

/-- `create_flags` as an or of (possibly zero) fields -/
theorem createFlags_closed (t tz sub ver ksLen : Nat) (hTz hSub hHw hw hKs ksSet hTab tab hVer hV2T v2t : Bool) :
    createFlags t hTz tz hSub sub hHw hw hKs ksSet ksLen hTab tab hVer ver hV2T v2t
      = t ||| (if hTz then tz else 0) <<< 13 ||| (if hSub then sub else 0) <<< 6
          ||| (if hHw && hw then 1 else 0) <<< 12 ||| (if hKs && ksSet && decide (ksLen > 0) then 1 else 0) <<< 15
          ||| (if hTab && tab then 1 else 0) <<< 11
          ||| (if hVer && (ver != 0) && hV2T && v2t then 1 else 0) <<< 10
          ||| (if hVer && (ver != 0) && hV2T && v2t then ver else 0) <<< 16 := by
  unfold createFlags
  mbi_flags_closed

theorem and_two_pow_eq (f k : Nat) : f &&& 2 ^ k = if f.testBit k then 2 ^ k else 0 := by
  apply Nat.eq_of_testBit_eq
  intro i
  rw [Nat.testBit_and, Nat.testBit_two_pow]
  by_cases h : k = i
  · subst h; cases hb : f.testBit k <;> simp
  · cases hb : f.testBit k <;> simp [h]

theorem and_two_pow_ne_zero (f k : Nat) : (f &&& 2 ^ k != 0) = decide (f / 2 ^ k % 2 = 1) := by
  rw [and_two_pow_eq, ← Nat.testBit_eq_decide_div_mod_eq]
  cases f.testBit k <;> simp

/-! bit tests of the literal masks -/
theorem testBit_lit1 (i : Nat) : Nat.testBit 1 i = decide (0 = i) := Nat.testBit_two_pow (n := 0) (m := i)
theorem testBit_lit3 (i : Nat) : Nat.testBit 3 i = decide (i < 2) := Nat.testBit_two_pow_sub_one 2 i
theorem testBit_lit63 (i : Nat) : Nat.testBit 63 i = decide (i < 6) := Nat.testBit_two_pow_sub_one 6 i
theorem testBit_lit65535 (i : Nat) : Nat.testBit 65535 i = decide (i < 16) := Nat.testBit_two_pow_sub_one 16 i
theorem testBit_lit1024 (i : Nat) : Nat.testBit 1024 i = decide (10 = i) := Nat.testBit_two_pow (n := 10) (m := i)
theorem testBit_lit2048 (i : Nat) : Nat.testBit 2048 i = decide (11 = i) := Nat.testBit_two_pow (n := 11) (m := i)
theorem testBit_lit4096 (i : Nat) : Nat.testBit 4096 i = decide (12 = i) := Nat.testBit_two_pow (n := 12) (m := i)
theorem testBit_lit32768 (i : Nat) : Nat.testBit 32768 i = decide (15 = i) := Nat.testBit_two_pow (n := 15) (m := i)

theorem div_mod_two_eq_one_iff (f k : Nat) : f / 2 ^ k % 2 = 1 ↔ f.testBit k = true := by
  rw [Nat.testBit_eq_decide_div_mod_eq, decide_eq_true_eq]

/-- unfold the generated constants and push `testBit` through the bit operations (goal and hypotheses) -/
macro "mbi_flag_bits_simp" : tactic => `(tactic| try simp only [imageTypeMask, tzTypeMask, tzTypeShift, imgVerMask,
  imgVerShift, subTypeMask, subTypeShift, bootImageVersionFlag, relocTableFlag, hwUserKeyEnFlag, keyStoreFlag,
  Nat.testBit_and, Nat.testBit_or, Nat.testBit_xor, Nat.testBit_shiftRight, Nat.testBit_shiftLeft,
  Nat.testBit_mod_two_pow, Nat.testBit_div_two_pow, Nat.testBit_two_pow, Nat.testBit_two_pow_sub_one, Nat.zero_testBit,
  testBit_lit1, testBit_lit3, testBit_lit63, testBit_lit65535, testBit_lit1024, testBit_lit2048, testBit_lit4096,
  testBit_lit32768, Nat.add_sub_cancel_left, Nat.add_sub_cancel] at *)

/-- `X = Y` for two bit expressions over the flag word: bit by bit -/
macro "mbi_flag_bits" : tactic => `(tactic| (apply Nat.eq_of_testBit_eq; intro i; (mbi_flag_bits_simp <;> grind)))

/-- turn Boolean comparisons of numbers into (in)equalities (goal and hypotheses) -/
macro "mbi_flag_cmp_simp" : tactic => `(tactic| try simp only [bne_iff_ne, ne_eq, beq_iff_eq, bne_eq_false_iff_eq,
  beq_eq_false_iff_ne, Bool.not_eq_true, Bool.not_eq_false, Bool.not_eq_eq_eq_not, Bool.not_true, Bool.not_false,
  decide_eq_true_eq, decide_eq_false_iff_not] at *)

/-- close `X = Y` or `¬ X = Y` between bit expressions; for `¬`, bit `k` (or bit 0) tells them apart -/
macro "mbi_flag_rel" k:term : tactic => `(tactic| first
  | (apply Nat.eq_of_testBit_eq; intro i; (mbi_flag_bits_simp <;> grind))
  | (intro h'; have h1 := congrArg (fun x => Nat.testBit x $k) h'; (mbi_flag_bits_simp <;> grind))
  | (intro h'; have h1 := congrArg (fun x => Nat.testBit x 0) h'; (mbi_flag_bits_simp <;> grind)))

/-- a Boolean getter (any comparison of a masked/shifted flag word with a number) is bit `k` of the flag word -/
macro "mbi_flag_bool" k:term : tactic => `(tactic| (
  rw [← Nat.testBit_eq_decide_div_mod_eq]
  cases hb : Nat.testBit _ $k <;> mbi_flag_cmp_simp <;> mbi_flag_rel $k))

/-- a field guarded by bit `k`: split the guard of the generated body (whatever its form and polarity) against bit `k` -/
macro "mbi_flag_guarded" k:term : tactic => `(tactic| (
  simp only [div_mod_two_eq_one_iff]
  cases hb : Nat.testBit _ $k <;> simp only [if_true, if_false, Bool.false_eq_true, ↓reduceIte] <;> split <;>
    rename_i hg <;> mbi_flag_cmp_simp <;>
    first
    | (apply Nat.eq_of_testBit_eq; intro i; (mbi_flag_bits_simp <;> grind))
    | (exfalso; revert hg; mbi_flag_rel $k)
    | (exfalso; apply hg; mbi_flag_rel $k)))

theorem getImageType_arith (f : Nat) : getImageType f = f % 64 := by
  show _ = f % 2 ^ 6
  unfold getImageType; mbi_flag_bits
theorem getTzType_arith (f : Nat) : getTzType f = f / 8192 % 4 := by
  show _ = f / 2 ^ 13 % 2 ^ 2
  unfold getTzType; mbi_flag_bits
theorem getSubType_arith (f : Nat) : getSubType f = f / 64 % 4 := by
  show _ = f / 2 ^ 6 % 2 ^ 2
  unfold getSubType; mbi_flag_bits
theorem getHwKeyEnabled_arith (f : Nat) : getHwKeyEnabled f = decide (f / 4096 % 2 = 1) := by
  show _ = decide (f / 2 ^ 12 % 2 = 1)
  unfold getHwKeyEnabled; mbi_flag_bool 12
theorem getKeyStorePresented_arith (f : Nat) : getKeyStorePresented f = decide (f / 32768 % 2 = 1) := by
  show _ = decide (f / 2 ^ 15 % 2 = 1)
  unfold getKeyStorePresented; mbi_flag_bool 15
theorem getAppTablePresented_arith (f : Nat) : getAppTablePresented f = decide (f / 2048 % 2 = 1) := by
  show _ = decide (f / 2 ^ 11 % 2 = 1)
  unfold getAppTablePresented; mbi_flag_bool 11
theorem getImageVersion_arith (f : Nat) : getImageVersion f = if f / 1024 % 2 = 1 then f / 65536 % 65536 else 0 := by
  show _ = if f / 2 ^ 10 % 2 = 1 then f / 2 ^ 16 % 2 ^ 16 else 0
  unfold getImageVersion; mbi_flag_guarded 10

/-! The getters in one fixed shape (mask/shift literals), whatever shape the generated bodies have: for proofs that
    compare them with another formulation of the same fields (use these instead of `rfl`/`unfold`). -/

theorem getImageType_shape (f : Nat) : getImageType f = f &&& 63 := by
  rw [getImageType_arith]; exact (Nat.and_two_pow_sub_one_eq_mod f 6).symm
theorem getTzType_shape (f : Nat) : getTzType f = (f >>> 13) &&& 3 := by
  rw [getTzType_arith, Nat.shiftRight_eq_div_pow]; exact (Nat.and_two_pow_sub_one_eq_mod _ 2).symm
theorem getSubType_shape (f : Nat) : getSubType f = (f >>> 6) &&& 3 := by
  rw [getSubType_arith, Nat.shiftRight_eq_div_pow]; exact (Nat.and_two_pow_sub_one_eq_mod _ 2).symm
theorem getHwKeyEnabled_shape (f : Nat) : getHwKeyEnabled f = (f &&& 4096 != 0) := by
  rw [getHwKeyEnabled_arith]; exact (and_two_pow_ne_zero f 12).symm
theorem getKeyStorePresented_shape (f : Nat) : getKeyStorePresented f = (f &&& 32768 != 0) := by
  rw [getKeyStorePresented_arith]; exact (and_two_pow_ne_zero f 15).symm
theorem getAppTablePresented_shape (f : Nat) : getAppTablePresented f = (f &&& 2048 != 0) := by
  rw [getAppTablePresented_arith]; exact (and_two_pow_ne_zero f 11).symm
theorem getImageVersion_shape (f : Nat) :
    getImageVersion f = if (f &&& 1024 != 0) = true then (f >>> 16) &&& 65535 else 0 := by
  have h : (f &&& 1024 != 0) = decide (f / 1024 % 2 = 1) := and_two_pow_ne_zero f 10
  have e : (f >>> 16) &&& 65535 = f / 65536 % 65536 := by
    rw [Nat.shiftRight_eq_div_pow]; exact Nat.and_two_pow_sub_one_eq_mod _ 16
  rw [getImageVersion_arith, h, e]
  simp only [decide_eq_true_eq]

theorem flags_sum_fields (t sub vf tab hw tz ks ver : Nat) (ht : t < 64) (hsub : sub < 4) (hvf : vf < 2) (htab : tab < 2)
    (hhw : hw < 2) (htz : tz < 4) (hks : ks < 2) (hver : ver < 65536) (f : Nat)
    (hf : f = t + sub * 64 + vf * 1024 + tab * 2048 + hw * 4096 + tz * 8192 + ks * 32768 + ver * 65536) :
    f % 64 = t ∧ f / 8192 % 4 = tz ∧ f / 64 % 4 = sub ∧ f / 4096 % 2 = hw ∧ f / 32768 % 2 = ks ∧ f / 2048 % 2 = tab
      ∧ f / 1024 % 2 = vf ∧ f / 65536 % 65536 = ver ∧ f < 2 ^ 32 := by
  subst hf
  refine ⟨?_, ?_, ?_, ?_, ?_, ?_, ?_, ?_, ?_⟩ <;> omega

theorem ite_one_zero_eq_one (b : Bool) : decide ((if b then 1 else 0 : Nat) = 1) = b := by cases b <;> simp

theorem flags_fields (t tz sub ver ksLen : Nat) (hTz hSub hHw hw hKs ksSet hTab tab hVer hV2T v2t : Bool)
    (ht : t ≤ imageTypeMask) (htz : tz ≤ tzTypeMask) (hsub : sub ≤ subTypeMask) (hver : ver ≤ imgVerMask) :
    let f := createFlags t hTz tz hSub sub hHw hw hKs ksSet ksLen hTab tab hVer ver hV2T v2t
    getImageType f = t ∧ getTzType f = (if hTz then tz else 0) ∧ getSubType f = (if hSub then sub else 0)
    ∧ getHwKeyEnabled f = (hHw && hw) ∧ getKeyStorePresented f = (hKs && ksSet && decide (ksLen > 0))
    ∧ getAppTablePresented f = (hTab && tab) ∧ getImageVersion f = (if hVer && hV2T && v2t then ver else 0)
    ∧ f < 2 ^ 32 := by
  intro f
  simp only [imageTypeMask, tzTypeMask, subTypeMask, imgVerMask] at ht htz hsub hver
  have hc : f = _ := createFlags_closed t tz sub ver ksLen hTz hSub hHw hw hKs ksSet hTab tab hVer hV2T v2t
  have hv6 : (if hVer && hV2T && v2t then ver else 0) = (if hVer && (ver != 0) && hV2T && v2t then ver else 0) := by
    by_cases hv : ver = 0
    · subst hv; simp
    · have : (ver != 0) = true := by simpa using hv
      simp [this]
  rw [hv6]
  generalize (hHw && hw) = b3 at hc ⊢
  generalize (hKs && ksSet && decide (ksLen > 0)) = b4 at hc ⊢
  generalize (hTab && tab) = b5 at hc ⊢
  generalize (hVer && (ver != 0) && hV2T && v2t) = b6 at hc ⊢
  have B1 : (if hTz then tz else 0) < 4 := by split <;> omega
  have B2 : (if hSub then sub else 0) < 4 := by split <;> omega
  have B3 : (if b3 then 1 else 0) < 2 := by split <;> omega
  have B4 : (if b4 then 1 else 0) < 2 := by split <;> omega
  have B5 : (if b5 then 1 else 0) < 2 := by split <;> omega
  have B6 : (if b6 then 1 else 0) < 2 := by split <;> omega
  have B7 : (if b6 then ver else 0) < 65536 := by split <;> omega
  rw [flags_arith _ _ _ _ _ _ _ _ (by omega) B2 B6 B5 B3 B1 B4] at hc
  obtain ⟨g1, g2, g3, g4, g5, g6, g7, g8, g9⟩ := flags_sum_fields _ _ _ _ _ _ _ _ (by omega) B2 B6 B5 B3 B1 B4 B7 f hc
  rw [getImageType_arith, getTzType_arith, getSubType_arith, getHwKeyEnabled_arith, getKeyStorePresented_arith,
    getAppTablePresented_arith, getImageVersion_arith, g1, g2, g3, g4, g5, g6, g7, g8,
    ite_one_zero_eq_one, ite_one_zero_eq_one, ite_one_zero_eq_one]
  refine ⟨rfl, rfl, rfl, rfl, rfl, rfl, ?_, g9⟩
  cases b6 <;> simp

/-! ### relocation table -/

theorem relocRecords_length (es : List RelocEntry) (src : Nat) : (relocRecords es src).length = 16 * es.length := by
  induction es generalizing src with
  | nil => simp [relocRecords]
  | cons e es ih => simp [relocRecords, le32_length, ih]; omega

theorem relocExport_length (es : List RelocEntry) (start : Nat) :
    (relocExport es start).length = (relocImages es).length + 16 * es.length + 16 := by
  simp [relocExport, relocRecords_length, le32_length]; omega

theorem relocExport_length_indep (es : List RelocEntry) (s t : Nat) :
    (relocExport es s).length = (relocExport es t).length := by
  rw [relocExport_length, relocExport_length]

/-- entries with the source addresses `relocRecords` assigns -/
def relocAddrs : List RelocEntry → Nat → List (RelocEntry × Nat)
  | [], _ => []
  | e :: es, src => (e, src) :: relocAddrs es (src + (align4 e.image).length)

theorem relocAddrs_map_fst (es : List RelocEntry) (src : Nat) : (relocAddrs es src).map (·.1) = es := by
  induction es generalizing src with
  | nil => rfl
  | cons e es ih => simp [relocAddrs, ih]

theorem relocImages_cons (e : RelocEntry) (es : List RelocEntry) :
    relocImages (e :: es) = align4 e.image ++ relocImages es := by
  simp [relocImages]

/-- a word found behind a prefix of known length -/
theorem rd32_at (data pre post : Bytes) (v off : Nat) (hd : data = pre ++ le32 v ++ post) (ho : pre.length = off)
    (h : v < 2 ^ 32) : rd32 data off = v := by
  subst hd; subst ho; exact rd32_append_le32 pre post v h

theorem slice_append_mid (pre w post : Bytes) : slice (pre ++ w ++ post) pre.length (pre.length + w.length) = w := by
  unfold slice
  rw [List.take_left' (by simp), List.drop_left]

theorem relocEntriesParse_ok (data : Bytes) (hdata : data.length < 2 ^ 32) :
    ∀ (es : List RelocEntry) (src off : Nat) (Q T P S : Bytes), data = Q ++ relocImages es ++ T → Q.length = src →
      data = P ++ relocRecords es src ++ S → P.length = off → (∀ e ∈ es, relocEntryOk e = true) →
      relocEntriesParse data es.length off = .ok (relocAddrs es src) := by
  intro es
  induction es with
  | nil => intros; rfl
  | cons e es ih =>
    intro src off Q T P S h1 hQ h2 hP hok
    have hoke := hok e (by simp)
    simp only [relocEntryOk, Bool.and_eq_true, decide_eq_true_eq] at hoke
    have hal : align4 e.image = e.image ++ zeros ((4 - e.image.length % 4) % 4) := rfl
    -- the image
    have himg : data = Q ++ e.image ++ (zeros ((4 - e.image.length % 4) % 4) ++ relocImages es ++ T) := by
      rw [h1, relocImages_cons, hal]; simp
    have hsl : slice data src (src + e.image.length) = e.image := by
      rw [himg, ← hQ]; exact slice_append_mid _ _ _
    have hsrcle : src + e.image.length ≤ data.length := by
      rw [himg, ← hQ]; simp
    -- the record
    have hr : relocRecords (e :: es) src = le32 src ++ le32 e.dst ++ le32 e.image.length ++ le32 ltiLoad
        ++ relocRecords es (src + (align4 e.image).length) := rfl
    have hlen16 : off + 16 ≤ data.length := by
      rw [h2, hr, ← hP]; simp [le32_length]; omega
    have r0 : rd32 data off = src :=
      rd32_at data P (le32 e.dst ++ le32 e.image.length ++ le32 ltiLoad
        ++ relocRecords es (src + (align4 e.image).length) ++ S) src off (by rw [h2, hr]; simp) hP (by omega)
    have r1 : rd32 data (off + 4) = e.dst :=
      rd32_at data (P ++ le32 src) (le32 e.image.length ++ le32 ltiLoad
        ++ relocRecords es (src + (align4 e.image).length) ++ S) e.dst (off + 4) (by rw [h2, hr]; simp)
        (by simp [le32_length, hP]) hoke.1
    have r2 : rd32 data (off + 8) = e.image.length :=
      rd32_at data (P ++ le32 src ++ le32 e.dst) (le32 ltiLoad
        ++ relocRecords es (src + (align4 e.image).length) ++ S) e.image.length (off + 8) (by rw [h2, hr]; simp)
        (by simp [le32_length, hP]) hoke.2
    have r3 : rd32 data (off + 12) = ltiLoad :=
      rd32_at data (P ++ le32 src ++ le32 e.dst ++ le32 e.image.length)
        (relocRecords es (src + (align4 e.image).length) ++ S) ltiLoad (off + 12) (by rw [h2, hr]; simp)
        (by simp [le32_length, hP]) (by decide)
    have hE : relocEntryParse data off = .ok (e, src) := by
      unfold relocEntryParse
      rw [if_neg (by omega)]
      simp only [r0, r1, r2, r3]
      rw [if_neg (by omega), if_neg (by simp), hsl]
    have hrest := ih (src + (align4 e.image).length) (off + 16) (Q ++ align4 e.image) T
      (P ++ le32 src ++ le32 e.dst ++ le32 e.image.length ++ le32 ltiLoad) S
      (by rw [h1, relocImages_cons]; simp) (by simp [hQ])
      (by rw [h2, hr]; simp) (by simp [le32_length, hP]) (fun x hx => hok x (by simp [hx]))
    show relocEntriesParse data (es.length + 1) off = _
    simp only [relocEntriesParse, hE, hrest, relocAddrs]
    rfl


theorem reloc_roundtrip (pre : Bytes) (es : List RelocEntry) (hne : es ≠ []) (hok : ∀ e ∈ es, relocEntryOk e = true)
    (hlen : pre.length + (relocExport es pre.length).length < 2 ^ 32) :
    relocParse (pre ++ relocExport es pre.length) = .ok (some (es, pre.length)) := by
  rw [relocExport_length] at hlen
  generalize hd : pre ++ relocExport es pre.length = data
  have hdl : data.length = pre.length + (relocImages es).length + 16 * es.length + 16 := by
    rw [← hd, List.length_append, relocExport_length]; omega
  have hR := relocRecords_length es pre.length
  have hd' : data = pre ++ relocImages es ++ relocRecords es pre.length ++ le32 relocMarkerExport
      ++ le32 relocHeaderVersion ++ le32 es.length ++ le32 (pre.length + (relocImages es).length) := by
    rw [← hd, relocExport]; simp
  have w0 : rd32 data (data.length - 16) = relocMarkerExport :=
    rd32_at data (pre ++ relocImages es ++ relocRecords es pre.length)
      (le32 relocHeaderVersion ++ le32 es.length ++ le32 (pre.length + (relocImages es).length)) _ _
      (by rw [hd']; simp) (by simp [hR, hdl]; omega) (by decide)
  have w1 : rd32 data (data.length - 16 + 4) = relocHeaderVersion :=
    rd32_at data (pre ++ relocImages es ++ relocRecords es pre.length ++ le32 relocMarkerExport)
      (le32 es.length ++ le32 (pre.length + (relocImages es).length)) _ _
      (by rw [hd']; simp) (by simp [hR, hdl, le32_length]; omega) (by decide)
  have w2 : rd32 data (data.length - 16 + 8) = es.length :=
    rd32_at data (pre ++ relocImages es ++ relocRecords es pre.length ++ le32 relocMarkerExport ++ le32 relocHeaderVersion)
      (le32 (pre.length + (relocImages es).length)) _ _
      (by rw [hd']) (by simp [hR, hdl, le32_length]; omega) (by omega)
  have w3 : rd32 data (data.length - 16 + 12) = pre.length + (relocImages es).length :=
    rd32_at data (pre ++ relocImages es ++ relocRecords es pre.length ++ le32 relocMarkerExport ++ le32 relocHeaderVersion
        ++ le32 es.length) [] _ _
      (by rw [hd']; simp) (by simp [hR, hdl, le32_length]; omega) (by omega)
  have hP := relocEntriesParse_ok data (by omega) es pre.length (pre.length + (relocImages es).length) pre
    (relocRecords es pre.length ++ le32 relocMarkerExport
      ++ le32 relocHeaderVersion ++ le32 es.length ++ le32 (pre.length + (relocImages es).length))
    (pre ++ relocImages es)
    (le32 relocMarkerExport
      ++ le32 relocHeaderVersion ++ le32 es.length ++ le32 (pre.length + (relocImages es).length))
    (by rw [hd']; simp) rfl (by rw [hd']; simp) (by simp) hok
  unfold relocParse
  rw [if_neg (by omega)]
  simp only [w0, w1, w2, w3]
  rw [if_neg (by decide), hP]
  simp only [relocAddrs_map_fst]
  cases es with
  | nil => exact absurd rfl hne
  | cons e es => rfl

/-! ### class level -/

theorem family_ne_none_of_classWF {c : Cls} (h : ClassWF c = true) : c.family ≠ none := by
  intro hn
  unfold ClassWF at h
  simp only [hn] at h
  simp at h

theorem family_ne_none {co : CryptoOps} {env : Env} {c : Cls} {cfg : Cfg} {signer : Signer}
    (h : Hyp co env c cfg signer) : c.family ≠ none := family_ne_none_of_classWF h.hcls

theorem family_cases {co : CryptoOps} {env : Env} {c : Cls} {cfg : Cfg} {signer : Signer}
    (h : Hyp co env c cfg signer) :
    c.family = some .plain ∨ c.family = some .signedV1 ∨ c.family = some .signedV21 ∨ c.family = some .encrypted := by
  have hn := family_ne_none h
  cases hf : c.family with
  | none => exact absurd hf hn
  | some f => cases f <;> simp

theorem insertByKey_perm (m : MixinName) (l : List MixinName) : (insertByKey m l).Perm (m :: l) := by
  induction l with
  | nil => exact List.Perm.refl _
  | cons x xs ih =>
    unfold insertByKey
    split
    · exact List.Perm.refl _
    · exact (List.Perm.cons x ih).trans (List.Perm.swap m x xs)

theorem sortByKey_perm (l : List MixinName) : (sortByKey l).Perm l := by
  induction l with
  | nil => exact List.Perm.refl _
  | cons x xs ih => exact (insertByKey_perm x _).trans (List.Perm.cons x ih)

theorem perm_sum_int {l₁ l₂ : List Int} (h : l₁.Perm l₂) : l₁.sum = l₂.sum := by
  induction h with
  | nil => rfl
  | cons x _ ih => simp [ih]
  | swap x y l => simp only [List.sum_cons]; omega
  | trans _ _ ih1 ih2 => exact ih1.trans ih2

theorem sum_filterMap_id (l : List (Option MixinName)) (f : MixinName → Int) :
    (l.map (fun o => match o with | some m => f m | none => 0)).sum = ((l.filterMap id).map f).sum := by
  induction l with
  | nil => rfl
  | cons o os ih => cases o <;> simp [ih]

/-- the `mix_len` providers (without the `none`s) are a permutation of the expected list -/
theorem perm_of_lenProvidersAre (l : List (Option MixinName)) (exp : List MixinName)
    (h : lenProvidersAre l exp = true) : (l.filterMap id).Perm exp := by
  simp only [lenProvidersAre, Bool.and_eq_true, beq_iff_eq] at h
  exact ((sortByKey_perm _).symm.trans (h.1 ▸ List.Perm.refl _)).trans (sortByKey_perm exp)

/-- a sum over `mix_len` providers that are a permutation of `exp` (the `none`s contribute 0) -/
theorem sum_of_lenProvidersAre (l : List (Option MixinName)) (exp : List MixinName) (f : MixinName → Int)
    (h : lenProvidersAre l exp = true) :
    (l.map (fun o => match o with | some m => f m | none => 0)).sum = (exp.map f).sum := by
  rw [sum_filterMap_id]
  exact perm_sum_int ((perm_of_lenProvidersAre l exp h).map f)

/-! ### family-independent bounds from `ClassWF` / `cfgWF`, the TrustZone bits of the flag word -/

theorem classWF_imageType_le {c : Cls} (h : ClassWF c = true) : c.imageType ≤ imageTypeMask := by
  apply Classical.byContradiction
  intro hn
  have hd : decide (c.imageType ≤ imageTypeMask) = false := by simpa using hn
  unfold ClassWF at h
  simp only [hd, Bool.false_and] at h
  exact absurd h (by decide)

theorem cfgWF_subType_le {c : Cls} {cfg : Cfg} (h : cfgWF c cfg = true) : cfg.subType ≤ subTypeMask := by
  apply Classical.byContradiction
  intro hn
  have hd : decide (cfg.subType ≤ subTypeMask) = false := by simpa using hn
  unfold cfgWF at h
  simp only [hd, Bool.false_and, Bool.and_false] at h
  exact absurd h (by decide)

theorem cfgWF_imageVersion_le {c : Cls} {cfg : Cfg} (h : cfgWF c cfg = true) : cfg.imageVersion ≤ imgVerMask := by
  apply Classical.byContradiction
  intro hn
  have hd : decide (cfg.imageVersion < 2 ^ 16) = false := by
    simp only [imgVerMask] at hn; simp only [decide_eq_false_iff_not]; omega
  unfold cfgWF at h
  simp only [hd, Bool.false_and, Bool.and_false] at h
  exact absurd h (by decide)

theorem tzTag_le (t : TzCfg) : t.tag ≤ tzTypeMask := by
  cases t <;> simp [TzCfg.tag, tzTypeMask, tzEnabled, tzCustom, tzDisabled]

/-- the TrustZone-type bits of the flag word are the tag of the setting (classes with TrustZone), else 0 -/
theorem getTzType_flagsOf {co : CryptoOps} {env : Env} {c : Cls} {cfg : Cfg} {signer : Signer}
    (h : Hyp co env c cfg signer) : getTzType (flagsOf c cfg) = (if c.hasTrustZone then cfg.tz.tag else 0) :=
  (flags_fields c.imageType cfg.tz.tag cfg.subType cfg.imageVersion _ c.hasTrustZone _ _ _ _ _ _ _ _ _ _
    (classWF_imageType_le h.hcls) (tzTag_le cfg.tz) (cfgWF_subType_le h.hcfg) (cfgWF_imageVersion_le h.hcfg)).2.1

/-! ### examples used for non-vacuity in Properties/C01.lean -/

def exampleCrcClass : Cls :=
  ⟨5, [.Mbi_MixinApp, .Mbi_MixinIvt, .Mbi_MixinLoadAddress, .Mbi_MixinTrustZoneMandatory, .Mbi_MixinImageSubType,
       .Mbi_ExportMixinAppTrustZone, .Mbi_ExportMixinCrcSign], 1100⟩

def exampleCrcCfg : Cfg :=
  { app := (List.range 61).map (fun i => UInt8.ofNat (i * 7 + 1)), loadAddress := 0x20001000, subType := 1,
    tz := .custom (List.replicate 1100 0xA5) }

def exampleSignedClass : Cls :=
  ⟨1, [.Mbi_MixinApp, .Mbi_MixinRelocTable, .Mbi_MixinLoadAddress, .Mbi_MixinIvt, .Mbi_MixinTrustZone, .Mbi_MixinCertBlockV1,
       .Mbi_MixinHmacMandatory, .Mbi_MixinKeyStore, .Mbi_MixinHwKey, .Mbi_ExportMixinAppTrustZoneCertBlock,
       .Mbi_ExportMixinRsaSign, .Mbi_ExportMixinHmacKeyStoreFinalize], 1140⟩

def exampleEncClass : Cls :=
  ⟨3, [.Mbi_MixinApp, .Mbi_MixinRelocTable, .Mbi_MixinLoadAddress, .Mbi_MixinIvt, .Mbi_MixinTrustZone, .Mbi_MixinCertBlockV1,
       .Mbi_MixinHwKey, .Mbi_MixinKeyStore, .Mbi_MixinHmacMandatory, .Mbi_MixinCtrInitVector,
       .Mbi_ExportMixinAppTrustZoneCertBlockEncrypt, .Mbi_ExportMixinRsaSign, .Mbi_ExportMixinHmacKeyStoreFinalize], 1140⟩

/-- a structurally valid (fake) v1 certificate block: header with one 4-byte "certificate" entry + RKH table = 164 bytes -/
def exampleCert : Bytes :=
  [0x63, 0x65, 0x72, 0x74, 1, 0, 0, 0] ++ le32 32 ++ zeros 16 ++ le32 4 ++ List.replicate 132 0x5A

def exampleSignedCfg : Cfg :=
  { app := (List.range 100).map (fun i => UInt8.ofNat (i * 3 + 2)), loadAddress := 0x1000, tz := .disabled, hwKey := true,
    keyStore := some (List.replicate 1424 0x33), hmacKey := some ((List.range 32).map UInt8.ofNat),
    reloc := some [⟨[1, 2, 3], 0x20001000⟩, ⟨[], 0x30000000⟩], cert := exampleCert, sigLen := 256 }

end SpsdkVerif.Mbi
