/-
Helper lemmas for the re-use part of Properties/C17.lean (model: Model/FreshObj.lean).
-/
import SpsdkVerif.Model.FreshObj

namespace SpsdkVerif.Fresh

theorem Store.set_same (s : Store) (o : Nat) (c : Cell) : (s.set o c) o = c := by simp [Store.set]
theorem Store.set_other (s : Store) (o x : Nat) (c : Cell) (h : x ≠ o) : (s.set o c) x = s x := by simp [Store.set, h]

/-- invariant of `ostep` when every path resets -/
structure OInv (s : OSt) : Prop where
  artLt : ∀ a ∈ s.arts, ∀ t, a.val = .chosen t → t < s.next
  cellLt : ∀ o t, (s.store o).val = some (.chosen t) → t < s.next
  inj : ∀ o o' t, (s.store o).val = some (.chosen t) → (s.store o').val = some (.chosen t) → o = o'
  link : ∀ a ∈ s.arts, ∀ t o, a.val = .chosen t → (s.store o).val = some (.chosen t) →
          a.obj = o ∧ a.epoch = (s.store o).epoch
  sup : ∀ o, (s.store o).supplied = false → (s.store o).val = none ∨ ∃ t, (s.store o).val = some (.chosen t)
  safe : Safe s.arts

/-- constructor with the components spelled out (goals without structure projections) -/
theorem oinv_mk (st : Store) (n : Nat) (arts : List Art)
    (h1 : ∀ a ∈ arts, ∀ t, a.val = .chosen t → t < n)
    (h2 : ∀ o t, (st o).val = some (.chosen t) → t < n)
    (h3 : ∀ o o' t, (st o).val = some (.chosen t) → (st o').val = some (.chosen t) → o = o')
    (h4 : ∀ a ∈ arts, ∀ t o, a.val = .chosen t → (st o).val = some (.chosen t) → a.obj = o ∧ a.epoch = (st o).epoch)
    (h5 : ∀ o, (st o).supplied = false → (st o).val = none ∨ ∃ t, (st o).val = some (.chosen t))
    (h6 : ∀ a ∈ arts, a.supplied = false → ∃ t, a.val = .chosen t)
    (h7 : ∀ a ∈ arts, ∀ b ∈ arts, ∀ t, a.val = .chosen t → b.val = .chosen t → SameBuild a b) :
    OInv ⟨st, n, arts⟩ := ⟨h1, h2, h3, h4, h5, ⟨h6, h7⟩⟩

theorem oinv_init : OInv {} := by
  refine ⟨?_, ?_, ?_, ?_, ?_, ?_⟩ <;> simp [Safe]

/-- overwriting the slot of `o` by something that is not a self-chosen value keeps the invariant -/
theorem oinv_set (s : OSt) (hI : OInv s) (o : Nat) (c : Cell)
    (hc : ∀ t, c.val ≠ some (.chosen t)) (hs : c.supplied = false → c.val = none) :
    OInv { s with store := s.store.set o c } := by
  refine oinv_mk _ _ _ hI.artLt ?_ ?_ ?_ ?_ hI.safe.1 hI.safe.2
  · intro x t hx
    by_cases hxo : x = o
    · subst hxo; rw [Store.set_same] at hx; exact absurd hx (hc t)
    · rw [Store.set_other _ _ _ _ hxo] at hx; exact hI.cellLt x t hx
  · intro x x' t hx hx'
    by_cases hxo : x = o
    · subst hxo; rw [Store.set_same] at hx; exact absurd hx (hc t)
    · by_cases hxo' : x' = o
      · subst hxo'; rw [Store.set_same] at hx'; exact absurd hx' (hc t)
      · rw [Store.set_other _ _ _ _ hxo] at hx; rw [Store.set_other _ _ _ _ hxo'] at hx'
        exact hI.inj x x' t hx hx'
  · intro a ha t x hat hx
    by_cases hxo : x = o
    · subst hxo; rw [Store.set_same] at hx; exact absurd hx (hc t)
    · rw [Store.set_other _ _ _ _ hxo] at hx ⊢; exact hI.link a ha t x hat hx
  · intro x hx
    by_cases hxo : x = o
    · subst hxo; rw [Store.set_same] at hx ⊢; exact Or.inl (hs hx)
    · rw [Store.set_other _ _ _ _ hxo] at hx ⊢; exact hI.sup x hx

theorem ostep_respec_none (T : List Bool) (s : OSt) (o p : Nat) (sup : Option Nat) (hp : T[p]? = none) :
    ostep T s (.respec o p sup) = s := by simp [ostep, hp]

theorem ostep_respec_user (T : List Bool) (s : OSt) (o p u : Nat) (r : Bool) (hp : T[p]? = some r) :
    ostep T s (.respec o p (some u)) =
      ⟨s.store.set o { val := some (.user u), epoch := (s.store o).epoch + 1, supplied := true }, s.next, s.arts⟩ := by
  simp [ostep, hp]

theorem ostep_respec_reset (T : List Bool) (s : OSt) (o p : Nat) (hp : T[p]? = some true) :
    ostep T s (.respec o p none) =
      ⟨s.store.set o { val := none, epoch := (s.store o).epoch + 1, supplied := false }, s.next, s.arts⟩ := by
  simp [ostep, hp]

theorem ostep_respec_keep (T : List Bool) (s : OSt) (o p : Nat) (hp : T[p]? = some false) :
    ostep T s (.respec o p none) =
      ⟨s.store.set o { val := (s.store o).val, epoch := (s.store o).epoch + 1, supplied := false }, s.next, s.arts⟩ := by
  simp [ostep, hp]

theorem ostep_emit_some (T : List Bool) (s : OSt) (o : Nat) (v : OVal) (hv : (s.store o).val = some v) :
    ostep T s (.emit o) = ⟨s.store, s.next, ⟨o, (s.store o).epoch, (s.store o).supplied, v⟩ :: s.arts⟩ := by
  simp [ostep, hv]

theorem ostep_emit_none (T : List Bool) (s : OSt) (o : Nat) (hv : (s.store o).val = none) :
    ostep T s (.emit o) =
      ⟨s.store.set o { val := some (.chosen s.next), epoch := (s.store o).epoch, supplied := (s.store o).supplied }, s.next + 1,
       ⟨o, (s.store o).epoch, (s.store o).supplied, .chosen s.next⟩ :: s.arts⟩ := by
  simp [ostep, hv, draw]

/-- `ostep` looks at the table only through the entry of the path used -/
theorem ostep_respec_congr (T T' : List Bool) (p p' : Nat) (h : T[p]? = T'[p']?) (s : OSt) (o : Nat) (sup : Option Nat) :
    ostep T s (.respec o p sup) = ostep T' s (.respec o p' sup) := by
  simp only [ostep, h]

theorem ostep_new_congr (T T' : List Bool) (s : OSt) (o : Nat) : ostep T s (.new o) = ostep T' s (.new o) := rfl
theorem ostep_emit_congr (T T' : List Bool) (s : OSt) (o : Nat) : ostep T s (.emit o) = ostep T' s (.emit o) := rfl

theorem oinv_step (T : List Bool) (hT : ∀ (p : Nat) (r : Bool), T[p]? = some r → r = true) (s : OSt) (hI : OInv s) (st : Step) :
    OInv (ostep T s st) := by
  cases st with
  | new o =>
    exact oinv_set s hI o _ (by intro t h; cases h) (fun _ => rfl)
  | respec o p sup =>
    cases hp : T[p]? with
    | none => rw [ostep_respec_none T s o p sup hp]; exact hI
    | some r =>
      have hr : r = true := hT p r hp
      subst hr
      cases sup with
      | some u =>
        rw [ostep_respec_user T s o p u true hp]
        exact oinv_set s hI o _ (by intro t h; cases h) (by intro h; cases h)
      | none =>
        rw [ostep_respec_reset T s o p hp]
        exact oinv_set s hI o _ (by intro t h; cases h) (fun _ => rfl)
  | emit o =>
    cases hv : (s.store o).val with
    | some v =>
      -- the stored value is used
      rw [ostep_emit_some T s o v hv]
      refine oinv_mk _ _ _ ?_ hI.cellLt hI.inj ?_ hI.sup ?_ ?_
      · intro a ha t hat
        simp only [List.mem_cons] at ha
        rcases ha with rfl | ha
        · simp only at hat; subst hat; exact hI.cellLt o t hv
        · exact hI.artLt a ha t hat
      · intro a ha t x hat hx
        simp only [List.mem_cons] at ha
        rcases ha with rfl | ha
        · simp only at hat; subst hat
          have := hI.inj o x t hv hx
          subst this
          exact ⟨rfl, rfl⟩
        · exact hI.link a ha t x hat hx
      · intro a ha hsup
        simp only [List.mem_cons] at ha
        rcases ha with rfl | ha
        · simp only at hsup ⊢
          rcases hI.sup o hsup with h | ⟨t, h⟩
          · rw [h] at hv; cases hv
          · rw [h] at hv; cases hv; exact ⟨t, rfl⟩
        · exact hI.safe.1 a ha hsup
      · intro a ha b hb t hat hbt
        simp only [List.mem_cons] at ha hb
        rcases ha with rfl | ha <;> rcases hb with rfl | hb
        · exact ⟨rfl, rfl⟩
        · simp only at hat; subst hat
          have := hI.link b hb t o hbt hv
          exact ⟨this.1.symm, this.2.symm⟩
        · simp only at hbt; subst hbt
          exact hI.link a ha t o hat hv
        · exact hI.safe.2 a ha b hb t hat hbt
    | none =>
      -- a new value is drawn and stored
      rw [ostep_emit_none T s o hv]
      refine oinv_mk _ _ _ ?_ ?_ ?_ ?_ ?_ ?_ ?_
      · intro a ha t hat
        simp only [List.mem_cons] at ha
        rcases ha with rfl | ha
        · simp only at hat; cases hat; exact Nat.lt_succ_self _
        · exact Nat.lt_succ_of_lt (hI.artLt a ha t hat)
      · intro x t hx
        by_cases hxo : x = o
        · subst hxo; rw [Store.set_same] at hx; simp only at hx; cases hx; exact Nat.lt_succ_self _
        · rw [Store.set_other _ _ _ _ hxo] at hx; exact Nat.lt_succ_of_lt (hI.cellLt x t hx)
      · intro x x' t hx hx'
        by_cases hxo : x = o <;> by_cases hxo' : x' = o
        · rw [hxo, hxo']
        · subst hxo; rw [Store.set_same] at hx; simp only at hx; cases hx
          rw [Store.set_other _ _ _ _ hxo'] at hx'
          exact absurd (hI.cellLt x' _ hx') (Nat.lt_irrefl _)
        · subst hxo'; rw [Store.set_same] at hx'; simp only at hx'; cases hx'
          rw [Store.set_other _ _ _ _ hxo] at hx
          exact absurd (hI.cellLt x _ hx) (Nat.lt_irrefl _)
        · rw [Store.set_other _ _ _ _ hxo] at hx; rw [Store.set_other _ _ _ _ hxo'] at hx'
          exact hI.inj x x' t hx hx'
      · intro a ha t x hat hx
        simp only [List.mem_cons] at ha
        rcases ha with rfl | ha
        · simp only at hat; cases hat
          by_cases hxo : x = o
          · subst hxo; rw [Store.set_same]; exact ⟨rfl, rfl⟩
          · rw [Store.set_other _ _ _ _ hxo] at hx
            exact absurd (hI.cellLt x _ hx) (Nat.lt_irrefl _)
        · by_cases hxo : x = o
          · subst hxo; rw [Store.set_same] at hx; simp only at hx; cases hx
            exact absurd (hI.artLt a ha _ hat) (Nat.lt_irrefl _)
          · rw [Store.set_other _ _ _ _ hxo] at hx ⊢; exact hI.link a ha t x hat hx
      · intro x hx
        by_cases hxo : x = o
        · subst hxo; rw [Store.set_same]; exact Or.inr ⟨s.next, rfl⟩
        · rw [Store.set_other _ _ _ _ hxo] at hx ⊢; exact hI.sup x hx
      · intro a ha hsup
        simp only [List.mem_cons] at ha
        rcases ha with rfl | ha
        · exact ⟨s.next, rfl⟩
        · exact hI.safe.1 a ha hsup
      · intro a ha b hb t hat hbt
        simp only [List.mem_cons] at ha hb
        rcases ha with rfl | ha <;> rcases hb with rfl | hb
        · exact ⟨rfl, rfl⟩
        · simp only at hat; cases hat
          exact absurd (hI.artLt b hb _ hbt) (Nat.lt_irrefl _)
        · simp only at hbt; cases hbt
          exact absurd (hI.artLt a ha _ hat) (Nat.lt_irrefl _)
        · exact hI.safe.2 a ha b hb t hat hbt

theorem oinv_foldl (T : List Bool) (hT : ∀ (p : Nat) (r : Bool), T[p]? = some r → r = true) (h : List Step) (s : OSt) (hI : OInv s) :
    OInv (h.foldl (ostep T) s) := by
  induction h generalizing s with
  | nil => exact hI
  | cons st rest ih => exact ih _ (oinv_step T hT s hI st)

end SpsdkVerif.Fresh
