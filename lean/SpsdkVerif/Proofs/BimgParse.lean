/-
C14 proofs, part 2: the segment parsers of the model delimit themselves; parsing an exported image (`walk`, `parseAll`).
Uses the export theorems of Proofs/BimgExport.lean.  Restated in Properties/C14.lean.

Route for `parse_export'`: `BimgPW` collects, in terms of the layout `bimgLayout 0 slots` (every table entry with its
offset in the full image), what `Ctx`/`Supplied`/`Delimit` and the export characterisation `bimg_export_char` say;
`BimgPW.step` is one step of the walk (cases: excluded / static present / static absent = padding window / dynamic last
entry), `BimgPW.walkGo` the induction over the table with the invariant `BimgInv` (the walk remembers offset and length
of the preceding entry when that one is present).
-/
import SpsdkVerif.Model.Bimg
import SpsdkVerif.Model.BimgSpec
import SpsdkVerif.Proofs.BimgExport

namespace SpsdkVerif.Bimg
open SpsdkVerif SpsdkVerif.Misc SpsdkVerif.BinImg SpsdkVerif.Generated

/-! ### the parsers of the model delimit themselves -/

theorem bimgP_take (s : Seg) (c rest : Bytes) (hlen : (c.length : Int) = s.size) :
    (c ++ rest).take s.size.toNat = c := by
  have : s.size.toNat = c.length := by omega
  rw [this]
  exact List.take_left' rfl

theorem bimgP_isPadding (s : Seg) (c rest : Bytes) (hlen : (c.length : Int) = s.size) :
    isPadding s (c ++ rest) = isPadding s c := by
  unfold isPadding
  rw [bimgP_take s c rest hlen]
  have : s.size.toNat = c.length := by omega
  rw [this, List.take_length]

theorem bimgP_parseRaw (s : Seg) (c rest : Bytes)
    (hsz : 0 < s.size) (hlen : (c.length : Int) = s.size) (hnp : isPadding s c = false) :
    parseRaw s (c ++ rest) = .present c := by
  unfold parseRaw
  have h1 : ¬ (0 < s.size ∧ ((c ++ rest).length : Int) < s.size) := by
    rw [List.length_append]; omega
  rw [if_neg h1, bimgP_isPadding s c rest hlen, hnp, if_pos hsz, bimgP_take s c rest hlen]
  simp

theorem raw_delimits' (ext : Ext) (fcbSup : Bool) (s : Seg) (c rest : Bytes) (hp : s.parser = .raw)
    (hsz : 0 < s.size) (hlen : (c.length : Int) = s.size) (hnp : isPadding s c = false) :
    parseSeg ext fcbSup s (c ++ rest) = .present c := by
  unfold parseSeg
  rw [hp]
  exact bimgP_parseRaw s c rest hsz hlen hnp

theorem imageVersion_delimits' (ext : Ext) (fcbSup : Bool) (s : Seg) (c rest : Bytes)
    (hp : s.parser = .imageVersion ∨ s.parser = .imageVersionAp) (hsz : s.size = 4) (hlen : c.length = 4) :
    parseSeg ext fcbSup s (c ++ rest) = .present c := by
  have hl : (c.length : Int) = s.size := by omega
  have ht := bimgP_take s c rest hl
  unfold parseSeg
  rcases hp with hp | hp
  · rw [hp]
    simp only []
    rw [if_pos (by omega), ht]
  · rw [hp]
    simp only []
    rw [if_neg (by rw [List.length_append]; omega)]
    rw [hsz] at ht
    simpa using ht

theorem fcb_delimits' (ext : Ext) (fcbSup : Bool) (s : Seg) (c rest : Bytes) (hp : s.parser = .fcb)
    (hsz : 4 ≤ s.size) (hlen : (c.length : Int) = s.size)
    (htag : c.take 4 = BimgTables.fcbTag ∨ c.take 4 = BimgTables.fcbTagSwapped)
    (hok : fcbSup = true → ext.fcbOk c = true) (hnp : fcbSup = false → isPadding s c = false) :
    parseSeg ext fcbSup s (c ++ rest) = .present c := by
  have ht := bimgP_take s c rest hlen
  have h4 : (c ++ rest).take 4 = c.take 4 := by
    rw [List.take_append_of_le_length (by omega)]
  unfold parseSeg
  rw [hp]
  simp only []
  rw [if_neg (by rw [List.length_append]; omega), h4]
  have htag' : (c.take 4 == BimgTables.fcbTag || c.take 4 == BimgTables.fcbTagSwapped) = true := by
    rcases htag with h | h <;> simp [h]
  rw [if_pos htag']
  cases fcbSup with
  | true =>
    simp only [if_true]
    rw [ht, hok rfl]
    simp
  | false =>
    simp only [Bool.false_eq_true, if_false]
    exact bimgP_parseRaw s c rest (by omega) hlen (hnp rfl)

theorem app_delimits' (ext : Ext) (fcbSup : Bool) (s : Seg) (c rest : Bytes)
    (hp : s.parser = .ahab ∨ ((s.parser = .greedy ∨ s.parser = .sb) ∧ rest = [])) (hsz : s.size < 0) (hne : c ≠ [])
    (hacc : ext.app s.kind (c ++ rest) = some c.length) :
    parseSeg ext fcbSup s (c ++ rest) = .present c := by
  have hemp : (c ++ rest).isEmpty = false := by cases c <;> simp_all
  unfold parseSeg
  rcases hp with hp | ⟨hp | hp, hr⟩
  · rw [hp]
    simp only []
    rw [hemp, hacc]
    simp
  · rw [hp]
    simp only []
    rw [hemp, hacc]
    simp [hr]
  · rw [hp]
    simp only []
    rw [hacc]
    simp only []
    subst hr
    unfold parseRaw isPadding
    have : ¬ (0 < s.size) := by omega
    simp [this]


/-! ### index forms of the list predicates of `descOK` -/

theorem bimgP_dynOK_idx (segs : List Seg) (h : dynOK segs = true) (i : Nat) (s t : Seg)
    (hs : segs[i]? = some s) (ht : segs[i + 1]? = some t) :
    s.pos.isSome = true ∧ (t.pos = none → s.bootHeader = false ∧ segs.length = i + 2) := by
  induction segs generalizing i with
  | nil => simp at hs
  | cons x r ih =>
    cases r with
    | nil => simp at ht
    | cons y r' =>
      simp only [dynOK, Bool.and_eq_true] at h
      cases i with
      | zero =>
        simp only [List.getElem?_cons_zero, Option.some.injEq, Nat.zero_add, List.getElem?_cons_succ] at hs ht
        subst hs; subst ht
        cases hp : y.pos with
        | none =>
          rw [hp] at h
          simp only [Bool.and_eq_true, Bool.not_eq_true', List.isEmpty_iff] at h
          refine ⟨h.1.1.1, fun _ => ⟨h.1.1.2, ?_⟩⟩
          rw [h.1.2]; rfl
        | some q =>
          rw [hp] at h
          exact ⟨h.1, fun hh => by cases hh⟩
      | succ i =>
        simp only [List.getElem?_cons_succ] at hs ht
        obtain ⟨h1, h2⟩ := ih h.2 i hs ht
        refine ⟨h1, fun hh => ?_⟩
        obtain ⟨h3, h4⟩ := h2 hh
        refine ⟨h3, ?_⟩
        simp only [List.length_cons] at h4 ⊢
        omega

theorem bimgP_windowsFit_idx (segs : List Seg) (h : windowsFit segs = true) (i : Nat) (s t : Seg) (p q : Nat)
    (hs : segs[i]? = some s) (ht : segs[i + 1]? = some t) (hp : s.pos = some p) (hq : t.pos = some q)
    (hsz : 0 < s.size) : p + s.size.toNat ≤ q := by
  induction segs generalizing i with
  | nil => simp at hs
  | cons x r ih =>
    cases r with
    | nil => simp at ht
    | cons y r' =>
      simp only [windowsFit, Bool.and_eq_true] at h
      cases i with
      | zero =>
        simp only [List.getElem?_cons_zero, Option.some.injEq, Nat.zero_add, List.getElem?_cons_succ] at hs ht
        subst hs; subst ht
        rw [hp, hq] at h
        simp only [Bool.or_eq_true, Bool.not_eq_true', decide_eq_false_iff_not, decide_eq_true_eq] at h
        rcases h.1 with h1 | h1
        · omega
        · exact h1
      | succ i =>
        simp only [List.getElem?_cons_succ] at hs ht
        exact ih h.2 i hs ht

theorem bimgP_greedyLast_idx (segs : List Seg) (h : greedyLast segs = true) (i : Nat) (s t : Seg)
    (hs : segs[i]? = some s) (ht : segs[i + 1]? = some t) : s.parser ≠ .greedy ∧ s.parser ≠ .sb := by
  induction segs generalizing i with
  | nil => simp at hs
  | cons x r ih =>
    cases r with
    | nil => simp at ht
    | cons y r' =>
      simp only [greedyLast, Bool.and_eq_true, bne_iff_ne, ne_eq] at h
      cases i with
      | zero =>
        simp only [List.getElem?_cons_zero, Option.some.injEq] at hs
        subst hs
        exact h.1
      | succ i =>
        simp only [List.getElem?_cons_succ] at hs ht
        exact ih h.2 i hs ht

theorem bimgP_headersFirst_idx (segs : List Seg) (h : headersFirst segs = true) (i j : Nat) (s t : Seg)
    (hij : i < j) (hs : segs[i]? = some s) (ht : segs[j]? = some t) (hb : s.bootHeader = false) :
    t.bootHeader = false := by
  induction segs generalizing i j with
  | nil => simp at hs
  | cons x r ih =>
    cases j with
    | zero => omega
    | succ j =>
      simp only [List.getElem?_cons_succ] at ht
      cases i with
      | zero =>
        simp only [List.getElem?_cons_zero, Option.some.injEq] at hs
        subst hs
        simp only [headersFirst, hb, Bool.false_eq_true, if_false, List.all_eq_true, Bool.not_eq_true'] at h
        exact h t (List.mem_of_getElem? ht)
      | succ i =>
        simp only [List.getElem?_cons_succ] at hs
        simp only [headersFirst] at h
        by_cases hx : x.bootHeader = true
        · rw [if_pos hx] at h
          exact ih h i j (by omega) hs ht
        · rw [if_neg hx] at h
          simp only [List.all_eq_true, Bool.not_eq_true'] at h
          exact h t (List.mem_of_getElem? ht)

theorem bimgP_alignNat_sub (n k a : Nat) (ha : 0 < a) (hk : k % a = 0) (hkn : k ≤ n) :
    alignNat (n - k) a = alignNat n a - k := by
  unfold alignNat
  obtain ⟨c, rfl⟩ := Nat.dvd_of_mod_eq_zero hk
  have e : n - a * c + (a - 1) = n + (a - 1) - a * c := by omega
  rw [e, Nat.sub_mul_div_of_le, Nat.sub_mul, Nat.mul_comm c a]
  omega


/-! ### what the walk is expected to find, per layout entry -/

def bimgExp (init : Nat) (p : Nat × Slot) : Found :=
  if p.2.present init then some (p.1 - init, p.2.bytes) else none

theorem bimgP_expectedGo (init : Nat) (lay : List (Nat × Slot)) :
    expectedGo init (lay.map (·.2)) (lay.map (fun p => some p.1)) = lay.map (bimgExp init) := by
  induction lay with
  | nil => rfl
  | cons p r ih =>
    simp only [List.map_cons, expectedGo, ih, bimgExp]

theorem bimgP_expectedFound {init : Nat} {slots : List Slot} (g : BimgGeo init slots) :
    expectedFound init slots = (bimgLayout 0 slots).map (bimgExp init) := by
  unfold expectedFound
  rw [g.abs]
  have := bimgP_expectedGo init (bimgLayout 0 slots)
  rw [bimgLayout_snd] at this
  exact this

theorem bimgP_drop_split (b c : Bytes) (o : Nat) (h : ∀ k, k < c.length → b[o + k]? = c[k]?) :
    b.drop o = c ++ b.drop (o + c.length) := by
  have h1 := bimg_take_drop_of_get b c o h
  have h2 := List.take_append_drop c.length (b.drop o)
  rw [h1, List.drop_drop] at h2
  exact h2.symm

/-! ### everything the walk proof uses, in terms of the layout -/

structure BimgPW (ext : Ext) (fcbSup : Bool) (d : Desc) (init : Nat) (L : List (Nat × Slot)) (b : Bytes) : Prop where
  segs : d.segs = L.map (·.2.seg)
  ok : descOK d = true
  adm : init = 0 ∨ init ∈ statics d.segs
  chain : ∀ (i j : Nat) (p q : Nat × Slot), i < j → L[i]? = some p → L[j]? = some q → p.1 + p.2.len ≤ q.1
  ge : ∀ p ∈ L, excluded init p.2.seg = false → init ≤ p.1
  stat : ∀ p ∈ L, ∀ x, p.2.seg.pos = some x → p.1 = x
  dyn : ∀ (i : Nat) (p q : Nat × Slot), L[i]? = some p → L[i + 1]? = some q → q.2.seg.pos = none →
    q.1 = alignNat (p.1 + p.2.len) q.2.seg.align
  sup : ∀ p ∈ L, excluded init p.2.seg = false →
    (p.2.seg.bootHeader = false ∧ p.2.seg.pos.isSome = true ∨ p.2.seg.parser = .imageVersion ∨
      p.2.seg.parser = .imageVersionAp) → p.2.present init = true
  good : ∀ p ∈ L, p.2.present init = true → ∀ rest : Bytes,
    ((p.2.seg.parser = .greedy ∨ p.2.seg.parser = .sb) → rest = []) →
    parseSeg ext fcbSup p.2.seg (p.2.bytes ++ rest) = .present p.2.bytes
  find : ∀ p ∈ L, p.2.present init = true → p.2.seg.extFind = true → ∀ rest : Bytes,
    ext.find p.2.seg.kind (p.2.bytes ++ rest) = some 0
  atB : ∀ p ∈ L, p.2.present init = true → ∀ k, k < p.2.len → b[p.1 - init + k]? = p.2.bytes[k]?
  fin : ∀ p ∈ L, p.2.present init = true → p.1 - init + p.2.len ≤ b.length
  out : ∀ k, k < b.length →
    (∀ p ∈ L, p.2.present init = true → k < p.1 - init ∨ p.1 - init + p.2.len ≤ k) →
    b[k]? = some (if d.pattern = .ones then 0xFF else 0x00)
  blen : ∃ p ∈ L, p.2.present init = true ∧ b.length = p.1 - init + p.2.len

theorem bimgP_world (ext : Ext) (fcbSup : Bool) (d : Desc) (init : Nat) (raws : List (Option Bytes))
    (h : Ctx d init raws) (hsup : Supplied init (mkSlots d.segs raws)) (hdel : Delimit ext fcbSup init (mkSlots d.segs raws))
    (b : Bytes) (hb : exportImg d init raws = .ok b) :
    BimgPW ext fcbSup d init (bimgLayout 0 (mkSlots d.segs raws)) b := by
  have g := bimg_geo d init raws h
  obtain ⟨b', q, hlast, hexp, _, hbl, hat, hout⟩ := bimg_export_char d init raws h
  rw [hexp] at hb
  cases hb
  have hsegs := bimg_mkSlots_segs d.segs raws h.len
  have hch := bimg_placed_chain g
  have hin := bimgChain_last hch q hlast
  have hq := List.mem_of_getLast? hlast
  generalize hslots : mkSlots d.segs raws = slots at *
  have hslot : ∀ p ∈ bimgLayout 0 slots, p.2 ∈ slots := by
    intro p hp
    have : p.2 ∈ (bimgLayout 0 slots).map (·.2) := List.mem_map_of_mem hp
    rw [bimgLayout_snd] at this
    exact this
  have hpl : ∀ p ∈ bimgLayout 0 slots, p.2.present init = true → (p.1 - init, p.2) ∈ bimgPlaced init slots := by
    intro p hp hpr
    exact (bimg_mem_placed _).2 ⟨p.1, hp, hpr, rfl⟩
  refine ⟨?_, h.ok, h.adm, ?_, g.ge, ?_, ?_, ?_, ?_, ?_, ?_, ?_, ?_, ?_⟩
  · rw [← hsegs]
    conv => lhs; rw [← bimgLayout_snd 0 slots]
    rw [List.map_map]
    rfl
  · intro i j p q hij hp hq
    exact bimgChain_idx g.chain i j p q hij hp hq
  · intro p hp x hx
    obtain ⟨i, hi⟩ := List.getElem?_of_mem hp
    obtain ⟨h1, h2⟩ := bimg_layout_idx' g i p.2 p.1 hi
    rw [bimg_absOffsets_static none slots i p.2 x h1 hx] at h2
    simp only [Option.some.injEq] at h2
    exact h2.symm
  · intro i p q hp hq hd
    obtain ⟨h1, h2⟩ := bimg_layout_idx' g i p.2 p.1 hp
    obtain ⟨h3, h4⟩ := bimg_layout_idx' g (i + 1) q.2 q.1 hq
    rw [bimg_absOffsets_dynamic none slots i p.2 q.2 p.1 h1 h3 hd h2] at h4
    simp only [Option.some.injEq] at h4
    exact h4.symm
  · intro p hp; exact hsup p.2 (hslot p hp)
  · intro p hp; exact hdel.good p.2 (hslot p hp)
  · intro p hp; exact hdel.find p.2 (hslot p hp)
  · intro p hp hpr k hk
    exact hat _ (hpl p hp hpr) k hk
  · intro p hp hpr
    have := (hin _ (hpl p hp hpr)).2
    simp only at this
    omega
  · intro k hk hfree
    apply hout k hk
    intro p hp
    obtain ⟨a, hmem, hpr, hpa⟩ := (bimg_mem_placed p).1 hp
    have := hfree (a, p.2) hmem hpr
    simp only at this
    omega
  · obtain ⟨a, hmem, hpr, hpa⟩ := (bimg_mem_placed q).1 hq
    exact ⟨(a, q.2), hmem, hpr, by simp only; omega⟩


namespace BimgPW
variable {ext : Ext} {fcbSup : Bool} {d : Desc} {init : Nat} {L : List (Nat × Slot)} {b : Bytes}

theorem seg_idx (w : BimgPW ext fcbSup d init L b) {i : Nat} {p : Nat × Slot} (hp : L[i]? = some p) :
    d.segs[i]? = some p.2.seg := by
  rw [w.segs, List.getElem?_map, hp]; rfl

theorem segOK (w : BimgPW ext fcbSup d init L b) {p : Nat × Slot} (hp : p ∈ L) : segOK d.pattern p.2.seg = true := by
  apply (bimg_descOK_parts d w.ok).2.1
  rw [w.segs]
  exact List.mem_map_of_mem (f := fun x : Nat × Slot => x.2.seg) hp

theorem head_static (w : BimgPW ext fcbSup d init L b) {p : Nat × Slot} (hp : L[0]? = some p) :
    p.2.seg.pos.isSome = true := by
  have h1 := (bimg_descOK_parts d w.ok).1
  have h2 := w.seg_idx hp
  rw [List.head?_eq_getElem?, h2] at h1
  simpa using h1

theorem succ_static (w : BimgPW ext fcbSup d init L b) {i : Nat} {p q : Nat × Slot} (hp : L[i]? = some p)
    (hq : L[i + 1]? = some q) :
    p.2.seg.pos.isSome = true ∧ (q.2.seg.pos = none → p.2.seg.bootHeader = false ∧ L.length = i + 2) := by
  have h5 := (bimg_descOK_parts d w.ok).2.2.2.2.1
  have := bimgP_dynOK_idx d.segs h5 i _ _ (w.seg_idx hp) (w.seg_idx hq)
  rw [w.segs, List.length_map] at this
  exact this

theorem window (w : BimgPW ext fcbSup d init L b) {i : Nat} {p q : Nat × Slot} (hp : L[i]? = some p)
    (hq : L[i + 1]? = some q) (hps : p.2.seg.pos.isSome = true) (hqs : q.2.seg.pos.isSome = true)
    (hsz : 0 < p.2.seg.size) : p.1 + p.2.seg.size.toNat ≤ q.1 := by
  have h6 := (bimg_descOK_parts d w.ok).2.2.2.2.2.1
  obtain ⟨x, hx⟩ := Option.isSome_iff_exists.1 hps
  obtain ⟨y, hy⟩ := Option.isSome_iff_exists.1 hqs
  have := bimgP_windowsFit_idx d.segs h6 i _ _ x y (w.seg_idx hp) (w.seg_idx hq) hx hy hsz
  rw [w.stat p (List.mem_of_getElem? hp) x hx, w.stat q (List.mem_of_getElem? hq) y hy]
  exact this

theorem greedy_last (w : BimgPW ext fcbSup d init L b) {i : Nat} {p : Nat × Slot} (hp : L[i]? = some p)
    (hg : p.2.seg.parser = .greedy ∨ p.2.seg.parser = .sb) : L.length = i + 1 := by
  have h7 := (bimg_descOK_parts d w.ok).2.2.2.2.2.2.1
  have hi : i < L.length := (List.getElem?_eq_some_iff.1 hp).1
  by_cases hl : i + 1 < L.length
  · have hq : L[i + 1]? = some L[i + 1] := List.getElem?_eq_getElem hl
    have := bimgP_greedyLast_idx d.segs h7 i _ _ (w.seg_idx hp) (w.seg_idx hq)
    rcases hg with hg | hg
    · exact absurd hg this.1
    · exact absurd hg this.2
  · omega

theorem headers (w : BimgPW ext fcbSup d init L b) {i j : Nat} {p q : Nat × Slot} (hij : i < j)
    (hp : L[i]? = some p) (hq : L[j]? = some q) (hb : p.2.seg.bootHeader = false) : q.2.seg.bootHeader = false :=
  bimgP_headersFirst_idx d.segs (bimg_descOK_parts d w.ok).2.2.2.2.2.2.2.1 i j _ _ hij (w.seg_idx hp) (w.seg_idx hq) hb

theorem app_exists (w : BimgPW ext fcbSup d init L b) :
    ∃ (i : Nat) (p : Nat × Slot), L[i]? = some p ∧ p.2.seg.bootHeader = false ∧ p.2.seg.pos.isSome = true := by
  obtain ⟨s, hs, h1, h2⟩ := (bimg_descOK_parts d w.ok).2.2.2.2.2.2.2.2.1
  rw [w.segs] at hs
  obtain ⟨p, hp, rfl⟩ := List.mem_map.1 hs
  obtain ⟨i, hi⟩ := List.getElem?_of_mem hp
  exact ⟨i, p, hi, h1, h2⟩

theorem align_init (w : BimgPW ext fcbSup d init L b) {p : Nat × Slot} (hp : p ∈ L) (hd : p.2.seg.pos = none) :
    init % p.2.seg.align = 0 := by
  rcases w.adm with h | h
  · rw [h]; exact Nat.zero_mod _
  · have := (bimg_descOK_parts d w.ok).2.2.2.2.2.2.2.2.2 init h p.2.seg (by
      rw [w.segs]; exact List.mem_map_of_mem (f := fun x : Nat × Slot => x.2.seg) hp)
    rw [hd] at this
    simpa using this

/-- an entry at the init offset (when it is not 0) -/
theorem init_entry (w : BimgPW ext fcbSup d init L b) (h0 : init ≠ 0) : ∃ p ∈ L, p.2.seg.pos = some init := by
  rcases w.adm with h | h
  · exact absurd h h0
  · unfold statics at h
    rw [List.mem_filterMap] at h
    obtain ⟨s, hs, hpos⟩ := h
    rw [w.segs] at hs
    obtain ⟨p, hp, rfl⟩ := List.mem_map.1 hs
    exact ⟨p, hp, hpos⟩

/-- the image ends at or before the end of an entry after which nothing is present -/
theorem len_le (w : BimgPW ext fcbSup d init L b) {n : Nat} {p : Nat × Slot} (hn : L[n]? = some p)
    (hall : ∀ j q, L[j]? = some q → q.2.present init = true → j ≤ n) :
    b.length ≤ p.1 - init + p.2.len := by
  obtain ⟨q, hq, hpr, hlen⟩ := w.blen
  obtain ⟨j, hj⟩ := List.getElem?_of_mem hq
  have hjn := hall j q hj hpr
  by_cases hjn' : j = n
  · subst hjn'
    rw [hn] at hj
    cases hj
    omega
  · have := w.chain j n q p (by omega) hj hn
    have := w.ge q hq ((bimg_present_iff init q.2).1 hpr).1
    omega

end BimgPW


/-! ### `stepSeg` by cases -/

/-- the part of `stepSeg` after the offset is known -/
def bimgTail (ext : Ext) (fcbSup : Bool) (bin : Bytes) (s : Seg) (prevOff prevSize offset : Nat) :
    Option (Found × Nat × Nat) :=
  if bin.length ≤ offset ∧ s.bootHeader then none
  else match parseSeg ext fcbSup s (bin.drop offset) with
    | .err => none
    | .absent => some (none, prevOff, prevSize)
    | .present raw => some (if raw.isEmpty then none else some (offset, raw), offset, raw.length)

theorem bimgP_step_excluded (ext : Ext) (fcbSup : Bool) (init : Nat) (bin : Bytes) (s : Seg) (first : Bool)
    (po ps : Nat) (hex : excluded init s = true) :
    stepSeg ext fcbSup init bin s first po ps = some (none, po, ps) := by
  unfold stepSeg
  rw [if_pos hex]

theorem bimgP_step_static (ext : Ext) (fcbSup : Bool) (init : Nat) (bin : Bytes) (s : Seg) (first : Bool)
    (po ps x : Nat) (hex : excluded init s = false) (hpos : s.pos = some x) :
    stepSeg ext fcbSup init bin s first po ps = bimgTail ext fcbSup bin s po ps (x - init) := by
  unfold stepSeg bimgTail
  rw [if_neg (by simp [hex])]
  simp only [hpos]
  rfl

theorem bimgP_step_skip (ext : Ext) (fcbSup : Bool) (init : Nat) (bin : Bytes) (s : Seg)
    (po ps : Nat) (hpos : s.pos = none) (hskip : bin.length ≤ alignNat (po + ps) s.align) :
    stepSeg ext fcbSup init bin s false po ps = some (none, po, ps) := by
  unfold stepSeg
  rw [if_neg (by simp [bimg_excluded_dynamic init s hpos])]
  simp only [hpos, Bool.false_eq_true, if_false, if_pos hskip]

theorem bimgP_step_dyn (ext : Ext) (fcbSup : Bool) (init : Nat) (bin : Bytes) (s : Seg)
    (po ps : Nat) (hpos : s.pos = none) (hskip : ¬ bin.length ≤ alignNat (po + ps) s.align)
    (hfind : s.extFind = true → ext.find s.kind (bin.drop (alignNat (po + ps) s.align)) = some 0) :
    stepSeg ext fcbSup init bin s false po ps = bimgTail ext fcbSup bin s po ps (alignNat (po + ps) s.align) := by
  unfold stepSeg bimgTail
  rw [if_neg (by simp [bimg_excluded_dynamic init s hpos])]
  simp only [hpos, Bool.false_eq_true, if_false, if_neg hskip]
  by_cases hf : s.extFind = true
  · rw [if_pos hf, hfind hf]
    simp only [Nat.add_zero]
    rfl
  · rw [if_neg hf]
    rfl

theorem bimgP_tail_present (ext : Ext) (fcbSup : Bool) (bin : Bytes) (s : Seg) (po ps o : Nat) (c : Bytes)
    (hin : o < bin.length) (hparse : parseSeg ext fcbSup s (bin.drop o) = .present c) (hne : c ≠ []) :
    bimgTail ext fcbSup bin s po ps o = some (some (o, c), o, c.length) := by
  unfold bimgTail
  rw [if_neg (by omega), hparse]
  have : c.isEmpty = false := by cases c <;> simp_all
  simp [this]

theorem bimgP_tail_absent (ext : Ext) (fcbSup : Bool) (bin : Bytes) (s : Seg) (po ps o : Nat)
    (hin : o < bin.length) (hparse : parseSeg ext fcbSup s (bin.drop o) = .absent) :
    bimgTail ext fcbSup bin s po ps o = some (none, po, ps) := by
  unfold bimgTail
  rw [if_neg (by omega), hparse]


theorem bimgP_segOK_parts (pat : Pattern) (s : Seg) (h : segOK pat s = true) :
    0 < s.align ∧ s.parser ≠ .unknown ∧ pat ∈ s.patterns ∧ (s.parser = .fcb → 4 ≤ s.size) ∧
    (s.parser = .xmcd → 0 < s.size) ∧ (s.parser = .raw → s.bootHeader = true → 0 < s.size) ∧
    ((s.parser = .greedy ∨ s.parser = .ahab ∨ s.parser = .sb) → s.size < 0 ∧ s.bootHeader = false) ∧
    (s.bootHeader = false → (s.parser = .greedy ∨ s.parser = .ahab ∨ s.parser = .sb)) ∧
    (s.extFind = true ↔ s.parser = .ahab) := by
  unfold segOK at h
  simp only [Bool.and_eq_true, Bool.or_eq_true, decide_eq_true_eq, bne_iff_ne, beq_iff_eq, Bool.not_eq_true',
    List.contains_iff_mem, Bool.and_eq_false_imp, ne_eq] at h
  obtain ⟨⟨⟨⟨⟨⟨⟨⟨⟨⟨⟨h1, h2⟩, h3⟩, h4⟩, h5⟩, h6⟩, h7⟩, h8⟩, h9⟩, h10⟩, h11⟩, h12⟩ := h
  refine ⟨h1, h2, h3, ?_, ?_, ?_, ?_, ?_, ?_⟩
  · intro hp; rcases h7 with h | h
    · exact absurd hp h
    · exact h
  · intro hp; rcases h8 with h | h
    · exact absurd hp h
    · exact h
  · intro hp hb; rcases h9 with h | h
    · have := h hp; rw [hb] at this; cases this
    · exact h
  · intro hp
    rcases h10 with h | h
    · rcases hp with hp | hp | hp <;> rw [hp] at h <;> simp at h
    · exact h
  · intro hb
    rcases h11 with h | h
    · rw [hb] at h; cases h
    · rcases h with (h | h) | h
      · exact Or.inl h
      · exact Or.inr (Or.inl h)
      · exact Or.inr (Or.inr h)
  · rw [h12]; simp

theorem bimgP_fcbTag (d : Desc) (h : descOK d = true) :
    BimgTables.fcbTag ≠ [0, 0, 0, 0] ∧ BimgTables.fcbTag ≠ [0xFF, 0xFF, 0xFF, 0xFF] ∧
    BimgTables.fcbTagSwapped ≠ [0, 0, 0, 0] ∧ BimgTables.fcbTagSwapped ≠ [0xFF, 0xFF, 0xFF, 0xFF] := by
  simp only [descOK, Bool.and_eq_true, bne_iff_ne, ne_eq] at h
  exact ⟨h.2.1.1.1.2, h.2.1.1.2, h.2.1.2, h.2.2⟩



theorem bimgP_isPadding_window (pat : Pattern) (s : Seg) (data : Bytes) (hpat : pat = .zeros ∨ pat = .ones)
    (hmem : pat ∈ s.patterns) (hsz : 0 < s.size)
    (hwin : data.take s.size.toNat = List.replicate s.size.toNat (if pat = .ones then 0xFF else 0x00)) :
    isPadding s data = true := by
  unfold isPadding
  simp only [Bool.and_eq_true, decide_eq_true_eq, List.any_eq_true, beq_iff_eq]
  exact ⟨hsz, pat, hmem, by rw [hwin, bimg_block pat _ hpat]⟩

theorem bimgP_parse_absent (ext : Ext) (fcbSup : Bool) (pat : Pattern) (s : Seg) (data : Bytes)
    (hpat : pat = .zeros ∨ pat = .ones) (hmem : pat ∈ s.patterns) (hsz : 0 < s.size)
    (hlen : s.size.toNat ≤ data.length)
    (hwin : data.take s.size.toNat = List.replicate s.size.toNat (if pat = .ones then 0xFF else 0x00))
    (hpar : s.parser = .raw ∨ (s.parser = .fcb ∧ 4 ≤ s.size) ∨ s.parser = .xmcd)
    (htag : BimgTables.fcbTag ≠ [0, 0, 0, 0] ∧ BimgTables.fcbTag ≠ [0xFF, 0xFF, 0xFF, 0xFF] ∧
      BimgTables.fcbTagSwapped ≠ [0, 0, 0, 0] ∧ BimgTables.fcbTagSwapped ≠ [0xFF, 0xFF, 0xFF, 0xFF]) :
    parseSeg ext fcbSup s data = .absent := by
  have hpad := bimgP_isPadding_window pat s data hpat hmem hsz hwin
  have hl : ¬ ((data.length : Int) < s.size) := by omega
  unfold parseSeg
  rcases hpar with hp | ⟨hp, h4⟩ | hp
  · rw [hp]
    simp only []
    unfold parseRaw
    rw [if_neg (by omega), if_pos hpad]
  · rw [hp]
    simp only []
    rw [if_neg hl]
    have ht : data.take 4 = List.replicate 4 (if pat = .ones then (0xFF : UInt8) else 0x00) := by
      have := congrArg (List.take 4) hwin
      rw [List.take_take, List.take_replicate] at this
      have e : min 4 s.size.toNat = 4 := by omega
      rw [e] at this
      exact this
    rw [ht]
    have hno : (List.replicate 4 (if pat = .ones then (0xFF : UInt8) else 0x00) == BimgTables.fcbTag ||
        List.replicate 4 (if pat = .ones then (0xFF : UInt8) else 0x00) == BimgTables.fcbTagSwapped) = false := by
      obtain ⟨t1, t2, t3, t4⟩ := htag
      rcases hpat with rfl | rfl
      · simp only [reduceCtorEq, if_false, List.replicate, Bool.or_eq_false_iff, beq_eq_false_iff_ne, ne_eq]
        exact ⟨fun h => t1 h.symm, fun h => t3 h.symm⟩
      · simp only [if_true, List.replicate, Bool.or_eq_false_iff, beq_eq_false_iff_ne, ne_eq]
        exact ⟨fun h => t2 h.symm, fun h => t4 h.symm⟩
    rw [hno]
    simp only [Bool.false_eq_true, if_false]
    rw [if_pos hpad]
  · rw [hp]
    simp only []
    rw [if_neg hl, if_pos hpad]



/-! ### the world of an image that may carry trailing bytes behind the export (flash dump)

`BimgPT … b0 b`: `b0` is the export, `b` the bytes that are parsed (`b0` itself, or `b0 ++ tail`).  The walk proof below
uses the image only through: the bytes of the present entries (`atT`, `finT`), the fill bytes before the end of a present
entry (`outT`), "a whole-rest parser (MBI / HAB / SB) sees nothing behind its payload" (`endG`) and "an absent floating
last entry would start at or behind the end of the bytes" (`endD`). -/

structure BimgPT (ext : Ext) (fcbSup : Bool) (d : Desc) (init : Nat) (L : List (Nat × Slot)) (b0 b : Bytes) : Prop where
  base : BimgPW ext fcbSup d init L b0
  atT : ∀ p ∈ L, p.2.present init = true → ∀ k, k < p.2.len → b[p.1 - init + k]? = p.2.bytes[k]?
  finT : ∀ p ∈ L, p.2.present init = true → p.1 - init + p.2.len ≤ b.length
  outT : ∀ k, (∃ u ∈ L, u.2.present init = true ∧ k < u.1 - init + u.2.len) →
    (∀ p ∈ L, p.2.present init = true → k < p.1 - init ∨ p.1 - init + p.2.len ≤ k) →
    b[k]? = some (if d.pattern = .ones then 0xFF else 0x00)
  endG : ∀ p ∈ L, p.2.present init = true → (p.2.seg.parser = .greedy ∨ p.2.seg.parser = .sb) →
    b.length ≤ p.1 - init + p.2.len
  endD : ∀ (i : Nat) (t p : Nat × Slot), L[i]? = some t → L[i + 1]? = some p → p.2.seg.pos = none →
    p.2.present init = false → b.length ≤ alignNat (t.1 - init + t.2.len) p.2.seg.align

namespace BimgPW
variable {ext : Ext} {fcbSup : Bool} {d : Desc} {init : Nat} {L : List (Nat × Slot)} {b : Bytes}

/-- every present entry ends inside the export -/
theorem end_le (w : BimgPW ext fcbSup d init L b) {p : Nat × Slot} (hp : p ∈ L) (hpr : p.2.present init = true) :
    p.1 - init + p.2.len ≤ b.length := w.fin p hp hpr

/-- the export ends where an absent floating last entry's predecessor ends -/
theorem dyn_absent_len (w : BimgPW ext fcbSup d init L b) {i : Nat} {t p : Nat × Slot} (ht : L[i]? = some t)
    (hp : L[i + 1]? = some p) (hd : p.2.seg.pos = none) (habs : p.2.present init = false) :
    b.length ≤ t.1 - init + t.2.len ∧ L.length = i + 2 := by
  obtain ⟨_, h2⟩ := w.succ_static ht hp
  obtain ⟨_, hlen⟩ := h2 hd
  refine ⟨w.len_le ht ?_, hlen⟩
  intro j q hj hq
  have := (List.getElem?_eq_some_iff.1 hj).1
  by_cases hj' : j = i + 1
  · subst hj'
    rw [hp] at hj; cases hj
    rw [habs] at hq; cases hq
  · omega

/-- the export itself -/
theorem toPT (w : BimgPW ext fcbSup d init L b) : BimgPT ext fcbSup d init L b b := by
  refine ⟨w, w.atB, w.fin, ?_, ?_, ?_⟩
  · intro k ⟨u, hu, hupr, hk⟩ hfree
    exact w.out k (by have := w.fin u hu hupr; omega) hfree
  · intro p hp hpr hg
    obtain ⟨n, hn⟩ := List.getElem?_of_mem hp
    have hl := w.greedy_last hn hg
    exact w.len_le hn (by
      intro j q hj _
      have := (List.getElem?_eq_some_iff.1 hj).1
      omega)
  · intro i t p ht hp hd habs
    have hal := (bimgP_segOK_parts d.pattern p.2.seg (w.segOK (List.mem_of_getElem? hp))).1
    have := (w.dyn_absent_len ht hp hd habs).1
    have := bimg_le_alignNat (t.1 - init + t.2.len) p.2.seg.align hal
    omega

/-- the export followed by trailing bytes, when the last table entry is not a whole-rest parser and - if it is an absent
    floating entry - the trailing bytes end at or before the aligned offset where it would be looked for -/
theorem toPT_tail (w : BimgPW ext fcbSup d init L b) (tail : Bytes)
    (hlast : ∀ p, L.getLast? = some p → p.2.seg.parser ≠ .greedy ∧ p.2.seg.parser ≠ .sb ∧
      (p.2.present init = false → b.length + tail.length ≤ alignNat b.length p.2.seg.align)) :
    BimgPT ext fcbSup d init L b (b ++ tail) := by
  refine ⟨w, ?_, ?_, ?_, ?_, ?_⟩
  · intro p hp hpr k hk
    have := w.fin p hp hpr
    rw [List.getElem?_append_left (by omega)]
    exact w.atB p hp hpr k hk
  · intro p hp hpr
    have := w.fin p hp hpr
    rw [List.length_append]
    omega
  · intro k ⟨u, hu, hupr, hk⟩ hfree
    have := w.fin u hu hupr
    rw [List.getElem?_append_left (by omega)]
    exact w.out k (by omega) hfree
  · intro p hp hpr hg
    obtain ⟨n, hn⟩ := List.getElem?_of_mem hp
    have hl := w.greedy_last hn hg
    have hlastp : L.getLast? = some p := by
      rw [List.getLast?_eq_getElem?, hl]
      simpa using hn
    obtain ⟨h1, h2, _⟩ := hlast p hlastp
    rcases hg with hg | hg
    · exact absurd hg h1
    · exact absurd hg h2
  · intro i t p ht hp hd habs
    obtain ⟨hle, hlen⟩ := w.dyn_absent_len ht hp hd habs
    have hlastp : L.getLast? = some p := by
      rw [List.getLast?_eq_getElem?, hlen]
      simpa using hp
    obtain ⟨_, _, h3⟩ := hlast p hlastp
    have h3 := h3 habs
    have htmem := List.mem_of_getElem? ht
    obtain ⟨hts, h2⟩ := w.succ_static ht hp
    obtain ⟨htb, _⟩ := h2 hd
    -- the predecessor (a static application entry) is present, so the export ends exactly at its end
    have hti : init ≤ t.1 := by
      by_cases h0 : init = 0
      · omega
      · obtain ⟨v, hv, hvp⟩ := w.init_entry h0
        have hv1 := w.stat v hv init hvp
        obtain ⟨j, hj⟩ := List.getElem?_of_mem hv
        have hjl := (List.getElem?_eq_some_iff.1 hj).1
        rcases Nat.lt_trichotomy j i with h | h | h
        · have := w.chain j i v t h hj ht
          omega
        · subst h
          rw [ht] at hj; cases hj
          omega
        · have : j = i + 1 := by omega
          subst this
          rw [hp] at hj; cases hj
          rw [hd] at hvp; cases hvp
    have htex : excluded init t.2.seg = false := by
      cases hx : excluded init t.2.seg with
      | false => rfl
      | true =>
        obtain ⟨x, hx1, hx2⟩ := (excluded_iff' init t.2.seg).1 hx
        have := w.stat t htmem x hx1
        omega
    have htpr := w.sup t htmem htex (Or.inl ⟨htb, hts⟩)
    have hfin := w.fin t htmem htpr
    have e : b.length = t.1 - init + t.2.len := by omega
    rw [List.length_append, ← e]
    exact h3

end BimgPW

/-! ### the cases of one step of the walk -/

namespace BimgPT
variable {ext : Ext} {fcbSup : Bool} {d : Desc} {init : Nat} {L : List (Nat × Slot)} {b0 b : Bytes}

/-- a present entry is found at its offset -/
theorem tail_present (w : BimgPT ext fcbSup d init L b0 b) {n : Nat} {p : Nat × Slot} (hn : L[n]? = some p)
    (hpr : p.2.present init = true) (po ps : Nat) :
    bimgTail ext fcbSup b p.2.seg po ps (p.1 - init) =
      some (some (p.1 - init, p.2.bytes), p.1 - init, p.2.len) := by
  have hmem := List.mem_of_getElem? hn
  have hpos := ((bimg_present_iff init p.2).1 hpr).2
  have hfin := w.finT p hmem hpr
  have hbl := bimg_bytes_length p.2
  have hsplit := bimgP_drop_split b p.2.bytes (p.1 - init) (by
    intro k hk
    rw [hbl] at hk
    exact w.atT p hmem hpr k hk)
  rw [hbl] at hsplit
  have hparse := w.base.good p hmem hpr (b.drop (p.1 - init + p.2.len)) (by
    intro hg
    exact List.drop_eq_nil_of_le (w.endG p hmem hpr hg))
  rw [← hsplit] at hparse
  have := bimgP_tail_present ext fcbSup b p.2.seg po ps (p.1 - init) p.2.bytes (by omega) hparse (by
    intro h
    rw [h] at hbl
    simp at hbl
    omega)
  rw [this, hbl]


/-- a static boot-header entry that is not excluded and not present: an application entry follows, every later entry
    starts at or after the end of its window -/
theorem absent_geo (w : BimgPT ext fcbSup d init L b0 b) {n : Nat} {p : Nat × Slot} (hn : L[n]? = some p)
    (hex : excluded init p.2.seg = false) (hst : p.2.seg.pos.isSome = true) (hbh : p.2.seg.bootHeader = true)
    (hsz : 0 < p.2.seg.size) :
    (∀ j r, n < j → L[j]? = some r → p.1 + p.2.seg.size.toNat ≤ r.1) ∧
    p.1 - init + p.2.seg.size.toNat < b.length := by
  have hmem := List.mem_of_getElem? hn
  have hge := w.base.ge p hmem hex
  obtain ⟨m, u, hm, hub, hus⟩ := w.base.app_exists
  have hnm : n < m := by
    rcases Nat.lt_trichotomy m n with h | h | h
    · have := w.base.headers h hm hn hub
      rw [hbh] at this; cases this
    · subst h
      rw [hn] at hm; cases hm
      rw [hbh] at hub; cases hub
    · exact h
  have hml : m < L.length := (List.getElem?_eq_some_iff.1 hm).1
  have hq : L[n + 1]? = some L[n + 1] := List.getElem?_eq_getElem (by omega)
  obtain ⟨_, h2⟩ := w.base.succ_static hn hq
  have hqs : (L[n + 1]'(by omega)).2.seg.pos.isSome = true := by
    cases hqp : (L[n + 1]'(by omega)).2.seg.pos with
    | none =>
      have := (h2 hqp).1
      rw [hbh] at this; cases this
    | some y => rfl
  have hwin := w.base.window hn hq hst hqs hsz
  have hlater : ∀ j r, n < j → L[j]? = some r → p.1 + p.2.seg.size.toNat ≤ r.1 := by
    intro j r hj hr
    by_cases hj' : j = n + 1
    · subst hj'
      rw [hq] at hr; cases hr
      exact hwin
    · have := w.base.chain (n + 1) j _ r (by omega) hq hr
      omega
  refine ⟨hlater, ?_⟩
  have hu1 := hlater m u hnm hm
  have humem := List.mem_of_getElem? hm
  have huex : excluded init u.2.seg = false := by
    cases hx : excluded init u.2.seg with
    | false => rfl
    | true =>
      obtain ⟨x, hx1, hx2⟩ := (excluded_iff' init u.2.seg).1 hx
      have := w.base.stat u humem x hx1
      omega
  have hupr := w.base.sup u humem huex (Or.inl ⟨hub, hus⟩)
  have := w.finT u humem hupr
  have := ((bimg_present_iff init u.2).1 hupr).2
  have := w.base.ge u humem huex
  omega

/-- … so its window holds the fill byte only -/
theorem absent_window (w : BimgPT ext fcbSup d init L b0 b) {n : Nat} {p : Nat × Slot} (hn : L[n]? = some p)
    (hex : excluded init p.2.seg = false) (hst : p.2.seg.pos.isSome = true) (hbh : p.2.seg.bootHeader = true)
    (hsz : 0 < p.2.seg.size) (habs : p.2.present init = false) :
    (b.drop (p.1 - init)).take p.2.seg.size.toNat =
      List.replicate p.2.seg.size.toNat (if d.pattern = .ones then 0xFF else 0x00) := by
  obtain ⟨hlater, hlen⟩ := w.absent_geo hn hex hst hbh hsz
  have hmem := List.mem_of_getElem? hn
  have hge := w.base.ge p hmem hex
  have := bimg_take_drop_of_get b (List.replicate p.2.seg.size.toNat (if d.pattern = .ones then (0xFF : UInt8) else 0x00))
    (p.1 - init) (by
      intro k hk
      rw [List.length_replicate] at hk
      rw [List.getElem?_replicate, if_pos hk]
      apply w.outT _ (by
        obtain ⟨m, u, hm, hub, hus⟩ := w.base.app_exists
        have humem := List.mem_of_getElem? hm
        have hnm : n < m := by
          rcases Nat.lt_trichotomy m n with h | h | h
          · have := w.base.headers h hm hn hub
            rw [hbh] at this; cases this
          · subst h
            rw [hn] at hm; cases hm
            rw [hbh] at hub; cases hub
          · exact h
        have huex : excluded init u.2.seg = false := by
          cases hx : excluded init u.2.seg with
          | false => rfl
          | true =>
            obtain ⟨x, hx1, hx2⟩ := (excluded_iff' init u.2.seg).1 hx
            have := w.base.stat u humem x hx1
            have := hlater m u hnm hm
            omega
        have hupr := w.base.sup u humem huex (Or.inl ⟨hub, hus⟩)
        have := hlater m u hnm hm
        have := ((bimg_present_iff init u.2).1 hupr).2
        have := w.base.ge u humem huex
        exact ⟨u, humem, hupr, by omega⟩)
      intro r hr hrp
      obtain ⟨j, hj⟩ := List.getElem?_of_mem hr
      have hrge := w.base.ge r hr ((bimg_present_iff init r.2).1 hrp).1
      rcases Nat.lt_trichotomy j n with h | h | h
      · have := w.base.chain j n r p h hj hn
        right; omega
      · subst h
        rw [hn] at hj; cases hj
        rw [habs] at hrp; cases hrp
      · have := hlater j r h hj
        left; omega)
  rw [List.length_replicate] at this
  exact this


/-- a static entry that is not excluded and not supplied reads back as padding -/
theorem tail_absent (w : BimgPT ext fcbSup d init L b0 b) {n : Nat} {p : Nat × Slot} (hn : L[n]? = some p)
    (hex : excluded init p.2.seg = false) (hst : p.2.seg.pos.isSome = true) (habs : p.2.present init = false)
    (po ps : Nat) :
    bimgTail ext fcbSup b p.2.seg po ps (p.1 - init) = some (none, po, ps) := by
  have hmem := List.mem_of_getElem? hn
  obtain ⟨_, k2, k3, k4, k5, k6, k7, k8, _⟩ := bimgP_segOK_parts d.pattern p.2.seg (w.base.segOK hmem)
  have hnsup : ¬ (p.2.seg.bootHeader = false ∧ p.2.seg.pos.isSome = true ∨ p.2.seg.parser = .imageVersion ∨
      p.2.seg.parser = .imageVersionAp) := by
    intro hh
    rw [w.base.sup p hmem hex hh] at habs
    cases habs
  have hbh : p.2.seg.bootHeader = true := by
    cases hb : p.2.seg.bootHeader with
    | true => rfl
    | false => exact absurd (Or.inl ⟨hb, hst⟩) hnsup
  have hpar : p.2.seg.parser = .raw ∨ (p.2.seg.parser = .fcb ∧ 4 ≤ p.2.seg.size) ∨ p.2.seg.parser = .xmcd := by
    cases hp : p.2.seg.parser with
    | raw => exact Or.inl rfl
    | imageVersion => exact absurd (Or.inr (Or.inl hp)) hnsup
    | imageVersionAp => exact absurd (Or.inr (Or.inr hp)) hnsup
    | fcb => exact Or.inr (Or.inl ⟨rfl, k4 hp⟩)
    | xmcd => exact Or.inr (Or.inr rfl)
    | greedy => have := (k7 (Or.inl hp)).2; rw [hbh] at this; cases this
    | ahab => have := (k7 (Or.inr (Or.inl hp))).2; rw [hbh] at this; cases this
    | sb => have := (k7 (Or.inr (Or.inr hp))).2; rw [hbh] at this; cases this
    | unknown => exact absurd hp k2
  have hsz : 0 < p.2.seg.size := by
    rcases hpar with h | ⟨_, h⟩ | h
    · exact k6 h hbh
    · omega
    · exact k5 h
  obtain ⟨_, hlen⟩ := w.absent_geo hn hex hst hbh hsz
  have hwin := w.absent_window hn hex hst hbh hsz habs
  have hparse := bimgP_parse_absent ext fcbSup d.pattern p.2.seg (b.drop (p.1 - init))
    (bimg_descOK_parts d w.base.ok).2.2.1 k3 hsz (by rw [List.length_drop]; omega) hwin hpar (bimgP_fcbTag d w.base.ok)
  exact bimgP_tail_absent ext fcbSup b p.2.seg po ps (p.1 - init) (by omega) hparse

end BimgPT

/-- what the walk remembers when it reaches entry `n`: offset and length of the entry before it, if that one is present -/
def BimgInv (init : Nat) (L : List (Nat × Slot)) (n po ps : Nat) : Prop :=
  ∀ m t, n = m + 1 → L[m]? = some t → t.2.present init = true → po = t.1 - init ∧ ps = t.2.len

namespace BimgPT
variable {ext : Ext} {fcbSup : Bool} {d : Desc} {init : Nat} {L : List (Nat × Slot)} {b0 b : Bytes}

/-- the dynamic (last) entry -/
theorem step_dyn (w : BimgPT ext fcbSup d init L b0 b) {n : Nat} {p : Nat × Slot} (hn : L[n]? = some p)
    (hd : p.2.seg.pos = none) (first : Bool) (hf : first = true → n = 0) (po ps : Nat)
    (hinv : BimgInv init L n po ps) :
    stepSeg ext fcbSup init b p.2.seg first po ps =
      some (bimgExp init p, if p.2.present init then (p.1 - init, p.2.len) else (po, ps)) := by
  have hmem := List.mem_of_getElem? hn
  have hnl : n < L.length := (List.getElem?_eq_some_iff.1 hn).1
  cases n with
  | zero =>
    have := w.base.head_static hn
    rw [hd] at this; cases this
  | succ m =>
    have hfirst : first = false := by
      cases first with
      | false => rfl
      | true => have := hf rfl; omega
    subst hfirst
    have hm : L[m]? = some L[m] := List.getElem?_eq_getElem (by omega)
    generalize L[m]'(by omega) = t at hm
    have htmem := List.mem_of_getElem? hm
    obtain ⟨hts, h2⟩ := w.base.succ_static hm hn
    obtain ⟨htb, hlen⟩ := h2 hd
    -- the predecessor is not excluded
    have hti : init ≤ t.1 := by
      by_cases h0 : init = 0
      · omega
      · obtain ⟨v, hv, hvp⟩ := w.base.init_entry h0
        have hv1 := w.base.stat v hv init hvp
        obtain ⟨j, hj⟩ := List.getElem?_of_mem hv
        have hjl := (List.getElem?_eq_some_iff.1 hj).1
        rcases Nat.lt_trichotomy j m with h | h | h
        · have := w.base.chain j m v t h hj hm
          omega
        · subst h
          rw [hm] at hj; cases hj
          omega
        · have : j = m + 1 := by omega
          subst this
          rw [hn] at hj; cases hj
          rw [hd] at hvp; cases hvp
    have htex : excluded init t.2.seg = false := by
      cases hx : excluded init t.2.seg with
      | false => rfl
      | true =>
        obtain ⟨x, hx1, hx2⟩ := (excluded_iff' init t.2.seg).1 hx
        have := w.base.stat t htmem x hx1
        omega
    have htpr := w.base.sup t htmem htex (Or.inl ⟨htb, hts⟩)
    obtain ⟨hpo, hps⟩ := hinv m t rfl hm htpr
    subst hpo; subst hps
    have hal := (bimgP_segOK_parts d.pattern p.2.seg (w.base.segOK hmem)).1
    have hstart : alignNat (t.1 - init + t.2.len) p.2.seg.align = p.1 - init := by
      have e : t.1 - init + t.2.len = t.1 + t.2.len - init := by omega
      rw [e, bimgP_alignNat_sub _ _ _ hal (w.base.align_init hmem hd) (by omega), w.base.dyn m t p hm hn hd]
    by_cases hpr : p.2.present init = true
    · have hfin := w.finT p hmem hpr
      have hpos := ((bimg_present_iff init p.2).1 hpr).2
      have hbl := bimg_bytes_length p.2
      rw [bimgP_step_dyn ext fcbSup init b p.2.seg _ _ hd (by rw [hstart]; omega), hstart, w.tail_present hn hpr]
      · simp [bimgExp, hpr]
      · intro hfe
        rw [hstart, bimgP_drop_split b p.2.bytes (p.1 - init) (by
          intro k hk
          rw [hbl] at hk
          exact w.atT p hmem hpr k hk)]
        exact w.base.find p hmem hpr hfe _
    · have hpr' : p.2.present init = false := by simpa using hpr
      have hle := w.endD m t p hm hn hd hpr'
      rw [bimgP_step_skip ext fcbSup init b p.2.seg _ _ hd hle]
      simp [bimgExp, hpr']

/-- one step of the walk over the layout -/
theorem step (w : BimgPT ext fcbSup d init L b0 b) {n : Nat} {p : Nat × Slot} (hn : L[n]? = some p)
    (first : Bool) (hf : first = true → n = 0) (po ps : Nat) (hinv : BimgInv init L n po ps) :
    ∃ po' ps', stepSeg ext fcbSup init b p.2.seg first po ps = some (bimgExp init p, po', ps') ∧
      BimgInv init L (n + 1) po' ps' := by
  have hmem := List.mem_of_getElem? hn
  have hkeep : p.2.present init = false → BimgInv init L (n + 1) po ps := by
    intro habs m t hm ht htp
    have : m = n := by omega
    subst this
    rw [hn] at ht; cases ht
    rw [habs] at htp; cases htp
  have hnew : BimgInv init L (n + 1) (p.1 - init) p.2.len := by
    intro m t hm ht _
    have : m = n := by omega
    subst this
    rw [hn] at ht; cases ht
    exact ⟨rfl, rfl⟩
  by_cases hpr : p.2.present init = true
  · refine ⟨p.1 - init, p.2.len, ?_, hnew⟩
    have hex := ((bimg_present_iff init p.2).1 hpr).1
    cases hpos : p.2.seg.pos with
    | none =>
      rw [w.step_dyn hn hpos first hf po ps hinv]
      simp [hpr]
    | some x =>
      have hx := w.base.stat p hmem x hpos
      rw [bimgP_step_static ext fcbSup init b p.2.seg first po ps x hex hpos, ← hx, w.tail_present hn hpr]
      simp [bimgExp, hpr]
  · have habs : p.2.present init = false := by simpa using hpr
    refine ⟨po, ps, ?_, hkeep habs⟩
    have hexp : bimgExp init p = none := by simp [bimgExp, habs]
    rw [hexp]
    by_cases hex : excluded init p.2.seg = true
    · exact bimgP_step_excluded ext fcbSup init b p.2.seg first po ps hex
    · have hex' : excluded init p.2.seg = false := by simpa using hex
      cases hpos : p.2.seg.pos with
      | none =>
        rw [w.step_dyn hn hpos first hf po ps hinv, hexp]
        simp [habs]
      | some x =>
        have hx := w.base.stat p hmem x hpos
        rw [bimgP_step_static ext fcbSup init b p.2.seg first po ps x hex' hpos, ← hx]
        exact w.tail_absent hn hex' (by rw [hpos]; rfl) habs po ps

theorem walkGo (w : BimgPT ext fcbSup d init L b0 b) (suf : List (Nat × Slot)) (n : Nat) (hsuf : L.drop n = suf)
    (first : Bool) (hf : first = true → n = 0) (po ps : Nat) (hinv : BimgInv init L n po ps) :
    Bimg.walkGo ext fcbSup init b (suf.map (·.2.seg)) first po ps = .ok (suf.map (bimgExp init)) := by
  induction suf generalizing n first po ps with
  | nil => rfl
  | cons p r ih =>
    have hn : L[n]? = some p := by
      have := congrArg List.head? hsuf
      rw [List.head?_drop] at this
      simpa using this
    have hr : L.drop (n + 1) = r := by
      have := congrArg List.tail hsuf
      rw [List.tail_drop] at this
      simpa using this
    obtain ⟨po', ps', hstep, hinv'⟩ := w.step hn first hf po ps hinv
    simp only [List.map_cons, Bimg.walkGo]
    rw [hstep]
    simp only []
    rw [ih (n + 1) hr false (by intro h; cases h) po' ps' hinv']

end BimgPT

theorem parse_export' (ext : Ext) (fcbSup : Bool) (d : Desc) (init : Nat) (raws : List (Option Bytes))
    (h : Ctx d init raws) (hsup : Supplied init (mkSlots d.segs raws)) (hdel : Delimit ext fcbSup init (mkSlots d.segs raws))
    (b : Bytes) (hb : exportImg d init raws = .ok b) :
    walk ext fcbSup init d.segs b = .ok (expectedFound init (mkSlots d.segs raws)) := by
  have w := bimgP_world ext fcbSup d init raws h hsup hdel b hb
  have g := bimg_geo d init raws h
  rw [bimgP_expectedFound g]
  unfold walk
  have := w.toPT.walkGo _ 0 rfl true (fun _ => rfl) 0 0 (by intro m t hm; omega)
  rw [List.drop_zero, ← w.segs] at this
  exact this

/-- the same for the export followed by trailing bytes (a flash dump), see `BimgPW.toPT_tail` -/
theorem parse_export_tail' (ext : Ext) (fcbSup : Bool) (d : Desc) (init : Nat) (raws : List (Option Bytes))
    (h : Ctx d init raws) (hsup : Supplied init (mkSlots d.segs raws)) (hdel : Delimit ext fcbSup init (mkSlots d.segs raws))
    (b : Bytes) (hb : exportImg d init raws = .ok b) (tail : Bytes)
    (hlast : ∀ s, (mkSlots d.segs raws).getLast? = some s → s.seg.parser ≠ .greedy ∧ s.seg.parser ≠ .sb ∧
      (s.present init = false → b.length + tail.length ≤ alignNat b.length s.seg.align)) :
    walk ext fcbSup init d.segs (b ++ tail) = .ok (expectedFound init (mkSlots d.segs raws)) := by
  have w := bimgP_world ext fcbSup d init raws h hsup hdel b hb
  have g := bimg_geo d init raws h
  rw [bimgP_expectedFound g]
  unfold walk
  have wt := w.toPT_tail tail (by
    intro p hp
    apply hlast p.2
    have := congrArg (Option.map (·.2)) hp
    rw [← List.getLast?_map, bimgLayout_snd] at this
    exact this)
  have := wt.walkGo _ 0 rfl true (fun _ => rfl) 0 0 (by intro m t hm; omega)
  rw [List.drop_zero, ← w.segs] at this
  exact this


/-! ### `parseAll` -/

theorem bimgP_hasApp (init : Nat) (L : List (Nat × Slot))
    (h : ∃ p ∈ L, (bimgExp init p).isSome = true ∧ p.2.seg.bootHeader = false) :
    hasApp (L.map (·.2.seg)) (L.map (bimgExp init)) = true := by
  induction L with
  | nil => obtain ⟨p, hp, _⟩ := h; cases hp
  | cons x r ih =>
    obtain ⟨p, hp, h1, h2⟩ := h
    simp only [List.map_cons, hasApp, Bool.or_eq_true, Bool.and_eq_true, Bool.not_eq_true']
    rcases List.mem_cons.1 hp with rfl | hp
    · exact Or.inl ⟨h1, h2⟩
    · exact Or.inr (ih ⟨p, hp, h1, h2⟩)

theorem BimgPW.app_found {ext : Ext} {fcbSup : Bool} {d : Desc} {init : Nat} {L : List (Nat × Slot)} {b : Bytes}
    (w : BimgPW ext fcbSup d init L b) :
    ∃ p ∈ L, (bimgExp init p).isSome = true ∧ p.2.seg.bootHeader = false := by
  have key : ∃ p ∈ L, p.2.seg.bootHeader = false ∧ p.2.seg.pos.isSome = true ∧ excluded init p.2.seg = false := by
    obtain ⟨m, u, hm, hub, hus⟩ := w.app_exists
    have humem := List.mem_of_getElem? hm
    cases hx : excluded init u.2.seg with
    | false => exact ⟨u, humem, hub, hus, hx⟩
    | true =>
      obtain ⟨x, hx1, hx2⟩ := (excluded_iff' init u.2.seg).1 hx
      have hu1 := w.stat u humem x hx1
      obtain ⟨v, hv, hvp⟩ := w.init_entry (by omega)
      have hv1 := w.stat v hv init hvp
      obtain ⟨j, hj⟩ := List.getElem?_of_mem hv
      have hmj : m < j := by
        rcases Nat.lt_trichotomy j m with h | h | h
        · have := w.chain j m v u h hj hm
          omega
        · subst h
          rw [hm] at hj; cases hj
          omega
        · exact h
      refine ⟨v, hv, w.headers hmj hm hj hub, by rw [hvp]; rfl, ?_⟩
      simp [excluded, hvp]
  obtain ⟨p, hp, h1, h2, h3⟩ := key
  have hpr := w.sup p hp h3 (Or.inl ⟨h1, h2⟩)
  exact ⟨p, hp, by simp [bimgExp, hpr], h1⟩

theorem bimgP_setInit (segs : List Seg) (init : Nat) (h : init = 0 ∨ init ∈ statics segs) :
    setInit segs (init : Int) = .ok init := by
  unfold setInit
  rw [if_neg (by omega)]
  by_cases h0 : init = 0
  · subst h0
    simp
  · rw [if_neg (by omega)]
    have hmem : init ∈ statics segs := by
      rcases h with h | h
      · exact absurd h h0
      · exact h
    have e : ((init : Int)).toNat = init := by omega
    rw [e]
    cases hm : minList ((statics segs).filter (fun o => init ≤ o)) with
    | none =>
      have := (bimg_minList_none _).1 hm
      rw [List.filter_eq_nil_iff] at this
      have := this init hmem
      simp at this
    | some m =>
      obtain ⟨h1, h2⟩ := bimg_minList_some _ _ hm
      rw [List.mem_filter] at h1
      have h3 := h2 init (by rw [List.mem_filter]; exact ⟨hmem, by simp⟩)
      have h4 := h1.2
      simp only [decide_eq_true_eq] at h4
      simp only []
      congr 1
      omega

theorem bimgP_trial (ext : Ext) (fcbSup : Bool) (d : Desc) (init : Nat) (raws : List (Option Bytes))
    (h : Ctx d init raws) (hsup : Supplied init (mkSlots d.segs raws)) (hdel : Delimit ext fcbSup init (mkSlots d.segs raws))
    (b : Bytes) (hb : exportImg d init raws = .ok b) :
    trial ext fcbSup d.segs b (init : Int) = some (init, expectedFound init (mkSlots d.segs raws)) := by
  have w := bimgP_world ext fcbSup d init raws h hsup hdel b hb
  have g := bimg_geo d init raws h
  unfold trial
  rw [bimgP_setInit d.segs init h.adm]
  simp only []
  rw [parse_export' ext fcbSup d init raws h hsup hdel b hb]
  simp only []
  have happ : hasApp d.segs (expectedFound init (mkSlots d.segs raws)) = true := by
    rw [bimgP_expectedFound g]
    have := bimgP_hasApp init _ w.app_found
    rw [← w.segs] at this
    exact this
  rw [if_pos happ]

theorem bimgP_firstSome {α β} (f : α → Option β) (pre post : List α) (x : α) (y : β)
    (hpre : ∀ c ∈ pre, f c = none) (hx : f x = some y) : firstSome f (pre ++ x :: post) = some y := by
  induction pre with
  | nil => simp [firstSome, hx]
  | cons c r ih =>
    simp only [List.cons_append, firstSome]
    rw [hpre c (by simp)]
    exact ih (fun c hc => hpre c (List.mem_cons_of_mem _ hc))

theorem parseAll_full' (ext : Ext) (fcbSup : Bool) (d : Desc) (raws : List (Option Bytes))
    (h : Ctx d 0 raws) (hsup : Supplied 0 (mkSlots d.segs raws)) (hdel : Delimit ext fcbSup 0 (mkSlots d.segs raws))
    (b : Bytes) (hb : exportImg d 0 raws = .ok b) :
    parseAll ext fcbSup d.segs b = .ok (0, expectedFound 0 (mkSlots d.segs raws)) := by
  have := bimgP_trial ext fcbSup d 0 raws h hsup hdel b hb
  unfold parseAll
  simp only [Int.natCast_zero] at this
  rw [this]

theorem parseAll_later' (ext : Ext) (fcbSup : Bool) (d : Desc) (init : Nat) (raws : List (Option Bytes))
    (h : Ctx d init raws) (hsup : Supplied init (mkSlots d.segs raws)) (hdel : Delimit ext fcbSup init (mkSlots d.segs raws))
    (b : Bytes) (hb : exportImg d init raws = .ok b)
    (pre post : List Int) (hc : initCandidates d.segs = pre ++ (init : Int) :: post)
    (h0 : trial ext fcbSup d.segs b 0 = none) (hpre : ∀ c ∈ pre, trial ext fcbSup d.segs b c = none) :
    parseAll ext fcbSup d.segs b = .ok (init, expectedFound init (mkSlots d.segs raws)) := by
  have := bimgP_trial ext fcbSup d init raws h hsup hdel b hb
  unfold parseAll
  rw [h0, hc]
  simp only []
  rw [bimgP_firstSome _ pre post _ _ hpre this]


/-- one trial on the export followed by trailing bytes -/
theorem bimgP_trial_tail (ext : Ext) (fcbSup : Bool) (d : Desc) (init : Nat) (raws : List (Option Bytes))
    (h : Ctx d init raws) (hsup : Supplied init (mkSlots d.segs raws)) (hdel : Delimit ext fcbSup init (mkSlots d.segs raws))
    (b : Bytes) (hb : exportImg d init raws = .ok b) (tail : Bytes)
    (hlast : ∀ s, (mkSlots d.segs raws).getLast? = some s → s.seg.parser ≠ .greedy ∧ s.seg.parser ≠ .sb ∧
      (s.present init = false → b.length + tail.length ≤ alignNat b.length s.seg.align)) :
    trial ext fcbSup d.segs (b ++ tail) (init : Int) = some (init, expectedFound init (mkSlots d.segs raws)) := by
  have w := bimgP_world ext fcbSup d init raws h hsup hdel b hb
  have g := bimg_geo d init raws h
  unfold trial
  rw [bimgP_setInit d.segs init h.adm]
  simp only []
  rw [parse_export_tail' ext fcbSup d init raws h hsup hdel b hb tail hlast]
  simp only []
  have happ : hasApp d.segs (expectedFound init (mkSlots d.segs raws)) = true := by
    rw [bimgP_expectedFound g]
    have := bimgP_hasApp init _ w.app_found
    rw [← w.segs] at this
    exact this
  rw [if_pos happ]

theorem parseAll_full_tail' (ext : Ext) (fcbSup : Bool) (d : Desc) (raws : List (Option Bytes))
    (h : Ctx d 0 raws) (hsup : Supplied 0 (mkSlots d.segs raws)) (hdel : Delimit ext fcbSup 0 (mkSlots d.segs raws))
    (b : Bytes) (hb : exportImg d 0 raws = .ok b) (tail : Bytes)
    (hlast : ∀ s, (mkSlots d.segs raws).getLast? = some s → s.seg.parser ≠ .greedy ∧ s.seg.parser ≠ .sb ∧
      (s.present 0 = false → b.length + tail.length ≤ alignNat b.length s.seg.align)) :
    parseAll ext fcbSup d.segs (b ++ tail) = .ok (0, expectedFound 0 (mkSlots d.segs raws)) := by
  have := bimgP_trial_tail ext fcbSup d 0 raws h hsup hdel b hb tail hlast
  unfold parseAll
  simp only [Int.natCast_zero] at this
  rw [this]

theorem parseAll_later_tail' (ext : Ext) (fcbSup : Bool) (d : Desc) (init : Nat) (raws : List (Option Bytes))
    (h : Ctx d init raws) (hsup : Supplied init (mkSlots d.segs raws)) (hdel : Delimit ext fcbSup init (mkSlots d.segs raws))
    (b : Bytes) (hb : exportImg d init raws = .ok b) (tail : Bytes)
    (hlast : ∀ s, (mkSlots d.segs raws).getLast? = some s → s.seg.parser ≠ .greedy ∧ s.seg.parser ≠ .sb ∧
      (s.present init = false → b.length + tail.length ≤ alignNat b.length s.seg.align))
    (pre post : List Int) (hc : initCandidates d.segs = pre ++ (init : Int) :: post)
    (h0 : trial ext fcbSup d.segs (b ++ tail) 0 = none) (hpre : ∀ c ∈ pre, trial ext fcbSup d.segs (b ++ tail) c = none) :
    parseAll ext fcbSup d.segs (b ++ tail) = .ok (init, expectedFound init (mkSlots d.segs raws)) := by
  have := bimgP_trial_tail ext fcbSup d init raws h hsup hdel b hb tail hlast
  unfold parseAll
  rw [h0, hc]
  simp only []
  rw [bimgP_firstSome _ pre post _ _ hpre this]

/-- whole-rest parsers (MBI, HAB, SB2.1, SB3.1): trailing bytes behind the container become part of the segment - the
    parser is handed container ++ tail and, when it accepts, the raw block is all of it -/
theorem greedy_takes_tail' (ext : Ext) (fcbSup : Bool) (s : Seg) (c tail : Bytes)
    (hp : s.parser = .greedy ∨ s.parser = .sb) (hsz : s.size < 0) (hne : c ≠ []) :
    parseSeg ext fcbSup s (c ++ tail) = (match ext.app s.kind (c ++ tail) with
      | some _ => .present (c ++ tail)
      | none => .err) := by
  have hne' : (c ++ tail).isEmpty = false := by cases c <;> simp_all
  unfold parseSeg
  rcases hp with hp | hp
  · rw [hp]
    simp only [hne', Bool.false_eq_true, if_false]
    cases ext.app s.kind (c ++ tail) <;> rfl
  · rw [hp]
    simp only []
    cases ext.app s.kind (c ++ tail) with
    | none => rfl
    | some n =>
      simp only []
      unfold parseRaw isPadding
      have h1 : ¬ (0 < s.size) := by omega
      simp [h1]


end SpsdkVerif.Bimg
